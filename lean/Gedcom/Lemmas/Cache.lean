/-
  Helper lemmas for C13: well-formedness and coherence of the cache state machine
  (`Gedcom.Model.Cache`), Hoare-style soundness of the memoised reads.
-/
import Gedcom.Model.Cache
namespace Gedcom.Cache
open Gedcom

/-! ## invariants -/

/-- every id that the document or a cache key mentions is allocated -/
structure WF (s : St) : Prop where
  roots : ∀ r ∈ s.roots, r < s.heap.length
  kids : ∀ n c, c ∈ (abs s).kids n → c < s.heap.length
  kNC : ∀ e ∈ s.ncache, e.1.1 < s.heap.length
  kH : ∀ e ∈ s.cHusb, e.1 < s.heap.length
  kW : ∀ e ∈ s.cWife, e.1 < s.heap.length
  kF : ∀ e ∈ s.cFams, e.1 < s.heap.length
  kS : ∀ e ∈ s.cSpouses, e.1 < s.heap.length

/-- every cache entry equals the value recomputed from the uncached document; the pointer
    index is moreover complete -/
structure Coherent (s : St) : Prop where
  nc : ∀ e ∈ s.ncache, e.2 = specNWT (abs s) e.1.1 e.1.2
  df : ∀ l, s.dfams = some l → l = specFamilies (abs s)
  idx : ∀ p, lookup s.ptrIdx p = specByPtr (abs s) p
  hus : ∀ e ∈ s.cHusb, (abs s).tag e.1 = tFAM → e.2 = specHusband (abs s) e.1
  wif : ∀ e ∈ s.cWife, (abs s).tag e.1 = tFAM → e.2 = specWife (abs s) e.1
  fam : ∀ e ∈ s.cFams, e.1 ∈ s.roots → (abs s).tag e.1 = tINDI → e.2 = specIndFamilies (abs s) e.1
  spo : ∀ e ∈ s.cSpouses, e.1 ∈ s.roots → (abs s).tag e.1 = tINDI → e.2 = specSpouses (abs s) e.1

def Inv (s : St) : Prop := WF s ∧ Coherent s

/-! ## small facts -/

theorem lookup_mem {κ β : Type} [BEq κ] [LawfulBEq κ] {c : List (κ × β)} {k : κ} {v : β}
    (h : lookup c k = some v) : (k, v) ∈ c := by
  unfold lookup at h
  split at h
  · rename_i e he
    have hm := List.mem_of_find?_eq_some he
    have hk := List.find?_some he
    simp at hk h
    subst h; subst hk
    exact hm
  · simp at h

theorem tag_lt {a : Abs} {n : Id} {t : Str} (h : a.tag n = t) (ht : t ≠ []) : n < a.heap.length := by
  unfold Abs.tag at h
  split at h
  · rename_i r hr
    exact (List.getElem?_eq_some_iff.mp hr).1
  · exact absurd h.symm ht

theorem tFAM_ne : tFAM ≠ [] := by decide
theorem tINDI_ne : tINDI ≠ [] := by decide

@[simp] theorem abs_heap (s : St) : (abs s).heap = s.heap := rfl
@[simp] theorem abs_roots (s : St) : (abs s).roots = s.roots := rfl

/-! ## soundness of reads: a read keeps the invariant, keeps the document, and answers the spec -/

def Sound {α : Type} (pre : Abs → Prop) (m : M α) (spec : Abs → α) : Prop :=
  ∀ s, Inv s → pre (abs s) → Inv (m s).2 ∧ abs (m s).2 = abs s ∧ (m s).1 = spec (abs s)

theorem Sound.weaken {α : Type} {pre pre' : Abs → Prop} {m : M α} {g : Abs → α}
    (h : Sound pre m g) (hp : ∀ a, pre' a → pre a) : Sound pre' m g :=
  fun s hi hp' => h s hi (hp _ hp')

theorem Sound.pure {α : Type} {pre : Abs → Prop} (x : α) : Sound pre (M.pure x) (fun _ => x) :=
  fun _ hi _ => ⟨hi, rfl, rfl⟩

theorem Sound.ofAbs {α : Type} {pre : Abs → Prop} (f : Abs → α) : Sound pre (M.ofAbs f) f :=
  fun _ hi _ => ⟨hi, rfl, rfl⟩

theorem Sound.bind {α β : Type} {pre : Abs → Prop} {m : M α} {k : α → M β} {f : Abs → α}
    {g : α → Abs → β} (hm : Sound pre m f)
    (hk : ∀ x, Sound (fun a => pre a ∧ x = f a) (k x) (g x)) :
    Sound pre (M.bind m k) (fun a => g (f a) a) := by
  intro s hi hp
  obtain ⟨i1, a1, r1⟩ := hm s hi hp
  obtain ⟨i2, a2, r2⟩ := hk (m s).1 (m s).2 i1 ⟨a1 ▸ hp, a1 ▸ r1⟩
  refine ⟨i2, a2.trans a1, ?_⟩
  show (k (m s).1 (m s).2).1 = _
  rw [r2, a1, r1]

/-- `bind` when the continuation's spec does not need to know where its argument came from -/
theorem Sound.bind' {α β : Type} {pre : Abs → Prop} {m : M α} {k : α → M β} {f : Abs → α}
    {g : α → Abs → β} (hm : Sound pre m f) (hk : ∀ x, Sound pre (k x) (g x)) :
    Sound pre (M.bind m k) (fun a => g (f a) a) :=
  Sound.bind hm fun x => (hk x).weaken fun _ h => h.1

theorem Sound.congr {α : Type} {pre : Abs → Prop} {m : M α} {g g' : Abs → α}
    (h : Sound pre m g) (hg : ∀ a, pre a → g a = g' a) : Sound pre m g' := by
  intro s hi hp
  obtain ⟨i1, a1, r1⟩ := h s hi hp
  exact ⟨i1, a1, r1.trans (hg _ hp)⟩

theorem Sound.mapM' {α β : Type} {pre : Abs → Prop} {k : α → M β} {g : α → Abs → β} :
    ∀ (l : List α), (∀ x ∈ l, Sound pre (k x) (g x)) →
      Sound pre (M.mapM' k l) (fun a => l.map (fun x => g x a))
  | [], _ => Sound.pure []
  | x :: xs, h => by
    have hx := h x (List.mem_cons_self)
    have hxs := Sound.mapM' xs (fun y hy => h y (List.mem_cons_of_mem _ hy))
    unfold M.mapM'
    exact Sound.bind' hx fun y => Sound.bind' hxs fun ys => Sound.pure (y :: ys)

theorem Sound.filterM' {α : Type} {pre : Abs → Prop} {k : α → M Bool} {g : α → Abs → Bool} :
    ∀ (l : List α), (∀ x ∈ l, Sound pre (k x) (g x)) →
      Sound pre (M.filterM' k l) (fun a => l.filter (fun x => g x a))
  | [], _ => Sound.pure []
  | x :: xs, h => by
    have hx := h x (List.mem_cons_self)
    have hxs := Sound.filterM' xs (fun y hy => h y (List.mem_cons_of_mem _ hy))
    unfold M.filterM'
    refine (Sound.bind' hx fun b => Sound.bind' hxs fun ys => Sound.pure (if b then x :: ys else ys)).congr ?_
    intro a _
    simp only [List.filter_cons]

/-! ## the primitive reads -/

theorem nwt_sound (n : Id) (t : Str) :
    Sound (fun a => n < a.heap.length) (nwt n t) (fun a => specNWT a n t) := by
  intro s ⟨wf, co⟩ hp
  unfold nwt
  split
  · rename_i ids h
    exact ⟨⟨wf, co⟩, rfl, co.nc _ (lookup_mem h)⟩
  · split
    · refine ⟨⟨⟨wf.roots, wf.kids, ?_, wf.kH, wf.kW, wf.kF, wf.kS⟩,
               ⟨?_, co.df, co.idx, co.hus, co.wif, co.fam, co.spo⟩⟩, rfl, rfl⟩
      · intro e he
        rcases List.mem_cons.mp he with rfl | he
        · exact hp
        · exact wf.kNC e he
      · intro e he
        rcases List.mem_cons.mp he with rfl | he
        · rfl
        · exact co.nc e he
    · exact ⟨⟨⟨wf.roots, wf.kids, wf.kNC, wf.kH, wf.kW, wf.kF, wf.kS⟩,
              ⟨co.nc, co.df, co.idx, co.hus, co.wif, co.fam, co.spo⟩⟩, rfl, rfl⟩

theorem docFamilies_sound {pre : Abs → Prop} : Sound pre docFamilies specFamilies := by
  intro s ⟨wf, co⟩ _
  unfold docFamilies
  split
  · rename_i l h
    exact ⟨⟨wf, co⟩, rfl, co.df l h⟩
  · refine ⟨⟨⟨wf.roots, wf.kids, wf.kNC, wf.kH, wf.kW, wf.kF, wf.kS⟩,
             ⟨co.nc, ?_, co.idx, co.hus, co.wif, co.fam, co.spo⟩⟩, rfl, rfl⟩
    intro l hl
    simp at hl
    exact hl.symm

theorem byPtr_sound {pre : Abs → Prop} (p : Str) : Sound pre (byPtr p) (fun a => specByPtr a p) :=
  fun _ hi _ => ⟨hi, rfl, hi.2.idx p⟩

theorem husband_sound (f : Id) :
    Sound (fun a => a.tag f = tFAM) (husband f) (fun a => specHusband a f) := by
  intro s ⟨wf, co⟩ hp
  have hlt : f < s.heap.length := tag_lt hp tFAM_ne
  unfold husband
  split
  · rename_i h hh
    exact ⟨⟨wf, co⟩, rfl, co.hus _ (lookup_mem hh) hp⟩
  · obtain ⟨⟨wf1, co1⟩, a1, r1⟩ := nwt_sound f tHUSB s ⟨wf, co⟩ hlt
    have hl : (nwt f tHUSB s).2.heap.length = s.heap.length := congrArg (fun a => a.heap.length) a1
    refine ⟨⟨⟨wf1.roots, wf1.kids, wf1.kNC, ?_, wf1.kW, wf1.kF, wf1.kS⟩,
             ⟨co1.nc, co1.df, co1.idx, ?_, co1.wif, co1.fam, co1.spo⟩⟩, a1, ?_⟩
    · intro e he
      rcases List.mem_cons.mp he with rfl | he
      · exact hl ▸ hlt
      · exact wf1.kH e he
    · intro e he ht
      rcases List.mem_cons.mp he with rfl | he
      · show ((nwt f tHUSB s).1).head? = specHusband (abs (nwt f tHUSB s).2) f
        rw [a1, r1]; rfl
      · exact co1.hus e he ht
    · show ((nwt f tHUSB s).1).head? = _
      rw [r1]; rfl

theorem wife_sound (f : Id) :
    Sound (fun a => a.tag f = tFAM) (wife f) (fun a => specWife a f) := by
  intro s ⟨wf, co⟩ hp
  have hlt : f < s.heap.length := tag_lt hp tFAM_ne
  unfold wife
  split
  · rename_i h hh
    exact ⟨⟨wf, co⟩, rfl, co.wif _ (lookup_mem hh) hp⟩
  · obtain ⟨⟨wf1, co1⟩, a1, r1⟩ := nwt_sound f tWIFE s ⟨wf, co⟩ hlt
    have hl : (nwt f tWIFE s).2.heap.length = s.heap.length := congrArg (fun a => a.heap.length) a1
    refine ⟨⟨⟨wf1.roots, wf1.kids, wf1.kNC, wf1.kH, ?_, wf1.kF, wf1.kS⟩,
             ⟨co1.nc, co1.df, co1.idx, co1.hus, ?_, co1.fam, co1.spo⟩⟩, a1, ?_⟩
    · intro e he
      rcases List.mem_cons.mp he with rfl | he
      · exact hl ▸ hlt
      · exact wf1.kW e he
    · intro e he ht
      rcases List.mem_cons.mp he with rfl | he
      · show ((nwt f tWIFE s).1).head? = specWife (abs (nwt f tWIFE s).2) f
        rw [a1, r1]; rfl
      · exact co1.wif e he ht
    · show ((nwt f tWIFE s).1).head? = _
      rw [r1]; rfl

/-! ## the composed reads -/

theorem individualOf_sound {pre : Abs → Prop} (h : Id) :
    Sound pre (individualOf h) (fun a => specIndividualOf a h) := by
  unfold individualOf
  exact Sound.bind' (Sound.ofAbs _) fun p => Sound.bind' (byPtr_sound p) fun r => Sound.ofAbs _

theorem isInd_sound {pre : Abs → Prop} (h : Option Id) (i : Id) :
    Sound pre (isInd h i) (fun a => specIsInd a h i) := by
  unfold isInd
  cases h with
  | none => exact Sound.pure false
  | some h => exact Sound.bind' (individualOf_sound h) fun j => Sound.ofAbs _

theorem hasChild_sound (f i : Id) :
    Sound (fun a => f < a.heap.length) (hasChild f i) (fun a => specHasChild a f i) := by
  unfold hasChild
  exact Sound.bind' (nwt_sound f tCHIL) fun cs => Sound.ofAbs _

theorem member_sound (i f : Id) :
    Sound (fun a => a.tag f = tFAM) (member i f) (fun a => specMember a i f) := by
  unfold member
  exact Sound.bind' ((hasChild_sound f i).weaken fun a h => tag_lt h tFAM_ne) fun c =>
    Sound.bind' (husband_sound f) fun h => Sound.bind' (isInd_sound h i) fun ih =>
    Sound.bind' (wife_sound f) fun w => Sound.bind' (isInd_sound w i) fun iw => Sound.pure _

theorem mem_specFamilies {a : Abs} {f : Id} (h : f ∈ specFamilies a) : a.tag f = tFAM := by
  simp [specFamilies, List.mem_filter] at h
  exact h.2

theorem isIndi_iff {a : Abs} {i : Id} : isIndi a i = true ↔ i ∈ a.roots ∧ a.tag i = tINDI := by
  simp [isIndi]

theorem famLoop_sound {pre : Abs → Prop} (i : Id) :
    Sound pre (M.bind docFamilies fun fs => M.filterM' (member i) fs) (fun a => specIndFamilies a i) := by
  refine Sound.bind (g := fun fs a => fs.filter (fun f => specMember a i f)) docFamilies_sound fun fs => ?_
  refine (Sound.filterM' (pre := fun a => fs = specFamilies a) fs fun f hf => ?_).weaken fun a h => h.2
  exact (member_sound i f).weaken fun a h => mem_specFamilies (h ▸ hf)

theorem indFamilies_sound (i : Id) :
    Sound (fun a => isIndi a i = true) (indFamilies i) (fun a => specIndFamilies a i) := by
  intro s ⟨wf, co⟩ hp
  have ⟨hr, ht⟩ := isIndi_iff.mp hp
  unfold indFamilies
  split
  · rename_i l hl
    exact ⟨⟨wf, co⟩, rfl, co.fam _ (lookup_mem hl) hr ht⟩
  · obtain ⟨⟨wf1, co1⟩, a1, r1⟩ := famLoop_sound (pre := fun _ => True) i s ⟨wf, co⟩ trivial
    generalize (M.bind docFamilies fun fs => M.filterM' (member i) fs) s = r at *
    have hl : r.2.heap.length = s.heap.length := congrArg (fun a => a.heap.length) a1
    refine ⟨⟨⟨wf1.roots, wf1.kids, wf1.kNC, wf1.kH, wf1.kW, ?_, wf1.kS⟩,
             ⟨co1.nc, co1.df, co1.idx, co1.hus, co1.wif, ?_, co1.spo⟩⟩, a1, r1⟩
    · intro e he
      rcases List.mem_cons.mp he with rfl | he
      · exact hl ▸ wf.roots _ hr
      · exact wf1.kF e he
    · intro e he h1 h2
      rcases List.mem_cons.mp he with rfl | he
      · show r.1 = specIndFamilies (abs r.2) i
        rw [a1, r1]
      · exact co1.fam e he h1 h2

def specSpousesHW (a : Abs) (i : Id) : Option Id → Option Id → List (Option Id)
  | some h, some w =>
    (if specIsInd a (some h) i then [specIndividualOf a w] else []) ++
    (if specIsInd a (some w) i then [specIndividualOf a h] else [])
  | _, _ => []

theorem specSpousesOf_eq (a : Abs) (i f : Id) :
    specSpousesOf a i f = specSpousesHW a i (specHusband a f) (specWife a f) := by
  unfold specSpousesOf specSpousesHW
  split <;> simp_all

theorem optInd_sound {pre : Abs → Prop} (b : Bool) (w : Id) :
    Sound pre (if b then M.bind (individualOf w) fun x => M.pure [x] else M.pure [])
      (fun a => if b then [specIndividualOf a w] else []) := by
  cases b
  · exact Sound.pure []
  · exact Sound.bind' (individualOf_sound w) fun x => Sound.pure [x]

theorem spousesOf_sound (i f : Id) :
    Sound (fun a => a.tag f = tFAM) (spousesOf i f) (fun a => specSpousesOf a i f) := by
  unfold spousesOf
  refine (Sound.bind' (g := fun h a => specSpousesHW a i h (specWife a f)) (husband_sound f) fun h =>
    Sound.bind' (g := fun w a => specSpousesHW a i h w) (wife_sound f) fun w => ?_).congr
      fun a _ => (specSpousesOf_eq a i f).symm
  cases h with
  | none => exact Sound.pure []
  | some h =>
    cases w with
    | none => exact Sound.pure []
    | some w =>
      exact Sound.bind' (isInd_sound (some h) i) fun ih => Sound.bind' (optInd_sound ih w) fun l1 =>
        Sound.bind' (isInd_sound (some w) i) fun iw => Sound.bind' (optInd_sound iw h) fun l2 =>
        Sound.pure (l1 ++ l2)

theorem spouseLoop_sound {pre : Abs → Prop} (i : Id) :
    Sound pre (M.bind docFamilies fun fs => M.bind (M.mapM' (spousesOf i) fs) fun ls => M.pure ls.flatten)
      (fun a => specSpouses a i) := by
  refine (Sound.bind (g := fun fs a => (fs.map (fun f => specSpousesOf a i f)).flatten) docFamilies_sound
    fun fs => ?_).congr fun a _ => by simp [specSpouses, List.flatMap]
  refine Sound.bind' ?_ fun ls => Sound.pure (List.flatten ls)
  refine (Sound.mapM' (pre := fun a => fs = specFamilies a) fs fun f hf => ?_).weaken fun a h => h.2
  exact (spousesOf_sound i f).weaken fun a h => mem_specFamilies (h ▸ hf)

theorem spouses_sound (i : Id) :
    Sound (fun a => isIndi a i = true) (spouses i) (fun a => specSpouses a i) := by
  intro s ⟨wf, co⟩ hp
  have ⟨hr, ht⟩ := isIndi_iff.mp hp
  unfold spouses
  split
  · rename_i l hl
    exact ⟨⟨wf, co⟩, rfl, co.spo _ (lookup_mem hl) hr ht⟩
  · obtain ⟨⟨wf1, co1⟩, a1, r1⟩ := spouseLoop_sound (pre := fun _ => True) i s ⟨wf, co⟩ trivial
    generalize (M.bind docFamilies fun fs => M.bind (M.mapM' (spousesOf i) fs) fun ls => M.pure ls.flatten) s = r at *
    have hl : r.2.heap.length = s.heap.length := congrArg (fun a => a.heap.length) a1
    refine ⟨⟨⟨wf1.roots, wf1.kids, wf1.kNC, wf1.kH, wf1.kW, wf1.kF, ?_⟩,
             ⟨co1.nc, co1.df, co1.idx, co1.hus, co1.wif, co1.fam, ?_⟩⟩, a1, r1⟩
    · intro e he
      rcases List.mem_cons.mp he with rfl | he
      · exact hl ▸ wf.roots _ hr
      · exact wf1.kS e he
    · intro e he h1 h2
      rcases List.mem_cons.mp he with rfl | he
      · show r.1 = specSpouses (abs r.2) i
        rw [a1, r1]
      · exact co1.spo e he h1 h2

theorem mem_specIndFamilies {a : Abs} {i f : Id} (h : f ∈ specIndFamilies a i) : a.tag f = tFAM := by
  unfold specIndFamilies at h
  exact mem_specFamilies (List.mem_filter.mp h).1

theorem parents_sound (i : Id) :
    Sound (fun a => isIndi a i = true) (parents i) (fun a => specParents a i) := by
  unfold parents
  refine Sound.bind (g := fun fs a => fs.filter (fun f => specHasChild a f i)) (indFamilies_sound i) fun fs => ?_
  refine (Sound.filterM' (pre := fun a => fs = specIndFamilies a i) fs fun f hf => ?_).weaken fun a h => h.2
  exact (hasChild_sound f i).weaken fun a h => tag_lt (mem_specIndFamilies (h ▸ hf)) tFAM_ne

theorem children_sound (i : Id) :
    Sound (fun a => isIndi a i = true) (children i) (fun a => specChildren a i) := by
  unfold children
  refine (Sound.bind (g := fun fs a =>
      ((fs.filter (fun f => !specHasChild a f i)).map (fun f => specFamChildren a f)).flatten)
    (indFamilies_sound i) fun fs => ?_).congr fun a _ => by simp [specChildren, List.flatMap]
  refine Sound.bind (pre := fun a => isIndi a i = true ∧ fs = specIndFamilies a i)
    (f := fun a => fs.filter (fun f => !specHasChild a f i))
    (g := fun gs a => (gs.map (fun f => specFamChildren a f)).flatten) ?_ fun gs => ?_
  · refine (Sound.filterM' (pre := fun a => fs = specIndFamilies a i) fs fun f hf => ?_).weaken fun a h => h.2
    refine Sound.bind' ((hasChild_sound f i).weaken fun a h => tag_lt (mem_specIndFamilies (h ▸ hf)) tFAM_ne)
      fun b => Sound.pure (!b)
  · refine Sound.bind' ?_ fun ls => Sound.pure (List.flatten ls)
    refine (Sound.mapM' (pre := fun a => fs = specIndFamilies a i ∧ gs = fs.filter (fun f => !specHasChild a f i))
      gs fun f hf => ?_).weaken fun a h => ⟨h.1.2, h.2⟩
    refine (nwt_sound f tCHIL).weaken fun a h => ?_
    have : f ∈ fs := by
      have := h.2 ▸ hf
      exact (List.mem_filter.mp this).1
    exact tag_lt (mem_specIndFamilies (h.1 ▸ this)) tFAM_ne


/-! ## frames: what a view depends on -/

/-- `a'` extends `a`: same roots, old nodes keep tag and pointer -/
structure Frame (a a' : Abs) : Prop where
  len : a.heap.length ≤ a'.heap.length
  roots : a'.roots = a.roots
  tag : ∀ m, m < a.heap.length → a'.tag m = a.tag m
  ptr : ∀ m, m < a.heap.length → a'.ptr m = a.ptr m

/-- well-formedness of the uncached part -/
structure AWF (a : Abs) : Prop where
  roots : ∀ r ∈ a.roots, r < a.heap.length
  kids : ∀ n c, c ∈ a.kids n → c < a.heap.length

theorem WF.awf {s : St} (wf : WF s) : AWF (abs s) := ⟨wf.roots, wf.kids⟩

theorem foldl_congr_mem {α β : Type} {f g : β → α → β} :
    ∀ (l : List α) (init : β), (∀ acc, ∀ x ∈ l, f acc x = g acc x) → l.foldl f init = l.foldl g init
  | [], _, _ => rfl
  | x :: xs, init, h => by
    simp only [List.foldl_cons]
    rw [h init x List.mem_cons_self]
    exact foldl_congr_mem xs _ fun acc y hy => h acc y (List.mem_cons_of_mem _ hy)

theorem specNWT_frame {a a' : Abs} (fr : Frame a a') {m : Id} (t : Str)
    (wk : ∀ c ∈ a.kids m, c < a.heap.length) (hk : a'.kids m = a.kids m) :
    specNWT a' m t = specNWT a m t := by
  unfold specNWT
  rw [hk]
  apply List.filter_congr
  intro c hc
  rw [fr.tag c (wk c hc)]

theorem specFamilies_frame {a a' : Abs} (fr : Frame a a') (w : AWF a) : specFamilies a' = specFamilies a := by
  unfold specFamilies
  rw [fr.roots]
  apply List.filter_congr
  intro r hr
  rw [fr.tag r (w.roots r hr)]

theorem specIndividuals_frame {a a' : Abs} (fr : Frame a a') (w : AWF a) :
    specIndividuals a' = specIndividuals a := by
  unfold specIndividuals
  rw [fr.roots]
  apply List.filter_congr
  intro r hr
  rw [fr.tag r (w.roots r hr)]

theorem specByPtr_frame {a a' : Abs} (fr : Frame a a') (w : AWF a) (p : Str) :
    specByPtr a' p = specByPtr a p := by
  unfold specByPtr
  rw [fr.roots]
  split
  · rfl
  · apply foldl_congr_mem
    intro acc r hr
    rw [fr.ptr r (w.roots r hr)]

theorem foldl_last_mem {α : Type} (q : α → Bool) :
    ∀ (l : List α) (init : Option α) (r : α),
      l.foldl (fun acc x => if q x then some x else acc) init = some r → init = some r ∨ r ∈ l
  | [], _, _, h => Or.inl h
  | x :: xs, init, r, h => by
    simp only [List.foldl_cons] at h
    rcases foldl_last_mem q xs _ r h with h1 | h1
    · split at h1
      · right; simp at h1; simp [h1]
      · left; exact h1
    · right; exact List.mem_cons_of_mem _ h1

theorem specByPtr_mem {a : Abs} {p : Str} {r : Id} (h : specByPtr a p = some r) : r ∈ a.roots := by
  unfold specByPtr at h
  split at h
  · simp at h
  · rcases foldl_last_mem (fun r => a.ptr r == p) a.roots none r h with h1 | h1
    · simp at h1
    · exact h1

/-- a HUSB / WIFE / CHIL node: the only nodes whose *value* a family view reads -/
def isLink (a : Abs) (m : Id) : Prop := a.tag m = tHUSB ∨ a.tag m = tWIFE ∨ a.tag m = tCHIL

theorem specNWT_tag {a : Abs} {n c : Id} {t : Str} (h : c ∈ specNWT a n t) : a.tag c = t := by
  have := (List.mem_filter.mp h).2
  simpa using this

/-- additionally: old link nodes keep their value and family records keep their children -/
structure FGFrame (a a' : Abs) : Prop extends Frame a a' where
  value : ∀ m, m < a.heap.length → isLink a m → a'.value m = a.value m
  fkids : ∀ m, a.tag m = tFAM → a'.kids m = a.kids m

theorem specIndividualOf_frame {a a' : Abs} (fg : FGFrame a a') (w : AWF a) {h : Id}
    (hh : h < a.heap.length) (hl : isLink a h) : specIndividualOf a' h = specIndividualOf a h := by
  unfold specIndividualOf
  rw [fg.value h hh hl, specByPtr_frame fg.toFrame w]
  split
  · rename_i r hr
    rw [fg.tag r (w.roots r (specByPtr_mem hr))]
  · rfl

theorem specIsInd_frame {a a' : Abs} (fg : FGFrame a a') (w : AWF a) {h : Option Id} {i : Id}
    (hh : ∀ x, h = some x → x < a.heap.length ∧ isLink a x) (hi : i < a.heap.length) :
    specIsInd a' h i = specIsInd a h i := by
  unfold specIsInd
  cases h with
  | none => rfl
  | some x =>
    simp only
    rw [specIndividualOf_frame fg w (hh x rfl).1 (hh x rfl).2]
    split
    · rfl
    · rename_i j hj
      have : j ∈ a.roots := by
        unfold specIndividualOf at hj
        split at hj
        · rename_i r hr
          split at hj
          · simp at hj; subst hj; exact specByPtr_mem hr
          · simp at hj
        · simp at hj
      rw [fg.ptr j (w.roots j this), fg.ptr i hi]

theorem specIsInd_some_frame {a a' : Abs} (fg : FGFrame a a') (w : AWF a) {h i : Id}
    (hh : h < a.heap.length) (hl : isLink a h) (hi : i < a.heap.length) :
    specIsInd a' (some h) i = specIsInd a (some h) i :=
  specIsInd_frame fg w (fun x hx => by cases hx; exact ⟨hh, hl⟩) hi

theorem any_congr_mem {α : Type} {p q : α → Bool} :
    ∀ (l : List α), (∀ x ∈ l, p x = q x) → l.any p = l.any q
  | [], _ => rfl
  | x :: xs, h => by
    simp only [List.any_cons]
    rw [h x List.mem_cons_self, any_congr_mem xs fun y hy => h y (List.mem_cons_of_mem _ hy)]

theorem flatMap_congr_mem {α β : Type} {f g : α → List β} :
    ∀ (l : List α), (∀ x ∈ l, f x = g x) → l.flatMap f = l.flatMap g
  | [], _ => rfl
  | x :: xs, h => by
    simp only [List.flatMap_cons]
    rw [h x List.mem_cons_self, flatMap_congr_mem xs fun y hy => h y (List.mem_cons_of_mem _ hy)]

theorem specNWT_fam_frame {a a' : Abs} (fg : FGFrame a a') (w : AWF a) {f : Id} (t : Str)
    (hf : a.tag f = tFAM) : specNWT a' f t = specNWT a f t :=
  specNWT_frame fg.toFrame t (fun c hc => w.kids f c hc) (fg.fkids f hf)

theorem specNWT_lt {a : Abs} (w : AWF a) {n c : Id} {t : Str} (h : c ∈ specNWT a n t) : c < a.heap.length :=
  w.kids n c (List.mem_filter.mp h).1

theorem specHasChild_frame {a a' : Abs} (fg : FGFrame a a') (w : AWF a) {f i : Id}
    (hf : a.tag f = tFAM) (hi : i < a.heap.length) : specHasChild a' f i = specHasChild a f i := by
  unfold specHasChild
  rw [specNWT_fam_frame fg w tCHIL hf, fg.ptr i hi]
  apply any_congr_mem
  intro c hc
  rw [fg.value c (specNWT_lt w hc) (Or.inr (Or.inr (specNWT_tag hc)))]

theorem specMember_frame {a a' : Abs} (fg : FGFrame a a') (w : AWF a) {f i : Id}
    (hf : a.tag f = tFAM) (hi : i < a.heap.length) : specMember a' i f = specMember a i f := by
  unfold specMember specHusband specWife
  rw [specHasChild_frame fg w hf hi, specNWT_fam_frame fg w tHUSB hf, specNWT_fam_frame fg w tWIFE hf]
  rw [specIsInd_frame fg w (fun x hx => ⟨specNWT_lt w (List.mem_of_head? hx),
        Or.inl (specNWT_tag (List.mem_of_head? hx))⟩) hi,
      specIsInd_frame fg w (fun x hx => ⟨specNWT_lt w (List.mem_of_head? hx),
        Or.inr (Or.inl (specNWT_tag (List.mem_of_head? hx)))⟩) hi]

theorem specIndFamilies_frame {a a' : Abs} (fg : FGFrame a a') (w : AWF a) {i : Id}
    (hi : i < a.heap.length) : specIndFamilies a' i = specIndFamilies a i := by
  unfold specIndFamilies
  rw [specFamilies_frame fg.toFrame w]
  apply List.filter_congr
  intro f hf
  exact specMember_frame fg w (mem_specFamilies hf) hi

theorem specSpousesOf_frame {a a' : Abs} (fg : FGFrame a a') (w : AWF a) {f i : Id}
    (hf : a.tag f = tFAM) (hi : i < a.heap.length) : specSpousesOf a' i f = specSpousesOf a i f := by
  rw [specSpousesOf_eq, specSpousesOf_eq]
  unfold specHusband specWife
  rw [specNWT_fam_frame fg w tHUSB hf, specNWT_fam_frame fg w tWIFE hf]
  generalize hh : (specNWT a f tHUSB).head? = h
  generalize hw : (specNWT a f tWIFE).head? = x
  cases h with
  | none => rfl
  | some h =>
    cases x with
    | none => rfl
    | some x =>
      have lh : h < a.heap.length := specNWT_lt w (List.mem_of_head? hh)
      have lx : x < a.heap.length := specNWT_lt w (List.mem_of_head? hw)
      have kh : isLink a h := Or.inl (specNWT_tag (List.mem_of_head? hh))
      have kx : isLink a x := Or.inr (Or.inl (specNWT_tag (List.mem_of_head? hw)))
      simp only [specSpousesHW]
      rw [specIsInd_some_frame fg w lh kh hi, specIsInd_some_frame fg w lx kx hi,
          specIndividualOf_frame fg w lh kh, specIndividualOf_frame fg w lx kx]

theorem specSpouses_frame {a a' : Abs} (fg : FGFrame a a') (w : AWF a) {i : Id}
    (hi : i < a.heap.length) : specSpouses a' i = specSpouses a i := by
  unfold specSpouses
  rw [specFamilies_frame fg.toFrame w]
  apply flatMap_congr_mem
  intro f hf
  exact specSpousesOf_frame fg w (mem_specFamilies hf) hi



/-! ## heap updates -/

theorem setKids_length (h : List NodeRec) (n : Id) (ks : List Id) : (setKids h n ks).length = h.length := by
  unfold setKids; split <;> simp

theorem setValue_length (h : List NodeRec) (n : Id) (v : Str) : (setValue h n v).length = h.length := by
  unfold setValue; split <;> simp

theorem getElem?_setKids (h : List NodeRec) (n m : Id) (ks : List Id) :
    (setKids h n ks)[m]? = if m = n then (h[n]?).map (fun r => { r with kids := ks }) else h[m]? := by
  unfold setKids
  cases hn : h[n]? with
  | none => by_cases hm : m = n <;> simp [hm, hn]
  | some r =>
    by_cases hm : m = n
    · subst hm
      have : m < h.length := (List.getElem?_eq_some_iff.mp hn).1
      simp [this]
    · have : ¬ n = m := fun e => hm e.symm
      simp [hm, this]

theorem getElem?_setValue (h : List NodeRec) (n m : Id) (v : Str) :
    (setValue h n v)[m]? = if m = n then (h[n]?).map (fun r => { r with value := v }) else h[m]? := by
  unfold setValue
  cases hn : h[n]? with
  | none => by_cases hm : m = n <;> simp [hm, hn]
  | some r =>
    by_cases hm : m = n
    · subst hm
      have : m < h.length := (List.getElem?_eq_some_iff.mp hn).1
      simp [this]
    · have : ¬ n = m := fun e => hm e.symm
      simp [hm, this]

section fields
variable (h : List NodeRec) (r r' : List Id) (n m : Nat)

theorem tag_setKids (ks : List Id) : (Abs.mk (setKids h n ks) r').tag m = (Abs.mk h r).tag m := by
  simp only [Abs.tag, getElem?_setKids]
  by_cases e : m = n
  · subst e; simp only [if_true]; cases h[m]? <;> rfl
  · simp only [e, if_false]
theorem ptr_setKids (ks : List Id) : (Abs.mk (setKids h n ks) r').ptr m = (Abs.mk h r).ptr m := by
  simp only [Abs.ptr, getElem?_setKids]
  by_cases e : m = n
  · subst e; simp only [if_true]; cases h[m]? <;> rfl
  · simp only [e, if_false]
theorem value_setKids (ks : List Id) : (Abs.mk (setKids h n ks) r').value m = (Abs.mk h r).value m := by
  simp only [Abs.value, getElem?_setKids]
  by_cases e : m = n
  · subst e; simp only [if_true]; cases h[m]? <;> rfl
  · simp only [e, if_false]
theorem kids_setKids_ne (ks : List Id) (hm : m ≠ n) :
    (Abs.mk (setKids h n ks) r').kids m = (Abs.mk h r).kids m := by
  simp only [Abs.kids, getElem?_setKids, hm, if_false]
theorem kids_setKids_self (ks : List Id) (hn : n < h.length) :
    (Abs.mk (setKids h n ks) r').kids n = ks := by
  simp only [Abs.kids, getElem?_setKids, if_true]
  have : h[n]? = some h[n] := List.getElem?_eq_getElem hn
  rw [this]; rfl

theorem tag_setValue (v : Str) : (Abs.mk (setValue h n v) r').tag m = (Abs.mk h r).tag m := by
  simp only [Abs.tag, getElem?_setValue]
  by_cases e : m = n
  · subst e; simp only [if_true]; cases h[m]? <;> rfl
  · simp only [e, if_false]
theorem ptr_setValue (v : Str) : (Abs.mk (setValue h n v) r').ptr m = (Abs.mk h r).ptr m := by
  simp only [Abs.ptr, getElem?_setValue]
  by_cases e : m = n
  · subst e; simp only [if_true]; cases h[m]? <;> rfl
  · simp only [e, if_false]
theorem kids_setValue (v : Str) : (Abs.mk (setValue h n v) r').kids m = (Abs.mk h r).kids m := by
  simp only [Abs.kids, getElem?_setValue]
  by_cases e : m = n
  · subst e; simp only [if_true]; cases h[m]? <;> rfl
  · simp only [e, if_false]

theorem tag_append (x : NodeRec) (hm : m < h.length) : (Abs.mk (h ++ [x]) r').tag m = (Abs.mk h r).tag m := by
  simp only [Abs.tag, List.getElem?_append_left hm]
theorem ptr_append (x : NodeRec) (hm : m < h.length) : (Abs.mk (h ++ [x]) r').ptr m = (Abs.mk h r).ptr m := by
  simp only [Abs.ptr, List.getElem?_append_left hm]
theorem value_append (x : NodeRec) (hm : m < h.length) : (Abs.mk (h ++ [x]) r').value m = (Abs.mk h r).value m := by
  simp only [Abs.value, List.getElem?_append_left hm]
theorem kids_append (x : NodeRec) (hm : m < h.length) : (Abs.mk (h ++ [x]) r').kids m = (Abs.mk h r).kids m := by
  simp only [Abs.kids, List.getElem?_append_left hm]
theorem kids_append_ge (x : NodeRec) (hx : x.kids = []) (hm : h.length ≤ m) : (Abs.mk (h ++ [x]) r').kids m = [] := by
  simp only [Abs.kids]
  by_cases e : m = h.length
  · subst e; simp [hx]
  · have : (h ++ [x])[m]? = none := by
      apply List.getElem?_eq_none
      simp only [List.length_append, List.length_cons, List.length_nil]; omega
    rw [this]
theorem tag_append_new (x : NodeRec) : (Abs.mk (h ++ [x]) r').tag h.length = x.tag := by
  simp [Abs.tag]
theorem ptr_append_new (x : NodeRec) : (Abs.mk (h ++ [x]) r').ptr h.length = x.ptr := by
  simp [Abs.ptr]
end fields




/-! ## transferring the invariant across an edit that keeps the root list -/

/-- the part of coherence that does not depend on node values -/
structure CoreCoh (s : St) : Prop where
  nc : ∀ e ∈ s.ncache, e.2 = specNWT (abs s) e.1.1 e.1.2
  df : ∀ l, s.dfams = some l → l = specFamilies (abs s)
  idx : ∀ p, lookup s.ptrIdx p = specByPtr (abs s) p
  hus : ∀ e ∈ s.cHusb, (abs s).tag e.1 = tFAM → e.2 = specHusband (abs s) e.1
  wif : ∀ e ∈ s.cWife, (abs s).tag e.1 = tFAM → e.2 = specWife (abs s) e.1

/-- the per-individual part -/
structure IndCoh (s : St) : Prop where
  fam : ∀ e ∈ s.cFams, e.1 ∈ s.roots → (abs s).tag e.1 = tINDI → e.2 = specIndFamilies (abs s) e.1
  spo : ∀ e ∈ s.cSpouses, e.1 ∈ s.roots → (abs s).tag e.1 = tINDI → e.2 = specSpouses (abs s) e.1

def InvV (s : St) : Prop := WF s ∧ CoreCoh s

theorem Coherent.core {s : St} (co : Coherent s) : CoreCoh s := ⟨co.nc, co.df, co.idx, co.hus, co.wif⟩
theorem Coherent.ind {s : St} (co : Coherent s) : IndCoh s := ⟨co.fam, co.spo⟩
theorem Inv.v {s : St} (hi : Inv s) : InvV s := ⟨hi.1, hi.2.core⟩
theorem Inv.of {s : St} (hv : InvV s) (ic : IndCoh s) : Inv s :=
  ⟨hv.1, ⟨hv.2.nc, hv.2.df, hv.2.idx, hv.2.hus, hv.2.wif, ic.fam, ic.spo⟩⟩

/-- no attached individual has an entry in the per-individual caches -/
def NoIndEntries (t : St) : Prop :=
  ∀ i, i ∈ t.roots → (abs t).tag i = tINDI → i ∉ t.cFams.map (·.1) ∧ i ∉ t.cSpouses.map (·.1)

theorem IndCoh.vacuous {t : St} (h : NoIndEntries t) : IndCoh t :=
  ⟨fun e he hr ht => absurd (List.mem_map.mpr ⟨e, he, rfl⟩) (h e.1 hr ht).1,
   fun e he hr ht => absurd (List.mem_map.mpr ⟨e, he, rfl⟩) (h e.1 hr ht).2⟩

theorem core_transfer {s t : St} (hi : InvV s) (fr : Frame (abs s) (abs t)) (wt : AWF (abs t))
    (hidx : t.ptrIdx = s.ptrIdx) (hdf : ∀ l, t.dfams = some l → s.dfams = some l)
    (hnc : ∀ e ∈ t.ncache, e ∈ s.ncache ∧ (abs t).kids e.1.1 = (abs s).kids e.1.1)
    (hH : ∀ e ∈ t.cHusb, e ∈ s.cHusb ∧ ((abs s).tag e.1 = tFAM → (abs t).kids e.1 = (abs s).kids e.1))
    (hW : ∀ e ∈ t.cWife, e ∈ s.cWife ∧ ((abs s).tag e.1 = tFAM → (abs t).kids e.1 = (abs s).kids e.1))
    (hF : ∀ e ∈ t.cFams, e ∈ s.cFams)
    (hS : ∀ e ∈ t.cSpouses, e ∈ s.cSpouses) : InvV t := by
  obtain ⟨wf, co⟩ := hi
  have w := wf.awf
  have hlen : s.heap.length ≤ t.heap.length := fr.len
  refine ⟨⟨wt.roots, wt.kids, ?_, ?_, ?_, ?_, ?_⟩, ⟨?_, ?_, ?_, ?_, ?_⟩⟩
  · intro e he; exact Nat.lt_of_lt_of_le (wf.kNC e (hnc e he).1) hlen
  · intro e he; exact Nat.lt_of_lt_of_le (wf.kH e (hH e he).1) hlen
  · intro e he; exact Nat.lt_of_lt_of_le (wf.kW e (hW e he).1) hlen
  · intro e he; exact Nat.lt_of_lt_of_le (wf.kF e (hF e he)) hlen
  · intro e he; exact Nat.lt_of_lt_of_le (wf.kS e (hS e he)) hlen
  · intro e he
    obtain ⟨h1, h2⟩ := hnc e he
    rw [co.nc e h1, specNWT_frame fr _ (fun c hc => wf.kids _ c hc) h2]
  · intro l hl
    rw [co.df l (hdf l hl), specFamilies_frame fr w]
  · intro p
    rw [hidx, co.idx p, specByPtr_frame fr w]
  · intro e he ht
    obtain ⟨h1, h2⟩ := hH e he
    have hl := wf.kH e h1
    have ht' : (abs s).tag e.1 = tFAM := (fr.tag e.1 hl) ▸ ht
    rw [co.hus e h1 ht']
    unfold specHusband
    rw [specNWT_frame fr _ (fun c hc => wf.kids _ c hc) (h2 ht')]
  · intro e he ht
    obtain ⟨h1, h2⟩ := hW e he
    have hl := wf.kW e h1
    have ht' : (abs s).tag e.1 = tFAM := (fr.tag e.1 hl) ▸ ht
    rw [co.wif e h1 ht']
    unfold specWife
    rw [specNWT_frame fr _ (fun c hc => wf.kids _ c hc) (h2 ht')]

theorem ind_transfer {s t : St} (hi : Inv s) (fg : FGFrame (abs s) (abs t))
    (hF : ∀ e ∈ t.cFams, e ∈ s.cFams) (hS : ∀ e ∈ t.cSpouses, e ∈ s.cSpouses) : IndCoh t := by
  obtain ⟨wf, co⟩ := hi
  have w := wf.awf
  have hroots : t.roots = s.roots := fg.roots
  constructor
  · intro e he hr ht
    have h1 := hF e he
    have hl := wf.kF e h1
    have ht' : (abs s).tag e.1 = tINDI := (fg.tag e.1 hl) ▸ ht
    rw [co.fam e h1 (hroots ▸ hr) ht', specIndFamilies_frame fg w hl]
  · intro e he hr ht
    have h1 := hS e he
    have hl := wf.kS e h1
    have ht' : (abs s).tag e.1 = tINDI := (fg.tag e.1 hl) ▸ ht
    rw [co.spo e h1 (hroots ▸ hr) ht', specSpouses_frame fg w hl]

theorem Frame.refl (a : Abs) : Frame a a := ⟨Nat.le_refl _, rfl, fun _ _ => rfl, fun _ _ => rfl⟩
theorem FGFrame.refl (a : Abs) : FGFrame a a := ⟨Frame.refl a, fun _ _ _ => rfl, fun _ _ => rfl⟩

/-- dropping cache entries (and nothing else) keeps the invariant -/
theorem inv_shrink {s t : St} (hi : Inv s) (habs : abs t = abs s)
    (hidx : t.ptrIdx = s.ptrIdx) (hdf : ∀ l, t.dfams = some l → s.dfams = some l)
    (hnc : ∀ e ∈ t.ncache, e ∈ s.ncache) (hH : ∀ e ∈ t.cHusb, e ∈ s.cHusb)
    (hW : ∀ e ∈ t.cWife, e ∈ s.cWife) (hF : ∀ e ∈ t.cFams, e ∈ s.cFams)
    (hS : ∀ e ∈ t.cSpouses, e ∈ s.cSpouses) : Inv t := by
  have fr : Frame (abs s) (abs t) := habs ▸ Frame.refl _
  have fg : FGFrame (abs s) (abs t) := habs ▸ FGFrame.refl _
  refine Inv.of (core_transfer hi.v fr (habs ▸ hi.1.awf) hidx hdf (fun e he => ⟨hnc e he, by rw [habs]⟩)
    (fun e he => ⟨hH e he, fun _ => by rw [habs]⟩) (fun e he => ⟨hW e he, fun _ => by rw [habs]⟩) hF hS)
    (ind_transfer hi fg hF hS)

theorem invV_shrink {s t : St} (hi : InvV s) (habs : abs t = abs s)
    (hidx : t.ptrIdx = s.ptrIdx) (hdf : ∀ l, t.dfams = some l → s.dfams = some l)
    (hnc : ∀ e ∈ t.ncache, e ∈ s.ncache) (hH : ∀ e ∈ t.cHusb, e ∈ s.cHusb)
    (hW : ∀ e ∈ t.cWife, e ∈ s.cWife) (hF : ∀ e ∈ t.cFams, e ∈ s.cFams)
    (hS : ∀ e ∈ t.cSpouses, e ∈ s.cSpouses) : InvV t := by
  have fr : Frame (abs s) (abs t) := habs ▸ Frame.refl _
  exact core_transfer hi fr (habs ▸ hi.1.awf) hidx hdf (fun e he => ⟨hnc e he, by rw [habs]⟩)
    (fun e he => ⟨hH e he, fun _ => by rw [habs]⟩) (fun e he => ⟨hW e he, fun _ => by rw [habs]⟩) hF hS



/-! ## the primitive edits -/

theorem mem_dropKey {β : Type} {c : List (Id × β)} {k : Id} {e : Id × β} :
    e ∈ dropKey c k ↔ e ∈ c ∧ e.1 ≠ k := by
  simp [dropKey, List.mem_filter]

theorem mem_dropKeys {β : Type} {c : List (Id × β)} {ks : List Id} {e : Id × β} :
    e ∈ dropKeys c ks ↔ e ∈ c ∧ e.1 ∉ ks := by
  simp [dropKeys, List.mem_filter]

theorem mem_specIndividuals {a : Abs} {i : Id} : i ∈ specIndividuals a ↔ i ∈ a.roots ∧ a.tag i = tINDI := by
  simp [specIndividuals, List.mem_filter]

theorem abs_afterKidsEdit (b1 b2 : Bool) (n : Id) (s : St) : abs (afterKidsEdit b1 b2 n s) = abs s := by
  unfold afterKidsEdit
  cases b1 <;> simp only [Bool.false_eq_true, if_false, if_true] <;> split <;> rfl

theorem abs_resetIndividuals (s : St) : abs (resetIndividuals s) = abs s := rfl

/-- after `resetIndividuals` no attached individual has a cache entry -/
theorem noInd_resetIndividuals (s : St) : NoIndEntries (resetIndividuals s) := by
  intro i hr ht
  have hin : i ∈ specIndividuals (abs s) := mem_specIndividuals.mpr ⟨hr, ht⟩
  constructor
  · intro hm
    obtain ⟨e, he, rfl⟩ := List.mem_map.mp hm
    exact absurd hin (mem_dropKeys.mp he).2
  · intro hm
    obtain ⟨e, he, rfl⟩ := List.mem_map.mp hm
    exact absurd hin (mem_dropKeys.mp he).2

theorem resetIndividuals_inv {s : St} (hv : InvV s) : Inv (resetIndividuals s) :=
  Inv.of (invV_shrink hv rfl rfl (fun _ h => h) (fun _ h => h) (fun _ h => h) (fun _ h => h)
    (fun _ h => (mem_dropKeys.mp h).1) (fun _ h => (mem_dropKeys.mp h).1))
    (IndCoh.vacuous (noInd_resetIndividuals s))

theorem noInd_bump (s : St) : NoIndEntries (bumpFamilyLinks s) :=
  fun _ _ _ => ⟨List.not_mem_nil, List.not_mem_nil⟩

theorem bump_inv {s : St} (hv : InvV s) : Inv (bumpFamilyLinks s) :=
  Inv.of (invV_shrink hv rfl rfl (fun _ h => h) (fun _ h => h) (fun _ h => h) (fun _ h => h)
    (fun _ h => absurd h List.not_mem_nil) (fun _ h => absurd h List.not_mem_nil))
    (IndCoh.vacuous (noInd_bump s))

theorem resetNodeCache_inv {s : St} (hi : Inv s) : Inv (resetNodeCache s) :=
  inv_shrink hi rfl rfl (fun _ h => h) (fun _ h => absurd h List.not_mem_nil) (fun _ h => h)
    (fun _ h => h) (fun _ h => h) (fun _ h => h)

/-- rewriting a node's value keeps everything but the per-individual caches coherent -/
theorem setValue_core {s : St} (hv : InvV s) (h : Nat) (v : Str) :
    InvV { s with heap := setValue s.heap h v } := by
  have wf := hv.1
  refine core_transfer hv ?_ ?_ rfl (fun _ h => h) (fun e he => ⟨he, kids_setValue _ _ _ _ _ _⟩)
    (fun e he => ⟨he, fun _ => kids_setValue _ _ _ _ _ _⟩) (fun e he => ⟨he, fun _ => kids_setValue _ _ _ _ _ _⟩)
    (fun _ h => h) (fun _ h => h)
  · exact ⟨by simp [abs, setValue_length], rfl, fun m _ => tag_setValue _ _ _ _ _ _, fun m _ => ptr_setValue _ _ _ _ _ _⟩
  · refine ⟨fun r hr => by simpa [abs, setValue_length] using wf.roots r hr, fun m c hc => ?_⟩
    have : c ∈ (abs s).kids m := by
      have := kids_setValue s.heap s.roots s.roots h m v
      simp only [abs] at hc ⊢
      rw [this] at hc; exact hc
    simpa [abs, setValue_length] using wf.kids m c this

theorem alloc_frame (s : St) (x : NodeRec) : Frame (abs s) (abs (alloc x s)) :=
  ⟨by simp [abs, alloc], rfl, fun m hm => tag_append _ _ _ _ _ hm, fun m hm => ptr_append _ _ _ _ _ hm⟩

theorem alloc_awf {s : St} (wf : WF s) (x : NodeRec) (hx : x.kids = []) : AWF (abs (alloc x s)) := by
  have hl : (abs (alloc x s)).heap.length = s.heap.length + 1 := by simp [abs, alloc]
  refine ⟨fun r hr => ?_, fun m c hc => ?_⟩
  · rw [hl]; exact Nat.lt_succ_of_lt (wf.roots r hr)
  · rw [hl]
    by_cases hm : m < s.heap.length
    · have : (abs (alloc x s)).kids m = (abs s).kids m := kids_append _ _ _ _ _ hm
      rw [this] at hc
      exact Nat.lt_succ_of_lt (wf.kids m c hc)
    · have : (abs (alloc x s)).kids m = [] := kids_append_ge _ _ _ _ hx (Nat.le_of_not_lt hm)
      rw [this] at hc
      exact absurd hc List.not_mem_nil

theorem alloc_core {s : St} (hv : InvV s) (x : NodeRec) (hx : x.kids = []) : InvV (alloc x s) := by
  have wf := hv.1
  exact core_transfer hv (alloc_frame s x) (alloc_awf wf x hx) rfl (fun _ h => h)
    (fun e he => ⟨he, kids_append _ _ _ _ _ (wf.kNC e he)⟩)
    (fun e he => ⟨he, fun _ => kids_append _ _ _ _ _ (wf.kH e he)⟩)
    (fun e he => ⟨he, fun _ => kids_append _ _ _ _ _ (wf.kW e he)⟩) (fun _ h => h) (fun _ h => h)

theorem alloc_inv {s : St} (hi : Inv s) (x : NodeRec) (hx : x.kids = []) : Inv (alloc x s) := by
  refine Inv.of (alloc_core hi.v x hx) (ind_transfer hi ⟨alloc_frame s x, ?_, ?_⟩ (fun _ h => h) (fun _ h => h))
  · intro m hm _; exact value_append _ _ _ _ _ hm
  · intro m hm; exact kids_append _ _ _ _ _ (tag_lt hm tFAM_ne)

/-- the state after a change of `n`'s child list to `ks` (flags of repaired code) -/
theorem kidsEdit_core {s : St} (hv : InvV s) {n : Nat} {ks : List Id} (hn : n < s.heap.length)
    (hks : ∀ c ∈ ks, c < s.heap.length) :
    Frame (abs s) (abs (afterKidsEdit true true n { s with heap := setKids s.heap n ks })) ∧
    InvV (afterKidsEdit true true n { s with heap := setKids s.heap n ks }) ∧
    (∀ e ∈ (afterKidsEdit true true n { s with heap := setKids s.heap n ks }).cFams, e ∈ s.cFams) ∧
    (∀ e ∈ (afterKidsEdit true true n { s with heap := setKids s.heap n ks }).cSpouses, e ∈ s.cSpouses) ∧
    ((abs s).tag n = tFAM → NoIndEntries (afterKidsEdit true true n { s with heap := setKids s.heap n ks })) := by
  have wf := hv.1
  generalize ht : afterKidsEdit true true n { s with heap := setKids s.heap n ks } = t
  have habs : abs t = ⟨setKids s.heap n ks, s.roots⟩ := by rw [← ht, abs_afterKidsEdit]; rfl
  have fr : Frame (abs s) (abs t) := by
    rw [habs]
    exact ⟨by simp [setKids_length], rfl, fun m _ => tag_setKids _ _ _ _ _ _, fun m _ => ptr_setKids _ _ _ _ _ _⟩
  have wt : AWF (abs t) := by
    rw [habs]
    refine ⟨fun r hr => by simpa [setKids_length] using wf.roots r hr, fun m c hc => ?_⟩
    simp only [setKids_length]
    by_cases e : m = n
    · subst e
      rw [kids_setKids_self _ _ _ _ hn] at hc
      exact hks c hc
    · rw [kids_setKids_ne _ s.roots _ _ _ _ e] at hc
      exact wf.kids m c hc
  have hk : ∀ m, m ≠ n → (abs t).kids m = (abs s).kids m := by
    intro m hm; rw [habs]; exact kids_setKids_ne _ _ _ _ _ _ hm
  refine ⟨fr, ?_⟩
  by_cases hf : (abs s).tag n = tFAM
  · have hft : (abs (resetNodeCache { s with heap := setKids s.heap n ks })).tag n = tFAM := by
      show (Abs.mk (setKids s.heap n ks) s.roots).tag n = tFAM
      rw [tag_setKids _ s.roots]; exact hf
    have ht' : t = bumpFamilyLinks (resetFamily n (resetNodeCache { s with heap := setKids s.heap n ks })) := by
      rw [← ht]; unfold afterKidsEdit; simp [hft]
    refine ⟨?_, ?_, ?_, fun _ => ht' ▸ noInd_bump _⟩
    · refine core_transfer hv fr wt (by rw [ht']; rfl) (fun l hl => by rw [ht'] at hl; exact hl)
        (fun e he => by rw [ht'] at he; exact absurd he (List.not_mem_nil)) ?_ ?_ ?_ ?_
      · intro e he
        rw [ht'] at he
        have := mem_dropKey.mp he
        exact ⟨this.1, fun _ => hk _ this.2⟩
      · intro e he
        rw [ht'] at he
        have := mem_dropKey.mp he
        exact ⟨this.1, fun _ => hk _ this.2⟩
      · intro e he; rw [ht'] at he; exact absurd he List.not_mem_nil
      · intro e he; rw [ht'] at he; exact absurd he List.not_mem_nil
    · intro e he; rw [ht'] at he; exact absurd he List.not_mem_nil
    · intro e he; rw [ht'] at he; exact absurd he List.not_mem_nil
  · have hft : ¬ (abs (resetNodeCache { s with heap := setKids s.heap n ks })).tag n = tFAM := by
      show ¬ (Abs.mk (setKids s.heap n ks) s.roots).tag n = tFAM
      rw [tag_setKids _ s.roots]; exact hf
    have ht' : t = resetNodeCache { s with heap := setKids s.heap n ks } := by
      rw [← ht]; unfold afterKidsEdit; simp [hft]
    refine ⟨?_, ?_, ?_, fun h => absurd h hf⟩
    · refine core_transfer hv fr wt (by rw [ht']; rfl) (fun l hl => by rw [ht'] at hl; exact hl)
        (fun e he => by rw [ht'] at he; exact absurd he (List.not_mem_nil)) ?_ ?_ ?_ ?_
      · intro e he
        rw [ht'] at he
        refine ⟨he, fun h => hk _ ?_⟩
        intro e1; exact hf (e1 ▸ h)
      · intro e he
        rw [ht'] at he
        refine ⟨he, fun h => hk _ ?_⟩
        intro e1; exact hf (e1 ▸ h)
      · intro e he; rw [ht'] at he; exact he
      · intro e he; rw [ht'] at he; exact he
    · intro e he; rw [ht'] at he; exact he
    · intro e he; rw [ht'] at he; exact he

/-- … on a family record nothing about the individuals needs to be known beforehand -/
theorem kidsEdit_fam_inv {s : St} (hv : InvV s) {n : Nat} {ks : List Id} (hf : (abs s).tag n = tFAM)
    (hks : ∀ c ∈ ks, c < s.heap.length) :
    Inv (afterKidsEdit true true n { s with heap := setKids s.heap n ks }) := by
  obtain ⟨_, h1, _, _, h4⟩ := kidsEdit_core hv (tag_lt hf tFAM_ne) hks
  exact Inv.of h1 (IndCoh.vacuous (h4 hf))

/-- … on any node, from the full invariant -/
theorem kidsEdit_inv {s : St} (hi : Inv s) {n : Nat} {ks : List Id} (hn : n < s.heap.length)
    (hks : ∀ c ∈ ks, c < s.heap.length) :
    Inv (afterKidsEdit true true n { s with heap := setKids s.heap n ks }) := by
  obtain ⟨fr, h1, h2, h3, h4⟩ := kidsEdit_core hi.v hn hks
  by_cases hf : (abs s).tag n = tFAM
  · exact Inv.of h1 (IndCoh.vacuous (h4 hf))
  · refine Inv.of h1 (ind_transfer hi ⟨fr, fun m _ _ => ?_, fun m hm => ?_⟩ h2 h3)
    · rw [abs_afterKidsEdit]; exact value_setKids _ _ _ _ _ _
    · rw [abs_afterKidsEdit]
      exact kids_setKids_ne _ _ _ _ _ _ fun e1 => hf (e1 ▸ hm)



/-! ## the pointer index -/

theorem lookup_cons {β : Type} (k : Str) (v : β) (c : List (Str × β)) (p : Str) :
    lookup ((k, v) :: c) p = if k == p then some v else lookup c p := by
  unfold lookup
  simp only [List.find?_cons]
  by_cases h : (k == p) = true <;> simp [h]

theorem isEmpty_iff (p : Str) : p.isEmpty = true ↔ p = [] := List.isEmpty_iff

theorem buildIdx_aux (a : Abs) (p : Str) (hp : p ≠ []) :
    ∀ (rs : List Id) (idx : List (Str × Id)),
      lookup (rs.foldl (fun idx r => if (a.ptr r).isEmpty then idx else (a.ptr r, r) :: idx) idx) p =
      rs.foldl (fun acc r => if a.ptr r == p then some r else acc) (lookup idx p)
  | [], _ => rfl
  | r :: rs, idx => by
    simp only [List.foldl_cons]
    rw [buildIdx_aux a p hp rs]
    congr 1
    by_cases he : (a.ptr r).isEmpty = true
    · have : a.ptr r = [] := (isEmpty_iff _).mp he
      have hne : (a.ptr r == p) = false := by
        rw [this]; cases p with
        | nil => exact absurd rfl hp
        | cons _ _ => rfl
      simp [he, hne]
    · simp only [he, Bool.false_eq_true, if_false]
      rw [lookup_cons]

theorem buildIdx_nil (a : Abs) :
    ∀ (rs : List Id) (idx : List (Str × Id)), lookup idx [] = none →
      lookup (rs.foldl (fun idx r => if (a.ptr r).isEmpty then idx else (a.ptr r, r) :: idx) idx) [] = none
  | [], _, h => h
  | r :: rs, idx, h => by
    simp only [List.foldl_cons]
    apply buildIdx_nil a rs
    by_cases he : (a.ptr r).isEmpty = true
    · simp [he, h]
    · simp only [he, Bool.false_eq_true, if_false]
      rw [lookup_cons]
      have : (a.ptr r == ([] : Str)) = false := by
        cases hq : a.ptr r with
        | nil => rw [hq] at he; exact absurd rfl he
        | cons _ _ => rfl
      simp [this, h]

theorem lookup_buildIdx (a : Abs) (p : Str) : lookup (buildIdx a) p = specByPtr a p := by
  unfold buildIdx specByPtr
  by_cases hp : p = []
  · subst hp
    simp only [List.isEmpty_nil, if_true]
    exact buildIdx_nil a a.roots [] rfl
  · have : p.isEmpty = false := by
      cases p with
      | nil => exact absurd rfl hp
      | cons _ _ => rfl
    simp only [this]
    rw [buildIdx_aux a p hp]
    rfl

/-! ## a freshly decoded document -/

theorem init_inv (heap : List NodeRec) (roots : List Id) (w : AWF ⟨heap, roots⟩) : Inv (initOf heap roots) := by
  refine ⟨⟨w.roots, w.kids, ?_, ?_, ?_, ?_, ?_⟩, ⟨?_, ?_, ?_, ?_, ?_, ?_, ?_⟩⟩
  all_goals first
    | (intro e he; exact absurd he List.not_mem_nil)
    | (intro l hl; exact absurd hl (by simp [initOf]))
    | (intro p; exact lookup_buildIdx _ p)

/-! ## the deleting loop over a copy leaves no matching element -/

theorem eraseLoop_aux (p : Id → Bool) :
    ∀ (xs cur : List Id), (∀ y, p y = true → cur.count y ≤ xs.count y) →
      ∀ y ∈ (xs.filter p).foldl List.erase cur, p y = false
  | [], cur, h, y, hy => by
    simp only [List.filter_nil, List.foldl_nil] at hy
    cases hp : p y with
    | false => rfl
    | true =>
      have := h y hp
      simp only [List.count_nil, Nat.le_zero_eq] at this
      exact absurd hy (List.count_eq_zero.mp this)
  | x :: xs, cur, h, y, hy => by
    by_cases hx : p x = true
    · simp only [List.filter_cons, hx, if_true, List.foldl_cons] at hy
      refine eraseLoop_aux p xs (cur.erase x) ?_ y hy
      intro z hz
      have := h z hz
      rw [List.count_erase, List.count_cons] at *
      by_cases e : x = z
      · subst e; simp at this ⊢; omega
      · have e' : (x == z) = false := by simpa using e
        simp [e'] at this ⊢; exact this
    · simp only [List.filter_cons, hx, Bool.false_eq_true, if_false] at hy
      refine eraseLoop_aux p xs cur ?_ y hy
      intro z hz
      have := h z hz
      rw [List.count_cons] at this
      have e' : (x == z) = false := by
        cases hxz : x == z with
        | false => rfl
        | true =>
          have : x = z := by simpa using hxz
          subst this; exact absurd hz hx
      simpa [e'] using this

theorem eraseLoopCopy_none (p : Id → Bool) (ks : List Id) : ∀ y ∈ eraseLoopCopy p ks, p y = false :=
  eraseLoop_aux p ks ks fun _ _ => Nat.le_refl _

theorem foldl_erase_subset : ∀ (xs cur : List Id), ∀ y ∈ xs.foldl List.erase cur, y ∈ cur
  | [], _, _, hy => hy
  | x :: xs, cur, y, hy => by
    simp only [List.foldl_cons] at hy
    exact List.mem_of_mem_erase (foldl_erase_subset xs _ y hy)

theorem eraseLoopCopy_subset (p : Id → Bool) (ks : List Id) : ∀ y ∈ eraseLoopCopy p ks, y ∈ ks :=
  foldl_erase_subset _ _



/-! ## appending a root record -/

theorem foldl_last_sat {α : Type} (q : α → Bool) :
    ∀ (l : List α) (init : Option α) (r : α),
      l.foldl (fun acc x => if q x then some x else acc) init = some r → init = some r ∨ (r ∈ l ∧ q r = true)
  | [], _, _, h => Or.inl h
  | x :: xs, init, r, h => by
    simp only [List.foldl_cons] at h
    rcases foldl_last_sat q xs _ r h with h1 | h1
    · by_cases hq : q x = true
      · simp only [hq, if_true] at h1
        right
        have : x = r := by simpa using h1
        subst this
        exact ⟨List.mem_cons_self, hq⟩
      · simp only [hq, Bool.false_eq_true, if_false] at h1
        left; exact h1
    · right; exact ⟨List.mem_cons_of_mem _ h1.1, h1.2⟩

theorem specByPtr_some {a : Abs} {p : Str} {r : Id} (h : specByPtr a p = some r) :
    r ∈ a.roots ∧ a.ptr r = p := by
  unfold specByPtr at h
  split at h
  · simp at h
  · rcases foldl_last_sat (fun r => a.ptr r == p) a.roots none r h with h1 | h1
    · simp at h1
    · exact ⟨h1.1, by simpa using h1.2⟩

section rootAppend
variable (h : List NodeRec) (rs : List Id) (c : Nat)

theorem specFamilies_snoc :
    specFamilies ⟨h, rs ++ [c]⟩ = specFamilies ⟨h, rs⟩ ++ (if (Abs.mk h rs).tag c == tFAM then [c] else []) := by
  simp only [specFamilies, List.filter_append, List.filter_cons, List.filter_nil]
  rfl

theorem specIndividuals_snoc :
    specIndividuals ⟨h, rs ++ [c]⟩ = specIndividuals ⟨h, rs⟩ ++ (if (Abs.mk h rs).tag c == tINDI then [c] else []) := by
  simp only [specIndividuals, List.filter_append, List.filter_cons, List.filter_nil]
  rfl

theorem specByPtr_snoc (p : Str) :
    specByPtr ⟨h, rs ++ [c]⟩ p =
      if p.isEmpty then none else if (Abs.mk h rs).ptr c == p then some c else specByPtr ⟨h, rs⟩ p := by
  simp only [specByPtr, List.foldl_append, List.foldl_cons, List.foldl_nil]
  by_cases hp : p.isEmpty = true
  · simp [hp]
  · simp only [hp, Bool.false_eq_true, if_false]
    rfl

/-- a childless non-individual root whose pointer no individual uses does not change what a
    spouse or child reference resolves to -/
theorem specIndividualOf_snoc (_hk : (Abs.mk h rs).kids c = []) (ht : (Abs.mk h rs).tag c ≠ tINDI)
    (hp : ptrFreeOfIndi ⟨h, rs⟩ ((Abs.mk h rs).ptr c) = true) (x : Id) :
    specIndividualOf ⟨h, rs ++ [c]⟩ x = specIndividualOf ⟨h, rs⟩ x := by
  unfold specIndividualOf
  rw [specByPtr_snoc]
  have hv : (Abs.mk h (rs ++ [c])).value x = (Abs.mk h rs).value x := rfl
  rw [hv]
  generalize innerPtr ((Abs.mk h rs).value x) = q
  by_cases hq : q.isEmpty = true
  · have : specByPtr ⟨h, rs⟩ q = none := by simp [specByPtr, hq]
    simp [hq, this]
  · simp only [hq, Bool.false_eq_true, if_false]
    by_cases hc : ((Abs.mk h rs).ptr c == q) = true
    · simp only [hc, if_true]
      have e1 : ((Abs.mk h (rs ++ [c])).tag c == tINDI) = false := by
        have : (Abs.mk h (rs ++ [c])).tag c = (Abs.mk h rs).tag c := rfl
        rw [this]; simpa using ht
      simp only [e1, Bool.false_eq_true, if_false]
      cases hs : specByPtr ⟨h, rs⟩ q with
      | none => rfl
      | some r =>
        have ⟨hr, hpr⟩ := specByPtr_some hs
        have hcq : (Abs.mk h rs).ptr c = q := by simpa using hc
        have := (List.all_eq_true.mp hp) r hr
        have hti : ((Abs.mk h rs).tag r == tINDI) = false := by
          cases hh : (Abs.mk h rs).tag r == tINDI with
          | false => rfl
          | true =>
            rw [hh, hcq] at this
            simp at this
            exact absurd hpr this
        simp only [hti, Bool.false_eq_true, if_false]
    · simp only [hc, Bool.false_eq_true, if_false]
      rfl

theorem specIsInd_snoc (hk : (Abs.mk h rs).kids c = []) (ht : (Abs.mk h rs).tag c ≠ tINDI)
    (hp : ptrFreeOfIndi ⟨h, rs⟩ ((Abs.mk h rs).ptr c) = true) (x : Option Id) (i : Id) :
    specIsInd ⟨h, rs ++ [c]⟩ x i = specIsInd ⟨h, rs⟩ x i := by
  unfold specIsInd
  cases x with
  | none => rfl
  | some x =>
    simp only
    rw [specIndividualOf_snoc h rs c hk ht hp]
    rfl

theorem specMember_snoc (hk : (Abs.mk h rs).kids c = []) (ht : (Abs.mk h rs).tag c ≠ tINDI)
    (hp : ptrFreeOfIndi ⟨h, rs⟩ ((Abs.mk h rs).ptr c) = true) (i f : Id) :
    specMember ⟨h, rs ++ [c]⟩ i f = specMember ⟨h, rs⟩ i f := by
  unfold specMember
  rw [specIsInd_snoc h rs c hk ht hp, specIsInd_snoc h rs c hk ht hp]
  rfl

theorem specSpousesOf_snoc (hk : (Abs.mk h rs).kids c = []) (ht : (Abs.mk h rs).tag c ≠ tINDI)
    (hp : ptrFreeOfIndi ⟨h, rs⟩ ((Abs.mk h rs).ptr c) = true) (i f : Id) :
    specSpousesOf ⟨h, rs ++ [c]⟩ i f = specSpousesOf ⟨h, rs⟩ i f := by
  rw [specSpousesOf_eq, specSpousesOf_eq]
  have e1 : specHusband ⟨h, rs ++ [c]⟩ f = specHusband ⟨h, rs⟩ f := rfl
  have e2 : specWife ⟨h, rs ++ [c]⟩ f = specWife ⟨h, rs⟩ f := rfl
  rw [e1, e2]
  cases specHusband ⟨h, rs⟩ f with
  | none => rfl
  | some x =>
    cases specWife ⟨h, rs⟩ f with
    | none => rfl
    | some y =>
      simp only [specSpousesHW]
      rw [specIsInd_snoc h rs c hk ht hp, specIsInd_snoc h rs c hk ht hp,
          specIndividualOf_snoc h rs c hk ht hp, specIndividualOf_snoc h rs c hk ht hp]

theorem specMember_childless (a : Abs) (i f : Id) (hk : a.kids f = []) : specMember a i f = false := by
  simp [specMember, specHasChild, specHusband, specWife, specNWT, hk, specIsInd]

theorem specSpousesOf_childless (a : Abs) (i f : Id) (hk : a.kids f = []) : specSpousesOf a i f = [] := by
  simp [specSpousesOf, specHusband, specNWT, hk]

theorem specIndFamilies_snoc (hk : (Abs.mk h rs).kids c = []) (ht : (Abs.mk h rs).tag c ≠ tINDI)
    (hp : ptrFreeOfIndi ⟨h, rs⟩ ((Abs.mk h rs).ptr c) = true) (i : Id) :
    specIndFamilies ⟨h, rs ++ [c]⟩ i = specIndFamilies ⟨h, rs⟩ i := by
  unfold specIndFamilies
  rw [specFamilies_snoc, List.filter_append]
  have e1 : (specFamilies ⟨h, rs⟩).filter (specMember ⟨h, rs ++ [c]⟩ i) =
      (specFamilies ⟨h, rs⟩).filter (specMember ⟨h, rs⟩ i) :=
    List.filter_congr fun f _ => specMember_snoc h rs c hk ht hp i f
  rw [e1]
  have e2 : (if (Abs.mk h rs).tag c == tFAM then [c] else []).filter (specMember ⟨h, rs ++ [c]⟩ i) = [] := by
    split
    · simp [specMember_childless ⟨h, rs ++ [c]⟩ i c hk]
    · rfl
  rw [e2, List.append_nil]

theorem specSpouses_snoc (hk : (Abs.mk h rs).kids c = []) (ht : (Abs.mk h rs).tag c ≠ tINDI)
    (hp : ptrFreeOfIndi ⟨h, rs⟩ ((Abs.mk h rs).ptr c) = true) (i : Id) :
    specSpouses ⟨h, rs ++ [c]⟩ i = specSpouses ⟨h, rs⟩ i := by
  unfold specSpouses
  rw [specFamilies_snoc, List.flatMap_append]
  have e1 : (specFamilies ⟨h, rs⟩).flatMap (specSpousesOf ⟨h, rs ++ [c]⟩ i) =
      (specFamilies ⟨h, rs⟩).flatMap (specSpousesOf ⟨h, rs⟩ i) :=
    flatMap_congr_mem _ fun f _ => specSpousesOf_snoc h rs c hk ht hp i f
  rw [e1]
  have e2 : (if (Abs.mk h rs).tag c == tFAM then [c] else []).flatMap (specSpousesOf ⟨h, rs ++ [c]⟩ i) = [] := by
    split
    · simp [specSpousesOf_childless ⟨h, rs ++ [c]⟩ i c hk]
    · rfl
  rw [e2, List.append_nil]

end rootAppend



variable {b1 b2 b3 : Bool}

theorem docAppend0_good (x : NodeRec) (s : St) : docAppend0 (Flags.goodWith b1 b2 b3) x s =
    { s with heap := s.heap ++ [x], roots := s.roots ++ [s.heap.length],
             ptrIdx := if !x.ptr.isEmpty then (x.ptr, s.heap.length) :: s.ptrIdx else s.ptrIdx,
             dfams := if x.tag == tFAM then none else s.dfams } := by
  simp [docAppend0, Flags.goodWith, Flags.good]

theorem docAppend0_core {s : St} (hv : InvV s) (x : NodeRec) (hx : x.kids = []) :
    InvV (docAppend0 (Flags.goodWith b1 b2 b3) x s) := by
  obtain ⟨wf1, co1⟩ := alloc_core hv x hx
  rw [docAppend0_good]
  have hl : (alloc x s).heap.length = s.heap.length + 1 := by simp [alloc]
  have htag : (Abs.mk (s.heap ++ [x]) s.roots).tag s.heap.length = x.tag := tag_append_new _ _ _
  have hptr : (Abs.mk (s.heap ++ [x]) s.roots).ptr s.heap.length = x.ptr := ptr_append_new _ _ _
  refine ⟨⟨?_, wf1.kids, wf1.kNC, wf1.kH, wf1.kW, wf1.kF, wf1.kS⟩, ⟨co1.nc, ?_, ?_, co1.hus, co1.wif⟩⟩
  · intro r hr
    rcases List.mem_append.mp hr with h1 | h1
    · exact wf1.roots r h1
    · have : r = s.heap.length := by simpa using h1
      show r < (s.heap ++ [x]).length
      simp [this]
  · intro l hl'
    show l = specFamilies ⟨s.heap ++ [x], s.roots ++ [s.heap.length]⟩
    rw [specFamilies_snoc, htag]
    by_cases hf : (x.tag == tFAM) = true
    · simp [hf] at hl'
    · simp only [hf, Bool.false_eq_true, if_false] at hl' ⊢
      rw [List.append_nil]
      exact co1.df l hl'
  · intro p
    show _ = specByPtr ⟨s.heap ++ [x], s.roots ++ [s.heap.length]⟩ p
    rw [specByPtr_snoc, hptr]
    have hc := co1.idx p
    have hc' : lookup s.ptrIdx p = specByPtr ⟨s.heap ++ [x], s.roots⟩ p := hc
    by_cases hp : p.isEmpty = true
    · have hp' : p = [] := (isEmpty_iff p).mp hp
      simp only [hp, if_true]
      have hn : lookup s.ptrIdx p = none := by rw [hc']; simp [specByPtr, hp]
      by_cases hx' : x.ptr.isEmpty = true
      · simp [hx', hn]
      · simp only [hx', Bool.not_false, if_true]
        rw [lookup_cons]
        have : (x.ptr == p) = false := by
          rw [hp']
          cases hq : x.ptr with
          | nil => rw [hq] at hx'; exact absurd rfl hx'
          | cons _ _ => rfl
        simp [this, hn]
    · simp only [hp, Bool.false_eq_true, if_false]
      by_cases hx' : x.ptr.isEmpty = true
      · have hx'' : x.ptr = [] := (isEmpty_iff _).mp hx'
        have : (x.ptr == p) = false := by
          rw [hx'']
          cases p with
          | nil => exact absurd rfl hp
          | cons _ _ => rfl
        simp [hx', this, hc']
      · simp only [hx', Bool.not_false, if_true]
        rw [lookup_cons, hc']

theorem abs_docAppend0 (x : NodeRec) (s : St) :
    abs (docAppend0 (Flags.goodWith b1 b2 b3) x s) = ⟨s.heap ++ [x], s.roots ++ [s.heap.length]⟩ := by
  rw [docAppend0_good]; rfl

/-- a childless record that is not an individual and whose pointer no individual uses -/
theorem docAppend0_inv {s : St} (hi : Inv s) (x : NodeRec) (hx : x.kids = []) (ht : x.tag ≠ tINDI)
    (hp : ptrFreeOfIndi (abs s) x.ptr = true) : Inv (docAppend0 (Flags.goodWith b1 b2 b3) x s) := by
  have hi1 := alloc_inv hi x hx
  have hv := docAppend0_core (b1 := b1) (b2 := b2) (b3 := b3) hi.v x hx
  refine Inv.of hv ?_
  have hF : (docAppend0 (Flags.goodWith b1 b2 b3) x s).cFams = s.cFams := by rw [docAppend0_good]
  have hS : (docAppend0 (Flags.goodWith b1 b2 b3) x s).cSpouses = s.cSpouses := by rw [docAppend0_good]
  have hR : (docAppend0 (Flags.goodWith b1 b2 b3) x s).roots = s.roots ++ [s.heap.length] := by rw [docAppend0_good]
  have hk : (Abs.mk (s.heap ++ [x]) s.roots).kids s.heap.length = [] :=
    kids_append_ge _ _ _ _ hx (Nat.le_refl _)
  have htag : (Abs.mk (s.heap ++ [x]) s.roots).tag s.heap.length = x.tag := tag_append_new _ _ _
  have hptr : (Abs.mk (s.heap ++ [x]) s.roots).ptr s.heap.length = x.ptr := ptr_append_new _ _ _
  have ht' : (Abs.mk (s.heap ++ [x]) s.roots).tag s.heap.length ≠ tINDI := htag ▸ ht
  have hp' : ptrFreeOfIndi ⟨s.heap ++ [x], s.roots⟩ ((Abs.mk (s.heap ++ [x]) s.roots).ptr s.heap.length) = true := by
    rw [hptr]
    apply List.all_eq_true.mpr
    intro r hr
    have hlt := hi.1.roots r hr
    have := (List.all_eq_true.mp hp) r hr
    rw [tag_append _ s.roots _ _ _ hlt, ptr_append _ s.roots _ _ _ hlt]
    exact this
  have hroot : ∀ i, i ∈ s.roots ++ [s.heap.length] →
      (Abs.mk (s.heap ++ [x]) (s.roots ++ [s.heap.length])).tag i = tINDI → i ∈ s.roots := by
    intro i hr hti
    rcases List.mem_append.mp hr with h1 | h1
    · exact h1
    · have : i = s.heap.length := by simpa using h1
      subst this
      exact absurd hti ht'
  constructor
  · intro e he hr hti
    rw [hF] at he
    rw [hR] at hr
    rw [abs_docAppend0] at hti ⊢
    have hr' := hroot e.1 hr hti
    rw [specIndFamilies_snoc _ _ _ hk ht' hp']
    exact hi1.2.fam e he hr' hti
  · intro e he hr hti
    rw [hS] at he
    rw [hR] at hr
    rw [abs_docAppend0] at hti ⊢
    have hr' := hroot e.1 hr hti
    rw [specSpouses_snoc _ _ _ hk ht' hp']
    exact hi1.2.spo e he hr' hti

theorem docAppend_eq (x : NodeRec) (s : St) : docAppend (Flags.goodWith b1 b2 b3) x s =
    bumpFamilyLinks (docAppend0 (Flags.goodWith b1 b2 b3) x s) := by
  simp [docAppend, Flags.goodWith, Flags.good]

theorem abs_docAppend (x : NodeRec) (s : St) :
    abs (docAppend (Flags.goodWith b1 b2 b3) x s) = ⟨s.heap ++ [x], s.roots ++ [s.heap.length]⟩ := by
  rw [docAppend_eq]
  exact abs_docAppend0 (b1 := b1) (b2 := b2) (b3 := b3) x s

/-- with the version bump `Document.AddNode` keeps every cache coherent for a record of any tag and
    any pointer -/
theorem docAppend_inv {s : St} (hi : Inv s) (x : NodeRec) (hx : x.kids = []) :
    Inv (docAppend (Flags.goodWith b1 b2 b3) x s) := by
  rw [docAppend_eq]
  exact bump_inv (docAppend0_core hi.v x hx)

theorem docAppend_core {s : St} (hv : InvV s) (x : NodeRec) (hx : x.kids = []) :
    InvV (docAppend (Flags.goodWith b1 b2 b3) x s) := by
  rw [docAppend_eq]
  exact (bump_inv (docAppend0_core hv x hx)).v

theorem addIndividual_inv {s : St} (hi : Inv s) (p : Str) : Inv (addIndividual (Flags.goodWith b1 b2 b3) p s) := by
  have : addIndividual (Flags.goodWith b1 b2 b3) p s = resetIndividuals (docAppend (Flags.goodWith b1 b2 b3) ⟨tINDI, [], p, [], 0⟩ s) := by
    simp [addIndividual, Flags.goodWith, Flags.good]
  rw [this]
  exact resetIndividuals_inv (docAppend_core hi.v _ rfl)

theorem addFamily_inv {s : St} (hi : Inv s) (p : Str) (hp : ptrFreeOfIndi (abs s) p = true) :
    Inv (addFamily (Flags.goodWith b1 b2 b3) p s) := by
  have h1 : Inv (docAppend (Flags.goodWith b1 b2 b3) ⟨tFAM, [], p, [], 0⟩ s) :=
    docAppend_inv hi _ rfl
  obtain ⟨h2, a2, _⟩ := docFamilies_sound (pre := fun _ => True) _ h1 trivial
  unfold addFamily
  cases b3
  · exact h2
  · exact inv_shrink h2 rfl rfl (fun _ h => h) (fun _ h => h) (fun _ h => (mem_dropKeys.mp h).1)
      (fun _ h => (mem_dropKeys.mp h).1) (fun _ h => h) (fun _ h => h)

theorem abs_addFamily (p : Str) (s : St) :
    abs (addFamily (Flags.goodWith b1 b2 b3) p s) = ⟨s.heap ++ [⟨tFAM, [], p, [], 0⟩], s.roots ++ [s.heap.length]⟩ := by
  have : abs (addFamily (Flags.goodWith b1 b2 b3) p s) =
      abs (docFamilies (docAppend (Flags.goodWith b1 b2 b3) ⟨tFAM, [], p, [], 0⟩ s)).2 := by
    unfold addFamily
    cases b3 <;> rfl
  rw [this]
  have : ∀ t, abs (docFamilies t).2 = abs t := by
    intro t; unfold docFamilies; split <;> rfl
  rw [this, abs_docAppend]

/-! ## deleting a root record -/

theorem docDelete_inv {s : St} (hi : Inv s) (r : Id) : Inv (docDelete (Flags.goodWith b1 b2 b3) r s) := by
  unfold docDelete
  split
  · simp only [Flags.goodWith, Flags.good, if_true]
    apply bump_inv
    obtain ⟨wf, co⟩ := hi
    refine ⟨⟨?_, wf.kids, wf.kNC, wf.kH, wf.kW, wf.kF, wf.kS⟩, ⟨co.nc, ?_, ?_, co.hus, co.wif⟩⟩
    · intro x hx; exact wf.roots x (List.mem_of_mem_erase hx)
    · intro l hl; simp at hl
    · intro p; exact lookup_buildIdx _ p
  · exact hi



theorem docSetNodes_inv {s : St} (hi : Inv s) (ks : List Id) (hks : ∀ k ∈ ks, k ∈ s.roots) :
    Inv (docSetNodes (Flags.goodWith b1 b2 b3) ks s) := by
  unfold docSetNodes
  simp only [Flags.goodWith, Flags.good, if_true]
  apply bump_inv
  obtain ⟨wf, co⟩ := hi
  refine ⟨⟨?_, wf.kids, wf.kNC, wf.kH, wf.kW, wf.kF, wf.kS⟩, ⟨co.nc, ?_, ?_, co.hus, co.wif⟩⟩
  · intro x hx; exact wf.roots x (hks x hx)
  · intro l hl; simp at hl
  · intro p; exact lookup_buildIdx _ p

/-! ## the composed edits: each keeps the invariant and extends the document (`Frame`) -/

theorem Frame.trans {a b c : Abs} (h1 : Frame a b) (h2 : Frame b c) : Frame a c :=
  ⟨Nat.le_trans h1.len h2.len, h2.roots.trans h1.roots,
   fun m hm => (h2.tag m (Nat.lt_of_lt_of_le hm h1.len)).trans (h1.tag m hm),
   fun m hm => (h2.ptr m (Nat.lt_of_lt_of_le hm h1.len)).trans (h1.ptr m hm)⟩

theorem Frame.lt {a b : Abs} (h : Frame a b) {n : Nat} (hn : n < a.heap.length) : n < b.heap.length :=
  Nat.lt_of_lt_of_le hn h.len

theorem Frame.tagEq {a b : Abs} (h : Frame a b) {n : Nat} {t : Str} (ht : a.tag n = t) (hne : t ≠ []) :
    b.tag n = t := (h.tag n (tag_lt ht hne)).trans ht

theorem Frame.of_eq {a b : Abs} (h : b = a) : Frame a b := h ▸ Frame.refl a

/-- the invariant holds after, and the document only grew -/
def Good (s t : St) : Prop := Inv t ∧ Frame (abs s) (abs t)

theorem Good.trans {s t u : St} (h1 : Good s t) (h2 : Good t u) : Good s u := ⟨h2.1, h1.2.trans h2.2⟩

theorem kidsEdit_good {s : St} (hi : Inv s) {n : Nat} {ks : List Id} (hn : n < s.heap.length)
    (hks : ∀ c ∈ ks, c < s.heap.length) :
    Good s (afterKidsEdit true true n { s with heap := setKids s.heap n ks }) :=
  ⟨kidsEdit_inv hi hn hks, (kidsEdit_core hi.v hn hks).1⟩

theorem addKid_good_eq (n c : Id) (s : St) : addKid (Flags.goodWith b1 b2 b3) n c s =
    afterKidsEdit true true n { s with heap := setKids s.heap n ((abs s).kids n ++ [c]) } := rfl

theorem addFresh_good {s : St} (hi : Inv s) {n : Nat} (hn : n < s.heap.length) (x : NodeRec) (hx : x.kids = []) :
    Good s (addFresh (Flags.goodWith b1 b2 b3) n x s) := by
  have h1 := alloc_inv hi x hx
  have hl : (alloc x s).heap.length = s.heap.length + 1 := by simp [alloc]
  unfold addFresh
  rw [addKid_good_eq]
  have := kidsEdit_good h1 (n := n) (ks := (abs (alloc x s)).kids n ++ [s.heap.length]) (by omega) (by
    intro c hc
    rcases List.mem_append.mp hc with h | h
    · exact h1.1.kids n c h
    · have : c = s.heap.length := by simpa using h
      rw [this, hl]; exact Nat.lt_succ_self _)
  exact ⟨this.1, (alloc_frame s x).trans this.2⟩

theorem deleteKid_good {s : St} (hi : Inv s) {n : Nat} (hn : n < s.heap.length) (c : Id) :
    Good s (deleteKid (Flags.goodWith b1 b2 b3) n c s) :=
  kidsEdit_good hi hn fun y hy => hi.1.kids n y (List.mem_of_mem_erase hy)

theorem setKidsOp_good {s : St} (hi : Inv s) {n : Nat} (hn : n < s.heap.length) (ks : List Id)
    (hks : ∀ c ∈ ks, c ∈ (abs s).kids n) : Good s (setKidsOp (Flags.goodWith b1 b2 b3) n ks s) :=
  kidsEdit_good hi hn fun y hy => hi.1.kids n y (hks y hy)

theorem specNWT_nil_of_none {a : Abs} {n : Id} {t : Str} (h : ∀ y ∈ a.kids n, (a.tag y == t) = false) :
    specNWT a n t = [] := by
  unfold specNWT
  apply List.filter_eq_nil_iff.mpr
  intro y hy
  simp [h y hy]

theorem deleteKidsWithTag_good {s : St} (hi : Inv s) {n : Nat} (hn : n < s.heap.length) (t : Str) :
    Good s (deleteKidsWithTag (Flags.goodWith b1 b2 b3) n t s) ∧ specNWT (abs (deleteKidsWithTag (Flags.goodWith b1 b2 b3) n t s)) n t = [] := by
  unfold deleteKidsWithTag
  simp only [Flags.goodWith, Flags.good, if_true]
  split
  · have hg := kidsEdit_good hi hn (ks := eraseLoopCopy (fun c => (abs s).tag c == t) ((abs s).kids n))
      (fun y hy => hi.1.kids n y (eraseLoopCopy_subset _ _ y hy))
    refine ⟨hg, ?_⟩
    apply specNWT_nil_of_none
    rw [abs_afterKidsEdit]
    intro y hy
    have hk : (Abs.mk (setKids s.heap n (eraseLoopCopy (fun c => (abs s).tag c == t) ((abs s).kids n))) s.roots).kids n
        = eraseLoopCopy (fun c => (abs s).tag c == t) ((abs s).kids n) := kids_setKids_self _ _ _ _ hn
    have hy' : y ∈ eraseLoopCopy (fun c => (abs s).tag c == t) ((abs s).kids n) := hk ▸ hy
    have := eraseLoopCopy_none _ _ y hy'
    have ht : (Abs.mk (setKids s.heap n (eraseLoopCopy (fun c => (abs s).tag c == t) ((abs s).kids n))) s.roots).tag y
        = (abs s).tag y := tag_setKids _ _ _ _ _ _
    show ((Abs.mk _ s.roots).tag y == t) = false
    rw [ht]; exact this
  · rename_i hany
    refine ⟨⟨hi, Frame.refl _⟩, ?_⟩
    apply specNWT_nil_of_none
    intro y hy
    cases h : (abs s).tag y == t with
    | false => rfl
    | true => exact absurd (List.any_eq_true.mpr ⟨y, hy, h⟩) hany

/-- caching "no husband" is right once no HUSB child is left -/
theorem cacheNoHusband_inv {s : St} (hi : Inv s) {f : Nat} (hf : f < s.heap.length)
    (hn : specHusband (abs s) f = none) : Inv { s with cHusb := (f, none) :: dropKey s.cHusb f } := by
  obtain ⟨wf, co⟩ := hi
  refine ⟨⟨wf.roots, wf.kids, wf.kNC, ?_, wf.kW, wf.kF, wf.kS⟩, ⟨co.nc, co.df, co.idx, ?_, co.wif, co.fam, co.spo⟩⟩
  · intro e he
    rcases List.mem_cons.mp he with rfl | he
    · exact hf
    · exact wf.kH e (mem_dropKey.mp he).1
  · intro e he ht
    rcases List.mem_cons.mp he with rfl | he
    · exact hn.symm
    · exact co.hus e (mem_dropKey.mp he).1 ht

theorem cacheNoWife_inv {s : St} (hi : Inv s) {f : Nat} (hf : f < s.heap.length)
    (hn : specWife (abs s) f = none) : Inv { s with cWife := (f, none) :: dropKey s.cWife f } := by
  obtain ⟨wf, co⟩ := hi
  refine ⟨⟨wf.roots, wf.kids, wf.kNC, wf.kH, ?_, wf.kF, wf.kS⟩, ⟨co.nc, co.df, co.idx, co.hus, ?_, co.fam, co.spo⟩⟩
  · intro e he
    rcases List.mem_cons.mp he with rfl | he
    · exact hf
    · exact wf.kW e (mem_dropKey.mp he).1
  · intro e he ht
    rcases List.mem_cons.mp he with rfl | he
    · exact hn.symm
    · exact co.wif e (mem_dropKey.mp he).1 ht

/-! ### the in-place deleting loop only ever returns elements of the original slice -/

theorem inPlaceLoop_subset (p : Id → Bool) (ks : List Id) :
    ∀ (fuel i : Nat) (arr : List Id) (len : Nat), (∀ y ∈ arr, y ∈ ks) →
      ∀ y ∈ inPlaceLoop p fuel i arr len, y ∈ ks
  | 0, _, arr, len, h, y, hy => h y (List.mem_of_mem_take hy)
  | fuel + 1, i, arr, len, h, y, hy => by
    unfold inPlaceLoop at hy
    split at hy
    · exact h y (List.mem_of_mem_take hy)
    · split at hy
      · split at hy
        · refine inPlaceLoop_subset p ks fuel _ _ _ ?_ y hy
          intro z hz
          rcases List.mem_append.mp hz with hz | hz
          · rcases List.mem_append.mp hz with hz | hz
            · exact h z (List.mem_of_mem_take hz)
            · exact h z (List.mem_of_mem_drop (List.mem_of_mem_take hz))
          · exact h z (List.mem_of_mem_drop hz)
        · exact inPlaceLoop_subset p ks fuel _ _ _ h y hy
      · exact inPlaceLoop_subset p ks fuel _ _ _ h y hy

theorem eraseLoopInPlace_subset (p : Id → Bool) (ks : List Id) : ∀ y ∈ eraseLoopInPlace p ks, y ∈ ks :=
  inPlaceLoop_subset p ks _ _ _ _ fun _ h => h



theorem spouseRead_sound (isHusb : Bool) (f : Id) :
    Sound (fun a => a.tag f = tFAM) (spouseRead isHusb f)
      (fun a => if isHusb then specHusband a f else specWife a f) := by
  unfold spouseRead
  cases isHusb
  · exact wife_sound f
  · exact husband_sound f

theorem rewriteSpouseValue_core {s : St} (hv : InvV s) (h : Option Id) (v : Str) :
    InvV (rewriteSpouseValue h v s) ∧ Frame (abs s) (abs (rewriteSpouseValue h v s)) := by
  cases h with
  | none => exact ⟨hv, Frame.refl _⟩
  | some h =>
    refine ⟨setValue_core hv h v, ?_⟩
    exact ⟨by simp [abs, rewriteSpouseValue, setValue_length], rfl,
      fun m _ => tag_setValue _ _ _ _ _ _, fun m _ => ptr_setValue _ _ _ _ _ _⟩

theorem appendSpouseNode_good {s : St} (hv : InvV s) (isHusb : Bool) {f : Nat}
    (hf : (abs s).tag f = tFAM) (p : Str) :
    Inv (appendSpouseNode (Flags.goodWith b1 b2 b3) isHusb f p s) ∧ Frame (abs s) (abs (appendSpouseNode (Flags.goodWith b1 b2 b3) isHusb f p s)) := by
  generalize hx : (⟨spouseTag isHusb, ident p, [], [], f⟩ : NodeRec) = x
  have hxk : x.kids = [] := by rw [← hx]
  have hv3 : InvV (alloc x s) := alloc_core hv x hxk
  have fr3 : Frame (abs s) (abs (alloc x s)) := alloc_frame s x
  have hf3 : (abs (alloc x s)).tag f = tFAM := fr3.tagEq hf tFAM_ne
  have hl : (alloc x s).heap.length = s.heap.length + 1 := by simp [alloc]
  have hks : ∀ c ∈ (abs (alloc x s)).kids f ++ [s.heap.length], c < (alloc x s).heap.length := by
    intro c hc
    rcases List.mem_append.mp hc with h | h
    · exact hv3.1.kids f c h
    · have : c = s.heap.length := by simpa using h
      rw [this, hl]; exact Nat.lt_succ_self _
  have hi4 : Inv (addKid (Flags.goodWith b1 b2 b3) f s.heap.length (alloc x s)) := kidsEdit_fam_inv hv3 hf3 hks
  have fr4 : Frame (abs s) (abs (addKid (Flags.goodWith b1 b2 b3) f s.heap.length (alloc x s))) :=
    fr3.trans (kidsEdit_core hv3 (tag_lt hf3 tFAM_ne) hks).1
  unfold appendSpouseNode dropSpouseCache
  rw [hx]
  cases isHusb
  · cases b2
    · exact ⟨hi4, fr4⟩
    · exact ⟨inv_shrink hi4 rfl rfl (fun _ h => h) (fun _ h => h) (fun _ h => h)
        (fun _ h => (mem_dropKey.mp h).1) (fun _ h => h) (fun _ h => h), fr4⟩
  · cases b1
    · exact ⟨hi4, fr4⟩
    · exact ⟨inv_shrink hi4 rfl rfl (fun _ h => h) (fun _ h => h) (fun _ h => (mem_dropKey.mp h).1)
        (fun _ h => h) (fun _ h => h) (fun _ h => h), fr4⟩

theorem setSpousePointer_good {s : St} (hi : Inv s) (isHusb : Bool) {f : Nat}
    (hf : (abs s).tag f = tFAM) (p : Str) : Good s (setSpousePointer (Flags.goodWith b1 b2 b3) isHusb f p s) := by
  obtain ⟨hi1, a1, _⟩ := spouseRead_sound isHusb f s hi hf
  unfold setSpousePointer
  obtain ⟨hv2, fr2⟩ := rewriteSpouseValue_core hi1.v (spouseRead isHusb f s).1 (ident p)
  have fr2' : Frame (abs s) (abs (rewriteSpouseValue (spouseRead isHusb f s).1 (ident p) (spouseRead isHusb f s).2)) :=
    (Frame.of_eq a1).trans fr2
  obtain ⟨h3, fr3⟩ := appendSpouseNode_good hv2 isHusb (fr2'.tagEq hf tFAM_ne) p
  exact ⟨h3, fr2'.trans fr3⟩

theorem setSpouse_good {s : St} (hi : Inv s) (isHusb : Bool) {f i : Nat}
    (hf : (abs s).tag f = tFAM) (hin : i < s.heap.length) : Good s (setSpouse (Flags.goodWith b1 b2 b3) isHusb f i s) := by
  unfold setSpouse
  have h1 := addFresh_good (b1 := b1) (b2 := b2) (b3 := b3) hi hin ⟨tFAMS, ident ((abs s).ptr f), [], [], 0⟩ rfl
  exact h1.trans (setSpousePointer_good h1.1 isHusb (h1.2.tagEq hf tFAM_ne) _)

theorem addChild_good {s : St} (hi : Inv s) {f i : Nat}
    (hf : (abs s).tag f = tFAM) (hin : i < s.heap.length) : Good s (addChild (Flags.goodWith b1 b2 b3) f i s) := by
  unfold addChild
  have h1 := addFresh_good (b1 := b1) (b2 := b2) (b3 := b3) hi hin ⟨tFAMC, ident ((abs s).ptr f), [], [], 0⟩ rfl
  exact h1.trans (addFresh_good h1.1 (h1.2.lt (tag_lt hf tFAM_ne)) _ rfl)

theorem specIndividualOf_lt {s : St} (wf : WF s) {h j : Id} (e : specIndividualOf (abs s) h = some j) :
    j < s.heap.length := by
  unfold specIndividualOf at e
  split at e
  · rename_i r hr
    split at e
    · have : r = j := by simpa using e
      exact this ▸ wf.roots r (specByPtr_mem hr)
    · simp at e
  · simp at e

def specSpouseIndividual (a : Abs) (isHusb : Bool) (f : Id) : Option Id :=
  match (if isHusb then specHusband a f else specWife a f) with
  | some h => specIndividualOf a h
  | none => none

theorem spouseIndividual_sound (isHusb : Bool) (f : Id) :
    Sound (fun a => a.tag f = tFAM) (spouseIndividual isHusb f) (fun a => specSpouseIndividual a isHusb f) := by
  unfold spouseIndividual
  refine Sound.bind' (g := fun h a => match h with | some h => specIndividualOf a h | none => none)
    (spouseRead_sound isHusb f) fun h => ?_
  cases h with
  | none => exact Sound.pure none
  | some h => exact individualOf_sound h

theorem unlinkSpouse_good {s : St} (hi : Inv s) (f : Id) {j : Nat} (hj : j < s.heap.length) :
    Good s (unlinkSpouse (Flags.goodWith b1 b2 b3) f j s) := by
  unfold unlinkSpouse
  split
  · exact kidsEdit_good hi hj fun y hy => hi.1.kids j y (eraseLoopInPlace_subset _ _ y hy)
  · exact ⟨hi, Frame.refl _⟩

theorem clearSpouseOf_good {s : St} (hi : Inv s) (isHusb : Bool) {f j : Nat}
    (hf : (abs s).tag f = tFAM) (hj : j < s.heap.length) : Good s (clearSpouseOf (Flags.goodWith b1 b2 b3) isHusb f j s) := by
  unfold clearSpouseOf
  have gA := unlinkSpouse_good (b1 := b1) (b2 := b2) (b3 := b3) hi f hj
  have hfA := gA.2.tagEq hf tFAM_ne
  have hltA := tag_lt hfA tFAM_ne
  obtain ⟨gB, hB⟩ := deleteKidsWithTag_good (b1 := b1) (b2 := b2) (b3 := b3) gA.1 hltA (spouseTag isHusb)
  have hltB := gB.2.lt hltA
  have habs : abs (cacheNoSpouse isHusb f (deleteKidsWithTag (Flags.goodWith b1 b2 b3) f (spouseTag isHusb) (unlinkSpouse (Flags.goodWith b1 b2 b3) f j s)))
      = abs (deleteKidsWithTag (Flags.goodWith b1 b2 b3) f (spouseTag isHusb) (unlinkSpouse (Flags.goodWith b1 b2 b3) f j s)) := by
    unfold cacheNoSpouse; cases isHusb <;> rfl
  refine ⟨?_, habs ▸ (gA.trans gB).2⟩
  unfold cacheNoSpouse
  cases isHusb
  · exact cacheNoWife_inv gB.1 hltB (by unfold specWife; rw [show tWIFE = spouseTag false from rfl, hB]; rfl)
  · exact cacheNoHusband_inv gB.1 hltB (by unfold specHusband; rw [show tHUSB = spouseTag true from rfl, hB]; rfl)

theorem clearSpouse_good {s : St} (hi : Inv s) (isHusb : Bool) {f : Nat}
    (hf : (abs s).tag f = tFAM) : Good s (clearSpouse (Flags.goodWith b1 b2 b3) isHusb f s) := by
  obtain ⟨hi1, a1, r1⟩ := spouseIndividual_sound isHusb f s hi hf
  have fr1 : Frame (abs s) (abs (spouseIndividual isHusb f s).2) := Frame.of_eq a1
  unfold clearSpouse
  split
  · exact ⟨hi1, fr1⟩
  · rename_i j hj
    have hlt : j < (spouseIndividual isHusb f s).2.heap.length := by
      have hl : (spouseIndividual isHusb f s).2.heap.length = s.heap.length := congrArg (fun a => a.heap.length) a1
      rw [hl]
      rw [hj] at r1
      have r2 : some j = specSpouseIndividual (abs s) isHusb f := r1
      unfold specSpouseIndividual at r2
      generalize (if isHusb = true then specHusband (abs s) f else specWife (abs s) f) = o at r2
      cases o with
      | none => simp at r2
      | some h => exact specIndividualOf_lt hi.1 r2.symm
    have g := clearSpouseOf_good (b1 := b1) (b2 := b2) (b3 := b3) hi1 isHusb (j := j) (fr1.tagEq hf tFAM_ne) hlt
    exact ⟨g.1, fr1.trans g.2⟩

theorem setOrClear_good {s : St} (hi : Inv s) (isHusb : Bool) {f : Nat} (i : Option Id)
    (hf : (abs s).tag f = tFAM) (hin : ∀ x, i = some x → x < s.heap.length) :
    Good s (setOrClear (Flags.goodWith b1 b2 b3) isHusb f i s) := by
  unfold setOrClear
  cases i with
  | none => exact clearSpouse_good hi isHusb hf
  | some x => exact setSpouse_good hi isHusb hf (hin x rfl)



/-! ## every view, every operation -/

theorem isFam_iff {a : Abs} {f : Id} : isFam a f = true ↔ a.tag f = tFAM := by simp [isFam]

/-- the invariant supplies well-formedness of the document to the precondition -/
theorem Sound.awf {α : Type} {pre : Abs → Prop} {m : M α} {g : Abs → α}
    (h : Sound (fun a => AWF a ∧ pre a) m g) : Sound pre m g :=
  fun s hi hp => h s hi ⟨hi.1.awf, hp⟩

theorem runView_sound (v : View) :
    Sound (fun a => v.ok a = true) (runView v) (fun a => specView a v) := by
  cases v <;> simp only [runView, specView]
  case nodesWithTag n t =>
    exact Sound.bind' ((nwt_sound n t).weaken fun a h => by simpa [View.ok] using h) fun l => Sound.pure _
  case individuals => exact Sound.bind' (Sound.ofAbs _) fun l => Sound.pure _
  case families => exact Sound.bind' docFamilies_sound fun l => Sound.pure _
  case byPointer p => exact Sound.bind' (byPtr_sound p) fun l => Sound.pure _
  case indFamilies i => exact Sound.bind' ((indFamilies_sound i).weaken fun a h => h) fun l => Sound.pure _
  case spouses i => exact Sound.bind' ((spouses_sound i).weaken fun a h => h) fun l => Sound.pure _
  case parents i => exact Sound.bind' ((parents_sound i).weaken fun a h => h) fun l => Sound.pure _
  case children i => exact Sound.bind' ((children_sound i).weaken fun a h => h) fun l => Sound.pure _
  case husband f => exact Sound.bind' ((husband_sound f).weaken fun a h => isFam_iff.mp h) fun l => Sound.pure _
  case wife f => exact Sound.bind' ((wife_sound f).weaken fun a h => isFam_iff.mp h) fun l => Sound.pure _
  case famChildren f =>
    exact Sound.bind' (g := fun (l : List Id) _ => Obs.ids (l.map some))
      ((show Sound _ (famChildren f) _ from nwt_sound f tCHIL).weaken fun a h => tag_lt (isFam_iff.mp h) tFAM_ne)
      fun l => Sound.pure _
  case names i =>
    exact Sound.bind' (g := fun (l : List Id) _ => Obs.ids (l.map some))
      (Sound.awf ((show Sound _ (names i) _ from nwt_sound i tNAME).weaken fun a h =>
        h.1.roots _ (isIndi_iff.mp h.2).1))
      fun l => Sound.pure _
  case eventsOf i t =>
    exact Sound.bind' (g := fun (l : List Id) _ => Obs.ids (l.map some))
      (Sound.awf ((show Sound _ (eventsOf i t) _ from nwt_sound i t).weaken fun a h => by
        have h2 := h.2
        simp only [View.ok, Bool.and_eq_true] at h2
        exact h.1.roots _ (isIndi_iff.mp h2.1).1))
      fun l => Sound.pure _
  case allEvents i =>
    exact Sound.bind' (g := fun (l : List Id) _ => Obs.ids (l.map some)) (Sound.ofAbs _) fun l => Sound.pure _

/-! ## reads whose answer is not modelled: they keep the invariant and the document -/

def Pure {α : Type} (pre : Abs → Prop) (m : M α) : Prop :=
  ∀ s, Inv s → pre (abs s) → Inv (m s).2 ∧ abs (m s).2 = abs s

theorem Sound.toPure {α : Type} {pre : Abs → Prop} {m : M α} {g : Abs → α} (h : Sound pre m g) :
    Pure pre m := fun s hi hp => ⟨(h s hi hp).1, (h s hi hp).2.1⟩

theorem Pure.weaken {α : Type} {pre pre' : Abs → Prop} {m : M α} (h : Pure pre m)
    (hp : ∀ a, pre' a → pre a) : Pure pre' m := fun s hi hp' => h s hi (hp _ hp')

/-- the invariant supplies well-formedness of the document to the precondition -/
theorem Pure.awf {α : Type} {pre : Abs → Prop} {m : M α} (h : Pure (fun a => AWF a ∧ pre a) m) :
    Pure pre m := fun s hi hp => h s hi ⟨hi.1.awf, hp⟩

theorem Pure.pure {α : Type} {pre : Abs → Prop} (x : α) : Pure pre (M.pure x) :=
  fun _ hi _ => ⟨hi, rfl⟩

theorem Pure.bind {α β : Type} {pre : Abs → Prop} {m : M α} {k : α → M β} {f : Abs → α}
    (hm : Sound pre m f) (hk : ∀ x, Pure (fun a => pre a ∧ x = f a) (k x)) : Pure pre (M.bind m k) := by
  intro s hi hp
  obtain ⟨i1, a1, r1⟩ := hm s hi hp
  obtain ⟨i2, a2⟩ := hk (m s).1 (m s).2 i1 ⟨a1 ▸ hp, a1 ▸ r1⟩
  exact ⟨i2, a2.trans a1⟩

/-- sequencing when the first read's answer is not needed -/
theorem Pure.seq {α β : Type} {pre : Abs → Prop} {m : M α} {k : α → M β}
    (hm : Pure pre m) (hk : ∀ x, Pure pre (k x)) : Pure pre (M.bind m k) := by
  intro s hi hp
  obtain ⟨i1, a1⟩ := hm s hi hp
  obtain ⟨i2, a2⟩ := hk (m s).1 (m s).2 i1 (a1 ▸ hp)
  exact ⟨i2, a2.trans a1⟩

theorem Pure.mapM' {α β : Type} {pre : Abs → Prop} {k : α → M β} :
    ∀ (l : List α), (∀ x ∈ l, Pure pre (k x)) → Pure pre (M.mapM' k l)
  | [], _ => Pure.pure []
  | x :: xs, h => by
    unfold M.mapM'
    exact Pure.seq (h x List.mem_cons_self) fun y =>
      Pure.seq (Pure.mapM' xs fun z hz => h z (List.mem_cons_of_mem _ hz)) fun ys => Pure.pure _

theorem eventDates_pure (n : Id) (t : Str) :
    Pure (fun a => AWF a ∧ n < a.heap.length) (eventDates n t) := by
  unfold eventDates
  refine Pure.bind ((nwt_sound n t).weaken fun a h => h.2) fun es => ?_
  refine Pure.seq (Pure.mapM' es fun e he => ?_) fun _ => Pure.pure ()
  refine ((nwt_sound e tDATE).toPure).weaken fun a h => ?_
  exact specNWT_lt h.1.1 (h.2 ▸ he)

theorem birthOf_pure (i : Option Id) :
    Pure (fun a => AWF a ∧ ∀ x, i = some x → x < a.heap.length) (birthOf i) := by
  unfold birthOf
  cases i with
  | none => exact Pure.pure ()
  | some x => exact (eventDates_pure x tBIRT).weaken fun a h => ⟨h.1, h.2 x rfl⟩

theorem indiWarnReads_pure (i : Id) :
    Pure (fun a => AWF a ∧ i < a.heap.length) (indiWarnReads i) := by
  unfold indiWarnReads
  exact Pure.seq (eventDates_pure i tBIRT) fun _ => Pure.seq (eventDates_pure i tBAPM) fun _ =>
    Pure.seq (eventDates_pure i tBAPL) fun _ => Pure.seq (eventDates_pure i tDEAT) fun _ =>
    Pure.seq (eventDates_pure i tBURI) fun _ =>
    Pure.seq (((nwt_sound i tSEX).toPure).weaken fun a h => h.2) fun _ => Pure.pure ()

theorem specIndividualOf_lt' {a : Abs} (w : AWF a) {h j : Id} (e : specIndividualOf a h = some j) :
    j < a.heap.length := by
  unfold specIndividualOf at e
  split at e
  · rename_i r hr
    split at e
    · have : r = j := by simpa using e
      exact this ▸ w.roots r (specByPtr_mem hr)
    · simp at e
  · simp at e

theorem spouseBirth_pure (isHusb : Bool) (f : Id) :
    Pure (fun a => AWF a ∧ a.tag f = tFAM) (spouseBirth isHusb f) := by
  unfold spouseBirth
  refine Pure.bind ((spouseIndividual_sound isHusb f).weaken fun a h => h.2) fun i => ?_
  refine (birthOf_pure i).weaken fun a h => ⟨h.1.1, fun x hx => ?_⟩
  have e : some x = specSpouseIndividual a isHusb f := hx ▸ h.2
  unfold specSpouseIndividual at e
  generalize (if isHusb = true then specHusband a f else specWife a f) = o at e
  cases o with
  | none => simp at e
  | some y => exact specIndividualOf_lt' h.1.1 e.symm

theorem famWarnReads_pure (f : Id) :
    Pure (fun a => AWF a ∧ a.tag f = tFAM) (famWarnReads f) := by
  unfold famWarnReads
  refine Pure.seq (spouseBirth_pure true f) fun _ => Pure.seq (spouseBirth_pure false f) fun _ => ?_
  refine Pure.bind ((show Sound _ (famChildren f) _ from nwt_sound f tCHIL).weaken
    fun a h => tag_lt h.2 tFAM_ne) fun cs => ?_
  refine Pure.seq (Pure.mapM' cs fun c _ => ?_) fun _ =>
    Pure.seq ((eventDates_pure f tMARR).weaken fun a h => ⟨h.1.1, tag_lt h.1.2 tFAM_ne⟩) fun _ => Pure.pure ()
  refine Pure.bind (individualOf_sound c) fun i => ?_
  refine (birthOf_pure i).weaken fun a h => ⟨h.1.1.1, fun x hx => ?_⟩
  exact specIndividualOf_lt' h.1.1.1 (hx ▸ h.2).symm

theorem rootWarnReads_pure (r : Id) :
    Pure (fun a => AWF a ∧ r < a.heap.length) (rootWarnReads r) := by
  unfold rootWarnReads
  refine Pure.bind (Sound.ofAbs _) fun t => ?_
  by_cases h1 : (t == tINDI) = true
  · simp only [h1, if_true]
    exact (indiWarnReads_pure r).weaken fun a h => h.1
  · simp only [h1, Bool.false_eq_true, if_false]
    by_cases h2 : (t == tFAM) = true
    · simp only [h2, if_true]
      refine (famWarnReads_pure r).weaken fun a h => ⟨h.1.1, ?_⟩
      have : t = tFAM := by simpa using h2
      rw [← this]; exact h.2.symm
    · simp only [h2, Bool.false_eq_true, if_false]
      exact Pure.pure ()

/-- `Document.Warnings()` keeps every cache coherent and does not change the document -/
theorem warningsRead_pure : Pure (fun _ => True) warningsRead := by
  apply Pure.awf
  unfold warningsRead
  refine Pure.bind (Sound.ofAbs _) fun rs => ?_
  refine Pure.seq (Pure.mapM' rs fun r hr => ?_) fun _ => Pure.pure ()
  exact (rootWarnReads_pure r).weaken fun a h => ⟨h.1.1, h.1.1.roots r (h.2 ▸ hr)⟩

theorem value_setValue_ne (h : List NodeRec) (r r' : List Id) (n m : Nat) (v : Str) (hm : m ≠ n) :
    (Abs.mk (setValue h n v) r').value m = (Abs.mk h r).value m := by
  simp only [Abs.value, getElem?_setValue, hm, if_false]

theorem addFresh_length (fl : Flags) (n : Id) (x : NodeRec) (s : St) :
    (addFresh fl n x s).heap.length = s.heap.length + 1 := by
  have : abs (addFresh fl n x s) = ⟨setKids (s.heap ++ [x]) n ((abs (alloc x s)).kids n ++ [s.heap.length]), s.roots⟩ := by
    unfold addFresh addKid
    rw [abs_afterKidsEdit]; rfl
  have := congrArg (fun a => a.heap.length) this
  simpa [setKids_length] using this

/-- `AddBirthDate` and friends -/
theorem addEventDate_good {s : St} (hi : Inv s) {i : Nat} (hin : i < s.heap.length) (t v : Str) :
    Good s (addEventDate (Flags.goodWith b1 b2 b3) i t v s) := by
  obtain ⟨hi1, a1, r1⟩ := nwt_sound i t s hi hin
  have fr1 : Frame (abs s) (abs (nwt i t s).2) := Frame.of_eq a1
  have hl : (nwt i t s).2.heap.length = s.heap.length := congrArg (fun a => a.heap.length) a1
  unfold addEventDate
  split
  · rename_i e he
    have r1' : (nwt i t s).1 = specNWT (abs s) i t := r1
    have hm : e ∈ specNWT (abs s) i t := r1' ▸ List.mem_of_head? he
    have hlt : e < (nwt i t s).2.heap.length := hl ▸ specNWT_lt hi.1.awf hm
    have g := addFresh_good (b1 := b1) (b2 := b2) (b3 := b3) hi1 hlt ⟨tDATE, v, [], [], 0⟩ rfl
    exact ⟨g.1, fr1.trans g.2⟩
  · have g1 := addFresh_good (b1 := b1) (b2 := b2) (b3 := b3) hi1 (hl ▸ hin) ⟨t, [], [], [], 0⟩ rfl
    have hlt : (nwt i t s).2.heap.length <
        (addFresh (Flags.goodWith b1 b2 b3) i ⟨t, [], [], [], 0⟩ (nwt i t s).2).heap.length := by
      rw [addFresh_length]; exact Nat.lt_succ_self _
    have g2 := addFresh_good (b1 := b1) (b2 := b2) (b3 := b3) g1.1 hlt ⟨tDATE, v, [], [], 0⟩ rfl
    exact ⟨g2.1, fr1.trans (g1.2.trans g2.2)⟩

theorem setValue_frame (s : St) (x : Nat) (v : Str) :
    Frame (abs s) (abs { s with heap := setValue s.heap x v }) :=
  ⟨by simp [abs, setValue_length], rfl, fun m _ => tag_setValue _ _ _ _ _ _, fun m _ => ptr_setValue _ _ _ _ _ _⟩

/-- `SetSex`: the overwritten value belongs to a SEX node, which no family view reads -/
theorem setSex_good {s : St} (hi : Inv s) {i : Nat} (hin : i < s.heap.length) (v : Str) :
    Good s (setSex (Flags.goodWith b1 b2 b3) i v s) := by
  obtain ⟨hi1, a1, r1⟩ := nwt_sound i tSEX s hi hin
  have fr1 : Frame (abs s) (abs (nwt i tSEX s).2) := Frame.of_eq a1
  have hl : (nwt i tSEX s).2.heap.length = s.heap.length := congrArg (fun a => a.heap.length) a1
  unfold setSex
  split
  · rename_i x hx
    have r1' : (nwt i tSEX s).1 = specNWT (abs s) i tSEX := r1
    have hm : x ∈ specNWT (abs s) i tSEX := r1' ▸ List.mem_of_head? hx
    have htag : (abs (nwt i tSEX s).2).tag x = tSEX := a1 ▸ specNWT_tag hm
    have fr := setValue_frame (nwt i tSEX s).2 x v
    refine ⟨Inv.of (setValue_core hi1.v x v) (ind_transfer hi1 ⟨fr, ?_, ?_⟩ (fun _ h => h) (fun _ h => h)),
      fr1.trans fr⟩
    · intro m _ hlink
      have hne : m ≠ x := by
        intro e
        subst e
        rcases hlink with h | h | h <;> rw [htag] at h <;> exact absurd h (by decide)
      exact value_setValue_ne _ _ _ _ _ _ hne
    · intro m _; exact kids_setValue _ _ _ _ _ _
  · have g := addFresh_good (b1 := b1) (b2 := b2) (b3 := b3) hi1 (hl ▸ hin) ⟨tSEX, v, [], [], 0⟩ rfl
    exact ⟨g.1, fr1.trans g.2⟩

theorem plainTag_ne_INDI {t : Str} (h : plainTag t = true) : t ≠ tINDI := by
  intro e; subst e; revert h; decide

theorem isIndi_lt {s : St} (wf : WF s) {i : Id} (h : isIndi (abs s) i = true) : i < s.heap.length :=
  wf.roots i (isIndi_iff.mp h).1

theorem exec_inv {s : St} (hi : Inv s) (op : Op) (hok : op.ok (abs s) = true) :
    Inv (exec (Flags.goodWith b1 b2 b3) s op).1 := by
  cases op with
  | addNode n t v p =>
    simp only [Op.ok, Bool.and_eq_true, decide_eq_true_eq] at hok
    exact (addFresh_good hi hok.1 _ rfl).1
  | deleteNode n c =>
    simp only [Op.ok, decide_eq_true_eq] at hok
    exact (deleteKid_good hi hok c).1
  | deleteNodesWithTag n t =>
    simp only [Op.ok, decide_eq_true_eq] at hok
    exact (deleteKidsWithTag_good hi hok t).1.1
  | setNodes n ks =>
    simp only [Op.ok, Bool.and_eq_true, decide_eq_true_eq, List.all_eq_true] at hok
    exact (setKidsOp_good hi hok.1 ks fun c hc => by simpa using hok.2 c hc).1
  | docAddNode t v p =>
    exact docAppend_inv hi _ rfl
  | addIndividual p => exact addIndividual_inv hi p
  | addFamily p => exact addFamily_inv hi p hok
  | addFamilyHW p h w =>
    simp only [Op.ok, Bool.and_eq_true] at hok
    obtain ⟨⟨hp, hh⟩, hw⟩ := hok
    have h1 := addFamily_inv (b1 := b1) (b2 := b2) (b3 := b3) hi p hp
    have a1 := abs_addFamily (b1 := b1) (b2 := b2) (b3 := b3) p s
    have hl1 : (addFamily (Flags.goodWith b1 b2 b3) p s).heap.length = s.heap.length + 1 := by
      have := congrArg (fun a => a.heap.length) a1
      simpa using this
    have hf1 : (abs (addFamily (Flags.goodWith b1 b2 b3) p s)).tag s.heap.length = tFAM := by
      rw [a1]; exact tag_append_new _ _ _
    have g2 := setOrClear_good (b1 := b1) (b2 := b2) (b3 := b3) h1 true (f := s.heap.length) h hf1 (fun x hx => by
      subst hx
      rw [hl1]; exact Nat.lt_succ_of_lt (isIndi_lt hi.1 hh))
    have g3 := setOrClear_good (b1 := b1) (b2 := b2) (b3 := b3) g2.1 false (f := s.heap.length) w (g2.2.tagEq hf1 tFAM_ne) (fun x hx => by
      subst hx
      apply g2.2.lt
      show x < (addFamily (Flags.goodWith b1 b2 b3) p s).heap.length
      rw [hl1]; exact Nat.lt_succ_of_lt (isIndi_lt hi.1 hw))
    exact g3.1
  | docDelete r => exact docDelete_inv hi r
  | docSetNodes ks =>
    simp only [Op.ok, List.all_eq_true] at hok
    exact docSetNodes_inv hi ks fun k hk => by simpa using hok k hk
  | setHusband f i =>
    simp only [Op.ok, Bool.and_eq_true] at hok
    refine (setOrClear_good hi true i (isFam_iff.mp hok.1) fun x hx => ?_).1
    subst hx; exact isIndi_lt hi.1 hok.2
  | setWife f i =>
    simp only [Op.ok, Bool.and_eq_true] at hok
    refine (setOrClear_good hi false i (isFam_iff.mp hok.1) fun x hx => ?_).1
    subst hx; exact isIndi_lt hi.1 hok.2
  | setHusbandPointer f p => exact (setSpousePointer_good hi true (isFam_iff.mp hok) p).1
  | setWifePointer f p => exact (setSpousePointer_good hi false (isFam_iff.mp hok) p).1
  | addChild f i =>
    simp only [Op.ok, Bool.and_eq_true] at hok
    exact (addChild_good hi (isFam_iff.mp hok.1) (isIndi_lt hi.1 hok.2)).1
  | addEventDate i t v =>
    simp only [Op.ok, Bool.and_eq_true] at hok
    exact (addEventDate_good hi (isIndi_lt hi.1 hok.1) t v).1
  | setSex i v => exact (setSex_good hi (isIndi_lt hi.1 hok) v).1
  | read v => exact (runView_sound v s hi hok).1
  | warnings => exact (warningsRead_pure s hi trivial).1
  | string => exact hi
  | gedcomString n => exact hi
  | foreign => exact resetNodeCache_inv hi
  | inert => exact hi


end Gedcom.Cache
