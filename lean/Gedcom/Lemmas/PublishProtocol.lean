/- Helper lemmas for C19 (ii): ranking function of the publish protocol, soundness of the
   executable scheduler, conservation of files.  Core Lean only. -/
import Gedcom.Model.PublishProtocol
namespace Gedcom.Publish
open Gedcom

theorem sum_set (ws : List Worker) (i : Nat) (w w' : Worker) (h : ws[i]? = some w) :
    ((setW ws i w').map workerRank).sum + workerRank w = (ws.map workerRank).sum + workerRank w' := by
  induction ws generalizing i with
  | nil => simp at h
  | cons x xs ih =>
    cases i with
    | zero => simp at h; subst h; simp [setW]; omega
    | succ i =>
      simp at h
      have := ih i h
      simp [setW] at this ⊢
      omega

theorem afterFailure_rank : workerRank afterFailure ≤ 1 := by
  unfold afterFailure; split <;> simp [workerRank]

theorem step_decreases {cap : Nat} {fails : Writer} {s s' : St} (h : Step cap fails s s') :
    s'.rank < s.rank := by
  cases h with
  | produce f rest h1 h2 => simp [St.rank, h1]; omega
  | close h1 h2 => simp [St.rank, h2]
  | take i f rest h1 h2 =>
    have := sum_set s.workers i .idle (.holding f) h1
    simp [St.rank, h2, workerRank] at this ⊢; omega
  | finish i h1 h2 h3 =>
    have := sum_set s.workers i .idle .done h1
    simp [St.rank, workerRank] at this ⊢; omega
  | writeOk i f h1 h2 =>
    have := sum_set s.workers i (.holding f) .idle h1
    simp [St.rank, workerRank] at this ⊢; omega
  | writeFail i f h1 h2 =>
    have := sum_set s.workers i (.holding f) afterFailure h1
    have hr := afterFailure_rank
    have h2 : workerRank (Worker.holding f) = 2 := rfl
    simp only [St.rank] at this ⊢; omega

/-- `n` steps from `a` to `b` -/
inductive StepsN (cap : Nat) (fails : Writer) : Nat → St → St → Prop
  | refl (s : St) : StepsN cap fails 0 s s
  | tail (n : Nat) (a b c : St) : StepsN cap fails n a b → Step cap fails b c → StepsN cap fails (n + 1) a c

theorem stepsN_rank {cap : Nat} {fails : Writer} {n : Nat} {a b : St} (h : StepsN cap fails n a b) :
    n + b.rank ≤ a.rank := by
  induction h with
  | refl s => simp
  | tail n a b c _ hs ih => have := step_decreases hs; omega

theorem enabled_sound {cap : Nat} {fails : Writer} {s s' : St} (h : s' ∈ enabled cap fails s) :
    Step cap fails s s' := by
  unfold enabled at h
  rcases List.mem_append.mp h with h | h
  · split at h
    · rename_i f rest hf
      split at h
      · rename_i hc; simp at h; subst h; exact .produce s f rest hf hc
      · simp at h
    · rename_i hf
      split at h
      · simp at h
      · rename_i hc; simp at h; subst h; exact .close s hf (by simpa using hc)
  · obtain ⟨i, _, hi⟩ := List.mem_flatMap.mp h
    split at hi
    · rename_i hw
      split at hi
      · rename_i f rest hc; simp at hi; subst hi; exact .take s i f rest hw hc
      · rename_i hc
        split at hi
        · rename_i hcl; simp at hi; subst hi; exact .finish s i hw hc hcl
        · simp at hi
    · rename_i f hw
      split at hi
      · rename_i hf; simp at hi; subst hi; exact .writeFail s i f hw hf
      · rename_i hf; simp at hi; subst hi; exact .writeOk s i f hw (by simpa using hf)
    · simp at hi

theorem steps_head {cap : Nat} {fails : Writer} {a b c : St}
    (hab : Step cap fails a b) (hbc : Steps cap fails b c) : Steps cap fails a c := by
  induction hbc with
  | refl => exact .tail a a _ (.refl a) hab
  | tail m c' _ hmc ih' => exact .tail a m c' ih' hmc

theorem runSched_steps (cap : Nat) (fails : Writer) (fuel : Nat) (sched : List Nat) (s : St) :
    Steps cap fails s (runSched cap fails fuel sched s) := by
  induction fuel generalizing sched s with
  | zero => exact .refl s
  | succ fuel ih =>
    unfold runSched
    split
    · exact .refl s
    · split
      · exact .refl s
      · rename_i e es he
        have hstep : ∀ t, t ∈ e :: es → Step cap fails s t := fun t ht => enabled_sound (he ▸ ht)
        cases sched with
        | nil =>
          simp only []
          exact steps_head (hstep _ (by simp [List.getD])) (ih _ _)
        | cons p ps =>
          simp only []
          refine steps_head (hstep _ ?_) (ih _ _)
          rw [List.getD_eq_getElem?_getD]
          cases hq : (e :: es)[p % (es.length + 1)]? with
          | none => simp
          | some t => simp; exact List.mem_of_getElem? hq |> List.mem_cons.mp

/-! ### the executable scheduler is complete and runs to the end -/

theorem lt_of_getElem?_some {α} {l : List α} {i : Nat} {a : α} (h : l[i]? = some a) : i < l.length := by
  exact (List.getElem?_eq_some_iff.mp h).1

theorem enabled_complete {cap : Nat} {fails : Writer} {s s' : St} (h : Step cap fails s s') :
    s' ∈ enabled cap fails s := by
  unfold enabled
  cases h with
  | produce f rest h1 h2 =>
    refine List.mem_append.mpr (Or.inl ?_)
    simp [h1, h2]
  | close h1 h2 =>
    refine List.mem_append.mpr (Or.inl ?_)
    simp [h1, h2]
  | take i f rest h1 h2 =>
    refine List.mem_append.mpr (Or.inr (List.mem_flatMap.mpr ⟨i, List.mem_range.mpr (lt_of_getElem?_some h1), ?_⟩))
    simp [h1, h2]
  | finish i h1 h2 h3 =>
    refine List.mem_append.mpr (Or.inr (List.mem_flatMap.mpr ⟨i, List.mem_range.mpr (lt_of_getElem?_some h1), ?_⟩))
    simp [h1, h2, h3]
  | writeOk i f h1 h2 =>
    refine List.mem_append.mpr (Or.inr (List.mem_flatMap.mpr ⟨i, List.mem_range.mpr (lt_of_getElem?_some h1), ?_⟩))
    simp [h1, h2]
  | writeFail i f h1 h2 =>
    refine List.mem_append.mpr (Or.inr (List.mem_flatMap.mpr ⟨i, List.mem_range.mpr (lt_of_getElem?_some h1), ?_⟩))
    simp [h1, h2]

def returnedB (s : St) : Bool := s.workers.all (fun w => w == .done || w == .failed)

theorem returnedB_iff (s : St) : returnedB s = true ↔ s.returned := by
  unfold returnedB St.returned
  simp [List.all_eq_true]

/-- with enough fuel the executable scheduler runs until `Publish` has returned, whatever the
    schedule: every schedule is a terminating run -/
theorem runSched_returns (cap : Nat) (fails : Writer) (fuel : Nat) (sched : List Nat) (s : St)
    (hf : s.rank ≤ fuel) (nd : ∀ t, ¬ t.returned → ∃ t', Step cap fails t t') :
    (runSched cap fails (fuel + 1) sched s).returned := by
  induction fuel generalizing sched s with
  | zero =>
    unfold runSched
    split
    · rename_i hr; exact (returnedB_iff s).mp hr
    · rename_i hr
      have hnr : ¬ s.returned := fun h => hr ((returnedB_iff s).mpr h)
      obtain ⟨t', ht'⟩ := nd s hnr
      have := step_decreases ht'
      omega
  | succ fuel ih =>
    unfold runSched
    split
    · rename_i hr; exact (returnedB_iff s).mp hr
    · rename_i hr
      have hnr : ¬ s.returned := fun h => hr ((returnedB_iff s).mpr h)
      obtain ⟨t', ht'⟩ := nd s hnr
      have hmem := enabled_complete ht'
      split
      · rename_i he; rw [he] at hmem; simp at hmem
      · rename_i e es he
        have hstep : ∀ t, t ∈ e :: es → Step cap fails s t := fun t ht => enabled_sound (he ▸ ht)
        have key : ∀ pick, (runSched cap fails (fuel + 1) (sched.drop 1) ((e :: es).getD pick e)).returned := by
          intro pick
          apply ih
          have hm : (e :: es).getD pick e ∈ e :: es := by
            rw [List.getD_eq_getElem?_getD]
            cases hq : (e :: es)[pick]? with
            | none => simp
            | some t => simp; exact List.mem_of_getElem? hq |> List.mem_cons.mp
          have := step_decreases (hstep _ hm)
          omega
        cases sched with
        | nil => simpa using key 0
        | cons p ps => simpa using key (p % (es.length + 1))
/-! ### conservation: no file is lost or duplicated by any interleaving -/

theorem held_set_perm (ws : List Worker) (i : Nat) (w : Worker) (h : ws[i]? = some w) (w' : Worker) :
    (held [w'] ++ held ws).Perm (held [w] ++ held (setW ws i w')) := by
  induction ws generalizing i with
  | nil => simp at h
  | cons x xs ih =>
    cases i with
    | zero =>
      simp at h; subst h
      simp only [setW, List.set_cons_zero]
      cases x <;> cases w' <;> simp [held, List.perm_comm] <;> exact List.Perm.swap _ _ _
    | succ i =>
      simp at h
      have := ih i h
      simp only [setW, List.set_cons_succ] at this ⊢
      cases x with
      | holding g =>
        simp only [held]
        refine (List.perm_middle).trans ?_
        refine List.Perm.trans ?_ (List.perm_middle).symm
        exact List.Perm.cons g this
      | idle => simpa [held] using this
      | done => simpa [held] using this
      | failed => simpa [held] using this

/-- every file is at exactly one place: already handed to the writer, inside a worker, in the
    channel, or still with the producer -/
def Conserved (files : List Nat) (s : St) : Prop :=
  files.Perm (s.log.map (·.1) ++ held s.workers ++ s.chan ++ s.todo)

theorem held_replicate_idle (j : Nat) : held (List.replicate j Worker.idle) = [] := by
  induction j with
  | zero => rfl
  | succ j ih => simp [List.replicate_succ, held, ih]

theorem conserved_init (files : List Nat) (jobs : Nat) : Conserved files (St.init files jobs) := by
  simp [Conserved, St.init, held_replicate_idle]

theorem held_set_from_idle (ws : List Worker) (i f : Nat) (h : ws[i]? = some .idle) :
    (held (setW ws i (.holding f))).Perm (f :: held ws) := by
  have := held_set_perm ws i .idle h (.holding f)
  simpa [held] using this.symm

theorem held_set_to (ws : List Worker) (i f : Nat) (w' : Worker) (h : ws[i]? = some (.holding f))
    (hw : held [w'] = []) : (held ws).Perm (f :: held (setW ws i w')) := by
  have := held_set_perm ws i (.holding f) h w'
  simpa [held, hw] using this

theorem held_set_idle_to (ws : List Worker) (i : Nat) (w' : Worker) (h : ws[i]? = some .idle)
    (hw : held [w'] = []) : (held ws).Perm (held (setW ws i w')) := by
  have := held_set_perm ws i .idle h w'
  simpa [held, hw] using this

theorem afterFailure_held : held [afterFailure] = [] := by
  unfold afterFailure; split <;> rfl

theorem conserved_step {cap : Nat} {fails : Writer} {files : List Nat} {s s' : St}
    (hc : Conserved files s) (h : Step cap fails s s') : Conserved files s' := by
  unfold Conserved at hc ⊢
  cases h with
  | produce f rest h1 h2 =>
    simp only []
    rw [h1] at hc
    simpa [List.append_assoc] using hc
  | close h1 h2 => simpa using hc
  | take i f rest h1 h2 =>
    simp only []
    rw [h2] at hc
    refine hc.trans ?_
    have hp := held_set_from_idle s.workers i f h1
    -- log ++ held ++ f :: rest ++ todo  ~  log ++ held' ++ rest ++ todo
    refine List.Perm.append_right s.todo ?_
    refine List.Perm.trans ?_ (List.Perm.append_right rest (List.Perm.append_left _ hp.symm))
    simp only [List.append_assoc]
    refine List.Perm.append_left _ ?_
    exact (List.perm_middle).trans (List.Perm.refl _)
  | finish i h1 h2 h3 =>
    simp only []
    have hp := held_set_idle_to s.workers i .done h1 rfl
    refine hc.trans ?_
    exact List.Perm.append_right _ (List.Perm.append_right _ (List.Perm.append_left _ hp))
  | writeOk i f h1 h2 =>
    simp only []
    have hp := held_set_to s.workers i f .idle h1 rfl
    refine hc.trans ?_
    refine List.Perm.append_right _ (List.Perm.append_right _ ?_)
    simp only [List.map_append, List.map_cons, List.map_nil, List.append_assoc]
    refine List.Perm.append_left _ ?_
    simpa using hp
  | writeFail i f h1 h2 =>
    simp only []
    have hp := held_set_to s.workers i f afterFailure h1 afterFailure_held
    refine hc.trans ?_
    refine List.Perm.append_right _ (List.Perm.append_right _ ?_)
    simp only [List.map_append, List.map_cons, List.map_nil, List.append_assoc]
    refine List.Perm.append_left _ ?_
    simpa using hp

theorem conserved_steps {cap : Nat} {fails : Writer} {files : List Nat} {a b : St}
    (hc : Conserved files a) (h : Steps cap fails a b) : Conserved files b := by
  induction h with
  | refl => exact hc
  | tail m c _ hs ih => exact conserved_step ih hs

/-- closing happens only after everything was sent -/
def ClosedInv (s : St) : Prop := s.closed = true → s.todo = []

theorem closedInv_step {cap : Nat} {fails : Writer} {s s' : St}
    (hc : ClosedInv s) (h : Step cap fails s s') : ClosedInv s' := by
  unfold ClosedInv at hc ⊢
  cases h with
  | produce f rest h1 h2 => intro hcl; have := hc hcl; simp [h1] at this
  | close h1 h2 => intro _; exact h1
  | take i f rest h1 h2 => exact hc
  | finish i h1 h2 h3 => exact hc
  | writeOk i f h1 h2 => exact hc
  | writeFail i f h1 h2 => exact hc

theorem closedInv_steps {cap : Nat} {fails : Writer} {a b : St}
    (hc : ClosedInv a) (h : Steps cap fails a b) : ClosedInv b := by
  induction h with
  | refl => exact hc
  | tail m c _ hs ih => exact closedInv_step ih hs

/-- a worker is `done` only when the channel was closed and empty at that moment; the channel
    never refills afterwards -/
def DoneInv (s : St) : Prop := (∃ w ∈ s.workers, w = Worker.done) → s.closed = true ∧ s.chan = []

theorem mem_setW {ws : List Worker} {i : Nat} {w x : Worker} (h : x ∈ setW ws i w) : x = w ∨ x ∈ ws := by
  unfold setW at h
  rcases List.mem_or_eq_of_mem_set h with h | h
  · exact Or.inr h
  · exact Or.inl h

theorem doneInv_step {cap : Nat} {fails : Writer} {s s' : St}
    (hc : DoneInv s) (hci : ClosedInv s) (h : Step cap fails s s') : DoneInv s' := by
  unfold DoneInv at hc ⊢
  cases h with
  | produce f rest h1 h2 =>
    intro hd
    have := hc hd
    have := hci this.1
    simp [h1] at this
  | close h1 h2 =>
    intro hd; have := hc hd; simp [h2] at this
  | take i f rest h1 h2 =>
    rintro ⟨w, hw, rfl⟩
    rcases mem_setW hw with hw | hw
    · cases hw
    · have := hc ⟨_, hw, rfl⟩; simp [h2] at this
  | finish i h1 h2 h3 => intro _; exact ⟨h3, h2⟩
  | writeOk i f h1 h2 =>
    rintro ⟨w, hw, rfl⟩
    rcases mem_setW hw with hw | hw
    · cases hw
    · exact hc ⟨_, hw, rfl⟩
  | writeFail i f h1 h2 =>
    rintro ⟨w, hw, rfl⟩
    rcases mem_setW hw with hw | hw
    · exfalso; unfold afterFailure at hw; split at hw <;> cases hw
    · exact hc ⟨_, hw, rfl⟩

theorem doneInv_steps {cap : Nat} {fails : Writer} {a b : St}
    (hd : DoneInv a) (hc : ClosedInv a) (h : Steps cap fails a b) : DoneInv b ∧ ClosedInv b := by
  induction h with
  | refl => exact ⟨hd, hc⟩
  | tail m c _ hs ih => exact ⟨doneInv_step ih.1 ih.2 hs, closedInv_step ih.2 hs⟩

theorem held_nil_of_done (ws : List Worker) (h : ∀ w ∈ ws, w = Worker.done ∨ w = Worker.failed) :
    held ws = [] := by
  induction ws with
  | nil => rfl
  | cons x xs ih =>
    have hx := h x (by simp)
    have := ih (fun w hw => h w (by simp [hw]))
    rcases hx with hx | hx <;> subst hx <;> simpa [held] using this

end Gedcom.Publish
