/- Frame-stack lemmas for the decoder model (adapted from the calibrated spike). -/
import Gedcom.Lemmas.Line
namespace Gedcom.Dec
open Gedcom

def setFam (b : Bool) (s : St) : St := { s with seenFam := b }

/-- append finished trees to the deepest open node, or to the roots -/
def attach (s : St) (ts : List Node) : St :=
  match s with
  | ⟨r, [], sf⟩ => ⟨r ++ ts, [], sf⟩
  | ⟨r, f :: fs, sf⟩ => ⟨r, { f with kids := f.kids ++ ts } :: fs, sf⟩

@[simp] theorem setFam_stack (b : Bool) (s : St) : (setFam b s).stack = s.stack := rfl
@[simp] theorem setFam_roots (b : Bool) (s : St) : (setFam b s).roots = s.roots := rfl
@[simp] theorem setFam_seen (b : Bool) (s : St) : (setFam b s).seenFam = b := rfl
@[simp] theorem setFam_setFam (a b : Bool) (s : St) : setFam a (setFam b s) = setFam a s := rfl
@[simp] theorem setFam_self (s : St) : setFam s.seenFam s = s := rfl

@[simp] theorem closeOne_len (s : St) : (closeOne s).stack.length = s.stack.length - 1 := by
  rcases s with ⟨r, _ | ⟨f, _ | ⟨g, fs⟩⟩, sf⟩ <;> simp [closeOne]
@[simp] theorem closeOne_seen (s : St) : (closeOne s).seenFam = s.seenFam := by
  rcases s with ⟨r, _ | ⟨f, _ | ⟨g, fs⟩⟩, sf⟩ <;> simp [closeOne]
theorem closeOne_setFam (b : Bool) (s : St) : closeOne (setFam b s) = setFam b (closeOne s) := by
  rcases s with ⟨r, _ | ⟨f, _ | ⟨g, fs⟩⟩, sf⟩ <;> simp [closeOne, setFam]

theorem closeN_len (k : Nat) (s : St) : (closeN k s).stack.length = s.stack.length - k := by
  induction k generalizing s with
  | zero => simp [closeN]
  | succ k ih => simp [closeN, ih]; omega
theorem closeN_seen (k : Nat) (s : St) : (closeN k s).seenFam = s.seenFam := by
  induction k generalizing s with
  | zero => simp [closeN]
  | succ k ih => simp [closeN, ih]
theorem closeN_setFam (k : Nat) (b : Bool) (s : St) : closeN k (setFam b s) = setFam b (closeN k s) := by
  induction k generalizing s with
  | zero => simp [closeN]
  | succ k ih => simp [closeN, closeOne_setFam, ih]

theorem closeTo_len (n : Nat) (s : St) (h : n ≤ s.stack.length) :
    (closeTo n s).stack.length = n := by
  simp [closeTo, closeN_len]; omega
@[simp] theorem closeTo_seen (n : Nat) (s : St) : (closeTo n s).seenFam = s.seenFam := by
  simp [closeTo, closeN_seen]
theorem closeTo_setFam (n : Nat) (b : Bool) (s : St) : closeTo n (setFam b s) = setFam b (closeTo n s) := by
  simp [closeTo, closeN_setFam]

theorem closeN_add (a b : Nat) (s : St) : closeN (a + b) s = closeN b (closeN a s) := by
  induction a generalizing s with
  | zero => simp [closeN]
  | succ a ih => simp [Nat.succ_add, closeN, ih]

theorem closeTo_closeTo (n m : Nat) (s : St) (h : n ≤ m) :
    closeTo n (closeTo m s) = closeTo n s := by
  unfold closeTo
  rw [closeN_len, ← closeN_add]
  congr 1; omega

theorem closeTo_self (s : St) (n : Nat) (h : s.stack.length ≤ n) : closeTo n s = s := by
  simp [closeTo, Nat.sub_eq_zero_of_le h, closeN]

@[simp] theorem attach_nil (s : St) : attach s [] = s := by
  rcases s with ⟨r, _ | ⟨f, fs⟩, sf⟩ <;> simp [attach]
theorem attach_attach (s : St) (a b : List Node) : attach (attach s a) b = attach s (a ++ b) := by
  rcases s with ⟨r, _ | ⟨f, fs⟩, sf⟩ <;> simp [attach]
theorem attach_setFam (b : Bool) (s : St) (ts : List Node) :
    attach (setFam b s) ts = setFam b (attach s ts) := by
  rcases s with ⟨r, _ | ⟨f, fs⟩, sf⟩ <;> simp [attach, setFam]
@[simp] theorem attach_stack_len (s : St) (ts : List Node) : (attach s ts).stack.length = s.stack.length := by
  rcases s with ⟨r, _ | ⟨f, fs⟩, sf⟩ <;> simp [attach]

/-- closing a freshly completed node attaches it to its parent -/
theorem closeTo_push (s : St) (h : Hdr) (cs : List Node) :
    closeTo s.stack.length ⟨s.roots, ⟨h, cs⟩ :: s.stack, s.seenFam⟩ = attach s [.mk h.tag h.value h.ptr cs] := by
  rcases s with ⟨r, _ | ⟨f, fs⟩, sf⟩ <;> simp [closeTo, closeN, closeOne, attach, Frame.close]

/-- the deepest open node's value is already in trimmed form -/
def TopOK (s : St) : Prop := ∀ f fs, s.stack = f :: fs → trimSpace f.hdr.value = f.hdr.value

theorem trimTop_of_TopOK (s : St) (h : TopOK s) : trimTop s = s := by
  rcases s with ⟨r, _ | ⟨f, fs⟩, sf⟩
  · rfl
  · have := h f fs rfl
    simp [trimTop, this]

theorem TopOK_setFam (b : Bool) (s : St) (h : TopOK s) : TopOK (setFam b s) := h

theorem run_next (o : Opts) (s s' : St) (n : Nat) (l : Str) (ls : List Str)
    (h : step o s l = .next s') : run o s n (l :: ls) = run o s' (n + 1) ls := by
  simp [run, h]

end Gedcom.Dec
