/-
  "Nothing lost" for the merge model: the representation relation `covers`, the guard under which
  `Equals` is a matter of tag, value and pointer only and transitive, and the invariants of the
  loops (Gedcom/Lemmas/Merge.lean) that carry it.
-/
import Gedcom.Lemmas.Merge
namespace Gedcom

/-! ## representation -/

mutual
/-- `covers x m`: the input node `x` is represented by the result node `m` — `m.Equals(x)`, and
    every child of `x` is represented by a child of `m` ("an equal node under an equal parent",
    all the way down) -/
def covers : Node → Node → Bool
  | .mk t v p ks, m => equalsShallow m (.mk t v p ks) && coversKids ks m.kids
/-- every node of the first list is represented by a node of the second -/
def coversKids : List Node → List Node → Bool
  | [], _ => true
  | k :: ks, ms => ms.any (fun m => covers k m) && coversKids ks ms
end

theorem coversKids_iff (ks ms : List Node) :
    coversKids ks ms = true ↔ ∀ k ∈ ks, ∃ m ∈ ms, covers k m = true := by
  induction ks with
  | nil => simp [coversKids]
  | cons k ks ih => simp [coversKids, ih, List.any_eq_true]

theorem covers_iff (x m : Node) :
    covers x m = true ↔ equalsShallow m x = true ∧ ∀ k ∈ x.kids, ∃ k' ∈ m.kids, covers k k' = true := by
  cases x with
  | mk t v p ks => simp [covers, coversKids_iff, Node.kids]

/-! ## the guard: header-only, transitive equality -/

/-- the node's `Equals` looks at tag, value and pointer only (not RESI / EVEN), and a DATE value
    is one of `D` -/
def hdrOK (D : List Str) (n : Node) : Bool :=
  n.rule != .resi && n.rule != .even && (n.rule != .date || D.contains n.value)

mutual
/-- `hdrOK` for every node of the tree -/
def plainOK (D : List Str) : Node → Bool
  | .mk t v p ks => hdrOK D (.mk t v p []) && plainOKList D ks
def plainOKList (D : List Str) : List Node → Bool
  | [] => true
  | k :: ks => plainOK D k && plainOKList D ks
end

/-- `DateNode.Equals` is transitive on the values in `D` (weaker than C07's `dateEquiv`) -/
def dateTrans (D : List Str) : Bool :=
  D.all fun a => D.all fun b => D.all fun c =>
    !(dateValueEquals a b && dateValueEquals b c) || dateValueEquals a c

theorem dateTrans_of_dateEquiv {D : List Str} (h : dateEquiv D = true) : dateTrans D = true := by
  simp only [dateEquiv, dateTrans, List.all_eq_true, Bool.and_eq_true] at h ⊢
  intro a ha b hb c hc
  exact (h a ha b hb).2 c hc

theorem plainOKList_iff (D : List Str) (ks : List Node) :
    plainOKList D ks = true ↔ ∀ k ∈ ks, plainOK D k = true := by
  induction ks with
  | nil => simp [plainOKList]
  | cons k ks ih => simp [plainOKList, ih]

theorem plainOK_iff (D : List Str) (n : Node) :
    plainOK D n = true ↔ hdrOK D n = true ∧ ∀ k ∈ n.kids, plainOK D k = true := by
  cases n with
  | mk t v p ks =>
    simp only [plainOK, Bool.and_eq_true, plainOKList_iff, Node.kids]
    rfl

/-- same tag, value and pointer -/
def sameHdr (a b : Node) : Prop := a.tag = b.tag ∧ a.value = b.value ∧ a.ptr = b.ptr

theorem sameHdr.rule {a b : Node} (h : sameHdr a b) : a.rule = b.rule := rule_of_tag h.1

theorem hdrOK_congr {D : List Str} {a b : Node} (h : sameHdr a b) : hdrOK D a = hdrOK D b := by
  simp only [hdrOK, h.rule, h.2.1]

/-- for a node that is not RESI / EVEN, `Equals` depends on the two headers only -/
theorem equalsShallow_congr {a a' b b' : Node} (ha : sameHdr a a') (hb : sameHdr b b')
    (h1 : a.rule ≠ .resi) (h2 : a.rule ≠ .even) : equalsShallow a b = equalsShallow a' b' := by
  have hr := ha.rule
  have hrb := hb.rule
  have hkb : b.kind = b'.kind := by simp only [Node.kind, hb.1]
  have hka : a.kind = a'.kind := by simp only [Node.kind, ha.1]
  unfold equalsShallow
  rw [← hr]
  cases hra : a.rule with
  | simple => simp only [ha.1, ha.2.1, ha.2.2, hb.1, hb.2.1, hb.2.2]
  | vital => simp only [hka, hkb]
  | resi => exact absurd hra h1
  | even => exact absurd hra h2
  | date => simp only [hrb, ha.2.1, hb.2.1]
  | uid => simp only [hrb, ha.2.1, hb.2.1]

theorem equalsShallow_rule {a b : Node} (h : equalsShallow a b = true) : b.rule = a.rule := by
  rw [equalsShallow_eq] at h; exact equalsSpec_rule h

theorem equalsShallow_refl_hdr {D : List Str} {a : Node} (h : hdrOK D a = true) :
    equalsShallow a a = true := by
  simp only [hdrOK, Bool.and_eq_true, bne_iff_ne, ne_eq] at h
  unfold equalsShallow
  cases hr : a.rule with
  | simple => simp
  | vital => simp
  | resi => exact absurd hr h.1.1
  | even => exact absurd hr h.1.2
  | date => simp [dateValueEquals_refl]
  | uid => simp [uidEquals_refl]

theorem equalsShallow_trans_hdr {D : List Str} (hD : dateTrans D = true) {a b c : Node}
    (ha : hdrOK D a = true) (hb : hdrOK D b = true) (hc : hdrOK D c = true)
    (h1 : equalsShallow a b = true) (h2 : equalsShallow b c = true) : equalsShallow a c = true := by
  have hr1 := equalsShallow_rule h1
  have hr2 := equalsShallow_rule h2
  simp only [hdrOK, Bool.and_eq_true, bne_iff_ne, ne_eq, Bool.or_eq_true,
    List.contains_eq_mem, decide_eq_true_eq] at ha hb hc
  unfold equalsShallow at h1 h2 ⊢
  rw [hr1] at h2
  cases hr : a.rule with
  | simple =>
    rw [hr] at h1 h2
    simp only [Bool.and_eq_true, beq_iff_eq] at h1 h2 ⊢
    exact ⟨⟨h1.1.1.trans h2.1.1, h1.1.2.trans h2.1.2⟩, h1.2.trans h2.2⟩
  | vital =>
    rw [hr] at h1 h2
    simp only [beq_iff_eq] at h1 h2 ⊢
    exact h1.trans h2
  | resi => exact absurd hr ha.1.1
  | even => exact absurd hr ha.1.2
  | date =>
    rw [hr] at h1 h2
    simp only [Bool.and_eq_true, beq_iff_eq] at h1 h2 ⊢
    refine ⟨h2.1, ?_⟩
    have haD : a.value ∈ D := by rcases ha.2 with h | h; exact absurd hr h; exact h
    have hbD : b.value ∈ D := by rcases hb.2 with h | h; exact absurd (hr1.trans hr) h; exact h
    have hcD : c.value ∈ D := by
      rcases hc.2 with h | h; exact absurd (hr2.trans (hr1.trans hr)) h; exact h
    simp only [dateTrans, List.all_eq_true, Bool.or_eq_true, Bool.not_eq_true',
      Bool.and_eq_false_iff] at hD
    rcases hD _ haD _ hbD _ hcD with (h | h) | h
    · rw [h1.2] at h; cases h
    · rw [h2.2] at h; cases h
    · exact h
  | uid =>
    rw [hr] at h1 h2
    simp only [Bool.and_eq_true, beq_iff_eq] at h1 h2 ⊢
    exact ⟨h2.1, uidEquals_trans _ _ _ h1.2 h2.2⟩

/-! ## the wide guard: RESI / EVEN nodes that have a DATE child are admitted

  `ResidenceNode.Equals` / `EventNode.Equals` go by the DATE children when the receiver has one
  ("some pair of dates is Equal"), and by deep equality of the PLAC children / of all children
  only when neither side has a DATE child.  Merging keeps a representative of every DATE child,
  so a dated RESI / EVEN node stays Equal to everything it was Equal to (given transitivity of the
  date relation); a dateless one need not (`nothing_lost_counterexample_resi`). -/

/-- guard of one node: a DATE value is in `D`; a RESI / EVEN node has at least one DATE child -/
def nodeOK (D : List Str) (n : Node) : Bool :=
  (n.rule != .date || D.contains n.value) &&
  ((n.rule != .resi && n.rule != .even) || !n.dates.isEmpty)

mutual
/-- `nodeOK` for every node of the tree -/
def wideOK (D : List Str) : Node → Bool
  | .mk t v p ks => nodeOK D (.mk t v p ks) && wideOKList D ks
def wideOKList (D : List Str) : List Node → Bool
  | [] => true
  | k :: ks => wideOK D k && wideOKList D ks
end

theorem wideOKList_iff (D : List Str) (ks : List Node) :
    wideOKList D ks = true ↔ ∀ k ∈ ks, wideOK D k = true := by
  induction ks with
  | nil => simp [wideOKList]
  | cons k ks ih => simp [wideOKList, ih]

theorem wideOK_iff (D : List Str) (n : Node) :
    wideOK D n = true ↔ nodeOK D n = true ∧ ∀ k ∈ n.kids, wideOK D k = true := by
  cases n with
  | mk t v p ks => simp only [wideOK, Bool.and_eq_true, wideOKList_iff, Node.kids]

theorem nodeOK_of_hdrOK {D : List Str} {n : Node} (h : hdrOK D n = true) : nodeOK D n = true := by
  simp only [hdrOK, Bool.and_eq_true] at h
  simp only [nodeOK, Bool.and_eq_true]
  refine ⟨h.2, ?_⟩
  simp only [Bool.or_eq_true, Bool.and_eq_true]
  exact Or.inl ⟨h.1.1, h.1.2⟩

/-- the old guard implies the wide one -/
theorem plainOK_wide {D : List Str} (n : Node) (h : plainOK D n = true) : wideOK D n = true := by
  induction n using Node.induct with
  | h t v p ks ih =>
    rw [plainOK_iff] at h
    rw [wideOK_iff]
    exact ⟨nodeOK_of_hdrOK h.1, fun k hk => ih k hk (h.2 k hk)⟩

theorem hdrOK_of_nodeOK {D : List Str} {n : Node} (h : nodeOK D n = true) (h1 : n.rule ≠ .resi)
    (h2 : n.rule ≠ .even) : hdrOK D n = true := by
  simp only [nodeOK, Bool.and_eq_true] at h
  simp only [hdrOK, Bool.and_eq_true, bne_iff_ne, ne_eq]
  exact ⟨⟨h1, h2⟩, h.1⟩

theorem nodeOK_dated {D : List Str} {n : Node} (h : nodeOK D n = true)
    (hr : n.rule = .resi ∨ n.rule = .even) : n.dates ≠ [] := by
  simp only [nodeOK, Bool.and_eq_true, Bool.or_eq_true, bne_iff_ne, ne_eq, Bool.not_eq_true',
    List.isEmpty_eq_false_iff] at h
  rcases h.2 with h' | h'
  · rcases hr with hr | hr
    · exact absurd hr h'.1
    · exact absurd hr h'.2
  · exact h'

theorem nodeOK_value {D : List Str} {n : Node} (h : nodeOK D n = true) (hd : isDate n = true) :
    n.value ∈ D := by
  have hr := rule_of_isDate hd
  simp only [nodeOK, Bool.and_eq_true, Bool.or_eq_true, bne_iff_ne, ne_eq, hr, not_true_eq_false,
    false_or, List.contains_eq_mem, decide_eq_true_eq] at h
  exact h.1

/-- a node Equal to a DATE node is a DATE node with an Equal value -/
theorem date_of_equals {k d : Node} (h : equalsShallow k d = true) (hd : isDate d = true) :
    isDate k = true ∧ dateValueEquals k.value d.value = true := by
  have hr : k.rule = .date := by rw [← equalsShallow_rule h]; exact rule_of_isDate hd
  refine ⟨isDate_of_rule hr, ?_⟩
  unfold equalsShallow at h
  rw [hr] at h
  simp only [Bool.and_eq_true] at h
  exact h.2

/-- what Equals of a dated RESI / EVEN receiver means, and how it is established -/
theorem multi_dates {a b : Node} (hr : a.rule = .resi ∨ a.rule = .even) (hd : a.dates ≠ [])
    (h : equalsShallow a b = true) : b.rule = a.rule ∧ datesMatch a.dates b.dates = true := by
  refine ⟨equalsShallow_rule h, ?_⟩
  have hlen : a.dates.length ≠ 0 := fun h0 => hd (List.eq_nil_of_length_eq_zero h0)
  unfold equalsShallow at h
  rcases hr with hr | hr <;> rw [hr] at h <;>
    simp only [Bool.and_eq_true, Bool.or_eq_true, beq_iff_eq] at h
  · rcases h.2 with h' | h'
    · exact h'
    · exact absurd (by omega : a.dates.length = 0) hlen
  · rcases h.2 with h' | h'
    · exact h'
    · exact absurd h'.1.1.1 hlen

theorem multi_of_dates {a b : Node} (hr : a.rule = .resi ∨ a.rule = .even) (hb : b.rule = a.rule)
    (h : datesMatch a.dates b.dates = true) : equalsShallow a b = true := by
  unfold equalsShallow
  rcases hr with hr | hr <;> rw [hr] <;> rw [hr] at hb <;>
    simp only [Bool.and_eq_true, Bool.or_eq_true, beq_iff_eq]
  · exact ⟨hb, Or.inl h⟩
  · exact ⟨hb, Or.inl h⟩

/-- a DATE child of `e`, represented among the children of `m`, gives `m` a DATE child with an
    Equal value -/
theorem date_kid_cover {e m d : Node} (hd : d ∈ e.dates)
    (hk : ∀ k ∈ e.kids, ∃ k' ∈ m.kids, covers k k' = true) :
    ∃ d' ∈ m.dates, dateValueEquals d'.value d.value = true := by
  obtain ⟨hdk, hdd⟩ := mem_dates hd
  obtain ⟨k', hk', hc⟩ := hk d hdk
  have := date_of_equals ((covers_iff _ _).mp hc).1 hdd
  exact ⟨k', List.mem_filter.mpr ⟨hk', this.1⟩, this.2⟩

/-- REFLEXIVITY up to merging: a node with the header of `e` whose children represent the
    children of `e` is Equal to `e` -/
theorem refl_cover {D : List Str} {m e : Node} (hh : sameHdr m e) (he : nodeOK D e = true)
    (hk : ∀ k ∈ e.kids, ∃ k' ∈ m.kids, covers k k' = true) : equalsShallow m e = true := by
  by_cases hr : e.rule = .resi ∨ e.rule = .even
  · have hmr : m.rule = .resi ∨ m.rule = .even := by rw [hh.rule]; exact hr
    obtain ⟨d, ds, hds⟩ := List.exists_cons_of_ne_nil (nodeOK_dated he hr)
    have hd : d ∈ e.dates := by rw [hds]; simp
    obtain ⟨d', hd', hv⟩ := date_kid_cover hd hk
    exact multi_of_dates hmr hh.rule.symm ((datesMatch_iff _ _).mpr ⟨d', hd', d, hd, hv⟩)
  · have h1 : e.rule ≠ .resi := fun h => hr (Or.inl h)
    have h2 : e.rule ≠ .even := fun h => hr (Or.inr h)
    rw [equalsShallow_congr hh ⟨rfl, rfl, rfl⟩ (by rw [hh.rule]; exact h1) (by rw [hh.rule]; exact h2)]
    exact equalsShallow_refl_hdr (hdrOK_of_nodeOK he h1 h2)

/-- TRANSITIVITY up to merging: if `m` is Equal to `e`, its children represent the children of
    `e`, and `e` is Equal to `x`, then `m` is Equal to `x`.  (For RESI / EVEN this is not
    transitivity of Equals — which fails for nodes with several dates — but uses the
    representation of the DATE children.) -/
theorem trans_cover {D : List Str} (hD : dateTrans D = true) {m e x : Node}
    (hm : wideOK D m = true) (he : wideOK D e = true) (hx : wideOK D x = true)
    (h1 : equalsShallow m e = true) (h2 : equalsShallow e x = true)
    (hk : ∀ k ∈ e.kids, ∃ k' ∈ m.kids, covers k k' = true) : equalsShallow m x = true := by
  have hm' := (wideOK_iff D m).mp hm
  have he' := (wideOK_iff D e).mp he
  have hx' := (wideOK_iff D x).mp hx
  have hr1 := equalsShallow_rule h1
  have hr2 := equalsShallow_rule h2
  by_cases hr : e.rule = .resi ∨ e.rule = .even
  · have hmr : m.rule = .resi ∨ m.rule = .even := by rw [← hr1]; exact hr
    obtain ⟨_, hdm⟩ := multi_dates hr (nodeOK_dated he'.1 hr) h2
    obtain ⟨d, hd, dx, hdx, hv⟩ := (datesMatch_iff _ _).mp hdm
    obtain ⟨d', hd', hv'⟩ := date_kid_cover hd hk
    have hD1 : d'.value ∈ D := nodeOK_value ((wideOK_iff D _).mp (hm'.2 d' (mem_dates hd').1)).1 (mem_dates hd').2
    have hD2 : d.value ∈ D := nodeOK_value ((wideOK_iff D _).mp (he'.2 d (mem_dates hd).1)).1 (mem_dates hd).2
    have hD3 : dx.value ∈ D := nodeOK_value ((wideOK_iff D _).mp (hx'.2 dx (mem_dates hdx).1)).1 (mem_dates hdx).2
    have htr : dateValueEquals d'.value dx.value = true := by
      simp only [dateTrans, List.all_eq_true, Bool.or_eq_true, Bool.not_eq_true',
        Bool.and_eq_false_iff] at hD
      rcases hD _ hD1 _ hD2 _ hD3 with (h | h) | h
      · rw [hv'] at h; cases h
      · rw [hv] at h; cases h
      · exact h
    exact multi_of_dates hmr (hr2.trans hr1) ((datesMatch_iff _ _).mpr ⟨d', hd', dx, hdx, htr⟩)
  · have e1 : e.rule ≠ .resi := fun h => hr (Or.inl h)
    have e2 : e.rule ≠ .even := fun h => hr (Or.inr h)
    exact equalsShallow_trans_hdr hD
      (hdrOK_of_nodeOK hm'.1 (by rw [← hr1]; exact e1) (by rw [← hr1]; exact e2))
      (hdrOK_of_nodeOK he'.1 e1 e2)
      (hdrOK_of_nodeOK hx'.1 (by rw [hr2]; exact e1) (by rw [hr2]; exact e2)) h1 h2

/-- the guard of one node survives replacing its children by children that represent them -/
theorem nodeOK_cover {D : List Str} {m e : Node} (hh : sameHdr m e) (he : nodeOK D e = true)
    (hk : ∀ k ∈ e.kids, ∃ k' ∈ m.kids, covers k k' = true) : nodeOK D m = true := by
  by_cases hr : e.rule = .resi ∨ e.rule = .even
  · obtain ⟨d, ds, hds⟩ := List.exists_cons_of_ne_nil (nodeOK_dated he hr)
    obtain ⟨d', hd', _⟩ := date_kid_cover (e := e) (d := d) (by rw [hds]; simp) hk
    have hne : m.dates ≠ [] := List.ne_nil_of_mem hd'
    simp only [nodeOK, Bool.and_eq_true, Bool.or_eq_true, bne_iff_ne, ne_eq, Bool.not_eq_true',
      List.isEmpty_eq_false_iff] at he ⊢
    refine ⟨?_, Or.inr hne⟩
    rw [hh.rule, hh.2.1]; exact he.1
  · have h1 : e.rule ≠ .resi := fun h => hr (Or.inl h)
    have h2 : e.rule ≠ .even := fun h => hr (Or.inr h)
    apply nodeOK_of_hdrOK
    rw [hdrOK_congr hh]
    exact hdrOK_of_nodeOK he h1 h2

/-! ## laws of `covers` under the guard -/

theorem covers_refl {D : List Str} (x : Node) (h : wideOK D x = true) : covers x x = true := by
  induction x using Node.induct with
  | h t v p ks ih =>
    rw [wideOK_iff] at h
    have hk : ∀ k ∈ (Node.mk t v p ks).kids, ∃ k' ∈ (Node.mk t v p ks).kids, covers k k' = true :=
      fun k hk => ⟨k, hk, ih k hk (h.2 k hk)⟩
    rw [covers_iff]
    exact ⟨refl_cover ⟨rfl, rfl, rfl⟩ h.1 hk, hk⟩

theorem covers_trans {D : List Str} (hD : dateTrans D = true) (x : Node) :
    ∀ e m : Node, wideOK D x = true → wideOK D e = true → wideOK D m = true →
      covers x e = true → covers e m = true → covers x m = true := by
  induction x using Node.induct with
  | h t v p ks ih =>
    intro e m hx he hm h1 h2
    have hx' := (wideOK_iff D _).mp hx
    have he' := (wideOK_iff D _).mp he
    have hm' := (wideOK_iff D _).mp hm
    rw [covers_iff] at h1 h2 ⊢
    refine ⟨trans_cover hD hm he hx h2.1 h1.1 h2.2, ?_⟩
    intro k hk
    obtain ⟨k', hk', hc1⟩ := h1.2 k hk
    obtain ⟨k'', hk'', hc2⟩ := h2.2 k' hk'
    exact ⟨k'', hk'', ih k hk k' k'' (hx'.2 k hk) (he'.2 k' hk') (hm'.2 k'' hk'') hc1 hc2⟩

/-! ## MergeNodeSlices loses nothing -/

/-- contract of a merge function: the merged node represents both arguments -/
def CovFn (D : List Str) (f : MergeFn) : Prop :=
  ∀ a b s m s', f a b s = (some m, s') → wideOK D a.erase = true → wideOK D b.erase = true →
    wideOK D m.erase = true ∧ covers a.erase m.erase = true ∧ covers b.erase m.erase = true

theorem copyLeft_erase (fl : MergeFlags) (l : List (Nat × INode)) (st : MSt) :
    (copyLeft fl l st).1.map (·.node.erase) = l.map (·.2.erase) := by
  induction l generalizing st with
  | nil => rfl
  | cons x xs ih => obtain ⟨i, n⟩ := x; simp [copyLeft, ih, copyIf_erase]

theorem mergeLoop_covers {D : List Str} (hD : dateTrans D = true) (fl : MergeFlags) (f : MergeFn)
    (hf : CovFn D f) (X : List Node) (slice : List Elem) (right : List (Nat × INode)) (st : MSt)
    (hs : ∀ e ∈ slice, wideOK D e.node.erase = true)
    (hr : ∀ y ∈ right, wideOK D y.2.erase = true)
    (hX : ∀ x ∈ X, wideOK D x = true ∧
      ((∃ e ∈ slice, covers x e.node.erase = true) ∨ (∃ y ∈ right, covers x y.2.erase = true))) :
    (∀ e ∈ (mergeLoop fl f slice right [] st).1, wideOK D e.node.erase = true) ∧
    ∀ x ∈ X, ∃ e ∈ (mergeLoop fl f slice right [] st).1, covers x e.node.erase = true := by
  let Inv : List Elem → List (Nat × INode) → List Nat → MSt → Prop := fun sl rt _ _ =>
    (∀ e ∈ sl, wideOK D e.node.erase = true) ∧ (∀ y ∈ rt, wideOK D y.2.erase = true) ∧
    ∀ x ∈ X, (∃ e ∈ sl, covers x e.node.erase = true) ∨ (∃ y ∈ rt, covers x y.2.erase = true)
  have h := mergeLoop_inv fl f Inv
    (by intro sl rt mg e j r s s' _ _ _ h; exact h)
    (by
      intro pre e post rpre j r rpost mg s m s' _ hfe h
      obtain ⟨h1, h2, h3⟩ := h
      have hem := hf e.node r s m s' hfe (h1 e (by simp)) (h2 (j, r) (by simp))
      refine ⟨?_, ?_, ?_⟩
      · intro e' he'
        simp only [List.mem_append, List.mem_cons, List.not_mem_nil, or_false] at he'
        rcases he' with (he' | he') | rfl
        · exact h1 e' (by simp [he'])
        · exact h1 e' (by simp [he'])
        · exact hem.1
      · intro y hy
        exact h2 y (by
          simp only [List.mem_append, List.mem_cons] at hy ⊢
          rcases hy with hy | hy
          · exact Or.inl hy
          · exact Or.inr (Or.inr hy))
      · intro x hx
        have hxok := (hX x hx).1
        rcases h3 x hx with ⟨e', he', hc⟩ | ⟨y, hy, hc⟩
        · simp only [List.mem_append, List.mem_cons] at he'
          rcases he' with he' | rfl | he'
          · exact Or.inl ⟨e', by simp [he'], hc⟩
          · exact Or.inl ⟨⟨e'.prov ++ [.R j], m⟩, by simp,
              covers_trans hD x _ _ hxok (h1 e' (by simp)) hem.1 hc hem.2.1⟩
          · exact Or.inl ⟨e', by simp [he'], hc⟩
        · simp only [List.mem_append, List.mem_cons] at hy
          rcases hy with hy | rfl | hy
          · exact Or.inr ⟨y, by simp [hy], hc⟩
          · exact Or.inl ⟨⟨e.prov ++ [.R j], m⟩, by simp,
              covers_trans hD x _ _ hxok (h2 (j, r) (by simp)) hem.1 hc hem.2.2⟩
          · exact Or.inr ⟨y, by simp [hy], hc⟩)
    (by
      intro sl j0 r0 rtail mg s h
      obtain ⟨h1, h2, h3⟩ := h
      refine ⟨?_, fun y hy => h2 y (by simp [hy]), ?_⟩
      · intro e' he'
        simp only [List.mem_append, List.mem_cons, List.not_mem_nil, or_false] at he'
        rcases he' with he' | rfl
        · exact h1 e' he'
        · simpa [copyIf_erase] using h2 (j0, r0) (by simp)
      · intro x hx
        rcases h3 x hx with ⟨e', he', hc⟩ | ⟨y, hy, hc⟩
        · exact Or.inl ⟨e', by simp [he'], hc⟩
        · rcases List.mem_cons.mp hy with rfl | hy
          · exact Or.inl ⟨⟨[.R j0], (copyIf fl.sliceCopyRight r0 s).1⟩, by simp,
              by simpa [copyIf_erase] using hc⟩
          · exact Or.inr ⟨y, hy, hc⟩)
    right.length slice right [] st (Nat.le_refl _) ⟨hs, hr, fun x hx => (hX x hx).2⟩
  obtain ⟨_, h1, _, h3⟩ := h
  refine ⟨h1, fun x hx => ?_⟩
  rcases h3 x hx with h | ⟨y, hy, _⟩
  · exact h
  · cases hy

/-- PARTIAL (guard).  Every node of either list is represented by a node of the merged list, and
    the merged list stays within the guard. -/
theorem mergeNodeSlices_covers {D : List Str} (hD : dateTrans D = true) (fl : MergeFlags)
    (f : MergeFn) (hf : CovFn D f) (l r : List INode) (st : MSt)
    (hl : ∀ x ∈ l, wideOK D x.erase = true) (hr : ∀ x ∈ r, wideOK D x.erase = true) :
    (∀ n ∈ (mergeNodeSlices fl f l r st).1, wideOK D n.erase = true) ∧
    ∀ x ∈ l ++ r, ∃ n ∈ (mergeNodeSlices fl f l r st).1, covers x.erase n.erase = true := by
  have hce := copyLeft_erase fl (indexed l) st
  have hmem : ∀ x ∈ l, ∃ e ∈ (copyLeft fl (indexed l) st).1, e.node.erase = x.erase := by
    intro x hx
    have : x.erase ∈ (copyLeft fl (indexed l) st).1.map (·.node.erase) := by
      rw [hce]
      have : x ∈ (indexed l).map (·.2) := by rw [indexed_map_snd]; exact hx
      obtain ⟨y, hy, rfl⟩ := List.mem_map.mp this
      exact List.mem_map.mpr ⟨y, hy, rfl⟩
    obtain ⟨e, he, h⟩ := List.mem_map.mp this
    exact ⟨e, he, h⟩
  have hmem' : ∀ e ∈ (copyLeft fl (indexed l) st).1, ∃ x ∈ l, e.node.erase = x.erase := by
    intro e he
    have : e.node.erase ∈ (indexed l).map (·.2.erase) := by
      rw [← hce]; exact List.mem_map.mpr ⟨e, he, rfl⟩
    obtain ⟨y, hy, h⟩ := List.mem_map.mp this
    refine ⟨y.2, ?_, h.symm⟩
    have : y.2 ∈ (indexed l).map (·.2) := List.mem_map.mpr ⟨y, hy, rfl⟩
    rwa [indexed_map_snd] at this
  have hrm : ∀ y ∈ indexed r, y.2 ∈ r := fun y hy => by
    have : y.2 ∈ (indexed r).map (·.2) := List.mem_map.mpr ⟨y, hy, rfl⟩
    rwa [indexed_map_snd] at this
  have h := mergeLoop_covers hD fl f hf ((l ++ r).map INode.erase) (copyLeft fl (indexed l) st).1
    (indexed r) (copyLeft fl (indexed l) st).2
    (by
      intro e he
      obtain ⟨x, hx, h⟩ := hmem' e he
      rw [h]; exact hl x hx)
    (fun y hy => hr _ (hrm y hy))
    (by
      intro x hx
      obtain ⟨n, hn, rfl⟩ := List.mem_map.mp hx
      rcases List.mem_append.mp hn with hn | hn
      · obtain ⟨e, he, h⟩ := hmem n hn
        exact ⟨hl n hn, Or.inl ⟨e, he, by rw [h]; exact covers_refl _ (hl n hn)⟩⟩
      · have : n ∈ (indexed r).map (·.2) := by rw [indexed_map_snd]; exact hn
        obtain ⟨y, hy, rfl⟩ := List.mem_map.mp this
        exact ⟨hr _ hn, Or.inr ⟨y, hy, covers_refl _ (hr _ hn)⟩⟩)
  constructor
  · intro n hn
    obtain ⟨e, he, rfl⟩ := List.mem_map.mp hn
    exact h.1 e he
  · intro x hx
    obtain ⟨e, he, hc⟩ := h.2 x.erase (List.mem_map.mpr ⟨x, hx, rfl⟩)
    exact ⟨e.node, List.mem_map.mpr ⟨e, he, rfl⟩, hc⟩

/-! ## MergeNodes loses nothing -/

theorem INode.erase_eq (n : INode) : n.erase = .mk n.tag n.value n.ptr (n.kids.map INode.erase) := by
  obtain ⟨i, t, v, p, ks⟩ := n
  simp [INode.erase, eraseList_eq_map, INode.tag, INode.value, INode.ptr, INode.kids]

theorem INode.erase_kids (n : INode) : n.erase.kids = n.kids.map INode.erase := by
  rw [INode.erase_eq]; rfl

theorem INode.setKids_erase (n : INode) (ks : List INode) :
    (n.setKids ks).erase = .mk n.tag n.value n.ptr (ks.map INode.erase) := by
  simp [INode.setKids, INode.erase, eraseList_eq_map]

theorem sameHdr_setKids (n : INode) (ks : List INode) : sameHdr (n.setKids ks).erase n.erase := by
  rw [INode.setKids_erase, INode.erase_eq]; exact ⟨rfl, rfl, rfl⟩

theorem copyChildM_erase (t : Str) (n : INode) (s : MSt) : (copyChildM t n s).1.erase = n.erase := by
  simp [copyChildM, copyTree_erase]

theorem hdrOK_rule {D : List Str} {n : Node} (h : hdrOK D n = true) :
    n.rule ≠ .resi ∧ n.rule ≠ .even := by
  simp only [hdrOK, Bool.and_eq_true, bne_iff_ne, ne_eq] at h
  exact ⟨h.1.1, h.1.2⟩

/-- a node of the result whose children were replaced by a list that represents its old children
    and the children of `x`, and which was Equal to `x`, represents `x` -/
theorem covers_setKids {D : List Str} (hD : dateTrans D = true) {n : INode} {ks : List INode}
    {x : Node} (hn : wideOK D n.erase = true) (hn' : wideOK D (n.setKids ks).erase = true)
    (hx : wideOK D x = true) (he : equalsShallow n.erase x = true)
    (hkn : ∀ k ∈ n.erase.kids, ∃ k' ∈ ks, covers k k'.erase = true)
    (hk : ∀ k ∈ x.kids, ∃ k' ∈ ks, covers k k'.erase = true) :
    covers x (n.setKids ks).erase = true := by
  have lift : ∀ {y : Node}, (∀ k ∈ y.kids, ∃ k' ∈ ks, covers k k'.erase = true) →
      ∀ k ∈ y.kids, ∃ k' ∈ (n.setKids ks).erase.kids, covers k k' = true := by
    intro y hy k hk'
    obtain ⟨k', hk'', hc⟩ := hy k hk'
    refine ⟨k'.erase, ?_, hc⟩
    rw [INode.setKids_erase]
    exact List.mem_map.mpr ⟨k', hk'', rfl⟩
  rw [covers_iff]
  refine ⟨?_, lift hk⟩
  have hrefl := refl_cover (sameHdr_setKids n ks) ((wideOK_iff D _).mp hn).1 (lift hkn)
  exact trans_cover hD hn' hn hx hrefl he (lift hkn)

/-- the guard survives `n.SetNodes(ks)` when `ks` is within the guard and represents the old
    children -/
theorem wideOK_setKids {D : List Str} {n : INode} {ks : List INode} (hn : wideOK D n.erase = true)
    (hks : ∀ k ∈ ks, wideOK D k.erase = true)
    (hkn : ∀ k ∈ n.erase.kids, ∃ k' ∈ ks, covers k k'.erase = true) :
    wideOK D (n.setKids ks).erase = true := by
  rw [wideOK_iff]
  refine ⟨nodeOK_cover (sameHdr_setKids n ks) ((wideOK_iff D _).mp hn).1 ?_, ?_⟩
  · intro k hk
    obtain ⟨k', hk', hc⟩ := hkn k hk
    refine ⟨k'.erase, ?_, hc⟩
    rw [INode.setKids_erase]
    exact List.mem_map.mpr ⟨k', hk', rfl⟩
  · intro k hk
    rw [INode.setKids_erase] at hk
    obtain ⟨k', hk', rfl⟩ := List.mem_map.mp hk
    exact hks k' hk'

theorem foldRight_covers {D : List Str} (hD : dateTrans D = true) (fl : MergeFlags) (eqf : MergeFn)
    (hf : CovFn D eqf) (root : Nat) (rootTag : Str) (Lk : List Node) (kids cur : List INode)
    (st : MSt) (hLk : ∀ x ∈ Lk, wideOK D x = true ∧ ∃ n ∈ cur, covers x n.erase = true)
    (hcur : ∀ n ∈ cur, wideOK D n.erase = true) (hkids : ∀ c ∈ kids, wideOK D c.erase = true) :
    (∀ n ∈ (foldRight fl eqf root rootTag cur kids st).1, wideOK D n.erase = true) ∧
    ∀ x ∈ Lk ++ kids.map INode.erase,
      ∃ n ∈ (foldRight fl eqf root rootTag cur kids st).1, covers x n.erase = true := by
  let Inv : List INode → List INode → MSt → Prop := fun c rest _ =>
    (∀ n ∈ c, wideOK D n.erase = true) ∧ (∀ x ∈ rest, wideOK D x.erase = true) ∧
    ∃ done, kids = done ++ rest ∧ ∀ x ∈ Lk ++ done.map INode.erase, ∃ n ∈ c, covers x n.erase = true
  have hall : ∀ x ∈ Lk ++ kids.map INode.erase, wideOK D x = true := by
    intro x hx
    rcases List.mem_append.mp hx with hx | hx
    · exact (hLk x hx).1
    · obtain ⟨c, hc, rfl⟩ := List.mem_map.mp hx; exact hkids c hc
  have h := foldRight_inv fl eqf root rootTag Inv
    (by
      intro pre n post child rest s _ hE h
      obtain ⟨h1, h2, done, hd, h3⟩ := h
      have hnok := h1 n (by simp)
      have hcok := h2 child (by simp)
      have hnk : ∀ k ∈ n.kids, wideOK D k.erase = true := fun k hk =>
        ((wideOK_iff D _).mp hnok).2 _ (by rw [INode.erase_kids]; exact List.mem_map.mpr ⟨k, hk, rfl⟩)
      have hck : ∀ k ∈ child.kids, wideOK D k.erase = true := fun k hk =>
        ((wideOK_iff D _).mp hcok).2 _ (by rw [INode.erase_kids]; exact List.mem_map.mpr ⟨k, hk, rfl⟩)
      have hm := mergeNodeSlices_covers hD fl eqf hf child.kids n.kids s hck hnk
      have hkn : ∀ k ∈ n.erase.kids, ∃ k' ∈ (mergeNodeSlices fl eqf child.kids n.kids s).1,
          covers k k'.erase = true := by
        intro k hk
        rw [INode.erase_kids] at hk
        obtain ⟨k0, hk0, rfl⟩ := List.mem_map.mp hk
        exact hm.2 k0 (by simp [hk0])
      have hkc : ∀ k ∈ child.erase.kids, ∃ k' ∈ (mergeNodeSlices fl eqf child.kids n.kids s).1,
          covers k k'.erase = true := by
        intro k hk
        rw [INode.erase_kids] at hk
        obtain ⟨k0, hk0, rfl⟩ := List.mem_map.mp hk
        exact hm.2 k0 (by simp [hk0])
      have hn'ok : wideOK D (n.setKids (mergeNodeSlices fl eqf child.kids n.kids s).1).erase = true :=
        wideOK_setKids hnok hm.1 hkn
      have hcov_c : covers child.erase (n.setKids (mergeNodeSlices fl eqf child.kids n.kids s).1).erase = true :=
        covers_setKids hD hnok hn'ok hcok hE hkn hkc
      have hcov_n : covers n.erase (n.setKids (mergeNodeSlices fl eqf child.kids n.kids s).1).erase = true :=
        covers_setKids hD hnok hn'ok hnok
          (refl_cover ⟨rfl, rfl, rfl⟩ ((wideOK_iff D _).mp hnok).1
            (fun k hk => ⟨k, hk, covers_refl k (((wideOK_iff D _).mp hnok).2 k hk)⟩)) hkn hkn
      refine ⟨?_, fun x hx => h2 x (by simp [hx]), done ++ [child], by simp [hd], ?_⟩
      · intro n' hn'
        simp only [List.mem_append, List.mem_cons] at hn'
        rcases hn' with hn' | rfl | hn'
        · exact h1 n' (by simp [hn'])
        · exact hn'ok
        · exact h1 n' (by simp [hn'])
      · intro x hx
        simp only [List.map_append, List.map_cons, List.map_nil, List.mem_append, List.mem_cons,
          List.not_mem_nil, or_false] at hx
        have hold : (∃ y ∈ pre ++ n :: post, covers x y.erase = true) →
            ∃ y ∈ pre ++ n.setKids (mergeNodeSlices fl eqf child.kids n.kids s).1 :: post,
              covers x y.erase = true := by
          rintro ⟨y, hy, hc⟩
          have hxok : wideOK D x = true := by
            rcases hx with hx | hx | rfl
            · exact (hLk x hx).1
            · obtain ⟨c, hc', rfl⟩ := List.mem_map.mp hx
              exact hkids c (by rw [hd]; simp [hc'])
            · exact hcok
          simp only [List.mem_append, List.mem_cons] at hy
          rcases hy with hy | rfl | hy
          · exact ⟨y, by simp [hy], hc⟩
          · exact ⟨_, by simp, covers_trans hD x _ _ hxok hnok hn'ok hc hcov_n⟩
          · exact ⟨y, by simp [hy], hc⟩
        rcases hx with hx | hx | rfl
        · exact hold (h3 x (by simp [hx]))
        · exact hold (h3 x (by simp [hx]))
        · exact ⟨_, by simp, hcov_c⟩)
    (by
      intro c child rest s _ h
      obtain ⟨h1, h2, done, hd, h3⟩ := h
      have he : (if fl.nodesCopyRight then copyChildM rootTag child s else (child, s)).1.erase = child.erase := by
        split
        · exact copyChildM_erase _ _ _
        · rfl
      refine ⟨?_, fun x hx => h2 x (by simp [hx]), done ++ [child], by simp [hd], ?_⟩
      · intro n' hn'
        simp only [List.mem_append, List.mem_cons, List.not_mem_nil, or_false] at hn'
        rcases hn' with hn' | rfl
        · exact h1 n' hn'
        · rw [he]; exact h2 child (by simp)
      · intro x hx
        simp only [List.map_append, List.map_cons, List.map_nil, List.mem_append, List.mem_cons,
          List.not_mem_nil, or_false] at hx
        rcases hx with hx | hx | rfl
        · obtain ⟨y, hy, hc⟩ := h3 x (by simp [hx]); exact ⟨y, by simp [hy], hc⟩
        · obtain ⟨y, hy, hc⟩ := h3 x (by simp [hx]); exact ⟨y, by simp [hy], hc⟩
        · exact ⟨(if fl.nodesCopyRight then copyChildM rootTag child s else (child, s)).1, by simp,
            by rw [he]; exact covers_refl _ (h2 child (by simp))⟩)
    kids cur st ⟨hcur, hkids, [], rfl, by simpa using fun x hx => (hLk x hx).2⟩
  obtain ⟨h1, _, done, hd, h3⟩ := h
  simp only [List.append_nil] at hd
  subst hd
  exact ⟨h1, h3⟩

theorem copyM_erase (n : INode) (s : MSt) : (copyM n s).1.erase = n.erase := by
  simp [copyM, copyTree_erase]

/-- what MergeNodes returns, value-wise: the left header over children that represent the
    children of both inputs -/
def MergesTo (D : List Str) (l r m : Node) : Prop :=
  wideOK D m = true ∧ sameHdr m l ∧ ∀ k ∈ l.kids ++ r.kids, ∃ k' ∈ m.kids, covers k k' = true

/-- the merged node represents the left input … -/
theorem MergesTo.left {D : List Str} {l r m : Node} (h : MergesTo D l r m)
    (hl : wideOK D l = true) : covers l m = true := by
  rw [covers_iff]
  exact ⟨refl_cover h.2.1 ((wideOK_iff D _).mp hl).1 (fun k hk => h.2.2 k (by simp [hk])),
    fun k hk => h.2.2 k (by simp [hk])⟩

/-- … and the right input when the two roots are Equal -/
theorem MergesTo.right {D : List Str} (hD : dateTrans D = true) {l r m : Node}
    (h : MergesTo D l r m) (hl : wideOK D l = true) (hr : wideOK D r = true)
    (hE : equalsShallow l r = true) : covers r m = true := by
  rw [covers_iff]
  refine ⟨?_, fun k hk => h.2.2 k (by simp [hk])⟩
  exact trans_cover hD h.1 hl hr
    (refl_cover h.2.1 ((wideOK_iff D _).mp hl).1 (fun k hk => h.2.2 k (by simp [hk]))) hE
    (fun k hk => h.2.2 k (by simp [hk]))

theorem eqMergeWith_cov {D : List Str} (hD : dateTrans D = true)
    (mn : INode → INode → MSt → MergeOutcome)
    (h : ∀ l r st m st', mn l r st = .ok m st' → wideOK D l.erase = true →
      wideOK D r.erase = true → MergesTo D l.erase r.erase m.erase) :
    CovFn D (eqMergeWith mn) := by
  intro a b s m s' hf ha hb
  unfold eqMergeWith at hf
  split at hf
  · rename_i hE
    split at hf
    · rename_i m0 s0 hmn
      injection hf with h1 h2
      injection h1 with h1
      subst h1
      have hmt := h a b s m0 s0 hmn ha hb
      exact ⟨hmt.1, hmt.left ha, hmt.right hD ha hb hE⟩
    · cases hf
    · cases hf
    · cases hf
  · cases hf

theorem mergeNodesF_covers {D : List Str} (hD : dateTrans D = true) (fl : MergeFlags) (fuel : Nat) :
    ∀ (l r : INode) (st : MSt) (m : INode) (st' : MSt), mergeNodesF fl fuel l r st = .ok m st' →
      wideOK D l.erase = true → wideOK D r.erase = true → MergesTo D l.erase r.erase m.erase := by
  induction fuel with
  | zero => intro l r st m st' h; simp [mergeNodesF] at h
  | succ fuel ih =>
    intro l r st m st' h hl hr
    simp only [mergeNodesF] at h
    split at h
    · cases h
    · injection h with h1 h2
      have hce := copyM_erase l st
      have hroot := copyTree_root st.next l
      have hlk := (wideOK_iff D _).mp hl
      have hrk := (wideOK_iff D _).mp hr
      have hck : (copyM l st).1.kids.map INode.erase = l.kids.map INode.erase := by
        rw [← INode.erase_kids, ← INode.erase_kids, hce]
      have hf := foldRight_covers hD fl _ (eqMergeWith_cov hD _ ih) (copyM l st).1.id l.tag
        (l.kids.map INode.erase) r.kids (copyM l st).1.kids (copyM l st).2
        (by
          intro x hx
          refine ⟨hlk.2 x (by rw [INode.erase_kids]; exact hx), ?_⟩
          rw [← hck] at hx
          obtain ⟨n, hn, rfl⟩ := List.mem_map.mp hx
          exact ⟨n, hn, covers_refl _ (hlk.2 _ (by
            rw [INode.erase_kids, ← hck]; exact List.mem_map.mpr ⟨n, hn, rfl⟩))⟩)
        (by
          intro n hn
          exact hlk.2 _ (by rw [INode.erase_kids, ← hck]; exact List.mem_map.mpr ⟨n, hn, rfl⟩))
        (by
          intro c hc
          exact hrk.2 _ (by rw [INode.erase_kids]; exact List.mem_map.mpr ⟨c, hc, rfl⟩))
      subst h1
      have hmh : sameHdr (INode.mk (copyM l st).1.id (copyM l st).1.tag (copyM l st).1.value
          (copyM l st).1.ptr (foldRight fl (eqMergeWith (mergeNodesF fl fuel)) (copyM l st).1.id l.tag
            (copyM l st).1.kids r.kids (copyM l st).2).1).erase l.erase := by
        rw [INode.erase_eq l]
        simp only [INode.erase]
        exact ⟨hroot.2.1, hroot.2.2.1, hroot.2.2.2⟩
      have hkc : ∀ k ∈ l.erase.kids ++ r.erase.kids, ∃ k' ∈ (INode.mk (copyM l st).1.id
          (copyM l st).1.tag (copyM l st).1.value (copyM l st).1.ptr
          (foldRight fl (eqMergeWith (mergeNodesF fl fuel)) (copyM l st).1.id l.tag
            (copyM l st).1.kids r.kids (copyM l st).2).1).erase.kids, covers k k' = true := by
        intro k hk
        rw [INode.erase_kids, INode.erase_kids] at hk
        obtain ⟨n, hn, hc⟩ := hf.2 k hk
        refine ⟨n.erase, ?_, hc⟩
        simp only [INode.erase, Node.kids, eraseList_eq_map]
        exact List.mem_map.mpr ⟨n, hn, rfl⟩
      refine ⟨?_, hmh, hkc⟩
      rw [wideOK_iff]
      refine ⟨nodeOK_cover hmh hlk.1 (fun k hk => hkc k (by simp [hk])), ?_⟩
      intro k hk
      simp only [INode.erase, Node.kids, eraseList_eq_map] at hk
      obtain ⟨n, hn, rfl⟩ := List.mem_map.mp hk
      exact hf.1 n hn

theorem eqMergeF_cov {D : List Str} (hD : dateTrans D = true) (fl : MergeFlags) (fuel : Nat) :
    CovFn D (eqMergeF fl fuel) :=
  eqMergeWith_cov hD _ (mergeNodesF_covers hD fl fuel)

theorem neverMerge_cov (D : List Str) : CovFn D neverMerge := by
  intro a b s m s' h; simp [neverMerge] at h

end Gedcom
