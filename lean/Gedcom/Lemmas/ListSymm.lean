/-
  Operand-order independence of `listSimilarity` (C12) when no two cells of the score matrix tie:
  the transposed matrix is a permutation of the swapped cells, a tie-free stable sort does not
  depend on the input order, and the winner loop treats a cell and its swap alike.
-/
import Gedcom.Lemmas.JaroSymm
namespace Gedcom.Sim
open Gedcom

def Cell.swap (c : Cell) : Cell := ⟨c.b, c.a, c.sim⟩

theorem comparedNames_swap (a b : Str) :
    comparedNames b a = ((comparedNames a b).2, (comparedNames a b).1) := by
  unfold comparedNames
  by_cases h : cleanName a = [] ∧ cleanName b = []
  · simp [h]
  · have h' : ¬ (cleanName b = [] ∧ cleanName a = []) := fun hh => h ⟨hh.2, hh.1⟩
    simp [h, h']

theorem stringSimilarity_comm (a b : Str) (boost : Rat) (p : Nat) :
    stringSimilarity a b boost p = stringSimilarity b a boost p := by
  unfold stringSimilarity
  rw [comparedNames_swap a b]
  exact jaroWinkler_comm_of_jaro _ _ _ _ (jaro_symm' _ _)

theorem indiSimilarity_symm (x y : Indi) (o : SimOpts) : indiSimilarity x y o = indiSimilarity y x o :=
  indiSimilarity_comm x y o (fun _ _ _ _ => stringSimilarity_comm _ _ _ _)

/-! ### the transposed matrix -/

theorem flatMap_cons_perm {α β : Type} (g : α → β) (h : α → List β) (l : List α) :
    (l.flatMap fun b => g b :: h b).Perm (l.map g ++ l.flatMap h) := by
  induction l with
  | nil => exact List.Perm.refl _
  | cons b bs ih =>
    simp only [List.flatMap_cons, List.map_cons, List.cons_append]
    refine List.Perm.cons _ ?_
    refine (List.Perm.append_left (h b) ih).trans ?_
    -- h b ++ (map g bs ++ flatMap h bs) ~ map g bs ++ (h b ++ flatMap h bs)
    rw [← List.append_assoc, ← List.append_assoc]
    exact List.Perm.append_right _ List.perm_append_comm

theorem matrix_swap_perm (xs ys : List Indi) (o : SimOpts) :
    (matrix ys xs o).Perm ((matrix xs ys o).map Cell.swap) := by
  induction xs with
  | nil =>
    simp only [matrix, List.flatMap_nil, List.map_nil]
    induction ys with
    | nil => exact List.Perm.refl _
    | cons b bs ih => simp [List.flatMap_cons]
  | cons a as ih =>
    have h1 : matrix ys (a :: as) o =
        ys.flatMap fun b => (⟨b, a, indiSimilarity b a o⟩ : Cell) :: (as.map fun a' => ⟨b, a', indiSimilarity b a' o⟩) := by
      simp [matrix]
    have h2 : (matrix (a :: as) ys o).map Cell.swap =
        (ys.map fun b => (⟨b, a, indiSimilarity b a o⟩ : Cell)) ++ (matrix as ys o).map Cell.swap := by
      simp only [matrix, List.flatMap_cons, List.map_append, List.map_map]
      congr 1
      apply List.map_congr_left
      intro b _
      simp [Cell.swap, indiSimilarity_symm a b o]
    rw [h1, h2]
    refine (flatMap_cons_perm _ _ ys).trans (List.Perm.append_left _ ?_)
    exact ih

/-! ### the stable sort on cells -/

theorem cInsertDesc_perm (c : Cell) (l : List Cell) : (insertDesc c l).Perm (c :: l) := by
  induction l with
  | nil => exact List.Perm.refl _
  | cons d ds ih =>
    simp only [insertDesc]
    split
    · exact (List.Perm.cons d ih).trans (List.Perm.swap c d ds)
    · exact List.Perm.refl _

theorem cSortDesc_perm (l : List Cell) : (sortDesc l).Perm l := by
  induction l with
  | nil => exact List.Perm.refl _
  | cons c cs ih => exact (cInsertDesc_perm c (sortDesc cs)).trans (List.Perm.cons c ih)

def CDesc (a b : Cell) : Prop := b.sim ≤ a.sim

theorem cInsertDesc_sorted (c : Cell) (l : List Cell) (h : l.Pairwise CDesc) :
    (insertDesc c l).Pairwise CDesc := by
  induction l with
  | nil => simp [insertDesc]
  | cons d ds ih =>
    simp only [insertDesc]
    split
    · rename_i hlt
      rw [List.pairwise_cons] at h ⊢
      refine ⟨?_, ih h.2⟩
      intro x hx
      have hx' := (cInsertDesc_perm c ds).mem_iff.mp hx
      rw [List.mem_cons] at hx'
      rcases hx' with e | hx'
      · rw [e]; exact Rat.le_of_lt hlt
      · exact h.1 x hx'
    · rename_i hlt
      have hcd : d.sim ≤ c.sim := Rat.not_lt.mp hlt
      rw [List.pairwise_cons]
      refine ⟨?_, h⟩
      intro x hx
      rw [List.mem_cons] at hx
      rcases hx with e | hx
      · rw [e]; exact hcd
      · exact Rat.le_trans ((List.pairwise_cons.mp h).1 x hx) hcd

theorem cSortDesc_sorted (l : List Cell) : (sortDesc l).Pairwise CDesc := by
  induction l with
  | nil => simp [sortDesc]
  | cons c cs ih => exact cInsertDesc_sorted c _ ih

theorem cell_eq_of_sim_eq {l : List Cell} (h : (l.map (·.sim)).Nodup) {a b : Cell}
    (ha : a ∈ l) (hb : b ∈ l) (e : a.sim = b.sim) : a = b := by
  induction l with
  | nil => cases ha
  | cons c cs ih =>
    simp only [List.map_cons, List.nodup_cons] at h
    rcases List.mem_cons.mp ha with rfl | ha' <;> rcases List.mem_cons.mp hb with rfl | hb'
    · rfl
    · exact absurd (List.mem_map.mpr ⟨b, hb', e.symm⟩) h.1
    · exact absurd (List.mem_map.mpr ⟨a, ha', e⟩) h.1
    · exact ih h.2 ha' hb'

theorem cSortDesc_eq_of_perm {l₁ l₂ : List Cell} (hp : l₁.Perm l₂) (hn : (l₁.map (·.sim)).Nodup) :
    sortDesc l₁ = sortDesc l₂ := by
  apply List.Perm.eq_of_pairwise (le := CDesc) _ (cSortDesc_sorted l₁) (cSortDesc_sorted l₂)
    ((cSortDesc_perm l₁).trans (hp.trans (cSortDesc_perm l₂).symm))
  intro a b ha hb h1 h2
  have ha' : a ∈ l₁ := (cSortDesc_perm l₁).mem_iff.mp ha
  have hb' : b ∈ l₁ := hp.mem_iff.mpr ((cSortDesc_perm l₂).mem_iff.mp hb)
  exact cell_eq_of_sim_eq hn ha' hb' (Rat.le_antisymm h2 h1)

theorem insertDesc_swap (c : Cell) (l : List Cell) :
    insertDesc c.swap (l.map Cell.swap) = (insertDesc c l).map Cell.swap := by
  induction l with
  | nil => rfl
  | cons d ds ih =>
    simp only [insertDesc, List.map_cons, Cell.swap]
    split
    · simp only [List.map_cons]; rw [← ih]; rfl
    · rfl

theorem sortDesc_swap (l : List Cell) : sortDesc (l.map Cell.swap) = (sortDesc l).map Cell.swap := by
  induction l with
  | nil => rfl
  | cons c cs ih => simp only [sortDesc, List.map_cons]; rw [ih, insertDesc_swap]

/-! ### the winner loop -/

theorem winners_swap (minimum : Rat) (l : List Cell) (fa fb : List Nat) :
    winners minimum (l.map Cell.swap) fb fa = (winners minimum l fa fb).map Cell.swap := by
  induction l generalizing fa fb with
  | nil => rfl
  | cons c cs ih =>
    simp only [List.map_cons, winners, Cell.swap]
    rw [Bool.or_comm]
    split
    · rfl
    · split
      · exact ih fa fb
      · simp only [List.map_cons, Cell.swap]
        rw [ih (c.a.id :: fa) (c.b.id :: fb)]

theorem sumSims_swap (l : List Cell) : sumSims (l.map Cell.swap) = sumSims l := by
  induction l with
  | nil => rfl
  | cons c cs ih => simp only [List.map_cons, sumSims, ih, Cell.swap]

/-- list similarity does not depend on the operand order when no two cells of the matrix of
    pairwise scores tie -/
theorem listSimilarity_symm' (xs ys : List Indi) (o : SimOpts)
    (hn : ((matrix xs ys o).map (·.sim)).Nodup) :
    listSimilarity xs ys o = listSimilarity ys xs o := by
  have hs : sortDesc (matrix ys xs o) = (sortDesc (matrix xs ys o)).map Cell.swap := by
    rw [← sortDesc_swap]
    apply cSortDesc_eq_of_perm (matrix_swap_perm xs ys o)
    have hp := (matrix_swap_perm xs ys o).map (·.sim)
    apply (hp.nodup_iff).mpr
    rw [List.map_map]
    have e : ((fun c : Cell => c.sim) ∘ Cell.swap) = (fun c : Cell => c.sim) := by
      funext c; rfl
    rw [e]; exact hn
  have hw : winners o.minimumSimilarity (sortDesc (matrix ys xs o)) [] [] =
      (winners o.minimumSimilarity (sortDesc (matrix xs ys o)) [] []).map Cell.swap := by
    rw [hs]; exact winners_swap _ _ [] []
  unfold listSimilarity
  by_cases h1 : xs.length = 0 <;> by_cases h2 : ys.length = 0
  · simp [h1, h2]
  · simp [h1, h2]
  · simp [h1, h2]
  · simp only [h1, h2, and_self, or_self, if_false]
    rw [hw, sumSims_swap, List.length_map, Nat.max_comm]

end Gedcom.Sim
