/-
  Self-merge: merging a tree with (a copy of) itself adds nothing, as long as no two sibling
  nodes are Equal to each other — the result is the tree with its children re-ordered
  (`Reorder`, Gedcom/Lemmas/EqualLaws.lean: MergeNodeSlices moves merged nodes to the end).
-/
import Gedcom.Lemmas.MergeCover
import Gedcom.Lemmas.MergeFuel
import Gedcom.Lemmas.EqualLaws
namespace Gedcom

/-! ## pointwise relations -/

/-- pointwise relation between two lists of possibly different types -/
inductive Pw {α β : Type} (P : α → β → Prop) : List α → List β → Prop
  | nil : Pw P [] []
  | cons {a : α} {b : β} {l : List α} {r : List β} : P a b → Pw P l r → Pw P (a :: l) (b :: r)

theorem Pw.append {α β : Type} {P : α → β → Prop} {l1 l2 : List α} {r1 r2 : List β}
    (h1 : Pw P l1 r1) (h2 : Pw P l2 r2) : Pw P (l1 ++ l2) (r1 ++ r2) := by
  induction h1 with
  | nil => exact h2
  | cons hab _ ih => exact .cons hab ih

theorem Pw.mono {α β : Type} {P Q : α → β → Prop} {l : List α} {r : List β} (h : Pw P l r)
    (hpq : ∀ a ∈ l, ∀ b ∈ r, P a b → Q a b) : Pw Q l r := by
  induction h with
  | nil => exact .nil
  | cons hab _ ih =>
    exact .cons (hpq _ (by simp) _ (by simp) hab)
      (ih (fun a ha b hb => hpq a (by simp [ha]) b (by simp [hb])))

/-- split the left list along a split of the right list -/
theorem Pw.split_right {α β : Type} {P : α → β → Prop} {l : List α} {pre post : List β} {x : β}
    (h : Pw P l (pre ++ x :: post)) :
    ∃ l1 a l2, l = l1 ++ a :: l2 ∧ Pw P l1 pre ∧ P a x ∧ Pw P l2 post := by
  induction pre generalizing l with
  | nil =>
    cases h with
    | cons hab hr => exact ⟨[], _, _, rfl, .nil, hab, hr⟩
  | cons y ys ih =>
    cases h with
    | cons hab hr =>
      obtain ⟨l1, a, l2, e, h1, h2, h3⟩ := ih hr
      exact ⟨_ :: l1, a, l2, by simp [e], .cons hab h1, h2, h3⟩

theorem Pw.mem_left {α β : Type} {P : α → β → Prop} {l : List α} {r : List β} (h : Pw P l r)
    {a : α} (ha : a ∈ l) : ∃ b ∈ r, P a b := by
  induction h with
  | nil => cases ha
  | @cons a' b' l' r' hab _ ih =>
    rcases List.mem_cons.mp ha with rfl | ha
    · exact ⟨b', by simp, hab⟩
    · obtain ⟨b, hb, hp⟩ := ih ha
      exact ⟨b, by simp [hb], hp⟩

theorem Pw.map_right {α β γ : Type} {P : α → γ → Prop} {f : β → γ} {l : List α} {r : List β}
    (h : Pw (fun a b => P a (f b)) l r) : Pw P l (r.map f) := by
  induction h with
  | nil => exact .nil
  | cons hab _ ih => exact .cons hab ih

theorem Pw.toReorderL {l r : List Node} (h : Pw Reorder l r) : ReorderL l r := by
  induction h with
  | nil => exact .nil
  | cons hab _ ih => exact .cons hab ih

theorem ReorderL.toPw {l r : List Node} (h : ReorderL l r) : Pw Reorder l r := by
  induction l generalizing r with
  | nil => cases h; exact .nil
  | cons a as ih => cases h with | cons hab hr => exact .cons hab (ih hr)

/-- a pointwise relation can follow a permutation of its left list -/
theorem Pw.perm_left {α β : Type} {P : α → β → Prop} {l l' : List α} {r : List β}
    (hp : l.Perm l') (hf : Pw P l r) : ∃ r', r.Perm r' ∧ Pw P l' r' := by
  induction hp generalizing r with
  | nil => cases hf; exact ⟨[], List.Perm.refl _, .nil⟩
  | cons x _ ih =>
    cases hf with
    | @cons _ b _ r1 hxb hf' =>
      obtain ⟨r1', hr, hf''⟩ := ih hf'
      exact ⟨b :: r1', List.Perm.cons b hr, .cons hxb hf''⟩
  | swap x y l0 =>
    cases hf with
    | @cons _ b1 _ r1 h1 hf' =>
      cases hf' with
      | @cons _ b2 _ r0 h2 hf'' =>
        exact ⟨b2 :: b1 :: r0, List.Perm.swap b2 b1 r0, .cons h2 (.cons h1 hf'')⟩
  | trans _ _ ih1 ih2 =>
    obtain ⟨r1, hr1, hf1⟩ := ih1 hf
    obtain ⟨r2, hr2, hf2⟩ := ih2 hf1
    exact ⟨r2, hr1.trans hr2, hf2⟩

theorem Reorder.refl (n : Node) : Reorder n n := by
  induction n using Node.induct with
  | h t v p ks ih =>
    have : ReorderL ks ks := by
      induction ks with
      | nil => exact .nil
      | cons k ks ih' =>
        exact .cons (ih k (by simp)) (ih' (fun x hx => ih x (by simp [hx])))
    exact .mk this (List.Perm.refl _)

/-! ## "no two siblings are Equal" -/

/-- no two nodes of the list are Equal to each other, in either direction -/
def noEqList : List Node → Bool
  | [] => true
  | k :: ks => ks.all (fun x => !equalsShallow k x && !equalsShallow x k) && noEqList ks

mutual
/-- `NoEqualSiblings`: no sibling group anywhere in the tree contains two Equal nodes -/
def noEqSib : Node → Bool
  | .mk _ _ _ ks => noEqList ks && noEqSibList ks
def noEqSibList : List Node → Bool
  | [] => true
  | k :: ks => noEqSib k && noEqSibList ks
end

theorem noEqSibList_iff (ks : List Node) : noEqSibList ks = true ↔ ∀ k ∈ ks, noEqSib k = true := by
  induction ks with
  | nil => simp [noEqSibList]
  | cons k ks ih => simp [noEqSibList, ih]

theorem noEqSib_iff (n : Node) :
    noEqSib n = true ↔ noEqList n.kids = true ∧ ∀ k ∈ n.kids, noEqSib k = true := by
  cases n with
  | mk t v p ks => simp [noEqSib, noEqSibList_iff, Node.kids]

/-- in such a list two Equal members are the same member -/
theorem noEqList_eq {ks : List Node} (h : noEqList ks = true) {a b : Node} (ha : a ∈ ks)
    (hb : b ∈ ks) (he : equalsShallow a b = true) : a = b := by
  induction ks with
  | nil => cases ha
  | cons k ks ih =>
    simp only [noEqList, Bool.and_eq_true, List.all_eq_true, Bool.not_eq_true'] at h
    rcases List.mem_cons.mp ha with ha' | ha'
    · rcases List.mem_cons.mp hb with hb' | hb'
      · rw [ha', hb']
      · subst ha'; have := (h.1 b hb').1; rw [he] at this; cases this
    · rcases List.mem_cons.mp hb with hb' | hb'
      · subst hb'; have := (h.1 a ha').2; rw [he] at this; cases this
      · exact ih h.2 ha' hb'

theorem noEqList_nodup {ks : List Node} (h : noEqList ks = true)
    (hr : ∀ k ∈ ks, equalsShallow k k = true) : ks.Nodup := by
  induction ks with
  | nil => exact List.nodup_nil
  | cons k ks ih =>
    simp only [noEqList, Bool.and_eq_true, List.all_eq_true, Bool.not_eq_true'] at h
    refine List.nodup_cons.mpr ⟨?_, ih h.2 (fun x hx => hr x (by simp [hx]))⟩
    intro hk
    have := (h.1 k hk).1
    rw [hr k (by simp)] at this; cases this

/-! ## heights of values -/

mutual
def Node.hgt : Node → Nat
  | .mk _ _ _ ks => 1 + hgtList ks
def hgtList : List Node → Nat
  | [] => 0
  | k :: ks => max k.hgt (hgtList ks)
end

mutual
theorem INode.height_erase (n : INode) : n.height = n.erase.hgt := by
  match n with
  | .mk i t v p ks => simp only [INode.height, INode.erase, Node.hgt]; rw [heightList_erase]
theorem heightList_erase (ks : List INode) : heightList ks = hgtList (eraseList ks) := by
  match ks with
  | [] => rfl
  | k :: ks => simp only [heightList, eraseList, hgtList]; rw [INode.height_erase, heightList_erase]
end

theorem hgtList_le {ks : List Node} {K : Nat} : hgtList ks ≤ K ↔ ∀ k ∈ ks, k.hgt ≤ K := by
  induction ks with
  | nil => simp [hgtList]
  | cons k ks ih => simp [hgtList, Nat.max_le, ih]

theorem Node.hgt_eq (n : Node) : n.hgt = 1 + hgtList n.kids := by
  cases n; simp [Node.hgt, Node.kids]

/-! ## what "the sweep merged nothing" means -/

theorem Fails.all {f : MergeFn} {node : INode} {rs : List (Nat × INode)} {s s' : MSt}
    (h : Fails f node rs s s') : ∀ y ∈ rs, ∃ s1 s2, f node y.2 s1 = (none, s2) := by
  induction h with
  | nil => intro y hy; cases hy
  | @cons j r rs s s1 s' hf _ ih =>
    intro y hy
    rcases List.mem_cons.mp hy with rfl | hy
    · exact ⟨s, s1, hf⟩
    · exact ih y hy

/-- a sweep that reports no merge has offered every element that is not in `alreadyMerged` every
    right node, and the merge function declined each time; slice, right and `alreadyMerged` are
    as they were -/
theorem pass_notfound (f : MergeFn) :
    ∀ (n : Nat) (done todo : List Elem) (right : List (Nat × INode)) (merged : List Nat) (st : MSt),
      todo.length ≤ n →
      (∀ e ∈ done, merged.contains e.node.id = false → ∀ y ∈ right, ∃ s1 s2, f e.node y.2 s1 = (none, s2)) →
      (pass f done todo right merged st false).found = false →
      (pass f done todo right merged st false).slice = done ++ todo ∧
      (pass f done todo right merged st false).merged = merged ∧
      ∀ e ∈ done ++ todo, merged.contains e.node.id = false →
        ∀ y ∈ right, ∃ s1 s2, f e.node y.2 s1 = (none, s2) := by
  intro n
  induction n with
  | zero =>
    intro done todo right merged st hn hd _
    have : todo = [] := List.eq_nil_of_length_eq_zero (by omega)
    subst this
    rw [pass]; simpa using hd
  | succ n ih =>
    intro done todo right merged st hn hd
    match todo with
    | [] => intro _; rw [pass]; simpa using hd
    | e :: rest =>
      rw [pass]
      split
      · rename_i hc
        intro hnf
        have := ih (done ++ [e]) rest right merged st (by simp at hn; omega)
          (by
            intro e' he' hc'
            rcases List.mem_append.mp he' with he' | he'
            · exact hd e' he' hc'
            · simp only [List.mem_cons, List.not_mem_nil, or_false] at he'
              subst he'
              rw [hc] at hc'; cases hc')
          hnf
        simpa using this
      · split
        · rename_i st' hfm
          intro hnf
          have := ih (done ++ [e]) rest right merged st' (by simp at hn; omega)
            (by
              intro e' he' hc'
              rcases List.mem_append.mp he' with he' | he'
              · exact hd e' he' hc'
              · simp only [List.mem_cons, List.not_mem_nil, or_false] at he'
                subst he'
                exact (firstMerge_none hfm).all)
            hnf
          simpa using this
        · rename_i m j right' st' hfm
          split
          · intro h; simp at h
          · rename_i x xs
            intro h
            exfalso
            have := pass_found_mono f (xs ++ [(⟨e.prov ++ [.R j], m⟩ : Elem)]).length (done ++ [x])
              (xs ++ [(⟨e.prov ++ [.R j], m⟩ : Elem)]) right' (m.id :: merged) st' (Nat.le_refl _)
            simp only at h this
            rw [this] at h
            cases h

/-- `mergeLoop_inv` with what is known when a right node is appended: the sweep before it
    merged nothing (`pass_notfound`) -/
theorem mergeLoop_inv' (fl : MergeFlags) (f : MergeFn)
    (Inv : List Elem → List (Nat × INode) → List Nat → MSt → Prop)
    (hfail : ∀ sl rt mg e j r s s', e ∈ sl → (j, r) ∈ rt → f e.node r s = (none, s') →
      Inv sl rt mg s → Inv sl rt mg s')
    (hmerge : ∀ pre e post rpre j r rpost mg s m s', mg.contains e.node.id = false →
      f e.node r s = (some m, s') →
      Inv (pre ++ e :: post) (rpre ++ (j, r) :: rpost) mg s →
      Inv (pre ++ post ++ [⟨e.prov ++ [.R j], m⟩]) (rpre ++ rpost) (m.id :: mg) s')
    (hadd : ∀ sl j0 r0 rtail mg s,
      (∀ e ∈ sl, mg.contains e.node.id = false →
        ∀ y ∈ (j0, r0) :: rtail, ∃ s1 s2, f e.node y.2 s1 = (none, s2)) →
      Inv sl ((j0, r0) :: rtail) mg s →
      Inv (sl ++ [⟨[.R j0], (copyIf fl.sliceCopyRight r0 s).1⟩]) rtail
        ((copyIf fl.sliceCopyRight r0 s).1.id :: mg) (copyIf fl.sliceCopyRight r0 s).2) :
    ∀ (n : Nat) (slice : List Elem) (right : List (Nat × INode)) (merged : List Nat) (st : MSt),
      right.length ≤ n → Inv slice right merged st →
      ∃ mg, Inv (mergeLoop fl f slice right merged st).1 [] mg (mergeLoop fl f slice right merged st).2 := by
  intro n
  induction n with
  | zero =>
    intro slice right merged st hn h
    have : right = [] := List.eq_nil_of_length_eq_zero (by omega)
    subst this
    rw [mergeLoop]; exact ⟨merged, h⟩
  | succ n ih =>
    intro slice right merged st hn h
    match right with
    | [] => rw [mergeLoop]; exact ⟨merged, h⟩
    | (j0, r0) :: rtail =>
      rw [mergeLoop]
      have hp := pass_inv f Inv hfail hmerge slice.length [] slice ((j0, r0) :: rtail) merged st false
        (Nat.le_refl _) (by simpa using h)
      simp only
      split
      · rename_i hfound
        have hlt := pass_found_lt f slice ((j0, r0) :: rtail) merged st hfound
        simp only [List.length_cons] at hlt
        rw [dif_pos hlt]
        exact ih _ _ _ _ (by simp at hn; omega) hp
      · rename_i hnf
        apply ih
        · simpa using hn
        · have hnf' : (pass f [] slice ((j0, r0) :: rtail) merged st false).found = false := by
            simpa using hnf
          have hr : (pass f [] slice ((j0, r0) :: rtail) merged st false).right = (j0, r0) :: rtail :=
            pass_notfound_right f slice.length [] slice _ merged st (Nat.le_refl _) hnf'
          have hq := pass_notfound f slice.length [] slice ((j0, r0) :: rtail) merged st
            (Nat.le_refl _) (by simp) hnf'
          rw [hr] at hp
          apply hadd _ _ _ _ _ _ _ hp
          rw [hq.1, hq.2.1]
          simpa using hq.2.2

/-! ## MergeNodeSlices of a list with (a copy of) itself -/

/-- contract of a merge function on nodes whose values lie in `ks`: it declines two different
    values and merges two equal ones into a re-ordering of that value -/
structure SelfFn (f : MergeFn) (ks : List Node) : Prop where
  decline : ∀ a b s, a.erase ∈ ks → b.erase ∈ ks → a.erase ≠ b.erase → (f a b s).1 = none
  accept : ∀ a b s, a.erase ∈ ks → b.erase = a.erase →
    ∃ m, (f a b s).1 = some m ∧ Reorder a.erase m.erase

theorem contains_cons_false {x y : Nat} {mg : List Nat} (h : (x :: mg).contains y = false) :
    y ≠ x ∧ mg.contains y = false := by
  simp only [List.contains_eq_mem, List.mem_cons, decide_eq_false_iff_not, not_or] at h ⊢
  exact h

theorem pw_of_map_eq {α β : Type} (g : β → α) : ∀ (l : List β) (ks : List α), l.map g = ks →
    Pw (fun k e => g e = k) ks l := by
  intro l
  induction l with
  | nil => intro ks h; simp at h; subst h; exact .nil
  | cons x xs ih =>
    intro ks h
    cases ks with
    | nil => simp at h
    | cons k ks =>
      simp only [List.map_cons, List.cons.injEq] at h
      exact .cons h.1 (ih ks h.2)

theorem nodup_map_middle {α β : Type} (g : α → β) {A B : List α} {x : α}
    (h : ((A ++ x :: B).map g).Nodup) : ∀ y ∈ A ++ B, g y ≠ g x := by
  rw [List.map_append, List.map_cons, List.nodup_append] at h
  obtain ⟨_, h2, h3⟩ := h
  rw [List.nodup_cons] at h2
  intro y hy hxy
  rcases List.mem_append.mp hy with hy | hy
  · exact h3 (g y) (List.mem_map.mpr ⟨y, hy, rfl⟩) (g x) (by simp) hxy
  · exact h2.1 (by rw [← hxy]; exact List.mem_map.mpr ⟨y, hy, rfl⟩)

/-- slice element `e` stands for source value `k`: it is a re-ordering of `k`, and exactly `k`
    while it has not been merged -/
def SelfRel (mg : List Nat) (k : Node) (e : Elem) : Prop :=
  Reorder k e.node.erase ∧ (mg.contains e.node.id = false → e.node.erase = k)

theorem mergeNodeSlices_self (f : MergeFn) (hfr : FreshFn f) (ks : List Node) (hs : SelfFn f ks)
    (hnd : ks.Nodup) (l r : List INode) (st : MSt) (hl : l.map INode.erase = ks)
    (hr : r.map INode.erase = ks) :
    ∃ srcs, srcs.Perm ks ∧
      ReorderL srcs ((mergeNodeSlices ⟨true, true, true⟩ f l r st).1.map INode.erase) := by
  have hcf := copyLeft_fresh ⟨true, true, true⟩ rfl (indexed l) st
  have hce := copyLeft_erase ⟨true, true, true⟩ (indexed l) st
  have hle : (indexed l).map (·.2.erase) = ks := by
    rw [← hl]
    have := indexed_map_snd l 0
    calc (indexed l).map (·.2.erase) = ((indexed l).map (·.2)).map INode.erase := by simp [List.map_map]
      _ = l.map INode.erase := by rw [this]
  have hre : (indexed r).map (·.2.erase) = ks := by
    rw [← hr]
    have := indexed_map_snd r 0
    calc (indexed r).map (·.2.erase) = ((indexed r).map (·.2)).map INode.erase := by simp [List.map_map]
      _ = r.map INode.erase := by rw [this]
  let N0 := (copyLeft ⟨true, true, true⟩ (indexed l) st).2.next
  let Inv : List Elem → List (Nat × INode) → List Nat → MSt → Prop := fun sl rt mg s =>
    N0 ≤ s.next ∧ (∀ x ∈ mg, N0 ≤ x) ∧
    (∀ e ∈ sl, mg.contains e.node.id = false → e.node.erase ∈ ks ∧ e.node.id < N0) ∧
    (∃ srcs, srcs.Perm ks ∧ Pw (SelfRel mg) srcs sl) ∧
    (∀ y ∈ rt, y.2.erase ∈ ks) ∧ (rt.map (·.2.erase)).Nodup ∧
    (∀ y ∈ rt, ∃ e ∈ sl, mg.contains e.node.id = false ∧ e.node.erase = y.2.erase)
  have h := mergeLoop_inv' ⟨true, true, true⟩ f Inv
    (by
      intro sl rt mg e j r' s s' _ _ hfe h
      have := (hfr e.node r' s).1
      rw [hfe] at this
      exact ⟨Nat.le_trans h.1 this.1, h.2⟩)
    (by
      intro pre e post rpre j r' rpost mg s m s' hc hfe h
      obtain ⟨h0, h1, h2, ⟨srcs, hperm, hpw⟩, h4, h5, h6⟩ := h
      have he := h2 e (by simp) hc
      have hr' := h4 (j, r') (by simp)
      have heq : e.node.erase = r'.erase := by
        by_cases heq : e.node.erase = r'.erase
        · exact heq
        · have := hs.decline e.node r' s he.1 hr' heq
          rw [hfe] at this; cases this
      obtain ⟨m', hm', hreo⟩ := hs.accept e.node r' s he.1 heq.symm
      rw [hfe] at hm'
      simp only [Option.some.injEq] at hm'
      subst hm'
      have hfresh := hfr e.node r' s
      rw [hfe] at hfresh
      have hmid : N0 ≤ m.id := by
        have := hfresh.2 m rfl m.id (by rw [INode.ids_eq]; simp)
        omega
      refine ⟨Nat.le_trans h0 hfresh.1.1, ?_, ?_, ?_, ?_, ?_, ?_⟩
      · intro x hx
        rcases List.mem_cons.mp hx with rfl | hx
        · exact hmid
        · exact h1 x hx
      · intro e' he' hc'
        have hc'' := (contains_cons_false hc').2
        simp only [List.mem_append, List.mem_cons, List.not_mem_nil, or_false] at he'
        rcases he' with (he' | he') | rfl
        · exact h2 e' (by simp [he']) hc''
        · exact h2 e' (by simp [he']) hc''
        · exact absurd rfl (contains_cons_false hc').1
      · obtain ⟨s1, k, s2, hsrc, hp1, hpk, hp2⟩ := hpw.split_right
        have hk : e.node.erase = k := hpk.2 hc
        refine ⟨s1 ++ s2 ++ [k], ?_, ?_⟩
        · refine List.Perm.trans ?_ hperm
          rw [hsrc, List.append_assoc]
          exact List.Perm.append_left s1 List.perm_append_comm
        · have hmono : ∀ (a : Node) (b : Elem), SelfRel mg a b → SelfRel (m.id :: mg) a b :=
            fun a b hab => ⟨hab.1, fun hcb => hab.2 (contains_cons_false hcb).2⟩
          refine ((hp1.mono (fun a _ b _ => hmono a b)).append
            (hp2.mono (fun a _ b _ => hmono a b))).append (.cons ⟨?_, ?_⟩ .nil)
          · rw [← hk]; exact hreo
          · intro hcm
            exact absurd rfl (contains_cons_false hcm).1
      · intro y hy
        exact h4 y (by
          simp only [List.mem_append, List.mem_cons] at hy ⊢
          rcases hy with hy | hy
          · exact Or.inl hy
          · exact Or.inr (Or.inr hy))
      · exact h5.sublist (((List.sublist_cons_self (j, r') rpost).append_left rpre).map _)
      · intro y hy
        have hy' : y ∈ rpre ++ (j, r') :: rpost := by
          simp only [List.mem_append, List.mem_cons] at hy ⊢
          rcases hy with hy | hy
          · exact Or.inl hy
          · exact Or.inr (Or.inr hy)
        obtain ⟨ey, hey, hcy, hey'⟩ := h6 y hy'
        have hne : ey.node.id ≠ m.id := by
          have := (h2 ey hey hcy).2
          omega
        have hcy' : (m.id :: mg).contains ey.node.id = false := by
          simp only [List.contains_eq_mem, List.mem_cons, decide_eq_false_iff_not, not_or] at hcy ⊢
          exact ⟨hne, hcy⟩
        simp only [List.mem_append, List.mem_cons] at hey
        rcases hey with hey | rfl | hey
        · exact ⟨ey, by simp [hey], hcy', hey'⟩
        · exfalso
          exact nodup_map_middle (fun x : Nat × INode => x.2.erase) h5 y hy
            (by rw [← hey', heq])
        · exact ⟨ey, by simp [hey], hcy', hey'⟩)
    (by
      intro sl j0 r0 rtail mg s hnf h
      exfalso
      obtain ⟨_, _, h2, _, _, _, h6⟩ := h
      obtain ⟨e, he, hc, hee⟩ := h6 (j0, r0) (by simp)
      obtain ⟨s1, s2, hf⟩ := hnf e he hc (j0, r0) (by simp)
      obtain ⟨m, hm, _⟩ := hs.accept e.node r0 s1 (h2 e he hc).1 hee.symm
      rw [hf] at hm; cases hm)
    (indexed r).length (copyLeft ⟨true, true, true⟩ (indexed l) st).1 (indexed r) []
    (copyLeft ⟨true, true, true⟩ (indexed l) st).2 (Nat.le_refl _)
    (by
      have hsl : (copyLeft ⟨true, true, true⟩ (indexed l) st).1.map (·.node.erase) = ks := by
        rw [hce, hle]
      refine ⟨Nat.le_refl _, by simp, ?_, ⟨ks, List.Perm.refl _, ?_⟩, ?_, by rw [hre]; exact hnd, ?_⟩
      · intro e he _
        refine ⟨by rw [← hsl]; exact List.mem_map.mpr ⟨e, he, rfl⟩, ?_⟩
        exact (hcf.2 e he e.node.id (by rw [INode.ids_eq]; simp)).2
      · exact (pw_of_map_eq (fun e : Elem => e.node.erase) _ ks hsl).mono
          (fun a _ b _ hab => ⟨by rw [← hab]; exact Reorder.refl _, fun _ => hab⟩)
      · intro y hy
        rw [← hre]; exact List.mem_map.mpr ⟨y, hy, rfl⟩
      · intro y hy
        have : y.2.erase ∈ (copyLeft ⟨true, true, true⟩ (indexed l) st).1.map (·.node.erase) := by
          rw [hsl, ← hre]; exact List.mem_map.mpr ⟨y, hy, rfl⟩
        obtain ⟨e, he, hee⟩ := List.mem_map.mp this
        exact ⟨e, he, by simp, hee⟩)
  obtain ⟨mg, _, _, _, ⟨srcs, hperm, hpw⟩, _⟩ := h
  refine ⟨srcs, hperm, ?_⟩
  have : Pw Reorder srcs ((mergeLoop ⟨true, true, true⟩ f (copyLeft ⟨true, true, true⟩ (indexed l) st).1
      (indexed r) [] (copyLeft ⟨true, true, true⟩ (indexed l) st).2).1.map (·.node.erase)) :=
    Pw.map_right (hpw.mono (fun a _ b _ hab => hab.1))
  have e1 : (mergeNodeSlices ⟨true, true, true⟩ f l r st).1.map INode.erase =
      (mergeLoop ⟨true, true, true⟩ f (copyLeft ⟨true, true, true⟩ (indexed l) st).1
        (indexed r) [] (copyLeft ⟨true, true, true⟩ (indexed l) st).2).1.map (·.node.erase) := by
    simp [mergeNodeSlices, mergeNodeSlicesP, List.map_map]
  rw [e1]
  exact this.toReorderL

/-! ## Equals and re-ordering under the wide guard -/

theorem equalsShallow_refl_wide {D : List Str} {k : Node} (h : wideOK D k = true) :
    equalsShallow k k = true :=
  refl_cover ⟨rfl, rfl, rfl⟩ ((wideOK_iff D _).mp h).1
    (fun x hx => ⟨x, hx, covers_refl x (((wideOK_iff D _).mp h).2 x hx)⟩)

/-- the DATE children of a re-ordered node carry the same values -/
theorem reorder_dates {a a' : Node} (h : Reorder a a') :
    (∀ d ∈ a.dates, ∃ d' ∈ a'.dates, d'.value = d.value) ∧
    (∀ d' ∈ a'.dates, ∃ d ∈ a.dates, d'.value = d.value) := by
  cases h with
  | @mk t v p ks ks'' ks' hro hperm =>
    constructor
    · intro d hd
      obtain ⟨hdk, hdd⟩ := mem_dates hd
      obtain ⟨y, hy, hre⟩ := hro.mem_left hdk
      refine ⟨y, List.mem_filter.mpr ⟨hperm.subset hy, ?_⟩, hre.head.2.1.symm⟩
      rw [← isDate_reorder hre]; exact hdd
    · intro d' hd'
      obtain ⟨hdk, hdd⟩ := mem_dates hd'
      obtain ⟨x, hx, hre⟩ := hro.mem_right (hperm.symm.subset hdk)
      refine ⟨x, List.mem_filter.mpr ⟨hx, ?_⟩, hre.head.2.1.symm⟩
      rw [isDate_reorder hre]; exact hdd

/-- under the guard, Equals of a receiver does not change when its children are re-ordered -/
theorem equalsShallow_reorder_iff {D : List Str} {a a' b : Node} (h : Reorder a a')
    (ha : nodeOK D a = true) : equalsShallow a b = true ↔ equalsShallow a' b = true := by
  have hh : sameHdr a a' := h.head
  by_cases hr : a.rule = .resi ∨ a.rule = .even
  · have hr' : a'.rule = .resi ∨ a'.rule = .even := by rw [← hh.rule]; exact hr
    have hd := nodeOK_dated ha hr
    obtain ⟨c1, c2⟩ := reorder_dates h
    have hd' : a'.dates ≠ [] := by
      obtain ⟨d, ds, hds⟩ := List.exists_cons_of_ne_nil hd
      obtain ⟨d', hd', _⟩ := c1 d (by rw [hds]; simp)
      exact List.ne_nil_of_mem hd'
    constructor
    · intro hE
      obtain ⟨hb, hm⟩ := multi_dates hr hd hE
      obtain ⟨d, hdm, db, hdb, hv⟩ := (datesMatch_iff _ _).mp hm
      obtain ⟨d', hd'm, hv'⟩ := c1 d hdm
      exact multi_of_dates hr' (hb.trans hh.rule)
        ((datesMatch_iff _ _).mpr ⟨d', hd'm, db, hdb, by rw [hv']; exact hv⟩)
    · intro hE
      obtain ⟨hb, hm⟩ := multi_dates hr' hd' hE
      obtain ⟨d', hdm, db, hdb, hv⟩ := (datesMatch_iff _ _).mp hm
      obtain ⟨d, hd'm, hv'⟩ := c2 d' hdm
      exact multi_of_dates hr (hb.trans hh.rule.symm)
        ((datesMatch_iff _ _).mpr ⟨d, hd'm, db, hdb, by rw [← hv']; exact hv⟩)
  · have h1 : a.rule ≠ .resi := fun h => hr (Or.inl h)
    have h2 : a.rule ≠ .even := fun h => hr (Or.inr h)
    rw [equalsShallow_congr (b := b) (b' := b) hh ⟨rfl, rfl, rfl⟩ h1 h2]

/-! ## MergeNodes of a tree with (a copy of) itself -/

theorem foldRight_self {D : List Str} (eqf : MergeFn) (hfr : FreshFn eqf) (root : Nat)
    (rootTag : Str) (ks : List Node) (hne : noEqList ks = true) (hok : ∀ k ∈ ks, wideOK D k = true)
    (hself : ∀ k ∈ ks, SelfFn eqf k.kids ∧ k.kids.Nodup)
    (kids cur : List INode) (st : MSt) (hcur : cur.map INode.erase = ks)
    (hkids : kids.map INode.erase = ks) :
    ReorderL ks ((foldRight ⟨true, true, true⟩ eqf root rootTag cur kids st).1.map INode.erase) := by
  have hnd : ks.Nodup := noEqList_nodup hne (fun k hk => equalsShallow_refl_wide (hok k hk))
  let Inv : List INode → List INode → MSt → Prop := fun c rest _ =>
    Pw (fun k n => Reorder k n.erase ∧ (k ∈ rest.map INode.erase → n.erase = k)) ks c ∧
    (∀ x ∈ rest, x.erase ∈ ks) ∧ (rest.map INode.erase).Nodup
  have h := foldRight_inv ⟨true, true, true⟩ eqf root rootTag Inv
    (by
      intro pre n post child rest s _ hE h
      obtain ⟨hpw, h2, h3⟩ := h
      obtain ⟨k1, k, k2, hks, hp1, hpk, hp2⟩ := hpw.split_right
      have hkm : k ∈ ks := by rw [hks]; simp
      have hcm : child.erase ∈ ks := h2 child (by simp)
      have hkc : k = child.erase := by
        apply noEqList_eq hne hkm hcm
        exact (equalsShallow_reorder_iff hpk.1 ((wideOK_iff D _).mp (hok k hkm)).1).mpr hE
      have hnk : n.erase = k := hpk.2 (by rw [hkc]; simp)
      have hsk := hself k hkm
      have hm := mergeNodeSlices_self eqf hfr k.kids hsk.1 hsk.2 child.kids n.kids s
        (by rw [← INode.erase_kids, ← hkc]) (by rw [← INode.erase_kids, hnk])
      obtain ⟨srcs, hperm, hro⟩ := hm
      obtain ⟨r', hr', hpw'⟩ := Pw.perm_left hperm hro.toPw
      have hnew : Reorder k (n.setKids (mergeNodeSlices ⟨true, true, true⟩ eqf child.kids n.kids s).1).erase := by
        rw [INode.setKids_erase]
        have : k = .mk n.tag n.value n.ptr (n.kids.map INode.erase) := by rw [← hnk, INode.erase_eq]
        rw [this]
        have e : n.kids.map INode.erase = k.kids := by rw [← INode.erase_kids, hnk]
        rw [e]
        exact .mk hpw'.toReorderL hr'.symm
      have hnd' := h3
      simp only [List.map_cons, List.nodup_cons] at hnd'
      refine ⟨?_, fun x hx => h2 x (by simp [hx]), hnd'.2⟩
      rw [hks]
      refine (hp1.mono ?_).append (.cons ⟨hnew, ?_⟩ (hp2.mono ?_))
      · intro a _ b _ hab
        exact ⟨hab.1, fun ha => hab.2 (by simp [ha])⟩
      · intro hk
        rw [hkc] at hk
        exact absurd hk hnd'.1
      · intro a _ b _ hab
        exact ⟨hab.1, fun ha => hab.2 (by simp [ha])⟩)
    (by
      intro c child rest s hnone h
      exfalso
      obtain ⟨hpw, h2, _⟩ := h
      have hcm : child.erase ∈ ks := h2 child (by simp)
      obtain ⟨n, hn, hrel, _⟩ := hpw.mem_left hcm
      have := hnone n hn
      rw [(equalsShallow_reorder_iff hrel ((wideOK_iff D _).mp (hok _ hcm)).1).mp
        (equalsShallow_refl_wide (hok _ hcm))] at this
      cases this)
    kids cur st
    (by
      refine ⟨?_, ?_, by rw [hkids]; exact hnd⟩
      · exact (pw_of_map_eq INode.erase cur ks hcur).mono
          (fun a _ b _ hab => ⟨by rw [← hab]; exact Reorder.refl _, fun _ => hab⟩)
      · intro x hx; rw [← hkids]; exact List.mem_map.mpr ⟨x, hx, rfl⟩)
  exact (Pw.map_right (h.1.mono (fun a _ b _ hab => hab.1))).toReorderL

theorem INode.erase_tag (n : INode) : n.erase.tag = n.tag := by rw [INode.erase_eq]; rfl

/-- PARTIAL (guard: `wideOK`, dated RESI / EVEN admitted).  With a budget of the height of the tree,
    merging a tree with a tree of the same value returns that tree with children re-ordered,
    provided no two siblings are Equal. -/
theorem mergeNodesF_self {D : List Str} (fuel : Nat) :
    ∀ (l r : INode) (st : MSt), l.erase = r.erase → l.erase.hgt ≤ fuel → noEqSib l.erase = true →
      wideOK D l.erase = true →
      ∃ m st', mergeNodesF ⟨true, true, true⟩ fuel l r st = .ok m st' ∧ Reorder l.erase m.erase := by
  induction fuel with
  | zero => intro l r st _ h; rw [Node.hgt_eq] at h; omega
  | succ fuel ih =>
    intro l r st heq hh hne hok
    have htag : l.tag = r.tag := by rw [← INode.erase_tag l, ← INode.erase_tag r, heq]
    have hb : (l.tag != r.tag) = false := by simp [htag]
    simp only [mergeNodesF, hb, Bool.false_eq_true, if_false]
    refine ⟨_, _, rfl, ?_⟩
    have hce := copyM_erase l st
    have hroot := copyTree_root st.next l
    have hck : (copyM l st).1.kids.map INode.erase = l.erase.kids := by
      rw [← INode.erase_kids, hce]
    have hrk : r.kids.map INode.erase = l.erase.kids := by rw [← INode.erase_kids, heq]
    have hne' := (noEqSib_iff _).mp hne
    have hok' := (wideOK_iff D _).mp hok
    rw [Node.hgt_eq] at hh
    have hf := foldRight_self (D := D) (eqMergeWith (mergeNodesF ⟨true, true, true⟩ fuel))
      (eqMergeWith_fresh _ (mergeNodesF_fresh fuel)) (copyM l st).1.id l.tag l.erase.kids hne'.1
      (fun k hk => hok'.2 k hk)
      (by
        intro k hk
        have hkne := (noEqSib_iff _).mp (hne'.2 k hk)
        have hkok := (wideOK_iff D _).mp (hok'.2 k hk)
        have hkh : k.hgt ≤ fuel := by have := hgtList_le.mp (Nat.le_refl _) k hk; omega
        rw [Node.hgt_eq] at hkh
        refine ⟨⟨?_, ?_⟩, noEqList_nodup hkne.1
          (fun x hx => equalsShallow_refl_wide (hkok.2 x hx))⟩
        · intro a b s ha hb hab
          unfold eqMergeWith
          split
          · rename_i hE
            exact absurd (noEqList_eq hkne.1 ha hb hE) hab
          · rfl
        · intro a b s ha hb
          have hx := hkok.2 _ ha
          have hE : equalsShallow a.erase b.erase = true := by
            rw [hb]; exact equalsShallow_refl_wide hx
          obtain ⟨m, s', hm, hre⟩ := ih a b s hb.symm
            (by have := hgtList_le.mp (Nat.le_refl _) _ ha; omega) (hkne.2 _ ha) hx
          refine ⟨m, ?_, hre⟩
          unfold eqMergeWith
          rw [if_pos hE, hm])
      r.kids (copyM l st).1.kids (copyM l st).2 hck hrk
    rw [INode.erase_eq l]
    simp only [INode.erase, eraseList_eq_map]
    have e1 : (copyM l st).1.tag = l.tag := hroot.2.1
    have e2 : (copyM l st).1.value = l.value := hroot.2.2.1
    have e3 : (copyM l st).1.ptr = l.ptr := hroot.2.2.2
    rw [e1, e2, e3]
    rw [INode.erase_kids] at hf
    exact .mk hf (List.Perm.refl _)

end Gedcom
