/-
  Integer-level facts about the binary64 model (`Model/Float64.lean`): the rounded quotient is
  within half a unit of the exact one, and the scale search finds the least scale that gives 53
  significant bits.  Core Lean only.
-/
import Gedcom.Model.Float64
namespace Gedcom.F64

/-- the rounded quotient `q'` of `N = n·2^k` by `d` is nearest: `|N − q'·d| ≤ d/2` -/
theorem roundDiv_err (n d k : Nat) (hd : 0 < d) :
    2 * (n * 2 ^ k) ≤ 2 * (roundDiv n d k * d) + d ∧
    2 * (roundDiv n d k * d) ≤ 2 * (n * 2 ^ k) + d := by
  unfold roundDiv
  simp only []
  generalize n * 2 ^ k = N
  have h := Nat.div_add_mod N d
  have hr := Nat.mod_lt N hd
  rw [Nat.mul_comm] at h
  have hs : (N / d + 1) * d = N / d * d + d := Nat.succ_mul _ _
  split
  · generalize N / d * d = Q at *; omega
  · split
    · rw [hs]; generalize N / d * d = Q at *; omega
    · split
      · generalize N / d * d = Q at *; omega
      · rw [hs]; generalize N / d * d = Q at *; omega

/-- what the scale search returns: a scale that is large enough, or the end of the fuel -/
theorem fracBitsAux_spec (n d : Nat) : ∀ fuel k,
    2 ^ 52 * d ≤ n * 2 ^ (fracBitsAux n d fuel k) ∨ fracBitsAux n d fuel k = k + fuel := by
  intro fuel
  induction fuel with
  | zero => intro k; right; simp [fracBitsAux]
  | succ f ih =>
    intro k
    unfold fracBitsAux
    split
    · left; assumption
    · rcases ih (k + 1) with h | h
      · left; exact h
      · right; omega

/-- the scale search returns the least sufficient scale from `k` on -/
theorem fracBitsAux_le (n d : Nat) (j : Nat) (hj : 2 ^ 52 * d ≤ n * 2 ^ j) : ∀ fuel k, k ≤ j →
    fracBitsAux n d fuel k ≤ j := by
  intro fuel
  induction fuel with
  | zero => intro k hk; simpa [fracBitsAux] using hk
  | succ f ih =>
    intro k hk
    unfold fracBitsAux
    split
    · exact hk
    · rename_i hnot
      have : k ≠ j := by intro e; subst e; exact hnot hj
      exact ih (k + 1) (by omega)

theorem fracBits_le (n d j : Nat) (hj : 2 ^ 52 * d ≤ n * 2 ^ j) : fracBits n d ≤ j :=
  fracBitsAux_le n d j hj 1100 0 (Nat.zero_le _)

/-- for a positive numerator and a denominator below 2^1000 the scale found is sufficient -/
theorem fracBits_ok (n d : Nat) (hn : 0 < n) (hd : d ≤ 2 ^ 1000) :
    2 ^ 52 * d ≤ n * 2 ^ fracBits n d := by
  rcases fracBitsAux_spec n d 1100 0 with h | h
  · exact h
  · unfold fracBits; rw [h]
    calc 2 ^ 52 * d ≤ 2 ^ 52 * 2 ^ 1000 := Nat.mul_le_mul_left _ hd
      _ = 2 ^ 1052 := by rw [← Nat.pow_add]
      _ ≤ 2 ^ (0 + 1100) := Nat.pow_le_pow_right (by omega) (by omega)
      _ ≤ n * 2 ^ (0 + 1100) := Nat.le_mul_of_pos_left _ hn

/-- a value below `2^e` is scaled by at least `53 - e` bits -/
theorem scale_lower (n d k e : Nat) (_hd : 0 < d) (h : n < 2 ^ e * d) (hP : 2 ^ 52 * d ≤ n * 2 ^ k) :
    53 ≤ e + k := by
  have h1 : n * 2 ^ k < 2 ^ e * d * 2 ^ k := Nat.mul_lt_mul_of_pos_right h (Nat.two_pow_pos k)
  have h2 : 2 ^ 52 * d < 2 ^ (e + k) * d := by
    calc 2 ^ 52 * d ≤ n * 2 ^ k := hP
      _ < 2 ^ e * d * 2 ^ k := h1
      _ = 2 ^ (e + k) * d := by rw [Nat.pow_add, Nat.mul_assoc, Nat.mul_assoc, Nat.mul_comm d]
  have h3 : 2 ^ 52 < 2 ^ (e + k) := Nat.lt_of_mul_lt_mul_right h2
  have := (Nat.pow_lt_pow_iff_right (a := 2) (by omega)).mp h3
  omega

/-- every scale the search passed over was insufficient: the scale found is minimal -/
theorem fracBitsAux_min (n d : Nat) : ∀ fuel k j, k ≤ j → j < fracBitsAux n d fuel k →
    ¬ 2 ^ 52 * d ≤ n * 2 ^ j := by
  intro fuel
  induction fuel with
  | zero => intro k j hk hj; simp [fracBitsAux] at hj; omega
  | succ f ih =>
    intro k j hk hj
    unfold fracBitsAux at hj
    split at hj
    · omega
    · rename_i hnot
      by_cases e : j = k
      · subst e; exact hnot
      · exact ih (k + 1) j (by omega) hj

theorem fracBits_min (n d j : Nat) (hj : j < fracBits n d) : ¬ 2 ^ 52 * d ≤ n * 2 ^ j :=
  fracBitsAux_min n d 1100 0 j (Nat.zero_le _) hj

theorem fracBitsAux_bound (n d : Nat) : ∀ fuel k, fracBitsAux n d fuel k ≤ k + fuel := by
  intro fuel
  induction fuel with
  | zero => intro k; simp [fracBitsAux]
  | succ f ih =>
    intro k
    unfold fracBitsAux
    split
    · omega
    · have := ih (k + 1); omega

/-- the scale found is sufficient unless the fuel ran out -/
theorem fracBits_ok_or (n d : Nat) : 2 ^ 52 * d ≤ n * 2 ^ fracBits n d ∨ fracBits n d = 1100 := by
  rcases fracBitsAux_spec n d 1100 0 with h | h
  · left; exact h
  · right; unfold fracBits; omega

theorem fracBits_bound (n d : Nat) : fracBits n d ≤ 1100 := by
  have := fracBitsAux_bound n d 1100 0; unfold fracBits; omega

/-- at a tie the rounded quotient is even -/
theorem roundDiv_tie_even (n d k : Nat) (hd : 0 < d) :
    (2 * (roundDiv n d k * d) = 2 * (n * 2 ^ k) + d → roundDiv n d k % 2 = 0) ∧
    (2 * (n * 2 ^ k) = 2 * (roundDiv n d k * d) + d → roundDiv n d k % 2 = 0) := by
  unfold roundDiv
  simp only []
  generalize n * 2 ^ k = N
  have h := Nat.div_add_mod N d
  have hr := Nat.mod_lt N hd
  rw [Nat.mul_comm] at h
  have hs : (N / d + 1) * d = N / d * d + d := Nat.succ_mul _ _
  split
  · generalize N / d * d = Q at *; omega
  · split
    · rw [hs]; generalize N / d * d = Q at *; omega
    · split
      · rename_i he; generalize N / d * d = Q at *; omega
      · rename_i he; rw [hs]; generalize N / d * d = Q at *; omega

/-- the rounded quotient is the floor or the floor plus one -/
theorem roundDiv_floor (n d k : Nat) :
    n * 2 ^ k / d ≤ roundDiv n d k ∧ roundDiv n d k ≤ n * 2 ^ k / d + 1 := by
  unfold roundDiv
  simp only []
  split
  · omega
  · split
    · omega
    · split <;> omega

/-- an exact quotient is not changed by rounding -/
theorem roundDiv_exact (n d k q : Nat) (hd : 0 < d) (h : n * 2 ^ k = q * d) : roundDiv n d k = q := by
  unfold roundDiv
  simp only []
  rw [h]
  have h1 : q * d / d = q := Nat.mul_div_cancel _ hd
  have h2 : q * d % d = 0 := Nat.mul_mod_left _ _
  rw [h1, h2]
  simp [hd]

end Gedcom.F64
