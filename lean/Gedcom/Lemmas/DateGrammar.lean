/-
  C04 helper lemmas, part 2: closed facts about the generated word lists (decided over the
  lists, so a changed list re-checks them) and the single-date pattern on grammar sentences.
-/
import Gedcom.Lemmas.DateParse
namespace Gedcom

/-! ## closed facts about the generated lists -/

def solidStr (t : Str) : Bool := !t.isEmpty && t.all solidB
def lowerLetters (t : Str) : Bool := !t.isEmpty && t.all isLowerB
def headIsLetter (t : Str) : Bool := match t with | [] => false | a :: _ => isLowerB (toLowerB a)

theorem solidStr_iff (t : Str) : solidStr t = true ↔ Solid t := by
  unfold solidStr Solid; cases t <;> simp

/-- every date keyword is a solid token that starts with a letter -/
theorem dateKeywords_solid : ∀ k ∈ dateKeywords, solidStr k = true ∧ headIsLetter k = true := by decide

/-- the alternation order puts the keyword itself before any keyword that is a proper prefix of it:
    the first alternative that is a prefix of a keyword has the keyword's own length -/
theorem dateKeywords_firstHit :
    ∀ kw ∈ dateKeywords, (firstHit dateKeywords kw).map List.length = some kw.length := by decide

/-- no keyword is a prefix of a month word -/
theorem dateKeywords_not_month :
    ∀ k ∈ dateKeywords, ∀ wm ∈ Generated.monthWords, hasPrefixCI k wm.1 = false := by decide

/-- month words are lower-case letters, map to 1..12, and the table has one entry per word -/
theorem monthWords_facts :
    ∀ wm ∈ Generated.monthWords,
      lowerLetters wm.1 = true ∧ monthOf wm.1 = some wm.2 ∧ 1 ≤ wm.2 ∧ wm.2 ≤ 12 := by decide

theorem monthOf_nil : monthOf (cleanSpace (lowerStr [])) = none := by decide

/-! ## letter case -/

theorem lowerStr_cons (a : UInt8) (s : Str) : lowerStr (a :: s) = toLowerB a :: lowerStr s := rfl
theorem lowerStr_append (s t : Str) : lowerStr (s ++ t) = lowerStr s ++ lowerStr t := by
  simp [lowerStr]
theorem lowerStr_length (s : Str) : (lowerStr s).length = s.length := by simp [lowerStr]

theorem length_eq_of_lower_eq {s t : Str} (h : lowerStr s = lowerStr t) : s.length = t.length := by
  rw [← lowerStr_length s, ← lowerStr_length t, h]

/-- a byte class that ignores letter case holds throughout a case variant -/
theorem all_of_lower_eq {f : UInt8 → Bool} (hf : ∀ a b, toLowerB a = toLowerB b → f a = f b) :
    ∀ {s t : Str}, lowerStr s = lowerStr t → (∀ b ∈ t, f b = true) → ∀ b ∈ s, f b = true := by
  intro s
  induction s with
  | nil => intro t _ _ b hb; simp at hb
  | cons a s ih =>
    intro t h ht b hb
    cases t with
    | nil => simp [lowerStr] at h
    | cons c t =>
      rw [lowerStr_cons, lowerStr_cons] at h
      injection h with h1 h2
      rcases List.mem_cons.mp hb with rfl | hb
      · rw [hf _ _ h1]; exact ht c (by simp)
      · exact ih h2 (fun x hx => ht x (by simp [hx])) b hb

theorem lower_facts {b : UInt8} (h : isLowerB b = true) :
    isWordB b = true ∧ solidB b = true ∧ isDigitB b = false ∧ toLowerB b = b := by
  have h' : 97 ≤ b.toNat ∧ b.toNat ≤ 122 := by simpa [isLowerB] using h
  refine ⟨by simp [isWordB, h], by simp [solidB]; omega, ?_, ?_⟩
  · simp [isDigitB]; omega
  · unfold toLowerB isUpperB
    have : ¬ (decide (65 ≤ b.toNat) && decide (b.toNat ≤ 90)) = true := by simp; omega
    rw [if_neg this]

theorem lowerStr_of_lowerLetters {w : Str} (h : ∀ b ∈ w, isLowerB b = true) : lowerStr w = w := by
  induction w with
  | nil => rfl
  | cons a w ih =>
    rw [lowerStr_cons, (lower_facts (h a (by simp))).2.2.2, ih (fun b hb => h b (by simp [hb]))]

/-- a word token: what `\w+` can take, not starting with a digit -/
structure WordTok (M : Str) : Prop where
  word : ∀ b ∈ M, isWordB b = true
  solid : Solid M
  head : ∃ m0 M', M = m0 :: M' ∧ isDigitB m0 = false ∧ m0 ≠ 32

/-- a case variant of a word of lower-case letters is a word token -/
theorem wordTok_of_variant {M w : Str} (hw : lowerLetters w = true) (h : lowerStr M = lowerStr w) :
    WordTok M ∧ lowerStr M = w := by
  have hw' : w ≠ [] ∧ ∀ b ∈ w, isLowerB b = true := by
    unfold lowerLetters at hw; cases w <;> simp at hw ⊢; exact hw
  obtain ⟨hne, hall⟩ := hw'
  have hlen := length_eq_of_lower_eq h
  have hMne : M ≠ [] := by
    intro e; subst e; simp at hlen; exact hne (List.eq_nil_of_length_eq_zero hlen.symm)
  have hword : ∀ b ∈ M, isWordB b = true :=
    all_of_lower_eq (fun a b e => (classes_of_lower_eq e).2.1) h (fun b hb => (lower_facts (hall b hb)).1)
  have hsolid : ∀ b ∈ M, solidB b = true :=
    all_of_lower_eq (fun a b e => (classes_of_lower_eq e).2.2.1) h (fun b hb => (lower_facts (hall b hb)).2.1)
  have hnd : ∀ b ∈ M, (!isDigitB b) = true :=
    all_of_lower_eq (f := fun b => !isDigitB b)
      (fun a b e => by simp [(classes_of_lower_eq e).1]) h
      (fun b hb => by simp [(lower_facts (hall b hb)).2.2.1])
  refine ⟨⟨hword, ⟨hMne, hsolid⟩, ?_⟩, by rw [h, lowerStr_of_lowerLetters hall]⟩
  cases M with
  | nil => exact absurd rfl hMne
  | cons m0 M' =>
    refine ⟨m0, M', rfl, by simpa using hnd m0 (by simp), ne32_of_solid (hsolid m0 (by simp))⟩

/-! ## numerals -/

/-- decimal digits with any number of leading zeros: `7`, `07`, `007` … -/
def numeral (z n : Nat) : Str := List.replicate z 48 ++ natToDec n

theorem isDigits_numeral (z n : Nat) : isDigits (numeral z n) = true := by
  rw [isDigits_iff]
  refine ⟨by simp [numeral, natToDec_ne_nil], ?_⟩
  intro b hb
  rcases List.mem_append.mp hb with hb | hb
  · have : b = 48 := by simpa using (List.mem_replicate.mp hb).2
    subst this; decide
  · exact natToDec_digits n b hb

theorem solid_of_isDigits {s : Str} (h : isDigits s = true) : Solid s :=
  ⟨isDigits_ne_nil h, fun b hb => solidB_of_digit (isDigits_all h b hb)⟩

theorem edged_of_solid {s : Str} (h : Solid s) : Edged s := ⟨solid_head h, solid_last h⟩

theorem trimSpace_solid {s : Str} (h : Solid s) : trimSpace s = s := by
  have := trimSpace_edged (edged_of_solid h) 0 0
  simpa [spaces] using this

theorem trimSpace_solid_sp {s : Str} (h : Solid s) : trimSpace (s ++ [32]) = s := by
  have := trimSpace_edged (edged_of_solid h) 0 1
  simpa [spaces] using this

theorem dropZeros_numeral (z : Nat) {n : Nat} (hn : 1 ≤ n) (tail : Str) :
    (numeral z n ++ tail).dropWhile (· == 48) = natToDec n ++ tail := by
  obtain ⟨b, r, e, hb, _⟩ := natToDec_head hn
  have := (takeWhile_dropWhile_append (p := (· == 48)) (D := List.replicate z 48)
    (rest := natToDec n ++ tail)
    (by intro x hx; simpa using (List.mem_replicate.mp hx).2)
    (by intro c r' e'; rw [e] at e'; simp at e'; rw [← e'.1]; simpa using hb)).2
  simpa [numeral, List.append_assoc] using this

theorem atoi_numeral (z : Nat) {n : Nat} (h1 : 1 ≤ n) : atoi (numeral z n) = min n maxInt := by
  unfold atoi
  have := dropZeros_numeral z h1 []
  simp only [List.append_nil] at this
  rw [this, trimSpace_solid (solid_of_isDigits (isDigits_natToDec n))]
  simp [isDigits_natToDec, decToNat_natToDec]

theorem atoi_numeral_sp (z : Nat) {n : Nat} (h1 : 1 ≤ n) :
    atoi (numeral z n ++ [32]) = min n maxInt := by
  unfold atoi
  rw [dropZeros_numeral z h1 [32], trimSpace_solid_sp (solid_of_isDigits (isDigits_natToDec n))]
  simp [isDigits_natToDec, decToNat_natToDec]

theorem atoi_zeros_sp (z : Nat) : atoi (List.replicate z 48 ++ [32]) = 0 := by
  unfold atoi
  have := (takeWhile_dropWhile_append (p := (· == 48)) (D := List.replicate z 48) (rest := [32])
    (by intro x hx; simpa using (List.mem_replicate.mp hx).2)
    (by intro c r' e'; simp at e'; rw [← e'.1]; decide)).2
  rw [this]
  decide

theorem atoi_nil : atoi [] = 0 := by decide

/-! ## the body of a date: year, month year, day month year -/

inductive Body
  | Y (yz y : Nat)
  | MY (M : Str) (yz y : Nat)
  | DMY (dz d : Nat) (M : Str) (yz y : Nat)
  /-- a day numeral made of zeros only: `0`, `00` -/
  | ZMY (dz : Nat) (M : Str) (yz y : Nat)

def Body.tokens : Body → List Str
  | .Y yz y => [numeral yz y]
  | .MY M yz y => [M, numeral yz y]
  | .DMY dz d M yz y => [numeral dz d, M, numeral yz y]
  | .ZMY dz M yz y => [List.replicate (dz + 1) 48, M, numeral yz y]

def Body.str (b : Body) : Str := joinSp b.tokens

/-- the three capture groups the pattern must produce -/
def Body.groups : Body → Str × Str × Str
  | .Y yz y => ([], [], numeral yz y)
  | .MY M yz y => ([], M ++ [32], numeral yz y)
  | .DMY dz d M yz y => (numeral dz d ++ [32], M ++ [32], numeral yz y)
  | .ZMY dz M yz y => (List.replicate (dz + 1) 48 ++ [32], M ++ [32], numeral yz y)

def Body.word : Body → Option Str
  | .Y _ _ => none
  | .MY M _ _ => some M
  | .DMY _ _ M _ _ => some M
  | .ZMY _ M _ _ => some M

/-- the month position holds a word token -/
def Body.WF (b : Body) : Prop := ∀ M, b.word = some M → WordTok M

theorem isDigits_zeros (z : Nat) : isDigits (List.replicate (z + 1) 48) = true := by
  rw [isDigits_iff]
  refine ⟨by simp [List.replicate_succ], ?_⟩
  intro b hb
  have : b = 48 := by simpa using (List.mem_replicate.mp hb).2
  subst this; decide

theorem matchTail_body (b : Body) (h : b.WF) : matchTail b.str = some b.groups := by
  cases b with
  | Y yz y => exact matchTail_y (isDigits_numeral yz y)
  | MY M yz y =>
    obtain ⟨hw, _, m0, M', e, h0, h32⟩ := h M rfl
    subst e
    simpa [Body.str, Body.tokens, joinSp, Body.groups] using
      matchTail_my h0 h32 hw (isDigits_numeral yz y)
  | DMY dz d M yz y =>
    obtain ⟨hw, hs, _⟩ := h M rfl
    simpa [Body.str, Body.tokens, joinSp, Body.groups] using
      matchTail_dmy (isDigits_numeral dz d) hs.1 hw (isDigits_numeral yz y)
  | ZMY dz M yz y =>
    obtain ⟨hw, hs, _⟩ := h M rfl
    simpa [Body.str, Body.tokens, joinSp, Body.groups] using
      matchTail_dmy (isDigits_zeros dz) hs.1 hw (isDigits_numeral yz y)

/-- the first byte of a body: a digit, or the first byte of the month word -/
theorem Body.str_head (b : Body) (h : b.WF) :
    ∃ b0 r, b.str = b0 :: r ∧ b0 ≠ 32 ∧
      (isDigitB b0 = true ∨ ∃ M yz y, b = .MY M yz y) := by
  have hd : ∀ s : Str, isDigits s = true → ∀ rest, ∃ b0 r, s ++ rest = b0 :: r ∧ b0 ≠ 32 ∧ isDigitB b0 = true := by
    intro s hs rest
    cases s with
    | nil => simp [isDigits] at hs
    | cons a s =>
      have ha := isDigits_all hs a (by simp)
      exact ⟨a, s ++ rest, rfl, ne32_of_solid (solidB_of_digit ha), ha⟩
  cases b with
  | Y yz y =>
    obtain ⟨b0, r, e, h1, h2⟩ := hd _ (isDigits_numeral yz y) []
    exact ⟨b0, r, by simpa [Body.str, Body.tokens, joinSp] using e, h1, Or.inl h2⟩
  | MY M yz y =>
    obtain ⟨_, _, m0, M', e, _, h32⟩ := h M rfl
    subst e
    exact ⟨m0, M' ++ 32 :: numeral yz y, by simp [Body.str, Body.tokens, joinSp], h32, Or.inr ⟨_, _, _, rfl⟩⟩
  | DMY dz d M yz y =>
    obtain ⟨b0, r, e, h1, h2⟩ := hd _ (isDigits_numeral dz d) (32 :: (M ++ 32 :: numeral yz y))
    exact ⟨b0, r, by simpa [Body.str, Body.tokens, joinSp] using e, h1, Or.inl h2⟩
  | ZMY dz M yz y =>
    obtain ⟨b0, r, e, h1, h2⟩ := hd _ (isDigits_zeros dz) (32 :: (M ++ 32 :: numeral yz y))
    exact ⟨b0, r, by simpa [Body.str, Body.tokens, joinSp] using e, h1, Or.inl h2⟩

/-- no keyword alternative is a prefix of the month word (true of every month name; an
    explicit guard for other words: `abtmar 1900` *is* read as `abt mar 1900`) -/
def NoKwPrefix (M : Str) : Prop := ∀ k ∈ dateKeywords, hasPrefixCI k M = false

theorem digit_not_letter {a b : UInt8} (ha : isLowerB (toLowerB a) = true) (hb : isDigitB b = true) :
    toLowerB a ≠ toLowerB b := by
  intro e
  have h1 := (lower_facts ha).2.2.1
  have h2 : isDigitB (toLowerB b) = true := by
    rw [(classes_of_lower_eq (toLowerB_idem b)).1]; exact hb
  rw [e, h2] at h1; exact absurd h1 (by simp)

/-- a sentence without keyword -/
theorem matchDate_body (b : Body) (h : b.WF) (hk : ∀ M yz y, b = .MY M yz y → NoKwPrefix M) :
    matchDate b.str = some ⟨[], b.groups.1, b.groups.2.1, b.groups.2.2⟩ := by
  obtain ⟨b0, r, e, h32, hcase⟩ := b.str_head h
  have hno : ∀ k ∈ dateKeywords, hasPrefixCI k b.str = false := by
    intro k hkmem
    rcases hcase with hdig | ⟨M, yz, y, rfl⟩
    · rw [e]
      have hl := (dateKeywords_solid k hkmem).2
      cases k with
      | nil => simp [headIsLetter] at hl
      | cons k0 k => exact hasPrefixCI_head_ne _ _ (digit_not_letter hl hdig)
    · have hs : ∀ x ∈ k, x ≠ 32 := fun x hx =>
        ne32_of_solid (((solidStr_iff k).mp (dateKeywords_solid k hkmem).1).2 x hx)
      have : (Body.MY M yz y).str = M ++ 32 :: numeral yz y := by simp [Body.str, Body.tokens, joinSp]
      rw [this, hasPrefixCI_tok hs]
      exact hk M yz y rfl k hkmem
  unfold matchDate
  rw [matchDateKw_no_prefix hno, e, matchAfterKw_nospace h32 (by rw [← e]; exact matchTail_body b h)]

/-- a keyword token: some letter-case variant of a keyword of the lists -/
def KwTok (T : Str) : Prop := ∃ kw ∈ dateKeywords, lowerStr T = lowerStr kw

/-- a sentence with keyword -/
theorem matchDate_kw_body {T : Str} (hT : KwTok T) (b : Body) (h : b.WF) :
    matchDate (T ++ 32 :: b.str) = some ⟨T, b.groups.1, b.groups.2.1, b.groups.2.2⟩ := by
  obtain ⟨kw, hkw, hlow⟩ := hT
  have hf := dateKeywords_firstHit kw hkw
  rw [← firstHit_lower_eq dateKeywords hlow] at hf
  cases hh : firstHit dateKeywords T with
  | none => rw [hh] at hf; simp at hf
  | some k =>
    rw [hh] at hf
    have hl : k.length = T.length := by
      have : k.length = kw.length := by simpa using hf
      rw [this, length_eq_of_lower_eq hlow]
    unfold matchDate
    exact matchDateKw_tok
      (fun k hk x hx => ne32_of_solid (((solidStr_iff k).mp (dateKeywords_solid k hk).1).2 x hx))
      hh hl (matchAfterKw_space (matchTail_body b h))

theorem month_no_kw_prefix {M : Str} {wm : Str × Nat} (hwm : wm ∈ Generated.monthWords)
    (h : lowerStr M = lowerStr wm.1) : NoKwPrefix M := by
  intro k hk
  rw [hasPrefixCI_of_lower_eq k h]
  exact dateKeywords_not_month k hk wm hwm

/-! ## from the capture groups to the date -/

/-- what `parseDateParts` computes from the four groups -/
def partsResult (p : DateParts) : PDate :=
  let day := atoi p.day
  let mo := monthOf (cleanSpace (lowerStr p.month))
  let year := atoi p.year
  let c := constraintFromString p.kw
  if !p.day.isEmpty && !calendarOK day (mo.getD 0) year then PDate.failed c
  else if !p.month.isEmpty && mo.isNone then PDate.failed c
  else ⟨day, mo.getD 0, year, c, false⟩

theorem parseDateParts_of_match {s : Str} {p : DateParts} (h : matchDate s = some p) :
    parseDateParts s = partsResult p := by
  simp [parseDateParts, partsResult, h]

theorem parseDateParts_of_no_match {s : Str} (h : matchDate s = none) :
    parseDateParts s = PDate.failed .exact := by
  simp [parseDateParts, h]

theorem solid_lowerStr {M : Str} (h : Solid M) : Solid (lowerStr M) := by
  refine ⟨by intro e; exact h.1 (by simpa [lowerStr] using e), ?_⟩
  intro b hb
  simp only [lowerStr, List.mem_map] at hb
  obtain ⟨a, ha, rfl⟩ := hb
  rw [(classes_of_lower_eq (toLowerB_idem a)).2.2.1]; exact h.2 a ha

theorem cleanSpace_solid_sp {X : Str} (h : Solid X) : cleanSpace (X ++ [32]) = X := by
  have := cleanSpace_render [(0, X)] 1 (by simp [GapsOK]) (by intro p hp; simp at hp; subst hp; exact h)
  simpa [render, spaces, joinSp] using this

theorem monthGroup_eval {M : Str} (h : Solid M) :
    monthOf (cleanSpace (lowerStr (M ++ [32]))) = monthOf (lowerStr M) := by
  rw [lowerStr_append]
  have : lowerStr [32] = [32] := by decide
  rw [this, cleanSpace_solid_sp (solid_lowerStr h)]

/-- the month a word stands for: its lower-case form looked up in the generated table -/
def monthOfWord (M : Str) : Option Nat := monthOf (lowerStr M)

theorem isEmpty_append_sp (s : Str) : (s ++ [32]).isEmpty = false := by cases s <;> simp

theorem isEmpty_of_isDigits {s : Str} (h : isDigits s = true) : s.isEmpty = false := by
  have := isDigits_ne_nil h; cases s <;> simp at this ⊢

/-- year only -/
theorem partsResult_Y (T : Str) (yz : Nat) {y : Nat} (h1 : 1 ≤ y) :
    partsResult ⟨T, [], [], numeral yz y⟩ = ⟨0, 0, min y maxInt, constraintFromString T, false⟩ := by
  simp [partsResult, atoi_nil, atoi_numeral yz h1, monthOf_nil]

/-- month and year -/
theorem partsResult_MY (T : Str) {M : Str} (hM : Solid M) (yz : Nat) {y : Nat} (h1 : 1 ≤ y) :
    partsResult ⟨T, [], M ++ [32], numeral yz y⟩ =
      match monthOfWord M with
      | some m => ⟨0, m, min y maxInt, constraintFromString T, false⟩
      | none => PDate.failed (constraintFromString T) := by
  simp only [partsResult, atoi_nil, atoi_numeral yz h1, monthGroup_eval hM, monthOfWord,
    isEmpty_append_sp]
  cases monthOf (lowerStr M) <;> simp

/-- day, month and year -/
theorem partsResult_DMY (T : Str) (dz : Nat) {d : Nat} (hd1 : 1 ≤ d) {M : Str}
    (hM : Solid M) (yz : Nat) {y : Nat} (h1 : 1 ≤ y) :
    partsResult ⟨T, numeral dz d ++ [32], M ++ [32], numeral yz y⟩ =
      match monthOfWord M with
      | some m =>
        if calendarOK (min d maxInt) m (min y maxInt)
        then ⟨min d maxInt, m, min y maxInt, constraintFromString T, false⟩
        else PDate.failed (constraintFromString T)
      | none => PDate.failed (constraintFromString T) := by
  simp only [partsResult, atoi_numeral_sp dz hd1, atoi_numeral yz h1, monthGroup_eval hM,
    monthOfWord, isEmpty_append_sp]
  cases monthOf (lowerStr M) with
  | none => simp [calendarOK]
  | some m => by_cases hc : calendarOK (min d maxInt) m (min y maxInt) = true <;> simp [hc]

/-- a day written with zeros only -/
theorem partsResult_ZMY (T : Str) (dz : Nat) (M : Str) (yz y : Nat) :
    partsResult ⟨T, List.replicate (dz + 1) 48 ++ [32], M ++ [32], numeral yz y⟩ =
      PDate.failed (constraintFromString T) := by
  simp only [partsResult, atoi_zeros_sp, isEmpty_append_sp]
  simp [calendarOK]

/-! ## single sentences are not ranges -/

def NotBetween (Tok : Str) : Prop := ∀ bk ∈ betweenKeywords, lowerStr bk ≠ lowerStr Tok

theorem drop_tok {Tok rest r' : Str} (hT : ∀ b ∈ Tok, b ≠ 32) {n : Nat} (hn : n ≤ Tok.length)
    (h : (Tok ++ rest).drop n = 32 :: r') : n = Tok.length := by
  induction Tok generalizing n with
  | nil => simpa using hn
  | cons t T ih =>
    cases n with
    | zero => simp at h; exact absurd h.1 (hT t (by simp))
    | succ n =>
      simp at h hn ⊢
      exact ih (fun b hb => hT b (by simp [hb])) hn h

theorem betweenKeywords_solid : ∀ k ∈ betweenKeywords, solidStr k = true ∧ headIsLetter k = true := by
  decide
theorem andKeywords_solid : ∀ k ∈ andKeywords, solidStr k = true := by decide

theorem no32_of_solidStr {k : Str} (h : solidStr k = true) : ∀ b ∈ k, b ≠ 32 :=
  fun b hb => ne32_of_solid (((solidStr_iff k).mp h).2 b hb)

/-- a keyword `k` stands at the start of `Tok␠…` / `Tok` followed by a space only if it is the
    token itself (up to letter case) -/
theorem kwAt_tok {k Tok rest : Str} (hk : ∀ b ∈ k, b ≠ 32) (hT : ∀ b ∈ Tok, b ≠ 32)
    (hrest : rest = [] ∨ ∃ R, rest = 32 :: R)
    (h1 : hasPrefixCI k (Tok ++ rest) = true) {r' : Str} (h2 : (Tok ++ rest).drop k.length = 32 :: r') :
    lowerStr k = lowerStr Tok := by
  have hp : hasPrefixCI k Tok = true := by
    rcases hrest with rfl | ⟨R, rfl⟩
    · simpa using h1
    · rw [hasPrefixCI_tok hk] at h1; exact h1
  have hlen := hasPrefixCI_length hp
  exact lower_eq_of_hasPrefixCI hp (drop_tok hT hlen h2)

theorem matchRange_none_tok {Tok rest : Str} (hT : ∀ b ∈ Tok, b ≠ 32)
    (hrest : rest = [] ∨ ∃ R, rest = 32 :: R) (hnb : NotBetween Tok) :
    matchRange (Tok ++ rest) = none := by
  unfold matchRange
  split
  · rfl
  · rw [List.findSome?_eq_none_iff]
    intro bk hbk
    by_cases hp : hasPrefixCI bk (Tok ++ rest) = true
    · rw [if_pos hp]
      split
      · next r' e =>
        exact absurd (kwAt_tok (no32_of_solidStr (betweenKeywords_solid bk hbk).1) hT hrest hp e)
          (hnb bk hbk)
      · rfl
    · rw [if_neg hp]

/-! ## whole sentences -/

/-- one date as written: an optional keyword token and a body -/
structure Sentence where
  kw : Option Str
  body : Body

def Sentence.tokens (x : Sentence) : List Str := x.kw.toList ++ x.body.tokens
def Sentence.str (x : Sentence) : Str := joinSp x.tokens
def Sentence.kwText (x : Sentence) : Str := x.kw.getD []

/-- the keyword, if any, is a case variant of a listed keyword; the month position holds a word
    token; a month-position word that opens the sentence is neither a keyword prefix nor a
    between-word -/
structure Sentence.WF (x : Sentence) : Prop where
  kw : ∀ T, x.kw = some T → KwTok T
  body : x.body.WF
  first : x.kw = none → ∀ M yz y, x.body = .MY M yz y → NoKwPrefix M ∧ NotBetween M

theorem joinSp_cons {t : Str} {ts : List Str} (h : ts ≠ []) :
    joinSp (t :: ts) = t ++ 32 :: joinSp ts := by
  cases ts with
  | nil => exact absurd rfl h
  | cons a ts => rfl

theorem Body.tokens_ne_nil (b : Body) : b.tokens ≠ [] := by cases b <;> simp [Body.tokens]

theorem Sentence.str_none {x : Sentence} (h : x.kw = none) : x.str = x.body.str := by
  simp [Sentence.str, Sentence.tokens, h, Body.str]

theorem Sentence.str_some {x : Sentence} {T : Str} (h : x.kw = some T) :
    x.str = T ++ 32 :: x.body.str := by
  simp [Sentence.str, Sentence.tokens, h, Body.str, joinSp_cons x.body.tokens_ne_nil]

theorem solid_of_kwTok {T : Str} (h : KwTok T) : Solid T := by
  obtain ⟨kw, hkw, hlow⟩ := h
  have hs := (solidStr_iff kw).mp (dateKeywords_solid kw hkw).1
  refine ⟨?_, all_of_lower_eq (fun a b e => (classes_of_lower_eq e).2.2.1) hlow hs.2⟩
  intro e; subst e
  have := length_eq_of_lower_eq hlow
  exact hs.1 (List.eq_nil_of_length_eq_zero (by simpa using this.symm))

theorem Body.tokens_solid (b : Body) (h : b.WF) : ∀ t ∈ b.tokens, Solid t := by
  intro t ht
  cases b with
  | Y yz y =>
    simp [Body.tokens] at ht; subst ht; exact solid_of_isDigits (isDigits_numeral _ _)
  | MY M yz y =>
    simp [Body.tokens] at ht
    rcases ht with rfl | rfl
    · exact (h _ rfl).solid
    · exact solid_of_isDigits (isDigits_numeral _ _)
  | DMY dz d M yz y =>
    simp [Body.tokens] at ht
    rcases ht with rfl | rfl | rfl
    · exact solid_of_isDigits (isDigits_numeral _ _)
    · exact (h _ rfl).solid
    · exact solid_of_isDigits (isDigits_numeral _ _)
  | ZMY dz M yz y =>
    simp only [Body.tokens, List.mem_cons, List.not_mem_nil, or_false] at ht
    rcases ht with rfl | rfl | rfl
    · exact solid_of_isDigits (isDigits_zeros _)
    · exact (h _ rfl).solid
    · exact solid_of_isDigits (isDigits_numeral _ _)

theorem Sentence.tokens_solid (x : Sentence) (h : x.WF) : ∀ t ∈ x.tokens, Solid t := by
  intro t ht
  simp only [Sentence.tokens, List.mem_append, Option.mem_toList] at ht
  rcases ht with ht | ht
  · exact solid_of_kwTok (h.kw t ht)
  · exact x.body.tokens_solid h.body t ht

theorem Sentence.tokens_ne_nil (x : Sentence) : x.tokens ≠ [] := by
  simp [Sentence.tokens, x.body.tokens_ne_nil]

theorem Sentence.matchDate (x : Sentence) (h : x.WF) :
    matchDate x.str = some ⟨x.kwText, x.body.groups.1, x.body.groups.2.1, x.body.groups.2.2⟩ := by
  cases hk : x.kw with
  | none =>
    rw [Sentence.str_none hk]
    simpa [Sentence.kwText, hk] using
      matchDate_body x.body h.body (fun M yz y e => (h.first hk M yz y e).1)
  | some T =>
    rw [Sentence.str_some hk]
    simpa [Sentence.kwText, hk] using matchDate_kw_body (h.kw T hk) x.body h.body

theorem between_not_keyword :
    ∀ bk ∈ betweenKeywords, ∀ kw ∈ dateKeywords, lowerStr bk ≠ lowerStr kw := by decide

theorem between_not_month :
    ∀ bk ∈ betweenKeywords, ∀ wm ∈ Generated.monthWords, lowerStr bk ≠ lowerStr wm.1 := by decide

theorem notBetween_of_digit {b0 : UInt8} {r : Str} (h : isDigitB b0 = true) : NotBetween (b0 :: r) := by
  intro bk hbk e
  have hl := (betweenKeywords_solid bk hbk).2
  cases bk with
  | nil => simp [headIsLetter] at hl
  | cons k0 k =>
    rw [lowerStr_cons, lowerStr_cons] at e
    injection e with e1 _
    exact digit_not_letter hl h e1

theorem notBetween_of_kwTok {T : Str} (h : KwTok T) : NotBetween T := by
  obtain ⟨kw, hkw, hlow⟩ := h
  intro bk hbk e
  exact between_not_keyword bk hbk kw hkw (e.trans hlow)

theorem notBetween_of_month {M : Str} {wm : Str × Nat} (hwm : wm ∈ Generated.monthWords)
    (h : lowerStr M = lowerStr wm.1) : NotBetween M := by
  intro bk hbk e
  exact between_not_month bk hbk wm hwm (e.trans h)

theorem notBetween_of_isDigits {s : Str} (h : isDigits s = true) : NotBetween s := by
  cases s with
  | nil => simp [isDigits] at h
  | cons a s => exact notBetween_of_digit (isDigits_all h a (by simp))

theorem no32_of_solid {t : Str} (h : Solid t) : ∀ b ∈ t, b ≠ 32 :=
  fun b hb => ne32_of_solid (h.2 b hb)

theorem Sentence.matchRange (x : Sentence) (h : x.WF) : matchRange x.str = none := by
  cases hk : x.kw with
  | some T =>
    rw [Sentence.str_some hk]
    exact matchRange_none_tok (no32_of_solid (solid_of_kwTok (h.kw T hk))) (Or.inr ⟨_, rfl⟩)
      (notBetween_of_kwTok (h.kw T hk))
  | none =>
    rw [Sentence.str_none hk]
    have hb := h.body
    cases hbody : x.body with
    | Y yz y =>
      have := matchRange_none_tok (Tok := numeral yz y) (rest := [])
        (no32_of_solid (solid_of_isDigits (isDigits_numeral _ _))) (Or.inl rfl)
        (notBetween_of_isDigits (isDigits_numeral _ _))
      simpa [Body.str, Body.tokens, joinSp] using this
    | MY M yz y =>
      rw [hbody] at hb
      have := matchRange_none_tok (Tok := M) (rest := 32 :: numeral yz y)
        (no32_of_solid (hb M rfl).solid) (Or.inr ⟨_, rfl⟩) (h.first hk M yz y hbody).2
      simpa [Body.str, Body.tokens, joinSp] using this
    | DMY dz d M yz y =>
      have := matchRange_none_tok (Tok := numeral dz d) (rest := 32 :: (M ++ 32 :: numeral yz y))
        (no32_of_solid (solid_of_isDigits (isDigits_numeral _ _))) (Or.inr ⟨_, rfl⟩)
        (notBetween_of_isDigits (isDigits_numeral _ _))
      simpa [Body.str, Body.tokens, joinSp] using this
    | ZMY dz M yz y =>
      have := matchRange_none_tok (Tok := List.replicate (dz + 1) 48)
        (rest := 32 :: (M ++ 32 :: numeral yz y))
        (no32_of_solid (solid_of_isDigits (isDigits_zeros _))) (Or.inr ⟨_, rfl⟩)
        (notBetween_of_isDigits (isDigits_zeros _))
      simpa [Body.str, Body.tokens, joinSp] using this

/-- what the sentence parses to, as a function of its capture groups -/
def Sentence.result (x : Sentence) : PDate :=
  partsResult ⟨x.kwText, x.body.groups.1, x.body.groups.2.1, x.body.groups.2.2⟩

/-- a sentence written with any admissible spacing parses, at both ends, to `x.result` -/
theorem Sentence.parse (x : Sentence) (h : x.WF) (gt : List (Nat × Str)) (e : Nat)
    (htok : gt.map (·.2) = x.tokens) (hgap : GapsOK gt) :
    parseDateRange (render gt e) = ⟨x.result, x.result, render gt e⟩ := by
  have hclean : cleanSpace (render gt e) = x.str := by
    rw [cleanSpace_render gt e hgap, htok]; rfl
    intro p hp
    exact x.tokens_solid h p.2 (by rw [← htok]; exact List.mem_map_of_mem hp)
  unfold parseDateRange
  simp only [hclean, x.matchRange h, parseDateParts_of_match (x.matchDate h)]
  rfl

end Gedcom
