/- Helper lemmas for the translated escapers (C18): a replacer with single-byte search strings is
   a per-byte table.  Core Lean only. -/
import Gedcom.Generated.Escapers
import Gedcom.Lemmas.Html
namespace Gedcom.Rewrite
open Gedcom Gedcom.Html

theorem find_single (pairs : List (Str × Str)) (hs : singleByte pairs = true) (b : UInt8) (t : Str) :
    (match pairs.find? (fun p => isPrefix p.1 (b :: t)) with
     | some p => some (p.2, p.1.length - 1)
     | none => none)
    = ((tableOf pairs).lookup b).map (fun n => (n, 0)) := by
  induction pairs with
  | nil => rfl
  | cons p rest ih =>
    obtain ⟨o, n⟩ := p
    have hs' : singleByte rest = true := by
      simp only [singleByte, List.all_cons, Bool.and_eq_true] at hs ⊢; exact hs.2
    have ho : o.length = 1 := by
      simp only [singleByte, List.all_cons, Bool.and_eq_true] at hs; simpa using hs.1
    match o, ho with
    | [x], _ =>
      simp only [List.find?, isPrefix, tableOf, List.lookup, Bool.and_true]
      by_cases hx : x = b
      · subst hx; simp
      · have h1 : (x == b) = false := by simpa using hx
        have h2 : (b == x) = false := by simpa using fun e => hx e.symm
        simp only [h1, h2]
        exact ih hs'

theorem replacerGo_single (pairs : List (Str × Str)) (hs : singleByte pairs = true) (s : Str) :
    replacerGo pairs 0 s = escWith (tableOf pairs) s := by
  induction s with
  | nil => rfl
  | cons b t ih =>
    have hf := find_single pairs hs b t
    simp only [replacerGo]
    have hcons : escWith (tableOf pairs) (b :: t) = escByte (tableOf pairs) b ++ escWith (tableOf pairs) t := by
      simp [escWith]
    rw [hcons]
    unfold escByte
    cases hfind : pairs.find? (fun p => isPrefix p.1 (b :: t)) with
    | none =>
      rw [hfind] at hf
      cases hl : (tableOf pairs).lookup b with
      | none => simp [ih]
      | some n => rw [hl] at hf; simp at hf
    | some p =>
      rw [hfind] at hf
      cases hl : (tableOf pairs).lookup b with
      | none => rw [hl] at hf; simp at hf
      | some n =>
        rw [hl] at hf
        simp at hf
        simp only [hf.1, hf.2, ih]

theorem escWith_congr (t1 t2 : List (UInt8 × Str)) (h : ∀ b, escByte t1 b = escByte t2 b) (s : Str) :
    escWith t1 s = escWith t2 s := by
  induction s with
  | nil => rfl
  | cons b t ih => simp [escWith] at ih ⊢; rw [h b, ih]

end Gedcom.Rewrite
