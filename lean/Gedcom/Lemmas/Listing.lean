/- A forest is determined by its preorder listing (levels + headers). -/
import Gedcom.Lemmas.Spec
namespace Gedcom.Dec
open Gedcom

/-- feeding one listing entry to the frame stack -/
def feed (s : St) (e : Entry) : St := push (closeTo e.level s) e.hdr
def feedAll (s : St) : List Entry → St
  | [] => s
  | e :: es => feedAll (feed s e) es

theorem feedAll_append (s : St) (a b : List Entry) : feedAll s (a ++ b) = feedAll (feedAll s a) b := by
  induction a generalizing s with
  | nil => rfl
  | cons x xs ih => simp [feedAll, ih]

mutual
theorem feedT (t : Node) (lvl : Nat) (s : St) (hl : lvl ≤ s.stack.length) :
    lvl < (feedAll s (listingT lvl t)).stack.length ∧
    closeTo lvl (feedAll s (listingT lvl t)) = attach (closeTo lvl s) [t] := by
  match t with
  | .mk tg v p ks =>
    let s1 : St := push (closeTo lvl s) ⟨tg, v, p⟩
    have hlen0 : (closeTo lvl s).stack.length = lvl := closeTo_len lvl s hl
    have hs1len : s1.stack.length = lvl + 1 := by simp [s1, push, hlen0]
    have hrec := feedF ks (lvl + 1) s1 (by omega)
    have hfeed : feedAll s (listingT lvl (.mk tg v p ks)) = feedAll s1 (listingF (lvl + 1) ks) := by
      simp [listingT, feedAll, feed, s1]
    rw [hfeed]
    refine ⟨by omega, ?_⟩
    rw [← closeTo_closeTo lvl (lvl + 1) _ (by omega), hrec.2, closeTo_self s1 (lvl + 1) (by omega)]
    have hatt : attach s1 ks =
        ⟨(closeTo lvl s).roots, ⟨⟨tg, v, p⟩, ks⟩ :: (closeTo lvl s).stack, (closeTo lvl s).seenFam⟩ := by
      simp [s1, push, attach]
    rw [hatt]
    have hp := closeTo_push (closeTo lvl s) ⟨tg, v, p⟩ ks
    rw [hlen0] at hp
    exact hp
theorem feedF (f : List Node) (lvl : Nat) (s : St) (hl : lvl ≤ s.stack.length) :
    lvl ≤ (feedAll s (listingF lvl f)).stack.length ∧
    closeTo lvl (feedAll s (listingF lvl f)) = attach (closeTo lvl s) f := by
  match f with
  | [] => simp [listingF, feedAll, hl]
  | t :: ts =>
    have h1 := feedT t lvl s hl
    have h2 := feedF ts lvl (feedAll s (listingT lvl t)) (by omega)
    rw [listingF, feedAll_append]
    refine ⟨h2.1, ?_⟩
    rw [h2.2, h1.2, attach_attach]
    simp
end

/-- rebuilding a forest from its listing -/
def rebuild (es : List Entry) : Forest := (closeTo 0 (feedAll ⟨[], [], false⟩ es)).roots

theorem rebuild_listing (f : Forest) : rebuild (listingF 0 f) = f := by
  unfold rebuild
  rw [(feedF f 0 ⟨[], [], false⟩ (by simp)).2]
  simp [closeTo, closeN, attach]

mutual
theorem listingT_length (lvl : Nat) (t : Node) : (listingT lvl t).length = t.size := by
  match t with
  | .mk tg v p ks => simp [listingT, Node.size, listingF_length (lvl + 1) ks]; omega
theorem listingF_length (lvl : Nat) (f : List Node) : (listingF lvl f).length = Forest.size f := by
  match f with
  | [] => simp [listingF, Forest.size]
  | t :: ts => simp [listingF, Forest.size, listingT_length lvl t, listingF_length lvl ts]
end

end Gedcom.Dec

namespace Gedcom.Dec
open Gedcom

mutual
theorem listingT_levels_ge (lvl : Nat) (t : Node) : ∀ e ∈ listingT lvl t, lvl ≤ e.level := by
  match t with
  | .mk tg v p ks =>
    intro e he
    simp only [listingT, List.mem_cons] at he
    rcases he with he | he
    · subst he; exact Nat.le_refl _
    · have := listingF_levels_ge (lvl + 1) ks e he; omega
theorem listingF_levels_ge (lvl : Nat) (f : List Node) : ∀ e ∈ listingF lvl f, lvl ≤ e.level := by
  match f with
  | [] => intro e he; simp [listingF] at he
  | t :: ts =>
    intro e he
    simp only [listingF, List.mem_append] at he
    rcases he with he | he
    · exact listingT_levels_ge lvl t e he
    · exact listingF_levels_ge lvl ts e he
end

/-- the entries of level `lvl` in the listing of a forest at level `lvl` are exactly its roots,
    in order -/
theorem listingF_roots (lvl : Nat) (f : List Node) :
    (listingF lvl f).filter (fun e => e.level == lvl) = f.map (fun k => ⟨lvl, ⟨k.tag, k.value, k.ptr⟩⟩) := by
  induction f with
  | nil => simp [listingF]
  | cons t ts ih =>
    obtain ⟨tg, v, p, ks⟩ := t
    have hdeep : (listingF (lvl + 1) ks).filter (fun e => e.level == lvl) = [] := by
      rw [List.filter_eq_nil_iff]
      intro e he
      have := listingF_levels_ge (lvl + 1) ks e he
      simp; omega
    simp [listingF, listingT, List.filter_append, hdeep, ih, Node.tag, Node.value, Node.ptr]

end Gedcom.Dec
