/-
  What the decoder returns under `AllowMultiLine` satisfies `legalMLDocB`, unless a record line
  got a value (the known finding).  Part 1: appending white-space bytes to a line does not turn
  a node line into a continuation line or the other way round.
-/
import Gedcom.Lemmas.MultiLine
import Gedcom.Lemmas.Legal
namespace Gedcom.Dec
open Gedcom

/-- bytes that occur in the encodings of white space: never a digit, a word byte or `@` -/
def wsByte (x : UInt8) : Prop := isDigit x = false ∧ isWord x = false ∧ x ≠ AT

theorem takeWhile_append_outside {α} (p : α → Bool) (a w : List α) (hw : ∀ x ∈ w, p x = false) :
    (a ++ w).takeWhile p = a.takeWhile p ∧ (a ++ w).dropWhile p = a.dropWhile p ++ w := by
  induction a with
  | nil =>
    cases w with
    | nil => simp
    | cons y ys => have := hw y (by simp); simp [List.takeWhile_cons, List.dropWhile_cons, this]
  | cons x xs ih =>
    by_cases hx : p x = true
    · simp [List.takeWhile_cons, List.dropWhile_cons, hx, ih.1, ih.2]
    · simp [List.takeWhile_cons, List.dropWhile_cons, hx]

theorem takeWhile_append_inside {α} (p : α → Bool) (a w : List α) (h : a.dropWhile p ≠ []) :
    (a ++ w).takeWhile p = a.takeWhile p ∧ (a ++ w).dropWhile p = a.dropWhile p ++ w := by
  induction a with
  | nil => simp at h
  | cons x xs ih =>
    by_cases hx : p x = true
    · have h' : xs.dropWhile p ≠ [] := by simpa [List.dropWhile_cons, hx] using h
      simp [List.takeWhile_cons, List.dropWhile_cons, hx, (ih h').1, (ih h').2]
    · simp [List.takeWhile_cons, List.dropWhile_cons, hx]

theorem parsePtr_extend (r2 w ptr r : Str) (h : parsePtr r2 = some (ptr, r)) (hne : r2 ≠ []) :
    parsePtr (r2 ++ w) = some (ptr, r ++ w) := by
  cases r2 with
  | nil => exact absurd rfl hne
  | cons c r3 =>
    unfold parsePtr at h ⊢
    simp only [List.cons_append]
    by_cases hc : (c == AT) = true
    · simp only [hc, ↓reduceIte] at h ⊢
      cases hd : r3.dropWhile (· != AT) with
      | nil => rw [hd] at h; simp at h
      | cons a rest =>
        cases rest with
        | nil => rw [hd] at h; simp at h
        | cons b r5 =>
          rw [hd] at h
          have hstop := takeWhile_append_inside (· != AT) r3 w (by rw [hd]; simp)
          rw [hstop.1, hstop.2, hd]
          simp only [List.cons_append]
          by_cases hg : (a == AT && b == SP && decide (r3.takeWhile (· != AT) ≠ [])) = true
          · simp only [hg, ↓reduceIte, Option.some.injEq, Prod.mk.injEq] at h ⊢
            exact ⟨h.1, by rw [h.2]⟩
          · exfalso; apply hg; simp only [hg, Bool.false_eq_true, if_false] at h; exact absurd h (by simp)
    · simp only [hc, Bool.false_eq_true, ↓reduceIte, Option.some.injEq, Prod.mk.injEq] at h ⊢
      exact ⟨h.1, by rw [← h.2]; rfl⟩

/-- a node line stays a node line, with the same tag, when white-space bytes are appended -/
theorem parseLine_extend (b w : Str) (l : Line) (h : parseLine b = some l) (hw : ∀ x ∈ w, wsByte x) :
    ∃ l', parseLine (b ++ w) = some l' ∧ l'.tag = l.tag := by
  unfold parseLine at h
  simp only at h
  split at h
  · simp at h
  · rename_i hds
    split at h
    · simp at h
    · rename_i hsps
      split at h
      · simp at h
      · rename_i ptr r hp
        split at h
        · simp at h
        · rename_i htg
          simp only [Option.some.injEq] at h
          -- stage 1: digits (white space is never a digit)
          have s1 := takeWhile_append_outside isDigit b w (fun x hx => (hw x hx).1)
          -- stage 2: spaces stop inside the line, because something follows them
          have hr2 : (b.dropWhile isDigit).dropWhile (· == SP) ≠ [] := by
            intro e
            rw [e] at hp
            simp only [parsePtr, Option.some.injEq, Prod.mk.injEq] at hp
            rw [← hp.2] at htg
            simp at htg
          have s2 := takeWhile_append_inside (· == SP) (b.dropWhile isDigit) w hr2
          have s3 := parsePtr_extend _ w ptr r hp hr2
          have s4 := takeWhile_append_outside isWord r w (fun x hx => (hw x hx).2.1)
          refine ⟨⟨decToNat (b.takeWhile isDigit), ptr, r.takeWhile isWord,
            afterTag (r.dropWhile isWord ++ w)⟩, ?_, by rw [← h]⟩
          unfold parseLine
          simp only [s1.1, s1.2, s2.1, s2.2, s3, s4.1, s4.2, hds, hsps, htg, if_false]

/-- a continuation line stays one when trailing white-space bytes are removed -/
theorem contOKB_prefix (sf : Bool) (b w : Str) (h : contOKB sf (b ++ w) = true)
    (hw : ∀ x ∈ w, wsByte x) : contOKB sf b = true := by
  unfold contOKB at h ⊢
  by_cases hb : b = []
  · simp [hb]
  · have hbw : (b ++ w) ≠ [] := by simp [hb]
    have e1 : (b ++ w).isEmpty = false := by simpa using hbw
    have e2 : b.isEmpty = false := by simpa using hb
    simp only [e1, e2, Bool.false_or] at h ⊢
    cases hp : parseLine b with
    | none => rfl
    | some l =>
      obtain ⟨l', hp', htag⟩ := parseLine_extend b w l hp hw
      rw [hp'] at h
      simp only at h ⊢
      rw [← htag]; exact h

/-! ## Part 2: the parts of a value before and after trimming -/

theorem splitLF_cons (c : UInt8) (y : Str) :
    splitLF (c :: y) = if c == LF then ([], (splitLF y).1 :: (splitLF y).2)
      else (c :: (splitLF y).1, (splitLF y).2) := by
  rw [splitLF]

/-- dropping bytes at the front can only drop continuation parts -/
theorem splitLF_snd_drop_prefix (pre x : Str) : ∀ b ∈ (splitLF x).2, b ∈ (splitLF (pre ++ x)).2 := by
  induction pre with
  | nil => intro b hb; simpa using hb
  | cons c cs ih =>
    intro b hb
    rw [List.cons_append, splitLF_cons]
    by_cases hc : (c == LF) = true
    · simp [hc, ih b hb]
    · simp [hc, ih b hb]

theorem splitLF_append_noLF (v suf : Str) (h : ∀ x ∈ v, x ≠ LF) :
    splitLF (v ++ suf) = (v ++ (splitLF suf).1, (splitLF suf).2) := by
  induction v with
  | nil => simp
  | cons c cs ih =>
    have hc : (c == LF) = false := by simpa using h c (by simp)
    rw [List.cons_append, splitLF_cons]
    simp [hc, ih (fun x hx => h x (by simp [hx]))]

theorem splitLF_fst_append_LF (v suf : Str) (h : LF ∈ v) : (splitLF (v ++ suf)).1 = (splitLF v).1 := by
  induction v with
  | nil => simp at h
  | cons c cs ih =>
    rw [List.cons_append, splitLF_cons, splitLF_cons]
    by_cases hc : (c == LF) = true
    · simp [hc]
    · have hne : c ≠ LF := by simpa using hc
      have : LF ∈ cs := by
        rcases List.mem_cons.mp h with e | e
        · exact absurd e.symm hne
        · exact e
      simp [hc, ih this]

/-- removing bytes at the end shortens at most the last part, by bytes of the removed piece -/
theorem splitLF_snd_drop_suffix (v suf : Str) :
    ∀ b ∈ (splitLF v).2, b ∈ (splitLF (v ++ suf)).2 ∨ b ++ (splitLF suf).1 ∈ (splitLF (v ++ suf)).2 := by
  induction v with
  | nil => intro b hb; simp [splitLF] at hb
  | cons c cs ih =>
    intro b hb
    rw [splitLF_cons] at hb
    rw [List.cons_append, splitLF_cons]
    by_cases hc : (c == LF) = true
    · simp only [hc, if_true, List.mem_cons] at hb ⊢
      rcases hb with hb | hb
      · subst hb
        by_cases hcs : LF ∈ cs
        · left; left; exact (splitLF_fst_append_LF cs suf hcs).symm
        · right; left
          have hno : ∀ x ∈ cs, x ≠ LF := fun x hx e => hcs (e ▸ hx)
          rw [splitLF_append_noLF cs suf hno, splitLF_of_noLF cs hno]
      · rcases ih b hb with h | h
        · left; right; exact h
        · right; right; exact h
    · simp only [hc, Bool.false_eq_true, if_false] at hb ⊢
      exact ih b hb

theorem splitLF_join_parts (v0 : Str) (segs : List Str) (h0 : ∀ x ∈ v0, x ≠ LF)
    (hs : ∀ seg ∈ segs, ∀ x ∈ seg, x ≠ LF) : splitLF (v0 ++ contBytes segs) = (v0, segs) := by
  induction v0 with
  | nil =>
    induction segs with
    | nil => simp [contBytes, splitLF]
    | cons seg more ih =>
      have hseg : ∀ x ∈ seg, x ≠ LF := hs seg (by simp)
      have hmore : ∀ sg ∈ more, ∀ x ∈ sg, x ≠ LF := fun sg hsg => hs sg (by simp [hsg])
      have ih' := ih hmore
      simp only [List.nil_append] at ih' ⊢
      rw [contBytes]
      show splitLF (LF :: (seg ++ contBytes more)) = ([], seg :: more)
      rw [splitLF_cons]
      simp only [beq_self_eq_true, if_true]
      -- the part after this LF: `seg ++ contBytes more`
      have key : ∀ (sg : Str), (∀ x ∈ sg, x ≠ LF) → splitLF (sg ++ contBytes more) = (sg, more) := by
        intro sg hsg
        induction sg with
        | nil => simpa using ih'
        | cons y ys ihy =>
          have hy : (y == LF) = false := by simpa using hsg y (by simp)
          rw [List.cons_append, splitLF_cons]
          simp [hy, ihy (fun x hx => hsg x (by simp [hx]))]
      rw [key seg hseg]
  | cons y ys ih =>
    have hy : (y == LF) = false := by simpa using h0 y (by simp)
    rw [List.cons_append, splitLF_cons]
    simp [hy, ih (fun x hx => h0 x (by simp [hx]))]

/-! white-space bytes -/

theorem spaceSeqs_ws : ∀ q ∈ spaceSeqs, ∀ x ∈ q, isDigit x = false ∧ isWord x = false ∧ x ≠ AT := by
  decide
theorem spaceSeqsRev_ws : ∀ q ∈ spaceSeqsRev, ∀ x ∈ q, isDigit x = false ∧ isWord x = false ∧ x ≠ AT := by
  decide

theorem prefLen_pos (tbl : List Str) (s : Str) (k : Nat) (h : prefLen tbl s = k + 1) :
    ∃ q ∈ tbl, q <+: s ∧ q.length = k + 1 := by
  unfold prefLen at h
  cases hf : tbl.find? (fun q => q.isPrefixOf s) with
  | none => rw [hf] at h; simp at h
  | some q =>
    rw [hf] at h
    simp only at h
    have hm := List.mem_of_find?_eq_some hf
    have hp := List.find?_some hf
    exact ⟨q, hm, List.isPrefixOf_iff_prefix.mp hp, h⟩

/-- what `trimL` strips consists of bytes of table entries -/
theorem trimL_stripped (tbl : List Str) (P : UInt8 → Prop) (hP : ∀ q ∈ tbl, ∀ x ∈ q, P x) (s : Str) :
    ∃ p, s = p ++ trimL tbl s ∧ ∀ x ∈ p, P x := by
  induction s using trimL.induct tbl with
  | case1 => exact ⟨[], by simp [trimL_nil], by simp⟩
  | case2 b rest h => exact ⟨[], by rw [trimL_cons_zero tbl b rest h]; simp, by simp⟩
  | case3 b rest k h ih =>
    obtain ⟨p, hp, hpP⟩ := ih
    obtain ⟨q, hq, hpre, hlen⟩ := prefLen_pos tbl (b :: rest) k h
    have hq' : q = b :: rest.take k := by
      obtain ⟨t, ht⟩ := hpre
      cases q with
      | nil => simp at hlen
      | cons q0 qs =>
        simp only [List.cons_append, List.cons.injEq] at ht
        have hl : qs.length = k := by simpa using hlen
        rw [← ht.1]
        congr 1
        rw [← ht.2, List.take_left' hl]
    refine ⟨b :: rest.take k ++ p, ?_, ?_⟩
    · rw [trimL_cons_succ tbl b rest k h]
      have : rest = rest.take k ++ rest.drop k := (List.take_append_drop k rest).symm
      conv => lhs; rw [this, hp]
      simp [List.append_assoc]
    · intro x hx
      simp only [List.mem_append] at hx
      rcases hx with hx | hx
      · exact hP q hq x (by rw [hq']; exact hx)
      · exact hpP x hx

/-- `TrimSpace` cuts a piece of white-space bytes off each end -/
theorem trimSpace_decompose (w : Str) :
    ∃ pre suf, w = pre ++ trimSpace w ++ suf ∧ (∀ x ∈ suf, wsByte x) := by
  obtain ⟨pre, hpre, _⟩ := trimL_stripped spaceSeqs wsByte spaceSeqs_ws w
  obtain ⟨q, hq, hqP⟩ := trimL_stripped spaceSeqsRev wsByte spaceSeqsRev_ws (trimLeft w).reverse
  refine ⟨pre, q.reverse, ?_, fun x hx => hqP x (by simpa using hx)⟩
  have h2 : trimLeft w = trimSpace w ++ q.reverse := by
    have := congrArg List.reverse hq
    simp only [List.reverse_reverse, List.reverse_append] at this
    rw [this]; rfl
  have h1 : w = pre ++ trimLeft w := hpre
  rw [List.append_assoc, ← h2]; exact h1

/-! ## Part 3: an entry that is still open for continuation, and what trimming makes of it -/

/-- the own-field legality of `legalHdrMLB` without the clause on record lines -/
def relHdrB (sf : Bool) (t v p : Str) : Bool :=
  decide (t ≠ []) && t.all isWord && p.all (fun x => x != AT && x != LF && x != CR) &&
  v.all (fun x => x != CR) && trimSpace v == v &&
  ((splitLF v).2.isEmpty || !(splitLF v).1.isEmpty) &&
  (splitLF v).2.all (contOKB sf)

theorem legalHdrMLB_eq (sf : Bool) (t v p : Str) :
    legalHdrMLB sf t v p = (relHdrB sf t v p && (!isRecordTag t || v == [])) := by
  unfold legalHdrMLB relHdrB
  generalize decide (t ≠ []) = a1
  generalize t.all isWord = a2
  generalize p.all (fun x => x != AT && x != LF && x != CR) = a3
  generalize v.all (fun x => x != CR) = a4
  generalize (trimSpace v == v) = a5
  generalize (!isRecordTag t || v == []) = a6
  generalize ((splitLF v).2.isEmpty || !(splitLF v).1.isEmpty) = a7
  generalize (splitLF v).2.all (contOKB sf) = a8
  cases a1 <;> cases a2 <;> cases a3 <;> cases a4 <;> cases a5 <;> cases a6 <;> cases a7 <;> cases a8 <;> rfl

theorem contBytes_append (a b : List Str) : contBytes (a ++ b) = contBytes a ++ contBytes b := by
  induction a with
  | nil => simp [contBytes]
  | cons x xs ih => simp [contBytes, ih, List.append_assoc]

theorem mem_contBytes_cases (segs : List Str) : ∀ x ∈ contBytes segs, x = LF ∨ ∃ seg ∈ segs, x ∈ seg := by
  induction segs with
  | nil => intro x hx; simp [contBytes] at hx
  | cons s ss ih =>
    intro x hx
    simp only [contBytes, List.cons_append, List.mem_cons, List.mem_append] at hx
    rcases hx with hx | hx | hx
    · exact Or.inl hx
    · exact Or.inr ⟨s, by simp, hx⟩
    · rcases ih x hx with h | ⟨sg, hsg, hx'⟩
      · exact Or.inl h
      · exact Or.inr ⟨sg, by simp [hsg], hx'⟩

/-- an entry whose value may still grow: a first part and continuation parts, each of which the
    loop took for a continuation while `family != nil` was `sf` -/
structure OpenML (sf : Bool) (e : Entry) : Prop where
  tag_ne : e.hdr.tag ≠ []
  tag_word : ∀ x ∈ e.hdr.tag, isWord x = true
  ptr_ok : ∀ x ∈ e.hdr.ptr, x ≠ AT ∧ x ≠ LF ∧ x ≠ CR
  parts : ∃ v0 segs, e.hdr.value = v0 ++ contBytes segs ∧ (∀ x ∈ v0, x ≠ LF ∧ x ≠ CR) ∧
    ∀ seg ∈ segs, (∀ x ∈ seg, x ≠ LF ∧ x ≠ CR) ∧ contOKB sf seg = true

theorem OpenML.of_pre {e : Entry} (sf : Bool) (h : PreLegalE e) : OpenML sf e :=
  ⟨h.tag_ne, h.tag_word, h.ptr_ok, e.hdr.value, [], by simp [contBytes], h.val_ok, by simp⟩

theorem OpenML.extend {sf : Bool} {e : Entry} (h : OpenML sf e) (line : Str)
    (hl : ∀ x ∈ line, x ≠ LF ∧ x ≠ CR) (hc : contOKB sf line = true) :
    OpenML sf (e.extend (LF :: line)) := by
  obtain ⟨v0, segs, hv, h0, hs⟩ := h.parts
  refine ⟨h.tag_ne, h.tag_word, h.ptr_ok, v0, segs ++ [line], ?_, h0, ?_⟩
  · simp only [Entry.extend, hv, contBytes_append, contBytes, List.append_nil, List.append_assoc]
  · intro seg hseg
    simp only [List.mem_append, List.mem_singleton] at hseg
    rcases hseg with hseg | hseg
    · exact hs seg hseg
    · subst hseg; exact ⟨hl, hc⟩

theorem trimmed_head_ne_LF (v : Str) (h : trimSpace v = v) : ∀ c r, v = c :: r → c ≠ LF := by
  intro c r hv e
  have h1 := ((trimSpace_fixed_iff v).mp h).1
  have hst := stable_of_trimL_eq spaceSeqs v h1
  rcases hst with hst | hst
  · rw [hv] at hst; simp at hst
  · have := (prefLen_eq_zero_iff spaceSeqs v spaceSeqs_ne).mp hst [LF] (by decide)
    apply this
    rw [hv, e]; exact ⟨r, rfl⟩

/-- closing an open entry (its value is trimmed) gives a legal multi-line header, but for the
    clause on record lines -/
theorem OpenML.trim {sf : Bool} {e : Entry} (h : OpenML sf e) :
    relHdrB sf e.hdr.tag (trimSpace e.hdr.value) e.hdr.ptr = true := by
  obtain ⟨v0, segs, hv, h0, hs⟩ := h.parts
  have hsplit : splitLF e.hdr.value = (v0, segs) := by
    rw [hv]; exact splitLF_join_parts v0 segs (fun x hx => (h0 x hx).1) (fun sg hsg x hx => ((hs sg hsg).1 x hx).1)
  obtain ⟨pre, suf, hdec, hsuf⟩ := trimSpace_decompose e.hdr.value
  have hidem := trimSpace_idem e.hdr.value
  unfold relHdrB
  simp only [Bool.and_eq_true, List.all_eq_true, bne_iff_ne, ne_eq, beq_iff_eq, Bool.or_eq_true,
    decide_eq_true_eq, List.isEmpty_iff, Bool.not_eq_eq_eq_not, Bool.not_true]
  refine ⟨⟨⟨⟨⟨⟨h.tag_ne, h.tag_word⟩, ?_⟩, ?_⟩, hidem⟩, ?_⟩, ?_⟩
  · intro x hx; have := h.ptr_ok x hx; exact ⟨⟨this.1, this.2.1⟩, this.2.2⟩
  · -- no carriage return
    intro x hx
    have hx' := trimSpace_subset _ x hx
    rw [hv] at hx'
    simp only [List.mem_append] at hx'
    rcases hx' with hx' | hx'
    · exact (h0 x hx').2
    · rcases mem_contBytes_cases segs x hx' with e1 | ⟨sg, hsg, hxs⟩
      · rw [e1]; decide
      · exact ((hs sg hsg).1 x hxs).2
  · -- a trimmed value does not start with a line feed
    cases hV : trimSpace e.hdr.value with
    | nil => left; simp [splitLF]
    | cons c r =>
      right
      have hc := trimmed_head_ne_LF _ hidem c r hV
      have : (c == LF) = false := by simpa using hc
      rw [splitLF_cons]; simp [this]
  · -- the parts after each line feed are parts of the untrimmed value, the last one possibly
    -- shortened by white space
    intro b hb
    have h1 := splitLF_snd_drop_suffix (trimSpace e.hdr.value) suf b hb
    have hW : (splitLF (pre ++ (trimSpace e.hdr.value ++ suf))).2 = segs := by
      rw [← List.append_assoc, ← hdec, hsplit]
    rcases h1 with h1 | h1
    · have := splitLF_snd_drop_prefix pre _ b h1
      rw [hW] at this
      exact (hs b this).2
    · have := splitLF_snd_drop_prefix pre _ _ h1
      rw [hW] at this
      exact contOKB_prefix sf b _ (hs _ this).2 (fun x hx => hsuf x (splitLF_fst_sub suf x hx))

/-! ## Part 4: the reference pass keeps the invariant, with and without continuation -/

/-- listing-level legality (without the clause on record lines), threading `family != nil` -/
def relL (sf : Bool) : List Entry → Bool
  | [] => true
  | e :: es =>
    relHdrB (sf || e.hdr.tag == tFAM) e.hdr.tag e.hdr.value e.hdr.ptr &&
    (!isRoleTag e.hdr.tag || sf) && relL (sf || e.hdr.tag == tFAM) es

theorem relL_append (sf : Bool) (a b : List Entry) :
    relL sf (a ++ b) = (relL sf a && relL (famAfterL sf a) b) := by
  induction a generalizing sf with
  | nil => simp [relL, famAfterL]
  | cons x xs ih => simp [relL, famAfterL, ih, Bool.and_assoc]

structure ScanInvML (sc : ScanSt) : Prop where
  done_rel : relL false sc.done = true
  fam : famAfterL false sc.entries = sc.seenFam
  last_open : ∀ e, sc.last = some e →
    OpenML sc.seenFam e ∧ (!isRoleTag e.hdr.tag || famAfterL false sc.done) = true

theorem famAfterL_trim (seen : Bool) (a : List Entry) (l : Entry) :
    famAfterL seen (a ++ [l.trim]) = famAfterL seen (a ++ [l]) := by
  simp [famAfterL_append, famAfterL, Entry.trim]

theorem emit_invML (sc : ScanSt) (b : Bool) (e : Entry) (h : ScanInvML sc) (hpre : PreLegalE e)
    (hrole : (!isRoleTag e.hdr.tag || sc.seenFam) = true) (hb : b = (sc.seenFam || e.hdr.tag == tFAM)) :
    ScanInvML (ScanSt.emit { sc with seenFam := b } e) := by
  unfold ScanSt.emit
  cases hl : sc.last with
  | none =>
    simp only
    have hent : sc.entries = sc.done := by simp [ScanSt.entries, hl]
    have hfam := h.fam
    rw [hent] at hfam
    refine ⟨h.done_rel, ?_, ?_⟩
    · simp [ScanSt.entries, famAfterL_append, famAfterL, hfam, hb]
    · intro e' he'
      simp only [Option.some.injEq] at he'
      subst he'
      exact ⟨OpenML.of_pre b hpre, by rw [hfam]; exact hrole⟩
  | some l =>
    simp only
    have hent : sc.entries = sc.done ++ [l] := by simp [ScanSt.entries, hl]
    have hfam := h.fam
    rw [hent] at hfam
    obtain ⟨hopen, hlrole⟩ := h.last_open l hl
    have hsf : (famAfterL false sc.done || l.hdr.tag == tFAM) = sc.seenFam := by
      simpa [famAfterL_append, famAfterL] using hfam
    refine ⟨?_, ?_, ?_⟩
    · rw [relL_append, h.done_rel]
      simp only [Bool.true_and, relL, Bool.and_true, Entry.trim]
      rw [hsf, hopen.trim, hlrole]; rfl
    · simp only [ScanSt.entries, Option.toList_some]
      rw [famAfterL_append, famAfterL_trim, hfam]
      simp [famAfterL, hb]
    · intro e' he'
      simp only [Option.some.injEq] at he'
      subst he'
      refine ⟨OpenML.of_pre b hpre, ?_⟩
      rw [famAfterL_trim, hfam]; exact hrole

theorem extend_invML (sc : ScanSt) (l : Entry) (line : Str) (h : ScanInvML sc) (hl : sc.last = some l)
    (hline : ∀ x ∈ line, x ≠ LF ∧ x ≠ CR) (hc : contOKB sc.seenFam line = true) :
    ScanInvML { sc with last := some (l.extend (LF :: line)) } := by
  obtain ⟨hopen, hlrole⟩ := h.last_open l hl
  have hent : sc.entries = sc.done ++ [l] := by simp [ScanSt.entries, hl]
  refine ⟨h.done_rel, ?_, ?_⟩
  · have := h.fam
    rw [hent] at this
    simpa [ScanSt.entries, famAfterL_append, famAfterL, Entry.extend] using this
  · intro e he
    simp only [Option.some.injEq] at he
    subst he
    exact ⟨hopen.extend line hline hc, by simpa [Entry.extend] using hlrole⟩

theorem scanStep_invML (o : Opts) (sc sc' : ScanSt) (line : Str)
    (hl : NoBreak line) (h : ScanInvML sc) (hs : scanStep o sc line = .next sc') : ScanInvML sc' := by
  have hline : ∀ x ∈ line, x ≠ LF ∧ x ≠ CR := hl
  unfold scanStep at hs
  split at hs
  · -- blank line
    rename_i hblank
    split at hs
    · rename_i l hlast
      simp only [ScanResult.next.injEq] at hs
      subst hs
      split
      · subst hblank
        exact extend_invML sc l [] h hlast (by simp) (by simp [contOKB])
      · exact h
    · simp only [ScanResult.next.injEq] at hs; subst hs; exact h
  · rename_i hne
    have hne' : line.isEmpty = false := by simpa using hne
    split at hs
    · -- not in the line grammar
      rename_i hp
      unfold scanUnparsable at hs
      split at hs
      · rename_i l hlast
        split at hs
        · simp only [ScanResult.next.injEq] at hs
          subst hs
          exact extend_invML sc l line h hlast hline (by simp [contOKB, hne', hp])
        · simp at hs
      · simp at hs
    · rename_i pl hp
      split at hs
      · -- a role line before any family
        rename_i hrole
        unfold scanUnparsable at hs
        split at hs
        · rename_i l hlast
          split at hs
          · simp only [ScanResult.next.injEq] at hs
            subst hs
            exact extend_invML sc l line h hlast hline (by simp [contOKB, hne', hp, hrole])
          · simp at hs
        · simp at hs
      · rename_i hrole
        have hrole' : (!isRoleTag pl.tag || sc.seenFam) = true := by
          cases h1 : isRoleTag pl.tag <;> cases h2 : sc.seenFam <;> simp_all
        unfold scanPlace at hs
        have key : ∀ lvl, ScanInvML (ScanSt.emit { sc with seenFam := sc.seenFam || pl.tag == tFAM } ⟨lvl, hdrOf pl⟩) :=
          fun lvl => emit_invML sc _ ⟨lvl, hdrOf pl⟩ h (preLegal_of_parse line pl lvl hl hp)
            (by simpa [hdrOf] using hrole') (by simp [hdrOf])
        split at hs
        · simp only [ScanResult.next.injEq] at hs; subst hs; exact key 0
        · split at hs
          · split at hs <;> simp at hs
          · split at hs
            · split at hs
              · simp only [ScanResult.next.injEq] at hs; subst hs; exact key _
              · simp at hs
            · simp only [ScanResult.next.injEq] at hs; subst hs; exact key _

theorem scanRun_invML (o : Opts) (sc sc' : ScanSt) (n : Nat) (ls : List Str)
    (hl : ∀ l ∈ ls, NoBreak l) (h : ScanInvML sc) (hs : scanRun o sc n ls = .inr sc') : ScanInvML sc' := by
  induction ls generalizing sc n with
  | nil => simp only [scanRun, Sum.inr.injEq] at hs; subst hs; exact h
  | cons l ls ih =>
    rw [scanRun] at hs
    cases hstep : scanStep o sc l with
    | next s1 =>
      rw [hstep] at hs
      exact ih s1 (n + 1) (fun x hx => hl x (by simp [hx]))
        (scanStep_invML o sc s1 l (hl l (by simp)) h hstep) hs
    | error => rw [hstep] at hs; simp at hs
    | panic c => rw [hstep] at hs; simp at hs

theorem finish_relML (sc : ScanSt) (h : ScanInvML sc) : relL false sc.finish = true := by
  unfold ScanSt.finish
  cases hl : sc.last with
  | none => exact h.done_rel
  | some l =>
    simp only
    have hent : sc.entries = sc.done ++ [l] := by simp [ScanSt.entries, hl]
    have hfam := h.fam
    rw [hent] at hfam
    obtain ⟨hopen, hlrole⟩ := h.last_open l hl
    have hsf : (famAfterL false sc.done || l.hdr.tag == tFAM) = sc.seenFam := by
      simpa [famAfterL_append, famAfterL] using hfam
    rw [relL_append, h.done_rel]
    simp only [Bool.true_and, relL, Bool.and_true, Entry.trim]
    rw [hsf, hopen.trim, hlrole]; rfl

/-! ## Part 5: from the listing to the forest -/

def legalMLL (sf : Bool) : List Entry → Bool
  | [] => true
  | e :: es =>
    legalHdrMLB (sf || e.hdr.tag == tFAM) e.hdr.tag e.hdr.value e.hdr.ptr &&
    (!isRoleTag e.hdr.tag || sf) && legalMLL (sf || e.hdr.tag == tFAM) es

theorem legalMLL_append (sf : Bool) (a b : List Entry) :
    legalMLL sf (a ++ b) = (legalMLL sf a && legalMLL (famAfterL sf a) b) := by
  induction a generalizing sf with
  | nil => simp [legalMLL, famAfterL]
  | cons x xs ih => simp [legalMLL, famAfterL, ih, Bool.and_assoc]

theorem legalMLL_of_rel (sf : Bool) (es : List Entry) (h : relL sf es = true)
    (hrec : ∀ e ∈ es, isRecordTag e.hdr.tag = true → e.hdr.value = []) : legalMLL sf es = true := by
  induction es generalizing sf with
  | nil => rfl
  | cons e es ih =>
    simp only [relL, Bool.and_eq_true] at h
    obtain ⟨⟨h1, h2⟩, h3⟩ := h
    simp only [legalMLL, Bool.and_eq_true]
    refine ⟨⟨?_, h2⟩, ih _ h3 (fun x hx => hrec x (by simp [hx]))⟩
    rw [legalHdrMLB_eq, h1]
    by_cases hr : isRecordTag e.hdr.tag = true
    · simp [hrec e (by simp) hr]
    · simp [hr]

mutual
theorem legalMLT_listing (sf : Bool) (lvl : Nat) (t : Node) :
    legalMLT sf t = legalMLL sf (listingT lvl t) := by
  match t with
  | .mk tg v p ks =>
    have := legalMLF_listing (sf || tg == tFAM) (lvl + 1) ks
    simp [legalMLT, listingT, legalMLL, this]
theorem legalMLF_listing (sf : Bool) (lvl : Nat) (f : List Node) :
    legalMLF sf f = legalMLL sf (listingF lvl f) := by
  match f with
  | [] => simp [legalMLF, listingF, legalMLL]
  | t :: ts =>
    have h1 := legalMLT_listing sf lvl t
    have h2 := legalMLF_listing (famAfterT sf t) lvl ts
    rw [(roles_listingT sf lvl t).2] at h2
    simp [legalMLF, listingF, legalMLL_append, h1, h2, (roles_listingT sf lvl t).2]
end

end Gedcom.Dec
