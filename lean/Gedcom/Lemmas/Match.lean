/- Helper lemmas for C11 (matching individuals): stable sort, greedy selection, counting. -/
import Gedcom.Model.Match
namespace Gedcom.Match
open Gedcom

/-! ### stable insertion sort -/

theorem insertDesc_perm (c : Job) (l : List Job) : (insertDesc c l).Perm (c :: l) := by
  induction l with
  | nil => exact List.Perm.refl _
  | cons d ds ih =>
    simp only [insertDesc]
    split
    · exact (List.Perm.cons d ih).trans (List.Perm.swap c d ds)
    · exact List.Perm.refl _

theorem sortDesc_perm (l : List Job) : (sortDesc l).Perm l := by
  induction l with
  | nil => exact List.Perm.refl _
  | cons c cs ih => exact (insertDesc_perm c (sortDesc cs)).trans (List.Perm.cons c ih)

theorem mem_sortDesc {j : Job} {l : List Job} : j ∈ sortDesc l ↔ j ∈ l := (sortDesc_perm l).mem_iff

/-- descending by score -/
def Desc (a b : Job) : Prop := b.score ≤ a.score

theorem insertDesc_sorted (c : Job) (l : List Job) (h : l.Pairwise Desc) :
    (insertDesc c l).Pairwise Desc := by
  induction l with
  | nil => simp [insertDesc]
  | cons d ds ih =>
    simp only [insertDesc]
    split
    · rename_i hlt
      rw [List.pairwise_cons] at h ⊢
      refine ⟨?_, ih h.2⟩
      intro x hx
      have hx' := (insertDesc_perm c ds).mem_iff.mp hx
      rw [List.mem_cons] at hx'
      rcases hx' with e | hx'
      · rw [e]; exact Rat.le_of_lt hlt
      · exact h.1 x hx'
    · rename_i hlt
      have hcd : d.score ≤ c.score := Rat.not_lt.mp hlt
      rw [List.pairwise_cons]
      refine ⟨?_, h⟩
      intro x hx
      rw [List.mem_cons] at hx
      rcases hx with e | hx
      · rw [e]; exact hcd
      · exact Rat.le_trans ((List.pairwise_cons.mp h).1 x hx) hcd

theorem sortDesc_sorted (l : List Job) : (sortDesc l).Pairwise Desc := by
  induction l with
  | nil => simp [sortDesc]
  | cons c cs ih => exact insertDesc_sorted c _ ih

theorem eq_of_score_eq {l : List Job} (h : (l.map (·.score)).Nodup) {a b : Job}
    (ha : a ∈ l) (hb : b ∈ l) (e : a.score = b.score) : a = b := by
  induction l with
  | nil => cases ha
  | cons c cs ih =>
    simp only [List.map_cons, List.nodup_cons] at h
    rcases List.mem_cons.mp ha with rfl | ha' <;> rcases List.mem_cons.mp hb with rfl | hb'
    · rfl
    · exact absurd (List.mem_map.mpr ⟨b, hb', e.symm⟩) h.1
    · exact absurd (List.mem_map.mpr ⟨a, ha', e⟩) h.1
    · exact ih h.2 ha' hb'

/-- without score ties the sorted order does not depend on the order of arrival -/
theorem sortDesc_eq_of_perm {l₁ l₂ : List Job} (hp : l₁.Perm l₂) (hn : (l₁.map (·.score)).Nodup) :
    sortDesc l₁ = sortDesc l₂ := by
  apply List.Perm.eq_of_pairwise (le := Desc) _ (sortDesc_sorted l₁) (sortDesc_sorted l₂)
    ((sortDesc_perm l₁).trans (hp.trans (sortDesc_perm l₂).symm))
  intro a b ha hb h1 h2
  have ha' : a ∈ l₁ := mem_sortDesc.mp ha
  have hb' : b ∈ l₁ := hp.mem_iff.mpr (mem_sortDesc.mp hb)
  exact eq_of_score_eq hn ha' hb' (Rat.le_antisymm h2 h1)

/-! ### the greedy loop -/

theorem mem_foundOf {x : Nat} {js : List Job} :
    x ∈ foundOf js ↔ x ∈ js.map (·.l) ∨ x ∈ js.map (·.r) := by
  induction js with
  | nil => simp [foundOf]
  | cons j js ih =>
    simp only [foundOf, List.mem_cons, List.map_cons, ih]
    constructor
    · rintro (h | h | h | h)
      · exact Or.inl (Or.inl h)
      · exact Or.inr (Or.inl h)
      · exact Or.inl (Or.inr h)
      · exact Or.inr (Or.inr h)
    · rintro ((h | h) | (h | h))
      · exact Or.inl h
      · exact Or.inr (Or.inr (Or.inl h))
      · exact Or.inr (Or.inl h)
      · exact Or.inr (Or.inr (Or.inr h))

theorem greedy_mem {minW : Rat} {js : List Job} {f : List Nat} {j : Job}
    (h : j ∈ greedy minW js f) : j ∈ js ∧ minW ≤ j.score ∧ j.l ∉ f ∧ j.r ∉ f := by
  induction js generalizing f with
  | nil => simp [greedy] at h
  | cons d ds ih =>
    simp only [greedy] at h
    split at h
    · cases h
    · rename_i hs
      split at h
      · have := ih h
        exact ⟨List.mem_cons_of_mem _ this.1, this.2⟩
      · rename_i hf
        simp only [Bool.or_eq_true, List.contains_iff_mem, not_or] at hf
        rcases List.mem_cons.mp h with e | h'
        · rw [e]
          exact ⟨by simp, Rat.not_lt.mp hs, hf.1, hf.2⟩
        · have := ih h'
          refine ⟨List.mem_cons_of_mem _ this.1, this.2.1, ?_, ?_⟩
          · intro hm; exact this.2.2.1 (by simp [hm])
          · intro hm; exact this.2.2.2 (by simp [hm])

/-- an accepted job takes a left and a right individual that no earlier accepted job took -/
theorem greedy_nodup (minW : Rat) (js : List Job) (f : List Nat) :
    ((greedy minW js f).map (·.l)).Nodup ∧ ((greedy minW js f).map (·.r)).Nodup := by
  induction js generalizing f with
  | nil => simp [greedy]
  | cons d ds ih =>
    simp only [greedy]
    split
    · simp
    · split
      · exact ih f
      · have h := ih (d.l :: d.r :: f)
        simp only [List.map_cons, List.nodup_cons]
        refine ⟨⟨?_, h.1⟩, ⟨?_, h.2⟩⟩
        · intro hm
          obtain ⟨w, hw, e⟩ := List.mem_map.mp hm
          have := (greedy_mem hw).2.2.1
          apply this; simp [e]
        · intro hm
          obtain ⟨w, hw, e⟩ := List.mem_map.mp hm
          have := (greedy_mem hw).2.2.2
          apply this; simp [e]

/-- the loop looks at the `found` map only through membership -/
theorem greedy_congr (minW : Rat) (js : List Job) {f f' : List Nat} (h : ∀ x, x ∈ f ↔ x ∈ f') :
    greedy minW js f = greedy minW js f' := by
  induction js generalizing f f' with
  | nil => rfl
  | cons d ds ih =>
    simp only [greedy]
    have e1 : f.contains d.l = f'.contains d.l := by
      rw [Bool.eq_iff_iff]; simp [h]
    have e2 : f.contains d.r = f'.contains d.r := by
      rw [Bool.eq_iff_iff]; simp [h]
    rw [e1, e2, ih h]
    rw [ih (f := d.l :: d.r :: f) (f' := d.l :: d.r :: f') (by intro x; simp [h])]

/-- at or above the threshold -/
def above (minW : Rat) (j : Job) : Bool := !decide (j.score < minW)

/-- the loop never looks past the first result below the threshold -/
theorem greedy_takeWhile (minW : Rat) (js : List Job) (f : List Nat) :
    greedy minW js f = greedy minW (js.takeWhile (above minW)) f := by
  induction js generalizing f with
  | nil => rfl
  | cons d ds ih =>
    by_cases h : d.score < minW
    · simp [greedy, List.takeWhile, above, h]
    · simp only [greedy, List.takeWhile, above, h, decide_false, Bool.not_false, if_false]
      split
      · exact ih f
      · rw [ih]

theorem takeWhile_eq_filter_of_sorted (minW : Rat) (l : List Job) (h : l.Pairwise Desc) :
    l.takeWhile (above minW) = l.filter (above minW) := by
  induction l with
  | nil => rfl
  | cons d ds ih =>
    rw [List.pairwise_cons] at h
    by_cases hd : above minW d = true
    · simp only [List.takeWhile, List.filter, hd]
      rw [ih h.2]
    · simp only [List.takeWhile, List.filter, hd]
      symm
      rw [List.filter_eq_nil_iff]
      intro x hx
      have hle : x.score ≤ d.score := h.1 x hx
      have hdlt : d.score < minW := by
        simp only [above, Bool.not_eq_true', decide_eq_false_iff_not, Decidable.not_not] at hd
        simpa using hd
      simp only [above, Bool.not_eq_true', decide_eq_false_iff_not, Decidable.not_not]
      grind

theorem filter_insertDesc (p : Job → Bool) (c : Job) (l : List Job) (hs : l.Pairwise Desc) :
    (insertDesc c l).filter p = if p c then insertDesc c (l.filter p) else l.filter p := by
  induction l with
  | nil => by_cases hc : p c <;> simp [insertDesc, List.filter, hc]
  | cons d ds ih =>
    rw [List.pairwise_cons] at hs
    simp only [insertDesc]
    by_cases hlt : c.score < d.score
    · simp only [hlt, if_true]
      by_cases hd : p d
      · simp only [List.filter, hd, ih hs.2]
        by_cases hc : p c
        · simp [hc, insertDesc, hlt]
        · simp [hc]
      · simp only [List.filter, hd, ih hs.2]
    · simp only [hlt, if_false]
      by_cases hc : p c
      · by_cases hd : p d
        · simp [List.filter, hc, hd, insertDesc, hlt]
        · simp only [List.filter, hc, hd, if_true]
          -- c goes in front of the filtered tail: its head is not above d, hence not above c
          cases hf : List.filter p ds with
          | nil => simp [insertDesc]
          | cons x xs =>
            have hx : x ∈ ds := (List.mem_filter.mp (by rw [hf]; simp)).1
            have h1 : x.score ≤ d.score := hs.1 x hx
            have h2 : ¬ c.score < x.score := by
              have := Rat.not_lt.mp hlt
              intro h3; grind
            simp [insertDesc, h2]
      · simp [List.filter, hc]

theorem filter_sortDesc (p : Job → Bool) (l : List Job) :
    (sortDesc l).filter p = sortDesc (l.filter p) := by
  induction l with
  | nil => rfl
  | cons c cs ih =>
    simp only [sortDesc]
    rw [filter_insertDesc p c _ (sortDesc_sorted cs), ih]
    by_cases hc : p c <;> simp [List.filter, hc, sortDesc]

/-- the winner loop sees only the results at or above the threshold, sorted -/
theorem greedy_sorted_above (minW : Rat) (l : List Job) (f : List Nat) :
    greedy minW (sortDesc l) f = greedy minW (sortDesc (l.filter (above minW))) f := by
  rw [greedy_takeWhile, takeWhile_eq_filter_of_sorted minW _ (sortDesc_sorted l), filter_sortDesc]

/-! ### the result of `calculateWinners` -/

/-- the paired part of the result: certain matches (arrival order), then the greedy winners -/
def pairsOf (minW : Rat) (arr : List Job) : List Job :=
  arr.filter (·.certain) ++
    greedy minW (sortDesc (arr.filter (!·.certain))) (foundOf (arr.filter (·.certain)))

theorem winners_eq (L R : List Person) (minW : Rat) (arr : List Job) :
    winners L R minW arr =
      (pairsOf minW arr).map pairOf ++
      ((L.filter fun p => !(foundOf (pairsOf minW arr)).contains p.id).map fun p => (some p.id, none)) ++
      ((R.filter fun p => !(foundOf (pairsOf minW arr)).contains p.id).map fun p => (none, some p.id)) := by
  simp [winners, pairsOf, List.map_append]

theorem pairsOf_mem {minW : Rat} {arr : List Job} {j : Job} (h : j ∈ pairsOf minW arr) :
    j ∈ arr ∧ (j.certain = true ∨ minW ≤ j.score) := by
  simp only [pairsOf, List.mem_append] at h
  rcases h with h | h
  · have := List.mem_filter.mp h
    exact ⟨this.1, Or.inl this.2⟩
  · have := greedy_mem h
    exact ⟨(List.mem_filter.mp (mem_sortDesc.mp this.1)).1, Or.inr this.2.1⟩

theorem pairsOf_nodup {L R : List Person} {minW : Rat} {arr : List Job} (hok : JobsOK L R arr) :
    ((pairsOf minW arr).map (·.l)).Nodup ∧ ((pairsOf minW arr).map (·.r)).Nodup := by
  obtain ⟨_, hl, hr⟩ := hok
  have hg := greedy_nodup minW (sortDesc (arr.filter (!·.certain))) (foundOf (arr.filter (·.certain)))
  simp only [pairsOf, List.map_append, List.nodup_append]
  refine ⟨⟨hl, hg.1, ?_⟩, ⟨hr, hg.2, ?_⟩⟩
  · intro a ha b hb e
    obtain ⟨w, hw, ew⟩ := List.mem_map.mp hb
    have := (greedy_mem hw).2.2.1
    apply this
    rw [mem_foundOf]; left; rw [ew, ← e]; exact ha
  · intro a ha b hb e
    obtain ⟨w, hw, ew⟩ := List.mem_map.mp hb
    have := (greedy_mem hw).2.2.2
    apply this
    rw [mem_foundOf]; right; rw [ew, ← e]; exact ha

/-- number of results whose left (right) side is the node `x` -/
def leftCount (x : Nat) (rs : List Res) : Nat := rs.countP (fun r => r.1 == some x)
def rightCount (x : Nat) (rs : List Res) : Nat := rs.countP (fun r => r.2 == some x)

theorem count_ids {α : Type} (f : α → Nat) (l : List α) (x : Nat) :
    l.countP (fun a => f a == x) = (l.map f).count x := by
  induction l with
  | nil => rfl
  | cons a as ih => simp [List.countP_cons, List.count_cons, ih]

theorem leftCount_winners (L R : List Person) (minW : Rat) (arr : List Job) (x : Nat) :
    leftCount x (winners L R minW arr) =
      ((pairsOf minW arr).map (·.l)).count x +
      ((L.filter fun p => !(foundOf (pairsOf minW arr)).contains p.id).map (·.id)).count x := by
  rw [winners_eq]
  simp only [leftCount, List.countP_append, List.countP_map]
  rw [← count_ids, ← count_ids]
  have e3 : List.countP ((fun r : Res => r.1 == some x) ∘ fun p : Person => ((none : Option Nat), some p.id))
      (R.filter fun p => !(foundOf (pairsOf minW arr)).contains p.id) = 0 := by
    rw [List.countP_eq_zero]; intro p _; simp
  rw [e3, Nat.add_zero]
  congr 1

theorem rightCount_winners (L R : List Person) (minW : Rat) (arr : List Job) (x : Nat) :
    rightCount x (winners L R minW arr) =
      ((pairsOf minW arr).map (·.r)).count x +
      ((R.filter fun p => !(foundOf (pairsOf minW arr)).contains p.id).map (·.id)).count x := by
  rw [winners_eq]
  simp only [rightCount, List.countP_append, List.countP_map]
  rw [← count_ids, ← count_ids]
  have e3 : List.countP ((fun r : Res => r.2 == some x) ∘ fun p : Person => (some p.id, (none : Option Nat)))
      (L.filter fun p => !(foundOf (pairsOf minW arr)).contains p.id) = 0 := by
    rw [List.countP_eq_zero]; intro p _; simp
  rw [e3, Nat.add_zero]
  congr 1

theorem ids_disjoint {L R : List Person} (h : IdsOK L R) {x : Nat}
    (hl : x ∈ L.map (·.id)) (hr : x ∈ R.map (·.id)) : False := by
  unfold IdsOK at h
  rw [List.nodup_append] at h
  exact h.2.2 x hl x hr rfl

theorem left_once' (L R : List Person) (minW : Rat) (arr : List Job) (hids : IdsOK L R)
    (hok : JobsOK L R arr) (x : Nat) (hx : x ∈ L.map (·.id)) :
    leftCount x (winners L R minW arr) = 1 := by
  rw [leftCount_winners]
  have hP := pairsOf_nodup (minW := minW) hok
  have hLn : (L.map (·.id)).Nodup := by
    unfold IdsOK at hids; rw [List.nodup_append] at hids; exact hids.1
  have hFn : ((L.filter fun p => !(foundOf (pairsOf minW arr)).contains p.id).map (·.id)).Nodup :=
    List.Nodup.sublist (List.Sublist.map _ List.filter_sublist) hLn
  rw [List.Nodup.count hP.1, List.Nodup.count hFn]
  by_cases hm : x ∈ (pairsOf minW arr).map (·.l)
  · have hnot : x ∉ (L.filter fun p => !(foundOf (pairsOf minW arr)).contains p.id).map (·.id) := by
      intro h
      obtain ⟨p, hp, e⟩ := List.mem_map.mp h
      have := (List.mem_filter.mp hp).2
      simp only [Bool.not_eq_true', List.contains_eq_mem, decide_eq_false_iff_not] at this
      apply this
      rw [mem_foundOf, e]; exact Or.inl hm
    rw [if_pos hm, if_neg hnot]
  · have hr : x ∉ (pairsOf minW arr).map (·.r) := by
      intro h
      obtain ⟨j, hj, e⟩ := List.mem_map.mp h
      have := (hok.1 j (pairsOf_mem hj).1).2
      rw [e] at this
      exact ids_disjoint hids hx this
    have hin : x ∈ (L.filter fun p => !(foundOf (pairsOf minW arr)).contains p.id).map (·.id) := by
      obtain ⟨p, hp, e⟩ := List.mem_map.mp hx
      refine List.mem_map.mpr ⟨p, List.mem_filter.mpr ⟨hp, ?_⟩, e⟩
      simp only [Bool.not_eq_true', List.contains_eq_mem, decide_eq_false_iff_not]
      rw [mem_foundOf, e]
      intro h; rcases h with h | h
      · exact hm h
      · exact hr h
    rw [if_neg hm, if_pos hin]

theorem right_once' (L R : List Person) (minW : Rat) (arr : List Job) (hids : IdsOK L R)
    (hok : JobsOK L R arr) (x : Nat) (hx : x ∈ R.map (·.id)) :
    rightCount x (winners L R minW arr) = 1 := by
  rw [rightCount_winners]
  have hP := pairsOf_nodup (minW := minW) hok
  have hRn : (R.map (·.id)).Nodup := by
    unfold IdsOK at hids; rw [List.nodup_append] at hids; exact hids.2.1
  have hFn : ((R.filter fun p => !(foundOf (pairsOf minW arr)).contains p.id).map (·.id)).Nodup :=
    List.Nodup.sublist (List.Sublist.map _ List.filter_sublist) hRn
  rw [List.Nodup.count hP.2, List.Nodup.count hFn]
  by_cases hm : x ∈ (pairsOf minW arr).map (·.r)
  · have hnot : x ∉ (R.filter fun p => !(foundOf (pairsOf minW arr)).contains p.id).map (·.id) := by
      intro h
      obtain ⟨p, hp, e⟩ := List.mem_map.mp h
      have := (List.mem_filter.mp hp).2
      simp only [Bool.not_eq_true', List.contains_eq_mem, decide_eq_false_iff_not] at this
      apply this
      rw [mem_foundOf, e]; exact Or.inr hm
    rw [if_pos hm, if_neg hnot]
  · have hl : x ∉ (pairsOf minW arr).map (·.l) := by
      intro h
      obtain ⟨j, hj, e⟩ := List.mem_map.mp h
      have := (hok.1 j (pairsOf_mem hj).1).1
      rw [e] at this
      exact ids_disjoint hids this hx
    have hin : x ∈ (R.filter fun p => !(foundOf (pairsOf minW arr)).contains p.id).map (·.id) := by
      obtain ⟨p, hp, e⟩ := List.mem_map.mp hx
      refine List.mem_map.mpr ⟨p, List.mem_filter.mpr ⟨hp, ?_⟩, e⟩
      simp only [Bool.not_eq_true', List.contains_eq_mem, decide_eq_false_iff_not]
      rw [mem_foundOf, e]
      intro h; rcases h with h | h
      · exact hl h
      · exact hm h
    rw [if_neg hm, if_pos hin]

/-- `JobsOK` does not depend on the order of the jobs -/
theorem jobsOK_perm {L R : List Person} {js arr : List Job} (hp : arr.Perm js) (h : JobsOK L R js) :
    JobsOK L R arr := by
  obtain ⟨h1, h2, h3⟩ := h
  refine ⟨fun j hj => h1 j (hp.mem_iff.mp hj), ?_, ?_⟩
  · exact (((hp.filter _).map _).nodup_iff).mpr h2
  · exact (((hp.filter _).map _).nodup_iff).mpr h3

theorem winners_cases {L R : List Person} {minW : Rat} {arr : List Job} {r : Res}
    (h : r ∈ winners L R minW arr) :
    (∃ j ∈ arr, r = (some j.l, some j.r) ∧ (j.certain = true ∨ minW ≤ j.score)) ∨
    (∃ p ∈ L, r = (some p.id, none)) ∨ (∃ p ∈ R, r = (none, some p.id)) := by
  rw [winners_eq] at h
  simp only [List.mem_append, List.mem_map] at h
  rcases h with (⟨j, hj, e⟩ | ⟨p, hp, e⟩) | ⟨p, hp, e⟩
  · have := pairsOf_mem hj
    exact Or.inl ⟨j, this.1, e.symm, this.2⟩
  · exact Or.inr (Or.inl ⟨p, (List.mem_filter.mp hp).1, e.symm⟩)
  · exact Or.inr (Or.inr ⟨p, (List.mem_filter.mp hp).1, e.symm⟩)

/-- without score ties the result does not depend on the order of arrival (up to the order in
    which the certain matches are listed) -/
theorem winners_perm (L R : List Person) (minW : Rat) {js arr : List Job} (hp : arr.Perm js)
    (hn : NoScoreTies minW js) : (winners L R minW arr).Perm (winners L R minW js) := by
  have hc : (arr.filter (·.certain)).Perm (js.filter (·.certain)) := hp.filter _
  have hu : (arr.filter (!·.certain)).Perm (js.filter (!·.certain)) := hp.filter _
  have hel : ∀ l : List Job, (l.filter (!·.certain)).filter (above minW) = l.filter (eligible minW) := by
    intro l
    rw [List.filter_filter]
    apply List.filter_congr
    intro j _
    simp [eligible, above, Bool.and_comm]
  have hua : ((arr.filter (!·.certain)).filter (above minW)).Perm ((js.filter (!·.certain)).filter (above minW)) :=
    hu.filter _
  have hs : sortDesc ((arr.filter (!·.certain)).filter (above minW)) =
      sortDesc ((js.filter (!·.certain)).filter (above minW)) := by
    apply sortDesc_eq_of_perm hua
    apply ((hua.map _).nodup_iff).mpr
    rw [hel js]
    exact hn
  have hf : ∀ x, x ∈ foundOf (arr.filter (·.certain)) ↔ x ∈ foundOf (js.filter (·.certain)) := by
    intro x
    rw [mem_foundOf, mem_foundOf, (hc.map _).mem_iff, (hc.map _).mem_iff]
  have hg : greedy minW (sortDesc (arr.filter (!·.certain))) (foundOf (arr.filter (·.certain))) =
      greedy minW (sortDesc (js.filter (!·.certain))) (foundOf (js.filter (·.certain))) := by
    rw [greedy_sorted_above, greedy_sorted_above minW (js.filter (!·.certain)), hs]
    exact greedy_congr minW _ hf
  have hP : (pairsOf minW arr).Perm (pairsOf minW js) := by
    unfold pairsOf; rw [hg]; exact List.Perm.append_right _ hc
  have hfound : ∀ x, x ∈ foundOf (pairsOf minW arr) ↔ x ∈ foundOf (pairsOf minW js) := by
    intro x
    rw [mem_foundOf, mem_foundOf, (hP.map _).mem_iff, (hP.map _).mem_iff]
  rw [winners_eq, winners_eq]
  have eL : (L.filter fun p => !(foundOf (pairsOf minW arr)).contains p.id) =
      (L.filter fun p => !(foundOf (pairsOf minW js)).contains p.id) := by
    apply List.filter_congr; intro p _
    have := hfound p.id
    rw [Bool.eq_iff_iff]; simp [this]
  have eR : (R.filter fun p => !(foundOf (pairsOf minW arr)).contains p.id) =
      (R.filter fun p => !(foundOf (pairsOf minW js)).contains p.id) := by
    apply List.filter_congr; intro p _
    have := hfound p.id
    rw [Bool.eq_iff_iff]; simp [this]
  rw [eL, eR]
  exact List.Perm.append_right _ (List.Perm.append_right _ (hP.map _))

/-! ### what the jobs are -/

def SharesUid (a b : Person) : Prop := ∃ u ∈ a.uids, u ∈ b.uids

/-- a job is between a left and a right individual; a certain job shares a unique identifier or
    has the same pointer and a forced score at least `prefer`; an uncertain job carries the
    pair's score -/
def Justified (L R : List Person) (scoreT scoreF : Nat → Nat → Rat) (prefer : Rat) (j : Job) : Prop :=
  ∃ a ∈ L, ∃ b ∈ R, j.l = a.id ∧ j.r = b.id ∧
    ((j.certain = true ∧ (SharesUid a b ∨ (a.ptr = b.ptr ∧ prefer ≤ scoreT a.id b.id))) ∨
     (j.certain = false ∧ j.score = scoreF a.id b.id))

theorem cand_spec {R : List Person} {a b : Person} (hm : b ∈ uniqueCands R a) :
    b ∈ R ∧ SharesUid a b := by
  unfold uniqueCands at hm
  obtain ⟨u, hu, hf⟩ := List.mem_filterMap.mp hm
  have h1 := List.mem_of_find?_eq_some hf
  have h2 := List.find?_some hf
  exact ⟨h1, u, hu, by simpa using h2⟩

/-- what the proofs need of a resolution of the choices -/
def ChoiceOK (R : List Person) (ch : Person → Option Person) : Prop :=
  ∀ a b, ch a = some b → b ∈ R ∧ SharesUid a b

theorem Admissible.choiceOK {R : List Person} {ch : Person → Option Person} (h : Admissible R ch) :
    ChoiceOK R ch := by
  intro a b hab
  have := h a
  rw [hab] at this
  exact cand_spec this

theorem uniqueTarget_admissible (R : List Person) : Admissible R (uniqueTarget R) := by
  intro a
  unfold uniqueTarget
  cases h : uniqueCands R a with
  | nil => simp
  | cons b bs => simp

theorem uniqueJobs_justified (L R : List Person) (scoreT scoreF : Nat → Nat → Rat) (prefer : Rat)
    (ch : Person → Option Person) (hch : ChoiceOK R ch)
    (as : List Person) (s : Sent) (hsub : ∀ a ∈ as, a ∈ L) :
    ∀ j ∈ (uniqueJobs ch as s).1, Justified L R scoreT scoreF prefer j := by
  induction as generalizing s with
  | nil => simp [uniqueJobs]
  | cons a as ih =>
    have hsub' : ∀ x ∈ as, x ∈ L := fun x hx => hsub x (by simp [hx])
    simp only [uniqueJobs]
    split
    · exact ih s hsub'
    · rename_i b hb
      split
      · exact ih s hsub'
      · intro j hj
        simp only [List.mem_cons] at hj
        rcases hj with e | hj
        · have := hch a b hb
          exact ⟨a, hsub a (by simp), b, this.1, by simp [e], by simp [e], Or.inl ⟨by simp [e], Or.inl this.2⟩⟩
        · exact ih _ hsub' j hj

theorem pointerJobs_justified (L R : List Person) (scoreT scoreF : Nat → Nat → Rat) (prefer : Rat)
    (as : List Person) (s : Sent) (hsub : ∀ a ∈ as, a ∈ L) :
    ∀ j ∈ (pointerJobs R scoreT prefer as s).1, Justified L R scoreT scoreF prefer j := by
  induction as generalizing s with
  | nil => simp [pointerJobs]
  | cons a as ih =>
    have hsub' : ∀ x ∈ as, x ∈ L := fun x hx => hsub x (by simp [hx])
    simp only [pointerJobs]
    split
    · exact ih s hsub'
    · split
      · exact ih s hsub'
      · rename_i b hb
        split
        · exact ih s hsub'
        · split
          · rename_i hpre
            intro j hj
            simp only [List.mem_cons] at hj
            rcases hj with e | hj
            · have h1 := List.mem_of_find?_eq_some hb
              have h2 := List.find?_some hb
              refine ⟨a, hsub a (by simp), b, h1, by simp [e], by simp [e], Or.inl ⟨by simp [e], Or.inr ⟨?_, hpre⟩⟩⟩
              exact (by simpa using h2 : b.ptr = a.ptr).symm
            · exact ih _ hsub' j hj
          · exact ih s hsub'

theorem matrixJobs_justified (L R : List Person) (scoreT scoreF : Nat → Nat → Rat) (prefer : Rat)
    (s : Sent) : ∀ j ∈ matrixJobs L R s scoreF, Justified L R scoreT scoreF prefer j := by
  intro j hj
  simp only [matrixJobs, List.mem_flatMap, List.mem_map, List.mem_filter] at hj
  obtain ⟨a, ⟨ha, _⟩, b, ⟨hb, _⟩, e⟩ := hj
  exact ⟨a, ha, b, hb, by simp [← e], by simp [← e], Or.inr ⟨by simp [← e], by simp [← e]⟩⟩

theorem jobsFrom_justified (L R : List Person) (scoreT scoreF : Nat → Nat → Rat) (prefer : Rat)
    (ch : Person → Option Person) (hch : ChoiceOK R ch) (s0 : Sent) :
    ∀ j ∈ jobsFrom ch s0 L R scoreT scoreF prefer, Justified L R scoreT scoreF prefer j := by
  intro j hj
  unfold jobsFrom at hj
  split at hj
  · cases hj
  · simp only [List.mem_append] at hj
    rcases hj with (hj | hj) | hj
    · exact uniqueJobs_justified L R scoreT scoreF prefer ch hch L _ (fun a ha => ha) j hj
    · exact pointerJobs_justified L R scoreT scoreF prefer L _ (fun a ha => ha) j hj
    · exact matrixJobs_justified L R scoreT scoreF prefer _ j hj

theorem jobs_justified' (L R : List Person) (scoreT scoreF : Nat → Nat → Rat) (prefer : Rat) :
    ∀ j ∈ jobs L R scoreT scoreF prefer, Justified L R scoreT scoreF prefer j :=
  jobsFrom_justified L R scoreT scoreF prefer _ (uniqueTarget_admissible R).choiceOK _

end Gedcom.Match
