/-
  C13 — lemmas for the operations and views added to the alphabet in round 4:
  `DeleteNodesWithTag` (its result is "every child with the tag gone, the others in order", and the
  single op is the loop of `DeleteNode`s of the source), the event views.
-/
import Gedcom.Lemmas.CacheMono
namespace Gedcom.Cache
open Gedcom

/-! ## `eraseLoopCopy` is a filter -/

theorem foldl_erase_cons_ne (k : Id) : ∀ (xs rest : List Id), (∀ x ∈ xs, x ≠ k) →
    xs.foldl List.erase (k :: rest) = k :: xs.foldl List.erase rest
  | [], _, _ => rfl
  | x :: xs, rest, h => by
    have hx : x ≠ k := h x (List.mem_cons_self ..)
    have hk : (k == x) = false := by
      cases e : k == x with
      | false => rfl
      | true => exact absurd (eq_of_beq e).symm hx
    simp only [List.foldl_cons, List.erase_cons, hk]
    exact foldl_erase_cons_ne k xs _ (fun y hy => h y (List.mem_cons_of_mem _ hy))

/-- the copy loop of `DeleteNodesWithTag` removes exactly the children that satisfy the test and
    keeps the others in their order (also when a node occurs twice) -/
theorem eraseLoopCopy_eq_filter (p : Id → Bool) : ∀ ks : List Id,
    eraseLoopCopy p ks = ks.filter (fun c => !p c)
  | [] => rfl
  | k :: rest => by
    unfold eraseLoopCopy
    cases hp : p k with
    | true =>
      have ih := eraseLoopCopy_eq_filter p rest
      unfold eraseLoopCopy at ih
      simp [List.filter_cons, hp, List.foldl_cons, List.erase_cons, ih]
    | false =>
      have ih := eraseLoopCopy_eq_filter p rest
      unfold eraseLoopCopy at ih
      have hne : ∀ x ∈ rest.filter p, x ≠ k := by
        intro x hx e
        subst e
        have := (List.mem_filter.mp hx).2
        rw [hp] at this
        exact absurd this (by decide)
      simp only [List.filter_cons, hp, Bool.not_false, if_true, Bool.false_eq_true, if_false]
      rw [foldl_erase_cons_ne k _ _ hne, ih]

variable {b1 b2 b3 : Bool}

/-- **What `DeleteNodesWithTag(n, t)` does to the document**: the children of `n` that carry the
    tag are gone, the others stay in order; no other node, no tag, value or pointer and not the
    record list changes. -/
theorem deleteKidsWithTag_abs (s : St) {n : Nat} (hn : n < s.heap.length) (t : Str) :
    (abs (deleteKidsWithTag (Flags.goodWith b1 b2 b3) n t s)).kids n =
      ((abs s).kids n).filter (fun c => !((abs s).tag c == t)) ∧
    (∀ m, m ≠ n → (abs (deleteKidsWithTag (Flags.goodWith b1 b2 b3) n t s)).kids m = (abs s).kids m) ∧
    (∀ m, (abs (deleteKidsWithTag (Flags.goodWith b1 b2 b3) n t s)).tag m = (abs s).tag m) ∧
    (∀ m, (abs (deleteKidsWithTag (Flags.goodWith b1 b2 b3) n t s)).value m = (abs s).value m) ∧
    (∀ m, (abs (deleteKidsWithTag (Flags.goodWith b1 b2 b3) n t s)).ptr m = (abs s).ptr m) ∧
    (abs (deleteKidsWithTag (Flags.goodWith b1 b2 b3) n t s)).roots = (abs s).roots ∧
    (abs (deleteKidsWithTag (Flags.goodWith b1 b2 b3) n t s)).heap.length = (abs s).heap.length := by
  by_cases hany : (((abs s).kids n).any fun c => (abs s).tag c == t) = true
  · have e : deleteKidsWithTag (Flags.goodWith b1 b2 b3) n t s = afterKidsEdit true true n
        { s with heap := setKids s.heap n (eraseLoopCopy (fun c => (abs s).tag c == t) ((abs s).kids n)) } := by
      unfold deleteKidsWithTag
      rw [if_pos hany]
      rfl
    rw [e, abs_afterKidsEdit]
    refine ⟨?_, fun m hm => kids_setKids_ne _ _ _ _ _ _ hm, fun m => tag_setKids _ _ _ _ _ _,
      fun m => value_setKids _ _ _ _ _ _, fun m => ptr_setKids _ _ _ _ _ _, rfl, setKids_length _ _ _⟩
    rw [← eraseLoopCopy_eq_filter]
    exact kids_setKids_self _ _ _ _ hn
  · have e : deleteKidsWithTag (Flags.goodWith b1 b2 b3) n t s = s := by
      unfold deleteKidsWithTag
      rw [if_neg hany]
    rw [e]
    refine ⟨?_, fun _ _ => rfl, fun _ => rfl, fun _ => rfl, fun _ => rfl, rfl, rfl⟩
    symm
    apply List.filter_eq_self.mpr
    intro c hc
    cases h : (abs s).tag c == t with
    | false => rfl
    | true => exact absurd (List.any_eq_true.mpr ⟨c, hc, h⟩) hany

/-! ## `DeleteNodesWithTag` is the loop of the source: one `DeleteNode` per tagged child of a copy -/

/-- the loop of nodes.go: `for _, c := range copyOfChildren { if c.Tag().Is(t) { n.DeleteNode(c) } }` -/
def deleteLoop (fl : Flags) (n : Id) (t : Str) (s : St) : St :=
  ((abs s).kids n).foldl (fun u c => if (abs u).tag c == t then deleteKid fl n c u else u) s

/-- the state after the children of `n` were edited to `ks` (resets of `DeleteNode` included) -/
def editedTo (n : Id) (ks : List Id) (s : St) : St :=
  afterKidsEdit true true n { s with heap := setKids s.heap n ks }

theorem setKids_setKids (h : List NodeRec) (n : Id) (a b : List Id) :
    setKids (setKids h n a) n b = setKids h n b := by
  unfold setKids
  cases hn : h[n]? with
  | none => simp [hn]
  | some r =>
    have hlt : n < h.length := (List.getElem?_eq_some_iff.mp hn).1
    simp [hlt]

theorem dropKey_dropKey {β : Type} (c : List (Id × β)) (k : Id) : dropKey (dropKey c k) k = dropKey c k := by
  unfold dropKey
  rw [List.filter_filter]
  congr 1
  funext e
  cases (e.1 != k) <;> rfl

theorem editedTo_eq (n : Id) (ks : List Id) (s : St) : editedTo n ks s =
    if ((Abs.mk s.heap s.roots).tag n == tFAM) = true then
      { heap := setKids s.heap n ks, roots := s.roots, ptrIdx := s.ptrIdx, dfams := s.dfams, known := [],
        ncache := [], cHusb := dropKey s.cHusb n, cWife := dropKey s.cWife n, cFams := [], cSpouses := [] }
    else
      { heap := setKids s.heap n ks, roots := s.roots, ptrIdx := s.ptrIdx, dfams := s.dfams, known := [],
        ncache := [], cHusb := s.cHusb, cWife := s.cWife, cFams := s.cFams, cSpouses := s.cSpouses } := by
  have ht : (abs (resetNodeCache { s with heap := setKids s.heap n ks })).tag n = (Abs.mk s.heap s.roots).tag n :=
    tag_setKids _ _ _ _ _ _
  unfold editedTo afterKidsEdit
  simp only [if_true, ht, Bool.and_true]
  split <;> rfl

theorem editedTo_heap (n : Id) (ks : List Id) (s : St) : (editedTo n ks s).heap = setKids s.heap n ks := by
  rw [editedTo_eq]; split <;> rfl

theorem editedTo_roots (n : Id) (ks : List Id) (s : St) : (editedTo n ks s).roots = s.roots := by
  rw [editedTo_eq]; split <;> rfl

theorem editedTo_editedTo (n : Id) (a b : List Id) (s : St) :
    editedTo n b (editedTo n a s) = editedTo n b s := by
  have ht : (Abs.mk (editedTo n a s).heap (editedTo n a s).roots).tag n = (Abs.mk s.heap s.roots).tag n := by
    rw [editedTo_heap]; exact tag_setKids _ _ _ _ _ _
  rw [editedTo_eq n b (editedTo n a s), ht, editedTo_eq n b s]
  by_cases hF : ((Abs.mk s.heap s.roots).tag n == tFAM) = true
  · simp only [hF, if_true]
    rw [editedTo_eq n a s]
    simp only [hF, if_true, setKids_setKids, dropKey_dropKey]
  · simp only [hF, Bool.false_eq_true, if_false]
    rw [editedTo_eq n a s]
    simp only [hF, Bool.false_eq_true, if_false, setKids_setKids]

theorem deleteKid_eq_editedTo (n c : Id) (s : St) :
    deleteKid (Flags.goodWith b1 b2 b3) n c s = editedTo n (((abs s).kids n).erase c) s := rfl

theorem tag_editedTo (n : Id) (ks : List Id) (s : St) (m : Id) :
    (abs (editedTo n ks s)).tag m = (abs s).tag m := by
  show (Abs.mk (editedTo n ks s).heap (editedTo n ks s).roots).tag m = (Abs.mk s.heap s.roots).tag m
  rw [editedTo_heap]; exact tag_setKids _ _ _ _ _ _

theorem kids_editedTo_self {n : Nat} (ks : List Id) (s : St) (hn : n < s.heap.length) :
    (abs (editedTo n ks s)).kids n = ks := by
  show (Abs.mk (editedTo n ks s).heap (editedTo n ks s).roots).kids n = ks
  rw [editedTo_heap]; exact kids_setKids_self _ _ _ _ hn

theorem deleteLoop_from_edited (s : St) {n : Nat} (hn : n < s.heap.length) (t : Str) :
    ∀ (xs ks : List Id),
      xs.foldl (fun u c => if (abs u).tag c == t then deleteKid (Flags.goodWith b1 b2 b3) n c u else u)
          (editedTo n ks s) =
        editedTo n ((xs.filter fun c => (abs s).tag c == t).foldl List.erase ks) s
  | [], _ => rfl
  | x :: xs, ks => by
    simp only [List.foldl_cons, tag_editedTo, List.filter_cons]
    cases hp : (abs s).tag x == t with
    | true =>
      simp only [if_true, List.foldl_cons]
      rw [deleteKid_eq_editedTo, kids_editedTo_self ks s hn, editedTo_editedTo]
      exact deleteLoop_from_edited s hn t xs (ks.erase x)
    | false =>
      simp only [Bool.false_eq_true, if_false]
      exact deleteLoop_from_edited s hn t xs ks

theorem deleteLoop_closed (s : St) {n : Nat} (hn : n < s.heap.length) (t : Str) :
    ∀ (xs : List Id),
      xs.foldl (fun u c => if (abs u).tag c == t then deleteKid (Flags.goodWith b1 b2 b3) n c u else u) s =
        if (xs.any fun c => (abs s).tag c == t) = true then
          editedTo n ((xs.filter fun c => (abs s).tag c == t).foldl List.erase ((abs s).kids n)) s
        else s
  | [] => rfl
  | x :: xs => by
    simp only [List.foldl_cons, List.any_cons, List.filter_cons]
    cases hp : (abs s).tag x == t with
    | true =>
      simp only [if_true, Bool.true_or, List.foldl_cons]
      rw [deleteKid_eq_editedTo]
      exact deleteLoop_from_edited s hn t xs _
    | false =>
      simp only [Bool.false_eq_true, if_false, Bool.false_or]
      exact deleteLoop_closed s hn t xs

/-- **`DeleteNodesWithTag(n, t)` of the model is the loop of the source**: one `n.DeleteNode(c)` — the
    model's own `deleteNode` step, resets included — for every child `c` of a copy of the child list
    whose tag is `t`, in order. -/
theorem deleteKidsWithTag_is_loop (s : St) {n : Nat} (hn : n < s.heap.length) (t : Str) :
    deleteKidsWithTag (Flags.goodWith b1 b2 b3) n t s = deleteLoop (Flags.goodWith b1 b2 b3) n t s := by
  unfold deleteLoop
  rw [deleteLoop_closed s hn t]
  unfold deleteKidsWithTag
  rfl

/-! ## the events of an individual -/

/-- `Births()`, `Baptisms()`, `Deaths()`, `Burials()` answer a sub-sequence of `AllEvents()`, for every
    tag the regenerated event table contains -/
theorem specNWT_sublist_allEvents (a : Abs) (i : Id) {t : Str} (ht : isEventTag t = true) :
    (specNWT a i t).Sublist (specAllEvents a i) := by
  unfold specNWT specAllEvents
  induction a.kids i with
  | nil => exact List.Sublist.refl _
  | cons c cs ih =>
    simp only [List.filter_cons]
    cases h : a.tag c == t with
    | true =>
      have : isEventTag (a.tag c) = true := (eq_of_beq h) ▸ ht
      simp only [this, if_true]
      exact ih.cons₂ _
    | false =>
      simp only [Bool.false_eq_true, if_false]
      split
      · exact ih.cons _
      · exact ih

end Gedcom.Cache
