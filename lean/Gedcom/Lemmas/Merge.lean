/-
  Loop invariants for the merge model (Gedcom/Model/Merge.lean), used by Props/C09.lean.
-/
import Gedcom.Model.Merge
import Gedcom.Lemmas.Ident
import Gedcom.Lemmas.Equal
namespace Gedcom

/-! ## the innermost loop: `for j, node2 := range right` -/

/-- the merge function declined every node of the list, threading the state -/
inductive Fails (f : MergeFn) (node : INode) : List (Nat × INode) → MSt → MSt → Prop
  | nil (s : MSt) : Fails f node [] s s
  | cons {j : Nat} {r : INode} {rs : List (Nat × INode)} {s s1 s' : MSt} :
      f node r s = (none, s1) → Fails f node rs s1 s' → Fails f node ((j, r) :: rs) s s'

theorem firstMerge_none {f : MergeFn} {node : INode} :
    ∀ {right : List (Nat × INode)} {st st' : MSt},
      firstMerge f node right st = (none, st') → Fails f node right st st' := by
  intro right
  induction right with
  | nil => intro st st' h; simp [firstMerge] at h; subst h; exact .nil _
  | cons x rs ih =>
    intro st st' h
    obtain ⟨j, r⟩ := x
    simp only [firstMerge] at h
    split at h
    · cases h
    · rename_i s1 hf
      split at h
      · cases h
      · rename_i s2 hrec
        cases h
        exact .cons hf (ih hrec)

theorem firstMerge_some {f : MergeFn} {node : INode} :
    ∀ {right : List (Nat × INode)} {st st' : MSt} {m : INode} {j : Nat} {right' : List (Nat × INode)},
      firstMerge f node right st = (some (m, j, right'), st') →
      ∃ rpre r rpost s1, right = rpre ++ (j, r) :: rpost ∧ right' = rpre ++ rpost ∧
        Fails f node rpre st s1 ∧ f node r s1 = (some m, st') := by
  intro right
  induction right with
  | nil => intro st st' m j right' h; simp [firstMerge] at h
  | cons x rs ih =>
    intro st st' m j right' h
    obtain ⟨j0, r0⟩ := x
    simp only [firstMerge] at h
    split at h
    · rename_i m0 s1 hf
      cases h
      exact ⟨[], r0, rs, st, rfl, rfl, .nil _, hf⟩
    · rename_i s1 hf
      split at h
      · rename_i m1 j1 rs1 s2 hrec
        cases h
        obtain ⟨rpre, r, rpost, s3, h1, h2, h3, h4⟩ := ih hrec
        exact ⟨(j0, r0) :: rpre, r, rpost, s3, by simp [h1], by simp [h2], .cons hf h3, h4⟩
      · cases h

/-! ## one sweep: `for i := 0; i < len(newSlice); i++` -/

/-- Invariant rule for a sweep.  A predicate over (whole slice, right, alreadyMerged, state) that
    survives a declined merge and a merge step (remove the element, append the merged node, drop
    the right node used, mark the merged node) survives the sweep, whatever elements it skips. -/
theorem pass_inv (f : MergeFn) (Inv : List Elem → List (Nat × INode) → List Nat → MSt → Prop)
    (hfail : ∀ sl rt mg e j r s s', e ∈ sl → (j, r) ∈ rt → f e.node r s = (none, s') →
      Inv sl rt mg s → Inv sl rt mg s')
    (hmerge : ∀ pre e post rpre j r rpost mg s m s', mg.contains e.node.id = false →
      f e.node r s = (some m, s') →
      Inv (pre ++ e :: post) (rpre ++ (j, r) :: rpost) mg s →
      Inv (pre ++ post ++ [⟨e.prov ++ [.R j], m⟩]) (rpre ++ rpost) (m.id :: mg) s') :
    ∀ (n : Nat) (done todo : List Elem) (right : List (Nat × INode)) (merged : List Nat) (st : MSt)
      (found : Bool), todo.length ≤ n → Inv (done ++ todo) right merged st →
      Inv (pass f done todo right merged st found).slice (pass f done todo right merged st found).right
        (pass f done todo right merged st found).merged (pass f done todo right merged st found).st := by
  have hfails : ∀ sl rt mg e rs s s', e ∈ sl → (∀ x ∈ rs, x ∈ rt) → Fails f e.node rs s s' →
      Inv sl rt mg s → Inv sl rt mg s' := by
    intro sl rt mg e rs s s' he hsub hF
    induction hF with
    | nil => exact fun hI => hI
    | @cons j r rs s s1 s' hf _ ih =>
      intro hI
      exact ih (fun x hx => hsub x (by simp [hx]))
        (hfail _ _ _ _ j r _ _ he (hsub (j, r) (by simp)) hf hI)
  intro n
  induction n with
  | zero =>
    intro done todo right merged st found hn h
    have : todo = [] := List.eq_nil_of_length_eq_zero (by omega)
    subst this
    rw [pass]; simpa using h
  | succ n ih =>
    intro done todo right merged st found hn h
    match todo with
    | [] => rw [pass]; simpa using h
    | e :: rest =>
      rw [pass]
      split
      · apply ih
        · simp at hn; omega
        · simpa using h
      · rename_i hc
        have hc' : merged.contains e.node.id = false := by simpa using hc
        split
        · rename_i st' hfm
          apply ih
          · simp at hn; omega
          · have := hfails (done ++ e :: rest) right merged e right st st' (by simp) (fun _ hx => hx)
              (firstMerge_none hfm) h
            simpa using this
        · rename_i m j right' st' hfm
          obtain ⟨rpre, r, rpost, s1, h1, h2, h3, h4⟩ := firstMerge_some hfm
          subst h1 h2
          have hI1 := hfails (done ++ e :: rest) (rpre ++ (j, r) :: rpost) merged e rpre st s1 (by simp)
            (fun x hx => by simp [hx]) h3 h
          have hI2 := hmerge done e rest rpre j r rpost merged s1 m st' hc' h4 hI1
          split
          · simpa using hI2
          · rename_i x xs
            apply ih
            · simp at hn ⊢; omega
            · simpa using hI2

/-- what a sweep does to `right` and `found`: it never grows `right`, and it sets `found` only
    when it consumed a right node — the termination argument of the outer loop -/
theorem pass_right (f : MergeFn) :
    ∀ (n : Nat) (done todo : List Elem) (right : List (Nat × INode)) (merged : List Nat) (st : MSt)
      (found : Bool), todo.length ≤ n →
      (pass f done todo right merged st found).right.length ≤ right.length ∧
      ((pass f done todo right merged st found).found = true →
        found = true ∨ (pass f done todo right merged st found).right.length < right.length) := by
  intro n
  induction n with
  | zero =>
    intro done todo right merged st found hn
    have : todo = [] := List.eq_nil_of_length_eq_zero (by omega)
    subst this
    rw [pass]; simp
  | succ n ih =>
    intro done todo right merged st found hn
    match todo with
    | [] => rw [pass]; simp
    | e :: rest =>
      rw [pass]
      split
      · exact ih _ _ _ _ _ _ (by simp at hn; omega)
      · split
        · exact ih _ _ _ _ _ _ (by simp at hn; omega)
        · rename_i m j right' st' hfm
          obtain ⟨rpre, r, rpost, s1, h1, h2, _, _⟩ := firstMerge_some hfm
          have hlen : right'.length + 1 = right.length := by subst h1 h2; simp; omega
          split
          · simp; omega
          · rename_i x xs
            have := ih (done ++ [x]) (xs ++ [⟨e.prov ++ [.R j], m⟩]) right' (m.id :: merged) st' true
              (by simp at hn ⊢; omega)
            simp only at this ⊢
            constructor
            · omega
            · intro _; right; omega

/-- TERMINATION of `for len(right) > 0`: a sweep that reports a merge has shortened `right` -/
theorem pass_found_lt (f : MergeFn) (slice : List Elem) (right : List (Nat × INode))
    (merged : List Nat) (st : MSt) (h : (pass f [] slice right merged st false).found = true) :
    (pass f [] slice right merged st false).right.length < right.length := by
  rcases (pass_right f slice.length [] slice right merged st false (Nat.le_refl _)).2 h with h | h
  · cases h
  · exact h

/-- once set, `found` stays set -/
theorem pass_found_mono (f : MergeFn) :
    ∀ (n : Nat) (done todo : List Elem) (right : List (Nat × INode)) (merged : List Nat) (st : MSt),
      todo.length ≤ n → (pass f done todo right merged st true).found = true := by
  intro n
  induction n with
  | zero =>
    intro done todo right merged st hn
    have : todo = [] := List.eq_nil_of_length_eq_zero (by omega)
    subst this
    rw [pass]
  | succ n ih =>
    intro done todo right merged st hn
    match todo with
    | [] => rw [pass]
    | e :: rest =>
      rw [pass]
      split
      · exact ih _ _ _ _ _ (by simp at hn; omega)
      · split
        · exact ih _ _ _ _ _ (by simp at hn; omega)
        · split
          · rfl
          · rename_i x xs
            exact ih _ _ _ _ _ (by simp at hn ⊢; omega)

/-- a sweep that reports no merge has not touched `right` -/
theorem pass_notfound_right (f : MergeFn) :
    ∀ (n : Nat) (done todo : List Elem) (right : List (Nat × INode)) (merged : List Nat) (st : MSt),
      todo.length ≤ n → (pass f done todo right merged st false).found = false →
      (pass f done todo right merged st false).right = right := by
  intro n
  induction n with
  | zero =>
    intro done todo right merged st hn _
    have : todo = [] := List.eq_nil_of_length_eq_zero (by omega)
    subst this
    rw [pass]
  | succ n ih =>
    intro done todo right merged st hn
    match todo with
    | [] => intro _; rw [pass]
    | e :: rest =>
      rw [pass]
      split
      · exact ih _ _ _ _ _ (by simp at hn; omega)
      · split
        · exact ih _ _ _ _ _ (by simp at hn; omega)
        · rename_i m j right' st' hfm
          split
          · intro h; simp at h
          · rename_i x xs
            intro h
            exfalso
            have := pass_found_mono f (xs ++ [(⟨e.prov ++ [.R j], m⟩ : Elem)]).length (done ++ [x])
              (xs ++ [(⟨e.prov ++ [.R j], m⟩ : Elem)]) right' (m.id :: merged) st' (Nat.le_refl _)
            simp only at h this
            rw [this] at h
            cases h

/-! ## the outer loop: `for len(right) > 0` -/

/-- Invariant rule for the whole loop: besides the two sweep steps, the invariant must survive
    appending (a copy of) the first right node when a sweep merged nothing.  The dead `else`
    branch of `mergeLoop` is discharged by `pass_found_lt`. -/
theorem mergeLoop_inv (fl : MergeFlags) (f : MergeFn)
    (Inv : List Elem → List (Nat × INode) → List Nat → MSt → Prop)
    (hfail : ∀ sl rt mg e j r s s', e ∈ sl → (j, r) ∈ rt → f e.node r s = (none, s') →
      Inv sl rt mg s → Inv sl rt mg s')
    (hmerge : ∀ pre e post rpre j r rpost mg s m s', mg.contains e.node.id = false →
      f e.node r s = (some m, s') →
      Inv (pre ++ e :: post) (rpre ++ (j, r) :: rpost) mg s →
      Inv (pre ++ post ++ [⟨e.prov ++ [.R j], m⟩]) (rpre ++ rpost) (m.id :: mg) s')
    (hadd : ∀ sl j0 r0 rtail mg s, Inv sl ((j0, r0) :: rtail) mg s →
      Inv (sl ++ [⟨[.R j0], (copyIf fl.sliceCopyRight r0 s).1⟩]) rtail
        ((copyIf fl.sliceCopyRight r0 s).1.id :: mg) (copyIf fl.sliceCopyRight r0 s).2) :
    ∀ (n : Nat) (slice : List Elem) (right : List (Nat × INode)) (merged : List Nat) (st : MSt),
      right.length ≤ n → Inv slice right merged st →
      ∃ mg, Inv (mergeLoop fl f slice right merged st).1 [] mg (mergeLoop fl f slice right merged st).2 := by
  intro n
  induction n with
  | zero =>
    intro slice right merged st hn h
    have : right = [] := List.eq_nil_of_length_eq_zero (by omega)
    subst this
    rw [mergeLoop]; exact ⟨merged, h⟩
  | succ n ih =>
    intro slice right merged st hn h
    match right with
    | [] => rw [mergeLoop]; exact ⟨merged, h⟩
    | (j0, r0) :: rtail =>
      rw [mergeLoop]
      have hp := pass_inv f Inv hfail hmerge slice.length [] slice ((j0, r0) :: rtail) merged st false
        (Nat.le_refl _) (by simpa using h)
      simp only
      split
      · rename_i hfound
        have hlt := pass_found_lt f slice ((j0, r0) :: rtail) merged st hfound
        simp only [List.length_cons] at hlt
        rw [dif_pos hlt]
        exact ih _ _ _ _ (by simp at hn; omega) hp
      · rename_i hnf
        apply ih
        · simpa using hn
        · -- a sweep that found nothing leaves `right` as it was
          have hr : (pass f [] slice ((j0, r0) :: rtail) merged st false).right = (j0, r0) :: rtail :=
            pass_notfound_right f slice.length [] slice _ merged st (Nat.le_refl _) (by simpa using hnf)
          rw [hr] at hp
          exact hadd _ _ _ _ _ _ hp

/-! ## the left copies and the indexing of the inputs -/

theorem indexed_length {α : Type} (l : List α) (k : Nat) : (indexed l k).length = l.length := by
  induction l generalizing k with
  | nil => rfl
  | cons x xs ih => simp [indexed, ih]

theorem indexed_map_fst {α : Type} (l : List α) (k : Nat) :
    (indexed l k).map (·.1) = List.range' k l.length := by
  induction l generalizing k with
  | nil => rfl
  | cons x xs ih => simp [indexed, ih, List.range'_succ]

theorem indexed_map_snd {α : Type} (l : List α) (k : Nat) : (indexed l k).map (·.2) = l := by
  induction l generalizing k with
  | nil => rfl
  | cons x xs ih => simp [indexed, ih]

theorem indexed_mem {α : Type} {l : List α} {k j : Nat} {x : α} (h : (j, x) ∈ indexed l k) :
    k ≤ j ∧ l[j - k]? = some x := by
  induction l generalizing k with
  | nil => simp [indexed] at h
  | cons y ys ih =>
    simp only [indexed, List.mem_cons, Prod.mk.injEq] at h
    rcases h with ⟨rfl, rfl⟩ | h
    · simp
    · have := ih h
      refine ⟨by omega, ?_⟩
      have e : j - k = (j - (k + 1)) + 1 := by omega
      rw [e]; simpa using this.2

theorem copyLeft_length (fl : MergeFlags) (l : List (Nat × INode)) (st : MSt) :
    (copyLeft fl l st).1.length = l.length := by
  induction l generalizing st with
  | nil => rfl
  | cons x xs ih => obtain ⟨i, n⟩ := x; simp [copyLeft, ih]

/-! ## guarantees 1 and 2: the length bounds -/

/-- number of slice elements that are in `alreadyMerged` -/
def marked (mg : List Nat) (sl : List Elem) : Nat := sl.countP fun e => mg.contains e.node.id

theorem marked_append (mg : List Nat) (a b : List Elem) :
    marked mg (a ++ b) = marked mg a + marked mg b := by simp [marked, List.countP_append]

theorem marked_mono (mg : List Nat) (x : Nat) (sl : List Elem) : marked mg sl ≤ marked (x :: mg) sl := by
  unfold marked
  apply List.countP_mono_left
  intro e _ h
  simp only [List.contains_eq_mem, List.mem_cons, decide_eq_true_eq] at h ⊢
  exact Or.inr h

theorem mergeLoop_length (fl : MergeFlags) (f : MergeFn) (slice : List Elem)
    (right : List (Nat × INode)) (st : MSt) :
    slice.length ≤ (mergeLoop fl f slice right [] st).1.length ∧
    right.length ≤ (mergeLoop fl f slice right [] st).1.length ∧
    (mergeLoop fl f slice right [] st).1.length ≤ slice.length + right.length := by
  let Inv : List Elem → List (Nat × INode) → List Nat → MSt → Prop := fun sl rt mg _ =>
    sl.length + rt.length ≤ slice.length + right.length ∧ slice.length ≤ sl.length ∧
      right.length ≤ marked mg sl + rt.length
  have h := mergeLoop_inv fl f Inv
    (by intro sl rt mg e j r s s' _ _ _ h; exact h)
    (by
      intro pre e post rpre j r rpost mg s m s' hc _ h
      obtain ⟨h1, h2, h3⟩ := h
      refine ⟨by simp at h1 ⊢; omega, by simp at h2 ⊢; omega, ?_⟩
      have he : marked mg [e] = 0 := by
        have : ¬ e.node.id ∈ mg := by simpa using hc
        simp [marked, this]
      have hm : marked (m.id :: mg) [(⟨e.prov ++ [.R j], m⟩ : Elem)] = 1 := by simp [marked]
      have e1 : pre ++ e :: post = pre ++ ([e] ++ post) := by simp
      rw [e1] at h3
      simp only [marked_append, List.length_append, List.length_cons] at h3 ⊢
      have := marked_mono mg m.id pre
      have := marked_mono mg m.id post
      omega)
    (by
      intro sl j0 r0 rtail mg s h
      obtain ⟨h1, h2, h3⟩ := h
      refine ⟨by simp at h1 ⊢; omega, by simp at h2 ⊢; omega, ?_⟩
      have hm : marked ((copyIf fl.sliceCopyRight r0 s).1.id :: mg)
          [(⟨[.R j0], (copyIf fl.sliceCopyRight r0 s).1⟩ : Elem)] = 1 := by simp [marked]
      simp only [marked_append, List.length_cons] at h3 ⊢
      have := marked_mono mg (copyIf fl.sliceCopyRight r0 s).1.id sl
      omega)
    right.length slice right [] st (Nat.le_refl _)
    ⟨Nat.le_refl _, Nat.le_refl _, by simp⟩
  obtain ⟨mg, h1, h2, h3⟩ := h
  have : marked mg (mergeLoop fl f slice right [] st).1 ≤ (mergeLoop fl f slice right [] st).1.length :=
    List.countP_le_length
  simp at h1 h3
  exact ⟨h2, by omega, h1⟩

/-- `max |l| |r| ≤ |MergeNodeSlices l r| ≤ |l| + |r|`, for every merge function -/
theorem mergeNodeSlicesP_length (fl : MergeFlags) (f : MergeFn) (l r : List INode) (st : MSt) :
    max l.length r.length ≤ (mergeNodeSlicesP fl f l r st).1.length ∧
    (mergeNodeSlicesP fl f l r st).1.length ≤ l.length + r.length := by
  have h := mergeLoop_length fl f (copyLeft fl (indexed l) st).1 (indexed r) (copyLeft fl (indexed l) st).2
  simp only [copyLeft_length, indexed_length] at h
  show max l.length r.length ≤ (mergeLoop fl f (copyLeft fl (indexed l) st).1 (indexed r) [] (copyLeft fl (indexed l) st).2).1.length ∧
    (mergeLoop fl f (copyLeft fl (indexed l) st).1 (indexed r) [] (copyLeft fl (indexed l) st).2).1.length ≤ l.length + r.length
  exact ⟨by omega, h.2.2⟩

/-! ## guarantees 4 and 5: each element is merged at most once, and only left × right -/

/-- shapes a provenance can have: a left node, a right node, or one left node merged with one
    right node -/
def ProvOK (p : List Src) : Prop :=
  (∃ i, p = [.L i]) ∨ (∃ i j, p = [.L i, .R j]) ∨ (∃ j, p = [.R j])

def hasR (p : List Src) : Prop := ∃ j, Src.R j ∈ p

/-- the ghost provenance is truthful: an element with provenance `[L i]` is (a copy of) the
    `i`-th left node, `[R j]` of the `j`-th right node, and `[L i, R j]` is what the merge function
    returned for a copy of the `i`-th left node and the `j`-th right node itself -/
def Faithful (f : MergeFn) (l r : List INode) (e : Elem) : Prop :=
  (∀ i, e.prov = [.L i] → ∃ a, l[i]? = some a ∧ e.node.erase = a.erase) ∧
  (∀ j, e.prov = [.R j] → ∃ b, r[j]? = some b ∧ e.node.erase = b.erase) ∧
  (∀ i j, e.prov = [.L i, .R j] → ∃ a b x s s', l[i]? = some a ∧ r[j]? = some b ∧
      x.erase = a.erase ∧ f x b s = (some e.node, s'))

theorem copyIf_erase (b : Bool) (n : INode) (st : MSt) : (copyIf b n st).1.erase = n.erase := by
  unfold copyIf
  split
  · simp [copyM, copyTree_erase]
  · rfl

theorem copyLeft_spec (fl : MergeFlags) (f : MergeFn) (l0 r0 : List INode) :
    ∀ (l : List (Nat × INode)) (st : MSt), (∀ x ∈ l, l0[x.1]? = some x.2) →
      (copyLeft fl l st).1.flatMap (·.prov) = l.map (fun x => Src.L x.1) ∧
      ∀ e ∈ (copyLeft fl l st).1, ProvOK e.prov ∧ ¬ hasR e.prov ∧ Faithful f l0 r0 e := by
  intro l
  induction l with
  | nil => intro st _; simp [copyLeft]
  | cons x xs ih =>
    intro st hl
    obtain ⟨i, n⟩ := x
    have := ih (copyIf fl.sliceCopyLeft n st).2 (fun y hy => hl y (by simp [hy]))
    simp only [copyLeft, List.flatMap_cons, List.map_cons, List.mem_cons]
    refine ⟨by simp [this.1], ?_⟩
    intro e he
    rcases he with rfl | he
    · refine ⟨Or.inl ⟨i, rfl⟩, ?_, ?_, ?_, ?_⟩
      · rintro ⟨j, hj⟩; simp at hj
      · intro i' h
        simp only [List.cons.injEq, Src.L.injEq, and_true] at h
        subst h
        exact ⟨n, hl (i, n) (by simp), copyIf_erase _ _ _⟩
      · intro j h; simp at h
      · intro i' j h; simp at h
    · exact this.2 e he

theorem mergeLoop_prov (fl : MergeFlags) (f : MergeFn) (l0 r0 : List INode) (slice : List Elem)
    (right : List (Nat × INode)) (st : MSt)
    (hs : ∀ e ∈ slice, ProvOK e.prov ∧ ¬ hasR e.prov ∧ Faithful f l0 r0 e)
    (hr : ∀ x ∈ right, r0[x.1]? = some x.2) :
    ((mergeLoop fl f slice right [] st).1.flatMap (·.prov)).Perm
      (slice.flatMap (·.prov) ++ right.map (fun x => Src.R x.1)) ∧
    ∀ e ∈ (mergeLoop fl f slice right [] st).1, ProvOK e.prov ∧ Faithful f l0 r0 e := by
  let Inv : List Elem → List (Nat × INode) → List Nat → MSt → Prop := fun sl rt mg _ =>
    (sl.flatMap (·.prov) ++ rt.map (fun x => Src.R x.1)).Perm
      (slice.flatMap (·.prov) ++ right.map (fun x => Src.R x.1)) ∧
    (∀ e ∈ sl, ProvOK e.prov ∧ (hasR e.prov → mg.contains e.node.id = true) ∧ Faithful f l0 r0 e) ∧
    (∀ x ∈ rt, r0[x.1]? = some x.2)
  have h := mergeLoop_inv fl f Inv
    (by intro sl rt mg e j r s s' _ _ _ h; exact h)
    (by
      intro pre e post rpre j r rpost mg s m s' hc hf h
      obtain ⟨h1, h2, h3⟩ := h
      have he := h2 e (by simp)
      have hnr : ¬ hasR e.prov := fun hR => by
        have := he.2.1 hR; rw [hc] at this; cases this
      -- an element that is not in `alreadyMerged` is a plain left copy
      obtain ⟨i, hi⟩ : ∃ i, e.prov = [.L i] := by
        rcases he.1 with h | ⟨i, j', h⟩ | ⟨j', h⟩
        · exact h
        · exact absurd ⟨j', by simp [h]⟩ hnr
        · exact absurd ⟨j', by simp [h]⟩ hnr
      refine ⟨?_, ?_, ?_⟩
      · refine List.Perm.trans ?_ h1
        rw [List.perm_iff_count]
        intro a
        simp only [List.flatMap_append, List.flatMap_cons, List.flatMap_nil, List.map_append,
          List.map_cons, List.count_append, List.count_cons, List.count_nil, List.append_nil]
        omega
      · intro e' he'
        simp only [List.mem_append, List.mem_cons, List.not_mem_nil, or_false] at he'
        rcases he' with (he' | he') | rfl
        · have := h2 e' (by simp [he'])
          exact ⟨this.1, fun hR => by
            have := this.2.1 hR
            simp only [List.contains_eq_mem, List.mem_cons, decide_eq_true_eq] at this ⊢
            exact Or.inr this, this.2.2⟩
        · have := h2 e' (by simp [he'])
          exact ⟨this.1, fun hR => by
            have := this.2.1 hR
            simp only [List.contains_eq_mem, List.mem_cons, decide_eq_true_eq] at this ⊢
            exact Or.inr this, this.2.2⟩
        · refine ⟨Or.inr (Or.inl ⟨i, j, by simp [hi]⟩), fun _ => by simp, ?_, ?_, ?_⟩
          · intro i' h; simp [hi] at h
          · intro j' h; simp [hi] at h
          · intro i' j' h
            simp only [hi, List.cons_append, List.nil_append, List.cons.injEq, Src.L.injEq,
              Src.R.injEq, and_true] at h
            obtain ⟨rfl, rfl⟩ := h
            obtain ⟨a, ha1, ha2⟩ := he.2.2.1 i hi
            exact ⟨a, r, e.node, s, s', ha1, h3 (j, r) (by simp), ha2, hf⟩
      · intro x hx
        exact h3 x (by
          simp only [List.mem_append, List.mem_cons] at hx ⊢
          rcases hx with hx | hx
          · exact Or.inl hx
          · exact Or.inr (Or.inr hx)))
    (by
      intro sl j0 r0' rtail mg s h
      obtain ⟨h1, h2, h3⟩ := h
      refine ⟨?_, ?_, fun x hx => h3 x (by simp [hx])⟩
      · refine List.Perm.trans ?_ h1
        rw [List.perm_iff_count]
        intro a
        simp only [List.flatMap_append, List.flatMap_cons, List.flatMap_nil, List.map_cons,
          List.count_append, List.count_cons, List.count_nil, List.append_nil]
        omega
      · intro e' he'
        simp only [List.mem_append, List.mem_cons, List.not_mem_nil, or_false] at he'
        rcases he' with he' | rfl
        · have := h2 e' he'
          exact ⟨this.1, fun hR => by
            have := this.2.1 hR
            simp only [List.contains_eq_mem, List.mem_cons, decide_eq_true_eq] at this ⊢
            exact Or.inr this, this.2.2⟩
        · refine ⟨Or.inr (Or.inr ⟨j0, rfl⟩), fun _ => by simp, ?_, ?_, ?_⟩
          · intro i' h; simp at h
          · intro j' h
            simp only [List.cons.injEq, Src.R.injEq, and_true] at h
            subst h
            exact ⟨r0', h3 (j0, r0') (by simp), copyIf_erase _ _ _⟩
          · intro i' j' h; simp at h)
    right.length slice right [] st (Nat.le_refl _)
    ⟨List.Perm.refl _, fun e he => ⟨(hs e he).1, fun hR => absurd hR (hs e he).2.1, (hs e he).2.2⟩, hr⟩
  obtain ⟨mg, h1, h2, _⟩ := h
  exact ⟨by simpa using h1, fun e he => ⟨(h2 e he).1, (h2 e he).2.2⟩⟩

/-! ## guarantee 3: everything in the result is new, and nothing old is written to -/

/-- `s'` comes after `s`: the allocation counter only grows and every write logged since went to
    an object with id ≥ `lo` -/
def Ext (lo : Nat) (s s' : MSt) : Prop :=
  s.next ≤ s'.next ∧ ∀ w ∈ s'.writes, w ∈ s.writes ∨ lo ≤ w

theorem Ext.refl (lo : Nat) (s : MSt) : Ext lo s s := ⟨Nat.le_refl _, fun _ h => Or.inl h⟩

theorem Ext.trans {lo : Nat} {s s' s'' : MSt} (h1 : Ext lo s s') (h2 : Ext lo s' s'') : Ext lo s s'' :=
  ⟨Nat.le_trans h1.1 h2.1, fun w hw => by
    rcases h2.2 w hw with h | h
    · exact h1.2 w h
    · exact Or.inr h⟩

theorem Ext.mono {lo lo' : Nat} {s s' : MSt} (h : Ext lo s s') (hl : lo' ≤ lo) : Ext lo' s s' :=
  ⟨h.1, fun w hw => by
    rcases h.2 w hw with h | h
    · exact Or.inl h
    · exact Or.inr (Nat.le_trans hl h)⟩

/-- every object of the tree was allocated in `[lo, hi)` -/
def FreshNode (lo hi : Nat) (n : INode) : Prop := ∀ i ∈ n.ids, lo ≤ i ∧ i < hi

theorem FreshNode.mono {lo hi lo' hi' : Nat} {n : INode} (h : FreshNode lo hi n) (h1 : lo' ≤ lo)
    (h2 : hi ≤ hi') : FreshNode lo' hi' n :=
  fun i hi => ⟨Nat.le_trans h1 (h i hi).1, Nat.lt_of_lt_of_le (h i hi).2 h2⟩

/-- contract of a merge function: what it returns is new, and it writes to new objects only -/
def FreshFn (f : MergeFn) : Prop :=
  ∀ a b s, Ext s.next s (f a b s).2 ∧ ∀ m, (f a b s).1 = some m → FreshNode s.next (f a b s).2.next m

theorem fwStep_key (seeds : Bool) (env : List (Nat × Nat × Str)) (w : FW) (i : Nat) (t p : Str) :
    w.key ≤ (fwStep seeds env w i t p).key := by
  unfold fwStep
  split
  · exact Nat.le_refl _
  · split
    · simp only
      split
      · exact Nat.le_refl _
      · split
        · exact Nat.le_refl _
        · exact Nat.le_succ _
    · exact Nat.le_refl _

mutual
theorem fwNode_key (seeds : Bool) (env : List (Nat × Nat × Str)) :
    ∀ (n : INode) (w : FW), w.key ≤ (fwNode seeds env w n).key
  | .mk i t v p ks, w => by
    rw [fwNode]
    exact Nat.le_trans (fwStep_key seeds env w i t p) (fwList_key seeds env ks _)
theorem fwList_key (seeds : Bool) (env : List (Nat × Nat × Str)) :
    ∀ (ks : List INode) (w : FW), w.key ≤ (fwList seeds env w ks).key
  | [], w => by rw [fwList]; exact Nat.le_refl _
  | k :: ks, w => by
    rw [fwList]
    exact Nat.le_trans (fwNode_key seeds env k w) (fwList_key seeds env ks _)
end

theorem fwKids_key (seeds : Bool) (env : List (Nat × Nat × Str)) :
    ∀ (ks : List INode) (w : FW), w.key ≤ (fwKids seeds env w ks).key := by
  intro ks
  induction ks with
  | nil => intro w; exact Nat.le_refl _
  | cons k ks ih =>
    intro w
    rw [fwKids]
    exact Nat.le_trans (fwNode_key seeds env k { w with fam := none, seen := [] }) (ih _)

/-- what a finished walk does to the allocation counter and the write log -/
theorem afterWalk_fresh (st : MSt) (n : INode) (w : FW)
    (hk : (copyTree st.next n).2.1 ≤ w.key) :
    Ext st.next st (st.afterWalk st.next (copyTree st.next n).2.2 w) ∧
    FreshNode st.next (st.afterWalk st.next (copyTree st.next n).2.2 w).next (copyTree st.next n).1 ∧
    st.next < (st.afterWalk st.next (copyTree st.next n).2.2 w).next := by
  have h := copyTree_ids st.next n
  have h1 := h.1
  have e : (st.afterWalk st.next (copyTree st.next n).2.2 w).next = w.key := rfl
  have e2 : (st.afterWalk st.next (copyTree st.next n).2.2 w).writes =
      st.writes ++ (copyTree st.next n).2.2 := rfl
  refine ⟨⟨by rw [e]; omega, ?_⟩, ?_, by rw [e]; omega⟩
  · intro x hx
    rw [e2] at hx
    rcases List.mem_append.mp hx with hx | hx
    · exact Or.inl hx
    · exact Or.inr (h.2.2 x hx).1
  · intro i hi
    have := h.2.1 i hi
    rw [e]
    omega

theorem copyM_walk_key (n : INode) (st : MSt) :
    (copyTree st.next n).2.1 ≤
      (fwNode copySeeds st.famOf ⟨none, [], 0, (copyTree st.next n).2.1, [], [], true⟩ n).key :=
  fwNode_key copySeeds st.famOf n ⟨none, [], 0, (copyTree st.next n).2.1, [], [], true⟩

theorem copyM_fresh (n : INode) (st : MSt) :
    Ext st.next st (copyM n st).2 ∧ FreshNode st.next (copyM n st).2.next (copyM n st).1 := by
  have := afterWalk_fresh st n _ (copyM_walk_key n st)
  exact ⟨this.1, this.2.1⟩

theorem copyM_next (n : INode) (st : MSt) : st.next < (copyM n st).2.next :=
  (afterWalk_fresh st n _ (copyM_walk_key n st)).2.2

theorem copyChildM_fresh (t : Str) (n : INode) (st : MSt) :
    Ext st.next st (copyChildM t n st).2 ∧
      FreshNode st.next (copyChildM t n st).2.next (copyChildM t n st).1 := by
  simp only [copyChildM]
  split
  · have hk : (copyTree st.next n).2.1 ≤ (fwKids copySeeds st.famOf
        ⟨none, [], 1, (copyTree st.next n).2.1, [], [], true⟩ n.kids).key :=
      fwKids_key copySeeds st.famOf n.kids ⟨none, [], 1, (copyTree st.next n).2.1, [], [], true⟩
    have := afterWalk_fresh st n _ hk
    exact ⟨this.1, this.2.1⟩
  · have := afterWalk_fresh st n _ (copyM_walk_key n st)
    exact ⟨this.1, this.2.1⟩

theorem copyLeft_fresh (fl : MergeFlags) (hfl : fl.sliceCopyLeft = true) :
    ∀ (l : List (Nat × INode)) (st : MSt),
      Ext st.next st (copyLeft fl l st).2 ∧
      ∀ e ∈ (copyLeft fl l st).1, FreshNode st.next (copyLeft fl l st).2.next e.node := by
  intro l
  induction l with
  | nil => intro st; exact ⟨Ext.refl _ _, by simp [copyLeft]⟩
  | cons x xs ih =>
    intro st
    obtain ⟨i, n⟩ := x
    simp only [copyLeft, copyIf, hfl, if_true]
    have hc := copyM_fresh n st
    have hr := ih (copyM n st).2
    refine ⟨hc.1.trans (hr.1.mono hc.1.1), ?_⟩
    intro e he
    rcases List.mem_cons.mp he with rfl | he
    · exact hc.2.mono (Nat.le_refl _) hr.1.1
    · exact (hr.2 e he).mono hc.1.1 (Nat.le_refl _)

theorem mergeLoop_fresh (fl : MergeFlags) (hfl : fl.sliceCopyRight = true) (f : MergeFn)
    (hf : FreshFn f) (lo : Nat) (slice : List Elem) (right : List (Nat × INode)) (st : MSt)
    (hlo : lo ≤ st.next) (hs : ∀ e ∈ slice, FreshNode lo st.next e.node) :
    Ext lo st (mergeLoop fl f slice right [] st).2 ∧
    ∀ e ∈ (mergeLoop fl f slice right [] st).1,
      FreshNode lo (mergeLoop fl f slice right [] st).2.next e.node := by
  let Inv : List Elem → List (Nat × INode) → List Nat → MSt → Prop := fun sl _ _ s =>
    Ext lo st s ∧ ∀ e ∈ sl, FreshNode lo s.next e.node
  have h := mergeLoop_inv fl f Inv
    (by
      intro sl rt mg e j r s s' _ _ hfe h
      have := (hf e.node r s).1
      rw [hfe] at this
      have hlo' : lo ≤ s.next := Nat.le_trans hlo h.1.1
      exact ⟨h.1.trans (this.mono hlo'), fun e' he' => (h.2 e' he').mono (Nat.le_refl _) this.1⟩)
    (by
      intro pre e post rpre j r rpost mg s m s' _ hfe h
      have hx := hf e.node r s
      rw [hfe] at hx
      have hlo' : lo ≤ s.next := Nat.le_trans hlo h.1.1
      refine ⟨h.1.trans (hx.1.mono hlo'), ?_⟩
      intro e' he'
      simp only [List.mem_append, List.mem_cons, List.not_mem_nil, or_false] at he'
      rcases he' with (he' | he') | rfl
      · exact (h.2 e' (by simp [he'])).mono (Nat.le_refl _) hx.1.1
      · exact (h.2 e' (by simp [he'])).mono (Nat.le_refl _) hx.1.1
      · exact (hx.2 m rfl).mono hlo' (Nat.le_refl _))
    (by
      intro sl j0 r0 rtail mg s h
      simp only [copyIf, hfl, if_true]
      have hc := copyM_fresh r0 s
      have hlo' : lo ≤ s.next := Nat.le_trans hlo h.1.1
      refine ⟨h.1.trans (hc.1.mono hlo'), ?_⟩
      intro e' he'
      simp only [List.mem_append, List.mem_cons, List.not_mem_nil, or_false] at he'
      rcases he' with he' | rfl
      · exact (h.2 e' he').mono (Nat.le_refl _) hc.1.1
      · exact hc.2.mono hlo' (Nat.le_refl _))
    right.length slice right [] st (Nat.le_refl _) ⟨Ext.refl _ _, hs⟩
  obtain ⟨_, h⟩ := h
  exact h

theorem mergeNodeSlicesP_fresh (fl : MergeFlags) (h1 : fl.sliceCopyLeft = true)
    (h2 : fl.sliceCopyRight = true) (f : MergeFn) (hf : FreshFn f) (l r : List INode) (st : MSt) :
    Ext st.next st (mergeNodeSlicesP fl f l r st).2 ∧
    ∀ e ∈ (mergeNodeSlicesP fl f l r st).1,
      FreshNode st.next (mergeNodeSlicesP fl f l r st).2.next e.node := by
  have hc := copyLeft_fresh fl h1 (indexed l) st
  have hm := mergeLoop_fresh fl h2 f hf st.next (copyLeft fl (indexed l) st).1 (indexed r)
    (copyLeft fl (indexed l) st).2 hc.1.1 hc.2
  exact ⟨hc.1.trans hm.1, hm.2⟩

/-! ## MergeNodes: the loop over the right children -/

/-- the node with its children replaced (`n.SetNodes(ks)`) -/
def INode.setKids (n : INode) (ks : List INode) : INode := .mk n.id n.tag n.value n.ptr ks

theorem setKidsOfFirst_split (p : INode → Bool) (ks : List INode) :
    ∀ (pre : List INode) (n : INode) (post : List INode), (∀ x ∈ pre, p x = false) → p n = true →
      setKidsOfFirst p ks (pre ++ n :: post) = pre ++ n.setKids ks :: post := by
  intro pre
  induction pre with
  | nil =>
    intro n post _ hn
    obtain ⟨i, t, v, q, k⟩ := n
    simp [setKidsOfFirst, hn, INode.setKids, INode.id, INode.tag, INode.value, INode.ptr]
  | cons x xs ih =>
    intro n post hpre hn
    obtain ⟨i, t, v, q, k⟩ := x
    have hx : p (.mk i t v q k) = false := hpre _ (by simp)
    simp only [List.cons_append, setKidsOfFirst, hx, Bool.false_eq_true, if_false]
    rw [ih n post (fun y hy => hpre y (by simp [hy])) hn]

/-- Invariant rule for the loop `for _, child := range right.Nodes()` of MergeNodes: a predicate
    over (children of the result so far, right children still to do, state) that survives both
    branches — the first Equal child gets the merged grandchildren / no child is Equal and a copy
    is appended — holds at the end. -/
theorem foldRight_inv (fl : MergeFlags) (eqf : MergeFn) (root : Nat) (rootTag : Str)
    (Inv : List INode → List INode → MSt → Prop)
    (hmatch : ∀ pre n post child rest s,
      (∀ x ∈ pre, equalsShallow x.erase child.erase = false) →
      equalsShallow n.erase child.erase = true →
      Inv (pre ++ n :: post) (child :: rest) s →
      Inv (pre ++ n.setKids (mergeNodeSlices fl eqf child.kids n.kids s).1 :: post) rest
        { (mergeNodeSlices fl eqf child.kids n.kids s).2 with
          writes := (mergeNodeSlices fl eqf child.kids n.kids s).2.writes ++ [n.id] })
    (hadd : ∀ cur child rest s,
      (∀ x ∈ cur, equalsShallow x.erase child.erase = false) →
      Inv cur (child :: rest) s →
      Inv (cur ++ [(if fl.nodesCopyRight then copyChildM rootTag child s else (child, s)).1]) rest
        { (if fl.nodesCopyRight then copyChildM rootTag child s else (child, s)).2 with
          writes := (if fl.nodesCopyRight then copyChildM rootTag child s else (child, s)).2.writes ++ [root] }) :
    ∀ (kids cur : List INode) (st : MSt), Inv cur kids st →
      Inv (foldRight fl eqf root rootTag cur kids st).1 [] (foldRight fl eqf root rootTag cur kids st).2 := by
  intro kids
  induction kids with
  | nil => intro cur st h; simpa [foldRight] using h
  | cons child rest ih =>
    intro cur st h
    rw [foldRight]
    split
    · rename_i n hfind
      obtain ⟨hn, pre, post, hcur, hpre⟩ := List.find?_eq_some_iff_append.mp hfind
      subst hcur
      have hpre' : ∀ x ∈ pre, equalsShallow x.erase child.erase = false := fun x hx => by
        simpa using hpre x hx
      simp only
      rw [setKidsOfFirst_split _ _ pre n post hpre' hn]
      exact ih _ _ (hmatch pre n post child rest st hpre' hn h)
    · rename_i hfind
      have hnone : ∀ x ∈ cur, equalsShallow x.erase child.erase = false := fun x hx => by
        simpa using List.find?_eq_none.mp hfind x hx
      exact ih _ _ (hadd cur child rest st hnone h)

theorem idsList_append (a b : List INode) : idsList (a ++ b) = idsList a ++ idsList b := by
  induction a with
  | nil => rfl
  | cons x xs ih => simp [idsList, ih]

theorem foldRight_fresh (fl : MergeFlags) (hfl : fl = ⟨true, true, true⟩) (eqf : MergeFn)
    (hf : FreshFn eqf) (root : Nat) (rootTag : Str) (lo : Nat) (kids cur : List INode) (st : MSt)
    (hlo : lo ≤ st.next) (hroot : lo ≤ root)
    (hcur : ∀ i ∈ idsList cur, lo ≤ i ∧ i < st.next) :
    Ext lo st (foldRight fl eqf root rootTag cur kids st).2 ∧
    ∀ i ∈ idsList (foldRight fl eqf root rootTag cur kids st).1,
      lo ≤ i ∧ i < (foldRight fl eqf root rootTag cur kids st).2.next := by
  subst hfl
  let Inv : List INode → List INode → MSt → Prop := fun c _ s =>
    Ext lo st s ∧ ∀ i ∈ idsList c, lo ≤ i ∧ i < s.next
  have h := foldRight_inv ⟨true, true, true⟩ eqf root rootTag Inv
    (by
      intro pre n post child rest s _ _ h
      have hlo' : lo ≤ s.next := Nat.le_trans hlo h.1.1
      have hm := mergeNodeSlicesP_fresh ⟨true, true, true⟩ rfl rfl eqf hf child.kids n.kids s
      have hn : lo ≤ n.id ∧ n.id < s.next := h.2 n.id (by
        obtain ⟨i, t, v, q, k⟩ := n
        simp [idsList_append, idsList, INode.ids, INode.id])
      refine ⟨h.1.trans ⟨hm.1.1, ?_⟩, ?_⟩
      · intro w hw
        simp only [List.mem_append, List.mem_cons, List.not_mem_nil, or_false] at hw
        rcases hw with hw | rfl
        · rcases hm.1.2 w hw with h' | h'
          · exact Or.inl h'
          · exact Or.inr (Nat.le_trans hlo' h')
        · exact Or.inr hn.1
      · intro i hi
        obtain ⟨ni, nt, nv, nq, nk⟩ := n
        simp only [idsList_append, idsList, INode.setKids, INode.ids, List.mem_append,
          List.mem_cons, INode.id] at hi
        have hold : ∀ i, (i ∈ idsList pre ∨ i = ni ∨ i ∈ idsList post) → lo ≤ i ∧ i < s.next :=
          fun i hi => h.2 i (by
            simp only [idsList_append, idsList, INode.ids, List.mem_append, List.mem_cons]
            rcases hi with hi | hi | hi
            · exact Or.inl hi
            · exact Or.inr (Or.inl (Or.inl hi))
            · exact Or.inr (Or.inr hi))
        rcases hi with hi | (hi | hi) | hi
        · have := hold i (Or.inl hi); exact ⟨this.1, Nat.lt_of_lt_of_le this.2 hm.1.1⟩
        · have := hold i (Or.inr (Or.inl hi)); exact ⟨this.1, Nat.lt_of_lt_of_le this.2 hm.1.1⟩
        · obtain ⟨k, hk, hik⟩ := idsList_mem.mp hi
          obtain ⟨e, he, rfl⟩ := List.mem_map.mp hk
          have := hm.2 e he i hik
          exact ⟨Nat.le_trans hlo' this.1, this.2⟩
        · have := hold i (Or.inr (Or.inr hi)); exact ⟨this.1, Nat.lt_of_lt_of_le this.2 hm.1.1⟩)
    (by
      intro c child rest s _ h
      have hlo' : lo ≤ s.next := Nat.le_trans hlo h.1.1
      have hc := copyChildM_fresh rootTag child s
      simp only [if_true]
      refine ⟨h.1.trans ⟨hc.1.1, ?_⟩, ?_⟩
      · intro w hw
        simp only [List.mem_append, List.mem_cons, List.not_mem_nil, or_false] at hw
        rcases hw with hw | rfl
        · rcases hc.1.2 w hw with h' | h'
          · exact Or.inl h'
          · exact Or.inr (Nat.le_trans hlo' h')
        · exact Or.inr hroot
      · intro i hi
        simp only [idsList_append, idsList, List.mem_append, List.append_nil] at hi
        rcases hi with hi | hi
        · have := h.2 i hi; exact ⟨this.1, Nat.lt_of_lt_of_le this.2 hc.1.1⟩
        · have := hc.2 i hi; exact ⟨Nat.le_trans hlo' this.1, this.2⟩)
    kids cur st ⟨Ext.refl _ _, hcur⟩
  exact h

theorem copyTree_root (next : Nat) (n : INode) :
    (copyTree next n).1.id = next ∧ (copyTree next n).1.tag = n.tag ∧
    (copyTree next n).1.value = n.value ∧ (copyTree next n).1.ptr = n.ptr := by
  obtain ⟨i, t, v, p, ks⟩ := n
  simp [copyTree, INode.id, INode.tag, INode.value, INode.ptr]

theorem INode.ids_eq (n : INode) : n.ids = n.id :: idsList n.kids := by
  obtain ⟨i, t, v, p, ks⟩ := n
  simp [INode.ids, INode.id, INode.kids]

/-- the equality merge function built on a MergeNodes that is fresh is fresh -/
theorem eqMergeWith_fresh (mn : INode → INode → MSt → MergeOutcome)
    (h : ∀ l r st m st', mn l r st = .ok m st' → Ext st.next st st' ∧ FreshNode st.next st'.next m) :
    FreshFn (eqMergeWith mn) := by
  intro a b s
  unfold eqMergeWith
  split
  · split
    · rename_i m s' hmn
      have := h a b s m s' hmn
      exact ⟨this.1, fun m' hm' => by cases hm'; exact this.2⟩
    · exact ⟨Ext.refl _ _, fun _ h => by cases h⟩
    · exact ⟨⟨Nat.le_refl _, fun _ h => Or.inl h⟩, fun _ h => by cases h⟩
    · exact ⟨⟨Nat.le_refl _, fun _ h => Or.inl h⟩, fun _ h => by cases h⟩
  · exact ⟨Ext.refl _ _, fun _ h => by cases h⟩

/-- MergeNodes (repaired code: all three copies are made): the merged tree consists of objects
    allocated by the call, and every write of the call goes to such an object -/
theorem mergeNodesF_fresh (fuel : Nat) :
    ∀ (l r : INode) (st : MSt) (m : INode) (st' : MSt),
      mergeNodesF ⟨true, true, true⟩ fuel l r st = .ok m st' →
      Ext st.next st st' ∧ FreshNode st.next st'.next m := by
  induction fuel with
  | zero => intro l r st m st' h; simp [mergeNodesF] at h
  | succ fuel ih =>
    intro l r st m st' h
    simp only [mergeNodesF] at h
    split at h
    · cases h
    · injection h with h1 h2
      have hc := copyM_fresh l st
      have hroot := copyTree_root st.next l
      have hf := eqMergeWith_fresh (mergeNodesF ⟨true, true, true⟩ fuel) ih
      have hkids : ∀ i ∈ idsList (copyM l st).1.kids, st.next ≤ i ∧ i < (copyM l st).2.next := by
        intro i hi
        apply hc.2 i
        rw [INode.ids_eq]; exact List.mem_cons_of_mem _ hi
      have hfr := foldRight_fresh ⟨true, true, true⟩ rfl _ hf (copyM l st).1.id l.tag st.next
        r.kids (copyM l st).1.kids (copyM l st).2 hc.1.1
        (by simp only [copyM]; rw [hroot.1]; exact Nat.le_refl _) hkids
      subst h1 h2
      refine ⟨hc.1.trans hfr.1, ?_⟩
      intro i hi
      simp only [INode.ids, List.mem_cons] at hi
      rcases hi with rfl | hi
      · have hid : (copyM l st).1.id = st.next := hroot.1
        have hlt : st.next < (copyM l st).2.next := copyM_next l st
        exact ⟨Nat.le_of_eq hid.symm,
          Nat.lt_of_le_of_lt (Nat.le_of_eq hid) (Nat.lt_of_lt_of_le hlt hfr.1.1)⟩
      · exact hfr.2 i hi

theorem eqMergeF_fresh (fuel : Nat) : FreshFn (eqMergeF ⟨true, true, true⟩ fuel) :=
  eqMergeWith_fresh _ (mergeNodesF_fresh fuel)

theorem neverMerge_fresh : FreshFn neverMerge := fun _ _ s =>
  ⟨Ext.refl _ _, fun _ h => by simp [neverMerge] at h⟩

/-! ## the always-merging function of the harness -/

theorem copyKidsM_fresh (parent lo : Nat) :
    ∀ (ks : List INode) (st : MSt), lo ≤ st.next → lo ≤ parent →
      Ext lo st (copyKidsM parent ks st).2 ∧
      ∀ i ∈ idsList (copyKidsM parent ks st).1, st.next ≤ i ∧ i < (copyKidsM parent ks st).2.next := by
  intro ks
  induction ks with
  | nil => intro st _ _; exact ⟨Ext.refl _ _, by simp [copyKidsM, idsList]⟩
  | cons k ks ih =>
    intro st hlo hp
    have hc := copyM_fresh k st
    simp only [copyKidsM]
    have hr := ih { (copyM k st).2 with writes := (copyM k st).2.writes ++ [parent] }
      (Nat.le_trans hlo hc.1.1) hp
    have hstep : Ext lo st { (copyM k st).2 with writes := (copyM k st).2.writes ++ [parent] } := by
      refine ⟨hc.1.1, ?_⟩
      intro w hw
      simp only [List.mem_append, List.mem_cons, List.not_mem_nil, or_false] at hw
      rcases hw with hw | rfl
      · rcases hc.1.2 w hw with h | h
        · exact Or.inl h
        · exact Or.inr (Nat.le_trans hlo h)
      · exact Or.inr hp
    refine ⟨hstep.trans hr.1, ?_⟩
    intro i hi
    simp only [idsList, List.mem_append] at hi
    rcases hi with hi | hi
    · have := hc.2 i hi
      exact ⟨this.1, Nat.lt_of_lt_of_le this.2 hr.1.1⟩
    · have := hr.2 i hi
      exact ⟨Nat.le_trans hc.1.1 this.1, this.2⟩

theorem alwaysMerge_fresh : FreshFn alwaysMerge := by
  intro a b s
  simp only [alwaysMerge]
  have ha := copyKidsM_fresh s.next s.next a.kids { s with next := s.next + 1 } (Nat.le_succ _)
    (Nat.le_refl _)
  have hb := copyKidsM_fresh s.next s.next b.kids (copyKidsM s.next a.kids { s with next := s.next + 1 }).2
    (Nat.le_trans (Nat.le_succ _) ha.1.1) (Nat.le_refl _)
  have h0 : Ext s.next s { s with next := s.next + 1 } := ⟨Nat.le_succ _, fun _ h => Or.inl h⟩
  refine ⟨h0.trans (ha.1.trans hb.1), ?_⟩
  intro m hm
  simp only [Option.some.injEq] at hm
  subst hm
  intro i hi
  simp only [INode.ids, idsList_append, List.mem_cons, List.mem_append] at hi
  have h1 := ha.1.1
  have h2 := hb.1.1
  simp only at h1
  rcases hi with rfl | hi | hi
  · omega
  · have := ha.2 i hi; simp only at this; omega
  · have := hb.2 i hi; omega

end Gedcom
