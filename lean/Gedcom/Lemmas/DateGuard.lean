/-
  The guard of C07's symmetry / transitivity / permutation / edit theorems, characterised (round 4).

  * `PDate.equals_symm_iff` — the pairs of dates on which `Date.Equals` (the 4×4 table of date.go,
    model `PDate.equals`) is NOT symmetric are exactly `PDate.asymPair`: both non-zero, the same
    one-sided constraint (before/before or after/after) and different `Years()`.
  * `plainDateValue`, `dateEquiv_of_plain` — a syntactic class of DATE values on which
    `DateRange.Equals` is an equivalence: the value does not parse to a valid range (phrases,
    unparsable text: compared by original string), or both ends carry no one-sided constraint.
  * `dateEquiv_of_laws`, `dateEquiv_false_cases` — `dateEquiv D` is exactly "symmetric and
    transitive on D".
  * `guard_weakest` — whenever `dateEquiv D = false` there are trees whose DATE values all lie in
    `D` on which `DeepEqual` is not symmetric or not permutation invariant: the guard of the C07
    theorems cannot be weakened, and the known finding's matcher (the harness evaluates
    `dateEquiv` with the real `DateNode.Equals`) is exactly the complement of the guard.
  * `equalsSpec_trans_undated` — the *shallow* `Equals` of RESI / EVEN nodes ("some pair of dates
    is equal, else compare children") is transitive whenever the middle node has no DATE child
    (it is always symmetric under the guard: `equalsSpec_symm_of_ok`).
-/
import Gedcom.Lemmas.EqualLaws
import Gedcom.Model.DateGuard
import Gedcom.Lemmas.Calendar
namespace Gedcom
open G

/-! ## `Date.Equals`: the asymmetric pairs -/

theorem PDate.is_comm (a b : PDate) : a.is b = b.is a := by
  unfold PDate.is
  rw [Bool.beq_comm (a := a.day), Bool.beq_comm (a := a.month), Bool.beq_comm (a := a.year),
    Bool.beq_comm (a := a.constraint)]

theorem PDate.sameDMY_comm (a b : PDate) : a.sameDMY b = b.sameDMY a := by
  unfold PDate.sameDMY
  rw [Bool.beq_comm (a := a.day), Bool.beq_comm (a := a.month), Bool.beq_comm (a := a.year)]

theorem PDate.yearsFrac_of_sameDMY {a b : PDate} (h : a.sameDMY b = true) :
    a.yearsFrac = b.yearsFrac := by
  simp only [PDate.sameDMY, Bool.and_eq_true, beq_iff_eq] at h
  obtain ⟨⟨h1, h2⟩, h3⟩ := h
  simp [PDate.yearsFrac, PDate.toDate, h1, h2, h3]

theorem PDate.sameDMY_of_is {a b : PDate} (h : a.is b = true) : a.sameDMY b = true := by
  simp only [PDate.is, Bool.and_eq_true] at h
  simp only [PDate.sameDMY, Bool.and_eq_true]
  exact h.1

theorem PDate.yearsLt_asymm {a b : PDate} (h : a.yearsLt b = true) : b.yearsLt a = false := by
  simp only [PDate.yearsLt, decide_eq_true_eq] at h
  simp only [PDate.yearsLt, decide_eq_false_iff_not]
  omega

theorem PDate.yearsLt_of_sameDMY {a b : PDate} (h : a.sameDMY b = true) : a.yearsLt b = false := by
  simp only [PDate.yearsLt, decide_eq_false_iff_not, PDate.yearsFrac_of_sameDMY h]
  omega

/-- EXACT.  `Date.Equals` is symmetric on a pair of dates iff the pair is not `asymPair`. -/
theorem PDate.equals_symm_iff (a b : PDate) :
    a.equals b = b.equals a ↔ a.asymPair b = false := by
  unfold PDate.equals PDate.asymPair
  rw [PDate.is_comm b a, PDate.sameDMY_comm b a]
  cases hza : a.isZero <;> cases hzb : b.isZero <;> simp
  cases hi : a.is b
  · cases ha : a.constraint <;> cases hb : b.constraint <;> simp [Constraint.oneSided]
    all_goals
      cases h1 : a.yearsLt b <;> cases h2 : b.yearsLt a <;> simp
      all_goals (have := PDate.yearsLt_asymm h1; simp_all)
  · have hs := PDate.sameDMY_of_is hi
    have h1 := PDate.yearsLt_of_sameDMY hs
    rw [PDate.sameDMY_comm] at hs
    have h2 := PDate.yearsLt_of_sameDMY hs
    simp [h1, h2]

/-! ## a syntactic class on which `DateRange.Equals` is an equivalence -/

theorem PDate.equals_plain (a b : PDate) (ha : plainPDate a = true) (hb : plainPDate b = true) :
    a.equals b = (!a.isZero && !b.isZero && a.sameDMY b) := by
  unfold PDate.equals
  cases hza : a.isZero <;> cases hzb : b.isZero <;> simp
  cases hi : a.is b
  · cases hca : a.constraint <;> cases hcb : b.constraint <;>
      simp_all [plainPDate, Constraint.oneSided]
  · simp [PDate.sameDMY_of_is hi]

theorem parseDateRange_original (s : Str) : (parseDateRange s).original = s := by
  unfold parseDateRange
  simp only
  split <;> rfl

theorem PDate.sameDMY_trans {a b c : PDate} (h1 : a.sameDMY b = true) (h2 : b.sameDMY c = true) :
    a.sameDMY c = true := by
  simp only [PDate.sameDMY, Bool.and_eq_true, beq_iff_eq] at *
  exact ⟨⟨h1.1.1.trans h2.1.1, h1.1.2.trans h2.1.2⟩, h1.2.trans h2.2⟩

/-- on plain values: equal strings, or both valid with the same day / month / year at both ends -/
theorem dateValueEquals_plain (a b : Str) (ha : plainDateValue a = true)
    (hb : plainDateValue b = true) :
    dateValueEquals a b = true ↔
      a = b ∨ ((parseDateRange a).isValid = true ∧ (parseDateRange b).isValid = true ∧
        (parseDateRange a).start.sameDMY (parseDateRange b).start = true ∧
        (parseDateRange a).end_.sameDMY (parseDateRange b).end_ = true) := by
  constructor
  · intro h
    unfold dateValueEquals DateRange.equals at h
    rw [parseDateRange_original, parseDateRange_original] at h
    split at h
    · rename_i h1; simp only [Bool.and_eq_true, beq_iff_eq] at h1; exact Or.inl h1.2
    · split at h
      · rename_i h1; simp only [Bool.and_eq_true, beq_iff_eq] at h1; exact Or.inl h1.2
      · right
        simp only [Bool.and_eq_true] at h
        have nz : ∀ x y : PDate, x.equals y = true → x.isZero = false ∧ y.isZero = false := by
          intro x y hxy
          unfold PDate.equals at hxy
          cases hx : x.isZero <;> cases hy : y.isZero <;> simp_all
        have va : (parseDateRange a).isValid = true := by
          simp [DateRange.isValid, (nz _ _ h.1).1, (nz _ _ h.2).1]
        have vb : (parseDateRange b).isValid = true := by
          simp [DateRange.isValid, (nz _ _ h.1).2, (nz _ _ h.2).2]
        simp only [plainDateValue, va, vb, Bool.not_true, Bool.false_or, Bool.and_eq_true] at ha hb
        have e1 := PDate.equals_plain _ _ ha.1 hb.1
        have e2 := PDate.equals_plain _ _ ha.2 hb.2
        rw [e1] at h; rw [e2] at h
        simp only [Bool.and_eq_true] at h
        exact ⟨va, vb, h.1.2, h.2.2⟩
  · rintro (rfl | ⟨va, vb, hs, he⟩)
    · exact dateValueEquals_refl _
    · simp only [plainDateValue, va, vb, Bool.not_true, Bool.false_or, Bool.and_eq_true] at ha hb
      unfold dateValueEquals DateRange.equals
      rw [PDate.equals_plain _ _ ha.1 hb.1, PDate.equals_plain _ _ ha.2 hb.2]
      simp only [DateRange.isValid, Bool.and_eq_true, Bool.not_eq_true'] at va vb
      simp [va.1, va.2, vb.1, vb.2, hs, he]

/-! ## the plain dates are exactly the dates that are symmetric against every date -/

theorem PDate.yearsFrac_den_pos (d : PDate) : 0 < d.yearsFrac.2 := by
  unfold PDate.yearsFrac
  split
  · simp
  · split
    · rcases yearsDen_cases d.toDate with h | h <;> simp [h]
    · split <;> simp

/-- for every non-zero date with a before / after constraint there is a date (year 1 or year 2
    with the same constraint) against which `Date.Equals` is not symmetric -/
theorem oneSided_breaks (a : PDate) (hz : a.isZero = false) (h : a.constraint.oneSided = true) :
    ∃ b : PDate, b.isZero = false ∧ a.asymPair b = true := by
  have f1 : ∀ c, PDate.yearsFrac ⟨0, 0, 1, c, false⟩ = (1098, 732) := by
    intro c; cases c <;> decide
  have f2 : ∀ c, PDate.yearsFrac ⟨0, 0, 2, c, false⟩ = (1830, 732) := by
    intro c; cases c <;> decide
  have hp := PDate.yearsFrac_den_pos a
  by_cases c1 : (a.yearsLt ⟨0, 0, 1, a.constraint, false⟩ ||
      PDate.yearsLt ⟨0, 0, 1, a.constraint, false⟩ a) = true
  · refine ⟨⟨0, 0, 1, a.constraint, false⟩, rfl, ?_⟩
    unfold PDate.asymPair
    rw [hz, h, c1]
    simp [PDate.isZero]
  · by_cases c2 : (a.yearsLt ⟨0, 0, 2, a.constraint, false⟩ ||
        PDate.yearsLt ⟨0, 0, 2, a.constraint, false⟩ a) = true
    · refine ⟨⟨0, 0, 2, a.constraint, false⟩, rfl, ?_⟩
      unfold PDate.asymPair
      rw [hz, h, c2]
      simp [PDate.isZero]
    · exfalso
      simp only [PDate.yearsLt, f1, f2, Bool.or_eq_true, decide_eq_true_eq, not_or] at c1 c2
      omega

/-- EXACT.  A non-zero date is symmetric against every date iff it carries no before / after
    constraint: the plain class cannot be enlarged by any single date. -/
theorem symm_against_all_iff_plain (a : PDate) (hz : a.isZero = false) :
    (∀ b : PDate, a.equals b = b.equals a) ↔ plainPDate a = true := by
  constructor
  · intro hall
    cases hc : a.constraint.oneSided
    · simp [plainPDate, hc]
    · obtain ⟨b, _, hb⟩ := oneSided_breaks a hz hc
      have := (PDate.equals_symm_iff a b).mp (hall b)
      rw [hb] at this; cases this
  · intro hp b
    apply (PDate.equals_symm_iff a b).mpr
    simp only [plainPDate, Bool.not_eq_true'] at hp
    simp [PDate.asymPair, hp]

/-- `DateRange.Equals` is symmetric on two values unless the start pair or the end pair is an
    asymmetric pair of `Date.Equals` -/
theorem dateValueEquals_symm_of_noAsym (a b : Str)
    (hs : (parseDateRange a).start.asymPair (parseDateRange b).start = false)
    (he : (parseDateRange a).end_.asymPair (parseDateRange b).end_ = false) :
    dateValueEquals a b = dateValueEquals b a := by
  unfold dateValueEquals DateRange.equals
  rw [(PDate.equals_symm_iff _ _).mpr hs, (PDate.equals_symm_iff _ _).mpr he]
  rw [Bool.and_comm (parseDateRange a).isPhrase, Bool.and_comm (!(parseDateRange a).isValid),
    Bool.beq_comm (a := (parseDateRange a).original)]

/-! ## `dateEquiv` is "symmetric and transitive on D" -/

theorem dateEquiv_of_laws (D : List Str)
    (hs : ∀ a ∈ D, ∀ b ∈ D, dateValueEquals a b = true → dateValueEquals b a = true)
    (ht : ∀ a ∈ D, ∀ b ∈ D, ∀ c ∈ D, dateValueEquals a b = true → dateValueEquals b c = true →
      dateValueEquals a c = true) : dateEquiv D = true := by
  unfold dateEquiv
  simp only [List.all_eq_true, Bool.and_eq_true, Bool.or_eq_true, Bool.not_eq_true']
  intro a ha b hb
  constructor
  · cases hab : dateValueEquals a b
    · exact Or.inl rfl
    · exact Or.inr (hs a ha b hb hab)
  · intro c hc
    cases hab : dateValueEquals a b
    · simp
    · cases hbc : dateValueEquals b c
      · simp
      · exact Or.inr (ht a ha b hb c hc hab hbc)

theorem dateEquiv_false_cases (D : List Str) (h : dateEquiv D = false) :
    (∃ a ∈ D, ∃ b ∈ D, dateValueEquals a b = true ∧ dateValueEquals b a = false) ∨
    (∃ a ∈ D, ∃ b ∈ D, ∃ c ∈ D, dateValueEquals a b = true ∧ dateValueEquals b c = true ∧
      dateValueEquals a c = false) := by
  apply Classical.byContradiction
  intro hn
  have hs : ∀ a ∈ D, ∀ b ∈ D, dateValueEquals a b = true → dateValueEquals b a = true := by
    intro a ha b hb hab
    cases hba : dateValueEquals b a
    · exact absurd (Or.inl ⟨a, ha, b, hb, hab, hba⟩) hn
    · rfl
  have ht : ∀ a ∈ D, ∀ b ∈ D, ∀ c ∈ D, dateValueEquals a b = true → dateValueEquals b c = true →
      dateValueEquals a c = true := by
    intro a ha b hb c hc hab hbc
    cases hac : dateValueEquals a c
    · exact absurd (Or.inr ⟨a, ha, b, hb, c, hc, hab, hbc, hac⟩) hn
    · rfl
  rw [dateEquiv_of_laws D hs ht] at h
  cases h

/-- SUFFICIENT, syntactic.  `DateRange.Equals` is an equivalence on any set of plain values. -/
theorem dateEquiv_of_plain (D : List Str) (h : D.all plainDateValue = true) :
    dateEquiv D = true := by
  simp only [List.all_eq_true] at h
  apply dateEquiv_of_laws
  · intro a ha b hb hab
    rw [dateValueEquals_plain a b (h a ha) (h b hb)] at hab
    rw [dateValueEquals_plain b a (h b hb) (h a ha)]
    rcases hab with rfl | ⟨va, vb, hs, he⟩
    · exact Or.inl rfl
    · rw [PDate.sameDMY_comm] at hs he
      exact Or.inr ⟨vb, va, hs, he⟩
  · intro a ha b hb c hc hab hbc
    rw [dateValueEquals_plain a b (h a ha) (h b hb)] at hab
    rw [dateValueEquals_plain b c (h b hb) (h c hc)] at hbc
    rw [dateValueEquals_plain a c (h a ha) (h c hc)]
    rcases hab with rfl | ⟨va, vb, hs, he⟩
    · exact hbc
    · rcases hbc with rfl | ⟨_, vc, hs', he'⟩
      · exact Or.inr ⟨va, vb, hs, he⟩
      · exact Or.inr ⟨va, vc, PDate.sameDMY_trans hs hs', PDate.sameDMY_trans he he'⟩

/-! ## the guard is the weakest: counterexample trees for every `D` outside it -/

/-- a DATE node without children -/
def dateLeaf (v : Str) : Node := .mk tagDATE v [] []

theorem deepEqual_dateLeaf (a b : Str) :
    deepEqual (dateLeaf a) (dateLeaf b) = dateValueEquals a b := by
  have ra : (dateLeaf a).rule = .date := rule_of_isDate (by simp [isDate, dateLeaf, Node.tag])
  have rb : (dateLeaf b).rule = .date := rule_of_isDate (by simp [isDate, dateLeaf, Node.tag])
  rw [deepEqual_eq']
  unfold equalsSpec
  rw [ra, rb]
  simp [dateLeaf, Node.value, Node.kids, deepEqualNodes, matchKids]

theorem okNode_dateLeaf {D : List Str} {a : Str} (h : a ∈ D) : okNode D (dateLeaf a) = true := by
  simp [dateLeaf, okNode, okList, h]

/-- a BIRT node with the given DATE values as children -/
def birtOf (vs : List Str) : Node := .mk (lit "BIRT") [] [] (vs.map dateLeaf)

theorem birt_not_dateLike : isDateLike (.mk (lit "BIRT") [] [] []) = false := by decide

theorem okNode_birtOf {D : List Str} {vs : List Str} (h : ∀ v ∈ vs, v ∈ D) :
    okNode D (birtOf vs) = true := by
  unfold birtOf
  simp only [okNode, birt_not_dateLike, Bool.not_false, Bool.true_or, Bool.true_and]
  apply okList_of_mem
  intro k hk
  obtain ⟨v, hv, rfl⟩ := List.mem_map.mp hk
  exact okNode_dateLeaf (h v hv)

theorem reorderL_dateLeaves (vs : List Str) : ReorderL (vs.map dateLeaf) (vs.map dateLeaf) := by
  induction vs with
  | nil => exact .nil
  | cons v vs ih => exact .cons (.mk .nil (List.Perm.refl _)) ih

/-- rotation of three DATE children -/
theorem reorder_rotate (a b c : Str) : Reorder (birtOf [a, b, c]) (birtOf [b, c, a]) := by
  unfold birtOf
  refine .mk (reorderL_dateLeaves [a, b, c]) ?_
  simp only [List.map]
  exact (List.Perm.swap _ _ _).trans (List.Perm.cons _ (List.Perm.swap _ _ _))

/-- the greedy matching of `[a, b, c]` against `[b, c, a]` fails when `a = b`, `b = c`, `c ≠ a` -/
theorem rotate_fails (a b c : Str) (hab : dateValueEquals a b = true)
    (hbc : dateValueEquals b c = true) (hca : dateValueEquals c a = false) :
    deepEqual (birtOf [a, b, c]) (birtOf [b, c, a]) = false := by
  rw [deepEqual_eq']
  have : deepEqualNodes (birtOf [a, b, c]).kids (birtOf [b, c, a]).kids = false := by
    simp [birtOf, Node.kids, deepEqualNodes, matchKids, removeFirst, deepEqual_dateLeaf, hab, hbc,
      hca]
  rw [this]
  simp

/-- WEAKEST GUARD.  Outside the guard the laws fail on trees over the same DATE values: if
    `DateRange.Equals` is not symmetric and transitive on `D`, there are trees all of whose DATE
    values lie in `D` on which `DeepEqual` is not symmetric (two DATE nodes) or not permutation
    invariant (a BIRT with three DATE children and its rotation). -/
theorem guard_weakest (D : List Str) (h : dateEquiv D = false) :
    (∃ x y, okNode D x = true ∧ okNode D y = true ∧
      deepEqual x y = true ∧ deepEqual y x = false) ∨
    (∃ x y, okNode D x = true ∧ okNode D y = true ∧ Reorder x y ∧ deepEqual x y = false) := by
  rcases dateEquiv_false_cases D h with ⟨a, ha, b, hb, hab, hba⟩ | ⟨a, ha, b, hb, c, hc, hab, hbc, hac⟩
  · left
    exact ⟨dateLeaf a, dateLeaf b, okNode_dateLeaf ha, okNode_dateLeaf hb,
      by rw [deepEqual_dateLeaf]; exact hab, by rw [deepEqual_dateLeaf]; exact hba⟩
  · cases hca : dateValueEquals c a
    · right
      refine ⟨birtOf [a, b, c], birtOf [b, c, a], okNode_birtOf ?_, okNode_birtOf ?_,
        reorder_rotate a b c, rotate_fails a b c hab hbc hca⟩
      · intro v hv; simp at hv; rcases hv with rfl | rfl | rfl <;> assumption
      · intro v hv; simp at hv; rcases hv with rfl | rfl | rfl <;> assumption
    · left
      exact ⟨dateLeaf c, dateLeaf a, okNode_dateLeaf hc, okNode_dateLeaf ha,
        by rw [deepEqual_dateLeaf]; exact hca, by rw [deepEqual_dateLeaf]; exact hac⟩

/-! ## shallow `Equals` of RESI / EVEN nodes -/

/-- `Equals` (shallow) is symmetric under the guard — every kind, RESI / EVEN with or without
    dates included -/
theorem equalsSpec_symm_of_ok (D : List Str) (hD : dateEquiv D = true) (a b : Node)
    (ha : okNode D a = true) (hb : okNode D b = true) (h : equalsSpec a b = true) :
    equalsSpec b a = true :=
  spec_symm D hD (okNode D)
    (fun x y hx hy => deepEqual_symm_of_ok D hD x y hx hy)
    (fun x y z hx hy hz => deepEqual_trans_of_ok D hD x y z hx hy hz)
    ha hb (fun _ hx => okNode_kid ha hx) (fun _ hx => okNode_kid hb hx) h

/-- `Equals` (shallow) is transitive under the guard through a middle node that has no DATE child
    (for nodes other than RESI / EVEN the condition is not needed: `hund` is only used for them).
    With a dated middle node it is not: RESI{1900} = RESI{1900, 1901} = RESI{1901}. -/
theorem equalsSpec_trans_undated (D : List Str) (hD : dateEquiv D = true) (a b c : Node)
    (ha : okNode D a = true) (hb : okNode D b = true) (hc : okNode D c = true)
    (hund : a.rule = .resi ∨ a.rule = .even → b.dates = [])
    (h1 : equalsSpec a b = true) (h2 : equalsSpec b c = true) : equalsSpec a c = true := by
  have symQ := fun x y (hx : okNode D x = true) (hy : okNode D y = true) =>
    deepEqual_symm_of_ok D hD x y hx hy
  have transQ := fun x y z (hx : okNode D x = true) (hy : okNode D y = true)
    (hz : okNode D z = true) => deepEqual_trans_of_ok D hD x y z hx hy hz
  have hka : ∀ x ∈ a.kids, okNode D x = true := fun _ hx => okNode_kid ha hx
  have hkb : ∀ x ∈ b.kids, okNode D x = true := fun _ hx => okNode_kid hb hx
  have hkc : ∀ x ∈ c.kids, okNode D x = true := fun _ hx => okNode_kid hc hx
  have hr1 := equalsSpec_rule h1
  have hr2 := equalsSpec_rule h2
  have nodates : ∀ {l r : List Node}, datesMatch l r = true → l ≠ [] ∧ r ≠ [] := by
    intro l r h
    obtain ⟨x, hx, y, hy, _⟩ := (datesMatch_iff _ _).mp h
    exact ⟨List.ne_nil_of_mem hx, List.ne_nil_of_mem hy⟩
  unfold equalsSpec at h1 h2 ⊢
  rw [hr1] at h2
  cases hr : a.rule <;> rw [hr] at h1 h2 <;>
    simp only [Bool.and_eq_true, Bool.or_eq_true, beq_iff_eq] at h1 h2 ⊢
  · exact ⟨⟨h1.1.1.trans h2.1.1, h1.1.2.trans h2.1.2⟩, h1.2.trans h2.2⟩
  · exact h1.trans h2
  · -- resi
    have hbd := hund (Or.inl hr)
    refine ⟨h2.1, ?_⟩
    rcases h1.2 with d1 | n1
    · exact absurd hbd (nodates d1).2
    · rcases h2.2 with d2 | n2
      · exact absurd hbd (nodates d2).1
      · right
        refine ⟨by omega, ?_⟩
        exact nodes_trans (okNode D) symQ transQ (fun x hx => hka x (List.mem_filter.mp hx).1)
          (fun x hx => hkb x (List.mem_filter.mp hx).1)
          (fun x hx => hkc x (List.mem_filter.mp hx).1) n1.2 n2.2
  · -- even
    have hbd := hund (Or.inr hr)
    refine ⟨h2.1, ?_⟩
    rcases h1.2 with d1 | n1
    · exact absurd hbd (nodates d1).2
    · rcases h2.2 with d2 | n2
      · exact absurd hbd (nodates d2).1
      · right
        exact ⟨⟨⟨n1.1.1.1, n2.1.1.2⟩, n1.1.2.trans n2.1.2⟩,
          nodes_trans (okNode D) symQ transQ hka hkb hkc n1.2 n2.2⟩
  · -- date
    refine ⟨h2.1, ?_⟩
    have haD := okNode_date ha (by simp [isDateLike, hr])
    have hbD := okNode_date hb (by simp [isDateLike, hr1, hr])
    have hcD := okNode_date hc (by simp [isDateLike, hr2, hr1, hr])
    exact dateEquiv_trans hD haD hbD hcD h1.2 h2.2
  · exact ⟨h2.1, uidEquals_trans _ _ _ h1.2 h2.2⟩

end Gedcom
