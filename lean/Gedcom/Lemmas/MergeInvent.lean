/-
  "Nothing invented" for the merge model: every node of the result carries the tag, value and
  pointer of an input node of the same depth.  No guard is needed.
-/
import Gedcom.Lemmas.MergeCover
namespace Gedcom

abbrev Hdr := Str × Str × Str

mutual
/-- the (tag, value, pointer) triples of the nodes at depth `d` below (and including) the node -/
def levelAt : Nat → Node → List Hdr
  | 0, .mk t v p _ => [(t, v, p)]
  | d + 1, .mk _ _ _ ks => levelAtList d ks
def levelAtList : Nat → List Node → List Hdr
  | _, [] => []
  | d, k :: ks => levelAt d k ++ levelAtList d ks
end

theorem mem_levelAtList {d : Nat} {h : Hdr} {ks : List Node} :
    h ∈ levelAtList d ks ↔ ∃ k ∈ ks, h ∈ levelAt d k := by
  induction ks with
  | nil => simp [levelAtList]
  | cons k ks ih => simp [levelAtList, ih]

theorem levelAt_succ (d : Nat) (n : Node) : levelAt (d + 1) n = levelAtList d n.kids := by
  cases n; simp [levelAt, Node.kids]

theorem levelAt_zero (n : Node) : levelAt 0 n = [(n.tag, n.value, n.ptr)] := by
  cases n; simp [levelAt, Node.tag, Node.value, Node.ptr]

/-- every header of `v` occurs at the same depth in one of `xs` -/
def FromNodes (xs : List Node) (v : Node) : Prop :=
  ∀ d h, h ∈ levelAt d v → h ∈ levelAtList d xs

theorem FromNodes.mono {xs ys : List Node} {v : Node} (h : FromNodes xs v) (hs : ∀ x ∈ xs, x ∈ ys) :
    FromNodes ys v := by
  intro d hh hm
  obtain ⟨k, hk, hk'⟩ := mem_levelAtList.mp (h d hh hm)
  exact mem_levelAtList.mpr ⟨k, hs k hk, hk'⟩

theorem FromNodes.self {xs : List Node} {v : Node} (h : v ∈ xs) : FromNodes xs v :=
  fun _ _ hm => mem_levelAtList.mpr ⟨v, h, hm⟩

/-- if every node of `vs` stems from `xs` and `v` stems from `vs`, then `v` stems from `xs` -/
theorem FromNodes.trans {xs vs : List Node} {v : Node} (h : FromNodes vs v)
    (hs : ∀ x ∈ vs, FromNodes xs x) : FromNodes xs v := by
  intro d hh hm
  obtain ⟨k, hk, hk'⟩ := mem_levelAtList.mp (h d hh hm)
  exact hs k hk d hh hk'

/-- contract of a merge function: the merged node is made of its two arguments -/
def InvFn (f : MergeFn) : Prop :=
  ∀ a b s m s', f a b s = (some m, s') → FromNodes [a.erase, b.erase] m.erase

theorem mergeLoop_invent (fl : MergeFlags) (f : MergeFn) (hf : InvFn f) (X : List Node)
    (slice : List Elem) (right : List (Nat × INode)) (st : MSt)
    (hs : ∀ e ∈ slice, FromNodes X e.node.erase) (hr : ∀ y ∈ right, FromNodes X y.2.erase) :
    ∀ e ∈ (mergeLoop fl f slice right [] st).1, FromNodes X e.node.erase := by
  let Inv : List Elem → List (Nat × INode) → List Nat → MSt → Prop := fun sl rt _ _ =>
    (∀ e ∈ sl, FromNodes X e.node.erase) ∧ (∀ y ∈ rt, FromNodes X y.2.erase)
  have h := mergeLoop_inv fl f Inv
    (by intro sl rt mg e j r s s' _ _ _ h; exact h)
    (by
      intro pre e post rpre j r rpost mg s m s' _ hfe h
      obtain ⟨h1, h2⟩ := h
      refine ⟨?_, fun y hy => h2 y (by
        simp only [List.mem_append, List.mem_cons] at hy ⊢
        rcases hy with hy | hy
        · exact Or.inl hy
        · exact Or.inr (Or.inr hy))⟩
      intro e' he'
      simp only [List.mem_append, List.mem_cons, List.not_mem_nil, or_false] at he'
      rcases he' with (he' | he') | rfl
      · exact h1 e' (by simp [he'])
      · exact h1 e' (by simp [he'])
      · apply (hf e.node r s m s' hfe).trans
        intro x hx
        simp only [List.mem_cons, List.not_mem_nil, or_false] at hx
        rcases hx with rfl | rfl
        · exact h1 e (by simp)
        · exact h2 (j, r) (by simp))
    (by
      intro sl j0 r0 rtail mg s h
      obtain ⟨h1, h2⟩ := h
      refine ⟨?_, fun y hy => h2 y (by simp [hy])⟩
      intro e' he'
      simp only [List.mem_append, List.mem_cons, List.not_mem_nil, or_false] at he'
      rcases he' with he' | rfl
      · exact h1 e' he'
      · simpa [copyIf_erase] using h2 (j0, r0) (by simp))
    right.length slice right [] st (Nat.le_refl _) ⟨hs, hr⟩
  obtain ⟨_, h1, _⟩ := h
  exact h1

/-- FULL.  Every node of the merged list stems from a node of the same depth of the two lists. -/
theorem mergeNodeSlices_invent (fl : MergeFlags) (f : MergeFn) (hf : InvFn f) (l r : List INode)
    (st : MSt) :
    ∀ n ∈ (mergeNodeSlices fl f l r st).1, FromNodes ((l ++ r).map INode.erase) n.erase := by
  have hce := copyLeft_erase fl (indexed l) st
  have h := mergeLoop_invent fl f hf ((l ++ r).map INode.erase) (copyLeft fl (indexed l) st).1
    (indexed r) (copyLeft fl (indexed l) st).2
    (by
      intro e he
      apply FromNodes.self
      have : e.node.erase ∈ (indexed l).map (·.2.erase) := by
        rw [← hce]; exact List.mem_map.mpr ⟨e, he, rfl⟩
      obtain ⟨y, hy, h⟩ := List.mem_map.mp this
      have hy2 : y.2 ∈ (indexed l).map (·.2) := List.mem_map.mpr ⟨y, hy, rfl⟩
      rw [indexed_map_snd] at hy2
      rw [← h]
      exact List.mem_map.mpr ⟨y.2, by simp [hy2], rfl⟩)
    (by
      intro y hy
      apply FromNodes.self
      have hy2 : y.2 ∈ (indexed r).map (·.2) := List.mem_map.mpr ⟨y, hy, rfl⟩
      rw [indexed_map_snd] at hy2
      exact List.mem_map.mpr ⟨y.2, by simp [hy2], rfl⟩)
  intro n hn
  obtain ⟨e, he, rfl⟩ := List.mem_map.mp hn
  exact h e he

theorem FromNodes_setKids {X : List Node} {n : INode} {ks : List INode} {c : Node}
    (hn : FromNodes X n.erase) (hc : FromNodes X c)
    (hk : ∀ k ∈ ks, FromNodes (c.kids ++ n.erase.kids) k.erase) :
    FromNodes X (n.setKids ks).erase := by
  intro d h hm
  cases d with
  | zero =>
    apply hn 0 h
    rw [levelAt_zero] at hm ⊢
    rw [INode.setKids_erase] at hm
    rw [INode.erase_eq n]
    exact hm
  | succ d =>
    rw [levelAt_succ, INode.setKids_erase] at hm
    obtain ⟨k, hk', hk''⟩ := mem_levelAtList.mp hm
    obtain ⟨k0, hk0, rfl⟩ := List.mem_map.mp hk'
    obtain ⟨y, hy, hy'⟩ := mem_levelAtList.mp (hk k0 hk0 d h hk'')
    rcases List.mem_append.mp hy with hy | hy
    · apply hc (d + 1) h
      rw [levelAt_succ]; exact mem_levelAtList.mpr ⟨y, hy, hy'⟩
    · apply hn (d + 1) h
      rw [levelAt_succ]; exact mem_levelAtList.mpr ⟨y, hy, hy'⟩

theorem foldRight_invent (fl : MergeFlags) (eqf : MergeFn) (hf : InvFn eqf) (root : Nat)
    (rootTag : Str) (X : List Node) (kids cur : List INode) (st : MSt)
    (hcur : ∀ n ∈ cur, FromNodes X n.erase) (hkids : ∀ c ∈ kids, FromNodes X c.erase) :
    ∀ n ∈ (foldRight fl eqf root rootTag cur kids st).1, FromNodes X n.erase := by
  let Inv : List INode → List INode → MSt → Prop := fun c rest _ =>
    (∀ n ∈ c, FromNodes X n.erase) ∧ (∀ x ∈ rest, FromNodes X x.erase)
  have h := foldRight_inv fl eqf root rootTag Inv
    (by
      intro pre n post child rest s _ _ h
      obtain ⟨h1, h2⟩ := h
      refine ⟨?_, fun x hx => h2 x (by simp [hx])⟩
      intro n' hn'
      simp only [List.mem_append, List.mem_cons] at hn'
      rcases hn' with hn' | rfl | hn'
      · exact h1 n' (by simp [hn'])
      · apply FromNodes_setKids (h1 n (by simp)) (h2 child (by simp))
        intro k hk
        have := mergeNodeSlices_invent fl eqf hf child.kids n.kids s k hk
        rw [List.map_append, ← INode.erase_kids, ← INode.erase_kids] at this
        exact this
      · exact h1 n' (by simp [hn']))
    (by
      intro c child rest s _ h
      obtain ⟨h1, h2⟩ := h
      have he : (if fl.nodesCopyRight then copyChildM rootTag child s else (child, s)).1.erase = child.erase := by
        split
        · exact copyChildM_erase _ _ _
        · rfl
      refine ⟨?_, fun x hx => h2 x (by simp [hx])⟩
      intro n' hn'
      simp only [List.mem_append, List.mem_cons, List.not_mem_nil, or_false] at hn'
      rcases hn' with hn' | rfl
      · exact h1 n' hn'
      · rw [he]; exact h2 child (by simp))
    kids cur st ⟨hcur, hkids⟩
  exact h.1

theorem eqMergeWith_invent (mn : INode → INode → MSt → MergeOutcome)
    (h : ∀ l r st m st', mn l r st = .ok m st' → FromNodes [l.erase, r.erase] m.erase) :
    InvFn (eqMergeWith mn) := by
  intro a b s m s' hf
  unfold eqMergeWith at hf
  split at hf
  · split at hf
    · rename_i m0 s0 hmn
      injection hf with h1 h2
      injection h1 with h1
      subst h1
      exact h a b s m0 s0 hmn
    · cases hf
    · cases hf
    · cases hf
  · cases hf

/-- FULL.  Every node of the merged tree stems from a node of the same depth of the two inputs;
    the root is the left root. -/
theorem mergeNodesF_invent (fl : MergeFlags) (fuel : Nat) :
    ∀ (l r : INode) (st : MSt) (m : INode) (st' : MSt), mergeNodesF fl fuel l r st = .ok m st' →
      FromNodes [l.erase, r.erase] m.erase := by
  induction fuel with
  | zero => intro l r st m st' h; simp [mergeNodesF] at h
  | succ fuel ih =>
    intro l r st m st' h
    simp only [mergeNodesF] at h
    split at h
    · cases h
    · injection h with h1 h2
      have hce := copyM_erase l st
      have hroot := copyTree_root st.next l
      have hck : (copyM l st).1.kids.map INode.erase = l.kids.map INode.erase := by
        rw [← INode.erase_kids, ← INode.erase_kids, hce]
      have hf := foldRight_invent fl _ (eqMergeWith_invent _ ih) (copyM l st).1.id l.tag
        (l.erase.kids ++ r.erase.kids) r.kids (copyM l st).1.kids (copyM l st).2
        (by
          intro n hn
          apply FromNodes.self
          rw [INode.erase_kids, ← hck]
          exact List.mem_append_left _ (List.mem_map.mpr ⟨n, hn, rfl⟩))
        (by
          intro c hc
          apply FromNodes.self
          rw [INode.erase_kids r]
          exact List.mem_append_right _ (List.mem_map.mpr ⟨c, hc, rfl⟩))
      subst h1
      intro d h hm
      cases d with
      | zero =>
        rw [levelAt_zero] at hm
        simp only [INode.erase, Node.tag, Node.value, Node.ptr] at hm
        have e1 : (copyM l st).1.tag = l.tag := hroot.2.1
        have e2 : (copyM l st).1.value = l.value := hroot.2.2.1
        have e3 : (copyM l st).1.ptr = l.ptr := hroot.2.2.2
        rw [e1, e2, e3] at hm
        simp only [levelAtList, levelAt_zero, INode.erase_eq l, Node.tag, Node.value, Node.ptr]
        simp only [List.mem_cons, List.not_mem_nil, or_false] at hm
        simp [hm]
      | succ d =>
        rw [levelAt_succ] at hm
        simp only [INode.erase, Node.kids, eraseList_eq_map] at hm
        obtain ⟨k, hk, hk'⟩ := mem_levelAtList.mp hm
        obtain ⟨n, hn, rfl⟩ := List.mem_map.mp hk
        obtain ⟨y, hy, hy'⟩ := mem_levelAtList.mp (hf n hn d h hk')
        simp only [levelAtList, levelAt_succ, List.append_nil, List.mem_append]
        rcases List.mem_append.mp hy with hy | hy
        · exact Or.inl (mem_levelAtList.mpr ⟨y, hy, hy'⟩)
        · exact Or.inr (mem_levelAtList.mpr ⟨y, hy, hy'⟩)

/-- the merged root is a new object with the tag, value and pointer of the left root -/
theorem mergeNodesF_root (fl : MergeFlags) (fuel : Nat) (l r : INode) (st : MSt) (m : INode)
    (st' : MSt) (h : mergeNodesF fl fuel l r st = .ok m st') :
    sameHdr m.erase l.erase ∧ m.id = st.next := by
  cases fuel with
  | zero => simp [mergeNodesF] at h
  | succ fuel =>
    simp only [mergeNodesF] at h
    split at h
    · cases h
    · injection h with h1 h2
      have hroot := copyTree_root st.next l
      subst h1
      refine ⟨?_, hroot.1⟩
      rw [INode.erase_eq l]
      simp only [INode.erase]
      exact ⟨hroot.2.1, hroot.2.2.1, hroot.2.2.2⟩

theorem eqMergeF_invent (fl : MergeFlags) (fuel : Nat) : InvFn (eqMergeF fl fuel) :=
  eqMergeWith_invent _ (mergeNodesF_invent fl fuel)

theorem neverMerge_invent : InvFn neverMerge := by
  intro a b s m s' h; simp [neverMerge] at h

end Gedcom
