/-
  Operand-order independence of `listSimilarity` (C12) with score ties, for lists without
  repeated individuals.  The winner loop over the stably sorted row-major matrix is the greedy
  selection for the strict order "higher score first, then row, then column"; the swapped run
  is the one for "higher score first, then column, then row".  Two cells that can block each
  other (same left or same right individual) are ordered alike by both, and the accepted set is
  determined by the order among mutually blocking cells only (it is the unique set W with
  "c ∈ W iff c is eligible and no earlier member of W blocks it").
-/
import Gedcom.Lemmas.ListSymm
namespace Gedcom.Sim
open Gedcom

/-! ### the winner loop and the stable sort over an arbitrary carrier -/

section generic
variable {α : Type} (ida idb : α → Nat) (sim : α → Rat) (minimum : Rat)

def gw : List α → List Nat → List Nat → List α
  | [], _, _ => []
  | c :: cs, fa, fb =>
    if sim c < minimum then []
    else if fa.contains (ida c) || fb.contains (idb c) then gw cs fa fb
    else c :: gw cs (ida c :: fa) (idb c :: fb)

theorem gw_sublist (l : List α) (fa fb : List Nat) : (gw ida idb sim minimum l fa fb).Sublist l := by
  induction l generalizing fa fb with
  | nil => simp [gw]
  | cons c cs ih =>
    simp only [gw]
    split
    · simp
    · split
      · exact List.Sublist.cons _ (ih fa fb)
      · exact List.Sublist.cons_cons _ (ih _ _)

theorem gw_flip (l : List α) (fa fb : List Nat) :
    gw ida idb sim minimum l fa fb = gw idb ida sim minimum l fb fa := by
  induction l generalizing fa fb with
  | nil => rfl
  | cons c cs ih =>
    simp only [gw]
    rw [Bool.or_comm, ih fa fb, ih (ida c :: fa) (idb c :: fb)]

theorem gw_map {β : Type} (f : β → α) (l : List β) (fa fb : List Nat) :
    (gw (ida ∘ f) (idb ∘ f) (sim ∘ f) minimum l fa fb).map f =
      gw ida idb sim minimum (l.map f) fa fb := by
  induction l generalizing fa fb with
  | nil => rfl
  | cons c cs ih =>
    simp only [gw, List.map_cons, Function.comp]
    split
    · rfl
    · split
      · exact ih fa fb
      · simp only [List.map_cons]; rw [← ih]

/-- "W is the accepted set": a cell is in W iff it is in the list, reaches the minimum, is not
    blocked by the initial flags, and no member of W that comes earlier blocks it -/
def GenChar (lt : α → α → Prop) (W : α → Prop) (l : List α) (fa fb : List Nat) : Prop :=
  ∀ x, W x ↔ (x ∈ l ∧ ¬ sim x < minimum ∧ ida x ∉ fa ∧ idb x ∉ fb ∧
    ∀ d, W d → lt d x → ida d ≠ ida x ∧ idb d ≠ idb x)

variable (lt : α → α → Prop) (hirr : ∀ x, ¬ lt x x) (hasym : ∀ x y, lt x y → ¬ lt y x)
  (hsim : ∀ x y, lt x y → sim y ≤ sim x)

include hirr hasym hsim in
/-- the winner loop computes such a set … -/
theorem gw_sat (l : List α) (hl : l.Pairwise lt) (fa fb : List Nat) :
    GenChar ida idb sim minimum lt (· ∈ gw ida idb sim minimum l fa fb) l fa fb := by
  induction l generalizing fa fb with
  | nil => intro x; simp [gw]
  | cons c cs ih =>
    rw [List.pairwise_cons] at hl
    intro x
    simp only [gw]
    by_cases hmin : sim c < minimum
    · simp only [hmin, if_true, List.not_mem_nil, false_iff, not_and]
      intro hx hx2
      exfalso
      rcases List.mem_cons.mp hx with e | hx'
      · rw [e] at hx2; exact hx2 hmin
      · have := hsim c x (hl.1 x hx'); apply hx2; grind
    · simp only [hmin, if_false]
      by_cases hf : (fa.contains (ida c) || fb.contains (idb c)) = true
      · simp only [hf, if_true]
        have hIH := ih hl.2 fa fb x
        simp only at hIH
        rw [hIH]
        have hfc : ¬ (ida c ∉ fa ∧ idb c ∉ fb) := by
          simp only [Bool.or_eq_true, List.contains_iff_mem] at hf
          intro h; rcases hf with h1 | h1
          · exact h.1 h1
          · exact h.2 h1
        constructor
        · rintro ⟨h1, h2⟩; exact ⟨List.mem_cons_of_mem _ h1, h2⟩
        · rintro ⟨h1, h2, h3, h4, h5⟩
          rcases List.mem_cons.mp h1 with e | h1'
          · rw [e] at h3 h4; exact absurd ⟨h3, h4⟩ hfc
          · exact ⟨h1', h2, h3, h4, h5⟩
      · simp only [hf]
        have hnf : ida c ∉ fa ∧ idb c ∉ fb := by
          simp only [Bool.or_eq_true, List.contains_iff_mem, not_or] at hf
          exact hf
        have hIH := ih hl.2 (ida c :: fa) (idb c :: fb)
        have hsub : ∀ d, d ∈ gw ida idb sim minimum cs (ida c :: fa) (idb c :: fb) → d ∈ cs :=
          fun d hd => (gw_sublist ida idb sim minimum cs _ _).subset hd
        constructor
        · intro hx
          rcases List.mem_cons.mp hx with e | hx'
          · subst e
            refine ⟨by simp, hmin, hnf.1, hnf.2, ?_⟩
            intro d hd hlt
            exfalso
            rcases List.mem_cons.mp hd with e | hd'
            · rw [e] at hlt; exact hirr _ hlt
            · exact hasym _ _ (hl.1 d (hsub d hd')) hlt
          · obtain ⟨h1, h2, h3, h4, h5⟩ := (hIH x).mp hx'
            refine ⟨List.mem_cons_of_mem _ h1, h2, fun h => h3 (by simp [h]), fun h => h4 (by simp [h]), ?_⟩
            intro d hd hlt
            rcases List.mem_cons.mp hd with e | hd'
            · rw [e]
              exact ⟨fun e' => h3 (by simp [e']), fun e' => h4 (by simp [e'])⟩
            · exact h5 d hd' hlt
        · rintro ⟨h1, h2, h3, h4, h5⟩
          rcases List.mem_cons.mp h1 with e | h1'
          · rw [e]; simp
          · apply List.mem_cons_of_mem
            have hc := h5 c (by simp) (hl.1 x h1')
            apply (hIH x).mpr
            refine ⟨h1', h2, ?_, ?_, ?_⟩
            · intro h; rcases List.mem_cons.mp h with e | h'
              · exact hc.1 e.symm
              · exact h3 h'
            · intro h; rcases List.mem_cons.mp h with e | h'
              · exact hc.2 e.symm
              · exact h4 h'
            · intro d hd hlt; exact h5 d (List.mem_cons_of_mem _ hd) hlt

include hirr hasym hsim in
/-- … and it is the only one -/
theorem gw_unique (l : List α) (hl : l.Pairwise lt) (fa fb : List Nat) (W : α → Prop)
    (hW : GenChar ida idb sim minimum lt W l fa fb) :
    ∀ x, W x ↔ x ∈ gw ida idb sim minimum l fa fb := by
  induction l generalizing fa fb W with
  | nil => intro x; simp only [gw, List.not_mem_nil, iff_false]; intro h; exact absurd ((hW x).mp h).1 (by simp)
  | cons c cs ih =>
    rw [List.pairwise_cons] at hl
    have hWmem : ∀ d, W d → d ∈ c :: cs := fun d hd => ((hW d).mp hd).1
    intro x
    simp only [gw]
    by_cases hmin : sim c < minimum
    · simp only [hmin, if_true, List.not_mem_nil, iff_false]
      intro h
      obtain ⟨hx, hx2, _⟩ := (hW x).mp h
      rcases List.mem_cons.mp hx with e | hx'
      · rw [e] at hx2; exact hx2 hmin
      · have := hsim c x (hl.1 x hx'); apply hx2; grind
    · simp only [hmin, if_false]
      by_cases hf : (fa.contains (ida c) || fb.contains (idb c)) = true
      · simp only [hf, if_true]
        have hfc : ¬ (ida c ∉ fa ∧ idb c ∉ fb) := by
          simp only [Bool.or_eq_true, List.contains_iff_mem] at hf
          intro h; rcases hf with h1 | h1
          · exact h.1 h1
          · exact h.2 h1
        have hWc : ¬ W c := fun h => hfc ⟨((hW c).mp h).2.2.1, ((hW c).mp h).2.2.2.1⟩
        apply ih hl.2 fa fb W
        intro y
        constructor
        · intro hy
          obtain ⟨h1, rest⟩ := (hW y).mp hy
          rcases List.mem_cons.mp h1 with e | h1'
          · rw [e] at hy; exact absurd hy hWc
          · exact ⟨h1', rest⟩
        · rintro ⟨h1, rest⟩
          exact (hW y).mpr ⟨List.mem_cons_of_mem _ h1, rest⟩
      · simp only [hf]
        have hnf : ida c ∉ fa ∧ idb c ∉ fb := by
          simp only [Bool.or_eq_true, List.contains_iff_mem, not_or] at hf
          exact hf
        have hc_notin : c ∉ cs := fun h => hirr c (hl.1 c h)
        have hWc : W c := by
          apply (hW c).mpr
          refine ⟨by simp, hmin, hnf.1, hnf.2, ?_⟩
          intro d hd hlt
          exfalso
          rcases List.mem_cons.mp (hWmem d hd) with e | hd'
          · rw [e] at hlt; exact hirr _ hlt
          · exact hasym _ _ (hl.1 d hd') hlt
        have hW' : GenChar ida idb sim minimum lt (fun y => W y ∧ y ∈ cs) cs (ida c :: fa) (idb c :: fb) := by
          intro y
          constructor
          · rintro ⟨hy, hycs⟩
            obtain ⟨_, h2, h3, h4, h5⟩ := (hW y).mp hy
            have hcy := h5 c hWc (hl.1 y hycs)
            refine ⟨hycs, h2, ?_, ?_, fun d hd hlt => h5 d hd.1 hlt⟩
            · intro h; rcases List.mem_cons.mp h with e | h'
              · exact hcy.1 e.symm
              · exact h3 h'
            · intro h; rcases List.mem_cons.mp h with e | h'
              · exact hcy.2 e.symm
              · exact h4 h'
          · rintro ⟨h1, h2, h3, h4, h5⟩
            refine ⟨?_, h1⟩
            apply (hW y).mpr
            refine ⟨List.mem_cons_of_mem _ h1, h2, fun h => h3 (by simp [h]), fun h => h4 (by simp [h]), ?_⟩
            intro d hd hlt
            rcases List.mem_cons.mp (hWmem d hd) with e | hd'
            · rw [e]
              exact ⟨fun e' => h3 (by simp [e']), fun e' => h4 (by simp [e'])⟩
            · exact h5 d ⟨hd, hd'⟩ hlt
        have hIH := ih hl.2 (ida c :: fa) (idb c :: fb) (fun y => W y ∧ y ∈ cs) hW'
        constructor
        · intro hx
          rcases List.mem_cons.mp (hWmem x hx) with e | hx'
          · rw [e]; simp
          · exact List.mem_cons_of_mem _ ((hIH x).mp ⟨hx, hx'⟩)
        · intro hx
          rcases List.mem_cons.mp hx with e | hx'
          · rw [e]; exact hWc
          · exact ((hIH x).mpr hx').1

end generic

/-! ### the stable sort over an arbitrary carrier -/

section sorting
variable {α : Type} (sim : α → Rat)

def insertBy (c : α) : List α → List α
  | [] => [c]
  | d :: ds => if sim c < sim d then d :: insertBy c ds else c :: d :: ds

def sortBy : List α → List α
  | [] => []
  | c :: cs => insertBy sim c (sortBy cs)

theorem insertBy_perm (c : α) (l : List α) : (insertBy sim c l).Perm (c :: l) := by
  induction l with
  | nil => exact List.Perm.refl _
  | cons d ds ih =>
    simp only [insertBy]
    split
    · exact (List.Perm.cons d ih).trans (List.Perm.swap c d ds)
    · exact List.Perm.refl _

theorem sortBy_perm (l : List α) : (sortBy sim l).Perm l := by
  induction l with
  | nil => exact List.Perm.refl _
  | cons c cs ih => exact (insertBy_perm sim c _).trans (List.Perm.cons c ih)

theorem insertBy_map {β : Type} (f : β → α) (c : β) (l : List β) :
    (insertBy (sim ∘ f) c l).map f = insertBy sim (f c) (l.map f) := by
  induction l with
  | nil => rfl
  | cons d ds ih =>
    simp only [insertBy, List.map_cons, Function.comp]
    split
    · simp only [List.map_cons]; rw [ih]
    · rfl

theorem sortBy_map {β : Type} (f : β → α) (l : List β) :
    (sortBy (sim ∘ f) l).map f = sortBy sim (l.map f) := by
  induction l with
  | nil => rfl
  | cons c cs ih => simp only [sortBy, List.map_cons]; rw [insertBy_map, ih]

/-- the order a stable descending sort produces from a list that is ordered by `tie` -/
def SortedLt (tie : α → α → Prop) (x y : α) : Prop := sim y < sim x ∨ (sim x = sim y ∧ tie x y)

theorem insertBy_sorted (tie : α → α → Prop) (c : α) (l : List α)
    (hl : l.Pairwise (SortedLt sim tie)) (hc : ∀ y ∈ l, tie c y) :
    (insertBy sim c l).Pairwise (SortedLt sim tie) := by
  induction l with
  | nil => simp [insertBy]
  | cons d ds ih =>
    rw [List.pairwise_cons] at hl
    simp only [insertBy]
    split
    · rename_i hlt
      rw [List.pairwise_cons]
      refine ⟨?_, ih hl.2 (fun y hy => hc y (by simp [hy]))⟩
      intro y hy
      have hy' := (insertBy_perm sim c ds).mem_iff.mp hy
      rw [List.mem_cons] at hy'
      rcases hy' with e | hy'
      · rw [e]; exact Or.inl hlt
      · exact hl.1 y hy'
    · rename_i hlt
      have hdc : sim d ≤ sim c := Rat.not_lt.mp hlt
      rw [List.pairwise_cons]
      refine ⟨?_, List.pairwise_cons.mpr hl⟩
      intro y hy
      have hyd : sim y ≤ sim d := by
        rcases List.mem_cons.mp hy with e | hy'
        · rw [e]; exact Rat.le_refl
        · rcases hl.1 y hy' with h | h
          · exact Rat.le_of_lt h
          · rw [h.1]; exact Rat.le_refl
      by_cases hlt2 : sim y < sim c
      · exact Or.inl hlt2
      · exact Or.inr ⟨by have := Rat.not_lt.mp hlt2; grind, hc y hy⟩

theorem sortBy_sorted (tie : α → α → Prop) (l : List α) (hl : l.Pairwise tie) :
    (sortBy sim l).Pairwise (SortedLt sim tie) := by
  induction l with
  | nil => simp [sortBy]
  | cons c cs ih =>
    rw [List.pairwise_cons] at hl
    exact insertBy_sorted sim tie c _ (ih hl.2)
      (fun y hy => hl.1 y ((sortBy_perm sim cs).mem_iff.mp hy))

end sorting

theorem sortDesc_eq_sortBy (l : List Cell) : sortDesc l = sortBy (fun c => c.sim) l := by
  induction l with
  | nil => rfl
  | cons c cs ih =>
    simp only [sortDesc, sortBy, ih]
    generalize sortBy (fun c => c.sim) cs = m
    induction m with
    | nil => rfl
    | cons d ds ih2 => simp only [insertDesc, insertBy, ih2]

theorem winners_eq_gw (minimum : Rat) (l : List Cell) (fa fb : List Nat) :
    winners minimum l fa fb = gw (fun c => c.a.id) (fun c => c.b.id) (fun c => c.sim) minimum l fa fb := by
  induction l generalizing fa fb with
  | nil => rfl
  | cons c cs ih => simp only [winners, gw, ih]

/-! ### the matrix with its indices -/

def idx {α : Type} : List α → Nat → List (Nat × α)
  | [], _ => []
  | x :: xs, k => (k, x) :: idx xs (k+1)

theorem mem_idx {α : Type} {l : List α} {k i : Nat} {x : α} :
    (i, x) ∈ idx l k ↔ k ≤ i ∧ l[i - k]? = some x := by
  induction l generalizing k with
  | nil => simp [idx]
  | cons y ys ih =>
    simp only [idx, List.mem_cons, Prod.mk.injEq, ih]
    constructor
    · rintro (⟨e1, e2⟩ | ⟨h1, h2⟩)
      · subst e1; subst e2; simp
      · refine ⟨by omega, ?_⟩
        have : i - k = (i - (k+1)) + 1 := by omega
        rw [this]; simpa using h2
    · rintro ⟨h1, h2⟩
      rcases Nat.eq_or_lt_of_le h1 with e | hlt
      · left; subst e; simp at h2; exact ⟨rfl, h2.symm⟩
      · right
        refine ⟨by omega, ?_⟩
        have : i - k = (i - (k+1)) + 1 := by omega
        rw [this] at h2; simpa using h2

theorem idx_map {α β : Type} (g : α → β) (l : List α) (k : Nat) :
    (idx l k).map (fun p => g p.2) = l.map g := by
  induction l generalizing k with
  | nil => rfl
  | cons y ys ih => simp [idx, ih]

theorem idx_flatMap {α β : Type} (g : α → List β) (l : List α) (k : Nat) :
    (idx l k).flatMap (fun p => g p.2) = l.flatMap g := by
  induction l generalizing k with
  | nil => rfl
  | cons y ys ih => simp [idx, ih]

theorem idx_pairwise {α : Type} (l : List α) (k : Nat) :
    (idx l k).Pairwise (fun p q => p.1 < q.1) := by
  induction l generalizing k with
  | nil => simp [idx]
  | cons y ys ih =>
    simp only [idx, List.pairwise_cons]
    refine ⟨?_, ih (k+1)⟩
    intro q hq
    have := (mem_idx (l := ys) (k := k+1) (i := q.1) (x := q.2)).mp hq
    omega

abbrev ICell := Nat × Nat × Cell

def imatrix (xs ys : List Indi) (o : SimOpts) : List ICell :=
  (idx xs 0).flatMap fun p => (idx ys 0).map fun q => (p.1, q.1, ⟨p.2, q.2, indiSimilarity p.2 q.2 o⟩)

/-- the same cells in column-major order: the order in which the swapped call builds them -/
def imatrixT (xs ys : List Indi) (o : SimOpts) : List ICell :=
  (idx ys 0).flatMap fun q => (idx xs 0).map fun p => (p.1, q.1, ⟨p.2, q.2, indiSimilarity p.2 q.2 o⟩)

theorem mem_imatrix {xs ys : List Indi} {o : SimOpts} {x : ICell} :
    x ∈ imatrix xs ys o ↔
      xs[x.1]? = some x.2.2.a ∧ ys[x.2.1]? = some x.2.2.b ∧ x.2.2.sim = indiSimilarity x.2.2.a x.2.2.b o := by
  obtain ⟨i, j, c⟩ := x
  simp only [imatrix, List.mem_flatMap, List.mem_map, Prod.exists, Prod.mk.injEq]
  constructor
  · rintro ⟨i', a, ha, j', b, hb, e1, e2, e3⟩
    subst e1; subst e2; subst e3
    have h1 := (mem_idx.mp ha).2
    have h2 := (mem_idx.mp hb).2
    simp at h1 h2
    exact ⟨h1, h2, rfl⟩
  · rintro ⟨h1, h2, h3⟩
    refine ⟨i, c.a, mem_idx.mpr ⟨by omega, by simpa using h1⟩, j, c.b, mem_idx.mpr ⟨by omega, by simpa using h2⟩, rfl, rfl, ?_⟩
    cases c; simp_all

theorem mem_imatrixT {xs ys : List Indi} {o : SimOpts} {x : ICell} :
    x ∈ imatrixT xs ys o ↔ x ∈ imatrix xs ys o := by
  rw [mem_imatrix]
  obtain ⟨i, j, c⟩ := x
  simp only [imatrixT, List.mem_flatMap, List.mem_map, Prod.exists, Prod.mk.injEq]
  constructor
  · rintro ⟨j', b, hb, i', a, ha, e1, e2, e3⟩
    subst e1; subst e2; subst e3
    have h1 := (mem_idx.mp ha).2
    have h2 := (mem_idx.mp hb).2
    simp at h1 h2
    exact ⟨h1, h2, rfl⟩
  · rintro ⟨h1, h2, h3⟩
    refine ⟨j, c.b, mem_idx.mpr ⟨by omega, by simpa using h2⟩, i, c.a, mem_idx.mpr ⟨by omega, by simpa using h1⟩, rfl, rfl, ?_⟩
    cases c; simp_all

theorem imatrix_cells (xs ys : List Indi) (o : SimOpts) :
    (imatrix xs ys o).map (fun x => x.2.2) = matrix xs ys o := by
  simp only [imatrix, matrix, List.map_flatMap, List.map_map]
  rw [← idx_flatMap (fun a => ys.map fun b => (⟨a, b, indiSimilarity a b o⟩ : Cell)) xs 0]
  congr 1
  funext p
  exact idx_map (fun b => (⟨p.2, b, indiSimilarity p.2 b o⟩ : Cell)) ys 0

theorem imatrixT_cells (xs ys : List Indi) (o : SimOpts) :
    (imatrixT xs ys o).map (fun x => x.2.2.swap) = matrix ys xs o := by
  simp only [imatrixT, matrix, List.map_flatMap, List.map_map, Cell.swap]
  rw [← idx_flatMap (fun b => xs.map fun a => (⟨b, a, indiSimilarity b a o⟩ : Cell)) ys 0]
  congr 1
  funext q
  rw [← idx_map (fun a => (⟨q.2, a, indiSimilarity q.2 a o⟩ : Cell)) xs 0]
  apply List.map_congr_left
  intro p _
  simp [indiSimilarity_symm p.2 q.2 o]

def rowMajor (x y : ICell) : Prop := x.1 < y.1 ∨ (x.1 = y.1 ∧ x.2.1 < y.2.1)
def colMajor (x y : ICell) : Prop := x.2.1 < y.2.1 ∨ (x.2.1 = y.2.1 ∧ x.1 < y.1)

theorem imatrix_rowMajor (xs ys : List Indi) (o : SimOpts) : (imatrix xs ys o).Pairwise rowMajor := by
  unfold imatrix
  rw [List.pairwise_flatMap]
  constructor
  · intro p _
    rw [List.pairwise_map]
    exact (idx_pairwise ys 0).imp (fun h => Or.inr ⟨rfl, h⟩)
  · refine (idx_pairwise xs 0).imp ?_
    intro p p' h x hx y hy
    obtain ⟨q, _, e⟩ := List.mem_map.mp hx
    obtain ⟨q', _, e'⟩ := List.mem_map.mp hy
    rw [← e, ← e']
    exact Or.inl h

theorem imatrixT_colMajor (xs ys : List Indi) (o : SimOpts) : (imatrixT xs ys o).Pairwise colMajor := by
  unfold imatrixT
  rw [List.pairwise_flatMap]
  constructor
  · intro q _
    rw [List.pairwise_map]
    exact (idx_pairwise xs 0).imp (fun h => Or.inr ⟨rfl, h⟩)
  · refine (idx_pairwise ys 0).imp ?_
    intro q q' h x hx y hy
    obtain ⟨p, _, e⟩ := List.mem_map.mp hx
    obtain ⟨p', _, e'⟩ := List.mem_map.mp hy
    rw [← e, ← e']
    exact Or.inl h

/-! ### the two runs -/

def iA (x : ICell) : Nat := x.2.2.a.id
def iB (x : ICell) : Nat := x.2.2.b.id
def iS (x : ICell) : Rat := x.2.2.sim

theorem sortedLt_irrefl (tie : ICell → ICell → Prop) (ht : ∀ x, ¬ tie x x) (x : ICell) :
    ¬ SortedLt iS tie x x := by
  intro h
  rcases h with h | h
  · exact Rat.lt_irrefl h
  · exact ht x h.2

theorem sortedLt_asymm (tie : ICell → ICell → Prop) (ht : ∀ x y, tie x y → ¬ tie y x) (x y : ICell)
    (h : SortedLt iS tie x y) : ¬ SortedLt iS tie y x := by
  intro h'
  rcases h with h | h <;> rcases h' with h' | h'
  · exact Rat.lt_irrefl (show iS x < iS x by grind)
  · rw [h'.1] at h; exact Rat.lt_irrefl h
  · rw [h.1] at h'; exact Rat.lt_irrefl h'
  · exact ht x y h.2 h'.2

theorem sortedLt_sim (tie : ICell → ICell → Prop) (x y : ICell) (h : SortedLt iS tie x y) : iS y ≤ iS x := by
  rcases h with h | h
  · exact Rat.le_of_lt h
  · rw [h.1]; exact Rat.le_refl

theorem rowMajor_irrefl (x : ICell) : ¬ rowMajor x x := by unfold rowMajor; omega
theorem colMajor_irrefl (x : ICell) : ¬ colMajor x x := by unfold colMajor; omega
theorem rowMajor_asymm (x y : ICell) (h : rowMajor x y) : ¬ rowMajor y x := by unfold rowMajor at *; omega
theorem colMajor_asymm (x y : ICell) (h : colMajor x y) : ¬ colMajor y x := by unfold colMajor at *; omega

/-- with no individual repeated inside a list, two cells share a left (right) individual exactly
    when they are in the same row (column) -/
theorem same_row {xs ys : List Indi} {o : SimOpts} (hx : (xs.map (·.id)).Nodup) {x y : ICell}
    (h1 : x ∈ imatrix xs ys o) (h2 : y ∈ imatrix xs ys o) (e : iA x = iA y) : x.1 = y.1 := by
  have a1 := (mem_imatrix.mp h1).1
  have a2 := (mem_imatrix.mp h2).1
  have hlt : x.1 < (xs.map (·.id)).length := by
    rw [List.length_map]
    rcases Nat.lt_or_ge x.1 xs.length with h | h
    · exact h
    · rw [List.getElem?_eq_none h] at a1; cases a1
  apply (List.getElem?_inj hlt hx).mp
  rw [List.getElem?_map, List.getElem?_map, a1, a2]
  simp only [Option.map_some]
  exact congrArg some e

theorem same_col {xs ys : List Indi} {o : SimOpts} (hy : (ys.map (·.id)).Nodup) {x y : ICell}
    (h1 : x ∈ imatrix xs ys o) (h2 : y ∈ imatrix xs ys o) (e : iB x = iB y) : x.2.1 = y.2.1 := by
  have a1 := (mem_imatrix.mp h1).2.1
  have a2 := (mem_imatrix.mp h2).2.1
  have hlt : x.2.1 < (ys.map (·.id)).length := by
    rw [List.length_map]
    rcases Nat.lt_or_ge x.2.1 ys.length with h | h
    · exact h
    · rw [List.getElem?_eq_none h] at a1; cases a1
  apply (List.getElem?_inj hlt hy).mp
  rw [List.getElem?_map, List.getElem?_map, a1, a2]
  simp only [Option.map_some]
  exact congrArg some e

/-- cells that can block each other are ordered alike by the two runs -/
theorem orders_agree {xs ys : List Indi} {o : SimOpts} (hx : (xs.map (·.id)).Nodup)
    (hy : (ys.map (·.id)).Nodup) {x y : ICell} (h1 : x ∈ imatrix xs ys o) (h2 : y ∈ imatrix xs ys o)
    (hc : iA x = iA y ∨ iB x = iB y) :
    SortedLt iS rowMajor x y ↔ SortedLt iS colMajor x y := by
  unfold SortedLt rowMajor colMajor
  rcases hc with e | e
  · have := same_row hx h1 h2 e
    constructor <;> rintro (h | ⟨h, h'⟩)
    · exact Or.inl h
    · exact Or.inr ⟨h, by omega⟩
    · exact Or.inl h
    · exact Or.inr ⟨h, by omega⟩
  · have := same_col hy h1 h2 e
    constructor <;> rintro (h | ⟨h, h'⟩)
    · exact Or.inl h
    · exact Or.inr ⟨h, by omega⟩
    · exact Or.inl h
    · exact Or.inr ⟨h, by omega⟩

theorem sumSims_perm {l₁ l₂ : List Cell} (h : l₁.Perm l₂) : sumSims l₁ = sumSims l₂ := by
  induction h with
  | nil => rfl
  | cons x _ ih => simp only [sumSims, ih]
  | swap x y l => simp only [sumSims]; grind
  | trans _ _ ih1 ih2 => rw [ih1, ih2]

/-- the winners of the two runs are the same cells -/
theorem winners_runs_perm (xs ys : List Indi) (o : SimOpts) (minimum : Rat)
    (hx : (xs.map (·.id)).Nodup) (hy : (ys.map (·.id)).Nodup) :
    (gw iA iB iS minimum (sortBy iS (imatrix xs ys o)) [] []).Perm
      (gw iA iB iS minimum (sortBy iS (imatrixT xs ys o)) [] []) := by
  have hs1 := sortBy_sorted iS rowMajor _ (imatrix_rowMajor xs ys o)
  have hs2 := sortBy_sorted iS colMajor _ (imatrixT_colMajor xs ys o)
  have irr1 := sortedLt_irrefl rowMajor rowMajor_irrefl
  have irr2 := sortedLt_irrefl colMajor colMajor_irrefl
  have as1 := sortedLt_asymm rowMajor rowMajor_asymm
  have as2 := sortedLt_asymm colMajor colMajor_asymm
  have mem1 : ∀ x, x ∈ sortBy iS (imatrix xs ys o) ↔ x ∈ imatrix xs ys o :=
    fun x => (sortBy_perm iS _).mem_iff
  have mem2 : ∀ x, x ∈ sortBy iS (imatrixT xs ys o) ↔ x ∈ imatrix xs ys o :=
    fun x => ((sortBy_perm iS _).mem_iff).trans mem_imatrixT
  have c1 := gw_sat iA iB iS minimum (SortedLt iS rowMajor) irr1 as1 (sortedLt_sim rowMajor) _ hs1 [] []
  -- the accepted set of the first run satisfies the characterisation of the second run
  have c2 : GenChar iA iB iS minimum (SortedLt iS colMajor)
      (· ∈ gw iA iB iS minimum (sortBy iS (imatrix xs ys o)) [] []) (sortBy iS (imatrixT xs ys o)) [] [] := by
    intro x
    rw [c1 x, mem1, mem2]
    have hin : ∀ d, d ∈ gw iA iB iS minimum (sortBy iS (imatrix xs ys o)) [] [] → d ∈ imatrix xs ys o :=
      fun d hd => (mem1 d).mp ((gw_sublist iA iB iS minimum _ _ _).subset hd)
    constructor
    · rintro ⟨h1, h2, h3, h4, h5⟩
      refine ⟨h1, h2, h3, h4, ?_⟩
      intro d hd hlt
      by_cases hc : iA d = iA x ∨ iB d = iB x
      · exact absurd hc (by
          have := h5 d hd ((orders_agree hx hy (hin d hd) h1 hc).mpr hlt)
          intro hc'; rcases hc' with e | e
          · exact this.1 e
          · exact this.2 e)
      · exact ⟨fun e => hc (Or.inl e), fun e => hc (Or.inr e)⟩
    · rintro ⟨h1, h2, h3, h4, h5⟩
      refine ⟨h1, h2, h3, h4, ?_⟩
      intro d hd hlt
      by_cases hc : iA d = iA x ∨ iB d = iB x
      · exact absurd hc (by
          have := h5 d hd ((orders_agree hx hy (hin d hd) h1 hc).mp hlt)
          intro hc'; rcases hc' with e | e
          · exact this.1 e
          · exact this.2 e)
      · exact ⟨fun e => hc (Or.inl e), fun e => hc (Or.inr e)⟩
  have hu := gw_unique iA iB iS minimum (SortedLt iS colMajor) irr2 as2 (sortedLt_sim colMajor) _ hs2 [] [] _ c2
  have n1 : (sortBy iS (imatrix xs ys o)).Nodup :=
    List.Pairwise.imp (fun {a b} (h : SortedLt iS rowMajor a b) (e : a = b) => irr1 b (e ▸ h)) hs1
  have n2 : (sortBy iS (imatrixT xs ys o)).Nodup :=
    List.Pairwise.imp (fun {a b} (h : SortedLt iS colMajor a b) (e : a = b) => irr2 b (e ▸ h)) hs2
  exact (List.perm_ext_iff_of_nodup (List.Nodup.sublist (gw_sublist _ _ _ _ _ _ _) n1)
    (List.Nodup.sublist (gw_sublist _ _ _ _ _ _ _) n2)).mpr hu

theorem winners_first_run (xs ys : List Indi) (o : SimOpts) (minimum : Rat) :
    winners minimum (sortDesc (matrix xs ys o)) [] [] =
      (gw iA iB iS minimum (sortBy iS (imatrix xs ys o)) [] []).map (fun x => x.2.2) := by
  rw [winners_eq_gw, sortDesc_eq_sortBy, ← imatrix_cells xs ys o]
  have h1 := sortBy_map (fun c : Cell => c.sim) (fun x : ICell => x.2.2) (imatrix xs ys o)
  rw [← h1]
  exact (gw_map (fun c : Cell => c.a.id) (fun c : Cell => c.b.id) (fun c : Cell => c.sim) minimum
    (fun x : ICell => x.2.2) _ [] []).symm

theorem winners_second_run (xs ys : List Indi) (o : SimOpts) (minimum : Rat) :
    winners minimum (sortDesc (matrix ys xs o)) [] [] =
      (gw iA iB iS minimum (sortBy iS (imatrixT xs ys o)) [] []).map (fun x => x.2.2.swap) := by
  rw [winners_eq_gw, sortDesc_eq_sortBy, ← imatrixT_cells xs ys o]
  have h1 := sortBy_map (fun c : Cell => c.sim) (fun x : ICell => x.2.2.swap) (imatrixT xs ys o)
  rw [← h1]
  have h2 := gw_map (fun c : Cell => c.a.id) (fun c : Cell => c.b.id) (fun c : Cell => c.sim) minimum
    (fun x : ICell => x.2.2.swap) (sortBy ((fun c : Cell => c.sim) ∘ fun x : ICell => x.2.2.swap) (imatrixT xs ys o)) [] []
  rw [← h2]
  congr 1
  exact (gw_flip iA iB iS minimum _ [] []).symm

/-- list similarity does not depend on the operand order, score ties included, when no
    individual is repeated inside either list (the two lists may share individuals) -/
theorem listSimilarity_symm_ties (xs ys : List Indi) (o : SimOpts)
    (hx : (xs.map (·.id)).Nodup) (hy : (ys.map (·.id)).Nodup) :
    listSimilarity xs ys o = listSimilarity ys xs o := by
  have hp := winners_runs_perm xs ys o o.minimumSimilarity hx hy
  have hsum : sumSims (winners o.minimumSimilarity (sortDesc (matrix ys xs o)) [] []) =
      sumSims (winners o.minimumSimilarity (sortDesc (matrix xs ys o)) [] []) := by
    rw [winners_second_run xs ys o, winners_first_run xs ys o]
    have e : (gw iA iB iS o.minimumSimilarity (sortBy iS (imatrixT xs ys o)) [] []).map (fun x => x.2.2.swap) =
        ((gw iA iB iS o.minimumSimilarity (sortBy iS (imatrixT xs ys o)) [] []).map (fun x => x.2.2)).map Cell.swap := by
      rw [List.map_map]; rfl
    rw [e, sumSims_swap]
    exact sumSims_perm (hp.symm.map _)
  have hlen : (winners o.minimumSimilarity (sortDesc (matrix ys xs o)) [] []).length =
      (winners o.minimumSimilarity (sortDesc (matrix xs ys o)) [] []).length := by
    rw [winners_second_run xs ys o, winners_first_run xs ys o, List.length_map, List.length_map]
    exact hp.symm.length_eq
  unfold listSimilarity
  by_cases h1 : xs.length = 0 <;> by_cases h2 : ys.length = 0
  · simp [h1, h2]
  · simp [h1, h2]
  · simp [h1, h2]
  · simp only [h1, h2, and_self, or_self, if_false]
    rw [hsum, hlen, Nat.max_comm]

end Gedcom.Sim
