/-
  C11: the guard `JobsOK` of the validity theorems follows from guards on the inputs — distinct
  nodes and pointers unique per side.
-/
import Gedcom.Lemmas.Match
namespace Gedcom.Match
open Gedcom

/-- pointers are unique on each side -/
def PtrsOK (L R : List Person) : Prop := (L.map (·.ptr)).Nodup ∧ (R.map (·.ptr)).Nodup

instance (L R : List Person) : Decidable (PtrsOK L R) := by unfold PtrsOK; exact inferInstance

theorem inj_of_nodup_map {α β : Type} (f : α → β) {l : List α} (h : (l.map f).Nodup) {a b : α}
    (ha : a ∈ l) (hb : b ∈ l) (e : f a = f b) : a = b := by
  induction l with
  | nil => cases ha
  | cons c cs ih =>
    simp only [List.map_cons, List.nodup_cons] at h
    rcases List.mem_cons.mp ha with rfl | ha' <;> rcases List.mem_cons.mp hb with rfl | hb'
    · rfl
    · exact absurd (List.mem_map.mpr ⟨b, hb', e.symm⟩) h.1
    · exact absurd (List.mem_map.mpr ⟨a, ha', e⟩) h.1
    · exact ih h.2 ha' hb'

/-! ### createUniqueJobs -/

theorem uniqueJobs_sent_mono (ch : Person → Option Person) (as : List Person) (s : Sent) :
    (∀ x ∈ s.a, x ∈ (uniqueJobs ch as s).2.a) ∧ (∀ x ∈ s.b, x ∈ (uniqueJobs ch as s).2.b) := by
  induction as generalizing s with
  | nil => simp [uniqueJobs]
  | cons a as ih =>
    simp only [uniqueJobs]
    split
    · exact ih s
    · rename_i b hb
      split
      · exact ih s
      · have := ih ⟨a.ptr :: s.a, b.ptr :: s.b⟩
        exact ⟨fun x hx => this.1 x (by simp [hx]), fun x hx => this.2 x (by simp [hx])⟩

/-- what a unique-identifier job is, relative to the sent sets the phase started with and the
    ones it ends with -/
def UidJob (R as : List Person) (s s' : Sent) (j : Job) : Prop :=
  j.certain = true ∧ (∃ a ∈ as, a.id = j.l ∧ a.ptr ∈ s'.a) ∧
    (∃ b ∈ R, b.id = j.r ∧ b.ptr ∈ s'.b ∧ b.ptr ∉ s.b)

theorem uniqueJobs_spec (R : List Person) (ch : Person → Option Person) (hch : ChoiceOK R ch)
    (hR : (R.map (·.id)).Nodup) (as : List Person) (s : Sent) :
    ((uniqueJobs ch as s).1.map (·.l)).Sublist (as.map (·.id)) ∧
    ((uniqueJobs ch as s).1.map (·.r)).Nodup ∧
    (∀ j ∈ (uniqueJobs ch as s).1, UidJob R as s (uniqueJobs ch as s).2 j) := by
  induction as generalizing s with
  | nil => simp [uniqueJobs]
  | cons a as ih =>
    have lift : ∀ s0 s' j, UidJob R as s0 s' j → (∀ x, x ∈ s.b → x ∈ s0.b) → UidJob R (a :: as) s s' j := by
      rintro s0 s' j ⟨hc, ⟨a', ha', e1, e2⟩, ⟨b', hb', e3, e4, e5⟩⟩ hsub
      exact ⟨hc, ⟨a', by simp [ha'], e1, e2⟩, ⟨b', hb', e3, e4, fun hm => e5 (hsub _ hm)⟩⟩
    simp only [uniqueJobs]
    split
    · have := ih s
      exact ⟨List.Sublist.cons _ this.1, this.2.1, fun j hj => lift s _ j (this.2.2 j hj) (fun _ h => h)⟩
    · rename_i b hb
      split
      · have := ih s
        exact ⟨List.Sublist.cons _ this.1, this.2.1, fun j hj => lift s _ j (this.2.2 j hj) (fun _ h => h)⟩
      · rename_i hsb
        have := ih ⟨a.ptr :: s.a, b.ptr :: s.b⟩
        have hm := uniqueJobs_sent_mono ch as ⟨a.ptr :: s.a, b.ptr :: s.b⟩
        have hbR := (hch a b hb).1
        refine ⟨?_, ?_, ?_⟩
        · simp only [List.map_cons]; exact List.Sublist.cons_cons _ this.1
        · simp only [List.map_cons, List.nodup_cons]
          refine ⟨?_, this.2.1⟩
          intro hmem
          obtain ⟨j, hj, ej⟩ := List.mem_map.mp hmem
          obtain ⟨_, _, ⟨b', hb', e3, _, e5⟩⟩ := this.2.2 j hj
          have : b' = b := inj_of_nodup_map (·.id) hR hb' hbR (by rw [e3, ej])
          rw [this] at e5
          exact e5 (by simp)
        · intro j hj
          simp only [List.mem_cons] at hj
          rcases hj with e | hj
          · subst e
            exact ⟨rfl, ⟨a, by simp, rfl, hm.1 _ (by simp)⟩, ⟨b, hbR, rfl, hm.2 _ (by simp), by simpa using hsb⟩⟩
          · exact lift _ _ j (this.2.2 j hj) (fun x hx => by simp [hx])

/-! ### createPointerJobs -/

/-- what a pointer job is, relative to the sent sets the phase started with -/
def PtrJob (R as : List Person) (s : Sent) (j : Job) : Prop :=
  j.certain = true ∧ ∃ a ∈ as, a.id = j.l ∧ a.ptr ∉ s.a ∧ ∃ b ∈ R, b.id = j.r ∧ b.ptr = a.ptr ∧ b.ptr ∉ s.b

theorem PtrJob.weaken {R as : List Person} {s : Sent} {a0 : Person} {x y : Str} {j : Job}
    (h : PtrJob R as ⟨x :: s.a, y :: s.b⟩ j) : PtrJob R (a0 :: as) s j := by
  obtain ⟨hc, a, ha, e1, e2, b, hb, e3, e4, e5⟩ := h
  exact ⟨hc, a, by simp [ha], e1, fun hm => e2 (by simp [hm]), b, hb, e3, e4, fun hm => e5 (by simp [hm])⟩

theorem PtrJob.tail {R as : List Person} {s : Sent} {a0 : Person} {j : Job}
    (h : PtrJob R as s j) : PtrJob R (a0 :: as) s j := by
  obtain ⟨hc, a, ha, rest⟩ := h
  exact ⟨hc, a, by simp [ha], rest⟩

theorem pointerJobs_spec (R : List Person) (scoreT : Nat → Nat → Rat) (prefer : Rat)
    (as : List Person) (s : Sent) (hR : (R.map (·.id)).Nodup) (hA : (as.map (·.ptr)).Nodup) :
    ((pointerJobs R scoreT prefer as s).1.map (·.l)).Sublist (as.map (·.id)) ∧
    ((pointerJobs R scoreT prefer as s).1.map (·.r)).Nodup ∧
    (∀ j ∈ (pointerJobs R scoreT prefer as s).1, PtrJob R as s j) := by
  induction as generalizing s with
  | nil => simp [pointerJobs]
  | cons a as ih =>
    simp only [List.map_cons, List.nodup_cons] at hA
    have skip : ∀ s', (∀ j ∈ (pointerJobs R scoreT prefer as s').1, PtrJob R as s' j) →
        ∀ j ∈ (pointerJobs R scoreT prefer as s').1, PtrJob R (a :: as) s' j :=
      fun s' h j hj => (h j hj).tail
    simp only [pointerJobs]
    split
    · have := ih s hA.2
      exact ⟨List.Sublist.cons _ this.1, this.2.1, skip s this.2.2⟩
    · split
      · have := ih s hA.2
        exact ⟨List.Sublist.cons _ this.1, this.2.1, skip s this.2.2⟩
      · rename_i hsa _ b hb
        split
        · have := ih s hA.2
          exact ⟨List.Sublist.cons _ this.1, this.2.1, skip s this.2.2⟩
        · rename_i hsb
          split
          · have := ih ⟨a.ptr :: s.a, b.ptr :: s.b⟩ hA.2
            have hbR := List.mem_of_find?_eq_some hb
            have hbp : b.ptr = a.ptr := by simpa using List.find?_some hb
            refine ⟨?_, ?_, ?_⟩
            · simp only [List.map_cons]; exact List.Sublist.cons_cons _ this.1
            · simp only [List.map_cons, List.nodup_cons]
              refine ⟨?_, this.2.1⟩
              intro hm
              obtain ⟨j, hj, ej⟩ := List.mem_map.mp hm
              obtain ⟨_, a', ha', _, _, b', hb', e3, e4, _⟩ := this.2.2 j hj
              have : b' = b := inj_of_nodup_map (·.id) hR hb' hbR (by rw [e3, ej])
              apply hA.1
              rw [← hbp, ← this, e4]
              exact List.mem_map.mpr ⟨a', ha', rfl⟩
            · intro j hj
              simp only [List.mem_cons] at hj
              rcases hj with e | hj
              · subst e
                refine ⟨rfl, a, by simp, rfl, ?_, b, hbR, rfl, hbp, ?_⟩
                · simpa using hsa
                · simpa using hsb
              · exact (this.2.2 j hj).weaken
          · have := ih s hA.2
            exact ⟨List.Sublist.cons _ this.1, this.2.1, skip s this.2.2⟩

/-! ### all jobs -/

theorem jobsFrom_eq (ch : Person → Option Person) (s0 : Sent) (L R : List Person)
    (scoreT scoreF : Nat → Nat → Rat) (prefer : Rat) (h : R.isEmpty = false) :
    jobsFrom ch s0 L R scoreT scoreF prefer =
      (uniqueJobs ch L s0).1 ++
      (pointerJobs R scoreT prefer L (uniqueJobs ch L s0).2).1 ++
      matrixJobs L R (pointerJobs R scoreT prefer L (uniqueJobs ch L s0).2).2 scoreF := by
  unfold jobsFrom
  simp [h]

theorem matrixJobs_uncertain (L R : List Person) (s : Sent) (scoreF : Nat → Nat → Rat) :
    ∀ j ∈ matrixJobs L R s scoreF, j.certain = false := by
  intro j hj
  simp only [matrixJobs, List.mem_flatMap, List.mem_map] at hj
  obtain ⟨a, _, b, _, e⟩ := hj
  rw [← e]

/-- for every resolution `ch` of the unique-identifier choices and whatever sent sets the options
    value starts with: the certain jobs pair nobody twice -/
theorem jobsOK_from (L R : List Person) (scoreT scoreF : Nat → Nat → Rat) (prefer : Rat)
    (ch : Person → Option Person) (hch : ChoiceOK R ch) (s0 : Sent)
    (hids : IdsOK L R) (hp : PtrsOK L R) :
    JobsOK L R (jobsFrom ch s0 L R scoreT scoreF prefer) := by
  have hLid : (L.map (·.id)).Nodup := by
    unfold IdsOK at hids; rw [List.nodup_append] at hids; exact hids.1
  have hRid : (R.map (·.id)).Nodup := by
    unfold IdsOK at hids; rw [List.nodup_append] at hids; exact hids.2.1
  refine ⟨?_, ?_⟩
  · intro j hj
    obtain ⟨a, ha, b, hb, el, er, _⟩ := jobsFrom_justified L R scoreT scoreF prefer ch hch s0 j hj
    exact ⟨by rw [el]; exact List.mem_map.mpr ⟨a, ha, rfl⟩, by rw [er]; exact List.mem_map.mpr ⟨b, hb, rfl⟩⟩
  · by_cases hR : R.isEmpty = true
    · have : jobsFrom ch s0 L R scoreT scoreF prefer = [] := by unfold jobsFrom; simp [hR]
      rw [this]; simp
    · have hR' : R.isEmpty = false := by simpa using hR
      rw [jobsFrom_eq ch s0 L R scoreT scoreF prefer hR']
      have hU := uniqueJobs_spec R ch hch hRid L s0
      have hP := pointerJobs_spec R scoreT prefer L (uniqueJobs ch L s0).2 hRid hp.1
      have hM := matrixJobs_uncertain L R (pointerJobs R scoreT prefer L (uniqueJobs ch L s0).2).2 scoreF
      -- the certain jobs are exactly the unique-identifier jobs followed by the pointer jobs
      have hf : ((uniqueJobs ch L s0).1 ++
          (pointerJobs R scoreT prefer L (uniqueJobs ch L s0).2).1 ++
          matrixJobs L R (pointerJobs R scoreT prefer L (uniqueJobs ch L s0).2).2 scoreF).filter (·.certain) =
          (uniqueJobs ch L s0).1 ++ (pointerJobs R scoreT prefer L (uniqueJobs ch L s0).2).1 := by
        rw [List.filter_append, List.filter_append]
        rw [List.filter_eq_self.mpr (fun j hj => (hU.2.2 j hj).1),
          List.filter_eq_self.mpr (fun j hj => (hP.2.2 j hj).1),
          List.filter_eq_nil_iff.mpr (fun j hj => by simp [hM j hj])]
        simp
      rw [hf]
      simp only [List.map_append, List.nodup_append]
      refine ⟨⟨List.Nodup.sublist hU.1 hLid, List.Nodup.sublist hP.1 hLid, ?_⟩,
        ⟨hU.2.1, hP.2.1, ?_⟩⟩
      · -- a left individual with a unique-identifier job is marked as sent: no pointer job for it
        intro x hx y hy e
        obtain ⟨j, hj, ej⟩ := List.mem_map.mp hx
        obtain ⟨j', hj', ej'⟩ := List.mem_map.mp hy
        obtain ⟨_, ⟨a, ha, e1, e2⟩, _⟩ := hU.2.2 j hj
        obtain ⟨_, a', ha', e1', e2', _⟩ := hP.2.2 j' hj'
        have : a = a' := inj_of_nodup_map (·.id) hLid ha ha' (by rw [e1, e1', ej, ej', e])
        rw [this] at e2
        exact e2' e2
      · -- the right individual of a unique-identifier job is marked as sent
        intro x hx y hy e
        obtain ⟨j, hj, ej⟩ := List.mem_map.mp hx
        obtain ⟨j', hj', ej'⟩ := List.mem_map.mp hy
        obtain ⟨_, _, ⟨b, hb, e1, e2, _⟩⟩ := hU.2.2 j hj
        obtain ⟨_, a', _, _, _, b', hb', e3, _, e5⟩ := hP.2.2 j' hj'
        have : b = b' := inj_of_nodup_map (·.id) hRid hb hb' (by rw [e1, e3, ej, ej', e])
        rw [this] at e2
        exact e5 e2

end Gedcom.Match
