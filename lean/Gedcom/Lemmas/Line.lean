/- `parseLine (renderLine l) = some l` for every legal line. -/
import Gedcom.Lemmas.Bytes
namespace Gedcom.Dec
open Gedcom

/-- what the line grammar needs of a node's fields so that the written line reads back -/
structure LegalLine (l : Line) : Prop where
  tag_ne : l.tag ≠ []
  tag_word : ∀ x ∈ l.tag, isWord x = true
  ptr_noat : ∀ x ∈ l.ptr, x ≠ AT

theorem isWord_not {x : UInt8} (h : isWord x = true) : x ≠ AT ∧ x ≠ SP ∧ x ≠ LF ∧ x ≠ CR := by
  refine ⟨?_, ?_, ?_, ?_⟩ <;> intro e <;> subst e <;> revert h <;> decide

theorem isDigit_SP : isDigit SP = false := by decide
theorem isWord_SP : isWord SP = false := by decide

/-- parsing what comes after the level, the spaces and the pointer -/
theorem parse_tail (tag value : Str) (hw : ∀ x ∈ tag, isWord x = true) :
    (tag ++ (if value = [] then [] else SP :: value)).takeWhile isWord = tag ∧
    afterTag ((tag ++ (if value = [] then [] else SP :: value)).dropWhile isWord) = value := by
  have hV : ∀ y, (if value = [] then [] else SP :: value).head? = some y → isWord y = false := by
    intro y hy
    by_cases hv : value = []
    · simp [hv] at hy
    · simp [hv] at hy; subst hy; exact isWord_SP
  have := takeWhile_append_stop isWord tag _ hw hV
  refine ⟨this.1, ?_⟩
  rw [this.2]
  by_cases hv : value = []
  · simp [hv, afterTag]
  · simp [hv, afterTag]

theorem parsePtr_none (t0 : UInt8) (rest : Str) (h : t0 ≠ AT) :
    parsePtr (t0 :: rest) = some ([], t0 :: rest) := by
  have : (t0 == AT) = false := by simpa using h
  simp [parsePtr, this]

theorem parsePtr_some (ptr rest : Str) (hne : ptr ≠ []) (hp : ∀ x ∈ ptr, x ≠ AT) :
    parsePtr (AT :: (ptr ++ (AT :: SP :: rest))) = some (ptr, rest) := by
  have s3 := takeWhile_append_stop (· != AT) ptr (AT :: SP :: rest)
    (by intro x hx; simpa using hp x hx) (by intro y hy; simp at hy; subst hy; decide)
  simp [parsePtr, s3.1, s3.2, hne]

theorem parseLine_renderLine (l : Line) (h : LegalLine l) : parseLine (renderLine l) = some l := by
  obtain ⟨htne, hw, hp⟩ := h
  obtain ⟨lvl, ptr, tag, value⟩ := l
  simp only at htne hw hp
  -- shape of the rendered line
  let V : Str := if value = [] then [] else SP :: value
  let P : Str := if ptr = [] then [] else [AT] ++ ptr ++ [AT, SP]
  have hr : renderLine ⟨lvl, ptr, tag, value⟩ = natToDec lvl ++ (SP :: (P ++ (tag ++ V))) := by
    simp [renderLine, P, V, List.append_assoc]
  -- first byte of the tag
  obtain ⟨t0, tg', htag⟩ : ∃ t0 tg', tag = t0 :: tg' := by
    cases tag with
    | nil => exact absurd rfl htne
    | cons a b => exact ⟨a, b, rfl⟩
  have ht0 : isWord t0 = true := hw t0 (by simp [htag])
  have ht0' := isWord_not ht0
  -- stage 1: digits
  have s1 := takeWhile_append_stop isDigit (natToDec lvl) (SP :: (P ++ (tag ++ V)))
    (natToDec_digits lvl) (by intro y hy; simp at hy; subst hy; exact isDigit_SP)
  -- head of the rest is not a space
  have hX : ∀ y, (P ++ (tag ++ V)).head? = some y → (y == SP) = false := by
    intro y hy
    by_cases hpe : ptr = []
    · simp [P, hpe, htag] at hy; subst hy; simpa using ht0'.2.1
    · simp [P, hpe] at hy; subst hy; decide
  have s2 := takeWhile_append_stop (· == SP) [SP] (P ++ (tag ++ V))
    (by intro x hx; simp at hx; subst hx; decide) hX
  simp only [List.singleton_append] at s2
  have tail := parse_tail tag value hw
  -- the pointer group
  have hptr : parsePtr (P ++ (tag ++ V)) = some (ptr, tag ++ V) := by
    by_cases hpe : ptr = []
    · subst hpe
      have hP : P = [] := by simp [P]
      rw [hP, List.nil_append]
      have : (tag ++ V) = t0 :: (tg' ++ V) := by simp [htag]
      rw [this]
      exact parsePtr_none t0 _ ht0'.1
    · have hP' : P ++ (tag ++ V) = AT :: (ptr ++ (AT :: SP :: (tag ++ V))) := by
        simp [P, hpe, List.append_assoc]
      rw [hP']
      exact parsePtr_some ptr _ hpe hp
  unfold parseLine
  rw [hr]
  simp only [s1.1, s1.2, s2.1, s2.2, natToDec_ne_nil, if_false, List.cons_ne_nil, hptr]
  show (if (tag ++ V).takeWhile isWord = [] then none else
    some (Line.mk (decToNat (natToDec lvl)) ptr ((tag ++ V).takeWhile isWord)
      (afterTag ((tag ++ V).dropWhile isWord)))) = _
  rw [tail.1, tail.2, decToNat_natToDec]
  simp [htne]

end Gedcom.Dec
