/- Helper lemmas for C06: each letter function as a table over two three-way comparisons. -/
import Gedcom.Model.Compare
namespace Gedcom

inductive O | lt | eq | gt deriving DecidableEq

def ord (x y : Int) : O := if x < y then .lt else if x = y then .eq else .gt

/-- (v ? s) (v ? e) -/
def letterOf' : O → O → Letter
  | .eq, _ => .e | _, .eq => .E | .lt, _ => .b | _, .gt => .A | _, _ => .a

def letterEnd' : O → O → Letter
  | .eq, .eq => .E | .eq, _ => .e | _, .eq => .E | .lt, _ => .b | _, .gt => .A | _, _ => .a

theorem ord_cases (x y : Int) :
    (ord x y = .lt ∧ x < y) ∨ (ord x y = .eq ∧ x = y) ∨ (ord x y = .gt ∧ y < x) := by
  unfold ord; split
  · left; simp_all
  · split
    · right; left; simp_all
    · right; right; refine ⟨rfl, by omega⟩

theorem letterOf_eq (v s e : Int) : letterOf v s e = letterOf' (ord v s) (ord v e) := by
  rcases ord_cases v s with ⟨h, h'⟩ | ⟨h, h'⟩ | ⟨h, h'⟩ <;>
  rcases ord_cases v e with ⟨k, k'⟩ | ⟨k, k'⟩ | ⟨k, k'⟩ <;>
  (rw [h, k]; unfold letterOf; simp only [letterOf']; repeat' split) <;> first | rfl | omega

theorem letterEnd_eq (v s e : Int) : letterEnd v s e = letterEnd' (ord v s) (ord v e) := by
  unfold letterEnd
  rw [letterOf_eq v s e, letterOf_eq v e e]
  rcases ord_cases v s with ⟨h, h'⟩ | ⟨h, h'⟩ | ⟨h, h'⟩ <;>
  rcases ord_cases v e with ⟨k, k'⟩ | ⟨k, k'⟩ | ⟨k, k'⟩ <;>
  (rw [h, k]; simp [letterOf', letterEnd'])

theorem ord_swap (x y : Int) :
    ord y x = (match ord x y with | .lt => .gt | .eq => .eq | .gt => .lt) := by
  rcases ord_cases x y with ⟨h, h'⟩ | ⟨h, h'⟩ | ⟨h, h'⟩ <;>
  rcases ord_cases y x with ⟨k, k'⟩ | ⟨k, k'⟩ | ⟨k, k'⟩ <;>
  first | omega | (rw [h, k])

theorem compare_eq (a b c d : Int) :
    compare a b c d =
      Generated.compareMatrix (letterOf' (ord a c) (ord a d)) (letterEnd' (ord b c) (ord b d)) := by
  unfold compare letterStart
  rw [letterOf_eq, letterEnd_eq]

end Gedcom
