/-
  No missed pairing (C08): a right node that ends up alone in a right-only entry is equal to the
  left node of none of the sibling entries — the converse direction of "two-sided only when both
  inputs contain such a node".
-/
import Gedcom.Lemmas.Diff
namespace Gedcom
open Diff

/-- among sibling entries no left node `Equals` the node of a right-only entry -/
def SibOK (eq : INode → INode → Bool) (cs : List Diff) : Prop :=
  ∀ ci ∈ cs, ∀ cj ∈ cs, ∀ x y, ci.left = some x → cj.left = none → cj.right = some y → eq x y = false

/-- `K` holds for the list of children of every entry -/
inductive Diff.AllK (K : List Diff → Prop) : Diff → Prop
  | mk {L R : Option INode} {cs : List Diff} : K cs → (∀ c ∈ cs, Diff.AllK K c) → Diff.AllK K (.mk L R cs)

theorem Diff.AllK.entry {K : List Diff → Prop} {D : Diff} {d : Nat} {e : Diff} (he : EntryAt D d e)
    (h : Diff.AllK K D) : K e.kids := by
  induction he with
  | root D => cases h with | mk hk _ => exact hk
  | kid hc _ ih => cases h with | mk _ hcs => exact ih (hcs _ hc)

/-- the shape of `placeWith`'s result -/
theorem placeWith_cases (m : Diff → Bool) (f : Diff → Diff) : ∀ (cs : List Diff),
    (∃ pre c post, cs = pre ++ c :: post ∧ m c = true ∧ placeWith m f cs = pre ++ f c :: post) ∨
    ((∀ c ∈ cs, m c = false) ∧ placeWith m f cs = cs ++ [f Diff.empty])
  | [] => Or.inr ⟨(by intro c hc; cases hc), rfl⟩
  | c0 :: cs => by
    rw [placeWith]
    by_cases hm : m c0 = true
    · rw [if_pos hm]
      exact Or.inl ⟨[], c0, cs, rfl, hm, rfl⟩
    · rw [if_neg hm]
      rcases placeWith_cases m f cs with ⟨pre, c, post, hcs, hmc, hp⟩ | ⟨hall, hp⟩
      · exact Or.inl ⟨c0 :: pre, c, post, by rw [hcs]; rfl, hmc, by rw [hp]; rfl⟩
      · refine Or.inr ⟨?_, by rw [hp]; rfl⟩
        intro c hc
        rcases List.mem_cons.mp hc with rfl | hc
        · simpa using hm
        · exact hall c hc

theorem matchesNode_false_left {eq : INode → INode → Bool} {k : INode} {c : Diff} {x : INode}
    (h : Diff.matchesNode eq k c = false) (hl : c.left = some x) : eq x k = false := by
  unfold Diff.matchesNode at h
  rw [hl] at h
  simp only [Bool.or_eq_false_iff] at h
  exact h.1

theorem matchesNode_none {eq : INode → INode → Bool} {k : INode} {c : Diff}
    (hl : c.left = none) (hr : c.right = none) : Diff.matchesNode eq k c = false := by
  unfold Diff.matchesNode; rw [hl, hr]; rfl

section rightpass
variable (eq : INode → INode → Bool)

/-- one routing step of the right pass keeps `SibOK` -/
theorem sibOK_place (k : INode) (cs : List Diff) (h : SibOK eq cs) :
    SibOK eq (placeWith (Diff.matchesNode eq k) (traverse eq false k) cs) := by
  have hL : ∀ c, (traverse eq false k c).left = c.left := by
    intro c; cases k; rw [traverse]; simp [Diff.left, fillL]
  have hR : ∀ c, (traverse eq false k c).right = fillR false k c.right := by
    intro c; cases k; rw [traverse]; rfl
  rcases placeWith_cases (Diff.matchesNode eq k) (traverse eq false k) cs with
    ⟨pre, c, post, hcs, hmc, hp⟩ | ⟨hall, hp⟩
  · rw [hp]
    -- membership in the new list ↔ membership in the old one, up to the replaced entry
    have back : ∀ e ∈ pre ++ traverse eq false k c :: post,
        e = traverse eq false k c ∨ e ∈ cs := by
      intro e he
      rcases List.mem_append.mp he with he | he
      · right; rw [hcs]; exact List.mem_append_left _ he
      · rcases List.mem_cons.mp he with rfl | he
        · left; rfl
        · right; rw [hcs]; exact List.mem_append_right _ (List.mem_cons_of_mem _ he)
    have hcmem : c ∈ cs := by rw [hcs]; exact List.mem_append_right _ List.mem_cons_self
    intro ci hci cj hcj x y hx hnl hy
    -- pull both entries back to entries of the old list with the same relevant slots
    have hci' : ∃ ci0 ∈ cs, ci0.left = some x := by
      rcases back ci hci with rfl | h0
      · exact ⟨c, hcmem, by rw [← hL c]; exact hx⟩
      · exact ⟨ci, h0, hx⟩
    have hcj' : ∃ cj0 ∈ cs, cj0.left = none ∧ cj0.right = some y := by
      rcases back cj hcj with rfl | h0
      · have hcl : c.left = none := by rw [← hL c]; exact hnl
        refine ⟨c, hcmem, hcl, ?_⟩
        rw [hR] at hy
        cases hcr : c.right with
        | some y0 => rw [hcr, fillR_some] at hy; exact hy
        | none =>
          have := matchesNode_none (eq := eq) (k := k) hcl hcr
          rw [this] at hmc; cases hmc
      · exact ⟨cj, h0, hnl, hy⟩
    obtain ⟨ci0, hci0, hx0⟩ := hci'
    obtain ⟨cj0, hcj0, hnl0, hy0⟩ := hcj'
    exact h ci0 hci0 cj0 hcj0 x y hx0 hnl0 hy0
  · rw [hp]
    have hnewL : (traverse eq false k Diff.empty).left = none := by rw [hL]; rfl
    have hnewR : (traverse eq false k Diff.empty).right = some k := by rw [hR]; rfl
    intro ci hci cj hcj x y hx hnl hy
    rcases List.mem_append.mp hci with hci | hci
    · rcases List.mem_append.mp hcj with hcj | hcj
      · exact h ci hci cj hcj x y hx hnl hy
      · have : cj = traverse eq false k Diff.empty := by simpa using hcj
        subst this
        rw [hnewR] at hy
        cases hy
        exact matchesNode_false_left (hall ci hci) hx
    · have : ci = traverse eq false k Diff.empty := by simpa using hci
      subst this
      rw [hnewL] at hx; cases hx

mutual
theorem traverse_allK : ∀ (n : INode) (D : Diff), Diff.AllK (SibOK eq) D →
    Diff.AllK (SibOK eq) (traverse eq false n D)
  | .mk i t v p ks, D, h => by
    rw [traverse]
    cases h with
    | mk hk hcs =>
      have := traverseKids_allK ks _ hk hcs
      exact Diff.AllK.mk this.1 this.2
theorem traverseKids_allK : ∀ (ks : List INode) (cs : List Diff), SibOK eq cs →
    (∀ c ∈ cs, Diff.AllK (SibOK eq) c) →
    SibOK eq (traverseKids eq false ks cs) ∧ ∀ c ∈ traverseKids eq false ks cs, Diff.AllK (SibOK eq) c
  | [], cs, h, hcs => by rw [traverseKids]; exact ⟨h, hcs⟩
  | k :: ks, cs, h, hcs => by
    rw [traverseKids]
    apply traverseKids_allK ks _ (sibOK_place eq k cs h)
    apply placeWith_forall hcs
    · intro c hc _
      exact traverse_allK k c (hcs c hc)
    · exact traverse_allK k Diff.empty (Diff.AllK.mk (by intro ci hci; cases hci) (by intro c hc; cases hc))
end
end rightpass

/-- a diff in which every entry has a left node satisfies `SibOK` everywhere -/
theorem allK_of_left : ∀ (D : Diff) (d : Nat) (eq : INode → INode → Bool),
    Diff.All (fun _ L _ => L.isSome = true) d D → Diff.AllK (SibOK eq) D
  | .mk L R cs, d, eq, h => by
    refine Diff.AllK.mk ?_ (fun c hc => allK_of_left c (d + 1) eq (h.kids c hc))
    intro ci _ cj hcj x y _ hnl _
    have := (h.kids cj hcj).root
    rw [hnl] at this; cases this

end Gedcom
