/-
  Facts about the family bookkeeping of DeepCopy and its effect on the destination document
  (Gedcom/Model/CopyDoc.lean).
-/
import Gedcom.Model.CopyDoc
import Gedcom.Lemmas.Ident
namespace Gedcom

theorem firstNew_append (seen : List Nat) (a b : List (Nat × Str)) :
    firstNew seen (a ++ b) =
      ((firstNew (firstNew seen a).1 b).1, (firstNew seen a).2 ++ (firstNew (firstNew seen a).1 b).2) := by
  induction a generalizing seen with
  | nil => simp [firstNew]
  | cons x xs ih =>
    obtain ⟨f, p⟩ := x
    simp only [List.cons_append, firstNew]
    split
    · exact ih seen
    · rw [ih (f :: seen)]; simp

mutual
/-- the walk's bookkeeping is: collect the family of every role node, keep first occurrences -/
theorem famWalk_spec (fam : Option (Nat × Str)) (seen : List Nat) (t : INode)
    (fam' : Option (Nat × Str)) (seen' : List Nat) (adds : List Str)
    (h : famWalk fam seen t = some (fam', seen', adds)) :
    fam' = (famsUsed fam t).1 ∧ (seen', adds) = firstNew seen (famsUsed fam t).2 := by
  match t with
  | .mk i tg v p ks =>
    simp only [famWalk] at h
    simp only [famsUsed]
    split at h
    · rename_i ht
      simp only [ht, if_true]
      exact famWalkList_spec _ _ _ _ _ _ h
    · rename_i ht
      simp only [ht, Bool.false_eq_true, if_false]
      split at h
      · rename_i hn
        simp only [hn, if_true]
        cases fam with
        | none => simp at h
        | some f =>
          obtain ⟨fi, fp⟩ := f
          simp only at h ⊢
          split at h
          · rename_i hs
            have := famWalkList_spec _ _ _ _ _ _ h
            refine ⟨this.1, ?_⟩
            simp only [firstNew, hs, if_true]
            exact this.2
          · rename_i hs
            cases hw : famWalkList (some (fi, fp)) (fi :: seen) ks with
            | none => simp [hw] at h
            | some r =>
              obtain ⟨r1, r2, r3⟩ := r
              simp only [hw, Option.map_some, Option.some.injEq, Prod.mk.injEq] at h
              obtain ⟨h1, h2, h3⟩ := h
              have := famWalkList_spec _ _ _ _ _ _ hw
              refine ⟨h1 ▸ this.1, ?_⟩
              simp only [firstNew, hs, Bool.false_eq_true, if_false]
              rw [← this.2, h2, h3]
      · rename_i hn
        simp only [hn, Bool.false_eq_true, if_false]
        exact famWalkList_spec _ _ _ _ _ _ h
theorem famWalkList_spec (fam : Option (Nat × Str)) (seen : List Nat) (ks : List INode)
    (fam' : Option (Nat × Str)) (seen' : List Nat) (adds : List Str)
    (h : famWalkList fam seen ks = some (fam', seen', adds)) :
    fam' = (famsUsedList fam ks).1 ∧ (seen', adds) = firstNew seen (famsUsedList fam ks).2 := by
  match ks with
  | [] =>
    simp only [famWalkList, Option.some.injEq, Prod.mk.injEq] at h
    simp [famsUsedList, firstNew, h.1, h.2.1, h.2.2]
  | k :: ks =>
    simp only [famWalkList] at h
    cases hk : famWalk fam seen k with
    | none => simp [hk] at h
    | some r =>
      obtain ⟨f1, s1, a1⟩ := r
      simp only [hk] at h
      cases hl : famWalkList f1 s1 ks with
      | none => simp [hl] at h
      | some r2 =>
        obtain ⟨f2, s2, a2⟩ := r2
        simp only [hl, Option.map_some, Option.some.injEq, Prod.mk.injEq] at h
        obtain ⟨h1, h2, h3⟩ := h
        have e1 := famWalk_spec _ _ _ _ _ _ hk
        have e2 := famWalkList_spec _ _ _ _ _ _ hl
        simp only [famsUsedList]
        rw [firstNew_append, ← e1.2, ← e1.1]
        simp only
        rw [← e2.2, ← e2.1]
        simp [h1, h2, h3]
end

mutual
/-- with a family to fall back on the walk cannot fail -/
theorem famWalk_isSome (fam : Option (Nat × Str)) (seen : List Nat) (t : INode)
    (hf : fam.isSome = true) :
    ∃ r, famWalk fam seen t = some r ∧ r.1.isSome = true := by
  match t with
  | .mk i tg v p ks =>
    simp only [famWalk]
    split
    · exact famWalkList_isSome _ _ _ rfl
    · split
      · cases fam with
        | none => cases hf
        | some f =>
          obtain ⟨fi, fp⟩ := f
          simp only
          split
          · exact famWalkList_isSome _ _ _ rfl
          · obtain ⟨r, hr, hs⟩ := famWalkList_isSome (some (fi, fp)) (fi :: seen) ks rfl
            exact ⟨_, by rw [hr]; rfl, by simpa using hs⟩
      · exact famWalkList_isSome _ _ _ hf
theorem famWalkList_isSome (fam : Option (Nat × Str)) (seen : List Nat) (ks : List INode)
    (hf : fam.isSome = true) :
    ∃ r, famWalkList fam seen ks = some r ∧ r.1.isSome = true := by
  match ks with
  | [] => exact ⟨_, rfl, hf⟩
  | k :: ks =>
    obtain ⟨r1, h1, s1⟩ := famWalk_isSome fam seen k hf
    obtain ⟨f1, sn1, a1⟩ := r1
    obtain ⟨r2, h2, s2⟩ := famWalkList_isSome f1 sn1 ks s1
    simp only [famWalkList, h1, h2]
    exact ⟨_, rfl, s2⟩
end

/-! ### first occurrences -/

theorem firstNew_shape (seen : List Nat) (l : List (Nat × Str)) :
    ∃ new, (firstNew seen l).1 = new ++ seen ∧ new.length = (firstNew seen l).2.length := by
  induction l generalizing seen with
  | nil => exact ⟨[], rfl, rfl⟩
  | cons x xs ih =>
    obtain ⟨f, p⟩ := x
    simp only [firstNew]
    split
    · exact ih seen
    · obtain ⟨new, h1, h2⟩ := ih (f :: seen)
      exact ⟨new ++ [f], by simp [h1], by simp [h2]⟩

theorem firstNew_nodup (seen : List Nat) (l : List (Nat × Str)) (h : seen.Nodup) :
    (firstNew seen l).1.Nodup := by
  induction l generalizing seen with
  | nil => exact h
  | cons x xs ih =>
    obtain ⟨f, p⟩ := x
    simp only [firstNew]
    split
    · exact ih seen h
    · rename_i hs
      apply ih
      simp only [List.nodup_cons]
      exact ⟨by simpa using hs, h⟩

theorem firstNew_mem (seen : List Nat) (l : List (Nat × Str)) (f : Nat) :
    f ∈ (firstNew seen l).1 ↔ f ∈ seen ∨ f ∈ l.map (·.1) := by
  induction l generalizing seen with
  | nil => simp [firstNew]
  | cons x xs ih =>
    obtain ⟨g, p⟩ := x
    simp only [firstNew]
    split
    · rename_i hs
      rw [ih seen]
      simp only [List.map_cons, List.mem_cons]
      constructor
      · rintro (h | h)
        · exact .inl h
        · exact .inr (.inr h)
      · rintro (h | h | h)
        · exact .inl h
        · exact .inl (h ▸ by simpa using hs)
        · exact .inr h
    · rw [ih (g :: seen)]
      simp only [List.map_cons, List.mem_cons]
      constructor
      · rintro ((h | h) | h)
        · exact .inr (.inl h)
        · exact .inl h
        · exact .inr (.inr h)
      · rintro (h | h | h)
        · exact .inl (.inr h)
        · exact .inl (.inl h)
        · exact .inr h

/-! ### the records AddFamily creates -/

theorem newFams_spec (next : Nat) (ps : List Str) :
    (newFams next ps).2 = next + ps.length ∧
    (newFams next ps).1.map (·.ptr) = ps ∧
    (newFams next ps).1.map (·.id) = List.range' next ps.length ∧
    ∀ r ∈ (newFams next ps).1, r.tag = tagFAM ∧ r.value = [] ∧ r.kids = [] := by
  induction ps generalizing next with
  | nil => simp [newFams]
  | cons p ps ih =>
    obtain ⟨h1, h2, h3, h4⟩ := ih (next + 1)
    simp only [newFams, List.length_cons, List.map_cons, List.range']
    refine ⟨by omega, ?_, ?_, ?_⟩
    · exact congrArg (p :: ·) h2
    · exact congrArg (next :: ·) h3
    · intro r hr
      rcases List.mem_cons.mp hr with rfl | hr
      · exact ⟨rfl, rfl, rfl⟩
      · exact h4 r hr

end Gedcom
