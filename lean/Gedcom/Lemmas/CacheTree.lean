/-
  C13 — the heap a fresh decode builds from the text of a long-lived document is that document,
  renumbered.  `toForest (abs s)` is the forest the encoder writes, `flatForest` lays a forest out
  in preorder (the decoder's allocation order); `pre a` lists the live document's nodes in the same
  order, so "position ↦ live node" (`psi`) embeds the fresh heap into the live one.  Needs the
  live heap to be ranked (no cycles), which every operation preserves (`Ranked`, below).
-/
import Gedcom.Lemmas.CacheIso
namespace Gedcom.Cache
open Gedcom

/-! ## the preorder layout of a forest (pure trees) -/

theorem node_size_pos (t : Node) : 0 < t.size := by
  cases t with
  | mk t v p ks => rw [Node.size]; omega

mutual
theorem flatNode_length (b : Nat) (fam : Nat) (t : Node) : (flatNode b fam t).1.length = t.size := by
  match t with
  | .mk tg v p ks =>
    rw [flatNode, Node.size]
    simp only [List.length_cons]
    rw [flatForest_length (b + 1) _ ks]
    omega
theorem flatForest_length (b : Nat) (fam : Nat) (ts : List Node) :
    (flatForest b fam ts).1.length = Forest.size ts := by
  match ts with
  | [] => rw [flatForest, Forest.size]; rfl
  | n :: ns =>
    rw [flatForest, Forest.size]
    simp only [List.length_append]
    rw [flatNode_length b fam n, flatForest_length _ _ ns]
end

theorem rootsAt_bound : ∀ (ts : List Node) (b k : Nat), k ∈ rootsAt b ts → b ≤ k ∧ k < b + Forest.size ts
  | [], _, _, h => by simp [rootsAt] at h
  | n :: ns, b, k, h => by
    rw [rootsAt] at h
    rw [Forest.size]
    have hp := node_size_pos n
    rcases List.mem_cons.mp h with h | h
    · subst h; omega
    · have := rootsAt_bound ns (b + n.size) k h
      omega

/-- record `j` of the block that starts at id `b` only has children with ids in `(b + j, hi)` -/
def KidsIn (b : Nat) (l : List NodeRec) (hi : Nat) : Prop :=
  ∀ (j : Nat) (r : NodeRec), l[j]? = some r → ∀ k : Nat, k ∈ r.kids → b + j < k ∧ k < hi

theorem KidsIn.append {b hi : Nat} {l1 l2 : List NodeRec} (h1 : KidsIn b l1 hi)
    (h2 : KidsIn (b + l1.length) l2 hi) : KidsIn b (l1 ++ l2) hi := by
  intro j r hj k hk
  by_cases hlt : j < l1.length
  · rw [List.getElem?_append_left hlt] at hj
    exact h1 j r hj k hk
  · have hge : l1.length ≤ j := Nat.le_of_not_lt hlt
    rw [List.getElem?_append_right hge] at hj
    have := h2 (j - l1.length) r hj k hk
    omega

theorem KidsIn.mono {b hi hi' : Nat} {l : List NodeRec} (h : KidsIn b l hi) (hle : hi ≤ hi') :
    KidsIn b l hi' := fun j r hj k hk => ⟨(h j r hj k hk).1, Nat.lt_of_lt_of_le (h j r hj k hk).2 hle⟩

mutual
theorem flatNode_kidsIn (b : Nat) (fam : Nat) (t : Node) :
    KidsIn b (flatNode b fam t).1 (b + t.size) := by
  match t with
  | .mk tg v p ks =>
    rw [flatNode, Node.size]
    intro j r hj k hk
    cases j with
    | zero =>
      simp only [List.getElem?_cons_zero, Option.some.injEq] at hj
      subst hj
      have := rootsAt_bound ks (b + 1) k hk
      omega
    | succ j =>
      simp only [List.getElem?_cons_succ] at hj
      have := flatForest_kidsIn (b + 1) (if tg == tFAM then b else fam) ks j r hj k hk
      omega
theorem flatForest_kidsIn (b : Nat) (fam : Nat) (ts : List Node) :
    KidsIn b (flatForest b fam ts).1 (b + Forest.size ts) := by
  match ts with
  | [] => intro j r hj; simp [flatForest] at hj
  | n :: ns =>
    rw [flatForest, Forest.size]
    refine KidsIn.append ((flatNode_kidsIn b fam n).mono (by omega)) ?_
    rw [flatNode_length]
    have := flatForest_kidsIn (b + n.size) (flatNode b fam n).2 ns
    exact this.mono (by omega)
end

/-! ## the live document in preorder -/

/-- the nodes below `n` in preorder, cut at depth `fuel` -/
def sub (a : Abs) : Nat → Id → List Id
  | 0, n => [n]
  | fuel + 1, n => n :: (a.kids n).flatMap (sub a fuel)

/-- `fuel` reaches the leaves below `n`: what is cut off has no children -/
def Suf (a : Abs) : Nat → Id → Prop
  | 0, n => a.kids n = []
  | fuel + 1, n => ∀ c ∈ a.kids n, Suf a fuel c

theorem forest_size_map (a : Abs) (fuel : Nat)
    (h : ∀ n, (toNode a fuel n).size = (sub a fuel n).length) :
    ∀ ks : List Id, Forest.size (ks.map (toNode a fuel)) = (ks.flatMap (sub a fuel)).length
  | [] => by simp [Forest.size]
  | c :: cs => by
    simp only [List.map_cons, Forest.size, List.flatMap_cons, List.length_append]
    rw [h c, forest_size_map a fuel h cs]

theorem toNode_size (a : Abs) : ∀ (fuel : Nat) (n : Id), (toNode a fuel n).size = (sub a fuel n).length
  | 0, n => by simp [toNode, sub, Node.size, Forest.size]
  | fuel + 1, n => by
    rw [toNode, sub, Node.size, forest_size_map a fuel (toNode_size a fuel)]
    simp only [List.length_cons]
    omega

/-- `ψ` sends the ids `b, b+1, …` to the elements of `l` -/
def Block (ψ : Id → Id) (b : Nat) (l : List Id) : Prop := ∀ (j : Nat) (m : Id), l[j]? = some m → ψ (b + j) = m

theorem Block.left {ψ : Id → Id} {b : Nat} {l1 l2 : List Id} (h : Block ψ b (l1 ++ l2)) : Block ψ b l1 := by
  intro j m hj
  have hlt : j < l1.length := (List.getElem?_eq_some_iff.mp hj).1
  exact h j m (by rw [List.getElem?_append_left hlt]; exact hj)

theorem Block.right {ψ : Id → Id} {b : Nat} {l1 l2 : List Id} (h : Block ψ b (l1 ++ l2)) :
    Block ψ (b + l1.length) l2 := by
  intro j m hj
  have := h (l1.length + j) m (by
    rw [List.getElem?_append_right (Nat.le_add_right _ _)]
    simpa using hj)
  rw [Nat.add_assoc]; exact this

theorem Block.head {ψ : Id → Id} {b : Nat} {x : Id} {l : List Id} (h : Block ψ b (x :: l)) : ψ b = x := by
  have := h 0 x rfl
  simpa using this

theorem Block.tail {ψ : Id → Id} {b : Nat} {x : Id} {l : List Id} (h : Block ψ b (x :: l)) :
    Block ψ (b + 1) l := by
  intro j m hj
  have := h (j + 1) m (by simpa using hj)
  rw [Nat.add_assoc, Nat.add_comm 1 j]; exact this

/-- a record of the fresh heap mirrors live node `m`: same tag, value, pointer; its children are
    the positions of `m`'s children -/
def MirrorRec (a : Abs) (ψ : Id → Id) (r : NodeRec) (m : Id) : Prop :=
  r.tag = a.tag m ∧ r.value = a.value m ∧ r.ptr = a.ptr m ∧ r.kids.map ψ = a.kids m

def Mirror (a : Abs) (ψ : Id → Id) (l : List NodeRec) (ids : List Id) : Prop :=
  l.length = ids.length ∧ ∀ (j : Nat) (r : NodeRec) (m : Id), l[j]? = some r → ids[j]? = some m → MirrorRec a ψ r m

theorem Mirror.append {a : Abs} {ψ : Id → Id} {l1 l2 : List NodeRec} {i1 i2 : List Id}
    (h1 : Mirror a ψ l1 i1) (h2 : Mirror a ψ l2 i2) : Mirror a ψ (l1 ++ l2) (i1 ++ i2) := by
  refine ⟨by simp [h1.1, h2.1], ?_⟩
  intro j r m hr hm
  by_cases hlt : j < l1.length
  · rw [List.getElem?_append_left hlt] at hr
    rw [List.getElem?_append_left (h1.1 ▸ hlt)] at hm
    exact h1.2 j r m hr hm
  · have hge : l1.length ≤ j := Nat.le_of_not_lt hlt
    rw [List.getElem?_append_right hge] at hr
    rw [List.getElem?_append_right (h1.1 ▸ hge), ← h1.1] at hm
    exact h2.2 _ r m hr hm

theorem sub_ne_nil (a : Abs) (fuel : Nat) (n : Id) : ∃ l, sub a fuel n = n :: l := by
  cases fuel with
  | zero => exact ⟨[], rfl⟩
  | succ f => exact ⟨_, rfl⟩

/-- the forest step, given the node step at the same fuel -/
theorem flatF_mirror (a : Abs) (ψ : Id → Id) (fuel : Nat)
    (hN : ∀ (n : Id) (b fam : Nat), Suf a fuel n → Block ψ b (sub a fuel n) →
      Mirror a ψ (flatNode b fam (toNode a fuel n)).1 (sub a fuel n)) :
    ∀ (ks : List Id) (b fam : Nat), (∀ c ∈ ks, Suf a fuel c) → Block ψ b (ks.flatMap (sub a fuel)) →
      Mirror a ψ (flatForest b fam (ks.map (toNode a fuel))).1 (ks.flatMap (sub a fuel)) ∧
      (rootsAt b (ks.map (toNode a fuel))).map ψ = ks
  | [], b, fam, _, _ =>
    ⟨⟨by simp [flatForest], fun j r m hr => by simp [flatForest] at hr⟩, by simp [rootsAt]⟩
  | c :: cs, b, fam, hs, hb => by
    simp only [List.map_cons, List.flatMap_cons] at hb ⊢
    rw [flatForest, rootsAt]
    have h1 := hN c b fam (hs c List.mem_cons_self) hb.left
    have hb2 := hb.right
    rw [← toNode_size] at hb2
    have h2 := flatF_mirror a ψ fuel hN cs (b + (toNode a fuel c).size) (flatNode b fam (toNode a fuel c)).2
      (fun d hd => hs d (List.mem_cons_of_mem _ hd)) hb2
    refine ⟨h1.append h2.1, ?_⟩
    simp only [List.map_cons]
    obtain ⟨l, hl⟩ := sub_ne_nil a fuel c
    have : ψ b = c := by
      have := hb.left
      rw [hl] at this
      exact this.head
    rw [this, h2.2]

/-- **the fresh heap mirrors the live one** below one node -/
theorem flat_mirror (a : Abs) (ψ : Id → Id) : ∀ (fuel : Nat) (n : Id) (b fam : Nat),
    Suf a fuel n → Block ψ b (sub a fuel n) →
    Mirror a ψ (flatNode b fam (toNode a fuel n)).1 (sub a fuel n)
  | 0, n, b, fam, hs, _ => by
    rw [toNode, flatNode, sub]
    refine ⟨rfl, ?_⟩
    intro j r m hr hm
    cases j with
    | zero =>
      simp only [List.getElem?_cons_zero, Option.some.injEq] at hr hm
      subst hr; subst hm
      exact ⟨rfl, rfl, rfl, by rw [Suf] at hs; simp [rootsAt, hs]⟩
    | succ j => simp [flatForest] at hr
  | fuel + 1, n, b, fam, hs, hb => by
    rw [toNode, flatNode, sub]
    rw [sub] at hb
    rw [Suf] at hs
    have hF := flatF_mirror a ψ fuel (flat_mirror a ψ fuel) (a.kids n) (b + 1)
      (if a.tag n == tFAM then b else fam) hs hb.tail
    refine ⟨by simp only [List.length_cons]; rw [hF.1.1], ?_⟩
    intro j r m hr hm
    cases j with
    | zero =>
      simp only [List.getElem?_cons_zero, Option.some.injEq] at hr hm
      subst hr; subst hm
      exact ⟨rfl, rfl, rfl, hF.2⟩
    | succ j =>
      simp only [List.getElem?_cons_succ] at hr hm
      exact hF.1.2 j r m hr hm

/-! ## ranked heaps: no cycles, so `heap.length` levels of fuel reach every leaf -/

/-- a rank that grows strictly from parent to child and stays below the heap size -/
def Ranked (a : Abs) : Prop :=
  ∃ rk : Nat → Nat, (∀ n : Nat, n < a.heap.length → rk n < a.heap.length) ∧
    ∀ (n c : Nat), c ∈ a.kids n → rk n < rk c

theorem suf_of_rank {a : Abs} (w : AWF a) (rk : Nat → Nat)
    (h1 : ∀ n : Nat, n < a.heap.length → rk n < a.heap.length)
    (h2 : ∀ (n c : Nat), c ∈ a.kids n → rk n < rk c) :
    ∀ (fuel n : Nat), a.heap.length ≤ rk n + fuel → Suf a fuel n
  | 0, n, h => by
    rw [Suf]
    apply List.eq_nil_iff_forall_not_mem.mpr
    intro c hc
    have e1 := h2 n c hc
    have e2 := h1 c (w.kids n c hc)
    omega
  | fuel + 1, n, h => by
    rw [Suf]
    intro c hc
    apply suf_of_rank w rk h1 h2 fuel c
    have := h2 n c hc
    omega

theorem suf_root {a : Abs} (w : AWF a) (hr : Ranked a) (n : Nat) : Suf a a.heap.length n := by
  obtain ⟨rk, h1, h2⟩ := hr
  exact suf_of_rank w rk h1 h2 _ n (Nat.le_add_left _ _)

/-- the live document's attached nodes in preorder -/
def pre (a : Abs) : List Id := a.roots.flatMap (sub a a.heap.length)

/-- position in the fresh heap ↦ live node -/
def psi (a : Abs) (k : Id) : Id := ((pre a)[k]?).getD 0

theorem block_psi (a : Abs) : Block (psi a) 0 (pre a) := by
  intro j m hj
  simp [psi, hj]

theorem fresh_abs (a : Abs) :
    abs (ofForest (toForest a)) = ⟨(flatForest 0 0 (toForest a)).1, rootsAt 0 (toForest a)⟩ := rfl

theorem fresh_mirror {a : Abs} (w : AWF a) (hr : Ranked a) :
    Mirror a (psi a) (flatForest 0 0 (toForest a)).1 (pre a) ∧
    (rootsAt 0 (toForest a)).map (psi a) = a.roots := by
  unfold toForest
  exact flatF_mirror a (psi a) a.heap.length (flat_mirror a (psi a) a.heap.length) a.roots 0 0
    (fun c _ => suf_root w hr c) (block_psi a)

/-- the heap a decode builds is well-formed, whatever the forest -/
theorem ofForest_awf (f : Forest) : AWF (abs (ofForest f)) := by
  have e : abs (ofForest f) = ⟨(flatForest 0 0 f).1, rootsAt 0 f⟩ := rfl
  rw [e]
  have hl := flatForest_length 0 0 f
  constructor
  · intro r hr
    have := (rootsAt_bound f 0 r hr).2
    show r < (flatForest 0 0 f).1.length
    rw [hl]; simpa using this
  · intro n c hc
    show c < (flatForest 0 0 f).1.length
    simp only [Abs.kids] at hc
    cases hn : (flatForest 0 0 f).1[n]? with
    | none => rw [hn] at hc; simp at hc
    | some r =>
      rw [hn] at hc
      have := (flatForest_kidsIn 0 0 f n r hn c hc).2
      rw [hl]; simpa using this

theorem fresh_awf (a : Abs) : AWF (abs (ofForest (toForest a))) := ofForest_awf _

/-- … and every child has a larger id than its parent -/
theorem ofForest_kids_gt (f : Forest) (n c : Nat) (hc : c ∈ (abs (ofForest f)).kids n) : n < c := by
  have e : abs (ofForest f) = ⟨(flatForest 0 0 f).1, rootsAt 0 f⟩ := rfl
  rw [e] at hc
  simp only [Abs.kids] at hc
  cases hn : (flatForest 0 0 f).1[n]? with
  | none => rw [hn] at hc; simp at hc
  | some r =>
    rw [hn] at hc
    have := (flatForest_kidsIn 0 0 f n r hn c hc).1
    simpa using this

theorem mem_sub_lt {a : Abs} (w : AWF a) : ∀ (fuel : Nat) (n x : Id), n < a.heap.length →
    x ∈ sub a fuel n → x < a.heap.length
  | 0, n, x, hn, hx => by
    rw [sub] at hx
    have : x = n := by simpa using hx
    exact this ▸ hn
  | fuel + 1, n, x, hn, hx => by
    rw [sub] at hx
    rcases List.mem_cons.mp hx with h | h
    · exact h ▸ hn
    · obtain ⟨c, hc, hxc⟩ := List.mem_flatMap.mp h
      exact mem_sub_lt w fuel c x (w.kids n c hc) hxc

theorem mem_pre_lt {a : Abs} (w : AWF a) {x : Id} (hx : x ∈ pre a) : x < a.heap.length := by
  obtain ⟨r, hr, hxr⟩ := List.mem_flatMap.mp hx
  exact mem_sub_lt w _ r x (w.roots r hr) hxr

/-- record `k` of the fresh heap mirrors the live node at position `k` -/
theorem fresh_rec {a : Abs} (w : AWF a) (hr : Ranked a) {k : Nat}
    (hk : k < (flatForest 0 0 (toForest a)).1.length) :
    ∃ r, (flatForest 0 0 (toForest a)).1[k]? = some r ∧ psi a k ∈ pre a ∧ MirrorRec a (psi a) r (psi a k) := by
  have hm := (fresh_mirror w hr).1
  have hk' : k < (pre a).length := hm.1 ▸ hk
  have e1 : (flatForest 0 0 (toForest a)).1[k]? = some (flatForest 0 0 (toForest a)).1[k] :=
    List.getElem?_eq_getElem hk
  have e2 : (pre a)[k]? = some (pre a)[k] := List.getElem?_eq_getElem hk'
  have e3 : psi a k = (pre a)[k] := by simp [psi, e2]
  exact ⟨_, e1, e3 ▸ List.getElem_mem hk', e3 ▸ hm.2 k _ _ e1 e2⟩

/-- **the fresh heap embeds into the live one**: position ↦ live node preserves roots, tags,
    values, pointers and child lists -/
theorem fresh_iso {a : Abs} (w : AWF a) (hr : Ranked a) :
    Iso (fun k => k < (abs (ofForest (toForest a))).heap.length) (psi a) (abs (ofForest (toForest a))) a := by
  have wf := fresh_awf a
  rw [fresh_abs] at wf ⊢
  have fld : ∀ {k : Nat}, k < (flatForest 0 0 (toForest a)).1.length → ∀ r,
      (flatForest 0 0 (toForest a)).1[k]? = some r →
      (Abs.mk (flatForest 0 0 (toForest a)).1 (rootsAt 0 (toForest a))).tag k = r.tag ∧
      (Abs.mk (flatForest 0 0 (toForest a)).1 (rootsAt 0 (toForest a))).value k = r.value ∧
      (Abs.mk (flatForest 0 0 (toForest a)).1 (rootsAt 0 (toForest a))).ptr k = r.ptr ∧
      (Abs.mk (flatForest 0 0 (toForest a)).1 (rootsAt 0 (toForest a))).kids k = r.kids := by
    intro k _ r hr
    simp only [Abs.tag, Abs.value, Abs.ptr, Abs.kids, hr, and_self]
  refine ⟨fun r h => wf.roots r h, fun n c _ hc => wf.kids n c hc, (fresh_mirror w hr).2.symm, ?_, ?_, ?_, ?_, ?_⟩
  · intro k hk
    obtain ⟨r, _, h2, _⟩ := fresh_rec w hr hk
    exact mem_pre_lt w h2
  · intro k hk
    obtain ⟨r, h1, _, h3⟩ := fresh_rec w hr hk
    rw [(fld hk r h1).1]; exact h3.1.symm
  · intro k hk
    obtain ⟨r, h1, _, h3⟩ := fresh_rec w hr hk
    rw [(fld hk r h1).2.1]; exact h3.2.1.symm
  · intro k hk
    obtain ⟨r, h1, _, h3⟩ := fresh_rec w hr hk
    rw [(fld hk r h1).2.2.1]; exact h3.2.2.1.symm
  · intro k hk
    obtain ⟨r, h1, _, h3⟩ := fresh_rec w hr hk
    rw [(fld hk r h1).2.2.2]; exact h3.2.2.2.symm

/-! ### every attached live node has a position -/

theorem mem_sub_self (a : Abs) (fuel : Nat) (n : Id) : n ∈ sub a fuel n := by
  obtain ⟨l, hl⟩ := sub_ne_nil a fuel n
  rw [hl]; exact List.mem_cons_self

theorem mem_sub_kid {a : Abs} : ∀ (fuel : Nat) (r x c : Id), Suf a fuel r → x ∈ sub a fuel r →
    c ∈ a.kids x → c ∈ sub a fuel r
  | 0, r, x, c, hs, hx, hc => by
    rw [sub] at hx
    have : x = r := by simpa using hx
    rw [Suf] at hs
    rw [this, hs] at hc
    exact absurd hc List.not_mem_nil
  | fuel + 1, r, x, c, hs, hx, hc => by
    rw [sub] at hx ⊢
    rw [Suf] at hs
    apply List.mem_cons_of_mem
    rcases List.mem_cons.mp hx with h | h
    · subst h
      exact List.mem_flatMap.mpr ⟨c, hc, mem_sub_self a fuel c⟩
    · obtain ⟨d, hd, hxd⟩ := List.mem_flatMap.mp h
      exact List.mem_flatMap.mpr ⟨d, hd, mem_sub_kid fuel d x c (hs d hd) hxd hc⟩

theorem att_mem_pre {a : Abs} (w : AWF a) (hr : Ranked a) {n : Id} (h : Att a n) : n ∈ pre a := by
  induction h with
  | root hroot => exact List.mem_flatMap.mpr ⟨_, hroot, mem_sub_self a _ _⟩
  | kid _ hc ih =>
    obtain ⟨r, hr', hx⟩ := List.mem_flatMap.mp ih
    exact List.mem_flatMap.mpr ⟨r, hr', mem_sub_kid _ r _ _ (suf_root w hr r) hx hc⟩

/-- … so every attached record of the live document is the image of a fresh node -/
theorem att_psi {a : Abs} (w : AWF a) (hr : Ranked a) {n : Id} (h : Att a n) :
    ∃ k, k < (abs (ofForest (toForest a))).heap.length ∧ psi a k = n := by
  obtain ⟨k, hk, e⟩ := List.mem_iff_getElem.mp (att_mem_pre w hr h)
  refine ⟨k, ?_, ?_⟩
  · rw [fresh_abs]
    show k < (flatForest 0 0 (toForest a)).1.length
    rw [(fresh_mirror w hr).1.1]; exact hk
  · simp [psi, List.getElem?_eq_getElem hk, e]

end Gedcom.Cache
