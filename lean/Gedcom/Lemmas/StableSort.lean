/-
  `sliceStable` (Go's insertion sort) returns *the* stable sorted permutation whenever the comparator
  is a strict weak order on the elements: any list that is a permutation of the indexed input, is
  sorted, and keeps tied elements in their original order is equal to it (C08, `Sort`).
  Hence for more than 20 elements, where `sort.SliceStable` merges insertion-sorted blocks, Go's
  result is still `sliceStable`'s.  Core Lean only.
-/
import Gedcom.Model.Diff
namespace Gedcom

/-- `lt` is a strict weak order on the elements of `l` -/
def SWOOn {α : Type} (lt : α → α → Bool) (l : List α) : Prop :=
  (∀ a ∈ l, lt a a = false) ∧
  (∀ a ∈ l, ∀ b ∈ l, ∀ c ∈ l, lt a b = true → lt b c = true → lt a c = true) ∧
  (∀ a ∈ l, ∀ b ∈ l, ∀ c ∈ l, lt a c = true → lt a b = true ∨ lt b c = true)

theorem swoB_sound {α : Type} (lt : α → α → Bool) (l : List α) (h : swoB lt l = true) : SWOOn lt l := by
  unfold swoB at h
  simp only [List.all_eq_true, Bool.and_eq_true, Bool.or_eq_true, Bool.not_eq_true'] at h
  refine ⟨fun a ha => (h a ha).1, ?_, ?_⟩
  · intro a ha b hb c hc hab hbc
    have := ((h a ha).2 b hb c hc).1
    rcases this with h1 | h1
    · rw [hab, hbc] at h1; simp at h1
    · exact h1
  · intro a ha b hb c hc hac
    have := ((h a ha).2 b hb c hc).2
    rcases this with (h1 | h1) | h1
    · rw [hac] at h1; cases h1
    · exact Or.inl h1
    · exact Or.inr h1

section
variable {α : Type} (lt : α → α → Bool)

/-- the order a stable sort realises on indexed elements: smaller first, ties by original position -/
def StableLt (p q : α × Nat) : Prop :=
  lt p.1 q.1 = true ∨ (lt q.1 p.1 = false ∧ p.2 < q.2)

theorem StableLt.asymm {l : List α} (h : SWOOn lt l) {p q : α × Nat} (hp : p.1 ∈ l) (hq : q.1 ∈ l)
    (h1 : StableLt lt p q) (h2 : StableLt lt q p) : False := by
  rcases h1 with h1 | ⟨h1, i1⟩ <;> rcases h2 with h2 | ⟨h2, i2⟩
  · have := h.2.1 _ hp _ hq _ hp h1 h2
    rw [h.1 _ hp] at this; cases this
  · rw [h1] at h2; cases h2
  · rw [h2] at h1; cases h1
  · omega

theorem StableLt.trans {l : List α} (h : SWOOn lt l) {p q s : α × Nat} (hp : p.1 ∈ l) (hq : q.1 ∈ l)
    (hs : s.1 ∈ l) (h1 : StableLt lt p q) (h2 : StableLt lt q s) : StableLt lt p s := by
  rcases h1 with h1 | ⟨h1, i1⟩ <;> rcases h2 with h2 | ⟨h2, i2⟩
  · exact Or.inl (h.2.1 _ hp _ hq _ hs h1 h2)
  · -- p < q, q tied-or-before s
    rcases h.2.2 _ hp _ hs _ hq h1 with h3 | h3
    · exact Or.inl h3
    · rw [h2] at h3; cases h3
  · rcases h.2.2 _ hq _ hp _ hs h2 with h3 | h3
    · rw [h1] at h3; cases h3
    · exact Or.inl h3
  · right
    refine ⟨?_, by omega⟩
    cases h3 : lt s.1 p.1 with
    | false => rfl
    | true =>
      rcases h.2.2 _ hs _ hq _ hp h3 with h4 | h4
      · rw [h2] at h4; cases h4
      · rw [h1] at h4; cases h4

/-- the comparator used on indexed elements -/
def ltIdx (p q : α × Nat) : Bool := lt p.1 q.1

theorem sliceStableIns_mem (lt' : α × Nat → α × Nat → Bool) (x : α × Nat) :
    ∀ (acc : List (α × Nat)) (z : α × Nat), z ∈ sliceStableIns lt' x acc ↔ z = x ∨ z ∈ acc
  | [], z => by simp [sliceStableIns]
  | e :: es, z => by
    rw [sliceStableIns]
    by_cases h : lt' x e = true
    · rw [if_pos h, List.mem_cons, sliceStableIns_mem lt' x es z, List.mem_cons]
      constructor
      · rintro (h1 | h1 | h1)
        · exact Or.inr (Or.inl h1)
        · exact Or.inl h1
        · exact Or.inr (Or.inr h1)
      · rintro (h1 | h1 | h1)
        · exact Or.inr (Or.inl h1)
        · exact Or.inl h1
        · exact Or.inr (Or.inr h1)
    · rw [if_neg h]; simp [List.mem_cons]

/-- inserting an element whose original position is after everything inserted so far keeps the
    (reversed) prefix sorted by `StableLt` -/
theorem sliceStableIns_sorted {l : List α} (h : SWOOn lt l) (x : α × Nat) (hx : x.1 ∈ l) :
    ∀ (acc : List (α × Nat)), (∀ e ∈ acc, e.1 ∈ l ∧ e.2 < x.2) →
      acc.Pairwise (fun p q => StableLt lt q p) →
      (sliceStableIns (ltIdx lt) x acc).Pairwise (fun p q => StableLt lt q p)
  | [], _, _ => by simp [sliceStableIns]
  | e :: es, hacc, hp => by
    rw [sliceStableIns]
    have he := hacc e List.mem_cons_self
    rw [List.pairwise_cons] at hp
    by_cases hlt : ltIdx lt x e = true
    · rw [if_pos hlt, List.pairwise_cons]
      refine ⟨?_, sliceStableIns_sorted h x hx es (fun z hz => hacc z (List.mem_cons_of_mem _ hz)) hp.2⟩
      intro z hz
      rcases (sliceStableIns_mem _ x es z).mp hz with rfl | hz
      · exact Or.inl hlt
      · exact hp.1 z hz
    · rw [if_neg hlt, List.pairwise_cons]
      have hex : StableLt lt e x := Or.inr ⟨by simpa [ltIdx] using hlt, he.2⟩
      refine ⟨?_, List.pairwise_cons.mpr hp⟩
      intro z hz
      rcases List.mem_cons.mp hz with rfl | hz
      · exact hex
      · exact StableLt.trans lt h (hacc z (List.mem_cons_of_mem _ hz)).1 he.1 hx (hp.1 z hz) hex

theorem foldl_ins_sorted {l : List α} (h : SWOOn lt l) :
    ∀ (rest acc : List (α × Nat)), (∀ e ∈ rest, e.1 ∈ l) → (∀ e ∈ acc, e.1 ∈ l) →
      rest.Pairwise (fun p q => p.2 < q.2) → (∀ e ∈ acc, ∀ x ∈ rest, e.2 < x.2) →
      acc.Pairwise (fun p q => StableLt lt q p) →
      (rest.foldl (fun acc x => sliceStableIns (ltIdx lt) x acc) acc).Pairwise (fun p q => StableLt lt q p)
  | [], _, _, _, _, _, hp => hp
  | x :: rest, acc, hr, ha, hidx, hlt, hp => by
    rw [List.foldl_cons]
    rw [List.pairwise_cons] at hidx
    have hx := hr x List.mem_cons_self
    apply foldl_ins_sorted h rest _ (fun e he => hr e (List.mem_cons_of_mem _ he))
    · intro e he
      rcases (sliceStableIns_mem _ x acc e).mp he with rfl | he
      · exact hx
      · exact ha e he
    · exact hidx.2
    · intro e he y hy
      rcases (sliceStableIns_mem _ x acc e).mp he with rfl | he
      · exact hidx.1 y hy
      · exact hlt e he y (List.mem_cons_of_mem _ hy)
    · exact sliceStableIns_sorted lt h x hx acc
        (fun e he => ⟨ha e he, hlt e he x List.mem_cons_self⟩) hp

theorem zipIdx_fst_mem : ∀ (l : List α) (k : Nat) (p : α × Nat), p ∈ l.zipIdx k → p.1 ∈ l
  | [], _, _, h => by simp at h
  | a :: as, k, p, h => by
    rw [List.zipIdx_cons] at h
    rcases List.mem_cons.mp h with rfl | h
    · exact List.mem_cons_self
    · exact List.mem_cons_of_mem _ (zipIdx_fst_mem as (k + 1) p h)

theorem zipIdx_idx_ge : ∀ (l : List α) (k : Nat) (p : α × Nat), p ∈ l.zipIdx k → k ≤ p.2
  | [], _, _, h => by simp at h
  | a :: as, k, p, h => by
    rw [List.zipIdx_cons] at h
    rcases List.mem_cons.mp h with rfl | h
    · exact Nat.le_refl _
    · have := zipIdx_idx_ge as (k + 1) p h; omega

theorem zipIdx_increasing : ∀ (l : List α) (k : Nat), (l.zipIdx k).Pairwise (fun p q => p.2 < q.2)
  | [], _ => by simp
  | a :: as, k => by
    rw [List.zipIdx_cons, List.pairwise_cons]
    refine ⟨?_, zipIdx_increasing as (k + 1)⟩
    intro q hq
    have := zipIdx_idx_ge as (k + 1) q hq
    show k < q.2
    omega

theorem zipIdx_map_fst' : ∀ (l : List α) (k : Nat), (l.zipIdx k).map (·.1) = l
  | [], _ => rfl
  | a :: as, k => by rw [List.zipIdx_cons, List.map_cons, zipIdx_map_fst' as (k + 1)]

/-- the insertion sort of the indexed list is sorted by `StableLt` -/
theorem sliceStable_sorted {l : List α} (h : SWOOn lt l) :
    (sliceStable (ltIdx lt) l.zipIdx).Pairwise (StableLt lt) := by
  unfold sliceStable
  rw [List.pairwise_reverse]
  exact foldl_ins_sorted lt h l.zipIdx [] (fun e he => zipIdx_fst_mem l 0 e he)
    (by intro e he; cases he) (zipIdx_increasing l 0) (by intro e he; cases he) List.Pairwise.nil

/-- sorting commutes with forgetting the indices -/
theorem sliceStableIns_map (x : α × Nat) : ∀ (acc : List (α × Nat)),
    (sliceStableIns (ltIdx lt) x acc).map (·.1) = sliceStableIns lt x.1 (acc.map (·.1))
  | [] => rfl
  | e :: es => by
    rw [sliceStableIns, List.map_cons, sliceStableIns]
    by_cases hlt : lt x.1 e.1 = true
    · have hlt' : ltIdx lt x e = true := hlt
      rw [if_pos hlt', if_pos hlt, List.map_cons, sliceStableIns_map x es]
    · have hlt' : ¬ ltIdx lt x e = true := hlt
      rw [if_neg hlt', if_neg hlt]; rfl

theorem sliceStable_map (il : List (α × Nat)) :
    (sliceStable (ltIdx lt) il).map (·.1) = sliceStable lt (il.map (·.1)) := by
  unfold sliceStable
  rw [List.map_reverse]
  congr 1
  have : ∀ (rest acc : List (α × Nat)),
      (rest.foldl (fun acc x => sliceStableIns (ltIdx lt) x acc) acc).map (·.1) =
        (rest.map (·.1)).foldl (fun acc x => sliceStableIns lt x acc) (acc.map (·.1)) := by
    intro rest
    induction rest with
    | nil => intro acc; rfl
    | cons x rest ih =>
      intro acc
      rw [List.foldl_cons, ih, List.map_cons, List.foldl_cons, sliceStableIns_map]
  exact this il []

theorem sliceStable_perm' (lt' : α × Nat → α × Nat → Bool) (il : List (α × Nat)) :
    (sliceStable lt' il).Perm il := by
  unfold sliceStable
  have hins : ∀ (x : α × Nat) (acc : List (α × Nat)), (sliceStableIns lt' x acc).Perm (x :: acc) := by
    intro x acc
    induction acc with
    | nil => exact List.Perm.refl _
    | cons e es ih =>
      rw [sliceStableIns]
      by_cases hlt : lt' x e = true
      · rw [if_pos hlt]; exact (List.Perm.cons e ih).trans (List.Perm.swap x e es)
      · rw [if_neg hlt]
  have h : ∀ (l acc : List (α × Nat)),
      (l.foldl (fun acc x => sliceStableIns lt' x acc) acc).Perm (l.reverse ++ acc) := by
    intro l
    induction l with
    | nil => intro acc; exact List.Perm.refl _
    | cons x xs ih =>
      intro acc
      rw [List.foldl_cons]
      refine (ih _).trans ?_
      rw [List.reverse_cons, List.append_assoc]
      exact List.Perm.append_left _ (hins x acc)
  have := h il []
  rw [List.append_nil] at this
  exact (List.reverse_perm _).trans (this.trans (List.reverse_perm _))

/-- **Uniqueness of the stable sort.**  Let `lt` be a strict weak order on the elements of `l`.  Any
    arrangement `r` of the elements of `l` tagged with their original positions that is sorted
    (no element is smaller than one before it) and stable (of two tied elements the one that came
    first in `l` comes first) is `sliceStable lt l`. -/
theorem sliceStable_unique_idx {l : List α} (h : SWOOn lt l) (r : List (α × Nat))
    (hperm : r.Perm l.zipIdx)
    (hsorted : r.Pairwise (fun p q => lt q.1 p.1 = false))
    (hstable : r.Pairwise (fun p q => lt p.1 q.1 = false → p.2 < q.2)) :
    r.map (·.1) = sliceStable lt l := by
  have hr : r.Pairwise (StableLt lt) := by
    have := hsorted.and hstable
    refine this.imp ?_
    intro p q hpq
    cases hlt : lt p.1 q.1 with
    | true => exact Or.inl hlt
    | false => exact Or.inr ⟨hpq.1, hpq.2 hlt⟩
  have hs := sliceStable_sorted lt h
  have hps : r.Perm (sliceStable (ltIdx lt) l.zipIdx) := hperm.trans (sliceStable_perm' _ _).symm
  have heq : r = sliceStable (ltIdx lt) l.zipIdx := by
    apply List.Perm.eq_of_pairwise _ hr hs hps
    intro a b ha hb hab hba
    have ha' : a.1 ∈ l := zipIdx_fst_mem l 0 a (hperm.mem_iff.mp ha)
    have hb' : b.1 ∈ l :=
      zipIdx_fst_mem l 0 b ((sliceStable_perm' _ _).mem_iff.mp hb)
    exact (StableLt.asymm lt h ha' hb' hab hba).elim
  rw [heq, sliceStable_map, zipIdx_map_fst']
end

end Gedcom
