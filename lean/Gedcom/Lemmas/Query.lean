/-
  Helper lemmas about the outcome monad of the query evaluator (Model/Query.lean).
-/
import Gedcom.Model.Query
namespace Gedcom.Q
open Gedcom

namespace Outcome

@[simp] theorem pure_eq {α} (a : α) : (pure a : Outcome α) = .ok a := rfl
@[simp] theorem ok_bind {α β} (a : α) (f : α → Outcome β) : (Outcome.ok a >>= f) = f a := rfl
@[simp] theorem error_bind {α β} (k) (f : α → Outcome β) : (Outcome.error k >>= f) = .error k := rfl
@[simp] theorem panic_bind {α β} (p) (f : α → Outcome β) : (Outcome.panic p >>= f) = .panic p := rfl
@[simp] theorem diverged_bind {α β} (f : α → Outcome β) : (Outcome.diverged >>= f) = .diverged := rfl
@[simp] theorem unsupported_bind {α β} (w) (f : α → Outcome β) : (Outcome.unsupported w >>= f) = .unsupported w := rfl
@[simp] theorem bind_def {α β} (x : Outcome α) (f : α → Outcome β) : Outcome.bind x f = (x >>= f) := rfl

instance : LawfulMonad Outcome := LawfulMonad.mk'
  (id_map := by intro α x; cases x <;> rfl)
  (pure_bind := by intros; rfl)
  (bind_assoc := by intro α β γ x f g; cases x <;> rfl)

end Outcome

/-- not a divergence (stack overflow by unbounded variable recursion) -/
structure ND {α} (o : Outcome α) : Prop where
  ne : o ≠ .diverged

theorem ND_bind {α β} {x : Outcome α} {f : α → Outcome β} (hx : ND x) (hf : ∀ a, ND (f a)) : ND (x >>= f) := by
  cases x
  case ok a => exact hf a
  case diverged => exact absurd rfl hx.ne
  all_goals exact ⟨by simp⟩

theorem ND_ok {α} (a : α) : ND (Outcome.ok a) := ⟨by simp⟩
theorem ND_pure {α} (a : α) : ND (pure a : Outcome α) := ⟨by simp⟩
theorem ND_error {α} (k) : ND (Outcome.error k : Outcome α) := ⟨by simp⟩
theorem ND_panic {α} (k) : ND (Outcome.panic k : Outcome α) := ⟨by simp⟩
theorem ND_unsupported {α} (k) : ND (Outcome.unsupported k : Outcome α) := ⟨by simp⟩

theorem ND_mapO {α β} (f : α → Outcome β) (l : List α) (hf : ∀ a ∈ l, ND (f a)) : ND (mapO f l) := by
  induction l with
  | nil => exact ND_ok _
  | cons a l ih =>
    rw [mapO]
    apply ND_bind (hf a (by simp))
    intro b
    apply ND_bind (ih (fun x hx => hf x (by simp [hx])))
    intro bs; exact ND_ok _

theorem ND_filterO {α} (f : α → Outcome Bool) (l : List α) (hf : ∀ a ∈ l, ND (f a)) : ND (filterO f l) := by
  induction l with
  | nil => exact ND_ok _
  | cons a l ih =>
    rw [filterO]
    apply ND_bind (hf a (by simp))
    intro b
    apply ND_bind (ih (fun x hx => hf x (by simp [hx])))
    intro bs; exact ND_ok _

end Gedcom.Q

namespace Gedcom.Q
open Gedcom

/-! ### variables mentioned by a piece of syntax -/

mutual
def varsE : Expr → List Str
  | .var n => [n]
  | .call _ args => varsSs args
  | .obj fs => varsFs fs
  | .bin l _ r => varsE l ++ varsE r
  | .const _ | .acc _ | .question => []
def varsEs : List Expr → List Str
  | [] => []
  | e :: es => varsE e ++ varsEs es
def varsS : Stmt → List Str
  | .mk _ es => varsEs es
def varsSs : List Stmt → List Str
  | [] => []
  | s :: ss => varsS s ++ varsSs ss
def varsFs : List (Str × Stmt) → List Str
  | [] => []
  | (_, s) :: fs => varsS s ++ varsFs fs
end

/-! ### the parts of the evaluator that do not look up variables never diverge -/

theorem ND_toOutcome (r : MenuResult) : ND r.toOutcome := by
  cases r
  · exact ND_ok _
  · exact ND_error _

/-- one step of a non-divergence proof: a constructor other than `diverged`, a hypothesis, a bind,
    or a case split of the code -/
macro "nd_step" : tactic => `(tactic| with_reducible first
  | exact ND_ok _ | exact ND_pure _ | exact ND_error _ | exact ND_panic _ | exact ND_unsupported _ | exact ND_toOutcome _
  | assumption
  | (apply ND_bind)
  | (intro _)
  | split
  | (dsimp only))
macro "nd" : tactic => `(tactic| repeat' nd_step)

theorem ND_accessSingle (now docs acc v) : ND (accessSingle now docs acc v) := by
  unfold accessSingle; nd

theorem ND_returnType (elem acc) : ND (returnType elem acc) := by
  unfold returnType; nd

theorem ND_accessElem (now docs acc v) : ND (accessElem now docs acc v) := by
  unfold accessElem
  apply ND_bind (ND_accessSingle _ _ _ _)
  nd

theorem ND_evalAccessor (now docs q v) : ND (evalAccessor now docs q v) := by
  unfold evalAccessor
  split
  · exact ND_ok _
  · apply ND_bind (ND_returnType _ _)
    intro rt
    apply ND_bind (ND_mapO _ _ (fun a _ => ND_accessElem _ _ _ a))
    intro rs; exact ND_ok _
  · exact ND_accessSingle _ _ _ _

theorem ND_questionList (recv vars) : ND (questionList recv vars) := by
  unfold questionList; nd

theorem ND_questionTy (vars : List Str) (t : Ty) : ND (questionTy vars t) := by
  induction t
  case slice nm e ih =>
    unfold questionTy
    split
    · exact ND_panic _
    · split <;> first | exact ND_panic _ | exact ND_unsupported _
    · exact ih
  all_goals (unfold questionTy; first | exact ND_unsupported _ | exact ND_panic _ | exact ND_questionList _ _)

theorem ND_questionOf (vars v) : ND (questionOf vars v) := by
  unfold questionOf
  split
  · exact ND_panic _
  · exact ND_questionTy _ _

theorem ND_firstN (vs n) : ND (firstN vs n) := by
  unfold firstN; nd

theorem ND_lastN (vs n) : ND (lastN vs n) := by
  unfold lastN; nd

theorem ND_firstLast (isFirst v) (arg : Unit → Outcome Val) (h : ND (arg ())) : ND (firstLast isFirst v arg) := by
  unfold firstLast
  nd
  all_goals first | exact ND_firstN _ _ | exact ND_lastN _ _

theorem ND_keepIf (r) : ND (keepIf r) := by
  unfold keepIf; nd

theorem ND_onlyWith (v) (cond : Val → Outcome Val) (h : ∀ x, ND (cond x)) : ND (onlyWith v cond) := by
  unfold onlyWith
  split
  · split
    · exact ND_panic _
    · apply ND_bind
      · apply ND_filterO
        intro a _
        exact ND_bind (h a) (fun r => ND_keepIf r)
      · intro keep; exact ND_ok _
  · exact ND_ok _

theorem ND_tagPathWith (v) (args : Unit → Outcome (List Val)) (h : ND (args ())) : ND (tagPathWith v args) := by
  unfold tagPathWith
  dsimp only
  split
  · exact ND_panic _
  · exact ND_ok _
  · apply ND_bind h
    intro argVals
    split
    · exact ND_unsupported _
    · apply ND_bind
      · apply ND_mapO
        intro a _
        nd
      · intro found; exact ND_ok _

theorem ND_mergeWith (a b : Unit → Outcome Val) (ha : ND (a ())) (hb : ND (b ())) : ND (mergeWith a b) := by
  unfold mergeWith; nd

theorem ND_binaryOn (op) (l r : Val → Outcome Val) (x) (hl : ND (l x)) (hr : ND (r x)) : ND (binaryOn op l r x) := by
  unfold binaryOn; nd

theorem mapDeep_nonslice (rt : Ty) (f : Val → Outcome Val) (v : Val) (h : v.isSlice = false) : mapDeep rt f v = f v := by
  cases v <;> simp_all [mapDeep, Val.isSlice]

mutual
theorem ND_mapDeep (rt : Ty) (f : Val → Outcome Val) (hf : ∀ x, ND (f x)) : ∀ v, ND (mapDeep rt f v)
  | .slice _ _ _ vs => by
    unfold mapDeep
    apply ND_bind (ND_mapDeepList rt f hf vs)
    intro rs; exact ND_ok _
  | .nil => by rw [mapDeep_nonslice _ _ _ rfl]; exact hf _
  | .str _ => by rw [mapDeep_nonslice _ _ _ rfl]; exact hf _
  | .int _ => by rw [mapDeep_nonslice _ _ _ rfl]; exact hf _
  | .bool _ => by rw [mapDeep_nonslice _ _ _ rfl]; exact hf _
  | .float _ _ => by rw [mapDeep_nonslice _ _ _ rfl]; exact hf _
  | .someBool => by rw [mapDeep_nonslice _ _ _ rfl]; exact hf _
  | .doc _ => by rw [mapDeep_nonslice _ _ _ rfl]; exact hf _
  | .node _ _ => by rw [mapDeep_nonslice _ _ _ rfl]; exact hf _
  | .nilNode _ => by rw [mapDeep_nonslice _ _ _ rfl]; exact hf _
  | .tag _ => by rw [mapDeep_nonslice _ _ _ rfl]; exact hf _
  | .raw _ _ => by rw [mapDeep_nonslice _ _ _ rfl]; exact hf _
  | .date _ _ => by rw [mapDeep_nonslice _ _ _ rfl]; exact hf _
  | .named _ _ => by rw [mapDeep_nonslice _ _ _ rfl]; exact hf _
  | .map _ => by rw [mapDeep_nonslice _ _ _ rfl]; exact hf _
theorem ND_mapDeepList (rt : Ty) (f : Val → Outcome Val) (hf : ∀ x, ND (f x)) : ∀ vs, ND (mapDeepList rt f vs)
  | [] => by unfold mapDeepList; exact ND_ok _
  | v :: vs => by
    unfold mapDeepList
    apply ND_bind (ND_mapDeep rt f hf v)
    intro r
    split
    · exact ND_panic _
    · apply ND_bind (ND_mapDeepList rt f hf vs)
      intro rs; exact ND_ok _
end

end Gedcom.Q
