/- Helper lemmas for C12 (similarity scores): rational arithmetic, the Jaro loop invariants. -/
import Gedcom.Model.Similarity
namespace Gedcom.Sim
open Gedcom

/-! ### rational arithmetic -/

theorem rat_div_self {a : Rat} (h : a ≠ 0) : a / a = 1 := by
  rw [Rat.div_def]; exact Rat.mul_inv_cancel a h

theorem rat_div_nonneg {a b : Rat} (ha : 0 ≤ a) (hb : 0 ≤ b) : 0 ≤ a / b := by
  rw [Rat.div_def]
  rcases Rat.le_iff_eq_or_lt.mp hb with h | h
  · exact Rat.mul_nonneg ha (Rat.le_of_lt (Rat.inv_pos.mpr h))
  · rw [← h]; simp

theorem rat_div_le_one {a b : Rat} (hb : 0 < b) (h : a ≤ b) : a / b ≤ 1 := by
  rw [Rat.div_def]
  have h1 : 0 ≤ b⁻¹ := Rat.le_of_lt (Rat.inv_pos.mpr hb)
  have h2 := Rat.mul_le_mul_of_nonneg_right h h1
  rw [Rat.mul_inv_cancel b (Rat.ne_of_lt hb).symm] at h2
  exact h2

theorem natCast_le_rat {a b : Nat} (h : a ≤ b) : (a : Rat) ≤ (b : Rat) := by exact_mod_cast h

/-! ### Jaro -/

theorem jaroValue_bounds (m h la lb : Nat) (h1 : m ≤ la) (h2 : m ≤ lb) (h3 : h ≤ m) :
    0 ≤ jaroValue m h la lb ∧ jaroValue m h la lb ≤ 1 := by
  unfold jaroValue
  split
  · constructor <;> decide
  · rename_i hm
    have hm0 : (0 : Rat) < (m : Rat) := Rat.natCast_pos.mpr (by omega)
    have hla : (0 : Rat) < (la : Rat) := Rat.natCast_pos.mpr (by omega)
    have hlb : (0 : Rat) < (lb : Rat) := Rat.natCast_pos.mpr (by omega)
    have ht0 : (0 : Rat) ≤ ((h / 2 : Nat) : Rat) := Rat.natCast_nonneg
    have a1 := rat_div_le_one hla (natCast_le_rat h1)
    have a0 := rat_div_nonneg (Rat.le_of_lt hm0) (Rat.le_of_lt hla)
    have b1 := rat_div_le_one hlb (natCast_le_rat h2)
    have b0 := rat_div_nonneg (Rat.le_of_lt hm0) (Rat.le_of_lt hlb)
    have c1 : ((m : Rat) - ((h / 2 : Nat) : Rat)) / (m : Rat) ≤ 1 := rat_div_le_one hm0 (by grind)
    have c0 : 0 ≤ ((m : Rat) - ((h / 2 : Nat) : Rat)) / (m : Rat) := by
      apply rat_div_nonneg _ (Rat.le_of_lt hm0)
      have : ((h / 2 : Nat) : Rat) ≤ (m : Rat) := natCast_le_rat (by omega)
      grind
    constructor <;> grind

theorem jaroFind_some {c : UInt8} {b : Str} {used : List Bool} {j n k : Nat}
    (h : jaroFind c b used j n = some k) :
    used[k]? = some false ∧ b[k]? = some c ∧ j ≤ k ∧ k < j + n := by
  induction n generalizing j with
  | zero => simp [jaroFind] at h
  | succ n ih =>
    simp only [jaroFind] at h
    split at h
    · rename_i hc
      cases h
      exact ⟨hc.1, hc.2, Nat.le_refl _, by omega⟩
    · have := ih h
      exact ⟨this.1, this.2.1, by omega, by omega⟩

/-- the invariant of the outer loop: the flags cover `b`, every match set one fresh flag, at most
    one match per processed byte of `a`, every "half" is a match -/
structure JInv (lb i : Nat) (st : JSt) : Prop where
  len : st.used.length = lb
  cnt : st.nMatch = st.used.count true
  half : st.nHalf ≤ st.nMatch
  idx : st.nMatch ≤ i

theorem jaroStep_inv {b : Str} {r lb i : Nat} {st : JSt} {c : UInt8} (h : JInv lb i st) :
    JInv lb (i+1) (jaroStep b r st i c) := by
  unfold jaroStep
  simp only
  split
  · exact ⟨h.len, h.cnt, h.half, by have := h.idx; omega⟩
  · rename_i j hj
    obtain ⟨hu, _, _, _⟩ := jaroFind_some hj
    have hlt : j < st.used.length := by
      rcases Nat.lt_or_ge j st.used.length with h | h
      · exact h
      · rw [List.getElem?_eq_none h] at hu; cases hu
    have hget : st.used[j] = false := by
      rw [List.getElem?_eq_getElem hlt] at hu; exact Option.some.inj hu
    refine ⟨by simp [h.len], ?_, ?_, ?_⟩
    · simp only
      rw [List.count_set hlt, hget, h.cnt]; simp
    · simp only; have := h.half; split <;> omega
    · simp only; have := h.idx; omega

theorem jaroLoop_inv {b : Str} {r lb : Nat} (cs : Str) {i : Nat} {st : JSt} (h : JInv lb i st) :
    JInv lb (i + cs.length) (jaroLoop b r cs i st) := by
  induction cs generalizing i st with
  | nil => simpa [jaroLoop] using h
  | cons c cs ih =>
    simp only [jaroLoop, List.length_cons]
    have := ih (jaroStep_inv (b := b) (r := r) (c := c) h)
    rw [show i + (cs.length + 1) = i + 1 + cs.length by omega]
    exact this

theorem jaroFinal_inv (a b : Str) : JInv b.length a.length (jaroFinal a b) := by
  have h0 : JInv b.length 0 (jaroInit b) := by
    refine ⟨by simp [jaroInit], ?_, by simp [jaroInit], by simp [jaroInit]⟩
    simp [jaroInit, List.count_replicate]
  have := jaroLoop_inv (b := b) (r := matchRange a.length b.length) a h0
  simpa [jaroFinal] using this

theorem jaro_bounds' (a b : Str) : 0 ≤ jaro a b ∧ jaro a b ≤ 1 := by
  have h := jaroFinal_inv a b
  unfold jaro
  simp only
  apply jaroValue_bounds
  · exact h.idx
  · rw [h.cnt, ← h.len]; exact List.count_le_length
  · exact h.half

theorem jaroFind_first {c : UInt8} {b : Str} {used : List Bool} {j n k : Nat}
    (hjk : j ≤ k) (hkn : k < j + n)
    (hskip : ∀ x, j ≤ x → x < k → used[x]? ≠ some false)
    (hu : used[k]? = some false) (hb : b[k]? = some c) : jaroFind c b used j n = some k := by
  induction n generalizing j with
  | zero => omega
  | succ n ih =>
    simp only [jaroFind]
    split
    · rename_i hc
      rcases Nat.lt_or_ge j k with hlt | hge
      · exact absurd hc.1 (hskip j (Nat.le_refl _) hlt)
      · have : j = k := by omega
        rw [this]
    · rename_i hc
      have hne : j ≠ k := by
        intro e; subst e; exact hc ⟨hu, hb⟩
      exact ih (by omega) (by omega) (fun x hx hxk => hskip x (by omega) hxk)

theorem set_flags (p s : Nat) :
    (List.replicate p true ++ List.replicate (s+1) false).set p true =
      List.replicate (p+1) true ++ List.replicate s false := by
  rw [List.set_append_right _ _ (by simp)]
  have e : List.replicate (p+1) true = List.replicate p true ++ [true] := List.replicate_succ'
  rw [e]
  simp [List.replicate_succ]

theorem jaroLoop_self (a : Str) (r : Nat) (pre suf : Str) (h : pre ++ suf = a) :
    jaroLoop a r suf pre.length
      ⟨List.replicate pre.length true ++ List.replicate suf.length false, pre.length, 0⟩
      = ⟨List.replicate a.length true, a.length, 0⟩ := by
  induction suf generalizing pre with
  | nil => simp at h; subst h; simp [jaroLoop]
  | cons c cs ih =>
    simp only [jaroLoop]
    have hlen : a.length = pre.length + (cs.length + 1) := by rw [← h]; simp
    have hfind : jaroFind c a (List.replicate pre.length true ++ List.replicate (cs.length+1) false)
        (pre.length - r) (min a.length (pre.length + r + 1) - (pre.length - r)) = some pre.length := by
      apply jaroFind_first
      · omega
      · omega
      · intro x _ hx
        rw [List.getElem?_append_left (by simpa using hx)]
        simp [hx]
      · rw [List.getElem?_append_right (by simp)]
        simp
      · rw [← h]; simp
    have hstep : jaroStep a r ⟨List.replicate pre.length true ++ List.replicate (cs.length+1) false, pre.length, 0⟩
        pre.length c = ⟨List.replicate (pre.length+1) true ++ List.replicate cs.length false, pre.length+1, 0⟩ := by
      unfold jaroStep
      simp only at hfind ⊢
      rw [hfind]
      simp only [set_flags]
      simp
    simp only [List.length_cons]
    rw [hstep]
    have := ih (pre ++ [c]) (by simpa using h)
    simpa using this

theorem jaro_self' (a : Str) (h : a ≠ []) : jaro a a = 1 := by
  have hl := jaroLoop_self a (matchRange a.length a.length) [] a rfl
  have hf : jaroFinal a a = ⟨List.replicate a.length true, a.length, 0⟩ := by
    unfold jaroFinal jaroInit
    simpa using hl
  unfold jaro
  simp only [hf]
  unfold jaroValue
  have hpos : 0 < a.length := List.length_pos_iff.mpr h
  have hne : a.length ≠ 0 := by omega
  have hq : (a.length : Rat) ≠ 0 := by
    have := Rat.natCast_pos.mpr hpos
    exact (Rat.ne_of_lt this).symm
  simp only [hne, if_false]
  rw [rat_div_self hq]
  have e : ((0 / 2 : Nat) : Rat) = 0 := by simp
  have e2 : (a.length : Rat) - 0 = (a.length : Rat) := by grind
  rw [e, e2, rat_div_self hq]
  decide +kernel

/-! ### Jaro-Winkler -/

theorem prefixMatches_le (n : Nat) (a b : Str) : prefixMatches n a b ≤ n := by
  induction n generalizing a b with
  | zero => cases a <;> cases b <;> simp [prefixMatches]
  | succ n ih =>
    cases a with
    | nil => simp [prefixMatches]
    | cons x xs =>
      cases b with
      | nil => simp [prefixMatches]
      | cons y ys =>
        simp only [prefixMatches]
        have := ih xs ys
        split <;> omega

theorem prefixMatches_comm (n : Nat) (a b : Str) : prefixMatches n a b = prefixMatches n b a := by
  induction n generalizing a b with
  | zero => cases a <;> cases b <;> simp [prefixMatches]
  | succ n ih =>
    cases a with
    | nil => cases b <;> simp [prefixMatches]
    | cons x xs =>
      cases b with
      | nil => simp [prefixMatches]
      | cons y ys =>
        simp only [prefixMatches]
        rw [ih xs ys]
        by_cases e : x = y
        · subst e; rfl
        · have e' : ¬ y = x := fun h => e h.symm
          simp [e, e']

/-- the boost never leaves the unit interval as long as at most ten positions are counted -/
theorem boost_bounds (j : Rat) (p : Nat) (h0 : 0 ≤ j) (h1 : j ≤ 1) (hp : p ≤ 10) :
    0 ≤ j + (1 / 10 : Rat) * (p : Rat) * (1 - j) ∧ j + (1 / 10 : Rat) * (p : Rat) * (1 - j) ≤ 1 := by
  have hp0 : (0 : Rat) ≤ (p : Rat) := Rat.natCast_nonneg
  have hp1 : (p : Rat) ≤ 10 := by
    have := natCast_le_rat hp
    simpa using this
  have a1 := Rat.mul_nonneg hp0 (show (0 : Rat) ≤ 1 - j by grind)
  have a2 := Rat.mul_nonneg (show (0 : Rat) ≤ 10 - (p : Rat) by grind) (show (0 : Rat) ≤ 1 - j by grind)
  constructor <;> grind

theorem jaroWinkler_bounds' (a b : Str) (boost : Rat) (p : Nat) (hp : p ≤ 10) :
    0 ≤ jaroWinkler a b boost p ∧ jaroWinkler a b boost p ≤ 1 := by
  have hj := jaro_bounds' a b
  unfold jaroWinkler
  simp only
  split
  · exact hj
  · exact boost_bounds _ _ hj.1 hj.2 (Nat.le_trans (prefixMatches_le p a b) hp)

theorem jaroWinkler_self' (a : Str) (boost : Rat) (p : Nat) (h : a ≠ []) :
    jaroWinkler a a boost p = 1 := by
  unfold jaroWinkler
  simp only [jaro_self' a h]
  split
  · rfl
  · grind

theorem jaroWinkler_comm_of_jaro (a b : Str) (boost : Rat) (p : Nat) (h : jaro a b = jaro b a) :
    jaroWinkler a b boost p = jaroWinkler b a boost p := by
  unfold jaroWinkler
  simp only [h, prefixMatches_comm p a b]

/-! ### Dates -/

theorem rat_mul_self_nonneg (x : Rat) : 0 ≤ x * x := by
  rcases (Rat.le_total : (0:Rat) ≤ x ∨ x ≤ 0) with h | h
  · exact Rat.mul_nonneg h h
  · have := Rat.mul_nonneg (show (0 : Rat) ≤ -x by grind) (show (0 : Rat) ≤ -x by grind)
    grind

theorem abs_mul_self (u : Rat) : u.abs * u.abs = u * u := by
  unfold Rat.abs; split <;> grind

theorem sq_le_sq_of_abs {u v : Rat} (h : u.abs ≤ v.abs) : u * u ≤ v * v := by
  rw [← abs_mul_self u, ← abs_mul_self v]
  have a := Rat.mul_le_mul_of_nonneg_left h (Rat.abs_nonneg (x := u))
  have b := Rat.mul_le_mul_of_nonneg_right h (Rat.abs_nonneg (x := v))
  exact Rat.le_trans a b

theorem ratio_sq (u m : Rat) : (u / m) * (u / m) = (u * u) * (m⁻¹ * m⁻¹) := by
  rw [Rat.div_def]; grind

theorem yearsSimilarity_bounds' (l r m : Rat) :
    0 ≤ yearsSimilarity l r m ∧ yearsSimilarity l r m ≤ 1 := by
  unfold yearsSimilarity
  simp only
  have := rat_mul_self_nonneg ((l - r) / m)
  split
  · constructor <;> decide
  · rename_i h
    have := Rat.not_lt.mp h
    constructor <;> grind

theorem yearsSimilarity_comm' (l r m : Rat) : yearsSimilarity l r m = yearsSimilarity r l m := by
  unfold yearsSimilarity
  simp only
  have e : (l - r) / m * ((l - r) / m) = (r - l) / m * ((r - l) / m) := by
    rw [ratio_sq, ratio_sq]; grind
  rw [e]

/-- the score is a non-increasing function of the squared distance -/
theorem yearsSimilarity_antitone_sq (l r l' r' m : Rat)
    (h : (l - r) * (l - r) ≤ (l' - r') * (l' - r')) :
    yearsSimilarity l' r' m ≤ yearsSimilarity l r m := by
  unfold yearsSimilarity
  simp only
  rw [ratio_sq, ratio_sq]
  have hm := rat_mul_self_nonneg (m⁻¹)
  have key := Rat.mul_le_mul_of_nonneg_right h hm
  have n1 := Rat.mul_nonneg (rat_mul_self_nonneg (l - r)) hm
  split <;> split
  · exact Rat.le_refl
  · rename_i h2; have := Rat.not_lt.mp h2; grind
  · rename_i h1 h2; have := Rat.not_lt.mp h1; grind
  · grind

theorem yearsSimilarity_antitone' (l r l' r' m : Rat) (h : (l - r).abs ≤ (l' - r').abs) :
    yearsSimilarity l' r' m ≤ yearsSimilarity l r m :=
  yearsSimilarity_antitone_sq l r l' r' m (sq_le_sq_of_abs h)

theorem yearsSimilarity_distance' (l r l' r' m : Rat) (h : (l - r).abs = (l' - r').abs) :
    yearsSimilarity l r m = yearsSimilarity l' r' m :=
  Rat.le_antisymm (yearsSimilarity_antitone' l' r' l r m (by rw [h]; exact Rat.le_refl))
    (yearsSimilarity_antitone' l r l' r' m (by rw [h]; exact Rat.le_refl))

theorem yearsSimilarity_self' (l m : Rat) : yearsSimilarity l l m = 1 := by
  unfold yearsSimilarity
  simp only
  have e : (l - l) / m = 0 := by rw [Rat.div_def]; grind
  rw [e]
  decide +kernel

theorem yearsSimilarity_beyond' (l r m : Rat) (hm : 0 < m) (h : m < (l - r).abs) :
    yearsSimilarity l r m = 0 := by
  unfold yearsSimilarity
  simp only
  rw [ratio_sq, ← abs_mul_self (l - r)]
  have hi : 0 < m⁻¹ := Rat.inv_pos.mpr hm
  have hmi : m * m⁻¹ = 1 := Rat.mul_inv_cancel m (Rat.ne_of_lt hm).symm
  -- 1 = (m m⁻¹)² < (|u| m⁻¹)²
  have h1 : 1 < (l - r).abs * m⁻¹ := by
    have := Rat.mul_lt_mul_of_pos_right h hi
    rw [hmi] at this; exact this
  have h2 : (l - r).abs * m⁻¹ < (l - r).abs * m⁻¹ * ((l - r).abs * m⁻¹) := by
    have := Rat.mul_lt_mul_of_pos_left h1 (show 0 < (l - r).abs * m⁻¹ by grind)
    grind
  have h3 : (1 : Rat) < (l - r).abs * (l - r).abs * (m⁻¹ * m⁻¹) := by grind
  simp [h3]

theorem dateSimilarity_bounds' (l r : Option DateR) (m : Rat) :
    0 ≤ dateSimilarity l r m ∧ dateSimilarity l r m ≤ 1 := by
  unfold dateSimilarity
  split
  · exact yearsSimilarity_bounds' _ _ _
  · constructor <;> decide +kernel

theorem dateSimilarity_comm' (l r : Option DateR) (m : Rat) :
    dateSimilarity l r m = dateSimilarity r l m := by
  cases l <;> cases r <;> simp [dateSimilarity, rangeSimilarity, yearsSimilarity_comm']

/-! ### running maxima (names, parents) -/

/-- `for x in xs { s := g x; if s > acc { acc = s } }` -/
def foldMax {α : Type} (g : α → Rat) (acc : Rat) (xs : List α) : Rat :=
  xs.foldl (fun acc x => if g x > acc then g x else acc) acc

def foldMax2 {α β : Type} (g : α → β → Rat) (acc : Rat) (xs : List α) (ys : List β) : Rat :=
  xs.foldl (fun acc x => foldMax (g x) acc ys) acc

theorem foldMax_ge_acc {α : Type} (g : α → Rat) (acc : Rat) (xs : List α) : acc ≤ foldMax g acc xs := by
  induction xs generalizing acc with
  | nil => exact Rat.le_refl
  | cons x xs ih =>
    simp only [foldMax, List.foldl_cons]
    have := ih (if g x > acc then g x else acc)
    simp only [foldMax] at this
    split at this <;> grind

theorem foldMax_le {α : Type} (g : α → Rat) (acc hi : Rat) (xs : List α) (h0 : acc ≤ hi)
    (h : ∀ x ∈ xs, g x ≤ hi) : foldMax g acc xs ≤ hi := by
  induction xs generalizing acc with
  | nil => exact h0
  | cons x xs ih =>
    simp only [foldMax, List.foldl_cons]
    apply ih
    · split
      · exact h x (by simp)
      · exact h0
    · intro y hy; exact h y (by simp [hy])

theorem foldMax_ge_mem {α : Type} (g : α → Rat) (acc : Rat) (xs : List α) (x : α) (hx : x ∈ xs) :
    g x ≤ foldMax g acc xs := by
  induction xs generalizing acc with
  | nil => cases hx
  | cons y ys ih =>
    simp only [foldMax, List.foldl_cons]
    rcases List.mem_cons.mp hx with e | hmem
    · subst e
      have := foldMax_ge_acc g (if g x > acc then g x else acc) ys
      simp only [foldMax] at this
      by_cases hc : g x > acc
      · simp only [hc, if_true] at this ⊢; exact this
      · simp only [hc, if_false] at this ⊢
        have := Rat.not_lt.mp hc; grind
    · exact ih _ hmem

theorem foldMax_attained {α : Type} (g : α → Rat) (acc : Rat) (xs : List α) :
    foldMax g acc xs = acc ∨ ∃ x ∈ xs, foldMax g acc xs = g x := by
  induction xs generalizing acc with
  | nil => left; rfl
  | cons y ys ih =>
    simp only [foldMax, List.foldl_cons]
    rcases ih (if g y > acc then g y else acc) with h | ⟨x, hx, h⟩
    · simp only [foldMax] at h
      by_cases hc : g y > acc
      · simp only [hc, if_true] at h ⊢; right; exact ⟨y, by simp, h⟩
      · simp only [hc, if_false] at h ⊢; left; exact h
    · right; exact ⟨x, by simp [hx], h⟩

theorem foldMax2_ge_acc {α β : Type} (g : α → β → Rat) (acc : Rat) (xs : List α) (ys : List β) :
    acc ≤ foldMax2 g acc xs ys := by
  induction xs generalizing acc with
  | nil => exact Rat.le_refl
  | cons x xs ih =>
    simp only [foldMax2, List.foldl_cons]
    exact Rat.le_trans (foldMax_ge_acc (g x) acc ys) (ih _)

theorem foldMax2_le {α β : Type} (g : α → β → Rat) (acc hi : Rat) (xs : List α) (ys : List β)
    (h0 : acc ≤ hi) (h : ∀ x ∈ xs, ∀ y ∈ ys, g x y ≤ hi) : foldMax2 g acc xs ys ≤ hi := by
  induction xs generalizing acc with
  | nil => exact h0
  | cons x xs ih =>
    simp only [foldMax2, List.foldl_cons]
    apply ih
    · exact foldMax_le (g x) acc hi ys h0 (fun y hy => h x (by simp) y hy)
    · intro x' hx'; exact h x' (by simp [hx'])

theorem foldMax2_ge_mem {α β : Type} (g : α → β → Rat) (acc : Rat) (xs : List α) (ys : List β)
    (x : α) (y : β) (hx : x ∈ xs) (hy : y ∈ ys) : g x y ≤ foldMax2 g acc xs ys := by
  induction xs generalizing acc with
  | nil => cases hx
  | cons z zs ih =>
    simp only [foldMax2, List.foldl_cons]
    rcases List.mem_cons.mp hx with e | hmem
    · subst e
      exact Rat.le_trans (foldMax_ge_mem (g x) acc ys y hy) (foldMax2_ge_acc g _ zs ys)
    · exact ih _ hmem

theorem foldMax2_attained {α β : Type} (g : α → β → Rat) (acc : Rat) (xs : List α) (ys : List β) :
    foldMax2 g acc xs ys = acc ∨ ∃ x ∈ xs, ∃ y ∈ ys, foldMax2 g acc xs ys = g x y := by
  induction xs generalizing acc with
  | nil => left; rfl
  | cons z zs ih =>
    simp only [foldMax2, List.foldl_cons]
    rcases ih (foldMax (g z) acc ys) with h | ⟨x, hx, y, hy, h⟩
    · simp only [foldMax2] at h
      rcases foldMax_attained (g z) acc ys with h' | ⟨y, hy, h'⟩
      · left; rw [h, h']
      · right; exact ⟨z, by simp, y, hy, by rw [h, h']⟩
    · right; exact ⟨x, by simp [hx], y, hy, h⟩

/-- the maximum over a matrix does not depend on which side is iterated first -/
theorem foldMax2_comm {α β : Type} (g : α → β → Rat) (g' : β → α → Rat) (acc : Rat)
    (xs : List α) (ys : List β) (h : ∀ x ∈ xs, ∀ y ∈ ys, g x y = g' y x) :
    foldMax2 g acc xs ys = foldMax2 g' acc ys xs := by
  apply Rat.le_antisymm
  · rcases foldMax2_attained g acc xs ys with e | ⟨x, hx, y, hy, e⟩
    · rw [e]; exact foldMax2_ge_acc _ _ _ _
    · rw [e, h x hx y hy]; exact foldMax2_ge_mem g' acc ys xs y x hy hx
  · rcases foldMax2_attained g' acc ys xs with e | ⟨y, hy, x, hx, e⟩
    · rw [e]; exact foldMax2_ge_acc _ _ _ _
    · rw [e, ← h x hx y hy]; exact foldMax2_ge_mem g acc xs ys x y hx hy

theorem nameSimilarity_eq (ns ms : List Str) (o : SimOpts) :
    nameSimilarity ns ms o =
      foldMax2 (fun n m => stringSimilarity n m o.jaroBoostThreshold o.jaroPrefixSize) 0 ns ms := rfl

theorem parentsSimilarity_eq (ps qs : List Fam) (o : SimOpts) :
    parentsSimilarity ps qs o =
      if ps.isEmpty || qs.isEmpty then 1 / 2
      else foldMax2 (fun p q => familySimilarity p q o) 0 ps qs := rfl

/-! ### individuals -/

/-- a name of which something is left after trimming scores 1 against itself -/
theorem stringSimilarity_self' (a : Str) (boost : Rat) (p : Nat) (h : Gedcom.cleanSpace a ≠ []) :
    stringSimilarity a a boost p = 1 := by
  unfold stringSimilarity comparedNames
  by_cases hc : cleanName a = []
  · simp only [hc, and_self, if_true]
    exact jaroWinkler_self' _ boost p h
  · simp only [hc, and_self, if_false]
    exact jaroWinkler_self' _ boost p hc

theorem stringSimilarity_bounds' (a b : Str) (boost : Rat) (p : Nat) (hp : p ≤ 10) :
    0 ≤ stringSimilarity a b boost p ∧ stringSimilarity a b boost p ≤ 1 :=
  jaroWinkler_bounds' _ _ _ _ hp

theorem nameSimilarity_bounds (ns ms : List Str) (o : SimOpts) (hp : o.jaroPrefixSize ≤ 10) :
    0 ≤ nameSimilarity ns ms o ∧ nameSimilarity ns ms o ≤ 1 := by
  rw [nameSimilarity_eq]
  exact ⟨foldMax2_ge_acc _ _ _ _,
    foldMax2_le _ _ _ _ _ (by decide) (fun n _ m _ => (stringSimilarity_bounds' n m _ _ hp).2)⟩

theorem convex_bounds (x y t : Rat) (hx0 : 0 ≤ x) (hx1 : x ≤ 1) (hy0 : 0 ≤ y) (hy1 : y ≤ 1)
    (ht0 : 0 ≤ t) (ht1 : t ≤ 1) : 0 ≤ x * t + y * (1 - t) ∧ x * t + y * (1 - t) ≤ 1 := by
  have a1 := Rat.mul_nonneg hx0 ht0
  have a2 := Rat.mul_nonneg (show (0 : Rat) ≤ 1 - x by grind) ht0
  have a3 := Rat.mul_nonneg hy0 (show (0 : Rat) ≤ 1 - t by grind)
  have a4 := Rat.mul_nonneg (show (0 : Rat) ≤ 1 - y by grind) (show (0 : Rat) ≤ 1 - t by grind)
  constructor <;> grind

theorem indiSimilarity_bounds (x y : Indi) (o : SimOpts) (ho : o.Valid) :
    0 ≤ indiSimilarity x y o ∧ indiSimilarity x y o ≤ 1 := by
  unfold indiSimilarity
  simp only
  have hn := nameSimilarity_bounds x.names y.names o ho.prefix_le
  have hb := dateSimilarity_bounds' x.birth y.birth o.maxYears
  have hd := dateSimilarity_bounds' x.death y.death o.maxYears
  apply convex_bounds _ _ _ hn.1 hn.2 (by grind) (by grind) ho.ratio_nonneg ho.ratio_le_one

theorem individualSimilarity_bounds' (x y : Option Indi) (o : SimOpts) (ho : o.Valid) :
    0 ≤ individualSimilarity x y o ∧ individualSimilarity x y o ≤ 1 := by
  unfold individualSimilarity
  split
  · exact indiSimilarity_bounds _ _ o ho
  · constructor <;> decide +kernel

theorem indiSimilarity_comm (x y : Indi) (o : SimOpts)
    (h : ∀ n ∈ x.names, ∀ m ∈ y.names,
      stringSimilarity n m o.jaroBoostThreshold o.jaroPrefixSize =
      stringSimilarity m n o.jaroBoostThreshold o.jaroPrefixSize) :
    indiSimilarity x y o = indiSimilarity y x o := by
  unfold indiSimilarity
  simp only
  rw [nameSimilarity_eq, nameSimilarity_eq, foldMax2_comm _ _ 0 x.names y.names h,
    dateSimilarity_comm' x.birth y.birth, dateSimilarity_comm' x.death y.death]

theorem dateSimilarity_same (r : DateR) (m : Rat) : dateSimilarity (some r) (some r) m = 1 := by
  simp [dateSimilarity, rangeSimilarity, yearsSimilarity_self']

theorem indiSimilarity_self (x : Indi) (o : SimOpts) (hp : o.jaroPrefixSize ≤ 10)
    (n : Str) (hn : n ∈ x.names) (hne : Gedcom.cleanSpace n ≠ [])
    (b d : DateR) (hb : x.birth = some b) (hd : x.death = some d) :
    indiSimilarity x x o = 1 := by
  unfold indiSimilarity
  simp only
  have h1 : nameSimilarity x.names x.names o = 1 := by
    apply Rat.le_antisymm (nameSimilarity_bounds _ _ o hp).2
    rw [nameSimilarity_eq]
    have := foldMax2_ge_mem (fun n m => stringSimilarity n m o.jaroBoostThreshold o.jaroPrefixSize)
      0 x.names x.names n n hn hn
    rw [stringSimilarity_self' n _ _ hne] at this
    exact this
  rw [h1, hb, hd, dateSimilarity_same, dateSimilarity_same]
  grind

/-! ### lists -/

theorem mem_insertDesc {c d : Cell} {cs : List Cell} : d ∈ insertDesc c cs ↔ d = c ∨ d ∈ cs := by
  induction cs with
  | nil => simp [insertDesc]
  | cons e es ih =>
    simp only [insertDesc]
    split
    · simp only [List.mem_cons, ih]
      constructor
      · rintro (h | h | h)
        · exact Or.inr (Or.inl h)
        · exact Or.inl h
        · exact Or.inr (Or.inr h)
      · rintro (h | h | h)
        · exact Or.inr (Or.inl h)
        · exact Or.inl h
        · exact Or.inr (Or.inr h)
    · simp

theorem mem_sortDesc {d : Cell} {cs : List Cell} : d ∈ sortDesc cs ↔ d ∈ cs := by
  induction cs with
  | nil => simp [sortDesc]
  | cons e es ih => simp [sortDesc, mem_insertDesc, ih]

theorem mem_matrix {c : Cell} {xs ys : List Indi} {o : SimOpts} (h : c ∈ matrix xs ys o) :
    c.a ∈ xs ∧ c.b ∈ ys ∧ c.sim = indiSimilarity c.a c.b o := by
  simp only [matrix, List.mem_flatMap, List.mem_map] at h
  obtain ⟨a, ha, b, hb, e⟩ := h
  subst e
  exact ⟨ha, hb, rfl⟩

theorem winners_mem {m : Rat} {cs : List Cell} {fa fb : List Nat} {c : Cell}
    (h : c ∈ winners m cs fa fb) : c ∈ cs := by
  induction cs generalizing fa fb with
  | nil => simp [winners] at h
  | cons d ds ih =>
    simp only [winners] at h
    split at h
    · cases h
    · split at h
      · exact List.mem_cons_of_mem _ (ih h)
      · rcases List.mem_cons.mp h with e | h'
        · rw [e]; simp
        · exact List.mem_cons_of_mem _ (ih h')

/-- every winner takes a left individual that no earlier winner took -/
theorem winners_nodup (m : Rat) (cs : List Cell) (fa fb : List Nat) :
    ((winners m cs fa fb).map (fun c => c.a.id)).Nodup ∧
    ∀ c ∈ winners m cs fa fb, c.a.id ∉ fa := by
  induction cs generalizing fa fb with
  | nil => simp [winners]
  | cons d ds ih =>
    simp only [winners]
    split
    · simp
    · split
      · exact ih fa fb
      · rename_i hf
        have hd : d.a.id ∉ fa := by
          intro hmem
          apply hf
          simp [hmem]
        obtain ⟨h1, h2⟩ := ih (d.a.id :: fa) (d.b.id :: fb)
        constructor
        · simp only [List.map_cons, List.nodup_cons]
          refine ⟨?_, h1⟩
          intro hmem
          obtain ⟨c, hc, e⟩ := List.mem_map.mp hmem
          have := h2 c hc
          apply this
          simp [e]
        · intro c hc
          rcases List.mem_cons.mp hc with e | hc'
          · rw [e]; exact hd
          · have := h2 c hc'
            intro hmem
            apply this
            simp [hmem]

theorem winners_length_le (m : Rat) (xs ys : List Indi) (o : SimOpts) :
    (winners m (sortDesc (matrix xs ys o)) [] []).length ≤ xs.length := by
  have h := (winners_nodup m (sortDesc (matrix xs ys o)) [] []).1
  have hsub : (winners m (sortDesc (matrix xs ys o)) [] []).map (fun c => c.a.id) ⊆ xs.map (fun x => x.id) := by
    intro i hi
    obtain ⟨c, hc, e⟩ := List.mem_map.mp hi
    have := (mem_matrix (mem_sortDesc.mp (winners_mem hc))).1
    exact List.mem_map.mpr ⟨c.a, this, e⟩
  have := List.Nodup.length_le_of_subset h hsub
  simpa using this

theorem sumSims_bounds (w : List Cell) (h : ∀ c ∈ w, 0 ≤ c.sim ∧ c.sim ≤ 1) :
    0 ≤ sumSims w ∧ sumSims w ≤ (w.length : Rat) := by
  induction w with
  | nil => simp [sumSims]
  | cons c cs ih =>
    have hc := h c (by simp)
    have := ih (fun d hd => h d (by simp [hd]))
    simp only [sumSims, List.length_cons]
    have e : ((cs.length + 1 : Nat) : Rat) = (cs.length : Rat) + 1 := by simp
    rw [e]
    constructor <;> grind

theorem listSimilarity_bounds' (xs ys : List Indi) (o : SimOpts) (ho : o.Valid) :
    0 ≤ listSimilarity xs ys o ∧ listSimilarity xs ys o ≤ 1 := by
  unfold listSimilarity
  split
  · constructor <;> decide
  · split
    · constructor <;> decide +kernel
    · rename_i h1 h2
      simp only
      have hw := winners_length_le o.minimumSimilarity xs ys o
      have hs := sumSims_bounds (winners o.minimumSimilarity (sortDesc (matrix xs ys o)) [] []) (by
        intro c hc
        have := mem_matrix (mem_sortDesc.mp (winners_mem hc))
        rw [this.2.2]
        exact indiSimilarity_bounds _ _ o ho)
      have hn : 0 < max xs.length ys.length := by omega
      have hnq : (0 : Rat) < ((max xs.length ys.length : Nat) : Rat) := Rat.natCast_pos.mpr hn
      have hwn : ((winners o.minimumSimilarity (sortDesc (matrix xs ys o)) [] []).length : Rat) ≤
          ((max xs.length ys.length : Nat) : Rat) := natCast_le_rat (by omega)
      constructor
      · apply rat_div_nonneg _ (Rat.le_of_lt hnq); grind
      · apply rat_div_le_one hnq; grind

/-! ### families, surrounding similarity, weights -/

theorem familySimilarity_bounds' (f g : Fam) (o : SimOpts) (ho : o.Valid) :
    0 ≤ familySimilarity f g o ∧ familySimilarity f g o ≤ 1 := by
  unfold familySimilarity
  have h := individualSimilarity_bounds' f.husband g.husband o ho
  have w := individualSimilarity_bounds' f.wife g.wife o ho
  constructor <;> grind

theorem parentsSimilarity_bounds (ps qs : List Fam) (o : SimOpts) (ho : o.Valid) :
    0 ≤ parentsSimilarity ps qs o ∧ parentsSimilarity ps qs o ≤ 1 := by
  rw [parentsSimilarity_eq]
  split
  · constructor <;> decide +kernel
  · exact ⟨foldMax2_ge_acc _ _ _ _,
      foldMax2_le _ _ _ _ _ (by decide) (fun p _ q _ => (familySimilarity_bounds' p q o ho).2)⟩

theorem defaultOpts_valid : defaultOpts.Valid := by
  constructor <;> decide +kernel

/-- a weighted sum of scores in the unit interval with non-negative weights that sum to one -/
theorem weighted_sum_bounds (i p s c wi wp ws wc : Rat)
    (hi : 0 ≤ i ∧ i ≤ 1) (hp : 0 ≤ p ∧ p ≤ 1) (hs : 0 ≤ s ∧ s ≤ 1) (hc : 0 ≤ c ∧ c ≤ 1)
    (hwi : 0 ≤ wi) (hwp : 0 ≤ wp) (hws : 0 ≤ ws) (hwc : 0 ≤ wc) (hsum : wi + wp + ws + wc = 1) :
    0 ≤ i * wi + p * wp + s * ws + c * wc ∧ i * wi + p * wp + s * ws + c * wc ≤ 1 := by
  have a1 := Rat.mul_nonneg hi.1 hwi
  have a2 := Rat.mul_nonneg hp.1 hwp
  have a3 := Rat.mul_nonneg hs.1 hws
  have a4 := Rat.mul_nonneg hc.1 hwc
  have b1 := Rat.mul_nonneg (show (0 : Rat) ≤ 1 - i by grind) hwi
  have b2 := Rat.mul_nonneg (show (0 : Rat) ≤ 1 - p by grind) hwp
  have b3 := Rat.mul_nonneg (show (0 : Rat) ≤ 1 - s by grind) hws
  have b4 := Rat.mul_nonneg (show (0 : Rat) ≤ 1 - c by grind) hwc
  constructor <;> grind

/-- what `SurroundingSimilarity` returns is well-formed: four scores in the unit interval and
    the options the weights are taken from are valid ones -/
structure SurrSim.WF (s : SurrSim) : Prop where
  parents : 0 ≤ s.parents ∧ s.parents ≤ 1
  individual : 0 ≤ s.individual ∧ s.individual ≤ 1
  spouses : 0 ≤ s.spouses ∧ s.spouses ≤ 1
  children : 0 ≤ s.children ∧ s.children ≤ 1
  opts : s.opts.Valid

theorem surroundingSimilarity_wf (x y : Surround) (o : SimOpts) (force : Bool) (ho : o.Valid) :
    (surroundingSimilarity x y o force).WF := by
  unfold surroundingSimilarity
  simp only
  split
  · exact ⟨by constructor <;> decide, by constructor <;> decide, by constructor <;> decide,
      by constructor <;> decide, defaultOpts_valid⟩
  · exact ⟨parentsSimilarity_bounds _ _ o ho, indiSimilarity_bounds _ _ o ho,
      listSimilarity_bounds' _ _ o ho, listSimilarity_bounds' _ _ o ho, ho⟩

theorem weightedSimilarity_bounds' (s : SurrSim) (h : s.WF) :
    0 ≤ weightedSimilarity s ∧ weightedSimilarity s ≤ 1 := by
  unfold weightedSimilarity
  exact weighted_sum_bounds _ _ _ _ _ _ _ _ h.individual h.parents h.spouses h.children
    h.opts.iw_nonneg h.opts.pw_nonneg h.opts.sw_nonneg h.opts.cw_nonneg h.opts.weights_sum

/-! ### Jaro symmetry, guarded cases -/

theorem jaroValue_comm (m h la lb : Nat) : jaroValue m h la lb = jaroValue m h lb la := by
  unfold jaroValue
  split
  · rfl
  · grind

theorem matchRange_comm (la lb : Nat) : matchRange la lb = matchRange lb la := by
  unfold matchRange; rw [Nat.max_comm]

/-- no common byte: no step ever matches -/
theorem jaroLoop_disjoint (b : Str) (r : Nat) (cs : Str) (i : Nat) (st : JSt)
    (h : ∀ c ∈ cs, c ∉ b) : jaroLoop b r cs i st = st := by
  induction cs generalizing i st with
  | nil => rfl
  | cons c cs ih =>
    simp only [jaroLoop]
    have hstep : jaroStep b r st i c = st := by
      unfold jaroStep
      simp only
      split
      · rfl
      · rename_i j hj
        obtain ⟨_, hb, _, _⟩ := jaroFind_some hj
        exact absurd (List.mem_of_getElem? hb) (h c (by simp))
    rw [hstep]
    exact ih i.succ st (fun c' hc' => h c' (by simp [hc']))

theorem jaro_disjoint (a b : Str) (h : ∀ c ∈ a, c ∉ b) : jaro a b = 0 := by
  unfold jaro jaroFinal
  rw [jaroLoop_disjoint b _ a 0 _ h]
  simp [jaroInit, jaroValue]

/-- window 0 (both strings shorter than 6 bytes): a position can only match itself -/
def agree : Str → Str → Nat
  | x :: xs, y :: ys => (if x = y then 1 else 0) + agree xs ys
  | _, _ => 0

theorem agree_comm (a b : Str) : agree a b = agree b a := by
  induction a generalizing b with
  | nil => cases b <;> simp [agree]
  | cons x xs ih =>
    cases b with
    | nil => simp [agree]
    | cons y ys =>
      simp only [agree]
      rw [ih ys]
      by_cases e : x = y
      · subst e; rfl
      · have e' : ¬ y = x := fun h => e h.symm
        simp [e, e']

theorem jaroLoop_window0 (b : Str) (cs : Str) (i : Nat) (st : JSt)
    (hfree : ∀ j, i ≤ j → j < b.length → st.used[j]? = some false)
    (hlen : st.used.length = b.length) (hh : st.nHalf = 0) :
    (jaroLoop b 0 cs i st).nMatch = st.nMatch + agree cs (b.drop i) ∧
    (jaroLoop b 0 cs i st).nHalf = 0 := by
  induction cs generalizing i st with
  | nil => simp [jaroLoop, agree, hh]
  | cons c cs ih =>
    simp only [jaroLoop]
    by_cases hi : i < b.length
    · have hd : b.drop i = b[i] :: b.drop (i+1) := List.drop_eq_getElem_cons hi
      rw [hd]
      simp only [agree]
      by_cases hc : c = b[i]
      · -- match at (i,i)
        have hfind : jaroFind c b st.used (i - 0) (min b.length (i + 0 + 1) - (i - 0)) = some i := by
          apply jaroFind_first (Nat.le_refl _) (by omega) (fun x h1 h2 => by omega) (hfree i (Nat.le_refl _) hi)
          rw [List.getElem?_eq_getElem hi, hc]
        have hstep : jaroStep b 0 st i c = ⟨st.used.set i true, st.nMatch + 1, st.nHalf⟩ := by
          unfold jaroStep
          simp only
          rw [hfind]
          simp
        rw [hstep]
        have := ih (i+1) ⟨st.used.set i true, st.nMatch + 1, st.nHalf⟩
          (by
            intro j h1 h2
            simp only
            rw [List.getElem?_set_ne (by omega)]
            exact hfree j (by omega) h2)
          (by simp [hlen]) hh
        simp only [hc, if_true] at this ⊢
        constructor
        · rw [this.1]; omega
        · exact this.2
      · have hfind : jaroFind c b st.used (i - 0) (min b.length (i + 0 + 1) - (i - 0)) = none := by
          have e : min b.length (i + 0 + 1) - (i - 0) = 1 := by omega
          rw [e]
          have hne : ¬ (b[i] = c) := fun h => hc h.symm
          have hb : ¬ (b[i]? = some c) := by
            rw [List.getElem?_eq_getElem hi]; intro h; exact hne (Option.some.inj h)
          simp [jaroFind, hb]
        have hstep : jaroStep b 0 st i c = st := by
          unfold jaroStep
          simp only
          rw [hfind]
        rw [hstep]
        have := ih (i+1) st (fun j h1 h2 => hfree j (by omega) h2) hlen hh
        simp only [hc, if_false]
        constructor
        · rw [this.1]; omega
        · exact this.2
    · have hd : b.drop i = [] := List.drop_eq_nil_of_le (by omega)
      have hfind : jaroFind c b st.used (i - 0) (min b.length (i + 0 + 1) - (i - 0)) = none := by
        have e : min b.length (i + 0 + 1) - (i - 0) = 0 := by omega
        rw [e]; rfl
      have hstep : jaroStep b 0 st i c = st := by
        unfold jaroStep
        simp only
        rw [hfind]
      rw [hstep, hd]
      have := ih (i+1) st (fun j h1 h2 => hfree j (by omega) h2) hlen hh
      rw [List.drop_eq_nil_of_le (show b.length ≤ i + 1 by omega)] at this
      cases cs <;> simpa [agree] using this

theorem jaro_window0 (a b : Str) (h : matchRange a.length b.length = 0) :
    jaro a b = jaroValue (agree a b) 0 a.length b.length := by
  unfold jaro jaroFinal
  rw [h]
  have := jaroLoop_window0 b a 0 (jaroInit b)
    (by intro j _ hj; simp [jaroInit, hj]) (by simp [jaroInit]) rfl
  simp only [List.drop_zero] at this
  simp only
  rw [this.1, this.2]
  simp [jaroInit]

end Gedcom.Sim
