/- Helper lemmas for C20 (core Lean only). -/
import Gedcom.Model.Warnings
import Gedcom.Props.C05
import Gedcom.Props.C06
namespace Gedcom.Warn
open Gedcom

inductive Kind | cbbp | sib | moor | old | ord | bad | sex | inv
deriving DecidableEq, Repr

def Warning.kind : Warning → Kind
  | .childBornBeforeParent .. => .cbbp
  | .siblingsBornTooClose .. => .sib
  | .marriedOutOfRange .. => .moor
  | .individualTooOld .. => .old
  | .incorrectEventOrder .. => .ord
  | .unparsableDate .. => .bad
  | .multipleSexes .. => .sex
  | .inverseSpouses .. => .inv

/-! ### `oncePerPair` -/

/-- two warnings are about the same pair of people: the same unordered pair of siblings, or the
    same (parent, child) -/
def samePair : Warning → Warning → Prop
  | .siblingsBornTooClose _ a b, .siblingsBornTooClose _ a' b' => (a = a' ∧ b = b') ∨ (a = b' ∧ b = a')
  | .childBornBeforeParent _ p c, .childBornBeforeParent _ p' c' => p = p' ∧ c = c'
  | _, _ => False

/-- the same unordered pair -/
def symPair (p q : Nat × Nat) : Prop := (p.1 = q.1 ∧ p.2 = q.2) ∨ (p.1 = q.2 ∧ p.2 = q.1)

theorem pairsHas_iff {ps : List (Nat × Nat)} {a b : Nat} :
    pairsHas ps a b = true ↔ ∃ q ∈ ps, symPair q (a, b) := by
  simp [pairsHas, symPair, List.any_eq_true]

theorem opp_sublist : ∀ (ws : List Warning) (pc sb : List (Nat × Nat)),
    List.Sublist (oncePerPairGo ws pc sb) ws := by
  intro ws
  induction ws with
  | nil => intro pc sb; simp [oncePerPairGo]
  | cons w ws ih =>
    intro pc sb
    cases w <;> simp only [oncePerPairGo]
    case childBornBeforeParent f p c =>
      split
      · exact (ih pc sb).cons _
      · exact (ih _ sb).cons_cons _
    case siblingsBornTooClose f a b =>
      split
      · exact (ih pc sb).cons _
      · exact (ih pc _).cons_cons _
    all_goals exact (ih pc sb).cons_cons _

/-- warnings of the other six kinds pass through -/
theorem opp_mem_other {w : Warning} (h1 : w.kind ≠ .cbbp) (h2 : w.kind ≠ .sib) :
    ∀ (ws : List Warning) (pc sb : List (Nat × Nat)), w ∈ oncePerPairGo ws pc sb ↔ w ∈ ws := by
  intro ws
  induction ws with
  | nil => intro pc sb; simp [oncePerPairGo]
  | cons x ws ih =>
    intro pc sb
    cases x <;> simp only [oncePerPairGo]
    case childBornBeforeParent f p c =>
      have hne : w ≠ .childBornBeforeParent f p c := by intro e; rw [e] at h1; exact h1 rfl
      split <;> simp [ih, hne]
    case siblingsBornTooClose f a b =>
      have hne : w ≠ .siblingsBornTooClose f a b := by intro e; rw [e] at h2; exact h2 rfl
      split <;> simp [ih, hne]
    all_goals simp [ih]

/-- a (parent, child) pair that is reported at all, and is not in the set yet, stays reported -/
theorem opp_cbbp_kept {p c : Nat} : ∀ (ws : List Warning) (pc sb : List (Nat × Nat)),
    (p, c) ∉ pc → (∃ f, Warning.childBornBeforeParent f p c ∈ ws) →
    ∃ f, Warning.childBornBeforeParent f p c ∈ oncePerPairGo ws pc sb := by
  intro ws
  induction ws with
  | nil => intro pc sb _ ⟨f, h⟩; simp at h
  | cons x ws ih =>
    intro pc sb hpc ⟨f, h⟩
    cases x <;> simp only [oncePerPairGo]
    case childBornBeforeParent f0 p0 c0 =>
      by_cases he : (p0, c0) = (p, c)
      · simp only [Prod.mk.injEq] at he
        obtain ⟨rfl, rfl⟩ := he
        have : ¬ pc.contains (p0, c0) = true := by simpa using hpc
        rw [if_neg this]
        exact ⟨f0, by simp⟩
      · have hin : Warning.childBornBeforeParent f p c ∈ ws := by
          rcases List.mem_cons.mp h with e | h'
          · simp only [Warning.childBornBeforeParent.injEq] at e
            exact absurd (by rw [e.2.1, e.2.2]) he
          · exact h'
        split
        · exact ih pc sb hpc ⟨f, hin⟩
        · obtain ⟨f', hf'⟩ := ih (pc ++ [(p0, c0)]) sb (by
            simp only [List.mem_append, List.mem_singleton, not_or]
            exact ⟨hpc, fun e => he e.symm⟩) ⟨f, hin⟩
          exact ⟨f', by simp [hf']⟩
    case siblingsBornTooClose f0 a b =>
      have hin : Warning.childBornBeforeParent f p c ∈ ws := by simpa using h
      split
      · exact ih pc sb hpc ⟨f, hin⟩
      · obtain ⟨f', hf'⟩ := ih pc (sb ++ [(a, b)]) hpc ⟨f, hin⟩
        exact ⟨f', List.mem_cons_of_mem _ hf'⟩
    all_goals
      have hin : Warning.childBornBeforeParent f p c ∈ ws := by simpa using h
      obtain ⟨f', hf'⟩ := ih pc sb hpc ⟨f, hin⟩
      exact ⟨f', by simp [hf']⟩

theorem symPair_comm {p q : Nat × Nat} (h : symPair p q) : symPair q p := by
  rcases h with ⟨h1, h2⟩ | ⟨h1, h2⟩
  · exact Or.inl ⟨h1.symm, h2.symm⟩
  · exact Or.inr ⟨h2.symm, h1.symm⟩

/-- a sibling pair that is reported at all, and is not in the set yet, stays reported in one
    order or the other -/
theorem opp_sib_kept {a b : Nat} : ∀ (ws : List Warning) (pc sb : List (Nat × Nat)),
    pairsHas sb a b = false → (∃ f, Warning.siblingsBornTooClose f a b ∈ ws) →
    ∃ f, Warning.siblingsBornTooClose f a b ∈ oncePerPairGo ws pc sb ∨
         Warning.siblingsBornTooClose f b a ∈ oncePerPairGo ws pc sb := by
  intro ws
  induction ws with
  | nil => intro pc sb _ ⟨f, h⟩; simp at h
  | cons x ws ih =>
    intro pc sb hsb ⟨f, h⟩
    cases x <;> simp only [oncePerPairGo]
    case siblingsBornTooClose f0 a0 b0 =>
      by_cases he : symPair (a0, b0) (a, b)
      · have : ¬ pairsHas sb a0 b0 = true := by
          intro hh
          obtain ⟨q, hq, hs⟩ := pairsHas_iff.mp hh
          have : pairsHas sb a b = true := pairsHas_iff.mpr ⟨q, hq, by
            rcases hs with ⟨h1, h2⟩ | ⟨h1, h2⟩ <;> rcases he with ⟨e1, e2⟩ | ⟨e1, e2⟩ <;>
              simp only at h1 h2 e1 e2 <;> simp [symPair, h1, h2, ← e1, ← e2]⟩
          rw [hsb] at this; exact Bool.noConfusion this
        rw [if_neg this]
        rcases he with ⟨e1, e2⟩ | ⟨e1, e2⟩ <;> simp only at e1 e2 <;> subst e1 <;> subst e2
        · exact ⟨f0, Or.inl (by simp)⟩
        · exact ⟨f0, Or.inr (by simp)⟩
      · have hin : Warning.siblingsBornTooClose f a b ∈ ws := by
          rcases List.mem_cons.mp h with e | h'
          · simp only [Warning.siblingsBornTooClose.injEq] at e
            exact absurd (Or.inl ⟨e.2.1.symm, e.2.2.symm⟩) he
          · exact h'
        split
        · exact ih pc sb hsb ⟨f, hin⟩
        · have hsb' : pairsHas (sb ++ [(a0, b0)]) a b = false := by
            cases hq : pairsHas (sb ++ [(a0, b0)]) a b with
            | false => rfl
            | true =>
              obtain ⟨q, hq', hs⟩ := pairsHas_iff.mp hq
              rcases List.mem_append.mp hq' with hq' | hq'
              · have : pairsHas sb a b = true := pairsHas_iff.mpr ⟨q, hq', hs⟩
                rw [hsb] at this; exact Bool.noConfusion this
              · simp only [List.mem_singleton] at hq'
                subst hq'; exact absurd hs he
          obtain ⟨f', hf'⟩ := ih pc _ hsb' ⟨f, hin⟩
          exact ⟨f', by rcases hf' with h' | h' <;> simp [h']⟩
    case childBornBeforeParent f0 p c =>
      have hin : Warning.siblingsBornTooClose f a b ∈ ws := by simpa using h
      split
      · exact ih pc sb hsb ⟨f, hin⟩
      · obtain ⟨f', hf'⟩ := ih (pc ++ [(p, c)]) sb hsb ⟨f, hin⟩
        exact ⟨f', hf'.imp (List.mem_cons_of_mem _) (List.mem_cons_of_mem _)⟩
    all_goals
      have hin : Warning.siblingsBornTooClose f a b ∈ ws := by simpa using h
      obtain ⟨f', hf'⟩ := ih pc sb hsb ⟨f, hin⟩
      exact ⟨f', by rcases hf' with h' | h' <;> simp [h']⟩

/-- no pair twice, and nothing that is already in the sets -/
theorem opp_once : ∀ (ws : List Warning) (pc sb : List (Nat × Nat)),
    (oncePerPairGo ws pc sb).Pairwise (fun w w' => ¬ samePair w w') ∧
    (∀ f p c, Warning.childBornBeforeParent f p c ∈ oncePerPairGo ws pc sb → (p, c) ∉ pc) ∧
    (∀ f a b, Warning.siblingsBornTooClose f a b ∈ oncePerPairGo ws pc sb → pairsHas sb a b = false) := by
  intro ws
  induction ws with
  | nil => intro pc sb; simp [oncePerPairGo]
  | cons x ws ih =>
    intro pc sb
    cases x <;> simp only [oncePerPairGo]
    case childBornBeforeParent f0 p0 c0 =>
      split
      · exact ih pc sb
      · rename_i hnc
        obtain ⟨i1, i2, i3⟩ := ih (pc ++ [(p0, c0)]) sb
        refine ⟨List.pairwise_cons.mpr ⟨?_, i1⟩, ?_, ?_⟩
        · intro y hy
          cases y <;> simp only [samePair, not_false_eq_true]
          rename_i f1 p1 c1
          have := i2 f1 p1 c1 hy
          simp only [List.mem_append, List.mem_singleton, not_or, Prod.mk.injEq] at this
          intro ⟨e1, e2⟩
          exact this.2 ⟨e1.symm, e2.symm⟩
        · intro f p c h
          rcases List.mem_cons.mp h with e | h'
          · simp only [Warning.childBornBeforeParent.injEq] at e
            obtain ⟨_, rfl, rfl⟩ := e
            simpa using hnc
          · have := i2 f p c h'
            simp only [List.mem_append, not_or] at this
            exact this.1
        · intro f a b h
          exact i3 f a b (by simpa using h)
    case siblingsBornTooClose f0 a0 b0 =>
      split
      · exact ih pc sb
      · rename_i hnc
        obtain ⟨i1, i2, i3⟩ := ih pc (sb ++ [(a0, b0)])
        refine ⟨List.pairwise_cons.mpr ⟨?_, i1⟩, ?_, ?_⟩
        · intro y hy
          cases y <;> simp only [samePair, not_false_eq_true]
          rename_i f1 a1 b1
          have h3 := i3 f1 a1 b1 hy
          intro hs
          have : pairsHas (sb ++ [(a0, b0)]) a1 b1 = true :=
            pairsHas_iff.mpr ⟨(a0, b0), by simp, hs⟩
          rw [h3] at this; exact Bool.noConfusion this
        · intro f p c h
          exact i2 f p c (by simpa using h)
        · intro f a b h
          rcases List.mem_cons.mp h with e | h'
          · simp only [Warning.siblingsBornTooClose.injEq] at e
            obtain ⟨_, rfl, rfl⟩ := e
            simpa using hnc
          · have h3 := i3 f a b h'
            cases hq : pairsHas sb a b with
            | false => rfl
            | true =>
              obtain ⟨q, hq', hs⟩ := pairsHas_iff.mp hq
              have : pairsHas (sb ++ [(a0, b0)]) a b = true := pairsHas_iff.mpr ⟨q, by simp [hq'], hs⟩
              rw [h3] at this; exact Bool.noConfusion this
    all_goals
      obtain ⟨i1, i2, i3⟩ := ih pc sb
      refine ⟨List.pairwise_cons.mpr ⟨?_, i1⟩, ?_, ?_⟩
      · intro y _; simp [samePair]
      · intro f p c h; exact i2 f p c (by simpa using h)
      · intro f a b h; exact i3 f a b (by simpa using h)

theorem oncePerPair_sublist (ws : List Warning) : List.Sublist (oncePerPair ws) ws := opp_sublist ws [] []

theorem mem_oncePerPair_other {w : Warning} (h1 : w.kind ≠ .cbbp) (h2 : w.kind ≠ .sib) (ws : List Warning) :
    w ∈ oncePerPair ws ↔ w ∈ ws := opp_mem_other h1 h2 ws [] []

theorem oncePerPair_kind {ws : List Warning} {k : Kind} (h : ∀ w ∈ ws, w.kind = k) :
    ∀ w ∈ oncePerPair ws, w.kind = k := fun w hw => h w ((oncePerPair_sublist ws).subset hw)

theorem kind_cbbp {d : Doc} {f : Fam} {w : Warning} (h : w ∈ childrenBornBeforeParents d f) :
    w.kind = .cbbp := by
  have h := (oncePerPair_sublist _).subset h
  simp only [childrenBornBeforeParentsRaw, List.mem_flatMap] at h
  obtain ⟨c, _, hc⟩ := h
  split at hc
  · simp at hc
  · simp only [List.mem_append] at hc
    rcases hc with hc | hc <;> split at hc <;> simp at hc <;> subst hc <;> rfl

theorem siblingStep_kind {d : Doc} {fam c1 c2 : Nat} {st : SibState}
    (h : ∀ w ∈ st.2, w.kind = .sib) : ∀ w ∈ (siblingStep d fam c1 st c2).2, w.kind = .sib := by
  unfold siblingStep
  split
  · intro w hw
    simp only [List.mem_append, List.mem_singleton] at hw
    rcases hw with hw | hw
    · exact h w hw
    · subst hw; rfl
  · exact h

theorem foldl_inv {α β : Type} (P : β → Prop) (f : β → α → β) (l : List α) (b : β)
    (hb : P b) (hf : ∀ b a, P b → P (f b a)) : P (l.foldl f b) := by
  induction l generalizing b with
  | nil => exact hb
  | cons a l ih => exact ih _ (hf b a hb)

theorem kind_sib {d : Doc} {f : Fam} {w : Warning} (h : w ∈ siblingsBornTooClose d f) :
    w.kind = .sib := by
  have : ∀ w ∈ (siblingsLoop d f).2, w.kind = .sib := by
    unfold siblingsLoop
    apply foldl_inv (fun st : SibState => ∀ w ∈ st.2, w.kind = .sib)
    · intro w hw; simp at hw
    · intro st c1 hst
      apply foldl_inv (fun st : SibState => ∀ w ∈ st.2, w.kind = .sib)
      · exact hst
      · intro st' c2 hst'
        exact siblingStep_kind hst'
  exact this w h

theorem kind_marriedCheck {fam k sp : Nat} {a : Ages} {w : Warning} (h : w ∈ marriedCheck fam k a sp) :
    w.kind = .moor := by
  simp only [marriedCheck, List.mem_append] at h
  rcases h with h | h <;> split at h <;> simp at h <;> subst h <;> rfl

theorem kind_marriedAt {d : Doc} {f : Fam} {k : Nat} {e : Ev} {w : Warning} (h : w ∈ marriedAt d f k e) :
    w.kind = .moor := by
  unfold marriedAt at h
  split at h
  · simp at h
  · simp only [List.mem_append] at h
    rcases h with h | h <;> split at h <;> first | exact kind_marriedCheck h | simp at h

theorem kind_marriedFrom {d : Doc} {f : Fam} {w : Warning} :
    ∀ {k : Nat} {evs : List Ev}, w ∈ marriedFrom d f k evs → w.kind = .moor := by
  intro k evs
  induction evs generalizing k with
  | nil => intro h; simp [marriedFrom] at h
  | cons e rest ih =>
    intro h
    simp only [marriedFrom, List.mem_append] at h
    rcases h with h | h
    · exact kind_marriedAt h
    · exact ih h

theorem kind_inv {d : Doc} {f : Fam} {w : Warning} (h : w ∈ inverseSpouses d f) : w.kind = .inv := by
  simp only [inverseSpouses] at h
  split at h <;> simp at h
  subst h; rfl

theorem kind_unparsable {b : Bool} {p : Nat} {evs : List Ev} {w : Warning}
    (h : w ∈ unparsable b p evs) : w.kind = .bad := by
  simp only [unparsable, List.mem_flatMap] at h
  obtain ⟨x, _, hx⟩ := h
  split at hx <;> simp at hx
  subst hx; rfl

theorem kind_orderPair {p : Nat} {ev fut : EvKind × DateV} {w : Warning} (h : w ∈ orderPair p ev fut) :
    w.kind = .ord := by
  unfold orderPair at h
  split at h
  · split at h <;> simp at h
    subst h; rfl
  · split at h <;> simp at h
    subst h; rfl

theorem kind_orderFrom {p : Nat} {w : Warning} :
    ∀ {gs : List (List (EvKind × DateV))}, w ∈ orderFrom p gs → w.kind = .ord := by
  intro gs
  induction gs with
  | nil => intro h; simp [orderFrom] at h
  | cons g later ih =>
    intro h
    simp only [orderFrom, List.mem_append, List.mem_flatMap] at h
    rcases h with ⟨ev, _, fg, _, fut, _, h⟩ | h
    · exact kind_orderPair h
    · exact ih h

theorem kind_tooOld {i : Indi} {now : Date} {w : Warning} (h : w ∈ tooOld i now) : w.kind = .old := by
  unfold tooOld at h
  split at h <;> simp at h
  subst h; rfl

theorem kind_sexes {i : Indi} {w : Warning} (h : w ∈ multipleSexes i) : w.kind = .sex := by
  unfold multipleSexes at h
  split at h <;> simp at h
  subst h; rfl

/-! ### where a warning of each kind can come from -/

theorem mem_warnings {d : Doc} {now : Date} {w : Warning} :
    w ∈ rawWarnings d now ↔ ∃ r ∈ d, w ∈ recWarnings d now r := by
  simp [rawWarnings, List.mem_flatMap]

theorem mem_indis {d : Doc} {i : Indi} : i ∈ indis d ↔ Rec.indi i ∈ d := by
  simp only [indis, List.mem_filterMap]
  constructor
  · rintro ⟨r, hr, h⟩
    cases r <;> simp at h
    subst h; exact hr
  · intro h; exact ⟨_, h, rfl⟩

theorem mem_fams {d : Doc} {f : Fam} : f ∈ fams d ↔ Rec.fam f ∈ d := by
  simp only [fams, List.mem_filterMap]
  constructor
  · rintro ⟨r, hr, h⟩
    cases r <;> simp at h
    subst h; exact hr
  · intro h; exact ⟨_, h, rfl⟩

theorem mem_warnings_cases {d : Doc} {now : Date} {w : Warning} :
    w ∈ rawWarnings d now ↔
      (∃ i, Rec.indi i ∈ d ∧ (w ∈ incorrectEventOrder i ∨ w ∈ tooOld i now ∨ w ∈ multipleSexes i ∨
          w ∈ unparsable false i.ptr i.events)) ∨
      (∃ f, Rec.fam f ∈ d ∧ (w ∈ childrenBornBeforeParents d f ∨ w ∈ siblingsBornTooClose d f ∨
          w ∈ marriedOutOfRange d f ∨ w ∈ inverseSpouses d f ∨ w ∈ unparsable true f.ptr f.events)) := by
  rw [mem_warnings]
  constructor
  · rintro ⟨r, hr, h⟩
    cases r with
    | indi i =>
      left
      simp only [recWarnings, indiOwn, List.mem_append, or_assoc] at h
      exact ⟨i, hr, h⟩
    | fam f =>
      right
      simp only [recWarnings, famOwn, List.mem_append, or_assoc] at h
      exact ⟨f, hr, h⟩
  · rintro (⟨i, hi, h⟩ | ⟨f, hf, h⟩)
    · refine ⟨_, hi, ?_⟩
      simp only [recWarnings, indiOwn, List.mem_append, or_assoc]
      exact h
    · refine ⟨_, hf, ?_⟩
      simp only [recWarnings, famOwn, List.mem_append, or_assoc]
      exact h

/-- closes a goal whose hypothesis `h` puts a warning into a producer of another kind -/
macro "wrong_kind" h:ident : tactic => `(tactic| first
  | (have hk := kind_cbbp $h; simp [Warning.kind] at hk; done)
  | (have hk := kind_sib $h; simp [Warning.kind] at hk; done)
  | (have hk := kind_marriedFrom $h; simp [Warning.kind] at hk; done)
  | (have hk := kind_inv $h; simp [Warning.kind] at hk; done)
  | (have hk := kind_unparsable $h; simp [Warning.kind] at hk; done)
  | (have hk := kind_orderFrom $h; simp [Warning.kind] at hk; done)
  | (have hk := kind_tooOld $h; simp [Warning.kind] at hk; done)
  | (have hk := kind_sexes $h; simp [Warning.kind] at hk; done))

theorem mem_unparsable {b b' : Bool} {p p' l : Nat} {evs : List Ev} :
    Warning.unparsableDate b p l ∈ unparsable b' p' evs ↔
      b = b' ∧ p = p' ∧ ∃ e ∈ evs, ∃ x ∈ e.dates, x.valid = false ∧ x.label = l := by
  simp only [unparsable, datesOf, List.mem_flatMap]
  constructor
  · rintro ⟨x, ⟨e, he, hx⟩, h⟩
    split at h
    · simp at h
    · rename_i hv
      simp at h
      obtain ⟨rfl, rfl, rfl⟩ := h
      exact ⟨rfl, rfl, e, he, x, hx, by simpa using hv, rfl⟩
  · rintro ⟨rfl, rfl, e, he, x, hx, hv, rfl⟩
    exact ⟨x, ⟨e, he, hx⟩, by simp [hv]⟩

/-! ### exact-day documents -/

instance (t : Date) : Decidable (C05.Full t) := by unfold C05.Full; exact inferInstance

def DateV.exact : DateV → Bool
  | .ok t => decide (C05.Full t ∧ 1000 ≤ t.year)
  | .bad _ => true
  | .gen _ _ _ => false

/-- not a general (non-exact) date -/
def DateV.NoGen : DateV → Prop
  | .gen _ _ _ => False
  | _ => True

theorem DateV.NoGen.cases {x : DateV} (h : x.NoGen) : (∃ t, x = .ok t) ∨ (∃ l, x = .bad l) := by
  cases x with
  | ok t => exact Or.inl ⟨t, rfl⟩
  | bad l => exact Or.inr ⟨l, rfl⟩
  | gen l s e => exact absurd h (by simp [DateV.NoGen])

theorem DateV.noGen_of_exact {x : DateV} (h : x.exact = true) : x.NoGen := by
  cases x <;> simp [DateV.exact, DateV.NoGen] at h ⊢

def evsExact (evs : List Ev) : Bool := evs.all fun e => e.dates.all DateV.exact

/-- every DATE of the document is a calendar-valid exact day of the year 1000 or later, or does
    not parse (decidable).  The lower bound keeps exact dates more than 292 years (the range of
    `time.Duration`) away from Go's zero time 1 Jan 0001, which the code uses for an absent date:
    a child without a birth date and a sibling born on day 106752 (in the year 293) *are* reported
    as born too close, because only one of the two differences saturates. -/
def ExactDates (d : Doc) : Prop :=
  d.all (fun | .indi i => evsExact i.events | .fam f => evsExact f.events) = true

instance (d : Doc) : Decidable (ExactDates d) := by unfold ExactDates; exact inferInstance

theorem ExactDates.indi {d : Doc} (h : ExactDates d) {i : Indi} (hi : Rec.indi i ∈ d) {e : Ev}
    (he : e ∈ i.events) {t : Date} (ht : DateV.ok t ∈ e.dates) : C05.Full t ∧ 1000 ≤ t.year := by
  unfold ExactDates at h
  rw [List.all_eq_true] at h
  have := h _ hi
  simp only [evsExact, List.all_eq_true] at this
  simpa [DateV.exact] using this e he _ ht

theorem ExactDates.fam {d : Doc} (h : ExactDates d) {f : Fam} (hf : Rec.fam f ∈ d) {e : Ev}
    (he : e ∈ f.events) {t : Date} (ht : DateV.ok t ∈ e.dates) : C05.Full t ∧ 1000 ≤ t.year := by
  unfold ExactDates at h
  rw [List.all_eq_true] at h
  have := h _ hf
  simp only [evsExact, List.all_eq_true] at this
  simpa [DateV.exact] using this e he _ ht

/-- an exact calendar day or an unparsable value — not a general date -/
def DateV.Fine : DateV → Prop
  | .ok t => C05.Full t
  | .bad _ => True
  | .gen _ _ _ => False

theorem DateV.Fine.noGen {x : DateV} (h : x.Fine) : x.NoGen := by
  cases x <;> simp [DateV.Fine, DateV.NoGen] at h ⊢

theorem DateV.fine_of_exact {x : DateV} (h : x.exact = true) : x.Fine := by
  cases x with
  | ok t => simp only [DateV.exact, decide_eq_true_eq] at h; exact h.1
  | bad l => trivial
  | gen l s e => simp [DateV.exact] at h

theorem ExactDates.fine_indi {d : Doc} (h : ExactDates d) {i : Indi} (hi : Rec.indi i ∈ d) {e : Ev}
    (he : e ∈ i.events) {x : DateV} (hx : x ∈ e.dates) : x.Fine := by
  unfold ExactDates at h
  rw [List.all_eq_true] at h
  have := h _ hi
  simp only [evsExact, List.all_eq_true] at this
  exact DateV.fine_of_exact (this e he x hx)

theorem ExactDates.fine_fam {d : Doc} (h : ExactDates d) {f : Fam} (hf : Rec.fam f ∈ d) {e : Ev}
    (he : e ∈ f.events) {x : DateV} (hx : x ∈ e.dates) : x.Fine := by
  unfold ExactDates at h
  rw [List.all_eq_true] at h
  have := h _ hf
  simp only [evsExact, List.all_eq_true] at this
  exact DateV.fine_of_exact (this e he x hx)

theorem ExactDates.noGen_indi {d : Doc} (h : ExactDates d) {i : Indi} (hi : Rec.indi i ∈ d) {e : Ev}
    (he : e ∈ i.events) {x : DateV} (hx : x ∈ e.dates) : x.NoGen := by
  unfold ExactDates at h
  rw [List.all_eq_true] at h
  have := h _ hi
  simp only [evsExact, List.all_eq_true] at this
  exact DateV.noGen_of_exact (this e he x hx)

theorem ExactDates.noGen_fam {d : Doc} (h : ExactDates d) {f : Fam} (hf : Rec.fam f ∈ d) {e : Ev}
    (he : e ∈ f.events) {x : DateV} (hx : x ∈ e.dates) : x.NoGen := by
  unfold ExactDates at h
  rw [List.all_eq_true] at h
  have := h _ hf
  simp only [evsExact, List.all_eq_true] at this
  exact DateV.noGen_of_exact (this e he x hx)

/-- civil day number of an exact date -/
def dayOf (t : Date) : Int := dayNumber t.year t.month t.day

/-- an option that does not hold a general date -/
def NoGenO (x : Option DateV) : Prop := ∀ v, x = some v → v.NoGen

theorem validO_iff {x : Option DateV} (hn : NoGenO x) : validO x = true ↔ ∃ t, x = some (.ok t) := by
  cases x with
  | none => simp [validO]
  | some v =>
    cases v with
    | ok t => simp [validO, DateV.valid]
    | bad l => simp [validO, DateV.valid]
    | gen l s e => exact absurd (hn _ rfl) (by simp [DateV.NoGen])

theorem validO_some {x : Option DateV} (h : validO x = true) : ∃ v, x = some v := by
  cases x with
  | none => simp [validO] at h
  | some v => exact ⟨v, rfl⟩

theorem indiOf_some {d : Doc} {p : Nat} {i : Indi} (h : indiOf d p = some i) :
    Rec.indi i ∈ d ∧ i.ptr = p := by
  unfold indiOf at h
  have h1 := List.mem_of_find?_eq_some h
  have h2 := List.find?_some h
  exact ⟨mem_indis.mp h1, by simpa using h2⟩

theorem birthOf_some {i : Indi} {x : DateV} (h : birthOf (some i) = some x) :
    ∃ e ∈ i.events, e.kind = .birt ∧ x ∈ e.dates := by
  simp only [birthOf] at h
  obtain ⟨e, he, hx⟩ := List.exists_of_findSome?_eq_some h
  simp only [eventsOf, List.mem_filter, beq_iff_eq] at he
  exact ⟨e, he.1, he.2, List.mem_of_head? hx⟩

theorem birthOf_full {d : Doc} (hx : ExactDates d) {p : Nat} {t : Date}
    (h : birthOf (indiOf d p) = some (.ok t)) : C05.Full t ∧ 1000 ≤ t.year := by
  cases hi : indiOf d p with
  | none => simp [hi, birthOf] at h
  | some i =>
    rw [hi] at h
    obtain ⟨e, he, _, ht⟩ := birthOf_some h
    exact hx.indi (indiOf_some hi).1 he ht

theorem yearsLtV_ok {x y : Date} (hx : C05.Full x) (hy : C05.Full y) :
    yearsLtV (some (.ok x)) (some (.ok y)) = true ↔ dayOf x < dayOf y := by
  simp only [yearsLtV, dayOf]
  rw [C05.isBefore_iff x y hx hy, C05.full_firstDay x hx, C05.full_firstDay y hy]

theorem yearsLtE_ok {x y : Date} (hx : C05.Full x) (hy : C05.Full y) :
    yearsLtE (some (.ok x)) (some (.ok y)) = true ↔ dayOf x < dayOf y := by
  simp only [yearsLtE, dayOf]
  rw [C05.isBefore_iff x y hx hy, C05.full_firstDay x hx, C05.full_firstDay y hy]

theorem birthOf_noGen {d : Doc} (hx : ExactDates d) {p : Nat} : NoGenO (birthOf (indiOf d p)) := by
  intro v h
  cases hi : indiOf d p with
  | none => simp [hi, birthOf] at h
  | some i =>
    rw [hi] at h
    obtain ⟨e, he, _, ht⟩ := birthOf_some h
    exact hx.noGen_indi (indiOf_some hi).1 he ht

/-! ### siblings -/

theorem full_lastDay (t : Date) (h : C05.Full t) : t.lastDay = dayOf t := by
  unfold Date.lastDay dayOf
  obtain ⟨h1, _, h3, _⟩ := h
  have : ¬ t.month = 0 := by omega
  have : ¬ t.day = 0 := by omega
  simp [*]

theorem startI_ok {t : Date} (h : C05.Full t) : startI (some (.ok t)) = dayOf t * nsPerDay := by
  simp [startI, Date.startInstant, C05.full_firstDay t h, dayOf]

theorem endI_ok {t : Date} (h : C05.Full t) :
    endI (some (.ok t)) = (dayOf t + 1) * nsPerDay - 1 := by
  simp [endI, Date.endInstant, full_lastDay t h]

theorem dayOf_ge {t : Date} (h : C05.Full t) (hy : 1000 ≤ t.year) : 106753 ≤ dayOf t := by
  obtain ⟨h1, h2, h3, _⟩ := h
  unfold dayOf dayNumber daysBeforeYear
  have hc : 0 ≤ cum (isLeap t.year) t.month := by
    rcases month_cases h1 h2 with h|h|h|h|h|h|h|h|h|h|h|h <;> rw [h] <;>
      cases isLeap (t.year : Int) <;> simp [cum]
  omega

theorem sib_arith (D1 D2 : Int) :
    (¬ dateSub ((D1 + 1) * nsPerDay - 1) (D1 * nsPerDay) ≥ nineMonths) ∧
    ((¬ dateSub (D1 * nsPerDay) (D2 * nsPerDay) < twoDays ∧
      (dateSub (D1 * nsPerDay) (D2 * nsPerDay) < nineMonths ∨
       dateSub ((D1 + 1) * nsPerDay - 1) ((D2 + 1) * nsPerDay - 1) < nineMonths)) ↔
     ((2 ≤ D1 - D2 ∧ D1 - D2 < 274) ∨ (2 ≤ D2 - D1 ∧ D2 - D1 < 274))) := by
  simp only [dateSub, timeSub, durAbs, maxDur, minDur, nsPerDay, nineMonths, twoDays,
    Generated.siblingMaxDays, Generated.siblingMinDays]
  constructor
  · repeat' split
    all_goals omega
  · repeat' split
    all_goals omega

theorem dateSub_spec (x y : Int) :
    (x - y > 9223372036854775807 ∧ dateSub x y = 9223372036854775807) ∨
    (x - y ≤ -9223372036854775808 ∧ dateSub x y = 9223372036854775807) ∨
    (0 ≤ x - y ∧ x - y ≤ 9223372036854775807 ∧ dateSub x y = x - y) ∨
    (-9223372036854775808 < x - y ∧ x - y < 0 ∧ dateSub x y = -(x - y)) := by
  simp only [dateSub, timeSub, durAbs, maxDur, minDur]
  repeat' split
  all_goals omega

/-- an absent birth date sits at Go's zero time, out of `time.Duration`'s range from every exact
    date of the year 1000 or later -/
theorem sib_arith_none (D : Int) (hD : 106753 ≤ D) :
    ¬ (¬ dateSub zeroTime (D * nsPerDay) < twoDays ∧
        (dateSub zeroTime (D * nsPerDay) < nineMonths ∨
         dateSub zeroTime ((D + 1) * nsPerDay - 1) < nineMonths)) ∧
    ¬ (¬ dateSub (D * nsPerDay) zeroTime < twoDays ∧
        (dateSub (D * nsPerDay) zeroTime < nineMonths ∨
         dateSub ((D + 1) * nsPerDay - 1) zeroTime < nineMonths)) := by
  have s1 := dateSub_spec zeroTime (D * nsPerDay)
  have s2 := dateSub_spec zeroTime ((D + 1) * nsPerDay - 1)
  have s3 := dateSub_spec (D * nsPerDay) zeroTime
  have s4 := dateSub_spec ((D + 1) * nsPerDay - 1) zeroTime
  generalize dateSub zeroTime (D * nsPerDay) = v1 at *
  generalize dateSub zeroTime ((D + 1) * nsPerDay - 1) = v2 at *
  generalize dateSub (D * nsPerDay) zeroTime = v3 at *
  generalize dateSub ((D + 1) * nsPerDay - 1) zeroTime = v4 at *
  simp only [nsPerDay, nineMonths, twoDays, zeroTime,
    Generated.siblingMaxDays, Generated.siblingMinDays] at *
  omega

/-- the documented sibling condition on two resolved children, over civil day numbers -/
def SibSpec (d : Doc) (c1 c2 : Nat) : Prop :=
  c1 ≠ c2 ∧ ∃ t1 t2, birthOf (indiOf d c1) = some (.ok t1) ∧ birthOf (indiOf d c2) = some (.ok t2) ∧
    ((2 ≤ dayOf t1 - dayOf t2 ∧ dayOf t1 - dayOf t2 < 274) ∨
     (2 ≤ dayOf t2 - dayOf t1 ∧ dayOf t2 - dayOf t1 < 274))

theorem SibSpec.symm {d : Doc} {a b : Nat} (h : SibSpec d a b) : SibSpec d b a := by
  obtain ⟨hne, t1, t2, h1, h2, h3⟩ := h
  exact ⟨fun e => hne e.symm, t2, t1, h2, h1, h3.symm⟩

theorem birthOf_indiOf_some {d : Doc} {c : Nat} {x : DateV} (h : birthOf (indiOf d c) = some x) :
    ∃ i, indiOf d c = some i := by
  cases hi : indiOf d c with
  | none => simp [hi, birthOf] at h
  | some i => exact ⟨i, rfl⟩

theorem sameIndi_iff {d : Doc} {c1 c2 : Nat} {i1 i2 : Indi} (h1 : indiOf d c1 = some i1)
    (h2 : indiOf d c2 = some i2) : sameIndi (indiOf d c1) (indiOf d c2) = true ↔ c1 = c2 := by
  rw [h1, h2]
  simp [sameIndi, (indiOf_some h1).2, (indiOf_some h2).2]

theorem siblingHit_true {d : Doc} {c1 c2 : Nat} :
    siblingHit d c1 c2 = true ↔
      (¬ dateSub (endI (birthOf (indiOf d c1))) (startI (birthOf (indiOf d c1))) ≥ nineMonths) ∧
      sameIndi (indiOf d c1) (indiOf d c2) = false ∧
      subErr (birthOf (indiOf d c1)) (birthOf (indiOf d c2)) = false ∧
      (¬ dateSub (endI (birthOf (indiOf d c2))) (startI (birthOf (indiOf d c2))) ≥ nineMonths) ∧
      (¬ dateSub (startI (birthOf (indiOf d c1))) (startI (birthOf (indiOf d c2))) < twoDays) ∧
      (dateSub (startI (birthOf (indiOf d c1))) (startI (birthOf (indiOf d c2))) < nineMonths ∨
       dateSub (endI (birthOf (indiOf d c1))) (endI (birthOf (indiOf d c2))) < nineMonths) := by
  simp only [siblingHit, Bool.and_eq_true, Bool.or_eq_true, Bool.not_eq_true', decide_eq_true_eq,
    decide_eq_false_iff_not, and_assoc]

theorem siblingHit_iff {d : Doc} (hx : ExactDates d) (c1 c2 : Nat) :
    siblingHit d c1 c2 = true ↔ SibSpec d c1 c2 := by
  rw [siblingHit_true]
  unfold SibSpec
  cases hb1 : birthOf (indiOf d c1) with
  | none =>
    constructor
    · rintro ⟨_, _, _, _, h5, h6⟩
      exfalso
      cases hb2 : birthOf (indiOf d c2) with
      | none =>
        rw [hb2] at h5
        simp [startI, dateSub, timeSub, durAbs, maxDur, minDur, twoDays,
          Generated.siblingMinDays, nsPerDay] at h5
      | some x2 =>
        cases x2 with
        | gen l s e => exact absurd (birthOf_noGen hx _ hb2) (by simp [DateV.NoGen])
        | bad l =>
          rw [hb2] at h5 h6
          simp [startI, dateSub, timeSub, durAbs, maxDur, minDur, twoDays,
            Generated.siblingMinDays, nsPerDay] at h5
        | ok t2 =>
          obtain ⟨hf2, hy2⟩ := birthOf_full hx hb2
          rw [hb2, startI_ok hf2] at h5 h6
          rw [endI_ok hf2] at h6
          exact (sib_arith_none (dayOf t2) (dayOf_ge hf2 hy2)).1 ⟨h5, h6⟩
    · rintro ⟨_, t1, t2, h, _⟩; simp at h
  | some x1 =>
    cases x1 with
    | gen l s e => exact absurd (birthOf_noGen hx _ hb1) (by simp [DateV.NoGen])
    | bad l =>
      constructor
      · rintro ⟨_, _, h3, _⟩
        cases hb2 : birthOf (indiOf d c2) <;> simp [subErr, hb2] at h3
      · rintro ⟨_, t1, t2, h, _⟩; simp at h
    | ok t1 =>
      obtain ⟨hf1, hy1⟩ := birthOf_full hx hb1
      obtain ⟨i1, hi1⟩ := birthOf_indiOf_some hb1
      cases hb2 : birthOf (indiOf d c2) with
      | none =>
        constructor
        · rintro ⟨_, _, _, _, h5, h6⟩
          exfalso
          simp only [startI_ok hf1, endI_ok hf1] at h5 h6
          exact (sib_arith_none (dayOf t1) (dayOf_ge hf1 hy1)).2 ⟨h5, h6⟩
        · rintro ⟨_, t1, t2, _, h, _⟩; simp at h
      | some x2 =>
        cases x2 with
        | gen l s e => exact absurd (birthOf_noGen hx _ hb2) (by simp [DateV.NoGen])
        | bad l =>
          constructor
          · rintro ⟨_, _, h3, _⟩
            simp [subErr] at h3
          · rintro ⟨_, t1, t2, _, h, _⟩; simp at h
        | ok t2 =>
          obtain ⟨hf2, hy2⟩ := birthOf_full hx hb2
          obtain ⟨i2, hi2⟩ := birthOf_indiOf_some hb2
          have hs := sameIndi_iff hi1 hi2
          have ha := sib_arith (dayOf t1) (dayOf t2)
          have ha2 := (sib_arith (dayOf t2) (dayOf t2)).1
          simp only [startI_ok hf1, endI_ok hf1, startI_ok hf2, endI_ok hf2]
          constructor
          · rintro ⟨_, h2, _, _, h5, h6⟩
            have hne : c1 ≠ c2 := by
              intro e
              rw [hs.mpr e] at h2
              simp at h2
            exact ⟨hne, t1, t2, rfl, rfl, ha.2.mp ⟨h5, h6⟩⟩
          · rintro ⟨hne, t1', t2', e1, e2, hsp⟩
            simp only [Option.some.injEq, DateV.ok.injEq] at e1 e2
            subst e1; subst e2
            have hsf : sameIndi (indiOf d c1) (indiOf d c2) = false := by
              cases hq : sameIndi (indiOf d c1) (indiOf d c2) with
              | false => rfl
              | true => exact absurd (hs.mp hq) hne
            have := ha.2.mpr hsp
            exact ⟨ha.1, hsf, by simp [subErr], ha2, this.1, this.2⟩

/-! ### the sibling loops as one fold over the ordered pairs, and its invariant -/

def chilPairs (f : Fam) : List (Nat × Nat) := f.chil.flatMap fun c1 => f.chil.map fun c2 => (c1, c2)

theorem mem_chilPairs {f : Fam} {a b : Nat} : (a, b) ∈ chilPairs f ↔ a ∈ f.chil ∧ b ∈ f.chil := by
  simp only [chilPairs, List.mem_flatMap, List.mem_map, Prod.mk.injEq]
  constructor
  · rintro ⟨c1, h1, c2, h2, rfl, rfl⟩; exact ⟨h1, h2⟩
  · rintro ⟨h1, h2⟩; exact ⟨a, h1, b, h2, rfl, rfl⟩

theorem foldl_pairs {σ : Type} (g : Nat → σ → Nat → σ) (m : List Nat) :
    ∀ (l : List Nat) (init : σ),
      (l.flatMap fun a => m.map fun b => (a, b)).foldl (fun st p => g p.1 st p.2) init =
        l.foldl (fun st a => m.foldl (g a) st) init := by
  intro l
  induction l with
  | nil => intro init; rfl
  | cons a l ih =>
    intro init
    simp only [List.flatMap_cons, List.foldl_append, List.foldl_cons, List.foldl_map]
    exact ih _

def pairStep (d : Doc) (fam : Nat) (st : SibState) (p : Nat × Nat) : SibState :=
  siblingStep d fam p.1 st p.2

theorem siblingsLoop_eq (d : Doc) (f : Fam) :
    siblingsLoop d f = (chilPairs f).foldl (pairStep d f.ptr) ([], []) := by
  unfold siblingsLoop chilPairs pairStep
  exact (foldl_pairs (siblingStep d f.ptr) f.chil f.chil ([], [])).symm

structure SibInv (d : Doc) (fam : Nat) (L : List (Nat × Nat)) (st : SibState) : Prop where
  map : st.2 = st.1.map fun p => Warning.siblingsBornTooClose fam p.1 p.2
  sound : ∀ p ∈ st.1, p ∈ L ∧ siblingHit d p.1 p.2 = true
  complete : ∀ p ∈ L, siblingHit d p.1 p.2 = true → pairsHas st.1 p.1 p.2 = true
  nodup : st.1.Pairwise fun p q => ¬ symPair p q

theorem SibInv.step {d : Doc} {fam : Nat} {L : List (Nat × Nat)} {st : SibState}
    (h : SibInv d fam L st) (p : Nat × Nat) : SibInv d fam (L ++ [p]) (pairStep d fam st p) := by
  unfold pairStep siblingStep
  split
  · rename_i hc
    simp only [Bool.and_eq_true, Bool.not_eq_true'] at hc
    refine ⟨?_, ?_, ?_, ?_⟩
    · simp [h.map]
    · intro q hq
      simp only [List.mem_append, List.mem_singleton] at hq ⊢
      rcases hq with hq | rfl
      · exact ⟨Or.inl (h.sound q hq).1, (h.sound q hq).2⟩
      · exact ⟨Or.inr rfl, hc.1⟩
    · intro q hq hh
      simp only [List.mem_append, List.mem_singleton] at hq
      rw [pairsHas_iff]
      rcases hq with hq | rfl
      · obtain ⟨r, hr, hs⟩ := pairsHas_iff.mp (h.complete q hq hh)
        exact ⟨r, by simp [hr], hs⟩
      · exact ⟨q, by simp, Or.inl ⟨rfl, rfl⟩⟩
    · rw [List.pairwise_append]
      refine ⟨h.nodup, by simp, ?_⟩
      intro a ha b hb
      simp only [List.mem_singleton] at hb
      subst hb
      intro hs
      have : pairsHas st.1 p.1 p.2 = true := pairsHas_iff.mpr ⟨a, ha, hs⟩
      rw [hc.2] at this
      exact Bool.noConfusion this
  · rename_i hc
    refine ⟨h.map, ?_, ?_, h.nodup⟩
    · intro q hq
      exact ⟨List.mem_append_left _ (h.sound q hq).1, (h.sound q hq).2⟩
    · intro q hq hh
      simp only [List.mem_append, List.mem_singleton] at hq
      rcases hq with hq | rfl
      · exact h.complete q hq hh
      · cases hp : pairsHas st.1 q.1 q.2 with
        | true => rfl
        | false => simp [hh, hp] at hc

theorem SibInv.fold {d : Doc} {fam : Nat} :
    ∀ (L L0 : List (Nat × Nat)) (st : SibState), SibInv d fam L0 st →
      SibInv d fam (L0 ++ L) (L.foldl (pairStep d fam) st) := by
  intro L
  induction L with
  | nil => intro L0 st h; simpa using h
  | cons p L ih =>
    intro L0 st h
    have := ih (L0 ++ [p]) _ (h.step p)
    simpa using this

theorem sibInv (d : Doc) (f : Fam) : SibInv d f.ptr (chilPairs f) (siblingsLoop d f) := by
  rw [siblingsLoop_eq]
  have h0 : SibInv d f.ptr [] ([], []) :=
    ⟨rfl, by intro p hp; simp at hp, by intro p hp; simp at hp, by simp⟩
  simpa using SibInv.fold (chilPairs f) [] _ h0

/-! ### event order -/

/-- the event-order group of a tag: birth < baptism (incl. LDS) < death < burial -/
def groupOf : EvKind → Option Nat
  | .birt => some 0
  | .bapm => some 1
  | .bapl => some 1
  | .deat => some 2
  | .buri => some 3
  | _ => none

/-- individual `i` has an event of kind `k` with the exact date `t` -/
def Dated (i : Indi) (k : EvKind) (x : DateV) : Prop := ∃ e ∈ i.events, e.kind = k ∧ x ∈ e.dates

theorem mem_groupEvents {i : Indi} {tags : List EvKind} {k : EvKind} {x : DateV} :
    (k, x) ∈ groupEvents i tags ↔ k ∈ tags ∧ Dated i k x := by
  simp only [groupEvents, List.mem_flatMap, List.mem_map, eventsOf, List.mem_filter, beq_iff_eq,
    Prod.mk.injEq, Dated]
  constructor
  · rintro ⟨t, ht, e, ⟨he, hk⟩, dt, hdt, rfl, rfl⟩
    exact ⟨ht, e, he, hk, hdt⟩
  · rintro ⟨ht, e, he, hk, hdt⟩
    exact ⟨k, ht, e, ⟨he, hk⟩, x, hdt, rfl, rfl⟩

theorem group_idx {i : Indi} {k : EvKind} {x : DateV} {n : Nat} {g : List (EvKind × DateV)}
    (hg : (orderGroups.map (groupEvents i))[n]? = some g) :
    (k, x) ∈ g ↔ groupOf k = some n ∧ Dated i k x := by
  match n with
  | 0 | 1 | 2 | 3 =>
    simp only [orderGroups, List.map_cons, List.getElem?_cons_zero, List.getElem?_cons_succ,
      Option.some.injEq] at hg
    subst hg
    rw [mem_groupEvents]
    cases k <;> simp [groupOf]
  | n + 4 => simp [orderGroups] at hg

theorem group_idx_exists {i : Indi} {n : Nat} (hn : n < 4) :
    ∃ g, (orderGroups.map (groupEvents i))[n]? = some g := by
  match n with
  | 0 | 1 | 2 | 3 => simp [orderGroups]
  | n + 4 => omega

theorem mem_orderFrom {p : Nat} {w : Warning} :
    ∀ gs : List (List (EvKind × DateV)), w ∈ orderFrom p gs ↔
      ∃ (n m : Nat) (g fg : List (EvKind × DateV)), n < m ∧ gs[n]? = some g ∧ gs[m]? = some fg ∧
        ∃ ev ∈ g, ∃ fut ∈ fg, w ∈ orderPair p ev fut := by
  intro gs
  induction gs with
  | nil => simp [orderFrom]
  | cons g later ih =>
    simp only [orderFrom, List.mem_append, List.mem_flatMap]
    constructor
    · rintro (⟨ev, hev, fg, hfg, fut, hfut, hw⟩ | h)
      · obtain ⟨m, hm⟩ := List.mem_iff_getElem?.mp hfg
        exact ⟨0, m + 1, g, fg, by omega, by simp, by simpa using hm, ev, hev, fut, hfut, hw⟩
      · obtain ⟨n, m, g', fg, hnm, hn, hm, rest⟩ := ih.mp h
        exact ⟨n + 1, m + 1, g', fg, by omega, by simpa using hn, by simpa using hm, rest⟩
    · rintro ⟨n, m, g', fg, hnm, hn, hm, ev, hev, fut, hfut, hw⟩
      match n, m with
      | 0, m + 1 =>
        simp only [List.getElem?_cons_zero, Option.some.injEq] at hn
        subst hn
        simp only [List.getElem?_cons_succ] at hm
        exact Or.inl ⟨ev, hev, fg, List.mem_of_getElem? hm, fut, hfut, hw⟩
      | n + 1, m + 1 =>
        simp only [List.getElem?_cons_succ] at hn hm
        exact Or.inr (ih.mpr ⟨n, m, g', fg, by omega, hn, hm, ev, hev, fut, hfut, hw⟩)
      | _, 0 => omega

theorem mem_orderPair {p p' : Nat} {ev fut : EvKind × DateV} {k1 k2 : EvKind} {d1 d2 : Date} :
    Warning.incorrectEventOrder p' k2 (.ok d2) k1 (.ok d1) ∈ orderPair p ev fut ↔
      p' = p ∧ ev = (k1, .ok d1) ∧ fut = (k2, .ok d2) ∧ compareDates d2 d2 d1 d1 = .entirelyBefore := by
  obtain ⟨ek, ed⟩ := ev
  obtain ⟨fk, fd⟩ := fut
  unfold orderPair
  cases ed <;> cases fd <;> simp
  all_goals try (intro h; split at h <;> simp at h)
  rename_i a b
  constructor
  · rintro ⟨hc, rfl, rfl, rfl, rfl, rfl⟩
    exact ⟨rfl, ⟨rfl, rfl⟩, ⟨rfl, rfl⟩, hc⟩
  · rintro ⟨rfl, ⟨rfl, rfl⟩, ⟨rfl, rfl⟩, hc⟩
    exact ⟨hc, rfl, rfl, rfl, rfl, rfl⟩

theorem compare_exact {a b : Date} (ha : C05.Full a) (hb : C05.Full b) :
    compareDates a a b b = .entirelyBefore ↔ dayOf a < dayOf b := by
  unfold compareDates
  rw [C06.event_order _ _ _ _ (by rw [C05.full_firstDay a ha, full_lastDay a ha]; exact Int.le_refl _)
    (by rw [C05.full_firstDay b hb, full_lastDay b hb]; exact Int.le_refl _)]
  rw [full_lastDay a ha, C05.full_firstDay b hb]
  rfl

/-! ### `DateNodes.Minimum / Maximum` on exact and unparsable dates -/

/-- every date of the list parses -/
def AllOk (ds : List DateV) : Prop := ∀ x ∈ ds, ∃ t, x = DateV.ok t

/-- `m` is the earliest civil day among the exact dates of the list -/
def MinDay (ds : List DateV) (m : Int) : Prop :=
  (∃ t, DateV.ok t ∈ ds ∧ dayOf t = m) ∧ ∀ t, DateV.ok t ∈ ds → m ≤ dayOf t

/-- `m` is the latest civil day among the exact dates of the list -/
def MaxDay (ds : List DateV) (m : Int) : Prop :=
  (∃ t, DateV.ok t ∈ ds ∧ dayOf t = m) ∧ ∀ t, DateV.ok t ∈ ds → dayOf t ≤ m

def FullIn (ds : List DateV) : Prop := ∀ x ∈ ds, x.Fine

theorem FullIn.full {ds : List DateV} (h : FullIn ds) {t : Date} (ht : DateV.ok t ∈ ds) : C05.Full t :=
  h _ ht

theorem FullIn.tail {x : DateV} {ds : List DateV} (h : FullIn (x :: ds)) : FullIn ds :=
  fun y hy => h y (by simp [hy])

def minStep (m y : DateV) : DateV := if yearsLtV (some y) (some m) then y else m
def maxStep (m y : DateV) : DateV := if yearsLtE (some m) (some y) then y else m

theorem minimumV_cons (x : DateV) (rest : List DateV) :
    minimumV (x :: rest) = some (rest.foldl minStep x) := rfl
theorem maximumV_cons (x : DateV) (rest : List DateV) :
    maximumV (x :: rest) = some (rest.foldl maxStep x) := rfl

theorem fold_min_ok : ∀ (rest : List DateV) (t0 : Date), AllOk rest → FullIn rest → C05.Full t0 →
    ∃ t, rest.foldl minStep (.ok t0) = .ok t ∧ (t = t0 ∨ DateV.ok t ∈ rest) ∧
      dayOf t ≤ dayOf t0 ∧ ∀ ty, DateV.ok ty ∈ rest → dayOf t ≤ dayOf ty := by
  intro rest
  induction rest with
  | nil => intro t0 _ _ _; exact ⟨t0, rfl, Or.inl rfl, Int.le_refl _, by simp⟩
  | cons y rest ih =>
    intro t0 hok hfull h0
    obtain ⟨ty, rfl⟩ := hok y (by simp)
    have hfy : C05.Full ty := hfull.full (by simp)
    have hok' : AllOk rest := fun x hx => hok x (by simp [hx])
    have hfull' : FullIn rest := hfull.tail
    simp only [List.foldl_cons, minStep]
    by_cases hlt : dayOf ty < dayOf t0
    · rw [if_pos ((yearsLtV_ok hfy h0).mpr hlt)]
      obtain ⟨t, h1, h2, h3, h4⟩ := ih ty hok' hfull' hfy
      refine ⟨t, h1, ?_, by omega, ?_⟩
      · rcases h2 with rfl | h2
        · exact Or.inr (by simp)
        · exact Or.inr (by simp [h2])
      · intro tz hz
        simp only [List.mem_cons, DateV.ok.injEq] at hz
        rcases hz with rfl | hz
        · exact h3
        · exact h4 tz hz
    · have : ¬ yearsLtV (some (.ok ty)) (some (.ok t0)) = true := fun h => hlt ((yearsLtV_ok hfy h0).mp h)
      rw [if_neg this]
      obtain ⟨t, h1, h2, h3, h4⟩ := ih t0 hok' hfull' h0
      refine ⟨t, h1, ?_, h3, ?_⟩
      · rcases h2 with rfl | h2
        · exact Or.inl rfl
        · exact Or.inr (by simp [h2])
      · intro tz hz
        simp only [List.mem_cons, DateV.ok.injEq] at hz
        rcases hz with rfl | hz
        · omega
        · exact h4 tz hz

theorem fold_max_ok : ∀ (rest : List DateV) (t0 : Date), AllOk rest → FullIn rest → C05.Full t0 →
    ∃ t, rest.foldl maxStep (.ok t0) = .ok t ∧ (t = t0 ∨ DateV.ok t ∈ rest) ∧
      dayOf t0 ≤ dayOf t ∧ ∀ ty, DateV.ok ty ∈ rest → dayOf ty ≤ dayOf t := by
  intro rest
  induction rest with
  | nil => intro t0 _ _ _; exact ⟨t0, rfl, Or.inl rfl, Int.le_refl _, by simp⟩
  | cons y rest ih =>
    intro t0 hok hfull h0
    obtain ⟨ty, rfl⟩ := hok y (by simp)
    have hfy : C05.Full ty := hfull.full (by simp)
    have hok' : AllOk rest := fun x hx => hok x (by simp [hx])
    have hfull' : FullIn rest := hfull.tail
    simp only [List.foldl_cons, maxStep]
    by_cases hlt : dayOf t0 < dayOf ty
    · rw [if_pos ((yearsLtE_ok h0 hfy).mpr hlt)]
      obtain ⟨t, h1, h2, h3, h4⟩ := ih ty hok' hfull' hfy
      refine ⟨t, h1, ?_, by omega, ?_⟩
      · rcases h2 with rfl | h2
        · exact Or.inr (by simp)
        · exact Or.inr (by simp [h2])
      · intro tz hz
        simp only [List.mem_cons, DateV.ok.injEq] at hz
        rcases hz with rfl | hz
        · exact h3
        · exact h4 tz hz
    · have : ¬ yearsLtE (some (.ok t0)) (some (.ok ty)) = true := fun h => hlt ((yearsLtE_ok h0 hfy).mp h)
      rw [if_neg this]
      obtain ⟨t, h1, h2, h3, h4⟩ := ih t0 hok' hfull' h0
      refine ⟨t, h1, ?_, h3, ?_⟩
      · rcases h2 with rfl | h2
        · exact Or.inl rfl
        · exact Or.inr (by simp [h2])
      · intro tz hz
        simp only [List.mem_cons, DateV.ok.injEq] at hz
        rcases hz with rfl | hz
        · omega
        · exact h4 tz hz

/-- an unparsable date has `Years() = 0`: once it is the minimum it stays the minimum -/
theorem fold_min_bad : ∀ (rest : List DateV) (l : Nat), rest.foldl minStep (.bad l) = .bad l := by
  intro rest
  induction rest with
  | nil => intro l; rfl
  | cons y rest ih =>
    intro l
    have : minStep (.bad l) y = .bad l := by cases y <;> simp [minStep, yearsLtV]
    simp only [List.foldl_cons, this]
    exact ih l

theorem minStep_noGen {m y : DateV} (hm : m.NoGen) (hy : y.NoGen) : (minStep m y).NoGen := by
  unfold minStep; split <;> assumption

theorem fold_min_hasbad : ∀ (rest : List DateV) (m : DateV), (∀ x ∈ rest, x.NoGen) → m.NoGen →
    (∃ l, DateV.bad l ∈ rest) → ∃ l, rest.foldl minStep m = .bad l := by
  intro rest
  induction rest with
  | nil => intro m _ _ ⟨l, h⟩; simp at h
  | cons y rest ih =>
    intro m hn hm ⟨l, h⟩
    simp only [List.foldl_cons]
    have hn' : ∀ x ∈ rest, x.NoGen := fun x hx => hn x (by simp [hx])
    cases y with
    | gen l' s e => exact absurd (hn (.gen l' s e) (by simp)) (by simp [DateV.NoGen])
    | bad l' =>
      cases m with
      | gen lm s e => exact absurd hm (by simp [DateV.NoGen])
      | bad lm =>
        have : minStep (.bad lm) (.bad l') = .bad lm := by simp [minStep, yearsLtV]
        rw [this]; exact ⟨lm, fold_min_bad rest lm⟩
      | ok tm =>
        have : minStep (.ok tm) (.bad l') = .bad l' := by simp [minStep, yearsLtV]
        rw [this]; exact ⟨l', fold_min_bad rest l'⟩
    | ok ty =>
      have : DateV.bad l ∈ rest := by simpa using h
      exact ih _ hn' (minStep_noGen hm (by simp [DateV.NoGen])) ⟨l, this⟩

/-- `Minimum()` of a non-empty list: the earliest day when every date parses, otherwise an
    unparsable date -/
theorem minimumV_ok {ds : List DateV} (hne : ds ≠ []) (hok : AllOk ds) (hfull : FullIn ds) :
    ∃ t, minimumV ds = some (.ok t) ∧ MinDay ds (dayOf t) := by
  cases ds with
  | nil => exact absurd rfl hne
  | cons x rest =>
    obtain ⟨t0, rfl⟩ := hok x (by simp)
    obtain ⟨t, h1, h2, h3, h4⟩ := fold_min_ok rest t0 (fun y hy => hok y (by simp [hy]))
      hfull.tail (hfull.full (by simp))
    refine ⟨t, by rw [minimumV_cons, h1], ⟨t, ?_, rfl⟩, ?_⟩
    · rcases h2 with rfl | h2
      · simp
      · simp [h2]
    · intro tz hz
      simp only [List.mem_cons, DateV.ok.injEq] at hz
      rcases hz with rfl | hz
      · exact h3
      · exact h4 tz hz

theorem maximumV_ok {ds : List DateV} (hne : ds ≠ []) (hok : AllOk ds) (hfull : FullIn ds) :
    ∃ t, maximumV ds = some (.ok t) ∧ MaxDay ds (dayOf t) := by
  cases ds with
  | nil => exact absurd rfl hne
  | cons x rest =>
    obtain ⟨t0, rfl⟩ := hok x (by simp)
    obtain ⟨t, h1, h2, h3, h4⟩ := fold_max_ok rest t0 (fun y hy => hok y (by simp [hy]))
      hfull.tail (hfull.full (by simp))
    refine ⟨t, by rw [maximumV_cons, h1], ⟨t, ?_, rfl⟩, ?_⟩
    · rcases h2 with rfl | h2
      · simp
      · simp [h2]
    · intro tz hz
      simp only [List.mem_cons, DateV.ok.injEq] at hz
      rcases hz with rfl | hz
      · exact h3
      · exact h4 tz hz

theorem minimumV_bad {ds : List DateV} (hn : ∀ x ∈ ds, x.NoGen) (h : ¬ AllOk ds) :
    ∃ l, minimumV ds = some (.bad l) := by
  have hb : ∃ l, DateV.bad l ∈ ds := by
    apply Classical.byContradiction
    intro hno
    apply h
    intro x hx
    cases x with
    | ok t => exact ⟨t, rfl⟩
    | bad l => exact absurd ⟨l, hx⟩ hno
    | gen l s e => exact absurd (hn _ hx) (by simp [DateV.NoGen])
  cases ds with
  | nil => obtain ⟨l, hl⟩ := hb; simp at hl
  | cons x rest =>
    rw [minimumV_cons]
    obtain ⟨l, hl⟩ := hb
    simp only [List.mem_cons] at hl
    rcases hl with rfl | hl
    · exact ⟨l, by rw [fold_min_bad]⟩
    · obtain ⟨l', h'⟩ := fold_min_hasbad rest x (fun y hy => hn y (by simp [hy])) (hn x (by simp)) ⟨l, hl⟩
      exact ⟨l', by rw [h']⟩

theorem MinDay.unique {ds : List DateV} {a b : Int} (ha : MinDay ds a) (hb : MinDay ds b) : a = b := by
  obtain ⟨⟨ta, hta, rfl⟩, ha2⟩ := ha
  obtain ⟨⟨tb, htb, rfl⟩, hb2⟩ := hb
  have := ha2 tb htb
  have := hb2 ta hta
  omega

theorem MaxDay.unique {ds : List DateV} {a b : Int} (ha : MaxDay ds a) (hb : MaxDay ds b) : a = b := by
  obtain ⟨⟨ta, hta, rfl⟩, ha2⟩ := ha
  obtain ⟨⟨tb, htb, rfl⟩, hb2⟩ := hb
  have := ha2 tb htb
  have := hb2 ta hta
  omega

/-! ### estimated birth and death -/

def birthDates (i : Indi) : List DateV := datesOf (eventsOf .birt i.events)
def baptismDates (i : Indi) : List DateV := datesOf (eventsOf .bapm i.events ++ eventsOf .bapl i.events)
def deathDates (i : Indi) : List DateV := datesOf (eventsOf .deat i.events)
def burialDates (i : Indi) : List DateV := datesOf (eventsOf .buri i.events)

/-- `EB(i) = b`: the earliest day among all BIRT dates — or, when there is no BIRT date at all,
    among all BAPM/BAPL dates — provided every one of those dates parses -/
def EstBirthDay (i : Indi) (b : Int) : Prop :=
  (birthDates i ≠ [] ∧ AllOk (birthDates i) ∧ MinDay (birthDates i) b) ∨
  (birthDates i = [] ∧ AllOk (baptismDates i) ∧ MinDay (baptismDates i) b)

/-- `ED(i) = b`: the same with DEAT, then BURI -/
def EstDeathDay (i : Indi) (b : Int) : Prop :=
  (deathDates i ≠ [] ∧ AllOk (deathDates i) ∧ MinDay (deathDates i) b) ∨
  (deathDates i = [] ∧ AllOk (burialDates i) ∧ MinDay (burialDates i) b)

theorem mem_datesOf {evs : List Ev} {x : DateV} : x ∈ datesOf evs ↔ ∃ e ∈ evs, x ∈ e.dates := by
  simp [datesOf, List.mem_flatMap]

theorem mem_eventsOf {k : EvKind} {evs : List Ev} {e : Ev} : e ∈ eventsOf k evs ↔ e ∈ evs ∧ e.kind = k := by
  simp [eventsOf]

def FullEvs (evs : List Ev) : Prop := ∀ e ∈ evs, ∀ x ∈ e.dates, x.Fine

theorem FullEvs.full {evs : List Ev} (h : FullEvs evs) {e : Ev} (he : e ∈ evs) {t : Date}
    (ht : DateV.ok t ∈ e.dates) : C05.Full t := h e he _ ht

theorem fullIn_datesOf {evs sub : List Ev} (h : FullEvs evs) (hs : ∀ e ∈ sub, e ∈ evs) :
    FullIn (datesOf sub) := by
  intro t ht
  obtain ⟨e, he, hte⟩ := mem_datesOf.mp ht
  exact h e (hs e he) t hte

theorem MinDay.nonempty {ds : List DateV} {b : Int} (h : MinDay ds b) : ds ≠ [] := by
  obtain ⟨⟨t, ht, _⟩, _⟩ := h
  intro e; rw [e] at ht; simp at ht

theorem est_spec {first second : List DateV} (hf1 : FullIn first) (hf2 : FullIn second) (t : Date) :
    (if first.isEmpty then minimumV second else minimumV first) = some (.ok t) ↔
      (first ≠ [] ∧ AllOk first ∧ MinDay first (dayOf t) ∧ minimumV first = some (.ok t)) ∨
      (first = [] ∧ AllOk second ∧ MinDay second (dayOf t) ∧ minimumV second = some (.ok t)) := by
  have key : ∀ ds : List DateV, FullIn ds → (minimumV ds = some (.ok t) ↔
      ds ≠ [] ∧ AllOk ds ∧ MinDay ds (dayOf t) ∧ minimumV ds = some (.ok t)) := by
    intro ds hfull
    constructor
    · intro h
      have hne : ds ≠ [] := by intro e; rw [e] at h; simp [minimumV] at h
      by_cases hok : AllOk ds
      · obtain ⟨t', h1, h2⟩ := minimumV_ok hne hok hfull
        rw [h1] at h
        simp only [Option.some.injEq, DateV.ok.injEq] at h
        subst h
        exact ⟨hne, hok, h2, h1⟩
      · obtain ⟨l, hl⟩ := minimumV_bad (fun x hx => (hfull x hx).noGen) hok
        rw [hl] at h; simp at h
    · exact fun h => h.2.2.2
  cases first with
  | nil =>
    simp only [List.isEmpty_nil, if_true, ne_eq, not_true_eq_false, false_and, false_or, true_and]
    constructor
    · intro h
      obtain ⟨_, h2, h3, h4⟩ := (key second hf2).mp h
      exact ⟨h2, h3, h4⟩
    · rintro ⟨_, _, h4⟩; exact h4
  | cons x rest =>
    simp only [List.isEmpty_cons, Bool.false_eq_true, if_false, reduceCtorEq, false_and, or_false]
    exact key _ hf1

theorem estBirth_iff {i : Indi} (hfull : FullEvs i.events) (t : Date) :
    estBirth i = some (.ok t) ↔ EstBirthDay i (dayOf t) ∧ estBirth i = some (.ok t) := by
  constructor
  · intro h
    refine ⟨?_, h⟩
    have hf1 : FullIn (birthDates i) := fullIn_datesOf hfull (fun e he => (mem_eventsOf.mp he).1)
    have hf2 : FullIn (baptismDates i) := fullIn_datesOf hfull (fun e he => by
      rcases List.mem_append.mp he with he | he <;> exact (mem_eventsOf.mp he).1)
    have := (est_spec hf1 hf2 t).mp h
    rcases this with ⟨a, b, c, _⟩ | ⟨a, b, c, _⟩
    · exact Or.inl ⟨a, b, c⟩
    · exact Or.inr ⟨a, b, c⟩
  · exact fun h => h.2

/-- the code's estimate exists exactly when the specified one does, and they agree -/
theorem estBirth_of_spec {i : Indi} (hfull : FullEvs i.events) {b : Int} (h : EstBirthDay i b) :
    ∃ t, estBirth i = some (.ok t) ∧ dayOf t = b := by
  have hf1 : FullIn (birthDates i) := fullIn_datesOf hfull (fun e he => (mem_eventsOf.mp he).1)
  have hf2 : FullIn (baptismDates i) := fullIn_datesOf hfull (fun e he => by
    rcases List.mem_append.mp he with he | he <;> exact (mem_eventsOf.mp he).1)
  rcases h with ⟨hne, hok, hmin⟩ | ⟨he, hok, hmin⟩
  · obtain ⟨t, h1, h2⟩ := minimumV_ok hne hok hf1
    refine ⟨t, ?_, h2.unique hmin⟩
    unfold estBirth
    have : (datesOf (eventsOf .birt i.events)).isEmpty = false := by
      cases hh : datesOf (eventsOf .birt i.events) with
      | nil => exact absurd hh hne
      | cons _ _ => rfl
    simp only [this, Bool.false_eq_true, if_false]
    exact h1
  · obtain ⟨t, h1, h2⟩ := minimumV_ok hmin.nonempty hok hf2
    refine ⟨t, ?_, h2.unique hmin⟩
    unfold estBirth
    have : (datesOf (eventsOf .birt i.events)).isEmpty = true := by
      unfold birthDates at he; rw [he]; rfl
    simp only [this, if_true]
    exact h1

theorem estBirth_to_spec {i : Indi} (hfull : FullEvs i.events) {t : Date}
    (h : estBirth i = some (.ok t)) : EstBirthDay i (dayOf t) := ((estBirth_iff hfull t).mp h).1

theorem estDeath_to_spec {i : Indi} (hfull : FullEvs i.events) {t : Date}
    (h : estDeath i = some (.ok t)) : EstDeathDay i (dayOf t) := by
  have hf1 : FullIn (deathDates i) := fullIn_datesOf hfull (fun e he => (mem_eventsOf.mp he).1)
  have hf2 : FullIn (burialDates i) := fullIn_datesOf hfull (fun e he => (mem_eventsOf.mp he).1)
  have := (est_spec hf1 hf2 t).mp h
  rcases this with ⟨a, b, c, _⟩ | ⟨a, b, c, _⟩
  · exact Or.inl ⟨a, b, c⟩
  · exact Or.inr ⟨a, b, c⟩

theorem estDeath_of_spec {i : Indi} (hfull : FullEvs i.events) {b : Int} (h : EstDeathDay i b) :
    ∃ t, estDeath i = some (.ok t) ∧ dayOf t = b := by
  have hf1 : FullIn (deathDates i) := fullIn_datesOf hfull (fun e he => (mem_eventsOf.mp he).1)
  have hf2 : FullIn (burialDates i) := fullIn_datesOf hfull (fun e he => (mem_eventsOf.mp he).1)
  rcases h with ⟨hne, hok, hmin⟩ | ⟨he, hok, hmin⟩
  · obtain ⟨t, h1, h2⟩ := minimumV_ok hne hok hf1
    refine ⟨t, ?_, h2.unique hmin⟩
    unfold estDeath
    have : (datesOf (eventsOf .deat i.events)).isEmpty = false := by
      cases hh : datesOf (eventsOf .deat i.events) with
      | nil => exact absurd hh hne
      | cons _ _ => rfl
    simp only [this, Bool.false_eq_true, if_false]
    exact h1
  · obtain ⟨t, h1, h2⟩ := minimumV_ok hmin.nonempty hok hf2
    refine ⟨t, ?_, h2.unique hmin⟩
    unfold estDeath
    have : (datesOf (eventsOf .deat i.events)).isEmpty = true := by
      unfold deathDates at he; rw [he]; rfl
    simp only [this, if_true]
    exact h1

theorem EstBirthDay.unique {i : Indi} {a b : Int} (ha : EstBirthDay i a) (hb : EstBirthDay i b) : a = b := by
  rcases ha with ⟨h1, _, h3⟩ | ⟨h1, _, h3⟩ <;> rcases hb with ⟨g1, _, g3⟩ | ⟨g1, _, g3⟩
  · exact h3.unique g3
  · exact absurd g1 h1
  · exact absurd h1 g1
  · exact h3.unique g3

/-- the estimate is one of the individual's own dates -/
theorem EstBirthDay.mem {i : Indi} {b : Int} (h : EstBirthDay i b) :
    ∃ e ∈ i.events, ∃ t, DateV.ok t ∈ e.dates ∧ dayOf t = b := by
  rcases h with ⟨_, _, ⟨t, ht, hb⟩, _⟩ | ⟨_, _, ⟨t, ht, hb⟩, _⟩
  · obtain ⟨e, he, hte⟩ := mem_datesOf.mp ht
    exact ⟨e, (mem_eventsOf.mp he).1, t, hte, hb⟩
  · obtain ⟨e, he, hte⟩ := mem_datesOf.mp ht
    refine ⟨e, ?_, t, hte, hb⟩
    rcases List.mem_append.mp he with he | he <;> exact (mem_eventsOf.mp he).1

theorem fold_min_mem : ∀ (rest : List DateV) (m : DateV),
    rest.foldl minStep m = m ∨ rest.foldl minStep m ∈ rest := by
  intro rest
  induction rest with
  | nil => intro m; exact Or.inl rfl
  | cons y rest ih =>
    intro m
    simp only [List.foldl_cons]
    rcases ih (minStep m y) with h | h
    · rw [h]
      unfold minStep
      split
      · exact Or.inr (by simp)
      · exact Or.inl rfl
    · exact Or.inr (by simp [h])

theorem minimumV_mem {ds : List DateV} {x : DateV} (h : minimumV ds = some x) : x ∈ ds := by
  cases ds with
  | nil => simp [minimumV] at h
  | cons y rest =>
    rw [minimumV_cons] at h
    simp only [Option.some.injEq] at h
    subst h
    rcases fold_min_mem rest y with h | h
    · rw [h]; simp
    · simp [h]

theorem estBirth_mem {i : Indi} {x : DateV} (h : estBirth i = some x) :
    ∃ e ∈ i.events, x ∈ e.dates := by
  unfold estBirth at h
  simp only at h
  split at h
  · obtain ⟨e, he, hx⟩ := mem_datesOf.mp (minimumV_mem h)
    rcases List.mem_append.mp he with he | he <;> exact ⟨e, (mem_eventsOf.mp he).1, hx⟩
  · obtain ⟨e, he, hx⟩ := mem_datesOf.mp (minimumV_mem h)
    exact ⟨e, (mem_eventsOf.mp he).1, hx⟩

theorem estDeath_mem {i : Indi} {x : DateV} (h : estDeath i = some x) :
    ∃ e ∈ i.events, x ∈ e.dates := by
  unfold estDeath at h
  simp only at h
  split at h
  · obtain ⟨e, he, hx⟩ := mem_datesOf.mp (minimumV_mem h)
    exact ⟨e, (mem_eventsOf.mp he).1, hx⟩
  · obtain ⟨e, he, hx⟩ := mem_datesOf.mp (minimumV_mem h)
    exact ⟨e, (mem_eventsOf.mp he).1, hx⟩

theorem estBirth_noGen {i : Indi} (hfi : FullEvs i.events) : NoGenO (estBirth i) := by
  intro v h
  obtain ⟨e, he, hx⟩ := estBirth_mem h
  exact (hfi e he v hx).noGen

theorem estDeath_noGen {i : Indi} (hfi : FullEvs i.events) : NoGenO (estDeath i) := by
  intro v h
  obtain ⟨e, he, hx⟩ := estDeath_mem h
  exact (hfi e he v hx).noGen

/-! ### age at an event -/

/-- distance in days -/
def absd (x y : Int) : Int := if x ≤ y then y - x else x - y

def DateV.within (lo hi : Int) : DateV → Bool
  | .ok t => decide (lo ≤ dayOf t ∧ dayOf t ≤ hi)
  | .bad _ => true
  | .gen _ _ _ => true

/-- every exact date of the document lies in the window of days `[lo, hi]` (decidable) -/
def DatesWithin (lo hi : Int) (d : Doc) : Prop :=
  d.all (fun
    | .indi i => i.events.all fun e => e.dates.all (DateV.within lo hi)
    | .fam f => f.events.all fun e => e.dates.all (DateV.within lo hi)) = true

instance (lo hi : Int) (d : Doc) : Decidable (DatesWithin lo hi d) := by
  unfold DatesWithin; exact inferInstance

theorem DatesWithin.indi {lo hi : Int} {d : Doc} (h : DatesWithin lo hi d) {i : Indi}
    (hi' : Rec.indi i ∈ d) {e : Ev} (he : e ∈ i.events) {t : Date} (ht : DateV.ok t ∈ e.dates) :
    lo ≤ dayOf t ∧ dayOf t ≤ hi := by
  unfold DatesWithin at h
  rw [List.all_eq_true] at h
  have := h _ hi'
  simp only [List.all_eq_true] at this
  simpa [DateV.within] using this e he _ ht

theorem DatesWithin.fam {lo hi : Int} {d : Doc} (h : DatesWithin lo hi d) {f : Fam}
    (hf : Rec.fam f ∈ d) {e : Ev} (he : e ∈ f.events) {t : Date} (ht : DateV.ok t ∈ e.dates) :
    lo ≤ dayOf t ∧ dayOf t ≤ hi := by
  unfold DatesWithin at h
  rw [List.all_eq_true] at h
  have := h _ hf
  simp only [List.all_eq_true] at this
  simpa [DateV.within] using this e he _ ht

theorem moor_arith (A C B : Int) (hA : absd A B ≤ 106751) (hC : absd C B ≤ 106751) :
    ((if dateSub (A * nsPerDay) (B * nsPerDay) > dateSub ((C + 1) * nsPerDay - 1) ((B + 1) * nsPerDay - 1)
      then dateSub (A * nsPerDay) (B * nsPerDay)
      else dateSub ((C + 1) * nsPerDay - 1) ((B + 1) * nsPerDay - 1)) <
        Generated.minMarriageAge * Generated.yearNs ↔
      absd A B * 4 < 16 * 1461 ∧ absd C B * 4 < 16 * 1461) ∧
    ((if dateSub (A * nsPerDay) (B * nsPerDay) > dateSub ((C + 1) * nsPerDay - 1) ((B + 1) * nsPerDay - 1)
      then dateSub (A * nsPerDay) (B * nsPerDay)
      else dateSub ((C + 1) * nsPerDay - 1) ((B + 1) * nsPerDay - 1)) >
        Generated.maxMarriageAge * Generated.yearNs ↔
      absd A B * 4 > 100 * 1461 ∨ absd C B * 4 > 100 * 1461) := by
  have s1 := dateSub_spec (A * nsPerDay) (B * nsPerDay)
  have s2 := dateSub_spec ((C + 1) * nsPerDay - 1) ((B + 1) * nsPerDay - 1)
  generalize dateSub (A * nsPerDay) (B * nsPerDay) = v1 at *
  generalize dateSub ((C + 1) * nsPerDay - 1) ((B + 1) * nsPerDay - 1) = v2 at *
  simp only [nsPerDay, absd, Generated.minMarriageAge, Generated.maxMarriageAge, Generated.yearNs] at *
  constructor
  · split <;> split at hA <;> split at hC <;> omega
  · split <;> split at hA <;> split at hC <;> omega

theorem ageAt_ok {i : Indi} {a c tb : Date} (heb : estBirth i = some (.ok tb)) :
    (ageAt i (.ok a) (.ok c)).known = true ∧
    (ageAt i (.ok a) (.ok c)).hi =
      if dateSub (startI (some (.ok a))) (startI (some (.ok tb))) >
          dateSub (endI (some (.ok c))) (endI (some (.ok tb)))
      then dateSub (startI (some (.ok a))) (startI (some (.ok tb)))
      else dateSub (endI (some (.ok c))) (endI (some (.ok tb))) := by
  unfold ageAt
  simp only [heb, validO, DateV.valid, Bool.not_true, Bool.false_eq_true, if_false]
  split <;> simp

theorem ageAt_unknown {i : Indi} {a c : DateV} (heb : validO (estBirth i) = false) :
    (ageAt i a c).known = false ∧ (ageAt i a c).hi = 0 := by
  unfold ageAt
  simp [heb, unknownAges]

theorem mem_filter_valid {ds : List DateV} {t : Date} :
    DateV.ok t ∈ ds.filter DateV.valid ↔ DateV.ok t ∈ ds := by
  simp [List.mem_filter, DateV.valid]

theorem allOk_filter_valid {ds : List DateV} (hn : FullIn ds) : AllOk (ds.filter DateV.valid) := by
  intro x hx
  rw [List.mem_filter] at hx
  cases x with
  | ok t => exact ⟨t, rfl⟩
  | bad l => simp [DateV.valid] at hx
  | gen l s e => exact absurd (hn _ hx.1) (by simp [DateV.Fine])

theorem yearNs_pos : (0 : Int) < Generated.maxMarriageAge * Generated.yearNs := by
  simp [Generated.maxMarriageAge, Generated.yearNs]

theorem ageAtEvent_spec {i : Indi} {e : Ev} (hfi : FullEvs i.events)
    (hfe : FullIn e.dates)
    (hspan : ∀ b, EstBirthDay i b → ∀ t, DateV.ok t ∈ e.dates → absd (dayOf t) b ≤ 106751) :
    (((ageAtEvent i e).known = true ∧ (ageAtEvent i e).hi < Generated.minMarriageAge * Generated.yearNs) ↔
      ∃ b, EstBirthDay i b ∧ (∃ t, DateV.ok t ∈ e.dates) ∧
        ∀ t, DateV.ok t ∈ e.dates → absd (dayOf t) b * 4 < 16 * 1461) ∧
    ((ageAtEvent i e).hi > Generated.maxMarriageAge * Generated.yearNs ↔
      ∃ b, EstBirthDay i b ∧ ∃ t, DateV.ok t ∈ e.dates ∧ absd (dayOf t) b * 4 > 100 * 1461) := by
  have hpos := yearNs_pos
  by_cases hne : e.dates.filter DateV.valid = []
  · -- no valid date: the age is unknown
    have hnone : ∀ t, ¬ DateV.ok t ∈ e.dates := by
      intro t ht
      have := mem_filter_valid.mpr ht
      rw [hne] at this; simp at this
    have hu : ageAtEvent i e = unknownAges := by
      unfold ageAtEvent; simp [hne, minimumV]
    rw [hu]
    constructor
    · constructor
      · intro h; simp [unknownAges] at h
      · rintro ⟨b, _, ⟨t, ht⟩, _⟩; exact absurd ht (hnone t)
    · constructor
      · intro h; simp only [unknownAges] at h; omega
      · rintro ⟨b, _, t, ht, _⟩; exact absurd ht (hnone t)
  · have hok := allOk_filter_valid hfe
    have hfull : FullIn (e.dates.filter DateV.valid) := fun x hx => hfe x (List.mem_filter.mp hx).1
    obtain ⟨a, ha1, ha2⟩ := minimumV_ok hne hok hfull
    obtain ⟨c, hc1, hc2⟩ := maximumV_ok hne hok hfull
    have hev : ageAtEvent i e = ageAt i (.ok a) (.ok c) := by
      unfold ageAtEvent; simp [ha1, hc1]
    rw [hev]
    obtain ⟨⟨ta, hta, hta'⟩, hamin⟩ := ha2
    obtain ⟨⟨tc, htc, htc'⟩, hcmax⟩ := hc2
    have hfa : C05.Full a := by
      have := minimumV_ok hne hok hfull
      -- `a` itself is one of the dates
      cases hds : e.dates.filter DateV.valid with
      | nil => exact absurd hds hne
      | cons x rest =>
        rw [hds] at ha1 hok hfull
        obtain ⟨t0, rfl⟩ := hok x (by simp)
        obtain ⟨t, h1, h2, _, _⟩ := fold_min_ok rest t0 (fun y hy => hok y (by simp [hy]))
          hfull.tail (hfull.full (by simp))
        rw [minimumV_cons, h1] at ha1
        simp only [Option.some.injEq, DateV.ok.injEq] at ha1
        subst ha1
        rcases h2 with rfl | h2
        · exact hfull.full (by simp)
        · exact hfull.full (by simp [h2])
    have hfc : C05.Full c := by
      cases hds : e.dates.filter DateV.valid with
      | nil => exact absurd hds hne
      | cons x rest =>
        rw [hds] at hc1 hok hfull
        obtain ⟨t0, rfl⟩ := hok x (by simp)
        obtain ⟨t, h1, h2, _, _⟩ := fold_max_ok rest t0 (fun y hy => hok y (by simp [hy]))
          hfull.tail (hfull.full (by simp))
        rw [maximumV_cons, h1] at hc1
        simp only [Option.some.injEq, DateV.ok.injEq] at hc1
        subst hc1
        rcases h2 with rfl | h2
        · exact hfull.full (by simp)
        · exact hfull.full (by simp [h2])
    by_cases hv : validO (estBirth i) = true
    · obtain ⟨tb, heb⟩ := (validO_iff (estBirth_noGen hfi)).mp hv
      have hspec := estBirth_to_spec hfi heb
      have hfb : C05.Full tb := by
        obtain ⟨e', he', t', ht', hd'⟩ := hspec.mem
        -- the estimate has the day of one of the individual's dates; fullness of `tb` itself
        -- comes from the fold (it is one of the dates)
        have hf1 : FullIn (birthDates i) := fullIn_datesOf hfi (fun e he => (mem_eventsOf.mp he).1)
        have hf2 : FullIn (baptismDates i) := fullIn_datesOf hfi (fun e he => by
          rcases List.mem_append.mp he with he | he <;> exact (mem_eventsOf.mp he).1)
        have key : ∀ ds : List DateV, FullIn ds → minimumV ds = some (.ok tb) → C05.Full tb := by
          intro ds hfd hm
          cases ds with
          | nil => simp [minimumV] at hm
          | cons x rest =>
            by_cases hokd : AllOk (x :: rest)
            · obtain ⟨t0, rfl⟩ := hokd x (by simp)
              obtain ⟨t, h1, h2, _, _⟩ := fold_min_ok rest t0 (fun y hy => hokd y (by simp [hy]))
                hfd.tail (hfd.full (by simp))
              rw [minimumV_cons, h1] at hm
              simp only [Option.some.injEq, DateV.ok.injEq] at hm
              subst hm
              rcases h2 with rfl | h2
              · exact hfd.full (by simp)
              · exact hfd.full (by simp [h2])
            · obtain ⟨l, hl⟩ := minimumV_bad (fun x hx => (hfd x hx).noGen) hokd
              rw [hl] at hm; simp at hm
        rcases (est_spec hf1 hf2 tb).mp heb with ⟨_, _, _, hm⟩ | ⟨_, _, _, hm⟩
        · exact key _ hf1 hm
        · exact key _ hf2 hm
      obtain ⟨hk, hhi⟩ := ageAt_ok (a := a) (c := c) heb
      rw [hk, hhi, startI_ok hfb, endI_ok hfb, startI_ok hfa, endI_ok hfc]
      have hA : absd (dayOf a) (dayOf tb) ≤ 106751 := by
        have := hspan _ hspec ta (mem_filter_valid.mp hta); rw [hta'] at this; exact this
      have hC : absd (dayOf c) (dayOf tb) ≤ 106751 := by
        have := hspan _ hspec tc (mem_filter_valid.mp htc); rw [htc'] at this; exact this
      have har := moor_arith (dayOf a) (dayOf c) (dayOf tb) hA hC
      have hbetween : ∀ t, DateV.ok t ∈ e.dates → dayOf a ≤ dayOf t ∧ dayOf t ≤ dayOf c :=
        fun t ht => ⟨hamin t (mem_filter_valid.mpr ht), hcmax t (mem_filter_valid.mpr ht)⟩
      constructor
      · rw [show ((true = true ∧ _) ↔ _) from ⟨fun h => h.2, fun h => ⟨rfl, h⟩⟩, har.1]
        constructor
        · rintro ⟨h1, h2⟩
          refine ⟨dayOf tb, hspec, ⟨ta, mem_filter_valid.mp hta⟩, ?_⟩
          intro t ht
          have := hbetween t ht
          unfold absd at h1 h2 ⊢
          split at h1 <;> split at h2 <;> split <;> omega
        · rintro ⟨b, hb, _, hall⟩
          have hbe : b = dayOf tb := hb.unique hspec
          subst hbe
          have h1 := hall ta (mem_filter_valid.mp hta)
          have h2 := hall tc (mem_filter_valid.mp htc)
          rw [hta'] at h1; rw [htc'] at h2
          exact ⟨h1, h2⟩
      · rw [har.2]
        constructor
        · rintro (h | h)
          · exact ⟨dayOf tb, hspec, ta, mem_filter_valid.mp hta, by rw [hta']; exact h⟩
          · exact ⟨dayOf tb, hspec, tc, mem_filter_valid.mp htc, by rw [htc']; exact h⟩
        · rintro ⟨b, hb, t, ht, hgt⟩
          have hbe : b = dayOf tb := hb.unique hspec
          subst hbe
          have := hbetween t ht
          unfold absd at hgt ⊢
          by_cases hc' : absd (dayOf a) (dayOf tb) * 4 > 100 * 1461
          · left; unfold absd at hc'; exact hc'
          · right
            unfold absd at hc'
            split at hgt <;> split at hc' <;> split <;> omega
    · have hv' : validO (estBirth i) = false := by
        cases h : validO (estBirth i) with
        | true => exact absurd h hv
        | false => rfl
      obtain ⟨hk, hhi⟩ := ageAt_unknown (a := .ok a) (c := .ok c) hv'
      rw [hk, hhi]
      have hnob : ∀ b, ¬ EstBirthDay i b := by
        intro b hb
        obtain ⟨t, ht, _⟩ := estBirth_of_spec hfi hb
        rw [ht] at hv'; simp [validO, DateV.valid] at hv'
      constructor
      · constructor
        · intro h; simp at h
        · rintro ⟨b, hb, _⟩; exact absurd hb (hnob b)
      · constructor
        · intro h; omega
        · rintro ⟨b, hb, _⟩; exact absurd hb (hnob b)

theorem ExactDates.fullEvs {d : Doc} (hx : ExactDates d) {i : Indi} (hi : Rec.indi i ∈ d) :
    FullEvs i.events := fun _ he _ ht => hx.fine_indi hi he ht

theorem mem_marriedCheck {fp sp k fp' sp' k' : Nat} {old : Bool} {a : Ages} :
    Warning.marriedOutOfRange fp' sp' old k' ∈ marriedCheck fp k a sp ↔
      fp' = fp ∧ sp' = sp ∧ k' = k ∧
        ((old = false ∧ a.known = true ∧ a.hi < Generated.minMarriageAge * Generated.yearNs) ∨
         (old = true ∧ a.hi > Generated.maxMarriageAge * Generated.yearNs)) := by
  simp only [marriedCheck, List.mem_append, Bool.and_eq_true, decide_eq_true_eq]
  constructor
  · rintro (h | h) <;> split at h <;> simp at h
    · rename_i hc
      obtain ⟨rfl, rfl, rfl, rfl⟩ := h
      exact ⟨rfl, rfl, rfl, Or.inl ⟨rfl, hc.1, hc.2⟩⟩
    · rename_i hc
      obtain ⟨rfl, rfl, rfl, rfl⟩ := h
      exact ⟨rfl, rfl, rfl, Or.inr ⟨rfl, hc⟩⟩
  · rintro ⟨rfl, rfl, rfl, ⟨rfl, h1, h2⟩ | ⟨rfl, h⟩⟩
    · left; simp [h1, h2]
    · right; simp [h]

theorem mem_marriedFrom {d : Doc} {f : Fam} {w : Warning} :
    ∀ (evs : List Ev) (k0 : Nat), w ∈ marriedFrom d f k0 evs ↔
      ∃ (j : Nat) (e : Ev), evs[j]? = some e ∧ w ∈ marriedAt d f (k0 + j) e := by
  intro evs
  induction evs with
  | nil => intro k0; simp [marriedFrom]
  | cons e rest ih =>
    intro k0
    simp only [marriedFrom, List.mem_append]
    constructor
    · rintro (h | h)
      · exact ⟨0, e, by simp, by simpa using h⟩
      · obtain ⟨j, e', hj, hw⟩ := (ih (k0 + 1)).mp h
        exact ⟨j + 1, e', by simpa using hj, by rw [show k0 + (j + 1) = k0 + 1 + j by omega]; exact hw⟩
    · rintro ⟨j, e', hj, hw⟩
      match j with
      | 0 =>
        simp only [List.getElem?_cons_zero, Option.some.injEq] at hj
        subst hj
        exact Or.inl (by simpa using hw)
      | j + 1 =>
        simp only [List.getElem?_cons_succ] at hj
        exact Or.inr ((ih (k0 + 1)).mpr ⟨j, e', hj, by rw [show k0 + 1 + j = k0 + (j + 1) by omega]; exact hw⟩)

theorem mem_marriedAt {d : Doc} {f : Fam} {k fp sp k' : Nat} {old : Bool} {e : Ev} :
    Warning.marriedOutOfRange fp sp old k' ∈ marriedAt d f k e ↔
      e.kind = .marr ∧ fp = f.ptr ∧ k' = k ∧ ∃ i, indiOf d sp = some i ∧
        (f.husb = some sp ∨ f.wife = some sp) ∧
        ((old = false ∧ (ageAtEvent i e).known = true ∧
            (ageAtEvent i e).hi < Generated.minMarriageAge * Generated.yearNs) ∨
         (old = true ∧ (ageAtEvent i e).hi > Generated.maxMarriageAge * Generated.yearNs)) := by
  unfold marriedAt
  by_cases hk : e.kind = .marr
  · simp only [hk, bne_self_eq_false, Bool.false_eq_true, if_false, List.mem_append, true_and]
    constructor
    · rintro (h | h)
      · split at h
        · rename_i hh hb
          obtain ⟨rfl, rfl, rfl, hc⟩ := mem_marriedCheck.mp h
          cases hhu : f.husb with
          | none => simp [hhu] at hb
          | some hp =>
            simp only [hhu, Option.bind_some] at hb
            have := (indiOf_some hb).2
            subst this
            exact ⟨rfl, rfl, hh, hb, Or.inl rfl, hc⟩
        · simp at h
      · split at h
        · rename_i hh hb
          obtain ⟨rfl, rfl, rfl, hc⟩ := mem_marriedCheck.mp h
          cases hhu : f.wife with
          | none => simp [hhu] at hb
          | some hp =>
            simp only [hhu, Option.bind_some] at hb
            have := (indiOf_some hb).2
            subst this
            exact ⟨rfl, rfl, hh, hb, Or.inr rfl, hc⟩
        · simp at h
    · rintro ⟨rfl, rfl, i, hi, hsp, hc⟩
      have hp := (indiOf_some hi).2
      rcases hsp with hsp | hsp
      · left
        simp only [hsp, Option.bind_some, hi]
        exact mem_marriedCheck.mpr ⟨rfl, hp.symm, rfl, hc⟩
      · right
        simp only [hsp, Option.bind_some, hi]
        exact mem_marriedCheck.mpr ⟨rfl, hp.symm, rfl, hc⟩
  · have : (e.kind != EvKind.marr) = true := by simpa using hk
    simp [this, hk]

/-! ### too old -/

/-- `Years(td) − Years(tb) > n` on the exact fractions of date.go's `Years()` -/
def YearsApartGt (tb td : Date) (n : Int) : Prop :=
  ((td.year : Int) * td.yearsDen + td.yearsNum) * tb.yearsDen -
    ((tb.year : Int) * tb.yearsDen + tb.yearsNum) * td.yearsDen > n * (td.yearsDen * tb.yearsDen)

theorem yearsDen_cases (t : Date) : t.yearsDen = 732 ∨ t.yearsDen = 734 := by
  unfold Date.yearsDen
  rcases daysInYear_cases (t.year : Int) with h | h <;> rw [h] <;> simp

theorem old_arith (N D : Int) (hD : D = 732*732 ∨ D = 732*734 ∨ D = 734 * 732 ∨ D = 734*734) :
    truncDiv (N * Generated.yearNs) D > Generated.maxLivingAge * Generated.yearNs ↔ N > 100 * D := by
  unfold truncDiv
  have hK : Generated.yearNs = 31557600000000000 := rfl
  have hM : Generated.maxLivingAge = 100 := rfl
  rw [hM]
  generalize Generated.yearNs = K at *
  by_cases h : N * K ≥ 0
  · rw [if_pos h]; subst hK; rcases hD with rfl | rfl | rfl | rfl <;> omega
  · rw [if_neg h]; subst hK; rcases hD with rfl | rfl | rfl | rfl <;> omega

theorem old_arith_neg (nb D : Int) (hnb : 0 < nb) (hD : D = 732 ∨ D = 734) :
    ¬ truncDiv ((0 * D - nb * 1) * Generated.yearNs) (1 * D) >
      Generated.maxLivingAge * Generated.yearNs := by
  unfold truncDiv
  have hK : Generated.yearNs = 31557600000000000 := rfl
  have hM : Generated.maxLivingAge = 100 := rfl
  rw [hM]
  generalize Generated.yearNs = K at *
  by_cases h : (0 * D - nb * 1) * K ≥ 0
  · rw [if_pos h]; subst hK; rcases hD with rfl | rfl <;> omega
  · rw [if_neg h]; subst hK; rcases hD with rfl | rfl <;> omega

theorem ageAt_c {i : Indi} {a c tb : Date} (heb : estBirth i = some (.ok tb)) :
    (ageAt i (.ok a) (.ok c)).c =
      if yearsLtV (some (.ok a)) (some (.ok tb)) then AgeC.beforeBirth
      else if yearsLtE (estDeath i) (some (.ok c)) && (estDeath i).isSome then AgeC.afterDeath
      else AgeC.living := by
  unfold ageAt
  simp only [heb, validO, DateV.valid, Bool.not_true, Bool.false_eq_true, if_false]
  split <;> rfl

theorem mem_tooOld {i : Indi} {now : Date} {p : Nat} :
    Warning.individualTooOld p ∈ tooOld i now ↔
      p = i.ptr ∧ (ageNow i now).hi > Generated.maxLivingAge * Generated.yearNs ∧
        (estDeath i).isSome = true := by
  unfold tooOld
  split
  · rename_i h
    simp only [Bool.and_eq_true, decide_eq_true_eq] at h
    simp [h.1, h.2]
  · rename_i h
    simp only [Bool.and_eq_true, decide_eq_true_eq] at h
    simp only [List.not_mem_nil, false_iff]
    rintro ⟨_, h1, h2⟩
    exact h ⟨h1, h2⟩

theorem yearsNum_pos {t : Date} (h : C05.Full t) : 0 < t.yearsNum ∧ 0 < t.yearsDen := by
  obtain ⟨h1, h2, h3, h4⟩ := h
  have hy := yearDay_bounds t.year t.month t.day h1 h2 (by omega) h4
  have hm : ¬ t.month = 0 := by omega
  have hd : ¬ t.day = 0 := by omega
  unfold Date.yearsNum Date.yearsDen
  simp only [hm, hd, if_false]
  rcases daysInYear_cases (t.year : Int) with e | e <;> rw [e] <;> omega

/-- the too-old test, on an individual whose dates all lie before today -/
theorem tooOld_iff {i : Indi} {now : Date} (hfi : FullEvs i.events) (hnow : C05.Full now)
    (hpast : ∀ e ∈ i.events, ∀ t, DateV.ok t ∈ e.dates → dayOf t < dayOf now) :
    ((ageNow i now).hi > Generated.maxLivingAge * Generated.yearNs ∧ (estDeath i).isSome = true) ↔
      ∃ tb td, estBirth i = some (.ok tb) ∧ estDeath i = some (.ok td) ∧ YearsApartGt tb td 100 := by
  have hpos : (0 : Int) < Generated.maxLivingAge * Generated.yearNs := by
    simp [Generated.maxLivingAge, Generated.yearNs]
  by_cases hv : validO (estBirth i) = true
  · obtain ⟨tb, heb⟩ := (validO_iff (estBirth_noGen hfi)).mp hv
    obtain ⟨eb', heb', htb'⟩ := estBirth_mem heb
    have hfb : C05.Full tb := hfi.full heb' htb'
    have hbp : dayOf tb < dayOf now := hpast eb' heb' tb htb'
    have hnb : yearsLtV (some (.ok now)) (some (.ok tb)) = false := by
      cases h : yearsLtV (some (.ok now)) (some (.ok tb)) with
      | false => rfl
      | true => have := (yearsLtV_ok hnow hfb).mp h; omega
    have hc := ageAt_c (a := now) (c := now) heb
    rw [hnb] at hc
    simp only [Bool.false_eq_true, if_false] at hc
    cases hed : estDeath i with
    | none =>
      constructor
      · rintro ⟨_, h⟩; simp at h
      · rintro ⟨_, _, _, h, _⟩; simp at h
    | some x =>
      have hxn : x.NoGen := estDeath_noGen hfi x hed
      have hafter : (ageAt i (.ok now) (.ok now)).c = AgeC.afterDeath := by
        rw [hc, hed]
        cases x with
        | gen l s e => exact absurd hxn (by simp [DateV.NoGen])
        | bad l => simp [yearsLtE]
        | ok td =>
          obtain ⟨ed', hed', htd'⟩ := estDeath_mem hed
          have hfd : C05.Full td := hfi.full hed' htd'
          have hdp : dayOf td < dayOf now := hpast ed' hed' td htd'
          simp [(yearsLtE_ok hfd hnow).mpr hdp]
      have hage : (ageNow i now).hi =
          truncDiv (((yearsFrac (some x)).1 * (yearsFrac (some (.ok tb))).2 -
            (yearsFrac (some (.ok tb))).1 * (yearsFrac (some x)).2) * Generated.yearNs)
            ((yearsFrac (some x)).2 * (yearsFrac (some (.ok tb))).2) := by
        unfold ageNow
        simp only [hafter, if_true, hed, heb]
      rw [hage]
      cases x with
      | gen l s e => exact absurd hxn (by simp [DateV.NoGen])
      | bad l =>
        constructor
        · rintro ⟨h, _⟩
          exfalso
          obtain ⟨hn, hd⟩ := yearsNum_pos hfb
          simp only [yearsFrac] at h
          have hnn : (0:Int) ≤ (tb.year : Int) := Int.natCast_nonneg _
          have hprod : 0 ≤ (tb.year : Int) * tb.yearsDen := Int.mul_nonneg hnn (by omega)
          exact old_arith_neg _ _ (by omega) (yearsDen_cases tb) h
        · rintro ⟨_, _, _, h, _⟩; simp at h
      | ok td =>
        obtain ⟨ed', hed', htd'⟩ := estDeath_mem hed
        simp only [yearsFrac]
        rw [old_arith _ _ (by
          rcases yearsDen_cases td with e | e <;> rcases yearsDen_cases tb with e' | e' <;>
            rw [e, e'] <;> simp)]
        constructor
        · rintro ⟨h, _⟩
          exact ⟨tb, td, heb, rfl, by unfold YearsApartGt; omega⟩
        · rintro ⟨tb', td', e1, e2, h⟩
          rw [heb] at e1
          simp only [Option.some.injEq, DateV.ok.injEq] at e1 e2
          subst e1; subst e2
          exact ⟨by unfold YearsApartGt at h; omega, rfl⟩
  · have hv' : validO (estBirth i) = false := by
      cases h : validO (estBirth i) with
      | true => exact absurd h hv
      | false => rfl
    have : ageNow i now = unknownAges := by
      unfold ageNow ageAt
      simp [hv', unknownAges]
    rw [this]
    constructor
    · rintro ⟨h, _⟩; simp only [unknownAges] at h; omega
    · rintro ⟨tb, _, h, _⟩
      rw [h] at hv'; simp [validO, DateV.valid] at hv'

end Gedcom.Warn
