/-
  What C08 needs of C07's `deepEqual` (Gedcom/Model/Equal.lean): a deep-equal pair is shallowly
  equal, and the greedy child matching of `DeepEqualNodes` exhibits a perfect matching of the
  children along `deepEqual` (soundness of greedy matching needs no assumption on the relation).
-/
import Gedcom.Lemmas.DiffDeep
import Gedcom.Lemmas.Equal
import Gedcom.Lemmas.Ident
namespace Gedcom

/-- `DeepEqual(a, b)` on id-carrying nodes -/
def DeepEq (a b : INode) : Prop := deepEqual a.erase b.erase = true

theorem deepEqual_shallow (a b : Node) (h : deepEqual a b = true) : equalsShallow a b = true := by
  cases a with | mk t v p ks =>
  rw [deepEqual] at h
  simp only [Bool.and_eq_true] at h
  exact h.1

theorem deepEqual_kids (a b : Node) (h : deepEqual a b = true) :
    a.kids.length = b.kids.length ∧ matchKids (fun _ => true) a.kids b.kids = true := by
  cases a with | mk t v p ks =>
  rw [deepEqual] at h
  simp only [Bool.and_eq_true, beq_iff_eq] at h
  exact ⟨h.2.1, h.2.2⟩

theorem removeFirst_map {α β : Type} (f : α → β) (p : β → Bool) : ∀ (l : List α),
    removeFirst p (l.map f) = (removeFirst (fun x => p (f x)) l).map (List.map f)
  | [] => rfl
  | x :: xs => by
    simp only [List.map_cons, removeFirst]
    by_cases hp : p (f x) = true
    · rw [if_pos hp, if_pos hp]; rfl
    · rw [if_neg hp, if_neg hp, removeFirst_map f p xs]
      cases removeFirst (fun x => p (f x)) xs <;> simp

theorem removeFirst_perm {α : Type} (p : α → Bool) : ∀ (l l' : List α), removeFirst p l = some l' →
    ∃ y, p y = true ∧ l.Perm (y :: l')
  | [], _, h => by simp [removeFirst] at h
  | x :: xs, l', h => by
    simp only [removeFirst] at h
    cases hp : p x with
    | true =>
      simp only [hp, if_true, Option.some.injEq] at h
      subst h
      exact ⟨x, hp, List.Perm.refl _⟩
    | false =>
      simp only [hp, Bool.false_eq_true, if_false] at h
      cases hr : removeFirst p xs with
      | none => rw [hr] at h; simp at h
      | some r =>
        rw [hr] at h
        simp only [Option.map_some, Option.some.injEq] at h
        subst h
        obtain ⟨y, hy, hperm⟩ := removeFirst_perm p xs r hr
        exact ⟨y, hy, (List.Perm.cons x hperm).trans (List.Perm.swap y x r)⟩

theorem INode.erase_kids (a : INode) : a.erase.kids = a.kids.map INode.erase := by
  cases a with | mk i t v p ks =>
  rw [INode.erase, ← eraseList_eq_map]; rfl

/-- greedy matching is sound: when `DeepEqualNodes` succeeds, a perfect matching exists -/
theorem matchKids_sound : ∀ (ks rs : List INode), ks.length = rs.length →
    matchKids (fun _ => true) (ks.map INode.erase) (rs.map INode.erase) = true → PMatch DeepEq ks rs
  | [], rs, hl, _ => by
    cases rs with
    | nil => exact PMatch.nil
    | cons _ _ => simp at hl
  | k :: ks, rs, hl, h => by
    rw [List.map_cons, matchKids] at h
    simp only [if_true] at h
    rw [removeFirst_map] at h
    cases hr : removeFirst (fun x => deepEqual k.erase x.erase) rs with
    | none => rw [hr] at h; simp at h
    | some rs' =>
      rw [hr] at h
      simp only [Option.map_some] at h
      obtain ⟨y, hy, hperm⟩ := removeFirst_perm _ rs rs' hr
      have hl' : ks.length = rs'.length := by
        have := hperm.length_eq
        simp only [List.length_cons] at this hl
        omega
      exact PMatch.cons hy hperm (matchKids_sound ks rs' hl' h)

/-- `n.Equals(n)` holds for every node (C07: `deepEqual_refl`, `equalsSpec_refl`) -/
theorem iequals_refl (x : INode) : iequals x x = true := by
  unfold iequals
  rw [equalsShallow_eq]
  exact equalsSpec_refl _ (fun k _ => deepEqual_refl k)

theorem DeepEq.shallow {a b : INode} (h : DeepEq a b) : iequals a b = true :=
  deepEqual_shallow _ _ h

theorem DeepEq.kids {a b : INode} (h : DeepEq a b) : PMatch DeepEq a.kids b.kids := by
  have := deepEqual_kids _ _ h
  rw [INode.erase_kids, INode.erase_kids] at this
  exact matchKids_sound _ _ (by simpa using this.1) this.2

end Gedcom
