/- C02: the stack machine of the decoder refines the stack-free reference `scan`. -/
import Gedcom.Lemmas.Machine
namespace Gedcom.Dec
open Gedcom

theorem listingF_append (lvl : Nat) (a b : List Node) :
    listingF lvl (a ++ b) = listingF lvl a ++ listingF lvl b := by
  induction a with
  | nil => simp [listingF]
  | cons x xs ih => simp [listingF, ih, List.append_assoc]

theorem listingF_single (lvl : Nat) (n : Node) : listingF lvl [n] = listingT lvl n := by
  simp [listingF]

/-- listing of the open nodes, outermost first; the frame at stack position with `k` frames
    below it sits at level `k` -/
def frameListing : List Frame → List Entry
  | [] => []
  | f :: fs => frameListing fs ++ (⟨fs.length, f.hdr⟩ :: listingF (fs.length + 1) f.kids)

/-- the preorder listing of everything read so far -/
def stListing (s : St) : List Entry := listingF 0 s.roots ++ frameListing s.stack

theorem closeOne_listing (s : St) : stListing (closeOne s) = stListing s := by
  rcases s with ⟨r, _ | ⟨f, _ | ⟨g, fs⟩⟩, sf⟩
  · rfl
  · simp [closeOne, stListing, frameListing, listingF_append, listingF, listingT, Frame.close]
  · simp [closeOne, stListing, frameListing, listingF_append, listingF, listingT, Frame.close,
      List.append_assoc]

theorem closeN_listing (k : Nat) (s : St) : stListing (closeN k s) = stListing s := by
  induction k generalizing s with
  | zero => rfl
  | succ k ih => simp [closeN, ih, closeOne_listing]

theorem closeTo_listing (n : Nat) (s : St) : stListing (closeTo n s) = stListing s :=
  closeN_listing _ s

theorem push_listing (s : St) (h : Hdr) :
    stListing (push s h) = stListing s ++ [⟨s.stack.length, h⟩] := by
  simp [push, stListing, frameListing, listingF, List.append_assoc]

/-- the simulation relation between the decoder state and the reference state -/
def Sim (s : St) (sc : ScanSt) : Prop :=
  s.seenFam = sc.seenFam ∧
  match sc.last with
  | none => s.stack = [] ∧ s.roots = [] ∧ sc.done = []
  | some e => ∃ f fs, s.stack = f :: fs ∧ f.hdr = e.hdr ∧ f.kids = [] ∧ fs.length = e.level ∧
      listingF 0 s.roots ++ frameListing fs = sc.done

theorem Sim_init : Sim ⟨[], [], false⟩ ⟨[], none, false⟩ := by simp [Sim]

/-- the listing of a state whose top node is the open entry -/
theorem stListing_of_sim {s : St} {sc : ScanSt} {e : Entry} (h : Sim s sc) (he : sc.last = some e) :
    stListing (trimTop s) = sc.done ++ [e.trim] ∧ stListing s = sc.done ++ [e] := by
  obtain ⟨_, h2⟩ := h
  rw [he] at h2
  obtain ⟨f, fs, hst, hh, hk, hl, hd⟩ := h2
  rcases s with ⟨r, st, sf⟩
  simp only at hst hd
  subst hst
  obtain ⟨fh, fk⟩ := f
  simp only at hh hk
  subst hh hk
  obtain ⟨el, eh⟩ := e
  simp only at hl
  subst hl
  constructor
  · simp [trimTop, stListing, frameListing, listingF, Entry.trim, ← hd, List.append_assoc]
  · simp [stListing, frameListing, listingF, ← hd, List.append_assoc]

/-- after `closeTo lvl` of a state with a known listing, pushing `h` establishes `Sim` again -/
theorem Sim_push (s0 : St) (lvl : Nat) (h : Hdr) (done : List Entry) (sf : Bool)
    (hl : lvl ≤ s0.stack.length) (hlist : stListing s0 = done) (hsf : s0.seenFam = sf) :
    Sim (push (closeTo lvl s0) h) ⟨done, some ⟨lvl, h⟩, sf⟩ := by
  refine ⟨by simp [push, hsf], ?_⟩
  simp only
  refine ⟨⟨h, []⟩, (closeTo lvl s0).stack, by simp [push], rfl, rfl, closeTo_len lvl s0 hl, ?_⟩
  have := closeTo_listing lvl s0
  rw [hlist] at this
  simpa [push, stListing] using this

@[simp] theorem trimTop_len (s : St) : (trimTop s).stack.length = s.stack.length := by
  rcases s with ⟨r, _ | ⟨f, fs⟩, sf⟩ <;> simp [trimTop]
@[simp] theorem trimTop_seen (s : St) : (trimTop s).seenFam = s.seenFam := by
  rcases s with ⟨r, _ | ⟨f, fs⟩, sf⟩ <;> simp [trimTop]

/-- relation between the results of one step -/
def StepRel : StepResult → ScanResult → Prop
  | .next s, .next sc => Sim s sc
  | .error, .error => True
  | .panic c, .panic c' => c = c'
  | _, _ => False

theorem Sim_fam (b : Bool) {s : St} {sc : ScanSt} (h : Sim s sc) :
    Sim { s with seenFam := s.seenFam || b } { sc with seenFam := sc.seenFam || b } := by
  obtain ⟨h1, h2⟩ := h
  refine ⟨by simp [h1], ?_⟩
  simpa using h2

theorem Sim_extend {s : St} {sc : ScanSt} {e : Entry} (extra : Str) (h : Sim s sc) (hl : sc.last = some e) :
    Sim (appendTop extra s) { sc with last := some (e.extend extra) } := by
  obtain ⟨h1, h2⟩ := h
  rw [hl] at h2
  obtain ⟨f, fs, hst, hh, hk, hlen, hd⟩ := h2
  rcases s with ⟨r, st, sf⟩
  simp only at hst; subst hst
  refine ⟨h1, ?_⟩
  exact ⟨⟨⟨f.hdr.tag, f.hdr.value ++ extra, f.hdr.ptr⟩, f.kids⟩, fs, rfl,
    by simp [Entry.extend, hh], hk, hlen, hd⟩

theorem unparsable_sim (o : Opts) (s : St) (sc : ScanSt) (line : Str) (h : Sim s sc) :
    StepRel (unparsable o s line) (scanUnparsable o sc line) := by
  unfold unparsable scanUnparsable
  cases hl : sc.last with
  | none =>
    have h2 := h.2; rw [hl] at h2
    simp [h2.1, StepRel]
  | some e =>
    have h2 := h.2; rw [hl] at h2
    obtain ⟨f, fs, hst, -⟩ := h2
    cases hm : o.allowMultiLine
    · simp [StepRel]
    · simp only [hst, List.isEmpty_cons, Bool.not_false, Bool.and_self, if_true, StepRel]
      exact Sim_extend (LF :: line) h hl

theorem place_sim (o : Opts) (s1 : St) (sc1 : ScanSt) (pl : Line) (h' : Sim s1 sc1) :
    StepRel (place o s1 pl) (scanPlace o sc1 pl) := by
  unfold place scanPlace
  by_cases h0 : pl.level = 0
  · -- a new root record
    simp only [h0, if_true, StepRel]
    unfold ScanSt.emit
    cases hl : sc1.last with
    | none =>
      have h2 := h'.2; rw [hl] at h2
      have hst : s1 = ⟨[], [], s1.seenFam⟩ := by
        rcases s1 with ⟨r, st, sf⟩; simp_all
      simp only
      exact Sim_push (trimTop s1) 0 (hdrOf pl) sc1.done sc1.seenFam (by simp)
        (by rw [hst]; simp [trimTop, stListing, listingF, frameListing, h2.2.2]) (by simp [h'.1])
    | some e =>
      simp only
      have hl2 := (stListing_of_sim h' hl).1
      exact Sim_push (trimTop s1) 0 (hdrOf pl) _ sc1.seenFam (by simp) hl2 (by simp [h'.1])
  · simp only [h0, if_false]
    cases hl : sc1.last with
    | none =>
      have h2 := h'.2; rw [hl] at h2
      have hemp : s1.stack = [] := h2.1
      simp only [hemp, List.length_nil, ge_iff_le, Nat.zero_le, if_true, List.isEmpty_nil]
      cases hi : o.allowInvalidIndents <;> simp [StepRel]
    | some e =>
      have h2 := h'.2; rw [hl] at h2
      obtain ⟨f, fs, hst, hh, hk, hlen, hd⟩ := h2
      have hslen : s1.stack.length = e.level + 1 := by rw [hst]; simp [hlen]
      simp only [hslen]
      by_cases hdeep : pl.level > e.level + 1
      · have hge : pl.level - 1 ≥ e.level + 1 := by omega
        simp only [hge, if_true, hdeep]
        cases hi : o.allowInvalidIndents
        · simp [StepRel]
        · have hne : s1.stack.isEmpty = false := by rw [hst]; rfl
          simp only [hne, Bool.false_eq_true, if_false, if_true, StepRel]
          unfold ScanSt.emit
          simp only [hl]
          have hl2 := (stListing_of_sim h' hl).1
          have := Sim_push (trimTop s1) (e.level + 1) (hdrOf pl) _ sc1.seenFam
            (by simp [hslen]) hl2 (by simp [h'.1])
          rwa [closeTo_self _ _ (by simp [hslen])] at this
      · have hge : ¬ (pl.level - 1 ≥ e.level + 1) := by omega
        simp only [hge, if_false, hdeep, StepRel]
        unfold ScanSt.emit
        simp only [hl]
        have hl2 := (stListing_of_sim h' hl).1
        exact Sim_push (trimTop s1) pl.level (hdrOf pl) _ sc1.seenFam
          (by simp [hslen]; omega) hl2 (by simp [h'.1])

theorem step_sim (o : Opts) (s : St) (sc : ScanSt) (line : Str) (h : Sim s sc) :
    StepRel (step o s line) (scanStep o sc line) := by
  unfold step scanStep
  by_cases hline : line = []
  · -- blank line
    simp only [hline, if_true]
    cases hl : sc.last with
    | none =>
      have h2 := h.2; rw [hl] at h2
      simp only [h2.1, List.isEmpty_nil, Bool.not_true, Bool.and_false, Bool.false_eq_true, if_false, StepRel]
      exact h
    | some e =>
      have h2 := h.2; rw [hl] at h2
      obtain ⟨f, fs, hst, -⟩ := h2
      cases hm : o.allowMultiLine
      · simp only [Bool.false_and, Bool.false_eq_true, if_false, StepRel]
        exact h
      · simp only [hst, List.isEmpty_cons, Bool.not_false, Bool.and_self, if_true, StepRel]
        exact Sim_extend [LF] h hl
  · simp only [hline, if_false]
    cases hp : parseLine line with
    | none => exact unparsable_sim o s sc line h
    | some pl =>
      simp only
      have hsf : s.seenFam = sc.seenFam := h.1
      by_cases hrole : (isRoleTag pl.tag && !s.seenFam) = true
      · have hrole' : (isRoleTag pl.tag && !sc.seenFam) = true := by rw [← hsf]; exact hrole
        simp only [hrole, hrole', if_true]
        exact unparsable_sim o s sc line h
      · have hrole' : ¬ (isRoleTag pl.tag && !sc.seenFam) = true := by rw [← hsf]; exact hrole
        simp only [hrole, hrole']
        exact place_sim o _ _ pl (Sim_fam (pl.tag == tFAM) h)

/-- relation between the results of the two loops -/
def RunRel : Outcome ⊕ St → ScanOutcome ⊕ ScanSt → Prop
  | .inl out, .inl out' => out.listing = out'
  | .inr s, .inr sc => Sim s sc
  | _, _ => False

theorem run_sim (o : Opts) (s : St) (sc : ScanSt) (n : Nat) (ls : List Str) (h : Sim s sc) :
    RunRel (run o s n ls) (scanRun o sc n ls) := by
  induction ls generalizing s sc n with
  | nil => simpa [run, scanRun, RunRel] using h
  | cons l ls ih =>
    have hs := step_sim o s sc l h
    rw [run, scanRun]
    cases h1 : step o s l <;> cases h2 : scanStep o sc l <;> rw [h1, h2] at hs <;>
      simp only [StepRel] at hs
    · exact ih _ _ _ hs
    · simp [RunRel, Outcome.listing]
    · rename_i c c'; cases c; cases c'; simp [RunRel, Outcome.listing]

end Gedcom.Dec
