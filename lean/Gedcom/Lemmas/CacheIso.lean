/-
  C13 — views do not depend on how nodes are numbered: if `φ` maps the attached nodes of one
  document onto the nodes of another, preserving roots, tag, value, pointer and child lists,
  every view of the second is the `φ`-image of the view of the first.  This is what connects the
  heap of a long-lived document with the heap a fresh decode of its text allocates.
-/
import Gedcom.Lemmas.Cache
namespace Gedcom.Cache
open Gedcom

/-- attached = reachable from a root record -/
inductive Att (a : Abs) : Id → Prop
  | root {r : Id} : r ∈ a.roots → Att a r
  | kid {n c : Id} : Att a n → c ∈ a.kids n → Att a c

/-- `φ` embeds the part `D` of `a` (a set of nodes containing the roots and closed under children,
    e.g. the attached nodes) into `a'` -/
structure Iso (D : Id → Prop) (φ : Id → Id) (a a' : Abs) : Prop where
  droot : ∀ r, r ∈ a.roots → D r
  dkid : ∀ n c, D n → c ∈ a.kids n → D c
  roots : a'.roots = a.roots.map φ
  lt : ∀ n, D n → φ n < a'.heap.length
  tag : ∀ n, D n → a'.tag (φ n) = a.tag n
  value : ∀ n, D n → a'.value (φ n) = a.value n
  ptr : ∀ n, D n → a'.ptr (φ n) = a.ptr n
  kids : ∀ n, D n → a'.kids (φ n) = (a.kids n).map φ

theorem Att.lt {a : Abs} (w : AWF a) {n : Id} (h : Att a n) : n < a.heap.length := by
  induction h with
  | root hr => exact w.roots _ hr
  | kid _ hc _ => exact w.kids _ _ hc

/-- a well-formed document is its own renumbering -/
theorem Iso.refl {a : Abs} (w : AWF a) : Iso (Att a) id a a :=
  ⟨fun _ h => Att.root h, fun _ _ h hc => Att.kid h hc, by simp, fun _ h => h.lt w, fun _ _ => rfl,
   fun _ _ => rfl, fun _ _ => rfl, fun _ _ => by simp⟩

variable {D : Id → Prop} {φ : Id → Id} {a a' : Abs}

theorem specNWT_att (iso : Iso D φ a a') {n c : Id} {t : Str} (hn : D n) (hc : c ∈ specNWT a n t) : D c :=
  iso.dkid _ _ hn (List.mem_filter.mp hc).1

theorem specNWT_iso (iso : Iso D φ a a') {n : Id} (t : Str) (hn : D n) :
    specNWT a' (φ n) t = (specNWT a n t).map φ := by
  unfold specNWT
  rw [iso.kids n hn, List.filter_map]
  congr 1
  apply List.filter_congr
  intro c hc
  simp only [Function.comp, iso.tag c (iso.dkid _ _ hn hc)]

theorem specFamilies_iso (iso : Iso D φ a a') : specFamilies a' = (specFamilies a).map φ := by
  unfold specFamilies
  rw [iso.roots, List.filter_map]
  congr 1
  apply List.filter_congr
  intro r hr
  simp only [Function.comp, iso.tag r (iso.droot _ hr)]

theorem specIndividuals_iso (iso : Iso D φ a a') : specIndividuals a' = (specIndividuals a).map φ := by
  unfold specIndividuals
  rw [iso.roots, List.filter_map]
  congr 1
  apply List.filter_congr
  intro r hr
  simp only [Function.comp, iso.tag r (iso.droot _ hr)]

theorem foldl_ptr_iso (iso : Iso D φ a a') (p : Str) :
    ∀ (l : List Id) (acc : Option Id), (∀ r ∈ l, r ∈ a.roots) →
      (l.map φ).foldl (fun acc r => if a'.ptr r == p then some r else acc) (acc.map φ) =
      (l.foldl (fun acc r => if a.ptr r == p then some r else acc) acc).map φ
  | [], _, _ => rfl
  | r :: rs, acc, h => by
    simp only [List.map_cons, List.foldl_cons]
    rw [iso.ptr r (iso.droot _ (h r List.mem_cons_self))]
    have : (if (a.ptr r == p) = true then some (φ r) else Option.map φ acc) =
        Option.map φ (if (a.ptr r == p) = true then some r else acc) := by
      split <;> rfl
    rw [this]
    exact foldl_ptr_iso iso p rs _ fun x hx => h x (List.mem_cons_of_mem _ hx)

theorem specByPtr_iso (iso : Iso D φ a a') (p : Str) : specByPtr a' p = (specByPtr a p).map φ := by
  unfold specByPtr
  split
  · rfl
  · rw [iso.roots]
    exact foldl_ptr_iso iso p a.roots none fun _ h => h

theorem specIndividualOf_root {h j : Id} (e : specIndividualOf a h = some j) : j ∈ a.roots := by
  unfold specIndividualOf at e
  split at e
  · rename_i r hr
    split at e
    · have : r = j := by simpa using e
      exact this ▸ specByPtr_mem hr
    · simp at e
  · simp at e

theorem specIndividualOf_iso (iso : Iso D φ a a') {h : Id} (hh : D h) :
    specIndividualOf a' (φ h) = (specIndividualOf a h).map φ := by
  unfold specIndividualOf
  rw [iso.value h hh, specByPtr_iso iso]
  cases hs : specByPtr a (innerPtr (a.value h)) with
  | none => rfl
  | some r =>
    simp only [Option.map_some]
    rw [iso.tag r (iso.droot _ (specByPtr_mem hs))]
    split <;> rfl

theorem specIsInd_iso (iso : Iso D φ a a') {h : Option Id} {i : Id}
    (hh : ∀ x, h = some x → D x) (hi : D i) :
    specIsInd a' (h.map φ) (φ i) = specIsInd a h i := by
  cases h with
  | none => rfl
  | some x =>
    simp only [Option.map_some, specIsInd]
    rw [specIndividualOf_iso iso (hh x rfl)]
    cases hj : specIndividualOf a x with
    | none => rfl
    | some j =>
      simp only [Option.map_some]
      rw [iso.ptr j (iso.droot _ (specIndividualOf_root hj)), iso.ptr i hi]

theorem specHusband_iso (iso : Iso D φ a a') {f : Id} (hf : D f) :
    specHusband a' (φ f) = (specHusband a f).map φ := by
  unfold specHusband
  rw [specNWT_iso iso _ hf, List.head?_map]

theorem specWife_iso (iso : Iso D φ a a') {f : Id} (hf : D f) :
    specWife a' (φ f) = (specWife a f).map φ := by
  unfold specWife
  rw [specNWT_iso iso _ hf, List.head?_map]

theorem specHusband_att (iso : Iso D φ a a') {f x : Id} (hf : D f) (h : specHusband a f = some x) : D x :=
  specNWT_att iso hf (List.mem_of_head? h)

theorem specWife_att (iso : Iso D φ a a') {f x : Id} (hf : D f) (h : specWife a f = some x) : D x :=
  specNWT_att iso hf (List.mem_of_head? h)

theorem specHasChild_iso (iso : Iso D φ a a') {f i : Id} (hf : D f) (hi : D i) :
    specHasChild a' (φ f) (φ i) = specHasChild a f i := by
  unfold specHasChild
  rw [specNWT_iso iso _ hf, List.any_map, iso.ptr i hi]
  apply any_congr_mem
  intro c hc
  simp only [Function.comp, iso.value c (specNWT_att iso hf hc)]

theorem specMember_iso (iso : Iso D φ a a') {f i : Id} (hf : D f) (hi : D i) :
    specMember a' (φ i) (φ f) = specMember a i f := by
  unfold specMember
  rw [specHasChild_iso iso hf hi, specHusband_iso iso hf, specWife_iso iso hf,
      specIsInd_iso iso (fun x hx => specHusband_att iso hf hx) hi,
      specIsInd_iso iso (fun x hx => specWife_att iso hf hx) hi]

theorem specIndFamilies_iso (iso : Iso D φ a a') {i : Id} (hi : D i) :
    specIndFamilies a' (φ i) = (specIndFamilies a i).map φ := by
  unfold specIndFamilies
  rw [specFamilies_iso iso, List.filter_map]
  congr 1
  apply List.filter_congr
  intro f hf
  have : f ∈ a.roots := (List.mem_filter.mp hf).1
  simp only [Function.comp, specMember_iso iso (iso.droot _ this) hi]

theorem specSpousesOf_iso (iso : Iso D φ a a') {f i : Id} (hf : D f) (hi : D i) :
    specSpousesOf a' (φ i) (φ f) = (specSpousesOf a i f).map (Option.map φ) := by
  rw [specSpousesOf_eq, specSpousesOf_eq, specHusband_iso iso hf, specWife_iso iso hf]
  cases hh : specHusband a f with
  | none => rfl
  | some x =>
    cases hw : specWife a f with
    | none => rfl
    | some y =>
      have ax := specHusband_att iso hf hh
      have ay := specWife_att iso hf hw
      simp only [Option.map_some, specSpousesHW]
      have e1 := specIsInd_iso iso (h := some x) (fun z hz => by cases hz; exact ax) hi
      have e2 := specIsInd_iso iso (h := some y) (fun z hz => by cases hz; exact ay) hi
      simp only [Option.map_some] at e1 e2
      rw [e1, e2, specIndividualOf_iso iso ax, specIndividualOf_iso iso ay]
      simp only [List.map_append]
      congr 1 <;> split <;> rfl

theorem specSpouses_iso (iso : Iso D φ a a') {i : Id} (hi : D i) :
    specSpouses a' (φ i) = (specSpouses a i).map (Option.map φ) := by
  unfold specSpouses
  rw [specFamilies_iso iso, List.flatMap_map, List.map_flatMap]
  apply flatMap_congr_mem
  intro f hf
  have : f ∈ a.roots := (List.mem_filter.mp hf).1
  exact specSpousesOf_iso iso (iso.droot _ this) hi

theorem specIndFamilies_att (iso : Iso D φ a a') {i f : Id} (h : f ∈ specIndFamilies a i) : D f :=
  iso.droot _ (List.mem_filter.mp (List.mem_filter.mp h).1).1

theorem specParents_iso (iso : Iso D φ a a') {i : Id} (hi : D i) :
    specParents a' (φ i) = (specParents a i).map φ := by
  unfold specParents
  rw [specIndFamilies_iso iso hi, List.filter_map]
  congr 1
  apply List.filter_congr
  intro f hf
  simp only [Function.comp, specHasChild_iso iso (specIndFamilies_att iso hf) hi]

theorem specChildren_iso (iso : Iso D φ a a') {i : Id} (hi : D i) :
    specChildren a' (φ i) = (specChildren a i).map φ := by
  unfold specChildren specFamChildren
  rw [specIndFamilies_iso iso hi, List.filter_map, List.flatMap_map, List.map_flatMap]
  have e : List.filter ((fun f => !specHasChild a' f (φ i)) ∘ φ) (specIndFamilies a i) =
      List.filter (fun f => !specHasChild a f i) (specIndFamilies a i) := by
    apply List.filter_congr
    intro f hf
    simp only [Function.comp, specHasChild_iso iso (specIndFamilies_att iso hf) hi]
  rw [e]
  apply flatMap_congr_mem
  intro f hf
  exact specNWT_iso iso _ (specIndFamilies_att iso (List.mem_filter.mp hf).1)

theorem specAllEvents_iso (iso : Iso D φ a a') {n : Id} (hn : D n) :
    specAllEvents a' (φ n) = (specAllEvents a n).map φ := by
  unfold specAllEvents
  rw [iso.kids n hn, List.filter_map]
  congr 1
  apply List.filter_congr
  intro c hc
  simp only [Function.comp, iso.tag c (iso.dkid _ _ hn hc)]

/-- **Every view is invariant under renumbering.** -/
theorem specView_iso (iso : Iso D φ a a') (v : View) (hs : ∀ n, v.subject = some n → D n) :
    specView a' (v.map φ) = (specView a v).map φ := by
  cases v with
  | nodesWithTag n t =>
    simp only [View.map, specView, Obs.map, specNWT_iso iso t (hs n rfl), List.map_map]
    rfl
  | individuals => simp only [View.map, specView, Obs.map, specIndividuals_iso iso, List.map_map]; rfl
  | families => simp only [View.map, specView, Obs.map, specFamilies_iso iso, List.map_map]; rfl
  | byPointer p => simp only [View.map, specView, Obs.map, specByPtr_iso iso, List.map_cons, List.map_nil]
  | indFamilies i =>
    simp only [View.map, specView, Obs.map, specIndFamilies_iso iso (hs i rfl), List.map_map]; rfl
  | spouses i => simp only [View.map, specView, Obs.map, specSpouses_iso iso (hs i rfl)]
  | parents i =>
    simp only [View.map, specView, Obs.map, specParents_iso iso (hs i rfl), List.map_map]; rfl
  | children i =>
    simp only [View.map, specView, Obs.map, specChildren_iso iso (hs i rfl), List.map_map]; rfl
  | husband f =>
    simp only [View.map, specView, Obs.map, specHusband_iso iso (hs f rfl), List.map_cons, List.map_nil]
  | wife f =>
    simp only [View.map, specView, Obs.map, specWife_iso iso (hs f rfl), List.map_cons, List.map_nil]
  | famChildren f =>
    simp only [View.map, specView, Obs.map, specFamChildren, specNWT_iso iso _ (hs f rfl), List.map_map]; rfl
  | names i =>
    simp only [View.map, specView, Obs.map, specNWT_iso iso _ (hs i rfl), List.map_map]; rfl
  | eventsOf i t =>
    simp only [View.map, specView, Obs.map, specNWT_iso iso _ (hs i rfl), List.map_map]; rfl
  | allEvents i =>
    simp only [View.map, specView, Obs.map, specAllEvents_iso iso (hs i rfl), List.map_map]; rfl

/-- a view that may be asked of `a` may be asked of `a'` -/
theorem ok_iso (iso : Iso D φ a a') (v : View) (hs : ∀ n, v.subject = some n → D n)
    (hok : v.ok a = true) : (v.map φ).ok a' = true := by
  have indi : ∀ i, D i → isIndi a i = true → isIndi a' (φ i) = true := by
    intro i hi h
    have ⟨h1, h2⟩ := isIndi_iff.mp h
    exact isIndi_iff.mpr ⟨iso.roots ▸ List.mem_map_of_mem h1, (iso.tag i hi).trans h2⟩
  have fam : ∀ f, D f → isFam a f = true → isFam a' (φ f) = true := by
    intro f hf h
    exact isFam_iff.mpr ((iso.tag f hf).trans (isFam_iff.mp h))
  cases v with
  | nodesWithTag n t => simpa [View.map, View.ok] using iso.lt n (hs n rfl)
  | individuals => rfl
  | families => rfl
  | byPointer p => rfl
  | indFamilies i => exact indi i (hs i rfl) hok
  | spouses i => exact indi i (hs i rfl) hok
  | parents i => exact indi i (hs i rfl) hok
  | children i => exact indi i (hs i rfl) hok
  | husband f => exact fam f (hs f rfl) hok
  | wife f => exact fam f (hs f rfl) hok
  | famChildren f => exact fam f (hs f rfl) hok
  | names i => exact indi i (hs i rfl) hok
  | eventsOf i t =>
    simp only [View.ok, View.map, Bool.and_eq_true] at hok ⊢
    exact ⟨indi i (hs i rfl) hok.1, hok.2⟩
  | allEvents i => exact indi i (hs i rfl) hok

end Gedcom.Cache
