/-
  The backtracking matcher `Regex.run` decides the declarative matching relation of the fragment:
  it answers `some _` exactly when some prefix of the input matches (soundness and completeness).
  Which of several matches is reported (leftmost-first priority, the submatches) is not covered
  here; that part is validated against Go's engine by the `regex` stream of C02.
-/
import Gedcom.Model.Regex
namespace Gedcom.Regex
open Gedcom

/-- `Matches re s r`: `re` matches a prefix of `s` and `r` is what is left (`$` needs `r = []`) -/
inductive Matches : Re → Str → Str → Prop
  | lit_nil (s : Str) : Matches (.lit []) s s
  | lit_cons (n : Nat) (ns : List Nat) (b : UInt8) (s r : Str) :
      b.toNat = n → Matches (.lit ns) s r → Matches (.lit (n :: ns)) (b :: s) r
  | one (c : Cls) (b : UInt8) (r : Str) : c.test b = true → Matches (.one c) (b :: r) r
  | star_nil (c : Cls) (s : Str) : Matches (.star c) s s
  | star_cons (c : Cls) (b : UInt8) (s r : Str) :
      c.test b = true → Matches (.star c) s r → Matches (.star c) (b :: s) r
  | plus (c : Cls) (b : UInt8) (s r : Str) :
      c.test b = true → Matches (.star c) s r → Matches (.plus c) (b :: s) r
  | quest_none (a : Re) (s : Str) : Matches (.quest a) s s
  | quest_some (a : Re) (s r : Str) : Matches a s r → Matches (.quest a) s r
  | seq (a b : Re) (s m r : Str) : Matches a s m → Matches b m r → Matches (.seq a b) s r
  | cap (i : Nat) (a : Re) (s r : Str) : Matches a s r → Matches (.cap i a) s r
  | eol : Matches .eol [] []

/-! ## soundness -/

theorem litG_sound : ∀ (bs : List Nat) (acc s acc' s' : Str), litG bs acc s = some (acc', s') →
    Matches (.lit bs) s s'
  | [], acc, s, acc', s', h => by
    simp only [litG, Option.some.injEq, Prod.mk.injEq] at h
    rw [← h.2]; exact .lit_nil s
  | n :: ns, acc, [], acc', s', h => by simp [litG] at h
  | n :: ns, acc, b :: r, acc', s', h => by
    simp only [litG] at h
    split at h
    · rename_i hb
      exact .lit_cons n ns b r s' hb (litG_sound ns (b :: acc) r acc' s' h)
    · simp at h

theorem starG_sound (c : Cls) (k : Str → Str → Option Caps) :
    ∀ (s acc : Str) (x : Caps), starG c.test acc s k = some x →
      ∃ r acc', Matches (.star c) s r ∧ k acc' r = some x := by
  intro s
  induction s with
  | nil => intro acc x h; exact ⟨[], acc, .star_nil c [], by simpa [starG] using h⟩
  | cons b rest ih =>
    intro acc x h
    simp only [starG] at h
    split at h
    · rename_i hb
      split at h
      · rename_i y hy
        simp only [Option.some.injEq] at h
        subst h
        obtain ⟨r, acc', hm, hk⟩ := ih (b :: acc) y hy
        exact ⟨r, acc', .star_cons c b rest r hb hm, hk⟩
      · exact ⟨b :: rest, acc, .star_nil c _, h⟩
    · exact ⟨b :: rest, acc, .star_nil c _, h⟩

/-- whatever `run` reports comes from a match of a prefix, continued by `k` on the rest -/
theorem run_sound : ∀ (re : Re) (acc s : Str) (c : Caps) (k : Str → Str → Caps → Option Caps) (x : Caps),
    run re acc s c k = some x → ∃ r acc' c', Matches re s r ∧ k acc' r c' = some x
  | .lit bs, acc, s, c, k, x, h => by
    simp only [run] at h
    split at h
    · rename_i acc' s' hl
      exact ⟨s', acc', c, litG_sound bs acc s acc' s' hl, h⟩
    · simp at h
  | .one cl, acc, s, c, k, x, h => by
    simp only [run] at h
    split at h
    · rename_i b r
      split at h
      · rename_i hb; exact ⟨r, b :: acc, c, .one cl b r hb, h⟩
      · simp at h
    · simp at h
  | .star cl, acc, s, c, k, x, h => by
    simp only [run] at h
    obtain ⟨r, acc', hm, hk⟩ := starG_sound cl _ s acc x h
    exact ⟨r, acc', c, hm, hk⟩
  | .plus cl, acc, s, c, k, x, h => by
    simp only [run] at h
    split at h
    · rename_i b r
      split at h
      · rename_i hb
        obtain ⟨r', acc', hm, hk⟩ := starG_sound cl _ r (b :: acc) x h
        exact ⟨r', acc', c, .plus cl b r r' hb hm, hk⟩
      · simp at h
    · simp at h
  | .quest a, acc, s, c, k, x, h => by
    simp only [run] at h
    split at h
    · rename_i y hy
      simp only [Option.some.injEq] at h
      subst h
      obtain ⟨r, acc', c', hm, hk⟩ := run_sound a acc s c k y hy
      exact ⟨r, acc', c', .quest_some a s r hm, hk⟩
    · exact ⟨s, acc, c, .quest_none a s, h⟩
  | .seq a b, acc, s, c, k, x, h => by
    simp only [run] at h
    obtain ⟨m, acc1, c1, hm1, hk1⟩ := run_sound a acc s c _ x h
    obtain ⟨r, acc2, c2, hm2, hk2⟩ := run_sound b acc1 m c1 k x hk1
    exact ⟨r, acc2, c2, .seq a b s m r hm1 hm2, hk2⟩
  | .cap i a, acc, s, c, k, x, h => by
    simp only [run] at h
    obtain ⟨r, acc', c', hm, hk⟩ := run_sound a [] s c _ x h
    exact ⟨r, _, _, .cap i a s r hm, hk⟩
  | .eol, acc, s, c, k, x, h => by
    simp only [run] at h
    split at h
    · rename_i hs; subst hs; exact ⟨[], acc, c, .eol, h⟩
    · simp at h
  | .unsupported, acc, s, c, k, x, h => by simp [run] at h

/-! ## completeness -/

theorem litG_complete : ∀ (bs : List Nat) (s r : Str), Matches (.lit bs) s r →
    ∀ acc, ∃ acc', litG bs acc s = some (acc', r) := by
  intro bs s r h
  generalize hre : Re.lit bs = re at h
  induction h generalizing bs with
  | lit_nil s => intro acc; cases hre; exact ⟨acc, rfl⟩
  | lit_cons n ns b s r hb _ ih =>
    intro acc
    cases hre
    obtain ⟨acc', h'⟩ := ih ns rfl (b :: acc)
    exact ⟨acc', by simp [litG, hb, h']⟩
  | _ => cases hre

theorem starG_complete (c : Cls) (s r : Str) (h : Matches (.star c) s r) :
    ∀ (acc : Str) (k : Str → Str → Option Caps), (∀ acc', (k acc' r).isSome = true) →
      (starG c.test acc s k).isSome = true := by
  generalize hre : Re.star c = re at h
  induction h with
  | star_nil c' s =>
    intro acc k hk
    cases hre
    cases s with
    | nil => simpa [starG] using hk acc
    | cons b rest =>
      simp only [starG]
      split
      · split
        · rfl
        · exact hk acc
      · exact hk acc
  | star_cons c' b s r hb _ ih =>
    intro acc k hk
    cases hre
    simp only [starG, hb, if_true]
    have := ih rfl (b :: acc) k hk
    cases hx : starG c.test (b :: acc) s k with
    | none => rw [hx] at this; simp at this
    | some y => rfl
  | _ => cases hre

/-- if some prefix matches and the continuation accepts what is left, `run` reports a match -/
theorem run_complete (re : Re) (s r : Str) (h : Matches re s r) :
    ∀ (acc : Str) (c : Caps) (k : Str → Str → Caps → Option Caps),
      (∀ acc' c', (k acc' r c').isSome = true) → (run re acc s c k).isSome = true := by
  induction h with
  | lit_nil s => intro acc c k hk; simpa [run, litG] using hk acc c
  | lit_cons n ns b s r hb hm _ =>
    intro acc c k hk
    obtain ⟨acc', h'⟩ := litG_complete (n :: ns) (b :: s) r (.lit_cons n ns b s r hb hm) acc
    simp only [run, h']
    exact hk acc' c
  | one cl b r hb => intro acc c k hk; simpa [run, hb] using hk (b :: acc) c
  | star_nil cl s =>
    intro acc c k hk
    simp only [run]
    exact starG_complete cl s s (.star_nil cl s) acc _ (fun acc' => hk acc' c)
  | star_cons cl b s r hb hm _ =>
    intro acc c k hk
    simp only [run]
    exact starG_complete cl (b :: s) r (.star_cons cl b s r hb hm) acc _ (fun acc' => hk acc' c)
  | plus cl b s r hb hm _ =>
    intro acc c k hk
    simp only [run, hb, if_true]
    exact starG_complete cl s r hm (b :: acc) _ (fun acc' => hk acc' c)
  | quest_none a s =>
    intro acc c k hk
    simp only [run]
    split
    · rfl
    · exact hk acc c
  | quest_some a s r _ ih =>
    intro acc c k hk
    simp only [run]
    have := ih acc c k hk
    cases hx : run a acc s c k with
    | none => rw [hx] at this; simp at this
    | some y => rfl
  | seq a b s m r _ _ iha ihb =>
    intro acc c k hk
    simp only [run]
    exact iha acc c _ (fun acc' c' => ihb acc' c' k hk)
  | cap i a s r _ ih =>
    intro acc c k hk
    simp only [run]
    exact ih [] c _ (fun acc' c' => hk _ _)
  | eol => intro acc c k hk; simpa [run] using hk acc c

/-- **The matcher decides the fragment.** `find` answers `some _` exactly when the pattern
    matches some prefix of the text (for a pattern that ends in `$`: the whole text). -/
theorem find_isSome_iff (re : Re) (s : Str) : (find re s).isSome = true ↔ ∃ r, Matches re s r := by
  constructor
  · intro h
    cases hx : find re s with
    | none => rw [hx] at h; simp at h
    | some x =>
      obtain ⟨r, _, _, hm, _⟩ := run_sound re [] s (fun _ => []) _ x hx
      exact ⟨r, hm⟩
  · rintro ⟨r, hm⟩
    exact run_complete re s r hm [] (fun _ => []) _ (fun _ _ => rfl)

end Gedcom.Regex
