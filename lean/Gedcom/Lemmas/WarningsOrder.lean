/- Helper lemmas for C20 `order_independent` (core Lean only). -/
import Gedcom.Lemmas.Warnings
namespace Gedcom.Warn
open Gedcom

/-! ### reordering records and CHIL lines -/

/-- the same family up to the order of its CHIL lines -/
def FamEquiv (f f' : Fam) : Prop :=
  f.ptr = f'.ptr ∧ f.husb = f'.husb ∧ f.wife = f'.wife ∧ f.events = f'.events ∧ f.chil.Perm f'.chil

inductive RecEquiv : Rec → Rec → Prop
  | indi (i : Indi) : RecEquiv (.indi i) (.indi i)
  | fam {f f' : Fam} : FamEquiv f f' → RecEquiv (.fam f) (.fam f')

inductive RecsEquiv : List Rec → List Rec → Prop
  | nil : RecsEquiv [] []
  | cons {r r' : Rec} {l l' : List Rec} : RecEquiv r r' → RecsEquiv l l' → RecsEquiv (r :: l) (r' :: l')

/-- `d'` is `d` with its records in another order and, inside each family, the CHIL lines in
    another order -/
def Reordered (d d' : Doc) : Prop := ∃ d1, d.Perm d1 ∧ RecsEquiv d1 d'

/-- the pointers of the individuals are pairwise distinct (decidable) -/
def PtrsNodup (d : Doc) : Prop := ((indis d).map (·.ptr)).Nodup

instance (d : Doc) : Decidable (PtrsNodup d) := by unfold PtrsNodup; exact inferInstance

theorem indis_recsEquiv {l l' : List Rec} (h : RecsEquiv l l') : indis l = indis l' := by
  induction h with
  | nil => rfl
  | cons hr _ ih =>
    cases hr with
    | indi i => simp only [indis, List.filterMap_cons] at ih ⊢; rw [ih]
    | fam hf => simp only [indis, List.filterMap_cons] at ih ⊢; exact ih

theorem find_ptr_iff : ∀ {l : List Indi}, (l.map (·.ptr)).Nodup → ∀ {p : Nat} {i : Indi},
    (l.find? (fun i => i.ptr == p) = some i ↔ i ∈ l ∧ i.ptr = p) := by
  intro l
  induction l with
  | nil => intro _ p i; simp
  | cons x l ih =>
    intro hn p i
    simp only [List.map_cons, List.nodup_cons, List.mem_map, not_exists, not_and] at hn
    by_cases hx : x.ptr = p
    · have : (x.ptr == p) = true := by simp [hx]
      simp only [List.find?_cons, this, Option.some.injEq, List.mem_cons]
      constructor
      · rintro rfl; exact ⟨Or.inl rfl, hx⟩
      · rintro ⟨rfl | hi, hp⟩
        · rfl
        · exact absurd (hp.trans hx.symm) (hn.1 i hi)
    · have : (x.ptr == p) = false := by simp [hx]
      simp only [List.find?_cons, this, List.mem_cons]
      rw [ih hn.2]
      constructor
      · rintro ⟨hi, hp⟩; exact ⟨Or.inr hi, hp⟩
      · rintro ⟨rfl | hi, hp⟩
        · exact absurd hp hx
        · exact ⟨hi, hp⟩

/-- with distinct pointers, reordering does not change what a pointer resolves to -/
theorem indiOf_reordered {d d' : Doc} (hn : PtrsNodup d) (h : Reordered d d') (p : Nat) :
    indiOf d' p = indiOf d p := by
  obtain ⟨d1, hp, he⟩ := h
  have hperm : (indis d).Perm (indis d') := by
    rw [← indis_recsEquiv he]
    exact hp.filterMap _
  have hn' : ((indis d').map (·.ptr)).Nodup := (hperm.map _).nodup_iff.mp hn
  apply Option.ext
  intro i
  unfold indiOf
  rw [find_ptr_iff hn', find_ptr_iff hn, hperm.mem_iff]

/-! ### the checks only look at the document through `indiOf` -/

theorem marriedFrom_congr {d d' : Doc} (h : ∀ p, indiOf d' p = indiOf d p) (f : Fam) :
    ∀ (evs : List Ev) (k : Nat), marriedFrom d' f k evs = marriedFrom d f k evs := by
  intro evs
  induction evs with
  | nil => intro k; rfl
  | cons e rest ih =>
    intro k
    simp only [marriedFrom, marriedAt, ih]
    cases f.husb <;> cases f.wife <;> simp [h]

theorem recWarnings_congr {d d' : Doc} (h : ∀ p, indiOf d' p = indiOf d p) (now : Date) (r : Rec) :
    recWarnings d' now r = recWarnings d now r := by
  cases r with
  | indi i => rfl
  | fam f =>
    have h1 : childrenBornBeforeParents d' f = childrenBornBeforeParents d f := by
      unfold childrenBornBeforeParents childrenBornBeforeParentsRaw
      cases f.husb <;> cases f.wife <;> simp [h]
    have h2 : siblingsBornTooClose d' f = siblingsBornTooClose d f := by
      have hh : ∀ a b, siblingHit d' a b = siblingHit d a b := by
        intro a b; simp only [siblingHit, h]
      have hs : siblingStep d' = siblingStep d := by
        funext fam c1 st c2; simp only [siblingStep, hh]
      unfold siblingsBornTooClose siblingsLoop
      rw [hs]
    have h3 : marriedOutOfRange d' f = marriedOutOfRange d f := marriedFrom_congr h f _ _
    have h4 : inverseSpouses d' f = inverseSpouses d f := by
      unfold inverseSpouses
      cases f.husb <;> cases f.wife <;> simp [h]
    simp only [recWarnings, famOwn, h1, h2, h3, h4]

/-! ### a family with its CHIL lines permuted -/

/-- put the smaller pointer first -/
def sortPair (p : Nat × Nat) : Nat × Nat := if p.1 ≤ p.2 then p else (p.2, p.1)

/-- what a warning says about people: a pair warning without its family context (which family
    reports a pair that is listed in several depends on the order of the records) and with the
    smaller sibling pointer first; other warnings unchanged -/
def norm : Warning → Warning
  | .siblingsBornTooClose _ a b => if a ≤ b then .siblingsBornTooClose 0 a b else .siblingsBornTooClose 0 b a
  | .childBornBeforeParent _ p c => .childBornBeforeParent 0 p c
  | w => w

theorem norm_sib (f : Nat) (p : Nat × Nat) :
    norm (.siblingsBornTooClose f p.1 p.2) = .siblingsBornTooClose 0 (sortPair p).1 (sortPair p).2 := by
  simp only [norm, sortPair]
  by_cases h : p.1 ≤ p.2 <;> simp [h]

theorem sortPair_eq_iff {p q : Nat × Nat} : sortPair p = sortPair q ↔ symPair p q := by
  obtain ⟨a, b⟩ := p
  obtain ⟨c, e⟩ := q
  unfold sortPair symPair
  simp only
  constructor
  · intro h
    split at h <;> split at h <;> simp only [Prod.mk.injEq] at h <;> omega
  · intro h
    split <;> split <;> simp only [Prod.mk.injEq] <;> omega

theorem norm_kind (w : Warning) : (norm w).kind = w.kind := by
  cases w <;> simp only [norm]
  case siblingsBornTooClose f a b => by_cases h : a ≤ b <;> simp [h, Warning.kind]
  all_goals rfl

def isPair (w : Warning) : Bool := w.kind == .cbbp || w.kind == .sib

theorem isPair_norm (w : Warning) : isPair (norm w) = isPair w := by simp [isPair, norm_kind]

theorem norm_of_not_pair {w : Warning} (h : isPair w = false) : norm w = w := by
  cases w <;> simp [norm, isPair, Warning.kind] at h ⊢

/-- on pair warnings `norm` forgets exactly what `samePair` ignores -/
theorem samePair_of_norm_eq {w w' : Warning} (h1 : isPair w = true) (h : norm w = norm w') : samePair w w' := by
  cases w <;> simp [isPair, Warning.kind] at h1
  case childBornBeforeParent f p c =>
    cases w' <;> simp only [norm] at h
    case childBornBeforeParent f' p' c' =>
      simp only [Warning.childBornBeforeParent.injEq] at h; exact ⟨h.2.1, h.2.2⟩
    case siblingsBornTooClose f' a b => split at h <;> cases h
    all_goals cases h
  case siblingsBornTooClose f a b =>
    cases w' <;> simp only [norm] at h
    case siblingsBornTooClose f' a' b' =>
      simp only [samePair]
      by_cases h1 : a ≤ b <;> by_cases h2 : a' ≤ b' <;> simp only [h1, h2, if_true, if_false, Warning.siblingsBornTooClose.injEq] at h <;> omega
    case childBornBeforeParent f' p c => split at h <;> cases h
    all_goals (split at h <;> cases h)

theorem norm_eq_of_samePair {w w' : Warning} (h : samePair w w') : norm w = norm w' := by
  cases w <;> cases w' <;> simp only [samePair] at h
  case childBornBeforeParent.childBornBeforeParent f p c f' p' c' =>
    obtain ⟨rfl, rfl⟩ := h; rfl
  case siblingsBornTooClose.siblingsBornTooClose f a b f' a' b' =>
    simp only [norm]
    rcases h with ⟨rfl, rfl⟩ | ⟨rfl, rfl⟩
    · rfl
    · by_cases h1 : a ≤ b <;> by_cases h2 : b ≤ a <;> simp only [h1, h2, if_true, if_false, Warning.siblingsBornTooClose.injEq] <;> first | omega | (refine ⟨trivial, ?_, ?_⟩ <;> omega)

/-! ### `oncePerPair` and reordering -/

theorem opp_filter_other : ∀ (ws : List Warning) (pc sb : List (Nat × Nat)),
    (oncePerPairGo ws pc sb).filter (fun w => !isPair w) = ws.filter (fun w => !isPair w) := by
  intro ws
  induction ws with
  | nil => intro pc sb; rfl
  | cons x ws ih =>
    intro pc sb
    cases x <;> simp only [oncePerPairGo]
    case childBornBeforeParent f p c =>
      have hp : (!isPair (.childBornBeforeParent f p c)) = false := by simp [isPair, Warning.kind]
      split
      · rw [ih, List.filter_cons, hp]; simp
      · rw [List.filter_cons, List.filter_cons, hp, ih]
    case siblingsBornTooClose f a b =>
      have hp : (!isPair (.siblingsBornTooClose f a b)) = false := by simp [isPair, Warning.kind]
      split
      · rw [ih, List.filter_cons, hp]; simp
      · rw [List.filter_cons, List.filter_cons, hp, ih]
    all_goals
      rw [List.filter_cons, List.filter_cons, ih]

theorem opp_pairs_nodup (ws : List Warning) :
    (((oncePerPair ws).filter isPair).map norm).Nodup := by
  rw [List.nodup_iff_pairwise_ne, List.pairwise_map]
  have h := ((opp_once ws [] []).1).filter isPair
  -- `Pairwise.filter` keeps the relation; pair warnings with equal `norm` are the same pair
  refine List.Pairwise.imp_of_mem ?_ h
  intro a b ha _ hne e
  exact hne (samePair_of_norm_eq (List.mem_filter.mp ha).2 e)

theorem mem_opp_pairs (ws : List Warning) (x : Warning) :
    x ∈ ((oncePerPair ws).filter isPair).map norm ↔ x ∈ (ws.filter isPair).map norm := by
  simp only [List.mem_map, List.mem_filter]
  constructor
  · rintro ⟨w, ⟨hw, hp⟩, rfl⟩
    exact ⟨w, ⟨(oncePerPair_sublist ws).subset hw, hp⟩, rfl⟩
  · rintro ⟨w, ⟨hw, hp⟩, rfl⟩
    cases w <;> simp [isPair, Warning.kind] at hp
    case childBornBeforeParent f p c =>
      obtain ⟨f', hf'⟩ := opp_cbbp_kept ws [] [] (by simp) ⟨f, hw⟩
      exact ⟨_, ⟨hf', by simp [isPair, Warning.kind]⟩, by simp [norm]⟩
    case siblingsBornTooClose f a b =>
      obtain ⟨f', hf'⟩ := opp_sib_kept ws [] [] (by simp [pairsHas]) ⟨f, hw⟩
      rcases hf' with hf' | hf'
      · exact ⟨_, ⟨hf', by simp [isPair, Warning.kind]⟩, norm_eq_of_samePair (Or.inl ⟨rfl, rfl⟩)⟩
      · exact ⟨_, ⟨hf', by simp [isPair, Warning.kind]⟩, norm_eq_of_samePair (Or.inr ⟨rfl, rfl⟩)⟩

theorem filter_map_norm (p : Warning → Bool) (hp : ∀ w, p (norm w) = p w) (ws : List Warning) :
    (ws.filter p).map norm = (ws.map norm).filter p := by
  induction ws with
  | nil => rfl
  | cons w ws ih =>
    simp only [List.filter_cons, List.map_cons, hp]
    split <;> simp [ih]

/-- `oncePerPair` commutes with reordering, up to `norm` -/
theorem opp_perm {ws ws' : List Warning} (h : (ws.map norm).Perm (ws'.map norm)) :
    ((oncePerPair ws).map norm).Perm ((oncePerPair ws').map norm) := by
  have split : ∀ l : List Warning, (l.map norm).Perm
      ((l.filter isPair).map norm ++ (l.filter (fun w => !isPair w)).map norm) := by
    intro l
    exact ((List.filter_append_perm isPair l).symm).map norm |>.trans (by rw [List.map_append])
  refine (split _).trans (List.Perm.trans ?_ (split _).symm)
  refine List.Perm.append ?_ ?_
  · rw [List.perm_ext_iff_of_nodup (opp_pairs_nodup ws) (opp_pairs_nodup ws')]
    intro x
    rw [mem_opp_pairs, mem_opp_pairs, filter_map_norm isPair isPair_norm, filter_map_norm isPair isPair_norm]
    exact (h.filter isPair).mem_iff
  · unfold oncePerPair
    rw [opp_filter_other, opp_filter_other,
      filter_map_norm (fun w => !isPair w) (fun w => by simp [isPair_norm]),
      filter_map_norm (fun w => !isPair w) (fun w => by simp [isPair_norm])]
    exact h.filter _

/-- which normalised pairs the sibling loop reports only depends on the *set* of children -/
theorem mem_sorted_pairs (d : Doc) (f : Fam) (x : Nat × Nat) :
    x ∈ (siblingsLoop d f).1.map sortPair ↔
      ∃ a b, a ∈ f.chil ∧ b ∈ f.chil ∧ siblingHit d a b = true ∧ sortPair (a, b) = x := by
  have inv := sibInv d f
  simp only [List.mem_map]
  constructor
  · rintro ⟨p, hp, rfl⟩
    obtain ⟨hm, hh⟩ := inv.sound p hp
    obtain ⟨a, b⟩ := p
    obtain ⟨ha, hb⟩ := mem_chilPairs.mp hm
    exact ⟨a, b, ha, hb, hh, rfl⟩
  · rintro ⟨a, b, ha, hb, hh, rfl⟩
    obtain ⟨q, hq, hs⟩ := pairsHas_iff.mp (inv.complete (a, b) (mem_chilPairs.mpr ⟨ha, hb⟩) hh)
    exact ⟨q, hq, sortPair_eq_iff.mpr hs⟩

theorem sorted_pairs_nodup (d : Doc) (f : Fam) : ((siblingsLoop d f).1.map sortPair).Nodup := by
  rw [List.nodup_iff_pairwise_ne, List.pairwise_map]
  exact (sibInv d f).nodup.imp fun {p q} h e => h (sortPair_eq_iff.mp e)

theorem siblings_perm (d : Doc) {f f' : Fam} (he : FamEquiv f f') :
    ((siblingsBornTooClose d f).map norm).Perm ((siblingsBornTooClose d f').map norm) := by
  obtain ⟨hp, _, _, _, hc⟩ := he
  have key : ∀ g : Fam, (siblingsBornTooClose d g).map norm =
      ((siblingsLoop d g).1.map sortPair).map fun p => Warning.siblingsBornTooClose 0 p.1 p.2 := by
    intro g
    unfold siblingsBornTooClose
    rw [(sibInv d g).map, List.map_map, List.map_map]
    apply List.map_congr_left
    intro p _
    exact norm_sib g.ptr p
  rw [key f, key f']
  apply List.Perm.map
  rw [List.perm_ext_iff_of_nodup (sorted_pairs_nodup d f) (sorted_pairs_nodup d f')]
  intro x
  rw [mem_sorted_pairs, mem_sorted_pairs]
  constructor
  · rintro ⟨a, b, ha, hb, h⟩; exact ⟨a, b, hc.mem_iff.mp ha, hc.mem_iff.mp hb, h⟩
  · rintro ⟨a, b, ha, hb, h⟩; exact ⟨a, b, hc.mem_iff.mpr ha, hc.mem_iff.mpr hb, h⟩

theorem marriedFrom_chil (d : Doc) (p : Nat) (h w : Option Nat) (c c' : List Nat) (e : List Ev) :
    ∀ (evs : List Ev) (k : Nat),
      marriedFrom d ⟨p, h, w, c, e⟩ k evs = marriedFrom d ⟨p, h, w, c', e⟩ k evs := by
  intro evs
  induction evs with
  | nil => intro k; rfl
  | cons x rest ih =>
    intro k
    simp only [marriedFrom, marriedAt, ih]

theorem famWarnings_perm (d : Doc) (now : Date) {f f' : Fam} (he : FamEquiv f f') :
    ((recWarnings d now (.fam f)).map norm).Perm ((recWarnings d now (.fam f')).map norm) := by
  have hs := siblings_perm d he
  obtain ⟨p, h, w, c, e⟩ := f
  obtain ⟨p', h', w', c', e'⟩ := f'
  obtain ⟨hp, hh, hw, hev, hc⟩ := he
  simp only at hp hh hw hev hc
  subst hp; subst hh; subst hw; subst hev
  simp only [recWarnings, famOwn, List.map_append]
  have h1 : ((childrenBornBeforeParents d ⟨p, h, w, c, e⟩).map norm).Perm
      ((childrenBornBeforeParents d ⟨p, h, w, c', e⟩).map norm) := by
    unfold childrenBornBeforeParents
    apply opp_perm
    apply List.Perm.map
    unfold childrenBornBeforeParentsRaw
    exact hc.flatMap_right _
  have h3 : marriedOutOfRange d ⟨p, h, w, c, e⟩ = marriedOutOfRange d ⟨p, h, w, c', e⟩ :=
    marriedFrom_chil d p h w c c' e e 0
  have h4 : inverseSpouses d ⟨p, h, w, c, e⟩ = inverseSpouses d ⟨p, h, w, c', e⟩ := rfl
  rw [h3, h4]
  exact ((h1.append hs).append (List.Perm.refl _)).append (List.Perm.refl _) |>.append (List.Perm.refl _)

theorem recsEquiv_perm (d : Doc) (now : Date) {l l' : List Rec} (h : RecsEquiv l l') :
    ((l.flatMap (recWarnings d now)).map norm).Perm ((l'.flatMap (recWarnings d now)).map norm) := by
  induction h with
  | nil => exact List.Perm.refl _
  | cons hr _ ih =>
    simp only [List.flatMap_cons, List.map_append]
    refine List.Perm.append ?_ ih
    cases hr with
    | indi i => exact List.Perm.refl _
    | fam hf => exact famWarnings_perm d now hf

end Gedcom.Warn
