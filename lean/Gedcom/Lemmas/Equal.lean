/-
  Facts about the equality model (Gedcom/Model/Equal.lean): unfolding equations, the bridge to the
  greedy-matching lemmas, reflexivity, and — under the decidable guard `okNode D` / `dateEquiv D`
  — symmetry and transitivity of `deepEqual`.
-/
import Gedcom.Lemmas.Matching
namespace Gedcom
open G

/-! ### sizes and induction over trees -/

theorem Forest.size_mem {k : Node} {ks : List Node} (h : k ∈ ks) : k.size ≤ Forest.size ks := by
  induction ks with
  | nil => cases h
  | cons x xs ih =>
    simp only [Forest.size]
    rcases List.mem_cons.mp h with rfl | h
    · omega
    · have := ih h; omega

theorem Node.size_kid {t v p : Str} {ks : List Node} {k : Node} (h : k ∈ ks) :
    k.size < (Node.mk t v p ks).size := by
  have := Forest.size_mem h
  simp only [Node.size]; omega

theorem Node.size_pos (n : Node) : 0 < n.size := by
  cases n; simp only [Node.size]; omega

theorem Node.induct {P : Node → Prop}
    (h : ∀ t v p ks, (∀ k ∈ ks, P k) → P (.mk t v p ks)) (n : Node) : P n := by
  have : ∀ m (n : Node), n.size ≤ m → P n := by
    intro m
    induction m with
    | zero => intro n hn; have := n.size_pos; omega
    | succ m ih =>
      intro n hn
      cases n with
      | mk t v p ks =>
        apply h
        intro k hk
        have := Node.size_kid (t := t) (v := v) (p := p) hk
        exact ih k (by omega)
  exact this n.size n (Nat.le_refl _)

/-! ### unfolding -/

/-- `a.Equals(b)` with the inner `DeepEqualNodes` calls written as such -/
def equalsSpec (a b : Node) : Bool :=
  match a.rule with
  | .simple => a.tag == b.tag && a.value == b.value && a.ptr == b.ptr
  | .vital => a.kind == b.kind
  | .resi =>
    b.rule == .resi &&
      (datesMatch a.dates b.dates ||
        (a.dates.length + b.dates.length == 0 &&
          deepEqualNodes (a.kids.filter isPlace) (b.kids.filter isPlace)))
  | .even =>
    b.rule == .even &&
      (datesMatch a.dates b.dates ||
        (a.dates.length == 0 && b.dates.length == 0 && a.value == b.value &&
          deepEqualNodes a.kids b.kids))
  | .date => b.rule == .date && dateValueEquals a.value b.value
  | .uid => b.rule == .uid && uidEquals a.value b.value

theorem matchKids_filter (keep : Node → Bool) (l r : List Node) :
    matchKids keep l r = matchKids (fun _ => true) (l.filter keep) r := by
  induction l generalizing r with
  | nil => simp [matchKids]
  | cons k ks ih =>
    rw [matchKids]
    cases hk : keep k
    · simp only [hk, List.filter_cons_of_neg, Bool.false_eq_true, not_false_eq_true, if_false]
      exact ih r
    · simp only [List.filter_cons_of_pos hk, if_true]
      rw [matchKids]
      simp only [if_true]
      cases removeFirst (deepEqual k) r with
      | none => rfl
      | some r' => exact ih r'

theorem equalsShallow_eq (a b : Node) : equalsShallow a b = equalsSpec a b := by
  unfold equalsShallow equalsSpec deepEqualNodes
  rw [matchKids_filter isPlace]
  cases a.rule <;> rfl

theorem deepEqual_eq (a b : Node) :
    deepEqual a b = (equalsShallow a b && deepEqualNodes a.kids b.kids) := by
  cases a with
  | mk t v p ks =>
    rw [deepEqual]
    simp only [equalsShallow, deepEqualNodes, Node.rule, Node.kind, Node.tag, Node.value,
      Node.ptr, Node.kids, Node.dates]

theorem deepEqual_eq' (a b : Node) :
    deepEqual a b = (equalsSpec a b && deepEqualNodes a.kids b.kids) := by
  rw [deepEqual_eq, equalsShallow_eq]

/-- `DeepEqualNodes` is the greedy matching of the spike -/
theorem deepEqualNodes_eq_greedy (l r : List Node) :
    deepEqualNodes l r = greedy deepEqual l r := by
  induction l generalizing r with
  | nil => cases r <;> simp [deepEqualNodes, greedy, matchKids]
  | cons k ks ih =>
    unfold deepEqualNodes
    rw [matchKids, greedy]
    simp only [if_true]
    cases hrf : removeFirst (deepEqual k) r with
    | none => simp
    | some r' =>
      obtain ⟨y, _, hp⟩ := removeFirst_some hrf
      have hl : r.length = r'.length + 1 := by rw [hp.length_eq]; simp
      simp only [List.length_cons, hl]
      rw [← ih r']
      unfold deepEqualNodes
      simp

/-! ### reflexivity -/

theorem PDate.equals_refl (d : PDate) (h : d.isZero = false) : d.equals d = true := by
  unfold PDate.equals
  simp [h, PDate.is]

/-- `DateRange.Equals` is reflexive: a DATE value equals itself whatever it parses to -/
theorem DateRange.equals_refl (r : DateRange) : r.equals r = true := by
  unfold DateRange.equals
  by_cases hv : r.isValid = true
  · simp only [DateRange.isValid, Bool.and_eq_true, Bool.not_eq_true'] at hv
    simp [PDate.equals_refl _ hv.1, PDate.equals_refl _ hv.2]
  · simp [hv]

theorem dateValueEquals_refl (a : Str) : dateValueEquals a a = true :=
  DateRange.equals_refl _

theorem uidEquals_refl (a : Str) : uidEquals a a = true := by
  unfold uidEquals
  cases uidUUID a <;> simp

theorem uidEquals_symm (a b : Str) (h : uidEquals a b = true) : uidEquals b a = true := by
  unfold uidEquals at *
  cases ha : uidUUID a <;> cases hb : uidUUID b <;> simp_all

theorem uidEquals_trans (a b c : Str) (h1 : uidEquals a b = true) (h2 : uidEquals b c = true) :
    uidEquals a c = true := by
  unfold uidEquals at *
  cases ha : uidUUID a <;> cases hb : uidUUID b <;> cases hc : uidUUID c <;> simp_all

theorem datesMatch_iff (l r : List Node) :
    datesMatch l r = true ↔ ∃ x ∈ l, ∃ y ∈ r, dateValueEquals x.value y.value = true := by
  simp [datesMatch, List.any_eq_true]

theorem deepEqualNodes_refl (l : List Node) (h : ∀ k ∈ l, deepEqual k k = true) :
    deepEqualNodes l l = true := by
  rw [deepEqualNodes_eq_greedy]; exact greedy_refl _ _ h

theorem equalsSpec_refl (a : Node) (h : ∀ k ∈ a.kids, deepEqual k k = true) :
    equalsSpec a a = true := by
  unfold equalsSpec
  cases hr : a.rule with
  | simple => simp
  | vital => simp
  | date => simp [dateValueEquals_refl]
  | uid => simp [uidEquals_refl]
  | resi =>
    simp only [beq_self_eq_true, Bool.true_and, Bool.or_eq_true, Bool.and_eq_true]
    cases hd : a.dates with
    | nil =>
      right
      refine ⟨by simp, ?_⟩
      exact deepEqualNodes_refl _ (fun k hk => h k (List.mem_filter.mp hk).1)
    | cons d ds =>
      left
      exact (datesMatch_iff _ _).mpr ⟨d, by simp, d, by simp, dateValueEquals_refl _⟩
  | even =>
    simp only [beq_self_eq_true, Bool.true_and, Bool.or_eq_true, Bool.and_eq_true]
    cases hd : a.dates with
    | nil =>
      right
      refine ⟨⟨⟨by simp, by simp⟩, by simp⟩, ?_⟩
      exact deepEqualNodes_refl _ h
    | cons d ds =>
      left
      exact (datesMatch_iff _ _).mpr ⟨d, by simp, d, by simp, dateValueEquals_refl _⟩

/-- every tree is deep-equal to itself (as a value; a copy has the same value) — every kind -/
theorem deepEqual_refl (n : Node) : deepEqual n n = true := by
  induction n using Node.induct with
  | h t v p ks ih =>
    rw [deepEqual_eq']
    simp only [Bool.and_eq_true]
    exact ⟨equalsSpec_refl _ ih, deepEqualNodes_refl _ ih⟩

/-! ### the guard -/

/-- `dateValueEquals` is symmetric and transitive on the values in `D` -/
def dateEquiv (D : List Str) : Bool :=
  D.all fun a => D.all fun b =>
    (!dateValueEquals a b || dateValueEquals b a) &&
      D.all fun c => !(dateValueEquals a b && dateValueEquals b c) || dateValueEquals a c

def isDateLike (n : Node) : Bool := isDate n || n.rule == .date

mutual
/-- every DATE value of the tree lies in `D` -/
def okNode (D : List Str) : Node → Bool
  | .mk t v p ks => (!isDateLike (.mk t v p []) || D.contains v) && okList D ks
def okList (D : List Str) : List Node → Bool
  | [] => true
  | k :: ks => okNode D k && okList D ks
end

theorem okList_mem {D : List Str} {ks : List Node} (h : okList D ks = true) {k : Node}
    (hk : k ∈ ks) : okNode D k = true := by
  induction ks with
  | nil => cases hk
  | cons x xs ih =>
    simp only [okList, Bool.and_eq_true] at h
    rcases List.mem_cons.mp hk with rfl | hk
    · exact h.1
    · exact ih h.2 hk

theorem okList_of_mem {D : List Str} {ks : List Node} (h : ∀ k ∈ ks, okNode D k = true) :
    okList D ks = true := by
  induction ks with
  | nil => rfl
  | cons x xs ih =>
    simp only [okList, Bool.and_eq_true]
    exact ⟨h x (by simp), ih (fun k hk => h k (by simp [hk]))⟩

theorem isDateLike_mk (t v p : Str) (ks : List Node) :
    isDateLike (.mk t v p ks) = isDateLike (.mk t v p []) := rfl

theorem okNode_kid {D : List Str} {n k : Node} (h : okNode D n = true) (hk : k ∈ n.kids) :
    okNode D k = true := by
  cases n with
  | mk t v p ks =>
    simp only [okNode, Bool.and_eq_true] at h
    exact okList_mem h.2 hk

theorem okNode_date {D : List Str} {n : Node} (h : okNode D n = true)
    (hd : isDateLike n = true) : n.value ∈ D := by
  cases n with
  | mk t v p ks =>
    simp only [okNode, Bool.and_eq_true] at h
    rw [isDateLike_mk] at hd
    have := h.1
    simp only [hd, Bool.not_true, Bool.false_or] at this
    simpa [Node.value] using this

/-! ### the kind table: a node follows the DATE rule exactly when its tag is DATE -/

theorem ruleOfKind_date {k : String} (h : ruleOfKind k = .date) : k = "DateNode" := by
  unfold ruleOfKind at h
  split at h
  · cases h
  · split at h
    · cases h
    · split at h
      · cases h
      · split at h
        · rename_i h'; simpa using h'
        · split at h <;> cases h

theorem kindOfTag_date {s : String} (h : Generated.kindOfTag s = "DateNode") : s = "DATE" := by
  unfold Generated.kindOfTag at h
  split at h
  · rename_i e he
    have hm := List.mem_of_find?_eq_some he
    have hp := List.find?_some he
    have : ∀ e ∈ Generated.kindTable, e.2 = "DateNode" → e.1 = "DATE" := by decide
    have := this e hm h
    simp at hp
    rw [← hp, this]
  · exact absurd h (by decide)

theorem byte_of_char (c : Char) (k : Nat) (hc : ∀ i : Fin 256, Char.ofNat i.val = c → i.val = k)
    (b : UInt8) (h : Char.ofNat b.toNat = c) : b.toNat = k :=
  hc ⟨b.toNat, UInt8.toNat_lt b⟩ h

theorem bytes_date {t : Str} (h : bytesToString t = "DATE") : t = lit "DATE" := by
  unfold bytesToString at h
  have e : ("DATE" : String) = String.ofList ['D', 'A', 'T', 'E'] := by decide
  rw [e] at h
  have h' := String.ofList_injective h
  match t, h' with
  | [a, b, c, d], h' =>
    simp only [List.map_cons, List.map_nil, List.cons.injEq, and_true] at h'
    obtain ⟨ha, hb, hc, hd⟩ := h'
    have ha' := byte_of_char 'D' 68 (by decide +kernel) a ha
    have hb' := byte_of_char 'A' 65 (by decide +kernel) b hb
    have hc' := byte_of_char 'T' 84 (by decide +kernel) c hc
    have hd' := byte_of_char 'E' 69 (by decide +kernel) d hd
    have : lit "DATE" = [68, 65, 84, 69] := by decide
    rw [this]
    have f : ∀ (x : UInt8) (k : Nat), k < 256 → x.toNat = k → x = UInt8.ofNat k := by
      intro x k hk hx
      apply UInt8.toNat_inj.mp
      rw [hx]; simp; omega
    rw [f a 68 (by omega) ha', f b 65 (by omega) hb', f c 84 (by omega) hc', f d 69 (by omega) hd']
    rfl
  | [], h' => simp at h'
  | [_], h' => simp at h'
  | [_, _], h' => simp at h'
  | [_, _, _], h' => simp at h'
  | _ :: _ :: _ :: _ :: _ :: _, h' => simp at h'

/-- only DATE-tagged nodes are DateNodes (read off the regenerated kind table) -/
theorem isDate_of_rule {n : Node} (h : n.rule = .date) : isDate n = true := by
  have := bytes_date (kindOfTag_date (ruleOfKind_date h))
  simp [isDate, tagDATE, this]

theorem rule_of_isDate {n : Node} (h : isDate n = true) : n.rule = .date := by
  simp only [isDate, beq_iff_eq] at h
  simp only [Node.rule, Node.kind, h]
  decide

theorem dateEquiv_symm {D : List Str} (hD : dateEquiv D = true) {a b : Str} (ha : a ∈ D)
    (hb : b ∈ D) (h : dateValueEquals a b = true) : dateValueEquals b a = true := by
  simp only [dateEquiv, List.all_eq_true, Bool.and_eq_true, Bool.or_eq_true,
    Bool.not_eq_true'] at hD
  rcases (hD a ha b hb).1 with h' | h'
  · rw [h] at h'; cases h'
  · exact h'

theorem dateEquiv_trans {D : List Str} (hD : dateEquiv D = true) {a b c : Str} (ha : a ∈ D)
    (hb : b ∈ D) (hc : c ∈ D) (h1 : dateValueEquals a b = true)
    (h2 : dateValueEquals b c = true) : dateValueEquals a c = true := by
  simp only [dateEquiv, List.all_eq_true, Bool.and_eq_true, Bool.or_eq_true,
    Bool.not_eq_true'] at hD
  rcases (hD a ha b hb).2 c hc with h' | h'
  · rw [h1, h2] at h'; cases h'
  · exact h'

/-! ### symmetry and transitivity under the guard -/

theorem rule_of_tag {a b : Node} (h : a.tag = b.tag) : a.rule = b.rule := by
  simp only [Node.rule, Node.kind, h]

theorem equalsSpec_rule {a b : Node} (h : equalsSpec a b = true) : b.rule = a.rule := by
  unfold equalsSpec at h
  cases hr : a.rule <;> rw [hr] at h <;>
    simp only [Bool.and_eq_true, beq_iff_eq] at h
  · exact (rule_of_tag h.1.1).symm.trans hr
  · simp only [Node.rule, h.symm]
    simpa [Node.rule] using hr
  · exact h.1
  · exact h.1
  · exact h.1
  · exact h.1

theorem mem_dates {n d : Node} (h : d ∈ n.dates) : d ∈ n.kids ∧ isDate d = true :=
  List.mem_filter.mp h

theorem eq_of_length_le_one {α : Type} {l : List α} (h : l.length ≤ 1) {x y : α} (hx : x ∈ l)
    (hy : y ∈ l) : x = y := by
  match l, h with
  | [], _ => cases hx
  | [z], _ => simp at hx hy; rw [hx, hy]
  | _ :: _ :: _, h => simp at h

section step
variable (D : List Str) (hD : dateEquiv D = true) (Q : Node → Bool)
  (symQ : ∀ x y, Q x = true → Q y = true → deepEqual x y = true → deepEqual y x = true)
  (transQ : ∀ x y z, Q x = true → Q y = true → Q z = true →
    deepEqual x y = true → deepEqual y z = true → deepEqual x z = true)
include symQ transQ

theorem nodes_symm {l m : List Node} (hl : ∀ x ∈ l, Q x = true) (hm : ∀ x ∈ m, Q x = true)
    (h : deepEqualNodes l m = true) : deepEqualNodes m l = true := by
  rw [deepEqualNodes_eq_greedy] at *
  have hm' := greedy_sound _ _ _ h
  exact greedy_complete_on Q _ symQ transQ _ _ hm hl
    (hm'.symm_on (fun a ha b hb => symQ a b (hl a ha) (hm b hb)))

theorem nodes_trans {l m r : List Node} (hl : ∀ x ∈ l, Q x = true) (hm : ∀ x ∈ m, Q x = true)
    (hr : ∀ x ∈ r, Q x = true) (h1 : deepEqualNodes l m = true)
    (h2 : deepEqualNodes m r = true) : deepEqualNodes l r = true := by
  rw [deepEqualNodes_eq_greedy] at *
  have m1 := greedy_sound _ _ _ h1
  have m2 := greedy_sound _ _ _ h2
  exact greedy_complete_on Q _ symQ transQ _ _ hl hr
    (m1.trans_on (fun a ha b hb c hc => transQ a b c (hl a ha) (hm b hb) (hr c hc)) m2)

include hD

theorem spec_symm {a b : Node} (ha : okNode D a = true) (hb : okNode D b = true)
    (hka : ∀ x ∈ a.kids, Q x = true) (hkb : ∀ x ∈ b.kids, Q x = true)
    (h : equalsSpec a b = true) : equalsSpec b a = true := by
  have hrule := equalsSpec_rule h
  unfold equalsSpec at h ⊢
  rw [hrule]
  cases hr : a.rule <;> rw [hr] at h <;>
    simp only [Bool.and_eq_true, Bool.or_eq_true, beq_iff_eq] at h ⊢
  · -- simple
    exact ⟨⟨h.1.1.symm, h.1.2.symm⟩, h.2.symm⟩
  · exact h.symm
  · -- resi
    refine ⟨trivial, ?_⟩
    rcases h.2 with h2 | h2
    · left
      obtain ⟨x, hx, y, hy, hxy⟩ := (datesMatch_iff _ _).mp h2
      refine (datesMatch_iff _ _).mpr ⟨y, hy, x, hx, ?_⟩
      have hxD := okNode_date (okNode_kid ha (mem_dates hx).1) (by simp [isDateLike, (mem_dates hx).2])
      have hyD := okNode_date (okNode_kid hb (mem_dates hy).1) (by simp [isDateLike, (mem_dates hy).2])
      exact dateEquiv_symm hD hxD hyD hxy
    · right
      refine ⟨by omega, ?_⟩
      exact nodes_symm Q symQ transQ (fun x hx => hka x (List.mem_filter.mp hx).1)
        (fun x hx => hkb x (List.mem_filter.mp hx).1) h2.2
  · -- even
    refine ⟨trivial, ?_⟩
    rcases h.2 with h2 | h2
    · left
      obtain ⟨x, hx, y, hy, hxy⟩ := (datesMatch_iff _ _).mp h2
      refine (datesMatch_iff _ _).mpr ⟨y, hy, x, hx, ?_⟩
      have hxD := okNode_date (okNode_kid ha (mem_dates hx).1) (by simp [isDateLike, (mem_dates hx).2])
      have hyD := okNode_date (okNode_kid hb (mem_dates hy).1) (by simp [isDateLike, (mem_dates hy).2])
      exact dateEquiv_symm hD hxD hyD hxy
    · right
      exact ⟨⟨⟨h2.1.1.2, h2.1.1.1⟩, h2.1.2.symm⟩, nodes_symm Q symQ transQ hka hkb h2.2⟩
  · -- date
    refine ⟨trivial, ?_⟩
    have haD := okNode_date ha (by simp [isDateLike, hr])
    have hbD := okNode_date hb (by simp [isDateLike, hrule, hr])
    exact dateEquiv_symm hD haD hbD h.2
  · exact ⟨trivial, uidEquals_symm _ _ h.2⟩

theorem spec_trans {a b c : Node} (ha : okNode D a = true) (hb : okNode D b = true)
    (hc : okNode D c = true)
    (hka : ∀ x ∈ a.kids, Q x = true) (hkb : ∀ x ∈ b.kids, Q x = true)
    (hkc : ∀ x ∈ c.kids, Q x = true) (hkids : Matched deepEqual a.kids c.kids)
    (h1 : equalsSpec a b = true) (h2 : equalsSpec b c = true) : equalsSpec a c = true := by
  have hr1 := equalsSpec_rule h1
  have hr2 := equalsSpec_rule h2
  unfold equalsSpec at h1 h2 ⊢
  rw [hr1] at h2
  cases hr : a.rule <;> rw [hr] at h1 h2 <;>
    simp only [Bool.and_eq_true, Bool.or_eq_true, beq_iff_eq] at h1 h2 ⊢
  · exact ⟨⟨h1.1.1.trans h2.1.1, h1.1.2.trans h2.1.2⟩, h1.2.trans h2.2⟩
  · exact h1.trans h2
  · -- resi
    refine ⟨h2.1, ?_⟩
    rcases h1.2 with d1 | n1 <;> rcases h2.2 with d2 | n2
    · left
      -- a has a DATE child x; the children of a and c are matched, so x has a deep-equal
      -- partner z among the children of c, which is then a DATE node with an equal value
      obtain ⟨x, hx, _, _, _⟩ := (datesMatch_iff _ _).mp d1
      obtain ⟨z, hz, hxz⟩ := hkids.exists_right (mem_dates hx).1
      rw [deepEqual_eq'] at hxz
      simp only [Bool.and_eq_true] at hxz
      have hxr := rule_of_isDate (mem_dates hx).2
      have hs := hxz.1
      unfold equalsSpec at hs
      rw [hxr] at hs
      simp only [Bool.and_eq_true, beq_iff_eq] at hs
      exact (datesMatch_iff _ _).mpr
        ⟨x, hx, z, List.mem_filter.mpr ⟨hz, isDate_of_rule hs.1⟩, hs.2⟩
    · exfalso
      obtain ⟨x, hx, y, hy, hxy⟩ := (datesMatch_iff _ _).mp d1
      have : b.dates.length = 0 := by omega
      rw [List.length_eq_zero_iff.mp this] at hy; cases hy
    · exfalso
      obtain ⟨y', hy', z, hz, hyz⟩ := (datesMatch_iff _ _).mp d2
      have : b.dates.length = 0 := by omega
      rw [List.length_eq_zero_iff.mp this] at hy'; cases hy'
    · right
      refine ⟨by omega, ?_⟩
      exact nodes_trans Q symQ transQ (fun x hx => hka x (List.mem_filter.mp hx).1)
        (fun x hx => hkb x (List.mem_filter.mp hx).1)
        (fun x hx => hkc x (List.mem_filter.mp hx).1) n1.2 n2.2
  · -- even
    refine ⟨h2.1, ?_⟩
    rcases h1.2 with d1 | n1 <;> rcases h2.2 with d2 | n2
    · left
      -- a has a DATE child x; the children of a and c are matched, so x has a deep-equal
      -- partner z among the children of c, which is then a DATE node with an equal value
      obtain ⟨x, hx, _, _, _⟩ := (datesMatch_iff _ _).mp d1
      obtain ⟨z, hz, hxz⟩ := hkids.exists_right (mem_dates hx).1
      rw [deepEqual_eq'] at hxz
      simp only [Bool.and_eq_true] at hxz
      have hxr := rule_of_isDate (mem_dates hx).2
      have hs := hxz.1
      unfold equalsSpec at hs
      rw [hxr] at hs
      simp only [Bool.and_eq_true, beq_iff_eq] at hs
      exact (datesMatch_iff _ _).mpr
        ⟨x, hx, z, List.mem_filter.mpr ⟨hz, isDate_of_rule hs.1⟩, hs.2⟩
    · exfalso
      obtain ⟨x, hx, y, hy, hxy⟩ := (datesMatch_iff _ _).mp d1
      have : b.dates.length = 0 := n2.1.1.1
      rw [List.length_eq_zero_iff.mp this] at hy; cases hy
    · exfalso
      obtain ⟨y', hy', z, hz, hyz⟩ := (datesMatch_iff _ _).mp d2
      have : b.dates.length = 0 := n1.1.1.2
      rw [List.length_eq_zero_iff.mp this] at hy'; cases hy'
    · right
      exact ⟨⟨⟨n1.1.1.1, n2.1.1.2⟩, n1.1.2.trans n2.1.2⟩,
        nodes_trans Q symQ transQ hka hkb hkc n1.2 n2.2⟩
  · -- date
    refine ⟨h2.1, ?_⟩
    have haD := okNode_date ha (by simp [isDateLike, hr])
    have hbD := okNode_date hb (by simp [isDateLike, hr1, hr])
    have hcD := okNode_date hc (by simp [isDateLike, hr2, hr1, hr])
    exact dateEquiv_trans hD haD hbD hcD h1.2 h2.2
  · exact ⟨h2.1, uidEquals_trans _ _ _ h1.2 h2.2⟩

end step

/-- symmetry and transitivity of `deepEqual` on trees that satisfy the guard, by induction on a
    bound of the tree sizes (the sibling lists one level down satisfy the induction hypothesis,
    which is what `greedy_iff` needs) -/
theorem deepEqual_equiv_bounded (D : List Str) (hD : dateEquiv D = true) (n : Nat) :
    (∀ a b, a.size ≤ n → b.size ≤ n → okNode D a = true → okNode D b = true →
      deepEqual a b = true → deepEqual b a = true) ∧
    (∀ a b c, a.size ≤ n → b.size ≤ n → c.size ≤ n →
      okNode D a = true → okNode D b = true → okNode D c = true →
      deepEqual a b = true → deepEqual b c = true → deepEqual a c = true) := by
  induction n with
  | zero =>
    exact ⟨fun a _ h => by have := a.size_pos; omega, fun a _ _ h => by have := a.size_pos; omega⟩
  | succ n ih =>
    let Q : Node → Bool := fun x => decide (x.size ≤ n) && okNode D x
    have symQ : ∀ x y, Q x = true → Q y = true → deepEqual x y = true → deepEqual y x = true := by
      intro x y hx hy
      simp only [Q, Bool.and_eq_true, decide_eq_true_eq] at hx hy
      exact ih.1 x y hx.1 hy.1 hx.2 hy.2
    have transQ : ∀ x y z, Q x = true → Q y = true → Q z = true →
        deepEqual x y = true → deepEqual y z = true → deepEqual x z = true := by
      intro x y z hx hy hz
      simp only [Q, Bool.and_eq_true, decide_eq_true_eq] at hx hy hz
      exact ih.2 x y z hx.1 hy.1 hz.1 hx.2 hy.2 hz.2
    have kidsQ : ∀ a : Node, a.size ≤ n + 1 → okNode D a = true → ∀ x ∈ a.kids, Q x = true := by
      intro a hs ha x hx
      cases a with
      | mk t v p ks =>
        have := Node.size_kid (t := t) (v := v) (p := p) (ks := ks) hx
        simp only [Q, Bool.and_eq_true, decide_eq_true_eq]
        exact ⟨by omega, okNode_kid ha hx⟩
    constructor
    · intro a b hsa hsb ha hb h
      rw [deepEqual_eq'] at h ⊢
      simp only [Bool.and_eq_true] at h ⊢
      exact ⟨spec_symm D hD Q symQ transQ ha hb (kidsQ a hsa ha) (kidsQ b hsb hb) h.1,
        nodes_symm Q symQ transQ (kidsQ a hsa ha) (kidsQ b hsb hb) h.2⟩
    · intro a b c hsa hsb hsc ha hb hc h1 h2
      rw [deepEqual_eq'] at h1 h2 ⊢
      simp only [Bool.and_eq_true] at h1 h2 ⊢
      have hk := nodes_trans Q symQ transQ (kidsQ a hsa ha) (kidsQ b hsb hb) (kidsQ c hsc hc)
        h1.2 h2.2
      have hm : Matched deepEqual a.kids c.kids := by
        rw [deepEqualNodes_eq_greedy] at hk; exact greedy_sound _ _ _ hk
      exact ⟨spec_trans D hD Q symQ transQ ha hb hc (kidsQ a hsa ha) (kidsQ b hsb hb)
          (kidsQ c hsc hc) hm h1.1 h2.1, hk⟩

theorem deepEqual_symm_of_ok (D : List Str) (hD : dateEquiv D = true) (a b : Node)
    (ha : okNode D a = true) (hb : okNode D b = true) (h : deepEqual a b = true) :
    deepEqual b a = true :=
  (deepEqual_equiv_bounded D hD (max a.size b.size)).1 a b (Nat.le_max_left _ _)
    (Nat.le_max_right _ _) ha hb h

theorem deepEqual_trans_of_ok (D : List Str) (hD : dateEquiv D = true) (a b c : Node)
    (ha : okNode D a = true) (hb : okNode D b = true) (hc : okNode D c = true)
    (h1 : deepEqual a b = true) (h2 : deepEqual b c = true) : deepEqual a c = true :=
  (deepEqual_equiv_bounded D hD (max a.size (max b.size c.size))).2 a b c (by omega) (by omega)
    (by omega) ha hb hc h1 h2

end Gedcom
