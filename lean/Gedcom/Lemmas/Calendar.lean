/- Helper lemmas for C05 (calendar arithmetic; core Lean + omega). -/
import Gedcom.Model.Calendar
namespace Gedcom

theorem isLeap_iff (y : Int) :
    isLeap y = true ↔ (y % 4 = 0 ∧ (y % 100 ≠ 0 ∨ y % 400 = 0)) := by
  unfold isLeap; simp

theorem daysBeforeYear_succ (y : Int) :
    daysBeforeYear (y + 1) = daysBeforeYear y + daysInYear y := by
  unfold daysBeforeYear daysInYear isLeap
  by_cases h4 : y % 4 = 0 <;> by_cases h100 : y % 100 = 0 <;> by_cases h400 : y % 400 = 0 <;>
    simp [h4, h100, h400] <;> omega

theorem daysBeforeYear_mono {y1 y2 : Int} (h : y1 ≤ y2) : daysBeforeYear y1 ≤ daysBeforeYear y2 := by
  unfold daysBeforeYear; omega

theorem daysInYear_cases (y : Int) : daysInYear y = 365 ∨ daysInYear y = 366 := by
  unfold daysInYear; split <;> simp

theorem month_cases {m : Nat} (h1 : 1 ≤ m) (h2 : m ≤ 12) :
    m = 1 ∨ m = 2 ∨ m = 3 ∨ m = 4 ∨ m = 5 ∨ m = 6 ∨ m = 7 ∨ m = 8 ∨ m = 9 ∨ m = 10 ∨ m = 11 ∨ m = 12 := by
  omega

/-- the day of the year of a calendar-valid date lies in `1 .. daysInYear` -/
theorem yearDay_bounds (y : Int) (m : Nat) (d : Int) (h1 : 1 ≤ m) (h2 : m ≤ 12)
    (hd1 : 1 ≤ d) (hd2 : d ≤ dim (isLeap y) m) :
    1 ≤ yearDay y m d ∧ yearDay y m d ≤ daysInYear y := by
  unfold yearDay daysInYear
  rcases month_cases h1 h2 with h|h|h|h|h|h|h|h|h|h|h|h <;> subst h <;>
    cases hl : isLeap y <;> simp [cum, dim, hl] at hd2 ⊢ <;> omega

theorem dim_pos (l : Bool) {m : Nat} (h1 : 1 ≤ m) (h2 : m ≤ 12) : 28 ≤ dim l m ∧ dim l m ≤ 31 := by
  rcases month_cases h1 h2 with h|h|h|h|h|h|h|h|h|h|h|h <;> subst h <;> cases l <;> simp [dim]

/-- next month starts the day after this month's last day -/
theorem month_roll (y : Int) (m : Nat) (hm : 1 ≤ m) (hm' : m < 12) :
    dayNumber y (m+1) 1 = dayNumber y m (dim (isLeap y) m) + 1 := by
  unfold dayNumber
  have : m = 1 ∨ m = 2 ∨ m = 3 ∨ m = 4 ∨ m = 5 ∨ m = 6 ∨ m = 7 ∨ m = 8 ∨ m = 9 ∨ m = 10 ∨ m = 11 := by omega
  rcases this with h|h|h|h|h|h|h|h|h|h|h <;> subst h <;> cases isLeap y <;> simp [cum, dim] <;> omega

/-- 1 January follows 31 December -/
theorem year_roll (y : Int) : dayNumber (y+1) 1 1 = dayNumber y 12 31 + 1 := by
  unfold dayNumber
  rw [daysBeforeYear_succ y]
  unfold daysInYear
  cases isLeap y <;> cases isLeap (y+1) <;> simp [cum] <;> omega

/-- 31 December is the last day of its year -/
theorem year_last (y : Int) : yearDay y 12 31 = daysInYear y := by
  unfold yearDay daysInYear; cases isLeap y <;> simp [cum]

end Gedcom
