/- Helper lemmas for C05 (calendar arithmetic; core Lean + omega). -/
import Gedcom.Model.Calendar
namespace Gedcom

theorem isLeap_iff (y : Int) :
    isLeap y = true ↔ (y % 4 = 0 ∧ (y % 100 ≠ 0 ∨ y % 400 = 0)) := by
  unfold isLeap; simp

theorem daysBeforeYear_succ (y : Int) :
    daysBeforeYear (y + 1) = daysBeforeYear y + daysInYear y := by
  unfold daysBeforeYear daysInYear isLeap
  by_cases h4 : y % 4 = 0 <;> by_cases h100 : y % 100 = 0 <;> by_cases h400 : y % 400 = 0 <;>
    simp [h4, h100, h400] <;> omega

theorem daysBeforeYear_mono {y1 y2 : Int} (h : y1 ≤ y2) : daysBeforeYear y1 ≤ daysBeforeYear y2 := by
  unfold daysBeforeYear; omega

theorem daysInYear_cases (y : Int) : daysInYear y = 365 ∨ daysInYear y = 366 := by
  unfold daysInYear; split <;> simp

theorem month_cases {m : Nat} (h1 : 1 ≤ m) (h2 : m ≤ 12) :
    m = 1 ∨ m = 2 ∨ m = 3 ∨ m = 4 ∨ m = 5 ∨ m = 6 ∨ m = 7 ∨ m = 8 ∨ m = 9 ∨ m = 10 ∨ m = 11 ∨ m = 12 := by
  omega

/-- the day of the year of a calendar-valid date lies in `1 .. daysInYear` -/
theorem yearDay_bounds (y : Int) (m : Nat) (d : Int) (h1 : 1 ≤ m) (h2 : m ≤ 12)
    (hd1 : 1 ≤ d) (hd2 : d ≤ dim (isLeap y) m) :
    1 ≤ yearDay y m d ∧ yearDay y m d ≤ daysInYear y := by
  unfold yearDay daysInYear
  rcases month_cases h1 h2 with h|h|h|h|h|h|h|h|h|h|h|h <;> subst h <;>
    cases hl : isLeap y <;> simp [cum, dim, hl] at hd2 ⊢ <;> omega

theorem dim_pos (l : Bool) {m : Nat} (h1 : 1 ≤ m) (h2 : m ≤ 12) : 28 ≤ dim l m ∧ dim l m ≤ 31 := by
  rcases month_cases h1 h2 with h|h|h|h|h|h|h|h|h|h|h|h <;> subst h <;> cases l <;> simp [dim]

/-- next month starts the day after this month's last day -/
theorem month_roll (y : Int) (m : Nat) (hm : 1 ≤ m) (hm' : m < 12) :
    dayNumber y (m+1) 1 = dayNumber y m (dim (isLeap y) m) + 1 := by
  unfold dayNumber
  have : m = 1 ∨ m = 2 ∨ m = 3 ∨ m = 4 ∨ m = 5 ∨ m = 6 ∨ m = 7 ∨ m = 8 ∨ m = 9 ∨ m = 10 ∨ m = 11 := by omega
  rcases this with h|h|h|h|h|h|h|h|h|h|h <;> subst h <;> cases isLeap y <;> simp [cum, dim] <;> omega

/-- 1 January follows 31 December -/
theorem year_roll (y : Int) : dayNumber (y+1) 1 1 = dayNumber y 12 31 + 1 := by
  unfold dayNumber
  rw [daysBeforeYear_succ y]
  unfold daysInYear
  cases isLeap y <;> cases isLeap (y+1) <;> simp [cum] <;> omega

/-- 31 December is the last day of its year -/
theorem year_last (y : Int) : yearDay y 12 31 = daysInYear y := by
  unfold yearDay daysInYear; cases isLeap y <;> simp [cum]

end Gedcom

namespace Gedcom

theorem yearsDen_cases (d : Date) : d.yearsDen = 732 ∨ d.yearsDen = 734 := by
  unfold Date.yearsDen; rcases daysInYear_cases (d.year : Int) with e | e <;> rw [e] <;> simp

/-- `Years()` comparisons are transitive (exact fractions, positive denominators) -/
theorem yearsLt_trans {a b c : Date} (h1 : a.yearsLt b) (h2 : b.yearsLt c) : a.yearsLt c := by
  unfold Date.yearsLt at *
  rcases yearsDen_cases a with ea | ea <;> rcases yearsDen_cases b with eb | eb <;>
    rcases yearsDen_cases c with ec | ec <;> rw [ea, eb] at h1 <;> rw [eb, ec] at h2 <;>
    rw [ea, ec] <;> omega

theorem yearsLt_irrefl (a : Date) : ¬ a.yearsLt a := by
  unfold Date.yearsLt; omega

/-- if nothing seen so far is below `m` and `d` is below `m`, nothing seen so far is below `d` -/
theorem not_lt_of_lt {x d m : Date} (h : ¬ x.yearsLt m) (hd : d.yearsLt m) : ¬ x.yearsLt d :=
  fun hx => h (yearsLt_trans hx hd)

theorem minimum_go_spec (pre ds : List Date) (acc : Option (Nat × Date)) (k : Nat) (x : Date)
    (hacc : match acc with
      | none => pre = []
      | some (j, m) => pre[j]? = some m ∧ ∀ d ∈ pre, ¬ d.yearsLt m)
    (h : minimumIdx.go ds pre.length acc = some (k, x)) :
    (pre ++ ds)[k]? = some x ∧ ∀ d ∈ pre ++ ds, ¬ d.yearsLt x := by
  induction ds generalizing pre acc with
  | nil =>
    simp only [minimumIdx.go] at h
    subst h
    simpa using hacc
  | cons d rest ih =>
    cases acc with
    | none =>
      simp only at hacc; subst hacc
      simp only [minimumIdx.go, List.length_nil] at h
      have := ih [d] (some (0, d)) (by simp [yearsLt_irrefl]) (by simpa using h)
      simpa using this
    | some jm =>
      obtain ⟨j, m⟩ := jm
      simp only at hacc
      simp only [minimumIdx.go] at h
      have hlen : (pre ++ [d]).length = pre.length + 1 := by simp
      by_cases hlt : d.yearsLt m
      · simp only [hlt, if_true] at h
        have := ih (pre ++ [d]) (some (pre.length, d)) (by
          refine ⟨by simp, ?_⟩
          intro y hy
          simp only [List.mem_append, List.mem_singleton] at hy
          rcases hy with hy | hy
          · exact not_lt_of_lt (hacc.2 y hy) hlt
          · subst hy; exact yearsLt_irrefl _) (by rw [hlen]; exact h)
        simpa using this
      · simp only [hlt, if_false] at h
        have := ih (pre ++ [d]) (some (j, m)) (by
          refine ⟨?_, ?_⟩
          · have hj : j < pre.length := by
              have := hacc.1
              exact (List.getElem?_eq_some_iff.mp this).1
            rw [List.getElem?_append_left hj]; exact hacc.1
          · intro y hy
            simp only [List.mem_append, List.mem_singleton] at hy
            rcases hy with hy | hy
            · exact hacc.2 y hy
            · subst hy; exact hlt) (by rw [hlen]; exact h)
        simpa using this

theorem maximum_go_spec (pre ds : List Date) (acc : Option (Nat × Date)) (k : Nat) (x : Date)
    (hacc : match acc with
      | none => pre = []
      | some (j, m) => pre[j]? = some m ∧ ∀ d ∈ pre, ¬ m.yearsLt d)
    (h : maximumIdx.go ds pre.length acc = some (k, x)) :
    (pre ++ ds)[k]? = some x ∧ ∀ d ∈ pre ++ ds, ¬ x.yearsLt d := by
  induction ds generalizing pre acc with
  | nil =>
    simp only [maximumIdx.go] at h
    subst h
    simpa using hacc
  | cons d rest ih =>
    cases acc with
    | none =>
      simp only at hacc; subst hacc
      simp only [maximumIdx.go, List.length_nil] at h
      have := ih [d] (some (0, d)) (by simp [yearsLt_irrefl]) (by simpa using h)
      simpa using this
    | some jm =>
      obtain ⟨j, m⟩ := jm
      simp only at hacc
      simp only [maximumIdx.go] at h
      have hlen : (pre ++ [d]).length = pre.length + 1 := by simp
      by_cases hlt : m.yearsLt d
      · simp only [hlt, if_true] at h
        have := ih (pre ++ [d]) (some (pre.length, d)) (by
          refine ⟨by simp, ?_⟩
          intro y hy
          simp only [List.mem_append, List.mem_singleton] at hy
          rcases hy with hy | hy
          · exact fun hdy => hacc.2 y hy (yearsLt_trans hlt hdy)
          · subst hy; exact yearsLt_irrefl _) (by rw [hlen]; exact h)
        simpa using this
      · simp only [hlt, if_false] at h
        have := ih (pre ++ [d]) (some (j, m)) (by
          refine ⟨?_, ?_⟩
          · have hj : j < pre.length := (List.getElem?_eq_some_iff.mp hacc.1).1
            rw [List.getElem?_append_left hj]; exact hacc.1
          · intro y hy
            simp only [List.mem_append, List.mem_singleton] at hy
            rcases hy with hy | hy
            · exact hacc.2 y hy
            · subst hy; exact hlt) (by rw [hlen]; exact h)
        simpa using this

end Gedcom
