/-
  Greedy matching ⇔ existence of a perfect matching (DESIGN Appendix A.4).
  The text below is the kernel-checked spike of notes/spikes.md §1, verbatim except that it uses the
  model's `removeFirst` (Gedcom/Model/Equal.lean, the same definition) instead of its own copy.
-/
import Gedcom.Model.Equal
namespace Gedcom.G
variable {α : Type}

def greedy (R : α → α → Bool) : List α → List α → Bool
  | [], r => r.isEmpty
  | l :: ls, r => match removeFirst (R l) r with
    | none => false
    | some r' => greedy R ls r'

theorem greedy_refl (R : α → α → Bool) (l : List α) (h : ∀ x ∈ l, R x x = true) :
    greedy R l l = true := by
  induction l with
  | nil => simp [greedy]
  | cons x xs ih =>
    simp only [greedy]
    have : removeFirst (R x) (x :: xs) = some xs := by simp [removeFirst, h x (by simp)]
    rw [this]
    exact ih (fun y hy => h y (by simp [hy]))

theorem removeFirst_some {p : α → Bool} {r r' : List α} (h : removeFirst p r = some r') :
    ∃ y, p y = true ∧ r.Perm (y :: r') := by
  induction r generalizing r' with
  | nil => simp [removeFirst] at h
  | cons x xs ih =>
    simp only [removeFirst] at h
    by_cases hx : p x = true
    · simp [hx] at h; subst h; exact ⟨x, hx, List.Perm.refl _⟩
    · simp [hx] at h
      obtain ⟨r'', hr'', rfl⟩ := h
      obtain ⟨y, hy, hp⟩ := ih hr''
      exact ⟨y, hy, (List.Perm.cons x hp).trans (List.Perm.swap y x r'')⟩

theorem removeFirst_none {p : α → Bool} {r : List α} (h : removeFirst p r = none) :
    ∀ z ∈ r, p z = false := by
  induction r with
  | nil => simp
  | cons x xs ih =>
    simp only [removeFirst] at h
    by_cases hx : p x = true
    · simp [hx] at h
    · simp [hx] at h
      intro z hz
      simp at hz
      rcases hz with rfl | hz
      · simpa using hx
      · exact ih h z hz

/-- A perfect matching of l into r (order of r irrelevant). -/
inductive Matched (R : α → α → Bool) : List α → List α → Prop
  | nil : Matched R [] []
  | cons {x y xs s r} : R x y = true → Matched R xs s → r.Perm (y :: s) → Matched R (x :: xs) r

theorem Matched.perm {R : α → α → Bool} {l r r' : List α} (h : Matched R l r) (hp : r.Perm r') :
    Matched R l r' := by
  cases h with
  | nil => have := hp.symm.eq_nil; subst this; exact .nil
  | cons hxy hm hr => exact .cons hxy hm (hp.symm.trans hr)

theorem greedy_sound (R : α → α → Bool) (l r : List α) (h : greedy R l r = true) : Matched R l r := by
  induction l generalizing r with
  | nil => simp [greedy] at h; subst h; exact .nil
  | cons x xs ih =>
    simp only [greedy] at h
    cases hrf : removeFirst (R x) r with
    | none => simp [hrf] at h
    | some r' =>
      simp [hrf] at h
      obtain ⟨y, hy, hp⟩ := removeFirst_some hrf
      exact .cons hy (ih _ h) hp

open Classical in
/-- replace one occurrence of z on the right by y, when everything related to z is related to y -/
theorem Matched.replace {R : α → α → Bool} {l s s0 : List α} {z y : α}
    (h : Matched R l s) (hs : s.Perm (z :: s0)) (hzy : ∀ w, R w z = true → R w y = true) :
    Matched R l (y :: s0) := by
  induction h generalizing s0 with
  | nil => exact absurd hs.symm.eq_nil (by simp)
  | @cons x' y' xs' s' r hxy hm hr ih =>
    -- r ~ y' :: s'  and r ~ z :: s0
    have h1 : (y' :: s').Perm (z :: s0) := hr.symm.trans hs
    by_cases hyz : y' = z
    · subst hyz
      exact .cons (hzy _ hxy) (hm.perm h1.cons_inv) (List.Perm.refl _)
    · have hzmem : z ∈ s' := by
        have : z ∈ y' :: s' := h1.symm.subset (by simp)
        simp at this; rcases this with h | h
        · exact absurd h.symm hyz
        · exact h
      have hs' : s'.Perm (z :: s'.erase z) := List.perm_cons_erase hzmem
      have ih' := ih hs'
      -- s0 ~ y' :: s'.erase z
      have h2 : (z :: y' :: s'.erase z).Perm (z :: s0) :=
        ((List.Perm.swap y' z _).trans (List.Perm.cons y' hs'.symm)).trans h1
      have h3 : (y' :: s'.erase z).Perm s0 := h2.cons_inv
      refine .cons hxy ih' ?_
      exact (List.Perm.cons y h3.symm).trans (List.Perm.swap y' y _)

theorem greedy_complete (R : α → α → Bool)
    (symm : ∀ a b, R a b = true → R b a = true)
    (trans : ∀ a b c, R a b = true → R b c = true → R a c = true)
    (l r : List α) (h : Matched R l r) : greedy R l r = true := by
  induction l generalizing r with
  | nil => cases h; simp [greedy]
  | cons x xs ih =>
    cases h with
    | @cons _ y _ s _ hxy hm hr =>
      simp only [greedy]
      cases hrf : removeFirst (R x) r with
      | none =>
        have := removeFirst_none hrf y (hr.symm.subset (by simp))
        simp [hxy] at this
      | some r2 =>
        simp
        obtain ⟨z, hz, hp⟩ := removeFirst_some hrf
        apply ih
        -- r ~ y :: s and r ~ z :: r2 ; want Matched xs r2
        have h1 : (y :: s).Perm (z :: r2) := hr.symm.trans hp
        by_cases hyz : y = z
        · subst hyz; exact hm.perm h1.cons_inv
        · have hzmem : z ∈ s := by
            have : z ∈ y :: s := h1.symm.subset (by simp)
            simp at this; rcases this with h | h
            · exact absurd h.symm hyz
            · exact h
          open Classical in
          have hs : s.Perm (z :: s.erase z) := List.perm_cons_erase hzmem
          have hrep := hm.replace hs (fun w hw => trans w x y (trans w z x hw (symm x z hz)) hxy)
          -- y :: s.erase z ~ r2
          open Classical in
          have h2 : (z :: y :: s.erase z).Perm (z :: r2) :=
            ((List.Perm.swap y z _).trans (List.Perm.cons y hs.symm)).trans h1
          exact hrep.perm h2.cons_inv

theorem greedy_iff (R : α → α → Bool)
    (symm : ∀ a b, R a b = true → R b a = true)
    (trans : ∀ a b c, R a b = true → R b c = true → R a c = true)
    (l r : List α) : greedy R l r = true ↔ Matched R l r :=
  ⟨greedy_sound R l r, greedy_complete R symm trans l r⟩

end Gedcom.G
