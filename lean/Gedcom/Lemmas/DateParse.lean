/-
  Helper lemmas for C04 about the date-parse model (core Lean only).
-/
import Gedcom.Model.DateParse
namespace Gedcom

/-! ## bytes -/

/-- printable, non-space ASCII: what every token of the date grammar is made of -/
def solidB (b : UInt8) : Bool := 33 ≤ b.toNat && b.toNat ≤ 126

theorem digitB_toNat {n : Nat} (h : n < 10) : (digitB n).toNat = 48 + n := by
  simp [digitB, UInt8.toNat_ofNat]; omega

theorem isDigitB_digitB {n : Nat} (h : n < 10) : isDigitB (digitB n) = true := by
  simp [isDigitB, digitB_toNat h]; omega

theorem solidB_of_digit {b : UInt8} (h : isDigitB b = true) : solidB b = true := by
  simp [isDigitB, solidB] at *; omega

theorem isWordB_of_digit {b : UInt8} (h : isDigitB b = true) : isWordB b = true := by
  simp [isWordB, h]

theorem ne32_of_solid {b : UInt8} (h : solidB b = true) : b ≠ 32 := by
  intro e; subst e; simp [solidB] at h

theorem toNat_ne_of_ne {a b : UInt8} (h : a ≠ b) : a.toNat ≠ b.toNat := by
  intro e; exact h (UInt8.toNat_inj.mp e)

theorem toLowerB_toNat (b : UInt8) :
    (toLowerB b).toNat = if 65 ≤ b.toNat ∧ b.toNat ≤ 90 then b.toNat + 32 else b.toNat := by
  unfold toLowerB isUpperB
  by_cases h : 65 ≤ b.toNat ∧ b.toNat ≤ 90
  · have h1 : (decide (65 ≤ b.toNat) && decide (b.toNat ≤ 90)) = true := by simp [h]
    rw [if_pos h1, if_pos h, UInt8.toNat_add]; simp; omega
  · have h1 : ¬ (decide (65 ≤ b.toNat) && decide (b.toNat ≤ 90)) = true := by simpa using h
    rw [if_neg h1, if_neg h]

/-- two bytes with the same lower-case form agree on every class the matchers look at -/
theorem classes_of_lower_eq {a b : UInt8} (h : toLowerB a = toLowerB b) :
    isDigitB a = isDigitB b ∧ isWordB a = isWordB b ∧ solidB a = solidB b ∧ (a = 32 ↔ b = 32) := by
  have h' := congrArg UInt8.toNat h
  rw [toLowerB_toNat, toLowerB_toNat] at h'
  have e32 : (a = 32 ↔ b = 32) := by
    constructor
    · intro e; subst e; apply UInt8.toNat_inj.mp; simp at h'; split at h' <;> simp <;> omega
    · intro e; subst e; apply UInt8.toNat_inj.mp; simp at h'; split at h' <;> simp <;> omega
  refine ⟨?_, ?_, ?_, e32⟩
  · simp only [isDigitB]; split at h' <;> split at h' <;> (rw [Bool.eq_iff_iff]; simp; omega)
  · simp only [isWordB, isDigitB, isUpperB, isLowerB]; split at h' <;> split at h' <;> (rw [Bool.eq_iff_iff]; simp; omega)
  · simp only [solidB]; split at h' <;> split at h' <;> (rw [Bool.eq_iff_iff]; simp; omega)

/-! ## decimal numbers -/

theorem natToDecAux_fuel (f n : Nat) (h : n ≤ f) : natToDecAux f n = natToDecAux n n := by
  induction n using Nat.strongRecOn generalizing f with
  | _ n ih =>
    cases f with
    | zero =>
      have : n = 0 := by omega
      subst this; rfl
    | succ f =>
      cases n with
      | zero => simp [natToDecAux]
      | succ n =>
        simp only [natToDecAux]
        by_cases h10 : n + 1 < 10
        · simp [h10]
        · simp only [h10, if_false]
          rw [ih ((n + 1) / 10) (by omega) f (by omega), ih ((n + 1) / 10) (by omega) n (by omega)]

theorem natToDec_lt10 {n : Nat} (h : n < 10) : natToDec n = [digitB n] := by
  unfold natToDec
  cases n with
  | zero => rfl
  | succ n => simp [natToDecAux, h]

theorem natToDec_ge10 {n : Nat} (h : ¬ n < 10) :
    natToDec n = natToDec (n / 10) ++ [digitB (n % 10)] := by
  unfold natToDec
  cases n with
  | zero => omega
  | succ n =>
    simp only [natToDecAux, h, if_false]
    rw [natToDecAux_fuel n ((n + 1) / 10) (by omega)]

theorem natToDec_digits (n : Nat) : ∀ b ∈ natToDec n, isDigitB b = true := by
  induction n using Nat.strongRecOn with
  | _ n ih =>
    by_cases h : n < 10
    · rw [natToDec_lt10 h]; intro b hb; simp at hb; subst hb; exact isDigitB_digitB h
    · rw [natToDec_ge10 h]; intro b hb
      rcases List.mem_append.mp hb with hb | hb
      · exact ih (n / 10) (by omega) b hb
      · simp at hb; subst hb; exact isDigitB_digitB (by omega)

theorem natToDec_ne_nil (n : Nat) : natToDec n ≠ [] := by
  by_cases h : n < 10
  · rw [natToDec_lt10 h]; simp
  · rw [natToDec_ge10 h]; simp

/-- no leading zero -/
theorem natToDec_head {n : Nat} (hn : 1 ≤ n) :
    ∃ b r, natToDec n = b :: r ∧ b ≠ 48 ∧ isDigitB b = true := by
  induction n using Nat.strongRecOn with
  | _ n ih =>
    by_cases h : n < 10
    · refine ⟨digitB n, [], natToDec_lt10 h, ?_, isDigitB_digitB h⟩
      intro e; have := congrArg UInt8.toNat e; rw [digitB_toNat h] at this; simp at this; omega
    · obtain ⟨b, r, e, hb, hd⟩ := ih (n / 10) (by omega) (by omega)
      exact ⟨b, r ++ [digitB (n % 10)], by rw [natToDec_ge10 h, e]; rfl, hb, hd⟩

theorem decToNat_append_one (a : Str) (c : UInt8) :
    decToNat (a ++ [c]) = decToNat a * 10 + (c.toNat - 48) := by
  simp [decToNat, List.foldl_append]

theorem decToNat_natToDec (n : Nat) : decToNat (natToDec n) = n := by
  induction n using Nat.strongRecOn with
  | _ n ih =>
    by_cases h : n < 10
    · rw [natToDec_lt10 h]; simp [decToNat, digitB_toNat h]
    · rw [natToDec_ge10 h, decToNat_append_one, ih (n / 10) (by omega), digitB_toNat (by omega)]
      omega

theorem isDigits_natToDec (n : Nat) : isDigits (natToDec n) = true := by
  unfold isDigits
  have h1 := natToDec_ne_nil n
  have h2 := natToDec_digits n
  cases e : natToDec n with
  | nil => exact absurd e h1
  | cons a r => rw [e] at h2; simp [List.all_eq_true]; exact ⟨h2 a (by simp), fun x hx => h2 x (by simp [hx])⟩

/-! ## lists -/

theorem takeWhile_dropWhile_append {p : UInt8 → Bool} {D rest : Str}
    (hD : ∀ b ∈ D, p b = true) (hr : ∀ c r, rest = c :: r → p c = false) :
    (D ++ rest).takeWhile p = D ∧ (D ++ rest).dropWhile p = rest := by
  induction D with
  | nil =>
    cases rest with
    | nil => simp
    | cons c r => have := hr c r rfl; simp [this]
  | cons a D ih =>
    have ha : p a = true := hD a (by simp)
    have := ih (fun b hb => hD b (by simp [hb]))
    simp [ha, this]

theorem take_append_length (a b : Str) : (a ++ b).take a.length = a := by
  induction a with
  | nil => simp
  | cons x a ih => simp [ih]

theorem drop_append_length (a b : Str) : (a ++ b).drop a.length = b := by
  induction a with
  | nil => simp
  | cons x a ih => simp [ih]

/-! ## white space -/

theorem solid_ne {b : UInt8} (h : solidB b = true) (c : UInt8) (hc : solidB c = false) : b ≠ c := by
  intro e; subst e; simp [h] at hc

theorem solid_not_space {b : UInt8} (h : solidB b = true) : isAsciiSpaceB b = false := by
  unfold isAsciiSpaceB
  simp [solid_ne h 9 (by decide), solid_ne h 10 (by decide), solid_ne h 11 (by decide),
    solid_ne h 12 (by decide), solid_ne h 13 (by decide), solid_ne h 32 (by decide)]

theorem solid_not_lead2 {b : UInt8} (h : solidB b = true) (x : UInt8) : isSpace2 b x = false := by
  unfold isSpace2; simp [solid_ne h 0xC2 (by decide)]

theorem solid_not_lead3 {b : UInt8} (h : solidB b = true) (x y : UInt8) : isSpace3 b x y = false := by
  unfold isSpace3
  simp [solid_ne h 0xE1 (by decide), solid_ne h 0xE2 (by decide), solid_ne h 0xE3 (by decide)]

theorem solid_not_last2 {c : UInt8} (h : solidB c = true) (x : UInt8) : isSpace2 x c = false := by
  unfold isSpace2; simp [solid_ne h 0x85 (by decide), solid_ne h 0xA0 (by decide)]

theorem solid_not_last3 {c : UInt8} (h : solidB c = true) (x y : UInt8) : isSpace3 x y c = false := by
  unfold isSpace3
  have hc : c.toNat ≤ 126 := by simp [solidB] at h; omega
  have h1 : ¬ (0x80 ≤ c.toNat) := by omega
  simp [solid_ne h 0x80 (by decide), solid_ne h 0xA8 (by decide), solid_ne h 0xA9 (by decide),
    solid_ne h 0xAF (by decide), solid_ne h 0x9F (by decide)]
  intro _ _; omega

theorem dropSpaceRune_solid {b : UInt8} (r : Str) (h : solidB b = true) :
    dropSpaceRune (b :: r) = none := by
  cases r with
  | nil => simp [dropSpaceRune, solid_not_space h]
  | cons x r =>
    cases r with
    | nil => simp [dropSpaceRune, solid_not_space h, solid_not_lead2 h]
    | cons y r => simp [dropSpaceRune, solid_not_space h, solid_not_lead2 h, solid_not_lead3 h]

theorem dropSpaceRuneRev_solid {c : UInt8} (r : Str) (h : solidB c = true) :
    dropSpaceRuneRev (c :: r) = none := by
  cases r with
  | nil => simp [dropSpaceRuneRev, solid_not_space h]
  | cons x r =>
    cases r with
    | nil => simp [dropSpaceRuneRev, solid_not_space h, solid_not_last2 h]
    | cons y r => simp [dropSpaceRuneRev, solid_not_space h, solid_not_last2 h, solid_not_last3 h]

theorem trimFuel_none {f : Str → Option Str} {s : Str} (h : f s = none) (n : Nat) :
    trimFuel f n s = s := by
  cases n <;> simp [trimFuel, h]

def spaces (n : Nat) : Str := List.replicate n 32

theorem trimLeft_space (s : Str) : trimLeft (32 :: s) = trimLeft s := by
  simp [trimLeft, trimFuel, dropSpaceRune, isAsciiSpaceB]

theorem trimLeft_solid {b : UInt8} (r : Str) (h : solidB b = true) : trimLeft (b :: r) = b :: r :=
  trimFuel_none (dropSpaceRune_solid r h) _

theorem trimLeft_nil : trimLeft [] = [] := rfl

theorem trimRight_space (s : Str) : trimRight (s ++ [32]) = trimRight s := by
  simp [trimRight, trimFuel, dropSpaceRuneRev, isAsciiSpaceB]

theorem trimRight_solid (s : Str) {c : UInt8} (h : solidB c = true) :
    trimRight (s ++ [c]) = s ++ [c] := by
  unfold trimRight
  rw [List.reverse_append, List.reverse_singleton, List.singleton_append,
    trimFuel_none (dropSpaceRuneRev_solid _ h)]
  simp

theorem trimRight_nil : trimRight [] = [] := rfl

/-- a string that starts and ends with a printable non-space ASCII byte -/
def Edged (s : Str) : Prop :=
  (∃ b r, s = b :: r ∧ solidB b = true) ∧ (∃ r c, s = r ++ [c] ∧ solidB c = true)

theorem trimSpace_edged {s : Str} (h : Edged s) (a b : Nat) :
    trimSpace (spaces a ++ s ++ spaces b) = s := by
  obtain ⟨⟨x, r, e1, hx⟩, ⟨r', c, e2, hc⟩⟩ := h
  unfold trimSpace
  have hr : ∀ b, trimRight (s ++ spaces b) = s := by
    intro b
    induction b with
    | zero => simp only [spaces, List.replicate_zero, List.append_nil]; rw [e2]; exact trimRight_solid _ hc
    | succ b ih =>
      have : s ++ spaces (b + 1) = (s ++ spaces b) ++ [32] := by
        simp [spaces, List.replicate_succ']
      rw [this, trimRight_space]; exact ih
  have hl : trimLeft (spaces a ++ s ++ spaces b) = s ++ spaces b := by
    induction a with
    | zero => simp only [spaces, List.replicate_zero, List.nil_append]; rw [e1]; exact trimLeft_solid _ hx
    | succ a ih =>
      simp only [spaces, List.replicate_succ, List.cons_append] at ih ⊢
      rw [trimLeft_space]; exact ih
  rw [hl]; exact hr b

/-! ## `CleanSpace` on a sentence written with generous spacing -/

theorem collapse_cons_ne {b : UInt8} (r : Str) (h : b ≠ 32) :
    collapseSpaces (b :: r) = b :: collapseSpaces r := by
  simp [collapseSpaces, h]

theorem collapse_space_ne {c : UInt8} (r : Str) (h : c ≠ 32) :
    collapseSpaces (32 :: c :: r) = 32 :: collapseSpaces (c :: r) := by
  have : ¬ (c = 32) := h
  rw [collapseSpaces]; simp [this]

theorem collapse_space_space (r : Str) :
    collapseSpaces (32 :: 32 :: r) = collapseSpaces (32 :: r) := by
  rw [collapseSpaces]; simp

theorem collapse_spaces_cons {c : UInt8} (r : Str) (h : c ≠ 32) (g : Nat) :
    collapseSpaces (spaces g ++ c :: r) = spaces (min g 1) ++ collapseSpaces (c :: r) := by
  induction g with
  | zero => simp [spaces]
  | succ g ih =>
    cases g with
    | zero => simp [spaces, collapse_space_ne r h]
    | succ g =>
      have e : spaces (g + 1 + 1) ++ c :: r = 32 :: 32 :: (spaces g ++ c :: r) := by
        simp [spaces, List.replicate_succ]
      have e' : spaces (g + 1) ++ c :: r = 32 :: (spaces g ++ c :: r) := by
        simp [spaces, List.replicate_succ]
      rw [e, collapse_space_space, ← e', ih]
      have h1 : min (g + 1) 1 = 1 := by omega
      have h2 : min (g + 1 + 1) 1 = 1 := by omega
      rw [h1, h2]

theorem collapse_spaces (g : Nat) : collapseSpaces (spaces g) = spaces (min g 1) := by
  induction g with
  | zero => simp [spaces, collapseSpaces]
  | succ g ih =>
    cases g with
    | zero => simp [spaces, collapseSpaces]
    | succ g =>
      have e : spaces (g + 1 + 1) = 32 :: 32 :: spaces g := by simp [spaces, List.replicate_succ]
      have e' : spaces (g + 1) = 32 :: spaces g := by simp [spaces, List.replicate_succ]
      rw [e, collapse_space_space, ← e', ih]
      have h1 : min (g + 1) 1 = 1 := by omega
      have h2 : min (g + 1 + 1) 1 = 1 := by omega
      rw [h1, h2]

theorem collapse_solid_append {t : Str} (r : Str) (h : ∀ b ∈ t, solidB b = true) :
    collapseSpaces (t ++ r) = t ++ collapseSpaces r := by
  induction t with
  | nil => rfl
  | cons a t ih =>
    rw [List.cons_append, collapse_cons_ne _ (ne32_of_solid (h a (by simp))),
      ih (fun b hb => h b (by simp [hb]))]
    rfl

/-- a token: non-empty, printable non-space ASCII -/
def Solid (t : Str) : Prop := t ≠ [] ∧ ∀ b ∈ t, solidB b = true

/-- tokens, each preceded by a number of spaces, and trailing spaces -/
def render : List (Nat × Str) → Nat → Str
  | [], g => spaces g
  | p :: rest, gEnd => spaces p.1 ++ p.2 ++ render rest gEnd

/-- tokens separated by exactly one space -/
def joinSp : List Str → Str
  | [] => []
  | [t] => t
  | t :: t' :: ts => t ++ 32 :: joinSp (t' :: ts)

theorem collapse_render (toks : List (Nat × Str)) (gEnd : Nat) (h : ∀ p ∈ toks, Solid p.2) :
    collapseSpaces (render toks gEnd) =
      render (toks.map fun p => (min p.1 1, p.2)) (min gEnd 1) := by
  induction toks with
  | nil => simp [render, collapse_spaces]
  | cons p rest ih =>
    obtain ⟨hne, hs⟩ := h p (by simp)
    cases e : p.2 with
    | nil => exact absurd e hne
    | cons c t =>
      have hc : solidB c = true := hs c (by simp [e])
      have ht : ∀ b ∈ c :: t, solidB b = true := by rw [← e]; exact hs
      simp only [render, List.map_cons, e]
      rw [List.append_assoc, List.cons_append, collapse_spaces_cons _ (ne32_of_solid hc),
        ← List.cons_append, collapse_solid_append _ ht, ih (fun q hq => h q (by simp [hq]))]
      simp

/-- the spacing `CleanSpace` copes with: any number of spaces before the first token (and after the
    last), at least one between tokens -/
def GapsOK : List (Nat × Str) → Prop
  | [] => False
  | _ :: rest => ∀ q ∈ rest, 1 ≤ q.1

theorem render_unit (g0 : Nat) (t : Str) (rest : List (Nat × Str)) (e : Nat)
    (h : ∀ q ∈ rest, q.1 = 1) :
    render ((g0, t) :: rest) e = spaces g0 ++ joinSp (t :: rest.map (·.2)) ++ spaces e := by
  induction rest generalizing g0 t with
  | nil => simp [render, joinSp]
  | cons q rest ih =>
    have hq : q.1 = 1 := h q (by simp)
    have := ih q.1 q.2 (fun x hx => h x (by simp [hx]))
    simp only [render] at this ⊢
    rw [this, hq]
    simp [joinSp, spaces]

theorem solid_head {t : Str} (h : Solid t) : ∃ b r, t = b :: r ∧ solidB b = true := by
  obtain ⟨hne, hs⟩ := h
  cases t with
  | nil => exact absurd rfl hne
  | cons b r => exact ⟨b, r, rfl, hs b (by simp)⟩

theorem solid_last {t : Str} (h : Solid t) : ∃ r c, t = r ++ [c] ∧ solidB c = true := by
  obtain ⟨hne, hs⟩ := h
  refine ⟨t.dropLast, t.getLast hne, (List.dropLast_concat_getLast hne).symm, hs _ (List.getLast_mem hne)⟩

theorem edged_joinSp (t : Str) (ts : List Str) (h : ∀ x ∈ t :: ts, Solid x) :
    Edged (joinSp (t :: ts)) := by
  induction ts generalizing t with
  | nil => exact ⟨solid_head (h t (by simp)), solid_last (h t (by simp))⟩
  | cons t' ts ih =>
    obtain ⟨_, ⟨r, c, e, hc⟩⟩ := ih t' (fun x hx => h x (by simp at hx ⊢; right; exact hx))
    obtain ⟨b, r0, e0, hb⟩ := solid_head (h t (by simp))
    refine ⟨⟨b, r0 ++ 32 :: joinSp (t' :: ts), by simp [joinSp, e0], hb⟩,
            ⟨t ++ 32 :: r, c, by simp [joinSp, e], hc⟩⟩

/-- `CleanSpace` turns any spacing into single spaces -/
theorem cleanSpace_render (toks : List (Nat × Str)) (gEnd : Nat) (hg : GapsOK toks)
    (hs : ∀ p ∈ toks, Solid p.2) :
    cleanSpace (render toks gEnd) = joinSp (toks.map (·.2)) := by
  cases toks with
  | nil => exact absurd hg (by simp [GapsOK])
  | cons p rest =>
    have hrest : ∀ q ∈ rest, 1 ≤ q.1 := hg
    unfold cleanSpace
    rw [collapse_render _ _ hs]
    simp only [List.map_cons]
    rw [render_unit]
    · have := trimSpace_edged (edged_joinSp p.2 (rest.map (·.2)) (by
        intro x hx
        simp only [List.mem_cons, List.mem_map] at hx
        rcases hx with rfl | ⟨q, hq, rfl⟩
        · exact hs p (by simp)
        · exact hs q (by simp [hq]))) (min p.1 1) (min gEnd 1)
      simpa [Function.comp_def] using this
    · intro q hq
      simp only [List.mem_map] at hq
      obtain ⟨x, hx, rfl⟩ := hq
      have := hrest x hx
      simp only; omega

/-! ## the single-date pattern on tokens -/

theorem spanWord_space (r : Str) : spanWord (32 :: r) = ([], 32 :: r) := by
  simp [spanWord, spanWordAux, isWordB, isDigitB, isUpperB, isLowerB]

theorem spanWord_word_space {w : Str} (r : Str) (hw : ∀ b ∈ w, isWordB b = true) :
    spanWord (w ++ 32 :: r) = (w, 32 :: r) := by
  induction w with
  | nil => exact spanWord_space r
  | cons a w ih =>
    have ha : isWordB a = true := hw a (by simp)
    have := ih (fun b hb => hw b (by simp [hb]))
    unfold spanWord at this ⊢
    simp [spanWordAux, ha, this]

theorem spanWord_word_nil {w : Str} (hw : ∀ b ∈ w, isWordB b = true) : spanWord w = (w, []) := by
  induction w with
  | nil => simp [spanWord, spanWordAux]
  | cons a w ih =>
    have ha : isWordB a = true := hw a (by simp)
    have := ih (fun b hb => hw b (by simp [hb]))
    unfold spanWord at this ⊢
    simp [spanWordAux, ha, this]

theorem isDigits_all {s : Str} (h : isDigits s = true) : ∀ b ∈ s, isDigitB b = true := by
  unfold isDigits at h; simp at h; exact h.2

theorem isDigits_ne_nil {s : Str} (h : isDigits s = true) : s ≠ [] := by
  intro e; subst e; simp [isDigits] at h

theorem isDigits_word {s : Str} (h : isDigits s = true) : ∀ b ∈ s, isWordB b = true :=
  fun b hb => isWordB_of_digit (isDigits_all h b hb)

theorem isDigits_iff (s : Str) : isDigits s = true ↔ s ≠ [] ∧ ∀ b ∈ s, isDigitB b = true := by
  unfold isDigits; cases s <;> simp

/-- month group and year -/
theorem matchMonthYear_month (day : Str) {w y : Str} (hne : w ≠ [])
    (hw : ∀ b ∈ w, isWordB b = true) (hy : isDigits y = true) :
    matchMonthYear day (w ++ 32 :: y) = some (day, w ++ [32], y) := by
  unfold matchMonthYear
  rw [spanWord_word_space _ hw]
  have : w.isEmpty = false := by cases w <;> simp at hne ⊢
  simp [this, hy]

/-- year only -/
theorem matchMonthYear_year (day : Str) {y : Str} (hy : isDigits y = true) :
    matchMonthYear day y = some (day, [], y) := by
  unfold matchMonthYear
  rw [spanWord_word_nil (isDigits_word hy)]
  simp [hy]

/-- `day month year` -/
theorem matchTail_dmy {d w y : Str} (hd : isDigits d = true) (hne : w ≠ [])
    (hw : ∀ b ∈ w, isWordB b = true) (hy : isDigits y = true) :
    matchTail (d ++ 32 :: (w ++ 32 :: y)) = some (d ++ [32], w ++ [32], y) := by
  unfold matchTail
  obtain ⟨h1, h2⟩ := takeWhile_dropWhile_append (p := isDigitB) (D := d) (rest := 32 :: (w ++ 32 :: y))
    (isDigits_all hd) (by intro c r e; simp at e; rw [← e.1]; decide)
  rw [h1, h2]
  have : d.isEmpty = false := by have := isDigits_ne_nil hd; cases d <;> simp at this ⊢
  simp [this, matchMonthYear_month _ hne hw hy]

/-- `month year`: the month word starts with a byte that is neither a digit nor a space -/
theorem matchTail_my {w0 : UInt8} {w y : Str} (h0 : isDigitB w0 = false) (h32 : w0 ≠ 32)
    (hw : ∀ b ∈ w0 :: w, isWordB b = true) (hy : isDigits y = true) :
    matchTail (w0 :: w ++ 32 :: y) = some ([], w0 :: w ++ [32], y) := by
  unfold matchTail
  have h1 : (w0 :: w ++ 32 :: y).takeWhile isDigitB = [] := by simp [h0]
  have h2 : (w0 :: w ++ 32 :: y).dropWhile isDigitB = w0 :: (w ++ 32 :: y) := by simp [h0]
  rw [h1, h2]
  have := matchMonthYear_month [] (w := w0 :: w) (by simp) hw hy
  split
  · next r2 e => simp at e; exact absurd e.1 h32
  · simpa using this

/-- `year` -/
theorem matchTail_y {y : Str} (hy : isDigits y = true) : matchTail y = some ([], [], y) := by
  unfold matchTail
  obtain ⟨h1, h2⟩ := takeWhile_dropWhile_append (p := isDigitB) (D := y) (rest := [])
    (isDigits_all hy) (by intro c r e; simp at e)
  simp only [List.append_nil] at h1 h2
  rw [h2]
  exact matchMonthYear_year [] hy

/-! ## keyword prefixes -/

theorem toLowerB_idem (b : UInt8) : toLowerB (toLowerB b) = toLowerB b := by
  apply UInt8.toNat_inj.mp
  rw [toLowerB_toNat (toLowerB b), toLowerB_toNat b]
  by_cases h : 65 ≤ b.toNat ∧ b.toNat ≤ 90
  · rw [if_pos h]
    have : ¬ (65 ≤ b.toNat + 32 ∧ b.toNat + 32 ≤ 90) := by omega
    rw [if_neg this]
  · rw [if_neg h, if_neg h]

theorem toLowerB_32 : toLowerB 32 = 32 := by decide

theorem hasPrefixCI_lower (k s : Str) : hasPrefixCI k (lowerStr s) = hasPrefixCI k s := by
  induction k generalizing s with
  | nil => simp [hasPrefixCI]
  | cons k0 k ih =>
    cases s with
    | nil => simp [hasPrefixCI, lowerStr]
    | cons a s =>
      have := ih s
      simp only [lowerStr, List.map_cons] at this ⊢
      simp [hasPrefixCI, toLowerB_idem, this]

theorem hasPrefixCI_of_lower_eq (k : Str) {s t : Str} (h : lowerStr s = lowerStr t) :
    hasPrefixCI k s = hasPrefixCI k t := by
  rw [← hasPrefixCI_lower k s, ← hasPrefixCI_lower k t, h]

/-- a keyword without spaces is a prefix of `T␠…` iff it is a prefix of the token `T` -/
theorem hasPrefixCI_tok {k : Str} (hk : ∀ b ∈ k, b ≠ 32) (T B : Str) :
    hasPrefixCI k (T ++ 32 :: B) = hasPrefixCI k T := by
  induction k generalizing T with
  | nil => simp [hasPrefixCI]
  | cons k0 k ih =>
    cases T with
    | nil =>
      have h0 : k0 ≠ 32 := hk k0 (by simp)
      have : toLowerB k0 ≠ toLowerB 32 := by
        intro e; exact h0 ((classes_of_lower_eq e).2.2.2.mpr rfl)
      simp [hasPrefixCI, this]
    | cons t0 T =>
      have := ih (fun b hb => hk b (by simp [hb])) T
      simp [hasPrefixCI, this]

theorem hasPrefixCI_length {k s : Str} (h : hasPrefixCI k s = true) : k.length ≤ s.length := by
  induction k generalizing s with
  | nil => simp
  | cons k0 k ih =>
    cases s with
    | nil => simp [hasPrefixCI] at h
    | cons a s => simp [hasPrefixCI] at h; have := ih h.2; simp; omega

theorem lower_eq_of_hasPrefixCI {k s : Str} (h : hasPrefixCI k s = true) (hl : k.length = s.length) :
    lowerStr k = lowerStr s := by
  induction k generalizing s with
  | nil => cases s <;> simp_all [lowerStr]
  | cons k0 k ih =>
    cases s with
    | nil => simp at hl
    | cons a s =>
      simp [hasPrefixCI] at h
      have := ih h.2 (by simpa using hl)
      simp only [lowerStr, List.map_cons] at this ⊢
      rw [h.1, this]

theorem hasPrefixCI_head_ne {k0 a : UInt8} (k s : Str) (h : toLowerB k0 ≠ toLowerB a) :
    hasPrefixCI (k0 :: k) (a :: s) = false := by
  simp [hasPrefixCI, h]

/-! ## keyword iteration -/

/-- the first keyword alternative that is a prefix of the token -/
def firstHit (ks : List Str) (T : Str) : Option Str := ks.find? (fun k => hasPrefixCI k T)

theorem firstHit_lower_eq (ks : List Str) {s t : Str} (h : lowerStr s = lowerStr t) :
    firstHit ks s = firstHit ks t := by
  unfold firstHit
  have : (fun k => hasPrefixCI k s) = (fun k => hasPrefixCI k t) := by
    funext k; exact hasPrefixCI_of_lower_eq k h
  rw [this]

theorem matchDateKw_no_prefix {ks : List Str} {s : Str} (h : ∀ k ∈ ks, hasPrefixCI k s = false) :
    matchDateKw ks s = matchAfterKw [] s := by
  induction ks with
  | nil => rfl
  | cons k ks ih =>
    have hk := h k (by simp)
    rw [matchDateKw, if_neg (by simp [hk])]
    exact ih (fun k' hk' => h k' (by simp [hk']))

theorem matchDateKw_tok {ks : List Str} (hks : ∀ k ∈ ks, ∀ b ∈ k, b ≠ 32) {T B k : Str}
    (hf : firstHit ks T = some k) (hl : k.length = T.length) {p : DateParts}
    (hp : matchAfterKw T (32 :: B) = some p) :
    matchDateKw ks (T ++ 32 :: B) = some p := by
  induction ks with
  | nil => simp [firstHit] at hf
  | cons k1 ks ih =>
    have hpre : hasPrefixCI k1 (T ++ 32 :: B) = hasPrefixCI k1 T :=
      hasPrefixCI_tok (hks k1 (by simp)) T B
    unfold firstHit at hf
    rw [List.find?_cons] at hf
    rw [matchDateKw, hpre]
    cases hh : hasPrefixCI k1 T with
    | true =>
      rw [hh] at hf
      have e : k1 = k := by simpa using hf
      subst e
      rw [if_pos rfl, hl, take_append_length, drop_append_length, hp]
    | false =>
      rw [hh] at hf
      rw [if_neg (by simp)]
      exact ih (fun k' hk' => hks k' (by simp [hk'])) hf

theorem matchAfterKw_space {kw B : Str} {x : Str × Str × Str} (h : matchTail B = some x) :
    matchAfterKw kw (32 :: B) = some ⟨kw, x.1, x.2.1, x.2.2⟩ := by
  simp [matchAfterKw, h]

theorem matchAfterKw_nospace {kw : Str} {b : UInt8} {B : Str} (hb : b ≠ 32) {x : Str × Str × Str}
    (h : matchTail (b :: B) = some x) :
    matchAfterKw kw (b :: B) = some ⟨kw, x.1, x.2.1, x.2.2⟩ := by
  unfold matchAfterKw
  split
  · next t e => simp at e; exact absurd e.1 hb
  · simp [h]

end Gedcom
