/-
  C04 helper lemmas, part 5: whatever the date pattern matches ends in a digit (`(\d+)$`), for
  every string — so a value without a final number (missing year, trailing words) is invalid.
-/
import Gedcom.Lemmas.DateCanonical
namespace Gedcom

def endsWithDigit (s : Str) : Bool :=
  match s.getLast? with
  | some b => isDigitB b
  | none => false

theorem endsWithDigit_append {suf : Str} (pre : Str) (h : endsWithDigit suf = true) :
    endsWithDigit (pre ++ suf) = true := by
  cases suf with
  | nil => simp [endsWithDigit] at h
  | cons a r =>
    unfold endsWithDigit at h ⊢
    rw [List.getLast?_append]
    cases hl : (a :: r).getLast? with
    | none => rw [hl] at h; simp at h
    | some b => rw [hl] at h; simpa using h

theorem endsWithDigit_of_isDigits {s : Str} (h : isDigits s = true) : endsWithDigit s = true := by
  have hne := isDigits_ne_nil h
  unfold endsWithDigit
  rw [List.getLast?_eq_some_getLast hne]
  exact isDigits_all h _ (List.getLast_mem hne)

theorem spanWordAux_eq (k : Nat) (s : Str) : (spanWordAux k s).1 ++ (spanWordAux k s).2 = s := by
  induction s generalizing k with
  | nil => cases k <;> simp [spanWordAux]
  | cons a r ih =>
    cases k with
    | succ k => simp [spanWordAux, ih]
    | zero =>
      simp only [spanWordAux]
      split
      · simp [ih]
      · split
        · simp [ih]
        · split
          · simp [ih]
          · simp

theorem matchMonthYear_ends {day r : Str} {x : Str × Str × Str} (h : matchMonthYear day r = some x) :
    endsWithDigit r = true := by
  unfold matchMonthYear at h
  have he := spanWordAux_eq 0 r
  simp only at h
  split at h
  · next r4 hp =>
    split at h
    · next hc =>
      simp only [Bool.and_eq_true] at hc
      have : r = (spanWord r).1 ++ 32 :: r4 := by
        unfold spanWord at hp ⊢; rw [← hp]; exact he.symm
      rw [this]
      exact endsWithDigit_append _ (by
        have := endsWithDigit_append [32] (endsWithDigit_of_isDigits hc.2)
        simpa using this)
    · split at h
      · next hd => exact endsWithDigit_of_isDigits hd
      · simp at h
  · split at h
    · next hd => exact endsWithDigit_of_isDigits hd
    · simp at h

theorem matchTail_ends {s : Str} {x : Str × Str × Str} (h : matchTail s = some x) :
    endsWithDigit s = true := by
  unfold matchTail at h
  simp only at h
  split at h
  · next r2 hd =>
    have hs : s = s.takeWhile isDigitB ++ 32 :: r2 := by
      rw [← hd]; exact (List.takeWhile_append_dropWhile (p := isDigitB) (l := s)).symm
    split at h
    · split at h
      · next y hy =>
        rw [hs]
        exact endsWithDigit_append _ (by
          have := endsWithDigit_append [32] (matchMonthYear_ends hy)
          simpa using this)
      · exact matchMonthYear_ends h
    · exact matchMonthYear_ends h
  · exact matchMonthYear_ends h

theorem matchAfterKw_ends {kw r : Str} {p : DateParts} (h : matchAfterKw kw r = some p) :
    endsWithDigit r = true := by
  unfold matchAfterKw at h
  simp only at h
  split at h
  · next t =>
    cases ht : matchTail t with
    | some x =>
      have := endsWithDigit_append [32] (matchTail_ends ht)
      simpa using this
    | none =>
      rw [ht] at h
      simp only [Option.map_none] at h
      cases ht2 : matchTail (32 :: t) with
      | some x => exact matchTail_ends ht2
      | none => rw [ht2] at h; simp at h
  · cases ht : matchTail r with
    | some x => exact matchTail_ends ht
    | none => rw [ht] at h; simp at h

theorem matchDateKw_ends {ks : List Str} {s : Str} {p : DateParts} (h : matchDateKw ks s = some p) :
    endsWithDigit s = true := by
  induction ks with
  | nil => exact matchAfterKw_ends h
  | cons k ks ih =>
    rw [matchDateKw] at h
    split at h
    · split at h
      · next q hq =>
        have := endsWithDigit_append (s.take k.length) (matchAfterKw_ends hq)
        rwa [List.take_append_drop] at this
      · exact ih h
    · exact ih h

/-- the date pattern only matches strings that end in a digit -/
theorem matchDate_ends {s : Str} {p : DateParts} (h : matchDate s = some p) :
    endsWithDigit s = true := matchDateKw_ends h

theorem parseDateParts_no_digit {s : Str} (h : endsWithDigit s = false) :
    (parseDateParts s).isZero = true := by
  cases hm : matchDate s with
  | none => rw [parseDateParts_of_no_match hm]; rfl
  | some p => rw [matchDate_ends hm] at h; simp at h

/-! the second date of a range match is a non-empty suffix of the string -/

theorem sepWordAt_suffix {t w r : Str} (h : sepWordAt t = some (w, r)) : ∃ pre, t = pre ++ r := by
  unfold sepWordAt at h
  obtain ⟨aw, _, haw⟩ := List.exists_of_findSome?_eq_some h
  split at haw
  · split at haw
    · next r' hr =>
      simp at haw
      refine ⟨t.take aw.length ++ [32], ?_⟩
      rw [← haw.2, List.append_assoc, List.singleton_append, ← hr, List.take_append_drop]
    · simp at haw
  · simp at haw

theorem findSep_suffix {acc s l w r : Str} (h : findSep acc s = some (l, w, r)) :
    ∃ pre, s = pre ++ r ∧ r ≠ [] := by
  induction s generalizing acc with
  | nil => simp [findSep] at h
  | cons c cs ih =>
    rw [findSep] at h
    split at h
    · next x hx =>
      simp at h; subst h
      obtain ⟨pre, e, hne⟩ := ih hx
      exact ⟨c :: pre, by rw [e]; rfl, hne⟩
    · split at h
      · split at h
        · next w' r' hs =>
          split at h
          · next hr =>
            simp at h
            obtain ⟨pre, e⟩ := sepWordAt_suffix hs
            refine ⟨c :: pre, by rw [e, h.2.2]; rfl, ?_⟩
            rw [← h.2.2]; intro e'; rw [e'] at hr; simp at hr
          · simp at h
        · simp at h
      · simp at h

theorem matchRange_suffix {s : Str} {x : Str × Str × Str × Str} (h : matchRange s = some x) :
    ∃ pre, s = pre ++ x.2.2.2 ∧ x.2.2.2 ≠ [] := by
  unfold matchRange at h
  split at h
  · simp at h
  · obtain ⟨kw, _, hkw⟩ := List.exists_of_findSome?_eq_some h
    split at hkw
    · split at hkw
      · next rest hr =>
        cases hf : findSep [] rest with
        | none => rw [hf] at hkw; simp at hkw
        | some y =>
          rw [hf] at hkw
          simp at hkw
          obtain ⟨l, w, r⟩ := y
          obtain ⟨pre, e, hne⟩ := findSep_suffix hf
          refine ⟨s.take kw.length ++ 32 :: pre, ?_, by rw [← hkw]; exact hne⟩
          rw [← hkw]
          simp only
          rw [List.append_assoc, List.cons_append, ← e, ← hr, List.take_append_drop]
      · simp at hkw
    · simp at hkw

/-- a value whose cleaned form does not end in a digit is invalid -/
theorem parseDateRange_no_digit {s : Str} (h : endsWithDigit (cleanSpace s) = false) :
    (parseDateRange s).isValid = false := by
  unfold parseDateRange
  simp only
  split
  · next x hx =>
    obtain ⟨pre, e, hne⟩ := matchRange_suffix hx
    have : endsWithDigit x.2.2.2 = false := by
      rw [Bool.eq_false_iff]
      intro hd
      have := endsWithDigit_append pre hd
      rw [← e, h] at this; simp at this
    simp [DateRange.isValid, parseDateParts_no_digit this]
  · simp [DateRange.isValid, parseDateParts_no_digit h]

end Gedcom
