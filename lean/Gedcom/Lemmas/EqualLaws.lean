/-
  Permutation invariance and edit sensitivity of `deepEqual` (C07), from the matching lemmas and
  the symmetry / transitivity of Lemmas/Equal.lean.
-/
import Gedcom.Lemmas.Equal
namespace Gedcom
open G

mutual
/-- `Reorder a b`: `b` is `a` with the children re-ordered at any number of levels -/
inductive Reorder : Node → Node → Prop
  | mk {t v p : Str} {ks ks'' ks' : List Node} :
    ReorderL ks ks'' → ks''.Perm ks' → Reorder (.mk t v p ks) (.mk t v p ks')
/-- pointwise `Reorder` -/
inductive ReorderL : List Node → List Node → Prop
  | nil : ReorderL [] []
  | cons {a b : Node} {as bs : List Node} :
    Reorder a b → ReorderL as bs → ReorderL (a :: as) (b :: bs)
end

/-- `Edit a b`: `b` is `a` after one edit somewhere in the tree — the value of a plain node
    (one that uses the default `SimpleNode.Equals`) changed, a node inserted, or a node deleted -/
inductive Edit : Node → Node → Prop
  | change {t v v' p : Str} {ks : List Node} :
    Node.rule (.mk t v p ks) = .simple → v ≠ v' → Edit (.mk t v p ks) (.mk t v' p ks)
  | insert {t v p : Str} {pre post : List Node} {n : Node} :
    Edit (.mk t v p (pre ++ post)) (.mk t v p (pre ++ n :: post))
  | delete {t v p : Str} {pre post : List Node} {n : Node} :
    Edit (.mk t v p (pre ++ n :: post)) (.mk t v p (pre ++ post))
  | child {t v p : Str} {pre post : List Node} {c c' : Node} :
    Edit c c' → Edit (.mk t v p (pre ++ c :: post)) (.mk t v p (pre ++ c' :: post))

theorem Reorder.head {a b : Node} (h : Reorder a b) :
    a.tag = b.tag ∧ a.value = b.value ∧ a.ptr = b.ptr := by
  cases h; exact ⟨rfl, rfl, rfl⟩

theorem ReorderL.all2 {P : Node → Node → Prop} {l r : List Node} (h : ReorderL l r)
    (hp : ∀ a ∈ l, ∀ b, Reorder a b → P a b) : All2 P l r := by
  induction l generalizing r with
  | nil => cases h; exact .nil
  | cons x xs ih =>
    cases h with
    | cons hab hrest =>
      exact .cons (hp x (by simp) _ hab) (ih hrest (fun a ha b hb => hp a (by simp [ha]) b hb))

theorem ReorderL.mem_left {l r : List Node} (h : ReorderL l r) {x : Node} (hx : x ∈ l) :
    ∃ y ∈ r, Reorder x y := by
  induction l generalizing r with
  | nil => cases hx
  | cons a as ih =>
    cases h with
    | @cons _ b _ bs hab hrest =>
      rcases List.mem_cons.mp hx with rfl | hx
      · exact ⟨b, by simp, hab⟩
      · obtain ⟨y, hy, hxy⟩ := ih hrest hx
        exact ⟨y, by simp [hy], hxy⟩

theorem ReorderL.mem_right {l r : List Node} (h : ReorderL l r) {y : Node} (hy : y ∈ r) :
    ∃ x ∈ l, Reorder x y := by
  induction l generalizing r with
  | nil => cases h; cases hy
  | cons a as ih =>
    cases h with
    | @cons _ b _ bs hab hrest =>
      rcases List.mem_cons.mp hy with rfl | hy
      · exact ⟨a, by simp, hab⟩
      · obtain ⟨x, hx, hxy⟩ := ih hrest hy
        exact ⟨x, by simp [hx], hxy⟩

/-- filtering both lists by a predicate that depends on the tag only keeps them pointwise related -/
theorem ReorderL.filter {l r : List Node} (h : ReorderL l r) (f : Node → Bool)
    (hf : ∀ a b, Reorder a b → f a = f b) : ReorderL (l.filter f) (r.filter f) := by
  induction l generalizing r with
  | nil => cases h; exact .nil
  | cons a as ih =>
    cases h with
    | @cons _ b _ bs hab hrest =>
      have e := hf a b hab
      cases hfa : f a
      · rw [List.filter_cons_of_neg (by simp [hfa]), List.filter_cons_of_neg (by simp [← e, hfa])]
        exact ih hrest
      · rw [List.filter_cons_of_pos hfa, List.filter_cons_of_pos (by rw [← e]; exact hfa)]
        exact .cons hab (ih hrest)

theorem isDate_reorder {a b : Node} (h : Reorder a b) : isDate a = isDate b := by
  simp [isDate, h.head.1]
theorem isPlace_reorder {a b : Node} (h : Reorder a b) : isPlace a = isPlace b := by
  simp [isPlace, h.head.1]

section perm
variable (D : List Str) (hD : dateEquiv D = true)
include hD

/-- pointwise deep-equal lists, one of them permuted, are `DeepEqualNodes` (greedy completeness
    needs the guard on the elements) -/
theorem nodes_of_all2_perm {l r'' r : List Node} (hl : ∀ x ∈ l, okNode D x = true)
    (hr : ∀ x ∈ r, okNode D x = true) (h : F2 deepEqual l r'') (hp : r''.Perm r) :
    deepEqualNodes l r = true := by
  rw [deepEqualNodes_eq_greedy]
  exact greedy_complete_on (okNode D) _
    (fun a b ha hb => deepEqual_symm_of_ok D hD a b ha hb)
    (fun a b c ha hb hc => deepEqual_trans_of_ok D hD a b c ha hb hc)
    _ _ hl hr (Matched.of_forall2_perm h hp)

theorem deepEqual_of_reorder : ∀ (n : Nat) (a b : Node), a.size ≤ n → Reorder a b →
    okNode D a = true → okNode D b = true → deepEqual a b = true := by
  intro n
  induction n with
  | zero => intro a _ h; have := a.size_pos; omega
  | succ n ih =>
    intro a b hs h ha hb
    cases h with
    | @mk t v p ks ks'' ks' hL hP =>
      have hkid : ∀ k ∈ ks, k.size ≤ n := fun k hk => by
        have := Node.size_kid (t := t) (v := v) (p := p) hk; omega
      have hoka : ∀ k ∈ ks, okNode D k = true := fun k hk => okNode_kid ha hk
      have hokb : ∀ k ∈ ks', okNode D k = true := fun k hk => okNode_kid hb hk
      have hokb'' : ∀ k ∈ ks'', okNode D k = true := fun k hk => hokb k (hP.subset hk)
      -- children, pointwise
      have step : ∀ {l r : List Node}, ReorderL l r → (∀ k ∈ l, k ∈ ks) → (∀ k ∈ r, k ∈ ks'') →
          F2 deepEqual l r := by
        intro l r hlr hl hr
        have aux : ∀ {l r : List Node}, ReorderL l r → (∀ k ∈ l, k ∈ ks) →
            (∀ k ∈ r, k ∈ ks'') → F2 deepEqual l r := by
          intro l
          induction l with
          | nil => intro r h _ _; cases h; exact .nil
          | cons x xs ihl =>
            intro r h hl hr
            cases h with
            | @cons _ y _ ys hxy hrest =>
              exact .cons (ih x y (hkid x (hl x (by simp))) hxy (hoka x (hl x (by simp)))
                  (hokb'' y (hr y (by simp))))
                (ihl hrest (fun k hk => hl k (by simp [hk])) (fun k hk => hr k (by simp [hk])))
        exact aux hlr hl hr
      have hkids : deepEqualNodes ks ks' = true :=
        nodes_of_all2_perm D hD hoka hokb (step hL (fun _ h => h) (fun _ h => h)) hP
      rw [deepEqual_eq']
      simp only [Bool.and_eq_true]
      refine ⟨?_, hkids⟩
      -- the node itself
      have hdates : ∀ d ∈ ks.filter isDate, ∃ d' ∈ ks'.filter isDate, d.value = d'.value := by
        intro d hd
        obtain ⟨hdk, hdd⟩ := List.mem_filter.mp hd
        obtain ⟨y, hy, hxy⟩ := hL.mem_left hdk
        exact ⟨y, List.mem_filter.mpr ⟨hP.subset hy, by rw [← isDate_reorder hxy]; exact hdd⟩,
          hxy.head.2.1⟩
      have hnodates : ks.filter isDate = [] → ks'.filter isDate = [] := by
        intro h0
        apply List.eq_nil_iff_forall_not_mem.mpr
        intro d' hd'
        obtain ⟨hdk, hdd⟩ := List.mem_filter.mp hd'
        obtain ⟨x, hx, hxy⟩ := hL.mem_right (hP.symm.subset hdk)
        have : x ∈ ks.filter isDate :=
          List.mem_filter.mpr ⟨hx, by rw [isDate_reorder hxy]; exact hdd⟩
        rw [h0] at this; cases this
      unfold equalsSpec
      cases hr : Node.rule (.mk t v p ks) with
      | simple => simp [Node.tag, Node.value, Node.ptr]
      | vital => simp [Node.kind, Node.tag]
      | date =>
        have : Node.rule (.mk t v p ks') = .date := by simpa [Node.rule, Node.kind, Node.tag] using hr
        simp [this, Node.value, dateValueEquals_refl]
      | uid =>
        have : Node.rule (.mk t v p ks') = .uid := by simpa [Node.rule, Node.kind, Node.tag] using hr
        simp [this, Node.value, uidEquals_refl]
      | resi =>
        have hr' : Node.rule (.mk t v p ks') = .resi := by
          simpa [Node.rule, Node.kind, Node.tag] using hr
        simp only [hr', beq_self_eq_true, Bool.true_and, Bool.or_eq_true, Bool.and_eq_true,
          Node.dates, Node.kids]
        cases hd : ks.filter isDate with
        | cons d ds =>
          left
          obtain ⟨d', hd', e⟩ := hdates d (by rw [hd]; simp)
          exact (datesMatch_iff _ _).mpr ⟨d, by simp, d', hd', by rw [e]; exact dateValueEquals_refl _⟩
        | nil =>
          right
          refine ⟨by simp [hnodates hd], ?_⟩
          have hLf := hL.filter isPlace (fun _ _ h => isPlace_reorder h)
          exact nodes_of_all2_perm D hD
            (fun x hx => hoka x (List.mem_filter.mp hx).1)
            (fun x hx => hokb x (List.mem_filter.mp hx).1)
            (step hLf (fun _ h => (List.mem_filter.mp h).1) (fun _ h => (List.mem_filter.mp h).1))
            (hP.filter isPlace)
      | even =>
        have hr' : Node.rule (.mk t v p ks') = .even := by
          simpa [Node.rule, Node.kind, Node.tag] using hr
        simp only [hr', beq_self_eq_true, Bool.true_and, Bool.or_eq_true, Bool.and_eq_true,
          Node.dates, Node.kids, Node.value]
        cases hd : ks.filter isDate with
        | cons d ds =>
          left
          obtain ⟨d', hd', e⟩ := hdates d (by rw [hd]; simp)
          exact (datesMatch_iff _ _).mpr ⟨d, by simp, d', hd', by rw [e]; exact dateValueEquals_refl _⟩
        | nil =>
          right
          exact ⟨⟨⟨by simp, by simp [hnodates hd]⟩, trivial⟩, hkids⟩

end perm

/-! ### edits -/

theorem deepEqualNodes_length {l r : List Node} (h : deepEqualNodes l r = true) :
    l.length = r.length := by
  simp only [deepEqualNodes, Bool.and_eq_true, beq_iff_eq] at h
  exact h.1

theorem deepEqual_of_edit (D : List Str) (hD : dateEquiv D = true) {a b : Node} (h : Edit a b) :
    okNode D a = true → okNode D b = true → deepEqual a b = false := by
  induction h with
  | @change t v v' p ks hr hv =>
    intro _ _
    rw [deepEqual_eq']
    have : equalsSpec (.mk t v p ks) (.mk t v' p ks) = false := by
      unfold equalsSpec
      rw [hr]
      simp [Node.value, hv]
    simp [this]
  | @insert t v p pre post n =>
    intro _ _
    rw [deepEqual_eq']
    cases hk : deepEqualNodes (pre ++ post) (pre ++ n :: post) with
    | false => simp [Node.kids, hk]
    | true => have := deepEqualNodes_length hk; simp at this
  | @delete t v p pre post n =>
    intro _ _
    rw [deepEqual_eq']
    cases hk : deepEqualNodes (pre ++ n :: post) (pre ++ post) with
    | false => simp [Node.kids, hk]
    | true => have := deepEqualNodes_length hk; simp at this
  | @child t v p pre post c c' _ ih =>
    intro ha hb
    have hc : okNode D c = true := okNode_kid ha (by simp [Node.kids])
    have hc' : okNode D c' = true := okNode_kid hb (by simp [Node.kids])
    have hcc := ih hc hc'
    rw [deepEqual_eq']
    cases hk : deepEqualNodes (pre ++ c :: post) (pre ++ c' :: post) with
    | false => simp [Node.kids, hk]
    | true =>
      exfalso
      rw [deepEqualNodes_eq_greedy] at hk
      have hm := greedy_sound _ _ _ hk
      have hcnt := hm.countP_eq c (fun x hx y hy hxy => by
        have hx' : okNode D x = true := okNode_kid ha (by simpa [Node.kids] using hx)
        have hy' : okNode D y = true := okNode_kid hb (by simpa [Node.kids] using hy)
        apply Bool.eq_iff_iff.mpr
        constructor
        · intro h1; exact deepEqual_trans_of_ok D hD c x y hc hx' hy' h1 hxy
        · intro h1
          exact deepEqual_trans_of_ok D hD c y x hc hy' hx' h1
            (deepEqual_symm_of_ok D hD x y hx' hy' hxy))
      simp only [List.countP_append, List.countP_cons, deepEqual_refl, hcc] at hcnt
      simp at hcnt

end Gedcom
