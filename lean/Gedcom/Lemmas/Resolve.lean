/-
  Helper lemmas for C14: the `Res` monad, the traversal combinators and the totality of each
  modelled function under `Flags.Safe`.
-/
import Gedcom.Model.Resolve
namespace Gedcom.Resolve
open Gedcom

/-- a call returns (does not panic) -/
def Total {α} (r : Res α) : Prop := ∃ a, r = .ok a

theorem total_iff_isOk {α} (r : Res α) : Total r ↔ r.isOk = true := by
  cases r <;> simp [Total, Res.isOk]

@[simp] theorem ok_bind {α β} (a : α) (f : α → Res β) : (Res.ok a >>= f) = f a := rfl
@[simp] theorem pure_eq_ok {α} (a : α) : (pure a : Res α) = .ok a := rfl
@[simp] theorem panic_bind {α β} (s : Site) (f : α → Res β) : (Res.panic s >>= f) = .panic s := rfl
@[simp] theorem total_ok {α} (a : α) : Total (Res.ok a) := ⟨a, rfl⟩
theorem not_total_panic {α} (s : Site) : ¬ Total (Res.panic s : Res α) := by
  intro ⟨a, h⟩; cases h

theorem total_bind {α β} {x : Res α} {f : α → Res β} (hx : Total x) (hf : ∀ a, Total (f a)) :
    Total (x >>= f) := by
  obtain ⟨a, rfl⟩ := hx
  simpa using hf a

theorem total_map {α β} {x : Res α} {f : α → β} (hx : Total x) : Total (f <$> x) := by
  obtain ⟨a, rfl⟩ := hx
  exact ⟨f a, rfl⟩

theorem mapRes_total {α β} (f : α → Res β) (l : List α) (h : ∀ x ∈ l, Total (f x)) :
    Total (mapRes f l) := by
  induction l with
  | nil => exact ⟨[], rfl⟩
  | cons x xs ih =>
    unfold mapRes
    apply total_bind (h x (by simp))
    intro y
    apply total_bind (ih (fun z hz => h z (by simp [hz])))
    intro ys
    simp

theorem mapRes_length {α β} (f : α → Res β) (l : List α) (ys : List β) (h : mapRes f l = .ok ys) :
    ys.length = l.length := by
  induction l generalizing ys with
  | nil => simp [mapRes] at h; simp [← h]
  | cons x xs ih =>
    unfold mapRes at h
    cases hx : f x with
    | panic s => simp [hx] at h
    | ok y =>
      cases hxs : mapRes f xs with
      | panic s => simp [hx, hxs] at h
      | ok zs =>
        simp [hx, hxs] at h
        simp [← h, ih zs hxs]

theorem concatMapRes_total {α β} (f : α → Res (List β)) (l : List α) (h : ∀ x ∈ l, Total (f x)) :
    Total (concatMapRes f l) := by
  induction l with
  | nil => exact ⟨[], rfl⟩
  | cons x xs ih =>
    unfold concatMapRes
    apply total_bind (h x (by simp))
    intro y
    apply total_bind (ih (fun z hz => h z (by simp [hz])))
    intro ys
    simp

theorem findRes_total {α} (p : α → Res Bool) (l : List α) (h : ∀ x ∈ l, Total (p x)) :
    Total (findRes p l) := by
  induction l with
  | nil => exact ⟨none, rfl⟩
  | cons x xs ih =>
    unfold findRes
    apply total_bind (h x (by simp))
    intro b
    cases b
    · simpa using ih (fun z hz => h z (by simp [hz]))
    · simp

theorem whenList_total {α} (b : Bool) (x : Res α) (h : Total x) : Total (whenList b x) := by
  unfold whenList
  cases b
  · simp
  · simpa using total_bind h (fun a => total_ok [a])

theorem andThen_total (a b : Res Bool) (ha : Total a) (hb : Total b) : Total (andThen a b) := by
  unfold andThen
  apply total_bind ha
  intro v
  cases v
  · simp
  · simpa using hb

/-! ### the primitives under their guards -/

theorem byteAt_total (site : Site) (v : Str) (i : Nat) (h : i < v.length) : Total (byteAt site v i) := by
  simp [byteAt, h]

theorem valueToPointer_total (fl : Flags) (h : fl.vtpEmptyGuard = true) (v : Str) :
    Total (valueToPointer fl v) := by
  unfold valueToPointer
  cases v with
  | nil => simp [h]
  | cons a l =>
    have h0 : (0 : Nat) < (a :: l).length := by simp
    have h1 : (a :: l).length - 1 < (a :: l).length := by simp
    simp only [h, List.length_cons, Bool.true_and, Nat.add_eq_zero_iff, Nat.succ_ne_self, and_false,
      beq_iff_eq, ↓reduceIte]
    apply total_bind (byteAt_total _ _ _ h0)
    intro x
    apply total_bind (byteAt_total _ _ _ h1)
    intro y
    split <;> simp

theorem byteAt_eq (site : Site) (v : Str) (i : Nat) (h : i < v.length) : byteAt site v i = .ok v[i] := by
  simp [byteAt, h]

theorem valueToPointer_spec' (fl : Flags) (hv : fl.vtpEmptyGuard = true) (v p : Str) (h : valueToPointer fl v = .ok p) (hp : p ≠ []) :
    v = [64] ++ p ++ [64] := by
  unfold valueToPointer at h
  cases v with
  | nil => simp [hv] at h; exact absurd h hp
  | cons a l =>
    have h0 : (0 : Nat) < (a :: l).length := by simp
    have h1 : (a :: l).length - 1 < (a :: l).length := by simp
    rw [byteAt_eq _ _ _ h0, byteAt_eq _ _ _ h1] at h
    simp only [hv, List.length_cons, Bool.true_and, beq_iff_eq, Nat.add_eq_zero_iff, Nat.succ_ne_self, and_false, ↓reduceIte, ok_bind] at h
    split at h
    · rename_i hc
      simp only [pure_eq_ok, Res.ok.injEq] at h
      simp only [Bool.and_eq_true, decide_eq_true_eq, beq_iff_eq] at hc
      obtain ⟨⟨hlen, ha⟩, hb⟩ := hc
      simp only [List.getElem_cons_zero] at ha
      subst ha
      simp only [List.drop_succ_cons, List.drop_zero] at h
      have hl : l ≠ [] := by intro hl; simp [hl] at hlen
      have hlast : l.getLast hl = 64 := by
        rw [List.getLast_eq_getElem]
        have : (64 :: l)[l.length + 1 - 1] = l[l.length - 1]'(by have := List.length_pos_iff.mpr hl; omega) := by
          have hpos := List.length_pos_iff.mpr hl
          have : l.length + 1 - 1 = (l.length - 1) + 1 := by omega
          simp only [this, List.getElem_cons_succ]
        rw [← this]; exact hb
      have hd : l.dropLast ++ [l.getLast hl] = l := List.dropLast_concat_getLast hl
      have ht : List.take (l.length + 1 - 2) l = l.dropLast := by
        rw [List.dropLast_eq_take]
        congr 1
      rw [ht] at h
      subst h
      rw [hlast] at hd
      simp [hd]
    · simp only [pure_eq_ok, Res.ok.injEq] at h
      exact absurd h.symm hp

theorem assertIndi_total (site : Site) (rf : RefFlags) (h1 : rf.nilSafe = true) (h2 : rf.kindSafe = true)
    (n : Option Ent) : Total (assertIndi site rf n) := by
  unfold assertIndi
  cases n with
  | none => simp [h1]
  | some e => by_cases hi : isIndi e.node <;> simp [hi, h2]

theorem roleIndividual_total (fl : Flags) (site : Site) (rf : RefFlags) (hv : fl.vtpEmptyGuard = true)
    (h1 : rf.nilSafe = true) (h2 : rf.kindSafe = true) (doc : Doc) (role : Node) :
    Total (roleIndividual fl site rf doc role) := by
  unfold roleIndividual
  apply total_bind (valueToPointer_total fl hv _)
  intro p
  exact assertIndi_total site rf h1 h2 _

/-- what a `Safe` flag vector provides, as rewriting facts -/
theorem Flags.Safe.elim {fl : Flags} (h : fl.Safe) :
    fl.vtpEmptyGuard = true ∧ fl.husband = ⟨true, true⟩ ∧ fl.wife = ⟨true, true⟩ ∧
    fl.child = ⟨true, true⟩ ∧ fl.childNodes = ⟨true, true⟩ ∧ fl.headerGuard = true ∧
    fl.pageGuard = true ∧ fl.nameAndSexGuard = true ∧ fl.additionalNamesGuard = true := by
  unfold Flags.Safe at h
  subst h
  simp

section safe
variable {fl : Flags} (hs : fl.Safe)
include hs

theorem husbandRole_total (doc : Doc) (h : Node) : Total (roleIndividual fl .husband fl.husband doc h) := by
  obtain ⟨hv, hh, -⟩ := hs.elim
  exact roleIndividual_total fl _ _ hv (by simp [hh]) (by simp [hh]) doc h

theorem wifeRole_total (doc : Doc) (w : Node) : Total (roleIndividual fl .wife fl.wife doc w) := by
  obtain ⟨hv, -, hw, -⟩ := hs.elim
  exact roleIndividual_total fl _ _ hv (by simp [hw]) (by simp [hw]) doc w

theorem husbandIndividual_total' (doc : Doc) (fam : Node) : Total (husbandIndividual fl doc fam) := by
  unfold husbandIndividual
  split
  · simp
  · exact husbandRole_total hs doc _

theorem wifeIndividual_total' (doc : Doc) (fam : Node) : Total (wifeIndividual fl doc fam) := by
  unfold wifeIndividual
  split
  · simp
  · exact wifeRole_total hs doc _

theorem childIndividual_total' (doc : Doc) (c : Node) : Total (childIndividual fl doc c) := by
  obtain ⟨hv, -, -, hc, -⟩ := hs.elim
  exact roleIndividual_total fl _ _ hv (by simp [hc]) (by simp [hc]) doc c

theorem childNodesIndividuals_total' (doc : Doc) (cs : List Node) :
    Total (childNodesIndividuals fl doc cs) := by
  obtain ⟨hv, -, -, -, hc, -⟩ := hs.elim
  unfold childNodesIndividuals
  apply concatMapRes_total
  intro c _
  apply total_bind (valueToPointer_total fl hv _)
  intro p
  cases nodeByPointer doc p with
  | none => simp [hc]
  | some e => by_cases hi : isIndi e.node <;> simp [hi, hc]

theorem roleIs_husband_total (doc : Doc) (fam : Node) (i : Option Ent) : Total (husbandIs fl doc fam i) := by
  unfold husbandIs roleIs
  split
  · exact total_bind (husbandRole_total hs doc _) (fun _ => by simp)
  · simp

theorem roleIs_wife_total (doc : Doc) (fam : Node) (i : Option Ent) : Total (wifeIs fl doc fam i) := by
  unfold wifeIs roleIs
  split
  · exact total_bind (wifeRole_total hs doc _) (fun _ => by simp)
  · simp

theorem spouses_total' (doc : Doc) (indi : Ent) : Total (spouses fl doc indi) := by
  unfold spouses
  apply concatMapRes_total
  intro f _
  split
  · apply total_bind (husbandRole_total hs doc _)
    intro hi
    apply total_bind (whenList_total _ _ (wifeRole_total hs doc _))
    intro l1
    apply total_bind (wifeRole_total hs doc _)
    intro wi
    apply total_bind (whenList_total _ _ (husbandRole_total hs doc _))
    intro l2
    simp
  · simp

theorem familiesOf_total' (doc : Doc) (indi : Ent) : Total (familiesOf fl doc indi) := by
  unfold familiesOf
  apply concatMapRes_total
  intro f _
  apply total_bind (roleIs_husband_total hs doc _ _)
  intro h
  apply total_bind (roleIs_wife_total hs doc _ _)
  intro w
  simp

theorem parents_total' (doc : Doc) (indi : Ent) : Total (parents fl doc indi) := by
  unfold parents
  exact total_bind (familiesOf_total' hs doc indi) (fun _ => by simp)

theorem childrenOf_total' (doc : Doc) (indi : Ent) : Total (childrenOf fl doc indi) := by
  unfold childrenOf
  exact total_bind (familiesOf_total' hs doc indi) (fun _ => by simp)

theorem familyWithSpouse_total' (doc : Doc) (indi : Ent) (sp : Option Ent) :
    Total (familyWithSpouse fl doc indi sp) := by
  unfold familyWithSpouse
  apply findRes_total
  intro f _
  apply total_bind (andThen_total _ _ (roleIs_husband_total hs doc _ _) (roleIs_wife_total hs doc _ _))
  intro a
  apply total_bind (andThen_total _ _ (roleIs_wife_total hs doc _ _) (roleIs_husband_total hs doc _ _))
  intro b
  simp

theorem familyWithUnknownSpouse_total' (doc : Doc) (indi : Ent) :
    Total (familyWithUnknownSpouse fl doc indi) := by
  unfold familyWithUnknownSpouse
  apply findRes_total
  intro f _
  apply total_bind (andThen_total _ _ (roleIs_husband_total hs doc _ _) (total_ok _))
  intro a
  apply total_bind (andThen_total _ _ (roleIs_wife_total hs doc _ _) (total_ok _))
  intro b
  simp

theorem partnerIn_total' (doc : Doc) (indi f : Ent) : Total (partnerIn fl doc indi f) := by
  unfold partnerIn
  apply total_bind (roleIs_husband_total hs doc _ _)
  intro h
  cases h
  · simp only [Bool.false_eq_true, ↓reduceIte]
    apply total_bind (roleIs_wife_total hs doc _ _)
    intro w
    cases w
    · simp
    · simpa using husbandIndividual_total' hs doc _
  · simpa using wifeIndividual_total' hs doc _

theorem spouseChildrenKeys_total' (doc : Doc) (indi : Ent) : Total (spouseChildrenKeys fl doc indi) := by
  unfold spouseChildrenKeys
  apply total_bind (familiesOf_total' hs doc indi)
  intro fs
  apply concatMapRes_total
  intro f _
  split
  · simp
  · apply total_bind (partnerIn_total' hs doc indi f)
    intro sp
    apply total_bind (familyWithSpouse_total' hs doc indi sp)
    intro _
    apply total_bind (familyWithUnknownSpouse_total' hs doc indi)
    intro u
    simp

theorem header_total' (si : Bool) (letters : List UInt8) : Total (header fl si letters) := by
  obtain ⟨-, -, -, -, -, hh, -⟩ := hs.elim
  unfold header
  cases si
  · simp
  · cases letters with
    | nil => simp [hh]
    | cons a l => simp [hh, first]

theorem individualPage_total' (si : Bool) (letters : List UInt8) (indi : Node) :
    Total (individualPage fl si letters indi) := by
  obtain ⟨-, -, -, -, -, -, hp, hn, ha⟩ := hs.elim
  unfold individualPage
  simp only [hp, hn, ha]
  apply total_bind (by simp [primaryOr])
  intro _
  apply total_bind (header_total' hs si letters)
  intro _
  apply total_bind (by simp [primaryOr])
  intro _
  apply total_bind
  · unfold additionalNames
    cases names indi with
    | nil => simp
    | cons a l => simp [tailFrom1]
  intro _
  simp

theorem familyWarnings_total' (doc : Doc) (fam : Node) : Total (familyWarnings fl doc fam) := by
  unfold familyWarnings
  apply total_bind (husbandIndividual_total' hs doc fam)
  intro _
  apply total_bind (wifeIndividual_total' hs doc fam)
  intro _
  apply total_bind (mapRes_total _ _ (fun c _ => childIndividual_total' hs doc c))
  intro _
  simp

theorem familyRow_total' (doc : Doc) (f : Ent) : Total (familyRow fl doc f) := by
  unfold familyRow
  apply total_bind (husbandIndividual_total' hs doc _)
  intro _
  apply total_bind (wifeIndividual_total' hs doc _)
  intro _
  apply total_bind (mapRes_total _ _ (fun c _ => childIndividual_total' hs doc c))
  intro _
  simp

theorem personPage_total' (doc : Doc) (si : Bool) (letters : List UInt8) (e : Ent) :
    Total (personPage fl doc si letters e) := by
  unfold personPage
  apply total_bind (individualPage_total' hs _ _ _)
  intro _
  apply total_bind (spouses_total' hs doc e)
  intro _
  apply total_bind (familiesOf_total' hs doc e)
  intro fs
  apply total_bind (parents_total' hs doc e)
  intro _
  apply total_bind (spouseChildrenKeys_total' hs doc e)
  intro _
  apply total_bind (mapRes_total _ _ (fun f _ => familyRow_total' hs doc f))
  intro _
  simp

end safe

/-! ### the walk visits every node of the tree exactly once -/

mutual
theorem walkNode_spec {fl : Flags} (hs : fl.Safe) (doc : Doc) :
    ∀ n : Node, walkNode fl doc n = .ok n.size
  | .mk t v p ks => by
    unfold walkNode
    have hw : Total (nodeWarnings fl doc (.mk t v p ks)) := by
      unfold nodeWarnings
      split
      · exact familyWarnings_total' hs doc _
      · simp
    obtain ⟨u, hu⟩ := hw
    rw [hu, ok_bind, walkForest_spec hs doc ks]
    simp [Node.size, Nat.add_comm]
theorem walkForest_spec {fl : Flags} (hs : fl.Safe) (doc : Doc) :
    ∀ ns : List Node, walkForest fl doc ns = .ok (Forest.size ns)
  | [] => by simp [walkForest, Forest.size]
  | n :: ns => by
    unfold walkForest
    rw [walkNode_spec hs doc n, ok_bind, walkForest_spec hs doc ns]
    simp [Forest.size]
end

/-! ### index helpers -/

theorem lowerFirstByte_isSome (s : Str) (h : s ≠ []) : (lowerFirstByte s).isSome = true := by
  unfold lowerFirstByte
  split
  · exact absurd rfl h
  · rfl
  · rfl
  · split <;> rfl

theorem startsWithLetter_total' (indexName : Str) (letter : UInt8) :
    Total (startsWithLetter indexName letter) := by
  unfold startsWithLetter
  generalize hn : (if indexName.isEmpty = true then [symbolLetter] else indexName) = name
  have hne : name ≠ [] := by
    subst hn
    split
    · simp
    · rename_i h
      intro h'
      simp [h'] at h
  have := lowerFirstByte_isSome _ hne
  cases h : lowerFirstByte name with
  | none => simp [h] at this
  | some b => simp only [h]; exact total_ok _

theorem indexLetterOf_range (s : Str) :
    indexLetterOf s = symbolLetter ∨ (97 ≤ indexLetterOf s ∧ indexLetterOf s ≤ 122) := by
  unfold indexLetterOf
  split
  · left; rfl
  · rename_i b _
    by_cases h : (b < 97 || b > 122) = true
    · left; simp [h]
    · right
      simp only [h]
      simp only [Bool.or_eq_true, decide_eq_true_eq, not_or, UInt8.not_lt] at h
      simpa using h

theorem getSurnames_nonempty (doc : Doc) : ∀ s ∈ getSurnames doc, s ≠ [] := by
  intro s hs
  unfold getSurnames at hs
  have := (List.mem_eraseDups.mp hs)
  simp only [List.mem_filter] at this
  intro h
  simp [h] at this

theorem surnameList_total' (doc : Doc) : Total (surnameList doc) := by
  unfold surnameList
  apply mapRes_total
  intro s hs
  unfold surnameLink
  apply byteAt_total
  have := getSurnames_nonempty doc s hs
  cases s with
  | nil => exact absurd rfl this
  | cons a l => simp

theorem eventDate_total' {α} (dates : List α) : Total (eventDate dates) := by
  unfold eventDate
  cases dates with
  | nil => simp
  | cons a l => simp [first]

theorem pickEvent_total' {α} (p f : List α) : Total (pickEvent p f) := by
  unfold pickEvent
  cases p with
  | cons a l => simp [first]
  | nil =>
    cases f with
    | nil => simp
    | cons a l => simp [first]

theorem eventDates_total' {α} (b bp d bu : List α) : Total (eventDates b bp d bu) := by
  unfold eventDates
  apply total_bind (pickEvent_total' b bp)
  intro _
  apply total_bind (pickEvent_total' d bu)
  intro _
  simp

theorem lookupPlace_member {α} (m : List (Str × α)) (k : Str) (h : k ∈ m.map (·.1)) : Total (lookupPlace m k) := by
  unfold lookupPlace
  obtain ⟨e, he, rfl⟩ := List.mem_map.mp h
  cases hf : m.find? (fun x => x.1 == e.1) with
  | some x => simp
  | none =>
    have := List.find?_eq_none.mp hf e he
    simp at this

theorem placePages_total' {α} (m : List (Str × α)) : Total (placePages m) := by
  unfold placePages
  exact mapRes_total _ _ (fun k hk => lookupPlace_member m k hk)

end Gedcom.Resolve
