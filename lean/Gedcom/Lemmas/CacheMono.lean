/-
  C13 — a decoded document stays a forest under every operation.  In the preorder layout of a
  decoded forest every child has a larger id than its parent (`Mono`); every edit either drops
  children or attaches a node it has just allocated (id = old heap length, larger than every
  existing id), so `Mono` is an invariant of `step`.  `Mono` gives a rank (`Ranked`, rank = id),
  which is what `fresh_iso` needs.
-/
import Gedcom.Lemmas.CacheTree
namespace Gedcom.Cache
open Gedcom

/-- every child id is larger than its parent's -/
def Mono (a : Abs) : Prop := ∀ (n c : Nat), c ∈ a.kids n → n < c

/-- every parent→child edge of `a'` is one of `a` or goes to a larger id -/
def KSub (a a' : Abs) : Prop := ∀ (m d : Nat), d ∈ a'.kids m → d ∈ a.kids m ∨ m < d

theorem KSub.refl (a : Abs) : KSub a a := fun _ _ h => Or.inl h
theorem KSub.of_eq {a a' : Abs} (h : a' = a) : KSub a a' := h ▸ KSub.refl a
theorem KSub.trans {a b c : Abs} (h1 : KSub a b) (h2 : KSub b c) : KSub a c := by
  intro m d hd
  rcases h2 m d hd with h | h
  · exact h1 m d h
  · exact Or.inr h
theorem Mono.step {a a' : Abs} (h : Mono a) (k : KSub a a') : Mono a' := by
  intro n c hc
  rcases k n c hc with h1 | h1
  · exact h n c h1
  · exact h1
theorem KSub.of_heap {a a' : Abs} (h : a'.heap = a.heap) : KSub a a' := by
  intro m d hd
  left
  simp only [Abs.kids] at hd ⊢
  rw [h] at hd; exact hd

theorem Mono.ranked {a : Abs} (h : Mono a) : Ranked a :=
  ⟨fun n => n, fun _ hn => hn, h⟩

/-! ## reads never change the document (whatever the caches contain) -/

def AbsPure {α : Type} (m : M α) : Prop := ∀ s, abs (m s).2 = abs s

theorem AbsPure.pure {α : Type} (x : α) : AbsPure (M.pure x) := fun _ => rfl
theorem AbsPure.ofAbs {α : Type} (f : Abs → α) : AbsPure (M.ofAbs f) := fun _ => rfl
theorem AbsPure.bind {α β : Type} {m : M α} {k : α → M β} (hm : AbsPure m) (hk : ∀ x, AbsPure (k x)) :
    AbsPure (M.bind m k) := fun s => (hk (m s).1 (m s).2).trans (hm s)
theorem AbsPure.mapM' {α β : Type} {k : α → M β} (hk : ∀ x, AbsPure (k x)) :
    ∀ l : List α, AbsPure (M.mapM' k l)
  | [] => AbsPure.pure []
  | x :: xs => by
    unfold M.mapM'
    exact AbsPure.bind (hk x) fun y => AbsPure.bind (AbsPure.mapM' hk xs) fun ys => AbsPure.pure _

theorem abs_nwt (n : Id) (t : Str) : AbsPure (nwt n t) := by
  intro s
  unfold nwt
  split
  · rfl
  · split <;> rfl

theorem abs_husband (f : Id) : AbsPure (husband f) := by
  intro s
  unfold husband
  split
  · rfl
  · exact abs_nwt f tHUSB s

theorem abs_wife (f : Id) : AbsPure (wife f) := by
  intro s
  unfold wife
  split
  · rfl
  · exact abs_nwt f tWIFE s

theorem abs_individualOf (h : Id) : AbsPure (individualOf h) := by
  unfold individualOf
  exact AbsPure.bind (AbsPure.ofAbs _) fun p => AbsPure.bind (fun _ => rfl) fun r => AbsPure.ofAbs _

theorem abs_spouseRead (isHusb : Bool) (f : Id) : AbsPure (spouseRead isHusb f) := by
  unfold spouseRead
  cases isHusb
  · exact abs_wife f
  · exact abs_husband f

theorem abs_spouseIndividual (isHusb : Bool) (f : Id) : AbsPure (spouseIndividual isHusb f) := by
  unfold spouseIndividual
  refine AbsPure.bind (abs_spouseRead isHusb f) fun h => ?_
  cases h with
  | none => exact AbsPure.pure none
  | some h => exact abs_individualOf h

theorem abs_docFamilies : AbsPure docFamilies := by
  intro s
  unfold docFamilies
  split <;> rfl

/-! ## the edits -/

theorem ksub_setKids (s : St) (n : Nat) (ks : List Id)
    (hg : ∀ d : Nat, d ∈ ks → d ∈ (abs s).kids n ∨ n < d) :
    KSub (abs s) ⟨setKids s.heap n ks, s.roots⟩ := by
  intro m d hd
  by_cases e : m = n
  · subst e
    by_cases hn : m < s.heap.length
    · rw [kids_setKids_self _ _ _ _ hn] at hd
      exact hg d hd
    · have : setKids s.heap m ks = s.heap := by
        unfold setKids
        have : s.heap[m]? = none := List.getElem?_eq_none (Nat.le_of_not_lt hn)
        rw [this]
      rw [this] at hd
      exact Or.inl hd
  · rw [kids_setKids_ne _ s.roots _ _ _ _ e] at hd
    exact Or.inl hd

theorem ksub_kidsEdit (b1 b2 : Bool) (s : St) (n : Nat) (ks : List Id)
    (hg : ∀ d : Nat, d ∈ ks → d ∈ (abs s).kids n ∨ n < d) :
    KSub (abs s) (abs (afterKidsEdit b1 b2 n { s with heap := setKids s.heap n ks })) := by
  rw [abs_afterKidsEdit]
  exact ksub_setKids s n ks hg

theorem ksub_alloc (s : St) (x : NodeRec) (hx : x.kids = []) : KSub (abs s) (abs (alloc x s)) := by
  intro m d hd
  left
  by_cases hm : m < s.heap.length
  · have : (abs (alloc x s)).kids m = (abs s).kids m := kids_append _ _ _ _ _ hm
    rw [this] at hd; exact hd
  · have : (abs (alloc x s)).kids m = [] := kids_append_ge _ _ _ _ hx (Nat.le_of_not_lt hm)
    rw [this] at hd
    exact absurd hd List.not_mem_nil

theorem ksub_setValue (s : St) (x : Nat) (v : Str) :
    KSub (abs s) (abs { s with heap := setValue s.heap x v }) := by
  intro m d hd
  left
  have : (abs { s with heap := setValue s.heap x v }).kids m = (abs s).kids m := kids_setValue _ _ _ _ _ _
  rw [this] at hd; exact hd

theorem ksub_addFresh (fl : Flags) {s : St} {n : Nat} (hn : n < s.heap.length) (x : NodeRec)
    (hx : x.kids = []) : KSub (abs s) (abs (addFresh fl n x s)) := by
  unfold addFresh addKid
  refine (ksub_alloc s x hx).trans (ksub_kidsEdit _ _ _ n _ ?_)
  intro d hd
  rcases List.mem_append.mp hd with h | h
  · exact Or.inl h
  · have : d = s.heap.length := by simpa using h
    right; rw [this]; exact hn

theorem ksub_deleteKid (fl : Flags) (s : St) (n : Nat) (c : Id) : KSub (abs s) (abs (deleteKid fl n c s)) :=
  ksub_kidsEdit _ _ s n _ fun _ hd => Or.inl (List.mem_of_mem_erase hd)

theorem ksub_setKidsOp (fl : Flags) (s : St) (n : Nat) (ks : List Id) (hks : ∀ c ∈ ks, c ∈ (abs s).kids n) :
    KSub (abs s) (abs (setKidsOp fl n ks s)) :=
  ksub_kidsEdit _ _ s n ks fun d hd => Or.inl (hks d hd)

theorem ksub_deleteKidsWithTag (fl : Flags) (s : St) (n : Nat) (t : Str) :
    KSub (abs s) (abs (deleteKidsWithTag fl n t s)) := by
  unfold deleteKidsWithTag
  simp only
  split
  · refine ksub_kidsEdit _ _ s n _ fun d hd => Or.inl ?_
    split at hd
    · exact eraseLoopCopy_subset _ _ d hd
    · exact eraseLoopInPlace_subset _ _ d hd
  · exact KSub.refl _

theorem ksub_unlinkSpouse (fl : Flags) (f : Id) (j : Nat) (s : St) :
    KSub (abs s) (abs (unlinkSpouse fl f j s)) := by
  unfold unlinkSpouse
  split
  · exact ksub_kidsEdit _ _ s j _ fun d hd => Or.inl (eraseLoopInPlace_subset _ _ d hd)
  · exact KSub.refl _

theorem abs_cacheNoSpouse (isHusb : Bool) (f : Id) (s : St) : abs (cacheNoSpouse isHusb f s) = abs s := by
  unfold cacheNoSpouse; cases isHusb <;> rfl

theorem abs_dropSpouseCache (fl : Flags) (isHusb : Bool) (f : Id) (s : St) :
    abs (dropSpouseCache fl isHusb f s) = abs s := by
  unfold dropSpouseCache
  cases isHusb <;> simp only [Bool.false_eq_true, if_false, if_true] <;> split <;> rfl

theorem ksub_appendSpouseNode (fl : Flags) (isHusb : Bool) {f : Nat} (p : Str) {s : St}
    (hf : f < s.heap.length) : KSub (abs s) (abs (appendSpouseNode fl isHusb f p s)) := by
  unfold appendSpouseNode
  rw [abs_dropSpouseCache]
  exact ksub_addFresh fl hf _ rfl

theorem ksub_rewriteSpouseValue (h : Option Id) (v : Str) (s : St) :
    KSub (abs s) (abs (rewriteSpouseValue h v s)) := by
  cases h with
  | none => exact KSub.refl _
  | some x => exact ksub_setValue s x v

theorem heapLen_rewriteSpouseValue (h : Option Id) (v : Str) (s : St) :
    (rewriteSpouseValue h v s).heap.length = s.heap.length := by
  cases h with
  | none => rfl
  | some x => simp [rewriteSpouseValue, setValue_length]

theorem ksub_setSpousePointer (fl : Flags) (isHusb : Bool) {f : Nat} (p : Str) {s : St}
    (hf : f < s.heap.length) : KSub (abs s) (abs (setSpousePointer fl isHusb f p s)) := by
  unfold setSpousePointer
  have a1 := abs_spouseRead isHusb f s
  have hl : (spouseRead isHusb f s).2.heap.length = s.heap.length := congrArg (fun a => a.heap.length) a1
  refine (KSub.of_eq a1).trans ((ksub_rewriteSpouseValue _ _ _).trans (ksub_appendSpouseNode fl isHusb p ?_))
  rw [heapLen_rewriteSpouseValue, hl]; exact hf

theorem ksub_setSpouse (fl : Flags) (isHusb : Bool) {f i : Nat} {s : St}
    (hf : f < s.heap.length) (hi : i < s.heap.length) : KSub (abs s) (abs (setSpouse fl isHusb f i s)) := by
  unfold setSpouse
  refine (ksub_addFresh fl hi _ rfl).trans (ksub_setSpousePointer fl isHusb _ ?_)
  rw [addFresh_length]; exact Nat.lt_succ_of_lt hf

theorem ksub_clearSpouse (fl : Flags) (isHusb : Bool) (f : Nat) (s : St) :
    KSub (abs s) (abs (clearSpouse fl isHusb f s)) := by
  unfold clearSpouse
  have a1 := abs_spouseIndividual isHusb f s
  split
  · exact KSub.of_eq a1
  · unfold clearSpouseOf
    rw [abs_cacheNoSpouse]
    exact (KSub.of_eq a1).trans ((ksub_unlinkSpouse fl f _ _).trans (ksub_deleteKidsWithTag fl _ f _))

theorem ksub_setOrClear (fl : Flags) (isHusb : Bool) {f : Nat} (i : Option Id) {s : St}
    (hf : f < s.heap.length) (hi : ∀ x : Nat, i = some x → x < s.heap.length) :
    KSub (abs s) (abs (setOrClear fl isHusb f i s)) := by
  unfold setOrClear
  cases i with
  | none => exact ksub_clearSpouse fl isHusb f s
  | some x => exact ksub_setSpouse fl isHusb hf (hi x rfl)

theorem ksub_addChild (fl : Flags) {f i : Nat} {s : St} (hf : f < s.heap.length) (hi : i < s.heap.length) :
    KSub (abs s) (abs (addChild fl f i s)) := by
  unfold addChild
  refine (ksub_addFresh fl hi _ rfl).trans (ksub_addFresh fl ?_ _ rfl)
  rw [addFresh_length]; exact Nat.lt_succ_of_lt hf

theorem ksub_addEventDate (fl : Flags) {i : Nat} (t v : Str) {s : St} (hi : i < s.heap.length)
    (he : ∀ e : Nat, (nwt i t s).1.head? = some e → e < s.heap.length) :
    KSub (abs s) (abs (addEventDate fl i t v s)) := by
  have a1 := abs_nwt i t s
  have hl : (nwt i t s).2.heap.length = s.heap.length := congrArg (fun a => a.heap.length) a1
  unfold addEventDate
  split
  · rename_i e hh
    exact (KSub.of_eq a1).trans (ksub_addFresh fl (hl ▸ he e hh) _ rfl)
  · refine (KSub.of_eq a1).trans ((ksub_addFresh fl (hl ▸ hi) _ rfl).trans (ksub_addFresh fl ?_ _ rfl))
    rw [addFresh_length]; exact Nat.lt_succ_self _

theorem ksub_setSex (fl : Flags) {i : Nat} (v : Str) {s : St} (hi : i < s.heap.length) :
    KSub (abs s) (abs (setSex fl i v s)) := by
  have a1 := abs_nwt i tSEX s
  have hl : (nwt i tSEX s).2.heap.length = s.heap.length := congrArg (fun a => a.heap.length) a1
  unfold setSex
  split
  · exact (KSub.of_eq a1).trans (ksub_setValue _ _ _)
  · exact (KSub.of_eq a1).trans (ksub_addFresh fl (hl ▸ hi) _ rfl)

theorem ksub_docAppend (fl : Flags) (s : St) (x : NodeRec) (hx : x.kids = []) :
    KSub (abs s) (abs (docAppend fl x s)) := by
  intro m d hd
  have : (abs (docAppend fl x s)).kids m = (abs (alloc x s)).kids m := by
    unfold docAppend; split <;> rfl
  rw [this] at hd
  exact ksub_alloc s x hx m d hd

theorem ksub_addIndividual (fl : Flags) (p : Str) (s : St) : KSub (abs s) (abs (addIndividual fl p s)) := by
  have : abs (addIndividual fl p s) = abs (docAppend fl ⟨tINDI, [], p, [], 0⟩ s) := by
    unfold addIndividual
    simp only
    split <;> rfl
  rw [this]; exact ksub_docAppend fl s _ rfl

theorem abs_addFamily' (fl : Flags) (p : Str) (s : St) :
    abs (addFamily fl p s) = abs (docAppend fl ⟨tFAM, [], p, [], 0⟩ s) := by
  have : abs (addFamily fl p s) = abs (docFamilies (docAppend fl ⟨tFAM, [], p, [], 0⟩ s)).2 := by
    unfold addFamily
    simp only
    split <;> rfl
  rw [this, abs_docFamilies]

theorem ksub_addFamily (fl : Flags) (p : Str) (s : St) : KSub (abs s) (abs (addFamily fl p s)) := by
  rw [abs_addFamily']; exact ksub_docAppend fl s _ rfl

theorem heap_docDelete (fl : Flags) (r : Id) (s : St) : (docDelete fl r s).heap = s.heap := by
  unfold docDelete
  simp only
  split
  · split <;> split <;> split <;> rfl
  · rfl

theorem heap_docSetNodes (fl : Flags) (ks : List Id) (s : St) : (docSetNodes fl ks s).heap = s.heap := by
  unfold docSetNodes
  simp only
  split <;> split <;> split <;> rfl

theorem abs_warningsRead : AbsPure warningsRead := by
  have ed : ∀ n t, AbsPure (eventDates n t) := fun n t => by
    unfold eventDates
    exact AbsPure.bind (abs_nwt n t) fun es =>
      AbsPure.bind (AbsPure.mapM' (fun e => abs_nwt e tDATE) es) fun _ => AbsPure.pure ()
  have bo : ∀ i, AbsPure (birthOf i) := fun i => by
    unfold birthOf
    cases i with
    | none => exact AbsPure.pure ()
    | some i => exact ed i tBIRT
  unfold warningsRead
  refine AbsPure.bind (AbsPure.ofAbs _) fun rs => AbsPure.bind (AbsPure.mapM' (fun r => ?_) rs) fun _ => AbsPure.pure ()
  unfold rootWarnReads
  refine AbsPure.bind (AbsPure.ofAbs _) fun t => ?_
  split
  · unfold indiWarnReads
    exact AbsPure.bind (ed r tBIRT) fun _ => AbsPure.bind (ed r tBAPM) fun _ =>
      AbsPure.bind (ed r tBAPL) fun _ => AbsPure.bind (ed r tDEAT) fun _ =>
      AbsPure.bind (ed r tBURI) fun _ => AbsPure.bind (abs_nwt r tSEX) fun _ => AbsPure.pure ()
  · split
    · unfold famWarnReads spouseBirth famChildren
      exact AbsPure.bind (AbsPure.bind (abs_spouseIndividual true r) bo) fun _ =>
        AbsPure.bind (AbsPure.bind (abs_spouseIndividual false r) bo) fun _ =>
        AbsPure.bind (abs_nwt r tCHIL) fun cs =>
        AbsPure.bind (AbsPure.mapM' (fun c => AbsPure.bind (abs_individualOf c) bo) cs) fun _ =>
        AbsPure.bind (ed r tMARR) fun _ => AbsPure.pure ()
    · exact AbsPure.pure ()

/-! ## `Mono` is an invariant of `step` -/

variable {b1 b2 b3 : Bool}

theorem exec_ksub {s : St} (hi : Inv s) (op : Op) (hok : op.ok (abs s) = true) :
    KSub (abs s) (abs (exec (Flags.goodWith b1 b2 b3) s op).1) := by
  cases op with
  | addNode n t v p =>
    simp only [Op.ok, Bool.and_eq_true, decide_eq_true_eq] at hok
    exact ksub_addFresh _ hok.1 _ rfl
  | deleteNode n c => exact ksub_deleteKid _ s n c
  | deleteNodesWithTag n t => exact ksub_deleteKidsWithTag _ s n t
  | setNodes n ks =>
    simp only [Op.ok, Bool.and_eq_true, decide_eq_true_eq, List.all_eq_true] at hok
    exact ksub_setKidsOp _ s n ks fun c hc => by simpa using hok.2 c hc
  | docAddNode t v p => exact ksub_docAppend _ s _ rfl
  | addIndividual p => exact ksub_addIndividual _ p s
  | addFamily p => exact ksub_addFamily _ p s
  | addFamilyHW p h w =>
    simp only [Op.ok, Bool.and_eq_true] at hok
    obtain ⟨⟨hp, hh⟩, hw⟩ := hok
    have h1 := addFamily_inv (b1 := b1) (b2 := b2) (b3 := b3) hi p hp
    have a1 := abs_addFamily (b1 := b1) (b2 := b2) (b3 := b3) p s
    have hl1 : (addFamily (Flags.goodWith b1 b2 b3) p s).heap.length = s.heap.length + 1 := by
      have := congrArg (fun a => a.heap.length) a1
      simpa using this
    have hf1 : (abs (addFamily (Flags.goodWith b1 b2 b3) p s)).tag s.heap.length = tFAM := by
      rw [a1]; exact tag_append_new _ _ _
    have hh' : ∀ x : Nat, h = some x → x < (addFamily (Flags.goodWith b1 b2 b3) p s).heap.length := by
      intro x hx; subst hx
      rw [hl1]; exact Nat.lt_succ_of_lt (isIndi_lt hi.1 hh)
    have g2 := setOrClear_good (b1 := b1) (b2 := b2) (b3 := b3) h1 true (f := s.heap.length) h hf1 hh'
    have k2 := ksub_setOrClear (Flags.goodWith b1 b2 b3) true (f := s.heap.length) h
      (s := addFamily (Flags.goodWith b1 b2 b3) p s) (by rw [hl1]; exact Nat.lt_succ_self _) hh'
    have k3 := ksub_setOrClear (Flags.goodWith b1 b2 b3) false (f := s.heap.length) w
      (s := setOrClear (Flags.goodWith b1 b2 b3) true s.heap.length h (addFamily (Flags.goodWith b1 b2 b3) p s))
      (g2.2.lt (by show s.heap.length < (addFamily (Flags.goodWith b1 b2 b3) p s).heap.length
                   rw [hl1]; exact Nat.lt_succ_self _))
      (fun x hx => by
        subst hx
        apply g2.2.lt
        show x < (addFamily (Flags.goodWith b1 b2 b3) p s).heap.length
        rw [hl1]; exact Nat.lt_succ_of_lt (isIndi_lt hi.1 hw))
    exact (ksub_addFamily _ p s).trans (k2.trans k3)
  | docDelete r => exact KSub.of_heap (heap_docDelete _ r s)
  | docSetNodes ks => exact KSub.of_heap (heap_docSetNodes _ ks s)
  | setHusband f i =>
    simp only [Op.ok, Bool.and_eq_true] at hok
    refine ksub_setOrClear _ true i (tag_lt (isFam_iff.mp hok.1) tFAM_ne) fun x hx => ?_
    subst hx; exact isIndi_lt hi.1 hok.2
  | setWife f i =>
    simp only [Op.ok, Bool.and_eq_true] at hok
    refine ksub_setOrClear _ false i (tag_lt (isFam_iff.mp hok.1) tFAM_ne) fun x hx => ?_
    subst hx; exact isIndi_lt hi.1 hok.2
  | setHusbandPointer f p => exact ksub_setSpousePointer _ true p (tag_lt (isFam_iff.mp hok) tFAM_ne)
  | setWifePointer f p => exact ksub_setSpousePointer _ false p (tag_lt (isFam_iff.mp hok) tFAM_ne)
  | addChild f i =>
    simp only [Op.ok, Bool.and_eq_true] at hok
    exact ksub_addChild _ (tag_lt (isFam_iff.mp hok.1) tFAM_ne) (isIndi_lt hi.1 hok.2)
  | addEventDate i t v =>
    simp only [Op.ok, Bool.and_eq_true] at hok
    have hin := isIndi_lt hi.1 hok.1
    refine ksub_addEventDate _ t v hin fun e he => ?_
    have r1 : (nwt i t s).1 = specNWT (abs s) i t := (nwt_sound i t s hi hin).2.2
    exact specNWT_lt hi.1.awf (r1 ▸ List.mem_of_head? he)
  | setSex i v => exact ksub_setSex _ v (isIndi_lt hi.1 hok)
  | read v => exact KSub.of_eq (runView_sound v s hi hok).2.1
  | warnings => exact KSub.of_eq (abs_warningsRead s)
  | string => exact KSub.refl _
  | gedcomString n => exact KSub.refl _
  | foreign => exact KSub.refl _
  | inert => exact KSub.refl _

/-- the invariant of reachable states: caches coherent, and the document a forest -/
def TInv (s : St) : Prop := Inv s ∧ Mono (abs s)

theorem tinv_init (f : Forest) : TInv (ofForest f) :=
  ⟨init_inv _ _ (ofForest_awf f), ofForest_kids_gt f⟩

theorem tinv_exec {s : St} (h : TInv s) (op : Op) (hok : op.ok (abs s) = true) :
    TInv (exec (Flags.goodWith b1 b2 b3) s op).1 :=
  ⟨exec_inv h.1 op hok, h.2.step (exec_ksub h.1 op hok)⟩

end Gedcom.Cache
