/-
  C04 helper lemmas, part 3: the range pattern on grammar sentences.
-/
import Gedcom.Lemmas.DateGrammar
namespace Gedcom

/-! ## general list helper -/

/-- `findSome?` when the function has at most one possible value on the list and attains it -/
theorem findSome?_of_unique {α β : Type} {f : α → Option β} {l : List α} {v : β}
    (h1 : ∀ a ∈ l, f a = none ∨ f a = some v) (h2 : ∃ a ∈ l, f a = some v) :
    l.findSome? f = some v := by
  induction l with
  | nil => obtain ⟨a, ha, _⟩ := h2; simp at ha
  | cons a l ih =>
    rw [List.findSome?_cons]
    rcases h1 a (by simp) with h | h
    · rw [h]
      obtain ⟨b, hb, hv⟩ := h2
      rcases List.mem_cons.mp hb with rfl | hb
      · rw [h] at hv; simp at hv
      · exact ih (fun x hx => h1 x (by simp [hx])) ⟨b, hb, hv⟩
    · rw [h]

/-! ## a keyword standing exactly at a token -/

theorem kwAt_exact {k Tok : Str} (R : Str) (h : lowerStr k = lowerStr Tok) :
    hasPrefixCI k (Tok ++ 32 :: R) = true ∧ (Tok ++ 32 :: R).take k.length = Tok ∧
    (Tok ++ 32 :: R).drop k.length = 32 :: R := by
  have hl : k.length = Tok.length := length_eq_of_lower_eq h
  refine ⟨?_, by rw [hl, take_append_length], by rw [hl, drop_append_length]⟩
  clear hl
  induction k generalizing Tok with
  | nil => simp [hasPrefixCI]
  | cons k0 k ih =>
    cases Tok with
    | nil => simp [lowerStr] at h
    | cons t0 T =>
      rw [lowerStr_cons, lowerStr_cons] at h
      injection h with h1 h2
      simp [hasPrefixCI, h1, ih h2]

/-! ## the separator -/

def NotAnd (Tok : Str) : Prop := ∀ aw ∈ andKeywords, lowerStr aw ≠ lowerStr Tok

theorem sepWordAt_none_tok {Tok rest : Str} (hT : ∀ b ∈ Tok, b ≠ 32)
    (hrest : rest = [] ∨ ∃ R, rest = 32 :: R) (hna : NotAnd Tok) :
    sepWordAt (Tok ++ rest) = none := by
  unfold sepWordAt
  rw [List.findSome?_eq_none_iff]
  intro aw haw
  by_cases hp : hasPrefixCI aw (Tok ++ rest) = true
  · rw [if_pos hp]
    split
    · next r' e =>
      exact absurd (kwAt_tok (no32_of_solidStr (andKeywords_solid aw haw)) hT hrest hp e) (hna aw haw)
    · rfl
  · rw [if_neg hp]

theorem sepWordAt_exact {AW : Str} (R : Str) (hT : ∀ b ∈ AW, b ≠ 32)
    (h : ∃ aw ∈ andKeywords, lowerStr AW = lowerStr aw) :
    sepWordAt (AW ++ 32 :: R) = some (AW, R) := by
  unfold sepWordAt
  apply findSome?_of_unique
  · intro aw haw
    by_cases hp : hasPrefixCI aw (AW ++ 32 :: R) = true
    · rw [if_pos hp]
      split
      · next r' e =>
        have hl := kwAt_tok (no32_of_solidStr (andKeywords_solid aw haw)) hT (Or.inr ⟨R, rfl⟩) hp e
        obtain ⟨_, h2, h3⟩ := kwAt_exact R hl
        rw [h3] at e
        injection e with _ e
        right; rw [h2, e]
      · left; rfl
    · left; rw [if_neg hp]
  · obtain ⟨aw, haw, hl⟩ := h
    obtain ⟨h1, h2, h3⟩ := kwAt_exact R hl.symm
    exact ⟨aw, haw, by simp only [if_pos h1, h3, h2]⟩

/-- some `␠word␠` with text after it occurs in the string -/
def hasSepB : Str → Bool
  | [] => false
  | c :: cs =>
    (c == 32 && (match sepWordAt cs with | some x => !x.2.isEmpty | none => false)) || hasSepB cs

theorem findSep_none {cs : Str} (h : hasSepB cs = false) (acc : Str) : findSep acc cs = none := by
  induction cs generalizing acc with
  | nil => rfl
  | cons c cs ih =>
    simp only [hasSepB, Bool.or_eq_false_iff] at h
    rw [findSep, ih h.2]
    by_cases hc : (c == 32 && !acc.isEmpty) = true
    · simp only [hc, if_true]
      have hc32 : (c == 32) = true := by simp at hc; simp [hc.1]
      have hm := h.1
      rw [hc32, Bool.true_and] at hm
      cases hs : sepWordAt cs with
      | none => rfl
      | some x =>
        rw [hs] at hm
        obtain ⟨w, r⟩ := x
        simp at hm
        simp [hm]
    · simp [hc]

theorem findSep_split {AWR AW R : Str} (hno : hasSepB AWR = false)
    (hsep : sepWordAt AWR = some (AW, R)) (hR : R ≠ []) (L acc : Str) (hne : acc ≠ [] ∨ L ≠ []) :
    findSep acc (L ++ 32 :: AWR) = some (acc.reverse ++ L, AW, R) := by
  induction L generalizing acc with
  | nil =>
    have hacc : acc ≠ [] := by rcases hne with h | h; exact h; exact absurd rfl h
    have : acc.isEmpty = false := by cases acc <;> simp at hacc ⊢
    have hRe : R.isEmpty = false := by cases R <;> simp at hR ⊢
    rw [List.nil_append, findSep, findSep_none hno]
    simp [this, hsep, hRe]
  | cons x L ih =>
    rw [List.cons_append, findSep, ih (x :: acc) (Or.inl (by simp))]
    simp

theorem hasSepB_append_solid {t : Str} (ht : ∀ b ∈ t, b ≠ 32) (X : Str) :
    hasSepB (t ++ X) = hasSepB X := by
  induction t with
  | nil => rfl
  | cons a t ih =>
    have : (a == 32) = false := by simpa using ht a (by simp)
    rw [List.cons_append, hasSepB, this, Bool.false_and, Bool.false_or]
    exact ih (fun b hb => ht b (by simp [hb]))

/-- a single-spaced run of tokens none of which is an and-word contains no separator -/
theorem hasSepB_joinSp (toks : List Str) (h : ∀ t ∈ toks, Solid t ∧ NotAnd t) :
    hasSepB (joinSp toks) = false ∧ (toks ≠ [] → sepWordAt (joinSp toks) = none) := by
  induction toks with
  | nil => exact ⟨rfl, fun h => absurd rfl h⟩
  | cons t ts ih =>
    obtain ⟨hs, hna⟩ := h t (by simp)
    have ih' := ih (fun x hx => h x (by simp [hx]))
    cases ts with
    | nil =>
      refine ⟨?_, fun _ => ?_⟩
      · have := hasSepB_append_solid (no32_of_solid hs) []
        simpa [joinSp, hasSepB] using this
      · have := sepWordAt_none_tok (rest := []) (no32_of_solid hs) (Or.inl rfl) hna
        simpa [joinSp] using this
    | cons t' ts =>
      have e : joinSp (t :: t' :: ts) = t ++ 32 :: joinSp (t' :: ts) := rfl
      refine ⟨?_, fun _ => ?_⟩
      · rw [e, hasSepB_append_solid (no32_of_solid hs), hasSepB, ih'.1, ih'.2 (by simp)]
        rfl
      · rw [e]
        exact sepWordAt_none_tok (no32_of_solid hs) (Or.inr ⟨_, rfl⟩) hna

/-! ## the range pattern on `between X and Y` -/

theorem not_contains_of_forall {s : Str} (h : ∀ b ∈ s, b ≠ 10) : s.contains 10 = false := by
  rw [Bool.eq_false_iff]
  intro hc
  have : (10 : UInt8) ∈ s := by simpa using hc
  exact h 10 this rfl

theorem matchRange_range {BW S1 AW S2 : Str}
    (hBW : ∀ b ∈ BW, b ≠ 32) (hbw : ∃ bk ∈ betweenKeywords, lowerStr BW = lowerStr bk)
    (hAW : ∀ b ∈ AW, b ≠ 32) (haw : ∃ aw ∈ andKeywords, lowerStr AW = lowerStr aw)
    (hS1 : S1 ≠ []) (hS2 : S2 ≠ [])
    (hno : hasSepB S2 = false) (hno' : sepWordAt S2 = none)
    (hnl : ∀ b ∈ BW ++ 32 :: (S1 ++ 32 :: (AW ++ 32 :: S2)), b ≠ 10) :
    matchRange (BW ++ 32 :: (S1 ++ 32 :: (AW ++ 32 :: S2))) = some (BW, S1, AW, S2) := by
  have hsepB : hasSepB (AW ++ 32 :: S2) = false := by
    rw [hasSepB_append_solid hAW, hasSepB, hno, hno']; rfl
  have hfind : findSep [] (S1 ++ 32 :: (AW ++ 32 :: S2)) = some (S1, AW, S2) := by
    have := findSep_split hsepB (sepWordAt_exact S2 hAW haw) hS2 S1 [] (Or.inr hS1)
    simpa using this
  unfold matchRange
  rw [not_contains_of_forall hnl]
  simp only [Bool.false_eq_true, if_false]
  apply findSome?_of_unique
  · intro bk hbk
    by_cases hp : hasPrefixCI bk (BW ++ 32 :: (S1 ++ 32 :: (AW ++ 32 :: S2))) = true
    · rw [if_pos hp]
      split
      · next r' e =>
        have hl := kwAt_tok (no32_of_solidStr (betweenKeywords_solid bk hbk).1) hBW
          (Or.inr ⟨_, rfl⟩) hp e
        obtain ⟨_, h2, h3⟩ := kwAt_exact (S1 ++ 32 :: (AW ++ 32 :: S2)) hl
        rw [h3] at e
        injection e with _ e
        right; rw [← e, hfind, h2]; rfl
      · left; rfl
    · left; rw [if_neg hp]
  · obtain ⟨bk, hbk, hl⟩ := hbw
    obtain ⟨h1, h2, h3⟩ := kwAt_exact (S1 ++ 32 :: (AW ++ 32 :: S2)) hl.symm
    exact ⟨bk, hbk, by rw [if_pos h1, h3, h2]; simp [hfind]⟩

/-! ## tokens that are not and-words -/

theorem and_not_keyword :
    ∀ aw ∈ andKeywords, ∀ kw ∈ dateKeywords, lowerStr aw ≠ lowerStr kw := by decide
theorem and_not_month :
    ∀ aw ∈ andKeywords, ∀ wm ∈ Generated.monthWords, lowerStr aw ≠ lowerStr wm.1 := by decide
theorem and_head_not_digit :
    ∀ aw ∈ andKeywords, (match aw with | a :: _ => !isDigitB a | [] => false) = true := by decide

theorem notAnd_of_isDigits {s : Str} (h : isDigits s = true) : NotAnd s := by
  intro aw haw e
  have hh := and_head_not_digit aw haw
  cases aw with
  | nil => simp at hh
  | cons a0 aw =>
    cases s with
    | nil => simp [isDigits] at h
    | cons b0 s =>
      rw [lowerStr_cons, lowerStr_cons] at e
      injection e with e1 _
      have := (classes_of_lower_eq e1).1
      rw [isDigits_all h b0 (by simp)] at this
      simp [this] at hh


/-! ## whole range sentences -/

theorem joinSp_append {l1 l2 : List Str} (h1 : l1 ≠ []) (h2 : l2 ≠ []) :
    joinSp (l1 ++ l2) = joinSp l1 ++ 32 :: joinSp l2 := by
  induction l1 with
  | nil => exact absurd rfl h1
  | cons t ts ih =>
    cases ts with
    | nil => simp [joinSp_cons h2, joinSp]
    | cons t' ts =>
      show joinSp (t :: ((t' :: ts) ++ l2)) = _
      rw [joinSp_cons (by simp), ih (by simp)]
      show _ = (t ++ 32 :: joinSp (t' :: ts)) ++ 32 :: joinSp l2
      simp

theorem bytes_joinSp (toks : List Str) (h : ∀ t ∈ toks, Solid t) :
    ∀ b ∈ joinSp toks, solidB b = true ∨ b = 32 := by
  induction toks with
  | nil => intro b hb; simp [joinSp] at hb
  | cons t ts ih =>
    have ih' := ih (fun x hx => h x (by simp [hx]))
    cases ts with
    | nil => intro b hb; exact Or.inl ((h t (by simp)).2 b (by simpa [joinSp] using hb))
    | cons t' ts =>
      intro b hb
      rw [joinSp_cons (by simp)] at hb
      rcases List.mem_append.mp hb with hb | hb
      · exact Or.inl ((h t (by simp)).2 b hb)
      · rcases List.mem_cons.mp hb with rfl | hb
        · exact Or.inr rfl
        · exact ih' b hb

theorem ne10_of_solid_or_space {b : UInt8} (h : solidB b = true ∨ b = 32) : b ≠ 10 := by
  rcases h with h | rfl
  · exact solid_ne h 10 (by decide)
  · decide

/-- a token that is some letter-case variant of a word of a solid-word list is solid -/
theorem solid_of_variant {l : List Str} (hl : ∀ k ∈ l, solidStr k = true) {T : Str}
    (h : ∃ k ∈ l, lowerStr T = lowerStr k) : Solid T := by
  obtain ⟨k, hk, hlow⟩ := h
  have hs := (solidStr_iff k).mp (hl k hk)
  refine ⟨?_, all_of_lower_eq (fun a b e => (classes_of_lower_eq e).2.2.1) hlow hs.2⟩
  intro e; subst e
  have := length_eq_of_lower_eq hlow
  exact hs.1 (List.eq_nil_of_length_eq_zero (by simpa using this.symm))

/-- `between X and Y`, written with any admissible spacing, parses to the results of `X` and `Y` -/
theorem range_parse {BW AW : Str} (x1 x2 : Sentence) (h1 : x1.WF) (h2 : x2.WF)
    (hna : ∀ t ∈ x2.tokens, NotAnd t)
    (hbw : ∃ bk ∈ betweenKeywords, lowerStr BW = lowerStr bk)
    (haw : ∃ aw ∈ andKeywords, lowerStr AW = lowerStr aw)
    (gt : List (Nat × Str)) (e : Nat)
    (htok : gt.map (·.2) = BW :: x1.tokens ++ AW :: x2.tokens) (hgap : GapsOK gt) :
    parseDateRange (render gt e) = ⟨x1.result, x2.result, render gt e⟩ := by
  have hBW : Solid BW := solid_of_variant (fun k hk => (betweenKeywords_solid k hk).1) hbw
  have hAW : Solid AW := solid_of_variant andKeywords_solid haw
  have hsolid : ∀ t ∈ BW :: x1.tokens ++ AW :: x2.tokens, Solid t := by
    intro t ht
    simp only [List.cons_append, List.mem_cons, List.mem_append] at ht
    rcases ht with rfl | ht | rfl | ht
    · exact hBW
    · exact x1.tokens_solid h1 t ht
    · exact hAW
    · exact x2.tokens_solid h2 t ht
  have hjoin : joinSp (BW :: x1.tokens ++ AW :: x2.tokens) =
      BW ++ 32 :: (x1.str ++ 32 :: (AW ++ 32 :: x2.str)) := by
    have : BW :: x1.tokens ++ AW :: x2.tokens = (BW :: x1.tokens) ++ (AW :: x2.tokens) := rfl
    rw [this, joinSp_append (by simp) (by simp), joinSp_cons x1.tokens_ne_nil,
      joinSp_cons x2.tokens_ne_nil]
    simp [Sentence.str]
  have hclean : cleanSpace (render gt e) = BW ++ 32 :: (x1.str ++ 32 :: (AW ++ 32 :: x2.str)) := by
    rw [cleanSpace_render gt e hgap, htok, hjoin]
    intro p hp
    exact hsolid p.2 (by rw [← htok]; exact List.mem_map_of_mem hp)
  have hne : ∀ x : Sentence, x.WF → x.str ≠ [] := by
    intro x hx e
    cases hk : x.kw with
    | some T => rw [Sentence.str_some hk] at e; simp at e
    | none =>
      rw [Sentence.str_none hk] at e
      obtain ⟨b0, r, eb, _⟩ := x.body.str_head hx.body
      rw [e] at eb; simp at eb
  have hsep := hasSepB_joinSp x2.tokens (fun t ht => ⟨x2.tokens_solid h2 t ht, hna t ht⟩)
  have hm := matchRange_range (S1 := x1.str) (S2 := x2.str) (no32_of_solid hBW) hbw
    (no32_of_solid hAW) haw (hne x1 h1) (hne x2 h2) hsep.1 (hsep.2 x2.tokens_ne_nil)
    (by
      intro b hb
      rw [← hjoin] at hb
      exact ne10_of_solid_or_space (bytes_joinSp _ hsolid b hb))
  unfold parseDateRange
  simp only [hclean, hm, parseDateParts_of_match (x1.matchDate h1),
    parseDateParts_of_match (x2.matchDate h2)]
  rfl

end Gedcom
