/- The round trip for documents with multi-line values, under `AllowMultiLine`. -/
import Gedcom.Model.MultiLine
import Gedcom.Lemmas.RoundTrip
namespace Gedcom.Dec
open Gedcom

theorem splitLF_join : ∀ v : Str, (splitLF v).1 ++ contBytes (splitLF v).2 = v
  | [] => rfl
  | b :: r => by
    have ih := splitLF_join r
    unfold splitLF
    by_cases hb : (b == LF) = true
    · have : b = LF := by simpa using hb
      simp only [hb, ↓reduceIte, List.nil_append, contBytes]
      rw [List.cons_append, ih, this]
    · simp only [hb, Bool.false_eq_true, ↓reduceIte, List.cons_append]
      rw [ih]

theorem splitLF_fst_noLF : ∀ v : Str, ∀ x ∈ (splitLF v).1, x ≠ LF
  | [], x, hx => by simp [splitLF] at hx
  | b :: r, x, hx => by
    unfold splitLF at hx
    by_cases hb : (b == LF) = true
    · simp [hb] at hx
    · simp only [hb, Bool.false_eq_true, ↓reduceIte, List.mem_cons] at hx
      rcases hx with hx | hx
      · subst hx; simpa using hb
      · exact splitLF_fst_noLF r x hx

theorem splitLF_snd_noLF : ∀ v : Str, ∀ seg ∈ (splitLF v).2, ∀ x ∈ seg, x ≠ LF
  | [], seg, hs => by simp [splitLF] at hs
  | b :: r, seg, hs => by
    unfold splitLF at hs
    by_cases hb : (b == LF) = true
    · simp only [hb, ↓reduceIte, List.mem_cons] at hs
      rcases hs with hs | hs
      · subst hs; exact splitLF_fst_noLF r
      · exact splitLF_snd_noLF r seg hs
    · simp only [hb, Bool.false_eq_true, ↓reduceIte] at hs
      exact splitLF_snd_noLF r seg hs

theorem splitLF_fst_sub (v : Str) : ∀ x ∈ (splitLF v).1, x ∈ v := by
  intro x hx
  have := splitLF_join v
  rw [← this]; simp [hx]

theorem mem_contBytes {more : List Str} {seg : Str} (hs : seg ∈ more) : ∀ x ∈ seg, x ∈ contBytes more := by
  induction more with
  | nil => simp at hs
  | cons a as ih =>
    intro x hx
    simp only [List.mem_cons] at hs
    rcases hs with hs | hs
    · subst hs; simp [contBytes, hx]
    · simp [contBytes, ih hs x hx]

theorem splitLF_snd_sub (v : Str) : ∀ seg ∈ (splitLF v).2, ∀ x ∈ seg, x ∈ v := by
  intro seg hs x hx
  have := splitLF_join v
  rw [← this]
  simp [mem_contBytes hs x hx]

/-! ## the text of one node -/

theorem renderLine_split (lvl : Nat) (p t v : Str)
    (h : (splitLF v).2 = [] ∨ (splitLF v).1 ≠ []) :
    renderLine ⟨lvl, p, t, v⟩ = renderLine ⟨lvl, p, t, (splitLF v).1⟩ ++ contBytes (splitLF v).2 := by
  have hj := splitLF_join v
  unfold renderLine
  simp only
  by_cases hv : v = []
  · subst hv; simp [splitLF, contBytes]
  · by_cases h1 : (splitLF v).1 = []
    · rcases h with h | h
      · rw [h1, h] at hj; simp [contBytes] at hj; exact absurd hj hv
      · exact absurd h1 h
    · simp only [hv, h1, if_false]
      conv => lhs; rw [← hj]
      simp [List.append_assoc]

/-- a rendered line is free of line breaks when its fields are -/
theorem renderLine_nobreak' (lvl : Nat) (t v p : Str) (htw : ∀ x ∈ t, isWord x = true)
    (hp : ∀ x ∈ p, x ≠ AT ∧ x ≠ LF ∧ x ≠ CR) (hv : ∀ x ∈ v, x ≠ LF ∧ x ≠ CR) :
    ∀ x ∈ renderLine ⟨lvl, p, t, v⟩, x ≠ LF ∧ x ≠ CR := by
  intro x hx
  unfold renderLine at hx
  simp only [List.mem_append] at hx
  rcases hx with ((hx | hx) | hx) | hx
  · rcases hx with hx | hx
    · have := isDigit_not_break (natToDec_digits lvl x hx); exact ⟨this.1, this.2.1⟩
    · simp at hx; subst hx; decide
  · by_cases hpn : p = []
    · simp [hpn] at hx
    · simp only [hpn, if_false, List.mem_append, List.mem_cons, List.not_mem_nil, or_false] at hx
      rcases hx with (hx | hx) | hx
      · subst hx; decide
      · exact (hp x hx).2
      · rcases hx with hx | hx <;> subst hx <;> decide
  · have := isWord_not (htw x hx); exact ⟨this.2.2.1, this.2.2.2⟩
  · by_cases hvn : v = []
    · simp [hvn] at hx
    · simp only [hvn, if_false, List.mem_cons] at hx
      rcases hx with hx | hx
      · subst hx; decide
      · exact hv x hx

/-- `splitLines` over a first line followed by continuation parts -/
theorem splitGo_cont (more : List Str) : ∀ (a rest : Str), (∀ x ∈ a, x ≠ LF ∧ x ≠ CR) →
    (∀ seg ∈ more, ∀ x ∈ seg, x ≠ LF ∧ x ≠ CR) →
    splitLines.go (a ++ contBytes more ++ LF :: rest) [] = a :: more ++ splitLines.go rest [] := by
  induction more with
  | nil =>
    intro a rest ha _
    simp only [contBytes, List.append_nil, List.nil_append]
    rw [splitGo_line a rest [] ha]; simp
  | cons seg ms ih =>
    intro a rest ha hm
    have : a ++ contBytes (seg :: ms) ++ LF :: rest = a ++ LF :: (seg ++ contBytes ms ++ LF :: rest) := by
      simp [contBytes, List.append_assoc]
    rw [this, splitGo_line a _ [] ha]
    rw [ih seg rest (hm seg (by simp)) (fun s hs => hm s (by simp [hs]))]
    simp

/-! ## the decoder on those lines -/

/-- the step on the written first line of a node (no assumption on trimming) -/
theorem step_rendered' (o : Opts) (s : St) (lvl : Nat) {t v p : Str} (hline : LegalLine ⟨lvl, p, t, v⟩)
    (hrec : isRecordTag t = true → v = [])
    (hl : lvl ≤ s.stack.length) (htop : TopOK s) (hrole : (!isRoleTag t || s.seenFam) = true) :
    step o s (renderLine ⟨lvl, p, t, v⟩) =
      .next (push (closeTo lvl (setFam (s.seenFam || t == tFAM) s)) ⟨t, v, p⟩) := by
  have hpl := parseLine_renderLine ⟨lvl, p, t, v⟩ hline
  have hne := renderLine_ne_nil ⟨lvl, p, t, v⟩
  have hhdr : hdrOf ⟨lvl, p, t, v⟩ = ⟨t, v, p⟩ := by
    unfold hdrOf
    by_cases hr : isRecordTag t = true
    · simp [hr, hrec hr]
    · simp [hr]
  have hrole' : (isRoleTag t && !s.seenFam) = false := by
    cases h1 : isRoleTag t <;> cases h2 : s.seenFam <;> simp_all
  have htrim : trimTop (setFam (s.seenFam || t == tFAM) s) = setFam (s.seenFam || t == tFAM) s :=
    trimTop_of_TopOK _ (TopOK_setFam _ s htop)
  unfold step place
  simp only [hne, if_false, hpl, hrole', Bool.false_eq_true]
  have hs : ({ s with seenFam := s.seenFam || t == tFAM } : St) = setFam (s.seenFam || t == tFAM) s := rfl
  simp only [hs, htrim, hhdr]
  by_cases h0 : lvl = 0
  · simp [h0]
  · have : ¬ (s.stack.length ≤ lvl - 1) := by omega
    simp [h0, this]

theorem appendTop_appendTop (a b : Str) (s : St) : appendTop b (appendTop a s) = appendTop (a ++ b) s := by
  rcases s with ⟨r, _ | ⟨f, fs⟩, sf⟩ <;> simp [appendTop, List.append_assoc]

theorem appendTop_nil (s : St) : appendTop [] s = s := by
  rcases s with ⟨r, _ | ⟨f, fs⟩, sf⟩ <;> simp [appendTop]

@[simp] theorem appendTop_seen (a : Str) (s : St) : (appendTop a s).seenFam = s.seenFam := by
  rcases s with ⟨r, _ | ⟨f, fs⟩, sf⟩ <;> simp [appendTop]

theorem appendTop_isEmpty (a : Str) (s : St) : (appendTop a s).stack.isEmpty = s.stack.isEmpty := by
  rcases s with ⟨r, _ | ⟨f, fs⟩, sf⟩ <;> simp [appendTop]

/-- continuation lines extend the value of the deepest open node -/
theorem run_cont (o : Opts) (hm : o.allowMultiLine = true) (more : List Str) :
    ∀ (s : St) (n : Nat) (ls : List Str), s.stack.isEmpty = false →
      (∀ seg ∈ more, contOKB s.seenFam seg = true) →
      ∃ n', run o s n (more ++ ls) = run o (appendTop (contBytes more) s) n' ls := by
  induction more with
  | nil => intro s n ls _ _; exact ⟨n, by simp [contBytes, appendTop_nil]⟩
  | cons seg ms ih =>
    intro s n ls hs hok
    have hseg := hok seg (by simp)
    have hstep : step o s seg = .next (appendTop (LF :: seg) s) := by
      unfold step
      by_cases he : seg = []
      · subst he; simp [hm, hs]
      · simp only [he, if_false]
        unfold contOKB at hseg
        have he' : seg.isEmpty = false := by simpa using he
        simp only [he', Bool.false_or] at hseg
        cases hp : parseLine seg with
        | none => simp [unparsable, hm, hs]
        | some l =>
          rw [hp] at hseg
          simp only at hseg
          simp [hseg, unparsable, hm, hs]
    obtain ⟨n', hrun⟩ := ih (appendTop (LF :: seg) s) (n + 1) ls
      (by rw [appendTop_isEmpty]; exact hs)
      (fun sg hsg => by rw [appendTop_seen]; exact hok sg (by simp [hsg]))
    refine ⟨n', ?_⟩
    rw [List.cons_append, run_next o s _ n seg _ hstep, hrun, appendTop_appendTop]
    simp [contBytes]

theorem appendTop_push (s : St) (t v p a : Str) :
    appendTop a (push s ⟨t, v, p⟩) = push s ⟨t, v ++ a, p⟩ := by
  simp [push, appendTop]

/-! ## legality, as propositions -/

structure LegalHdrML (sf : Bool) (t v p : Str) : Prop where
  tag_ne : t ≠ []
  tag_word : ∀ x ∈ t, isWord x = true
  ptr_ok : ∀ x ∈ p, x ≠ AT ∧ x ≠ LF ∧ x ≠ CR
  val_ok : ∀ x ∈ v, x ≠ CR
  val_trim : trimSpace v = v
  record_no_value : isRecordTag t = true → v = []
  first_ne : (splitLF v).2 = [] ∨ (splitLF v).1 ≠ []
  cont_ok : ∀ seg ∈ (splitLF v).2, contOKB sf seg = true

theorem legalHdrMLB_sound {sf : Bool} {t v p : Str} (h : legalHdrMLB sf t v p = true) :
    LegalHdrML sf t v p := by
  unfold legalHdrMLB at h
  simp only [Bool.and_eq_true, List.all_eq_true, bne_iff_ne, ne_eq, beq_iff_eq, Bool.or_eq_true,
    Bool.not_eq_eq_eq_not, Bool.not_true, decide_eq_true_eq, List.isEmpty_iff] at h
  obtain ⟨⟨⟨⟨⟨⟨⟨h1, h2⟩, h3⟩, h4⟩, h5⟩, h6⟩, h7⟩, h8⟩ := h
  refine ⟨h1, h2, ?_, h4, h5, ?_, ?_, h8⟩
  · intro x hx; have := h3 x hx; exact ⟨this.1.1, this.1.2, this.2⟩
  · intro hr; rcases h6 with h6 | h6
    · rw [hr] at h6; exact absurd h6 (by simp)
    · exact h6
  · rcases h7 with h7 | h7
    · exact Or.inl h7
    · refine Or.inr ?_
      intro e; rw [e] at h7; simp at h7

/-- running the decoder over the text of one node line with its continuation parts -/
theorem run_node_lines (o : Opts) (hm : o.allowMultiLine = true) (s : St) (n lvl : Nat) {t v p : Str}
    (h : LegalHdrML (s.seenFam || t == tFAM) t v p) (hl : lvl ≤ s.stack.length) (htop : TopOK s)
    (hrole : (!isRoleTag t || s.seenFam) = true) (rest : Str) :
    ∃ n', run o s n (splitLines.go (renderLine ⟨lvl, p, t, v⟩ ++ LF :: rest) []) =
      run o (push (closeTo lvl (setFam (s.seenFam || t == tFAM) s)) ⟨t, v, p⟩) n'
        (splitLines.go rest []) := by
  have hv0 : ∀ x ∈ (splitLF v).1, x ≠ LF ∧ x ≠ CR := fun x hx =>
    ⟨splitLF_fst_noLF v x hx, h.val_ok x (splitLF_fst_sub v x hx)⟩
  have hmore : ∀ seg ∈ (splitLF v).2, ∀ x ∈ seg, x ≠ LF ∧ x ≠ CR := fun seg hs x hx =>
    ⟨splitLF_snd_noLF v seg hs x hx, h.val_ok x (splitLF_snd_sub v seg hs x hx)⟩
  have hrec0 : isRecordTag t = true → (splitLF v).1 = [] := by
    intro hr; rw [h.record_no_value hr]; rfl
  have hline : LegalLine ⟨lvl, p, t, (splitLF v).1⟩ := ⟨h.tag_ne, h.tag_word, fun x hx => (h.ptr_ok x hx).1⟩
  rw [renderLine_split lvl p t v h.first_ne,
    splitGo_cont _ _ rest (renderLine_nobreak' lvl t _ p h.tag_word h.ptr_ok hv0) hmore]
  rw [List.cons_append,
    run_next o s _ n _ _ (step_rendered' o s lvl hline hrec0 hl htop hrole)]
  obtain ⟨n', hrun⟩ := run_cont o hm (splitLF v).2
    (push (closeTo lvl (setFam (s.seenFam || t == tFAM) s)) ⟨t, (splitLF v).1, p⟩) (n + 1)
    (splitLines.go rest []) (by simp [push])
    (by intro seg hs; simpa [push] using h.cont_ok seg hs)
  refine ⟨n', ?_⟩
  rw [hrun, appendTop_push, splitLF_join]

mutual
/-- `runT` for documents with multi-line values, under `AllowMultiLine` -/
theorem runT_ML (o : Opts) (hm : o.allowMultiLine = true) (t : Node) (lvl : Nat) (s : St) (n : Nat)
    (rest : Str) (hl : lvl ≤ s.stack.length) (htop : TopOK s) (hleg : legalMLT s.seenFam t = true) :
    ∃ s' n', run o s n (splitLines.go (encNode lvl t ++ rest) []) = run o s' n' (splitLines.go rest []) ∧
      lvl < s'.stack.length ∧ TopOK s' ∧ s'.seenFam = famAfterT s.seenFam t ∧
      closeTo lvl s' = setFam s'.seenFam (attach (closeTo lvl s) [t]) := by
  match t with
  | .mk tg v p ks =>
    rw [legalMLT, Bool.and_eq_true, Bool.and_eq_true] at hleg
    obtain ⟨⟨hh0, hr1⟩, hks⟩ := hleg
    have hh := legalHdrMLB_sound hh0
    let b := s.seenFam || tg == tFAM
    let s1 : St := push (closeTo lvl (setFam b s)) ⟨tg, v, p⟩
    obtain ⟨n1, hlines⟩ := run_node_lines o hm s n lvl hh hl htop hr1 (encForest (lvl + 1) ks ++ rest)
    have hlen0 : (closeTo lvl (setFam b s)).stack.length = lvl := closeTo_len lvl _ (by simpa using hl)
    have hs1len : s1.stack.length = lvl + 1 := by simp [s1, push, hlen0]
    have hs1top : TopOK s1 := TopOK_push _ _ hh.val_trim
    have hs1seen : s1.seenFam = b := by simp [s1, push]
    obtain ⟨s2, n2, hrun, hlen2, htop2, hseen2, hclose2⟩ :=
      runF_ML o hm ks (lvl + 1) s1 n1 rest (by omega) hs1top (by rw [hs1seen]; exact hks)
    refine ⟨s2, n2, ?_, by omega, htop2, ?_, ?_⟩
    · rw [encNode_append, hlines]
      exact hrun
    · rw [hseen2, hs1seen, famAfterT]
    · rw [← closeTo_closeTo lvl (lvl + 1) s2 (by omega), hclose2,
        closeTo_self s1 (lvl + 1) (by omega), closeTo_setFam]
      have hatt : attach s1 ks =
          ⟨(closeTo lvl (setFam b s)).roots, ⟨⟨tg, v, p⟩, ks⟩ :: (closeTo lvl (setFam b s)).stack,
            (closeTo lvl (setFam b s)).seenFam⟩ := by
        simp [s1, push, attach]
      rw [hatt]
      have hp := closeTo_push (closeTo lvl (setFam b s)) ⟨tg, v, p⟩ ks
      rw [hlen0] at hp
      rw [hp, closeTo_setFam, attach_setFam, setFam_setFam]
theorem runF_ML (o : Opts) (hm : o.allowMultiLine = true) (f : List Node) (lvl : Nat) (s : St) (n : Nat)
    (rest : Str) (hl : lvl ≤ s.stack.length) (htop : TopOK s) (hleg : legalMLF s.seenFam f = true) :
    ∃ s' n', run o s n (splitLines.go (encForest lvl f ++ rest) []) = run o s' n' (splitLines.go rest []) ∧
      lvl ≤ s'.stack.length ∧ TopOK s' ∧ s'.seenFam = famAfterF s.seenFam f ∧
      closeTo lvl s' = setFam s'.seenFam (attach (closeTo lvl s) f) := by
  match f with
  | [] =>
    refine ⟨s, n, by simp [encForest], hl, htop, by simp [famAfterF], ?_⟩
    rw [attach_nil, ← closeTo_setFam, setFam_self]
  | t :: ts =>
    rw [legalMLF, Bool.and_eq_true] at hleg
    obtain ⟨ht, hts⟩ := hleg
    obtain ⟨s1, n1, hrun1, hlen1, htop1, hseen1, hclose1⟩ :=
      runT_ML o hm t lvl s n (encForest lvl ts ++ rest) hl htop ht
    obtain ⟨s2, n2, hrun2, hlen2, htop2, hseen2, hclose2⟩ :=
      runF_ML o hm ts lvl s1 n1 rest (by omega) htop1 (by rw [hseen1]; exact hts)
    refine ⟨s2, n2, ?_, hlen2, htop2, ?_, ?_⟩
    · rw [encForest, List.append_assoc, hrun1, hrun2]
    · rw [hseen2, hseen1, famAfterF]
    · rw [hclose2, hclose1, attach_setFam, attach_attach, setFam_setFam]
      simp
end

/-! ## every single-line legal document is multi-line legal -/

theorem splitLF_of_noLF : ∀ v : Str, (∀ x ∈ v, x ≠ LF) → splitLF v = (v, [])
  | [], _ => rfl
  | b :: r, h => by
    have hb : (b == LF) = false := by simpa using h b (by simp)
    have ih := splitLF_of_noLF r (fun x hx => h x (by simp [hx]))
    unfold splitLF
    simp [hb, ih]

theorem legalHdrMLB_of_legal (sf : Bool) {t v p : Str} (h : LegalHdr t v p) :
    legalHdrMLB sf t v p = true := by
  have hs := splitLF_of_noLF v (fun x hx => (h.val_ok x hx).1)
  unfold legalHdrMLB
  simp only [hs, List.isEmpty_nil, Bool.true_or, List.all_nil, Bool.and_true, Bool.and_eq_true,
    List.all_eq_true, bne_iff_ne, ne_eq, beq_iff_eq, Bool.or_eq_true, Bool.not_eq_eq_eq_not,
    Bool.not_true, decide_eq_true_eq]
  refine ⟨⟨⟨⟨⟨h.tag_ne, h.tag_word⟩, ?_⟩, ?_⟩, h.val_trim⟩, ?_⟩
  · intro x hx; have := h.ptr_ok x hx; exact ⟨⟨this.1, this.2.1⟩, this.2.2⟩
  · intro x hx; exact (h.val_ok x hx).2
  · by_cases hr : isRecordTag t = true
    · exact Or.inr (h.record_no_value hr)
    · exact Or.inl (by simpa using hr)

mutual
theorem legalMLT_of_legal (sf : Bool) (t : Node) (h : LegalT t) (hr : rolesOKT sf t = true) :
    legalMLT sf t = true := by
  match t with
  | .mk tg v p ks =>
    rw [LegalT] at h
    rw [rolesOKT, Bool.and_eq_true] at hr
    rw [legalMLT, Bool.and_eq_true, Bool.and_eq_true]
    exact ⟨⟨legalHdrMLB_of_legal _ h.1, hr.1⟩, legalMLF_of_legal _ ks h.2 hr.2⟩
theorem legalMLF_of_legal (sf : Bool) (f : List Node) (h : LegalF f) (hr : rolesOKF sf f = true) :
    legalMLF sf f = true := by
  match f with
  | [] => rw [legalMLF]
  | n :: ns =>
    rw [LegalF] at h
    rw [rolesOKF, Bool.and_eq_true] at hr
    rw [legalMLF, Bool.and_eq_true]
    exact ⟨legalMLT_of_legal sf n h.1 hr.1, legalMLF_of_legal _ ns h.2 hr.2⟩
end

end Gedcom.Dec
