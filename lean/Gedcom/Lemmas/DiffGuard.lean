/-
  Soundness of the executable guard `guardB` / `equivLevelsB` (Model/Diff.lean) for the guard
  `EquivGuard` of the deep-equality theorem (C08).
-/
import Gedcom.Lemmas.DiffDeep
namespace Gedcom

theorem equivOnB_sound (eq : INode → INode → Bool) (S : List INode) (h : equivOnB eq S = true) :
    ∀ a ∈ S, ∀ b ∈ S, ∀ c ∈ S,
      eq a a = true ∧ (eq a b = true → eq b a = true) ∧ (eq a b = true → eq b c = true → eq a c = true) := by
  unfold equivOnB at h
  simp only [Bool.and_eq_true, List.all_eq_true, Bool.or_eq_true, Bool.not_eq_true', List.mem_map,
    forall_exists_index, and_imp, forall_apply_eq_imp_iff₂, beq_iff_eq] at h
  obtain ⟨hrefl, hrows⟩ := h
  -- related elements have the same row
  have row : ∀ a ∈ S, ∀ b ∈ S, eq a b = true → ∀ c ∈ S, eq a c = eq b c := by
    intro a ha b hb hab c hc
    rcases hrows a ha b hb with h1 | h1
    · rw [hab] at h1; cases h1
    · exact List.map_inj_left.mp h1 c hc
  intro a ha b hb c hc
  refine ⟨hrefl a ha, ?_, ?_⟩
  · intro hab
    rw [← row a ha b hb hab a ha]
    exact hrefl a ha
  · intro hab hbc
    rw [row a ha b hb hab c hc]
    exact hbc

theorem INode.At.zero {s a : INode} (h : INode.At s 0 a) : a = s := by cases h; rfl

theorem INode.At.succ {s a : INode} {d : Nat} (h : INode.At s (d + 1) a) :
    ∃ k ∈ s.kids, INode.At k d a := by
  cases h with
  | kid hk hat => exact ⟨_, hk, hat⟩

theorem guardB_sound (eq : INode → INode → Bool) : ∀ (n : Nat) (S : List INode),
    guardB eq n S = true → EquivGuard eq S
  | 0, S, h => by
    rw [guardB] at h
    have : S = [] := by simpa using h
    subst this
    intro d a b c ⟨s, hs, _⟩; cases hs
  | n + 1, S, h => by
    rw [guardB] at h
    simp only [Bool.or_eq_true, Bool.and_eq_true] at h
    rcases h with h | ⟨h1, h2⟩
    · have : S = [] := by simpa using h
      subst this
      intro d a b c ⟨s, hs, _⟩; cases hs
    · have ih := guardB_sound eq n _ h2
      have h0 := equivOnB_sound eq S h1
      intro d a b c ha hb hc
      cases d with
      | zero =>
        obtain ⟨sa, hsa, hata⟩ := ha
        obtain ⟨sb, hsb, hatb⟩ := hb
        obtain ⟨sc, hsc, hatc⟩ := hc
        rw [hata.zero, hatb.zero, hatc.zero]
        exact h0 sa hsa sb hsb sc hsc
      | succ d =>
        have lift : ∀ x, BelowLevel S (d + 1) x → BelowLevel (S.flatMap INode.kids) d x := by
          intro x ⟨s, hs, hat⟩
          obtain ⟨k, hk, hatk⟩ := hat.succ
          exact ⟨k, List.mem_flatMap.mpr ⟨s, hs, hk⟩, hatk⟩
        exact ih d a b c (lift a ha) (lift b hb) (lift c hc)

end Gedcom
