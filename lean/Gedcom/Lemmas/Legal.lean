/- Whatever the decoder accepts (without multi-line continuation) is a legal document. -/
import Gedcom.Lemmas.Listing
import Gedcom.Lemmas.RoundTrip
namespace Gedcom.Dec
open Gedcom

def NoBreak (l : Str) : Prop := ∀ x ∈ l, x ≠ LF ∧ x ≠ CR

theorem takeWhile_sat {α} (p : α → Bool) (l : List α) : ∀ x ∈ l.takeWhile p, p x = true := by
  induction l with
  | nil => simp
  | cons a as ih =>
    intro x hx
    by_cases ha : p a = true
    · simp only [List.takeWhile_cons, ha, if_true, List.mem_cons] at hx
      rcases hx with hx | hx
      · subst hx; exact ha
      · exact ih x hx
    · simp [ha] at hx

/-- every line `readLine` returns is free of line breaks -/
theorem splitGo_nobreak (s cur : Str) (hc : NoBreak cur) : ∀ l ∈ splitLines.go s cur, NoBreak l := by
  induction s generalizing cur with
  | nil =>
    intro l hl
    simp only [splitLines.go, List.mem_singleton] at hl
    subst hl
    intro x hx; exact hc x (by simpa using hx)
  | cons b rest ih =>
    intro l hl
    simp only [splitLines.go] at hl
    split at hl
    · simp only [List.mem_cons] at hl
      rcases hl with hl | hl
      · subst hl; intro x hx; exact hc x (by simpa using hx)
      · exact ih [] (by intro x hx; simp at hx) l hl
    · rename_i hb
      simp only [Bool.or_eq_true, beq_iff_eq, not_or] at hb
      exact ih (b :: cur) (by
        intro x hx
        simp only [List.mem_cons] at hx
        rcases hx with hx | hx
        · subst hx; exact hb
        · exact hc x hx) l hl

theorem splitLines_nobreak (s : Str) : ∀ l ∈ splitLines s, NoBreak l :=
  splitGo_nobreak s [] (by intro x hx; simp at hx)

theorem afterTag_subset (r : Str) : ∀ x ∈ afterTag r, x ∈ r := by
  intro x hx
  unfold afterTag at hx
  split at hx
  · split at hx
    · exact List.mem_cons_of_mem _ hx
    · exact hx
  · simp at hx

theorem parsePtr_facts (r2 p r : Str) (h : parsePtr r2 = some (p, r)) :
    (∀ x ∈ p, x ≠ AT ∧ x ∈ r2) ∧ (∀ x ∈ r, x ∈ r2) := by
  unfold parsePtr at h
  split at h
  · rename_i c r3
    split at h
    · split at h
      · rename_i a b r5 hd
        simp only at h
        split at h
        · simp only [Option.some.injEq, Prod.mk.injEq] at h
          obtain ⟨hp, hr⟩ := h
          subst hp hr
          constructor
          · intro x hx
            have h1 := takeWhile_sat (· != AT) r3 x hx
            have h2 := (List.takeWhile_sublist (· != AT)).subset hx
            exact ⟨by simpa using h1, List.mem_cons_of_mem _ h2⟩
          · intro x hx
            have : x ∈ r3.dropWhile (· != AT) := by rw [hd]; simp [hx]
            exact List.mem_cons_of_mem _ ((List.dropWhile_sublist (· != AT)).subset this)
        · simp at h
      · simp at h
    · simp only [Option.some.injEq, Prod.mk.injEq] at h
      obtain ⟨hp, hr⟩ := h
      subst hp hr
      exact ⟨by intro x hx; simp at hx, fun x hx => hx⟩
  · simp only [Option.some.injEq, Prod.mk.injEq] at h
    obtain ⟨hp, hr⟩ := h
    subst hp hr
    exact ⟨by intro x hx; simp at hx, fun x hx => hx⟩

/-- what a successfully parsed line looks like -/
theorem parseLine_facts (l : Str) (pl : Line) (h : parseLine l = some pl) :
    pl.tag ≠ [] ∧ (∀ x ∈ pl.tag, isWord x = true) ∧ (∀ x ∈ pl.ptr, x ≠ AT ∧ x ∈ l) ∧
    (∀ x ∈ pl.value, x ∈ l) := by
  unfold parseLine at h
  simp only at h
  split at h
  · simp at h
  · split at h
    · simp at h
    · split at h
      · simp at h
      · rename_i ptr r hp
        split at h
        · simp at h
        · rename_i htg
          simp only [Option.some.injEq] at h
          subst h
          have hpf := parsePtr_facts _ _ _ hp
          have sub2 : ∀ x, x ∈ (l.dropWhile isDigit).dropWhile (· == SP) → x ∈ l := fun x hx =>
            (List.dropWhile_sublist isDigit).subset ((List.dropWhile_sublist (· == SP)).subset hx)
          refine ⟨htg, takeWhile_sat isWord r, ?_, ?_⟩
          · intro x hx
            exact ⟨(hpf.1 x hx).1, sub2 x (hpf.1 x hx).2⟩
          · intro x hx
            have := afterTag_subset _ x hx
            exact sub2 x (hpf.2 x ((List.dropWhile_sublist isWord).subset this))

/-! entries -/

def LegalE (e : Entry) : Prop := LegalHdr e.hdr.tag e.hdr.value e.hdr.ptr

/-- legal but for the trimming of the value -/
structure PreLegalE (e : Entry) : Prop where
  tag_ne : e.hdr.tag ≠ []
  tag_word : ∀ x ∈ e.hdr.tag, isWord x = true
  ptr_ok : ∀ x ∈ e.hdr.ptr, x ≠ AT ∧ x ≠ LF ∧ x ≠ CR
  val_ok : ∀ x ∈ e.hdr.value, x ≠ LF ∧ x ≠ CR
  record_no_value : isRecordTag e.hdr.tag = true → e.hdr.value = []

theorem trimL_subset (tbl : List Str) (s : Str) : ∀ x ∈ trimL tbl s, x ∈ s := by
  obtain ⟨p, hp⟩ := trimL_suffix tbl s
  intro x hx
  rw [hp]; simp [hx]

theorem trimSpace_subset (s : Str) : ∀ x ∈ trimSpace s, x ∈ s := by
  intro x hx
  simp only [trimSpace, List.mem_reverse] at hx
  have := trimL_subset spaceSeqsRev _ x hx
  simp only [List.mem_reverse] at this
  exact trimL_subset spaceSeqs s x this

theorem trimSpace_nil : trimSpace [] = [] := by
  simp [trimSpace, trimLeft, trimLeftRev, trimL]

theorem PreLegalE.trim {e : Entry} (h : PreLegalE e) : LegalE e.trim := by
  refine ⟨h.tag_ne, h.tag_word, h.ptr_ok, ?_, trimSpace_idem _, ?_⟩
  · intro x hx; exact h.val_ok x (trimSpace_subset _ x hx)
  · intro hr
    show trimSpace e.hdr.value = []
    rw [h.record_no_value hr, trimSpace_nil]

theorem preLegal_of_parse (l : Str) (pl : Line) (lvl : Nat) (hl : NoBreak l) (h : parseLine l = some pl) :
    PreLegalE ⟨lvl, hdrOf pl⟩ := by
  obtain ⟨h1, h2, h3, h4⟩ := parseLine_facts l pl h
  refine ⟨h1, h2, ?_, ?_, ?_⟩
  · intro x hx
    have := h3 x hx
    exact ⟨this.1, hl x this.2⟩
  · intro x hx
    simp only [hdrOf] at hx
    split at hx
    · simp at hx
    · exact hl x (h4 x hx)
  · intro hr
    simp only [hdrOf] at hr ⊢
    simp [hr]

/-! role order on listings -/

def rolesOKL (seen : Bool) : List Entry → Bool
  | [] => true
  | e :: es => (!isRoleTag e.hdr.tag || seen) && rolesOKL (seen || e.hdr.tag == tFAM) es
def famAfterL (seen : Bool) : List Entry → Bool
  | [] => seen
  | e :: es => famAfterL (seen || e.hdr.tag == tFAM) es

theorem famAfterL_append (seen : Bool) (a b : List Entry) :
    famAfterL seen (a ++ b) = famAfterL (famAfterL seen a) b := by
  induction a generalizing seen with
  | nil => rfl
  | cons x xs ih => simp [famAfterL, ih]

theorem rolesOKL_append (seen : Bool) (a b : List Entry) :
    rolesOKL seen (a ++ b) = (rolesOKL seen a && rolesOKL (famAfterL seen a) b) := by
  induction a generalizing seen with
  | nil => simp [rolesOKL, famAfterL]
  | cons x xs ih => simp [rolesOKL, famAfterL, ih, Bool.and_assoc]

mutual
theorem roles_listingT (seen : Bool) (lvl : Nat) (t : Node) :
    rolesOKT seen t = rolesOKL seen (listingT lvl t) ∧ famAfterT seen t = famAfterL seen (listingT lvl t) := by
  match t with
  | .mk tg v p ks =>
    have := roles_listingF (seen || tg == tFAM) (lvl + 1) ks
    simp [rolesOKT, famAfterT, listingT, rolesOKL, famAfterL, this.1, this.2]
theorem roles_listingF (seen : Bool) (lvl : Nat) (f : List Node) :
    rolesOKF seen f = rolesOKL seen (listingF lvl f) ∧ famAfterF seen f = famAfterL seen (listingF lvl f) := by
  match f with
  | [] => simp [rolesOKF, famAfterF, listingF, rolesOKL, famAfterL]
  | t :: ts =>
    have h1 := roles_listingT seen lvl t
    have h2 := roles_listingF (famAfterT seen t) lvl ts
    rw [h1.2] at h2
    simp [rolesOKF, famAfterF, listingF, rolesOKL_append, famAfterL_append, h1.1, h1.2, h2.1, h2.2]
end

mutual
theorem legalT_of_listing (lvl : Nat) (t : Node) (h : ∀ e ∈ listingT lvl t, LegalE e) : LegalT t := by
  match t with
  | .mk tg v p ks =>
    rw [LegalT]
    refine ⟨h ⟨lvl, ⟨tg, v, p⟩⟩ (by simp [listingT]), legalF_of_listing (lvl + 1) ks ?_⟩
    intro e he; exact h e (by simp [listingT, he])
theorem legalF_of_listing (lvl : Nat) (f : List Node) (h : ∀ e ∈ listingF lvl f, LegalE e) : LegalF f := by
  match f with
  | [] => rw [LegalF]; trivial
  | t :: ts =>
    rw [LegalF]
    exact ⟨legalT_of_listing lvl t (fun e he => h e (by simp [listingF, he])),
      legalF_of_listing lvl ts (fun e he => h e (by simp [listingF, he]))⟩
end

/-! the reference pass keeps everything legal (no continuation) -/

def ScanSt.entries (s : ScanSt) : List Entry := s.done ++ s.last.toList

structure ScanInv (sc : ScanSt) : Prop where
  done_legal : ∀ e ∈ sc.done, LegalE e
  last_pre : ∀ e, sc.last = some e → PreLegalE e
  roles : rolesOKL false sc.entries = true
  fam : famAfterL false sc.entries = sc.seenFam

theorem roles_trim (seen : Bool) (a : List Entry) (l : Entry) (b : List Entry) :
    rolesOKL seen (a ++ l.trim :: b) = rolesOKL seen (a ++ l :: b) ∧
    famAfterL seen (a ++ l.trim :: b) = famAfterL seen (a ++ l :: b) := by
  simp [rolesOKL_append, famAfterL_append, rolesOKL, famAfterL, Entry.trim]

theorem emit_inv (sc : ScanSt) (b : Bool) (e : Entry) (h : ScanInv sc) (hpre : PreLegalE e)
    (hrole : (!isRoleTag e.hdr.tag || sc.seenFam) = true) (hb : b = (sc.seenFam || e.hdr.tag == tFAM)) :
    ScanInv (ScanSt.emit { sc with seenFam := b } e) := by
  unfold ScanSt.emit
  cases hl : sc.last with
  | none =>
    simp only
    have hent : sc.entries = sc.done := by simp [ScanSt.entries, hl]
    refine ⟨h.done_legal, ?_, ?_, ?_⟩
    · intro e' he'; simp only [Option.some.injEq] at he'; subst he'; exact hpre
    · have h1 := h.roles; have h2 := h.fam
      rw [hent] at h1 h2
      simp [ScanSt.entries, rolesOKL_append, rolesOKL, h1, h2, hrole]
    · have h2 := h.fam
      rw [hent] at h2
      simp [ScanSt.entries, famAfterL_append, famAfterL, h2, hb]
  | some l =>
    simp only
    have hent : sc.entries = sc.done ++ [l] := by simp [ScanSt.entries, hl]
    have h1 := h.roles; have h2 := h.fam
    rw [hent] at h1 h2
    refine ⟨?_, ?_, ?_, ?_⟩
    · intro e' he'
      simp only [List.mem_append, List.mem_singleton] at he'
      rcases he' with he' | he'
      · exact h.done_legal e' he'
      · subst he'; exact (h.last_pre l hl).trim
    · intro e' he'; simp only [Option.some.injEq] at he'; subst he'; exact hpre
    · have ht := roles_trim false sc.done l []
      simp only [ScanSt.entries, Option.toList_some]
      rw [rolesOKL_append, ht.1, ht.2, h1, h2]
      simp [rolesOKL, hrole]
    · have ht := roles_trim false sc.done l []
      simp only [ScanSt.entries, Option.toList_some]
      rw [famAfterL_append, ht.2, h2]
      simp [famAfterL, hb]

theorem scanStep_inv (o : Opts) (hm : o.allowMultiLine = false) (sc sc' : ScanSt) (line : Str)
    (hl : NoBreak line) (h : ScanInv sc) (hs : scanStep o sc line = .next sc') : ScanInv sc' := by
  unfold scanStep at hs
  split at hs
  · -- blank line: nothing changes without continuation
    split at hs
    · simp only [hm, Bool.false_eq_true, if_false, ScanResult.next.injEq] at hs; subst hs; exact h
    · simp only [ScanResult.next.injEq] at hs; subst hs; exact h
  · split at hs
    · unfold scanUnparsable at hs; split at hs <;> simp [hm] at hs
    · rename_i pl hp
      split at hs
      · unfold scanUnparsable at hs; split at hs <;> simp [hm] at hs
      · rename_i hrole
        have hrole' : (!isRoleTag pl.tag || sc.seenFam) = true := by
          cases h1 : isRoleTag pl.tag <;> cases h2 : sc.seenFam <;> simp_all
        unfold scanPlace at hs
        have key : ∀ lvl, ScanInv (ScanSt.emit { sc with seenFam := sc.seenFam || pl.tag == tFAM } ⟨lvl, hdrOf pl⟩) :=
          fun lvl => emit_inv sc _ ⟨lvl, hdrOf pl⟩ h (preLegal_of_parse line pl lvl hl hp)
            (by simpa [hdrOf] using hrole') (by simp [hdrOf])
        split at hs
        · simp only [ScanResult.next.injEq] at hs; subst hs; exact key 0
        · split at hs
          · split at hs <;> simp at hs
          · split at hs
            · split at hs
              · simp only [ScanResult.next.injEq] at hs; subst hs; exact key _
              · simp at hs
            · simp only [ScanResult.next.injEq] at hs; subst hs; exact key _

theorem scanRun_inv (o : Opts) (hm : o.allowMultiLine = false) (sc sc' : ScanSt) (n : Nat) (ls : List Str)
    (hl : ∀ l ∈ ls, NoBreak l) (h : ScanInv sc) (hs : scanRun o sc n ls = .inr sc') : ScanInv sc' := by
  induction ls generalizing sc n with
  | nil => simp only [scanRun, Sum.inr.injEq] at hs; subst hs; exact h
  | cons l ls ih =>
    rw [scanRun] at hs
    cases hstep : scanStep o sc l with
    | next s1 =>
      rw [hstep] at hs
      exact ih s1 (n + 1) (fun x hx => hl x (by simp [hx]))
        (scanStep_inv o hm sc s1 l (hl l (by simp)) h hstep) hs
    | error => rw [hstep] at hs; simp at hs
    | panic c => rw [hstep] at hs; simp at hs

theorem finish_legal (sc : ScanSt) (h : ScanInv sc) :
    (∀ e ∈ sc.finish, LegalE e) ∧ rolesOKL false sc.finish = true := by
  unfold ScanSt.finish
  cases hl : sc.last with
  | none =>
    simp only
    have hent : sc.entries = sc.done := by simp [ScanSt.entries, hl]
    have := h.roles; rw [hent] at this
    exact ⟨h.done_legal, this⟩
  | some l =>
    simp only
    have hent : sc.entries = sc.done ++ [l] := by simp [ScanSt.entries, hl]
    have h1 := h.roles; rw [hent] at h1
    refine ⟨?_, ?_⟩
    · intro e he
      simp only [List.mem_append, List.mem_singleton] at he
      rcases he with he | he
      · exact h.done_legal e he
      · subst he; exact (h.last_pre l hl).trim
    · rw [(roles_trim false sc.done l []).1]; exact h1

end Gedcom.Dec
