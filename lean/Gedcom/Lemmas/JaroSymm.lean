/-
  Jaro is symmetric (C12).  The greedy window matching of `jaro a b` pairs position `i` of `a`
  with the smallest free admissible position of `b`.  Its result is a *stable* matching for the
  preferences "smaller index first" on both sides: every admissible pair (same byte, distance
  within the window) that is not matched has an endpoint matched to a smaller index.  That
  condition is symmetric in the two strings, and such a matching is unique (descent on i + j).
  So running the loop from the other side finds the same pairs — same `matches`, same `halfs`.
-/
import Gedcom.Lemmas.Similarity
namespace Gedcom.Sim
open Gedcom

/-- `(i, j)` may be matched: same byte, `|i - j| ≤ r` -/
def Edge (a b : Str) (r i j : Nat) : Prop :=
  (∃ c, a[i]? = some c ∧ b[j]? = some c) ∧ i ≤ j + r ∧ j ≤ i + r

theorem Edge.swap {a b : Str} {r i j : Nat} (h : Edge a b r i j) : Edge b a r j i := by
  obtain ⟨⟨c, h1, h2⟩, h3, h4⟩ := h
  exact ⟨⟨c, h2, h1⟩, h4, h3⟩

/-- a stable matching between the positions of `a` and `b` -/
structure Stable (a b : Str) (r : Nat) (M : List (Nat × Nat)) : Prop where
  valid : ∀ i j, (i, j) ∈ M → Edge a b r i j
  injL : ∀ i j j', (i, j) ∈ M → (i, j') ∈ M → j = j'
  injR : ∀ i i' j, (i, j) ∈ M → (i', j) ∈ M → i = i'
  stab : ∀ i j, Edge a b r i j →
    (i, j) ∈ M ∨ (∃ j', j' < j ∧ (i, j') ∈ M) ∨ (∃ i', i' < i ∧ (i', j) ∈ M)

theorem Stable.sub {a b : Str} {r : Nat} {M M' : List (Nat × Nat)} (h : Stable a b r M)
    (h' : Stable a b r M') : ∀ n i j, i + j = n → (i, j) ∈ M → (i, j) ∈ M' := by
  intro n
  induction n using Nat.strongRecOn with
  | _ n ih =>
    intro i j hn hm
    have he := h.valid i j hm
    rcases h'.stab i j he with h1 | ⟨j', hj', h1⟩ | ⟨i', hi', h1⟩
    · exact h1
    · -- (i, j') ∈ M' with j' < j: by descent it is in M as well, against injectivity
      exfalso
      have hs' : ∀ n', n' < n → ∀ i j, i + j = n' → (i, j) ∈ M' → (i, j) ∈ M := by
        intro n' hlt
        induction n' using Nat.strongRecOn with
        | _ n' ih' =>
          intro i2 j2 hn2 hm2
          have he2 := h'.valid i2 j2 hm2
          rcases h.stab i2 j2 he2 with g1 | ⟨j3, hj3, g1⟩ | ⟨i3, hi3, g1⟩
          · exact g1
          · exfalso
            have := ih (i2 + j3) (by omega) i2 j3 rfl g1
            have := h'.injL i2 j2 j3 hm2 this
            omega
          · exfalso
            have := ih (i3 + j2) (by omega) i3 j2 rfl g1
            have := h'.injR i2 i3 j2 hm2 this
            omega
      have := hs' (i + j') (by omega) i j' rfl h1
      have := h.injL i j j' hm this
      omega
    · exfalso
      have hs' : ∀ n', n' < n → ∀ i j, i + j = n' → (i, j) ∈ M' → (i, j) ∈ M := by
        intro n' hlt
        induction n' using Nat.strongRecOn with
        | _ n' ih' =>
          intro i2 j2 hn2 hm2
          have he2 := h'.valid i2 j2 hm2
          rcases h.stab i2 j2 he2 with g1 | ⟨j3, hj3, g1⟩ | ⟨i3, hi3, g1⟩
          · exact g1
          · exfalso
            have := ih (i2 + j3) (by omega) i2 j3 rfl g1
            have := h'.injL i2 j2 j3 hm2 this
            omega
          · exfalso
            have := ih (i3 + j2) (by omega) i3 j2 rfl g1
            have := h'.injR i2 i3 j2 hm2 this
            omega
      have := hs' (i' + j) (by omega) i' j rfl h1
      have := h.injR i i' j hm this
      omega

/-- a stable matching is unique -/
theorem Stable.unique {a b : Str} {r : Nat} {M M' : List (Nat × Nat)} (h : Stable a b r M)
    (h' : Stable a b r M') (p : Nat × Nat) : p ∈ M ↔ p ∈ M' :=
  ⟨fun hm => h.sub h' (p.1 + p.2) p.1 p.2 rfl hm, fun hm => h'.sub h (p.1 + p.2) p.1 p.2 rfl hm⟩

theorem Stable.transpose {a b : Str} {r : Nat} {M : List (Nat × Nat)} (h : Stable a b r M) :
    Stable b a r (M.map Prod.swap) := by
  have mem : ∀ i j, (i, j) ∈ M.map Prod.swap ↔ (j, i) ∈ M := by
    intro i j
    simp only [List.mem_map, Prod.exists]
    constructor
    · rintro ⟨x, y, hxy, e⟩
      simp only [Prod.swap, Prod.mk.injEq] at e
      rw [← e.1, ← e.2]; exact hxy
    · intro hm; exact ⟨j, i, hm, rfl⟩
  refine ⟨?_, ?_, ?_, ?_⟩
  · intro i j hm; exact (h.valid j i ((mem i j).mp hm)).swap
  · intro i j j' h1 h2; exact h.injR j j' i ((mem i j).mp h1) ((mem i j').mp h2)
  · intro i i' j h1 h2; exact h.injL j i i' ((mem i j).mp h1) ((mem i' j).mp h2)
  · intro i j he
    rcases h.stab j i he.swap with h1 | ⟨j', hj', h1⟩ | ⟨i', hi', h1⟩
    · exact Or.inl ((mem i j).mpr h1)
    · exact Or.inr (Or.inr ⟨j', hj', (mem j' j).mpr h1⟩)
    · exact Or.inr (Or.inl ⟨i', hi', (mem i i').mpr h1⟩)

/-! ### the loop with its pairs made explicit -/

structure GSt where
  used : List Bool
  pairs : List (Nat × Nat)

def gStep (b : Str) (r : Nat) (g : GSt) (i : Nat) (c : UInt8) : GSt :=
  match jaroFind c b g.used (i - r) (min b.length (i + r + 1) - (i - r)) with
  | none => g
  | some j => ⟨g.used.set j true, (i, j) :: g.pairs⟩

def gLoop (b : Str) (r : Nat) : Str → Nat → GSt → GSt
  | [], _, g => g
  | c :: cs, i, g => gLoop b r cs (i+1) (gStep b r g i c)

/-- number of matched pairs off the diagonal -/
def offDiag (ps : List (Nat × Nat)) : Nat := ps.countP (fun p => p.1 != p.2)

/-- the real loop is the explicit one with `matches = |pairs|`, `halfs = |off-diagonal pairs|` -/
theorem jaroLoop_gLoop (b : Str) (r : Nat) (cs : Str) (i : Nat) (st : JSt) (g : GSt)
    (hu : st.used = g.used) (hm : st.nMatch = g.pairs.length) (hh : st.nHalf = offDiag g.pairs) :
    (jaroLoop b r cs i st).nMatch = (gLoop b r cs i g).pairs.length ∧
    (jaroLoop b r cs i st).nHalf = offDiag (gLoop b r cs i g).pairs := by
  induction cs generalizing i st g with
  | nil => exact ⟨hm, hh⟩
  | cons c cs ih =>
    simp only [jaroLoop, gLoop]
    apply ih
    · unfold jaroStep gStep
      simp only [hu]
      split <;> simp_all
    · unfold jaroStep gStep
      simp only [hu]
      split <;> simp_all
    · unfold jaroStep gStep
      simp only [hu]
      split
      · simp_all
      · rename_i j hj
        simp only [hj, offDiag, List.countP_cons]
        by_cases e : i = j
        · subst e; simp [hh, offDiag]
        · simp [e, hh, offDiag]

theorem jaroFind_min {c : UInt8} {b : Str} {used : List Bool} {j n k : Nat}
    (h : jaroFind c b used j n = some k) :
    ∀ x, j ≤ x → x < k → ¬ (used[x]? = some false ∧ b[x]? = some c) := by
  induction n generalizing j with
  | zero => simp [jaroFind] at h
  | succ n ih =>
    simp only [jaroFind] at h
    split at h
    · cases h; intro x h1 h2; omega
    · rename_i hc
      intro x h1 h2
      rcases Nat.eq_or_lt_of_le h1 with e | hlt
      · rw [← e]; exact hc
      · exact ih h x (by omega) h2

theorem jaroFind_none {c : UInt8} {b : Str} {used : List Bool} {j n : Nat}
    (h : jaroFind c b used j n = none) :
    ∀ x, j ≤ x → x < j + n → ¬ (used[x]? = some false ∧ b[x]? = some c) := by
  induction n generalizing j with
  | zero => intro x h1 h2; omega
  | succ n ih =>
    simp only [jaroFind] at h
    split at h
    · cases h
    · rename_i hc
      intro x h1 h2
      rcases Nat.eq_or_lt_of_le h1 with e | hlt
      · rw [← e]; exact hc
      · exact ih h x (by omega) (by omega)

/-- invariant of the explicit loop after the first `n` positions of `a` -/
structure GInv (a b : Str) (r n : Nat) (g : GSt) : Prop where
  len : g.used.length = b.length
  flags : ∀ j, g.used[j]? = some true ↔ ∃ i, (i, j) ∈ g.pairs
  valid : ∀ i j, (i, j) ∈ g.pairs → i < n ∧ Edge a b r i j
  injL : ∀ i j j', (i, j) ∈ g.pairs → (i, j') ∈ g.pairs → j = j'
  injR : ∀ i i' j, (i, j) ∈ g.pairs → (i', j) ∈ g.pairs → i = i'
  nodup : g.pairs.Nodup
  stab : ∀ i j, i < n → Edge a b r i j →
    (i, j) ∈ g.pairs ∨ (∃ j', j' < j ∧ (i, j') ∈ g.pairs) ∨ (∃ i', i' < i ∧ (i', j) ∈ g.pairs)

/-- a position of `b` inside the list is flagged or not -/
theorem flag_cases {used : List Bool} {j : Nat} (h : j < used.length) :
    used[j]? = some true ∨ used[j]? = some false := by
  rw [List.getElem?_eq_getElem h]
  cases used[j] <;> simp

theorem gStep_inv {a b : Str} {r n : Nat} {g : GSt} {c : UInt8} (h : GInv a b r n g)
    (hc : a[n]? = some c) : GInv a b r (n+1) (gStep b r g n c) := by
  unfold gStep
  split
  · -- nothing found: every admissible position is taken
    rename_i hnone
    refine ⟨h.len, h.flags, fun i j hm => ⟨by have := (h.valid i j hm).1; omega, (h.valid i j hm).2⟩,
      h.injL, h.injR, h.nodup, ?_⟩
    intro i j hi he
    rcases Nat.lt_or_ge i n with hlt | hge
    · exact h.stab i j hlt he
    · have hin : i = n := by omega
      subst hin
      obtain ⟨⟨c', h1, h2⟩, h3, h4⟩ := he
      have hcc : c' = c := by rw [hc] at h1; exact (Option.some.inj h1).symm
      subst hcc
      have hjlt : j < b.length := by
        rcases Nat.lt_or_ge j b.length with hl | hg
        · exact hl
        · rw [List.getElem?_eq_none hg] at h2; cases h2
      have hno := jaroFind_none hnone j (by omega) (by omega)
      rcases flag_cases (used := g.used) (j := j) (by rw [h.len]; exact hjlt) with ht | hf
      · obtain ⟨i', hi'⟩ := (h.flags j).mp ht
        exact Or.inr (Or.inr ⟨i', (h.valid i' j hi').1, hi'⟩)
      · exact absurd ⟨hf, h2⟩ hno
  · rename_i k hk
    obtain ⟨hu, hb, hk1, hk2⟩ := jaroFind_some hk
    have hklt : k < g.used.length := by
      rcases Nat.lt_or_ge k g.used.length with hl | hg
      · exact hl
      · rw [List.getElem?_eq_none hg] at hu; cases hu
    have hfresh : ∀ i, (i, k) ∉ g.pairs := by
      intro i hm
      have := (h.flags k).mpr ⟨i, hm⟩
      rw [hu] at this; cases this
    have hedge : Edge a b r n k := ⟨⟨c, hc, hb⟩, by omega, by omega⟩
    refine ⟨by simp [h.len], ?_, ?_, ?_, ?_, ?_, ?_⟩
    · intro j
      simp only [List.mem_cons, Prod.mk.injEq]
      by_cases e : k = j
      · subst e
        rw [List.getElem?_set_self hklt]
        constructor
        · intro _; exact ⟨n, Or.inl ⟨rfl, rfl⟩⟩
        · intro _; rfl
      · rw [List.getElem?_set_ne e, h.flags j]
        constructor
        · rintro ⟨i, hi⟩; exact ⟨i, Or.inr hi⟩
        · rintro ⟨i, hi | hi⟩
          · exact absurd hi.2.symm e
          · exact ⟨i, hi⟩
    · intro i j hm
      simp only [List.mem_cons, Prod.mk.injEq] at hm
      rcases hm with ⟨e1, e2⟩ | hm
      · subst e1; subst e2; exact ⟨by omega, hedge⟩
      · exact ⟨by have := (h.valid i j hm).1; omega, (h.valid i j hm).2⟩
    · intro i j j' h1 h2
      simp only [List.mem_cons, Prod.mk.injEq] at h1 h2
      rcases h1 with ⟨e1, e2⟩ | h1 <;> rcases h2 with ⟨f1, f2⟩ | h2
      · rw [e2, f2]
      · have := (h.valid i j' h2).1; omega
      · have := (h.valid i j h1).1; omega
      · exact h.injL i j j' h1 h2
    · intro i i' j h1 h2
      simp only [List.mem_cons, Prod.mk.injEq] at h1 h2
      rcases h1 with ⟨e1, e2⟩ | h1 <;> rcases h2 with ⟨f1, f2⟩ | h2
      · rw [e1, f1]
      · rw [e2] at h2; exact absurd h2 (hfresh i')
      · rw [f2] at h1; exact absurd h1 (hfresh i)
      · exact h.injR i i' j h1 h2
    · rw [List.nodup_cons]
      exact ⟨fun hm => hfresh n hm, h.nodup⟩
    · intro i j hi he
      rcases Nat.lt_or_ge i n with hlt | hge
      · rcases h.stab i j hlt he with h1 | ⟨j', hj', h1⟩ | ⟨i', hi', h1⟩
        · exact Or.inl (List.mem_cons_of_mem _ h1)
        · exact Or.inr (Or.inl ⟨j', hj', List.mem_cons_of_mem _ h1⟩)
        · exact Or.inr (Or.inr ⟨i', hi', List.mem_cons_of_mem _ h1⟩)
      · have hin : i = n := by omega
        subst hin
        rcases Nat.lt_trichotomy j k with hjk | hjk | hjk
        · -- an admissible smaller position was skipped: it was taken
          obtain ⟨⟨c', h1, h2⟩, h3, h4⟩ := he
          have hcc : c' = c := by rw [hc] at h1; exact (Option.some.inj h1).symm
          subst hcc
          have hno := jaroFind_min hk j (by omega) hjk
          rcases flag_cases (used := g.used) (j := j) (by omega) with ht | hf
          · obtain ⟨i', hi'⟩ := (h.flags j).mp ht
            exact Or.inr (Or.inr ⟨i', (h.valid i' j hi').1, List.mem_cons_of_mem _ hi'⟩)
          · exact absurd ⟨hf, h2⟩ hno
        · subst hjk; exact Or.inl (by simp)
        · exact Or.inr (Or.inl ⟨k, hjk, by simp⟩)

theorem gLoop_inv {a b : Str} {r : Nat} (cs : Str) (n : Nat) (g : GSt) (h : GInv a b r n g)
    (hd : a.drop n = cs) : GInv a b r (n + cs.length) (gLoop b r cs n g) := by
  induction cs generalizing n g with
  | nil => simpa [gLoop] using h
  | cons c cs ih =>
    simp only [gLoop, List.length_cons]
    have hn : n < a.length := by
      rcases Nat.lt_or_ge n a.length with hl | hg
      · exact hl
      · rw [List.drop_eq_nil_of_le hg] at hd; cases hd
    have hd' := List.drop_eq_getElem_cons hn
    rw [hd] at hd'
    have hc : a[n]? = some c := by
      rw [List.getElem?_eq_getElem hn]; congr 1; exact (List.cons.inj hd').1.symm
    have := ih (n+1) (gStep b r g n c) (gStep_inv h hc) (List.cons.inj hd').2.symm
    rw [show n + (cs.length + 1) = n + 1 + cs.length by omega]
    exact this

def gInit (b : Str) : GSt := ⟨List.replicate b.length false, []⟩

theorem gInit_inv (a b : Str) (r : Nat) : GInv a b r 0 (gInit b) := by
  refine ⟨by simp [gInit], ?_, by simp [gInit], by simp [gInit], by simp [gInit], by simp [gInit], ?_⟩
  · intro j
    simp only [gInit, List.getElem?_replicate, List.not_mem_nil, exists_false, iff_false]
    split <;> simp
  · intro i j hi; omega

/-- the pairs matched by `jaro a b` -/
def jaroPairs (a b : Str) : List (Nat × Nat) :=
  (gLoop b (matchRange a.length b.length) a 0 (gInit b)).pairs

theorem jaroPairs_stable (a b : Str) :
    Stable a b (matchRange a.length b.length) (jaroPairs a b) ∧ (jaroPairs a b).Nodup := by
  have h := gLoop_inv (a := a) (b := b) (r := matchRange a.length b.length) a 0 (gInit b)
    (gInit_inv a b _) (by simp)
  refine ⟨⟨fun i j hm => (h.valid i j hm).2, h.injL, h.injR, ?_⟩, h.nodup⟩
  intro i j he
  apply h.stab i j _ he
  obtain ⟨⟨c, h1, _⟩, _, _⟩ := he
  rcases Nat.lt_or_ge i a.length with hl | hg
  · omega
  · rw [List.getElem?_eq_none hg] at h1; cases h1

theorem jaroFinal_pairs (a b : Str) :
    (jaroFinal a b).nMatch = (jaroPairs a b).length ∧ (jaroFinal a b).nHalf = offDiag (jaroPairs a b) := by
  unfold jaroFinal jaroPairs
  exact jaroLoop_gLoop b _ a 0 (jaroInit b) (gInit b) rfl rfl rfl

theorem offDiag_swap (M : List (Nat × Nat)) : offDiag (M.map Prod.swap) = offDiag M := by
  unfold offDiag
  rw [List.countP_map]
  apply List.countP_congr
  intro p _
  simp only [Function.comp, Prod.swap, bne_iff_ne, ne_eq]
  constructor <;> intro h e <;> exact h e.symm

/-- the greedy window matching started from either side pairs the same positions -/
theorem jaroPairs_swap (a b : Str) : (jaroPairs b a).Perm ((jaroPairs a b).map Prod.swap) := by
  have hab := jaroPairs_stable a b
  have hba := jaroPairs_stable b a
  rw [matchRange_comm b.length a.length] at hba
  have ht := hab.1.transpose
  have hn : ((jaroPairs a b).map Prod.swap).Nodup := by
    refine List.Pairwise.map Prod.swap ?_ hab.2
    intro x y hne e
    apply hne
    have := congrArg Prod.swap e
    simpa using this
  exact (List.perm_ext_iff_of_nodup hba.2 hn).mpr (fun p => hba.1.unique ht p)

theorem jaro_symm' (a b : Str) : jaro a b = jaro b a := by
  have h1 := jaroFinal_pairs a b
  have h2 := jaroFinal_pairs b a
  have hp := jaroPairs_swap a b
  unfold jaro
  simp only
  rw [h1.1, h1.2, h2.1, h2.2, hp.length_eq, List.length_map]
  have : offDiag (jaroPairs b a) = offDiag (jaroPairs a b) := by
    rw [← offDiag_swap (jaroPairs a b)]
    unfold offDiag
    exact hp.countP_eq _
  rw [this]
  exact jaroValue_comm _ _ _ _

end Gedcom.Sim
