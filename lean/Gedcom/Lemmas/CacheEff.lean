/-
  C13 — the model's step for the mutators of a child list and of the root list *is* the
  interpretation of the statement lists translated from the Go source
  (`Generated/CacheEffects.lean`), in source order.
-/
import Gedcom.Lemmas.Cache
import Gedcom.Generated.CacheEffects
namespace Gedcom.CacheEff
open Gedcom Gedcom.Cache

/-- `node.SimpleNode.M(…)` runs the translated body of `SimpleNode.M` -/
def sup : Meth → List GEff
  | .addNode => Generated.simpleAddNode
  | .deleteNode => Generated.simpleDeleteNode
  | .setNodes => Generated.simpleSetNodes

/-- dynamic dispatch of `n.AddNode(…)`: the Go type of a node is decided by its tag (decoder.go,
    `newNodeWithChildren`); `Generated.overriders` says no other type defines the method -/
def addNodeSrc (t : Str) : List GEff :=
  if t == tFAM then Generated.familyAddNode else if t == tINDI then Generated.individualAddNode
  else Generated.simpleAddNode
def deleteNodeSrc (t : Str) : List GEff :=
  if t == tFAM then Generated.familyDeleteNode else if t == tINDI then Generated.individualDeleteNode
  else Generated.simpleDeleteNode
def setNodesSrc (t : Str) : List GEff :=
  if t == tFAM then Generated.familySetNodes else if t == tINDI then Generated.individualSetNodes
  else Generated.simpleSetNodes

variable {b1 b2 b3 : Bool}

theorem tag_after (s : St) (n : Nat) (ks : List Id) :
    (abs (Cache.resetNodeCache { s with heap := setKids s.heap n ks })).tag n = (abs s).tag n := by
  show (Abs.mk (setKids s.heap n ks) s.roots).tag n = (Abs.mk s.heap s.roots).tag n
  exact tag_setKids _ _ _ _ _ _

theorem kidsEdit_cases (s : St) (n : Nat) (ks : List Id) :
    afterKidsEdit true true n { s with heap := setKids s.heap n ks } =
      if (abs s).tag n == tFAM then
        bumpFamilyLinks (resetFamily n (Cache.resetNodeCache { s with heap := setKids s.heap n ks }))
      else Cache.resetNodeCache { s with heap := setKids s.heap n ks } := by
  unfold afterKidsEdit
  simp only [if_true, Bool.and_true]
  rw [tag_after]

theorem addKid_is_source (n c : Nat) (s : St) :
    addKid (Flags.goodWith b1 b2 b3) n c s = runBody sup ⟨n, c, []⟩ (addNodeSrc ((abs s).tag n)) s := by
  show afterKidsEdit true true n { s with heap := setKids s.heap n ((abs s).kids n ++ [c]) } = _
  rw [kidsEdit_cases]
  unfold addNodeSrc
  by_cases hF : ((abs s).tag n == tFAM) = true
  · simp only [hF, if_true]; rfl
  · simp only [hF, Bool.false_eq_true, if_false]
    by_cases hI : ((abs s).tag n == tINDI) = true
    · simp only [hI, if_true]; rfl
    · simp only [hI, Bool.false_eq_true, if_false]; rfl

theorem deleteKid_is_source (n c : Nat) (s : St) :
    deleteKid (Flags.goodWith b1 b2 b3) n c s = runBody sup ⟨n, c, []⟩ (deleteNodeSrc ((abs s).tag n)) s := by
  show afterKidsEdit true true n { s with heap := setKids s.heap n (((abs s).kids n).erase c) } = _
  rw [kidsEdit_cases]
  unfold deleteNodeSrc
  by_cases hF : ((abs s).tag n == tFAM) = true
  · simp only [hF, if_true]; rfl
  · simp only [hF, Bool.false_eq_true, if_false]
    by_cases hI : ((abs s).tag n == tINDI) = true
    · simp only [hI, if_true]; rfl
    · simp only [hI, Bool.false_eq_true, if_false]; rfl

theorem setKidsOp_is_source (n : Nat) (ks : List Id) (s : St) :
    setKidsOp (Flags.goodWith b1 b2 b3) n ks s = runBody sup ⟨n, 0, ks⟩ (setNodesSrc ((abs s).tag n)) s := by
  show afterKidsEdit true true n { s with heap := setKids s.heap n ks } = _
  rw [kidsEdit_cases]
  unfold setNodesSrc
  by_cases hF : ((abs s).tag n == tFAM) = true
  · simp only [hF, if_true]; rfl
  · simp only [hF, Bool.false_eq_true, if_false]
    by_cases hI : ((abs s).tag n == tINDI) = true
    · simp only [hI, if_true]; rfl
    · simp only [hI, Bool.false_eq_true, if_false]; rfl

theorem docDelete_is_source (r : Nat) (s : St) :
    docDelete (Flags.goodWith b1 b2 b3) r s = runBody sup ⟨0, r, []⟩ Generated.documentDeleteNode s := by
  unfold docDelete
  cases h : s.roots.contains r
  · have hm : r ∉ s.roots := by
      intro hc
      have : s.roots.contains r = true := by simpa using hc
      rw [h] at this; exact absurd this (by decide)
    have he : s.roots.erase r = s.roots := List.erase_of_not_mem hm
    simp only [Bool.false_eq_true, if_false, runBody, Generated.documentDeleteNode, List.foldl, runOne,
      runBase, guardHolds, h, if_true, he]
  · simp only [if_true, Flags.goodWith, Flags.good, runBody, Generated.documentDeleteNode, List.foldl,
      runOne, runBase, guardHolds, h]

theorem docSetNodes_is_source (ks : List Id) (s : St) :
    docSetNodes (Flags.goodWith b1 b2 b3) ks s = runBody sup ⟨0, 0, ks⟩ Generated.documentSetNodes s := by
  unfold docSetNodes
  simp only [Flags.goodWith, Flags.good, if_true]
  rfl

/-- **`doc.AddNode(record)` of the model is the translated body of `Document.AddNode`** (helper
    `addPointerToCache` inlined), run in source order on the state in which the record has been
    allocated: append to the records, store the pointer if there is one, forget the family list if
    the record is a family, `familyLinksVersion++`. -/
theorem docAppend_is_source (x : NodeRec) (s : St) :
    docAppend (Flags.goodWith b1 b2 b3) x s =
      runDocAdd s.heap.length Generated.documentAddNode (alloc x s) := by
  have hp : (abs (alloc x s)).ptr s.heap.length = x.ptr := ptr_append_new _ _ _
  have ht : (abs (alloc x s)).tag s.heap.length = x.tag := tag_append_new _ _ _
  have hp' : ∀ (r : List Id) , (Abs.mk (s.heap ++ [x]) r).ptr s.heap.length = x.ptr := fun _ => ptr_append_new _ _ _
  have ht' : ∀ (r : List Id), (Abs.mk (s.heap ++ [x]) r).tag s.heap.length = x.tag := fun _ => tag_append_new _ _ _
  cases hE : x.ptr.isEmpty <;> cases hF : (x.tag == tFAM) <;>
    simp [docAppend, docAppend0, Flags.goodWith, Flags.good, runDocAdd, Generated.documentAddNode,
      docAddStmt, docAddGuard, alloc, abs, hp', ht', hE, hF, bumpFamilyLinks]

/-! ## the version stamp -/

theorem cell_store_get {α : Type} (V : Nat) (v : α) : (Cell.store V v).get V = some v := by
  simp [Cell.store, Cell.get]

/-- after `familyLinksVersion++` nothing stored before is trusted — which is why the model may
    simply drop every entry (`bumpFamilyLinks`) -/
theorem cell_bump_miss {α : Type} (c : Cell α) (V : Nat) (h : c.version ≤ V) : c.get (V + 1) = none := by
  unfold Cell.get
  have : (c.version == V + 1) = false := by
    cases hq : c.version == V + 1 with
    | false => rfl
    | true => have : c.version = V + 1 := by simpa using hq
              omega
  simp [this]

theorem cell_store_le {α : Type} (V : Nat) (v : α) : (Cell.store V v).version ≤ V := Nat.le_refl _

end Gedcom.CacheEff
