/-
  `splitLines` (the model's line splitter, which every decoder theorem is about) is the
  `Decode` loop over `readLine` with stop bytes LF and CR.
-/
import Gedcom.Model.ReadLine
import Gedcom.Model.Decoder
namespace Gedcom.ReadLine
open Gedcom Gedcom.Dec

theorem readLine_rest_length (bs : List UInt8) (s acc : Str) :
    (readLine bs s acc).2.2 = false → (readLine bs s acc).2.1.length < s.length := by
  induction s generalizing acc with
  | nil => simp [readLine]
  | cons b rest ih =>
    intro h
    rw [readLine] at h ⊢
    by_cases hb : bs.contains b = true
    · rw [if_pos hb]; simp
    · rw [if_neg hb] at h ⊢
      have := ih (b :: acc) h
      simp only [List.length_cons]
      omega

theorem go_readLine (s acc : Str) :
    splitLines.go s acc =
      match readLine [LF, CR] s acc with
      | (line, _, true) => [line]
      | (line, rest, false) => line :: splitLines.go rest [] := by
  induction s generalizing acc with
  | nil => simp [splitLines.go, readLine]
  | cons b rest ih =>
    rw [splitLines.go, readLine]
    have hc : [LF, CR].contains b = (b == LF || b == CR) := by
      simp only [List.contains_cons, List.contains_nil, Bool.or_false]
    by_cases hb : (b == LF || b == CR) = true
    · rw [if_pos hb, if_pos (hc ▸ hb)]
    · rw [if_neg hb, if_neg (hc ▸ hb)]
      exact ih (b :: acc)

theorem allLines_eq_go (fuel : Nat) (s : Str) (h : s.length < fuel) :
    allLines [LF, CR] fuel s = splitLines.go s [] := by
  induction fuel generalizing s with
  | zero => omega
  | succ fuel ih =>
    rw [allLines, go_readLine]
    have hlen := readLine_rest_length [LF, CR] s []
    rcases hr : readLine [LF, CR] s [] with ⟨line, rest, eof⟩
    rw [hr] at hlen
    cases eof with
    | true => rfl
    | false =>
      simp only
      have : rest.length < s.length := hlen rfl
      rw [ih rest (by omega)]

end Gedcom.ReadLine
