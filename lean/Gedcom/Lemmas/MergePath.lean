/-
  "Nothing invented", with ancestry: every node of the result, together with the tags of its
  ancestors from the root down, stems from a node of an input with the same tag, value, pointer
  and the same ancestor tags.  (Ancestor *tags*, not ancestor headers: a merged node carries the
  left node's value, and nodes of the right input hang below it when the two are Equal — Equal
  nodes have the same tag, `equalsShallow_tag`, but not necessarily the same value.)
-/
import Gedcom.Lemmas.MergeInvent
import Gedcom.Model.Decoder
namespace Gedcom

/-! ## Equal nodes have the same tag (read off the regenerated kind table) -/

theorem char_ofNat_toNat (n : Nat) (h : n < 256) : (Char.ofNat n).toNat = n := by
  have hv : n.isValidChar := Or.inl (by omega)
  simp [Char.ofNat, hv, Char.toNat, Char.ofNatAux]

theorem bytesToString_inj : ∀ {a b : Str}, bytesToString a = bytesToString b → a = b := by
  intro a b h
  unfold bytesToString at h
  have h' := String.ofList_injective h
  clear h
  induction a generalizing b with
  | nil => cases b with
    | nil => rfl
    | cons y ys => simp at h'
  | cons x xs ih =>
    cases b with
    | nil => simp at h'
    | cons y ys =>
      simp only [List.map_cons, List.cons.injEq] at h'
      have hxy : x = y := by
        have := congrArg Char.toNat h'.1
        rw [char_ofNat_toNat _ (UInt8.toNat_lt x), char_ofNat_toNat _ (UInt8.toNat_lt y)] at this
        exact UInt8.toNat_inj.mp this
      rw [hxy, ih h'.2]

/-- kinds that belong to exactly one tag -/
def singleTagKind (k : String) : Prop :=
  k = "BirthNode" ∨ k = "DeathNode" ∨ k = "BurialNode" ∨ k = "BaptismNode" ∨
  k = "ResidenceNode" ∨ k = "EventNode" ∨ k = "DateNode" ∨ k = "UniqueIDNode"

theorem ruleOfKind_single {k : String} (h : ruleOfKind k ≠ .simple) : singleTagKind k := by
  unfold ruleOfKind at h
  unfold singleTagKind
  split at h
  · rename_i h'
    simp only [Bool.or_eq_true, beq_iff_eq] at h'
    rcases h' with ((h' | h') | h') | h'
    · exact Or.inl h'
    · exact Or.inr (Or.inl h')
    · exact Or.inr (Or.inr (Or.inl h'))
    · exact Or.inr (Or.inr (Or.inr (Or.inl h')))
  · split at h
    · rename_i h'; exact Or.inr (Or.inr (Or.inr (Or.inr (Or.inl (by simpa using h')))))
    · split at h
      · rename_i h'; exact Or.inr (Or.inr (Or.inr (Or.inr (Or.inr (Or.inl (by simpa using h'))))))
      · split at h
        · rename_i h'
          exact Or.inr (Or.inr (Or.inr (Or.inr (Or.inr (Or.inr (Or.inl (by simpa using h')))))))
        · split at h
          · rename_i h'
            exact Or.inr (Or.inr (Or.inr (Or.inr (Or.inr (Or.inr (Or.inr (by simpa using h')))))))
          · exact absurd rfl h

theorem kindOfTag_entry {s k : String} (h : Generated.kindOfTag s = k) (hk : k ≠ "SimpleNode") :
    ∃ e ∈ Generated.kindTable, e.1 = s ∧ e.2 = k := by
  unfold Generated.kindOfTag at h
  split at h
  · rename_i e he
    exact ⟨e, List.mem_of_find?_eq_some he, by simpa using List.find?_some he, h⟩
  · exact absurd h.symm hk

theorem singleTag_table : ∀ e1 ∈ Generated.kindTable, ∀ e2 ∈ Generated.kindTable, e1.2 = e2.2 →
    singleTagKind e1.2 → e1.1 = e2.1 := by
  unfold singleTagKind; decide

theorem tag_of_kind {a b : Node} (hk : a.kind = b.kind) (hs : singleTagKind a.kind) :
    a.tag = b.tag := by
  have hne : a.kind ≠ "SimpleNode" := by
    intro h; rw [h] at hs; revert hs; unfold singleTagKind; decide
  obtain ⟨e1, he1, h11, h12⟩ := kindOfTag_entry (s := bytesToString a.tag) (k := a.kind) rfl hne
  obtain ⟨e2, he2, h21, h22⟩ := kindOfTag_entry (s := bytesToString b.tag) (k := a.kind) hk.symm hne
  have := singleTag_table e1 he1 e2 he2 (h12.trans h22.symm) (by rw [h12]; exact hs)
  exact bytesToString_inj (by rw [← h11, ← h21, this])

/-- `a.Equals(b)` implies that `a` and `b` have the same tag, for every kind of node -/
theorem equalsShallow_tag {a b : Node} (h : equalsShallow a b = true) : a.tag = b.tag := by
  by_cases hs : a.rule = .simple
  · unfold equalsShallow at h
    rw [hs] at h
    simp only [Bool.and_eq_true, beq_iff_eq] at h
    exact h.1.1
  · have hsk := ruleOfKind_single (k := a.kind) hs
    have hr := equalsShallow_rule h
    by_cases hv : a.rule = .vital
    · unfold equalsShallow at h
      rw [hv] at h
      simp only [beq_iff_eq] at h
      exact tag_of_kind h hsk
    · -- RESI, EVEN, DATE, _UID: the kind is determined by the rule
      have hkk : a.kind = b.kind := by
        have hb : ruleOfKind b.kind = ruleOfKind a.kind := hr
        have hbs := ruleOfKind_single (k := b.kind) (by rw [hb]; exact hs)
        have key : ∀ k k' : String, singleTagKind k → singleTagKind k' → ruleOfKind k = ruleOfKind k' →
            ruleOfKind k ≠ .vital → k = k' := by
          intro k k' h1 h2
          unfold singleTagKind at h1 h2
          rcases h1 with h1 | h1 | h1 | h1 | h1 | h1 | h1 | h1 <;>
          rcases h2 with h2 | h2 | h2 | h2 | h2 | h2 | h2 | h2 <;>
          subst h1 <;> subst h2 <;> decide
        exact key _ _ hsk hbs hb.symm hv
      exact tag_of_kind hkk hsk

/-! ## tag paths -/

/-- a node as seen from the root: the tags of its proper ancestors (root first) and its own tag,
    value and pointer -/
abbrev TagPath := List Str × Hdr

mutual
/-- every node of the tree with its ancestor tags; `pre` = tags above the tree's root -/
def tagPaths (pre : List Str) : Node → List TagPath
  | .mk t v p ks => (pre, (t, v, p)) :: tagPathsL (pre ++ [t]) ks
def tagPathsL (pre : List Str) : List Node → List TagPath
  | [] => []
  | k :: ks => tagPaths pre k ++ tagPathsL pre ks
end

theorem mem_tagPathsL {pre : List Str} {x : TagPath} {ks : List Node} :
    x ∈ tagPathsL pre ks ↔ ∃ k ∈ ks, x ∈ tagPaths pre k := by
  induction ks with
  | nil => simp [tagPathsL]
  | cons k ks ih => simp [tagPathsL, ih]

theorem tagPaths_eq (pre : List Str) (n : Node) :
    tagPaths pre n = (pre, (n.tag, n.value, n.ptr)) :: tagPathsL (pre ++ [n.tag]) n.kids := by
  cases n; simp [tagPaths, Node.tag, Node.value, Node.ptr, Node.kids]

/-- every node of `v`, with its ancestor tags, is a node of one of `xs` with the same ancestor
    tags (below any common prefix) -/
def FromPaths (xs : List Node) (v : Node) : Prop :=
  ∀ pre x, x ∈ tagPaths pre v → x ∈ tagPathsL pre xs

theorem FromPaths.mono {xs ys : List Node} {v : Node} (h : FromPaths xs v) (hs : ∀ x ∈ xs, x ∈ ys) :
    FromPaths ys v := by
  intro pre x hx
  obtain ⟨k, hk, hk'⟩ := mem_tagPathsL.mp (h pre x hx)
  exact mem_tagPathsL.mpr ⟨k, hs k hk, hk'⟩

theorem FromPaths.self {xs : List Node} {v : Node} (h : v ∈ xs) : FromPaths xs v :=
  fun _ _ hx => mem_tagPathsL.mpr ⟨v, h, hx⟩

theorem FromPaths.trans {xs vs : List Node} {v : Node} (h : FromPaths vs v)
    (hs : ∀ x ∈ vs, FromPaths xs x) : FromPaths xs v := by
  intro pre x hx
  obtain ⟨k, hk, hk'⟩ := mem_tagPathsL.mp (h pre x hx)
  exact hs k hk pre x hk'

/-- contract of a merge function -/
def PathFn (f : MergeFn) : Prop :=
  ∀ a b s m s', f a b s = (some m, s') → FromPaths [a.erase, b.erase] m.erase

theorem mergeLoop_paths (fl : MergeFlags) (f : MergeFn) (hf : PathFn f) (X : List Node)
    (slice : List Elem) (right : List (Nat × INode)) (st : MSt)
    (hs : ∀ e ∈ slice, FromPaths X e.node.erase) (hr : ∀ y ∈ right, FromPaths X y.2.erase) :
    ∀ e ∈ (mergeLoop fl f slice right [] st).1, FromPaths X e.node.erase := by
  let Inv : List Elem → List (Nat × INode) → List Nat → MSt → Prop := fun sl rt _ _ =>
    (∀ e ∈ sl, FromPaths X e.node.erase) ∧ (∀ y ∈ rt, FromPaths X y.2.erase)
  have h := mergeLoop_inv fl f Inv
    (by intro sl rt mg e j r s s' _ _ _ h; exact h)
    (by
      intro pre e post rpre j r rpost mg s m s' _ hfe h
      obtain ⟨h1, h2⟩ := h
      refine ⟨?_, fun y hy => h2 y (by
        simp only [List.mem_append, List.mem_cons] at hy ⊢
        rcases hy with hy | hy
        · exact Or.inl hy
        · exact Or.inr (Or.inr hy))⟩
      intro e' he'
      simp only [List.mem_append, List.mem_cons, List.not_mem_nil, or_false] at he'
      rcases he' with (he' | he') | rfl
      · exact h1 e' (by simp [he'])
      · exact h1 e' (by simp [he'])
      · apply (hf e.node r s m s' hfe).trans
        intro x hx
        simp only [List.mem_cons, List.not_mem_nil, or_false] at hx
        rcases hx with rfl | rfl
        · exact h1 e (by simp)
        · exact h2 (j, r) (by simp))
    (by
      intro sl j0 r0 rtail mg s h
      obtain ⟨h1, h2⟩ := h
      refine ⟨?_, fun y hy => h2 y (by simp [hy])⟩
      intro e' he'
      simp only [List.mem_append, List.mem_cons, List.not_mem_nil, or_false] at he'
      rcases he' with he' | rfl
      · exact h1 e' he'
      · simpa [copyIf_erase] using h2 (j0, r0) (by simp))
    right.length slice right [] st (Nat.le_refl _) ⟨hs, hr⟩
  obtain ⟨_, h1, _⟩ := h
  exact h1

/-- FULL.  Every node of the merged list, with its ancestor tags, is a node of one of the two
    lists with the same ancestor tags. -/
theorem mergeNodeSlices_paths (fl : MergeFlags) (f : MergeFn) (hf : PathFn f) (l r : List INode)
    (st : MSt) :
    ∀ n ∈ (mergeNodeSlices fl f l r st).1, FromPaths ((l ++ r).map INode.erase) n.erase := by
  have hce := copyLeft_erase fl (indexed l) st
  have h := mergeLoop_paths fl f hf ((l ++ r).map INode.erase) (copyLeft fl (indexed l) st).1
    (indexed r) (copyLeft fl (indexed l) st).2
    (by
      intro e he
      apply FromPaths.self
      have : e.node.erase ∈ (indexed l).map (·.2.erase) := by
        rw [← hce]; exact List.mem_map.mpr ⟨e, he, rfl⟩
      obtain ⟨y, hy, h⟩ := List.mem_map.mp this
      have hy2 : y.2 ∈ (indexed l).map (·.2) := List.mem_map.mpr ⟨y, hy, rfl⟩
      rw [indexed_map_snd] at hy2
      rw [← h]
      exact List.mem_map.mpr ⟨y.2, by simp [hy2], rfl⟩)
    (by
      intro y hy
      apply FromPaths.self
      have hy2 : y.2 ∈ (indexed r).map (·.2) := List.mem_map.mpr ⟨y, hy, rfl⟩
      rw [indexed_map_snd] at hy2
      exact List.mem_map.mpr ⟨y.2, by simp [hy2], rfl⟩)
  intro n hn
  obtain ⟨e, he, rfl⟩ := List.mem_map.mp hn
  exact h e he

/-- `n.SetNodes(ks)` where `ks` stems from the children of `n` and of a node `c` with the tag of
    `n` -/
theorem FromPaths_setKids {X : List Node} {n : INode} {ks : List INode} {c : Node}
    (hn : FromPaths X n.erase) (hc : FromPaths X c) (ht : c.tag = n.erase.tag)
    (hk : ∀ k ∈ ks, FromPaths (c.kids ++ n.erase.kids) k.erase) :
    FromPaths X (n.setKids ks).erase := by
  intro pre x hx
  rw [INode.setKids_erase, tagPaths_eq] at hx
  simp only [Node.tag, Node.value, Node.ptr, Node.kids] at hx
  rcases List.mem_cons.mp hx with rfl | hx
  · apply hn
    rw [tagPaths_eq, INode.erase_eq n]
    simp [Node.tag, Node.value, Node.ptr]
  · obtain ⟨k, hk', hk''⟩ := mem_tagPathsL.mp hx
    obtain ⟨k0, hk0, rfl⟩ := List.mem_map.mp hk'
    obtain ⟨y, hy, hy'⟩ := mem_tagPathsL.mp (hk k0 hk0 _ x hk'')
    have hnt : n.erase.tag = n.tag := by rw [INode.erase_eq]; rfl
    rcases List.mem_append.mp hy with hy | hy
    · apply hc
      rw [tagPaths_eq, ht, hnt]
      exact List.mem_cons_of_mem _ (mem_tagPathsL.mpr ⟨y, hy, hy'⟩)
    · apply hn
      rw [tagPaths_eq, hnt]
      exact List.mem_cons_of_mem _ (mem_tagPathsL.mpr ⟨y, hy, hy'⟩)

theorem foldRight_paths (fl : MergeFlags) (eqf : MergeFn) (hf : PathFn eqf) (root : Nat)
    (rootTag : Str) (X : List Node) (kids cur : List INode) (st : MSt)
    (hcur : ∀ n ∈ cur, FromPaths X n.erase) (hkids : ∀ c ∈ kids, FromPaths X c.erase) :
    ∀ n ∈ (foldRight fl eqf root rootTag cur kids st).1, FromPaths X n.erase := by
  let Inv : List INode → List INode → MSt → Prop := fun c rest _ =>
    (∀ n ∈ c, FromPaths X n.erase) ∧ (∀ x ∈ rest, FromPaths X x.erase)
  have h := foldRight_inv fl eqf root rootTag Inv
    (by
      intro pre n post child rest s _ hE h
      obtain ⟨h1, h2⟩ := h
      refine ⟨?_, fun x hx => h2 x (by simp [hx])⟩
      intro n' hn'
      simp only [List.mem_append, List.mem_cons] at hn'
      rcases hn' with hn' | rfl | hn'
      · exact h1 n' (by simp [hn'])
      · apply FromPaths_setKids (h1 n (by simp)) (h2 child (by simp)) (equalsShallow_tag hE).symm
        intro k hk
        have := mergeNodeSlices_paths fl eqf hf child.kids n.kids s k hk
        rw [List.map_append, ← INode.erase_kids, ← INode.erase_kids] at this
        exact this
      · exact h1 n' (by simp [hn']))
    (by
      intro c child rest s _ h
      obtain ⟨h1, h2⟩ := h
      have he : (if fl.nodesCopyRight then copyChildM rootTag child s else (child, s)).1.erase = child.erase := by
        split
        · exact copyChildM_erase _ _ _
        · rfl
      refine ⟨?_, fun x hx => h2 x (by simp [hx])⟩
      intro n' hn'
      simp only [List.mem_append, List.mem_cons, List.not_mem_nil, or_false] at hn'
      rcases hn' with hn' | rfl
      · exact h1 n' hn'
      · rw [he]; exact h2 child (by simp))
    kids cur st ⟨hcur, hkids⟩
  exact h.1

theorem eqMergeWith_paths (mn : INode → INode → MSt → MergeOutcome)
    (h : ∀ l r st m st', mn l r st = .ok m st' → FromPaths [l.erase, r.erase] m.erase) :
    PathFn (eqMergeWith mn) := by
  intro a b s m s' hf
  unfold eqMergeWith at hf
  split at hf
  · split at hf
    · rename_i m0 s0 hmn
      injection hf with h1 h2
      injection h1 with h1
      subst h1
      exact h a b s m0 s0 hmn
    · cases hf
    · cases hf
    · cases hf
  · cases hf

/-- FULL.  Every node of the merged tree, with its ancestor tags, is a node of the left or of the
    right input with the same ancestor tags. -/
theorem mergeNodesF_paths (fl : MergeFlags) (fuel : Nat) :
    ∀ (l r : INode) (st : MSt) (m : INode) (st' : MSt), mergeNodesF fl fuel l r st = .ok m st' →
      FromPaths [l.erase, r.erase] m.erase := by
  induction fuel with
  | zero => intro l r st m st' h; simp [mergeNodesF] at h
  | succ fuel ih =>
    intro l r st m st' h
    simp only [mergeNodesF] at h
    split at h
    · cases h
    · rename_i htag
      have htag' : l.tag = r.tag := by simpa using htag
      injection h with h1 h2
      have hce := copyM_erase l st
      have hroot := copyTree_root st.next l
      have hck : (copyM l st).1.kids.map INode.erase = l.kids.map INode.erase := by
        rw [← INode.erase_kids, ← INode.erase_kids, hce]
      have hf := foldRight_paths fl _ (eqMergeWith_paths _ ih) (copyM l st).1.id l.tag
        (l.erase.kids ++ r.erase.kids) r.kids (copyM l st).1.kids (copyM l st).2
        (by
          intro n hn
          apply FromPaths.self
          rw [INode.erase_kids, ← hck]
          exact List.mem_append_left _ (List.mem_map.mpr ⟨n, hn, rfl⟩))
        (by
          intro c hc
          apply FromPaths.self
          rw [INode.erase_kids r]
          exact List.mem_append_right _ (List.mem_map.mpr ⟨c, hc, rfl⟩))
      subst h1
      intro pre x hx
      rw [tagPaths_eq] at hx
      simp only [INode.erase, Node.tag, Node.value, Node.ptr, Node.kids, eraseList_eq_map] at hx
      have e1 : (copyM l st).1.tag = l.tag := hroot.2.1
      have e2 : (copyM l st).1.value = l.value := hroot.2.2.1
      have e3 : (copyM l st).1.ptr = l.ptr := hroot.2.2.2
      rw [e1, e2, e3] at hx
      have hlt : l.erase.tag = l.tag := by rw [INode.erase_eq]; rfl
      have hrt : r.erase.tag = r.tag := by rw [INode.erase_eq]; rfl
      simp only [tagPathsL, List.append_nil, List.mem_append]
      rcases List.mem_cons.mp hx with rfl | hx
      · left
        rw [tagPaths_eq, INode.erase_eq l]
        simp [Node.tag, Node.value, Node.ptr]
      · obtain ⟨k, hk, hk'⟩ := mem_tagPathsL.mp hx
        obtain ⟨n, hn, rfl⟩ := List.mem_map.mp hk
        obtain ⟨y, hy, hy'⟩ := mem_tagPathsL.mp (hf n hn _ x hk')
        rcases List.mem_append.mp hy with hy | hy
        · left
          rw [tagPaths_eq, hlt]
          exact List.mem_cons_of_mem _ (mem_tagPathsL.mpr ⟨y, hy, hy'⟩)
        · right
          rw [tagPaths_eq, hrt, ← htag']
          exact List.mem_cons_of_mem _ (mem_tagPathsL.mpr ⟨y, hy, hy'⟩)

theorem eqMergeF_paths (fl : MergeFlags) (fuel : Nat) : PathFn (eqMergeF fl fuel) :=
  eqMergeWith_paths _ (mergeNodesF_paths fl fuel)

theorem neverMerge_paths : PathFn neverMerge := by
  intro a b s m s' h; simp [neverMerge] at h

/-! ## corollary: HUSB / WIFE / CHIL nodes stay below FAM nodes -/

mutual
/-- every HUSB / WIFE / CHIL node of the tree has a FAM node among its proper ancestors
    (`above` = a FAM node lies above the tree) -/
def rolesBelowFam (above : Bool) : Node → Bool
  | .mk t _ _ ks => (!needsFamily t || above) && rolesBelowFamL (above || t == tagFAM) ks
def rolesBelowFamL (above : Bool) : List Node → Bool
  | [] => true
  | k :: ks => rolesBelowFam above k && rolesBelowFamL above ks
end

mutual
theorem rolesBelowFam_paths : ∀ (n : Node) (pre : List Str) (above : Bool),
    above = pre.contains tagFAM →
    (rolesBelowFam above n = true ↔
      ∀ x ∈ tagPaths pre n, needsFamily x.2.1 = true → x.1.contains tagFAM = true)
  | .mk t v p ks, pre, above, ha => by
    have hrec := rolesBelowFamL_paths ks (pre ++ [t]) (above || t == tagFAM) (by
      rw [ha]
      by_cases h1 : tagFAM ∈ pre <;> by_cases h2 : t = tagFAM
      · simp [List.contains_eq_mem, h1, h2]
      · simp [List.contains_eq_mem, h1, h2]
      · simp [List.contains_eq_mem, h1, h2]
      · have h3 : ¬ tagFAM = t := fun h => h2 h.symm
        simp [List.contains_eq_mem, h1, h2, h3])
    simp only [rolesBelowFam, Bool.and_eq_true, hrec, tagPaths, List.mem_cons, forall_eq_or_imp]
    constructor
    · rintro ⟨h1, h2⟩
      refine ⟨fun hn => ?_, h2⟩
      simp only [Bool.or_eq_true, Bool.not_eq_true'] at h1
      rcases h1 with h1 | h1
      · rw [h1] at hn; cases hn
      · rw [← ha]; exact h1
    · rintro ⟨h1, h2⟩
      refine ⟨?_, h2⟩
      simp only [Bool.or_eq_true, Bool.not_eq_true']
      cases hn : needsFamily t
      · exact Or.inl rfl
      · right; rw [ha]; exact h1 hn
theorem rolesBelowFamL_paths : ∀ (ks : List Node) (pre : List Str) (above : Bool),
    above = pre.contains tagFAM →
    (rolesBelowFamL above ks = true ↔
      ∀ x ∈ tagPathsL pre ks, needsFamily x.2.1 = true → x.1.contains tagFAM = true)
  | [], pre, above, _ => by simp [rolesBelowFamL, tagPathsL]
  | k :: ks, pre, above, ha => by
    simp only [rolesBelowFamL, Bool.and_eq_true, rolesBelowFam_paths k pre above ha,
      rolesBelowFamL_paths ks pre above ha, tagPathsL, List.mem_append]
    constructor
    · rintro ⟨h1, h2⟩ x (hx | hx)
      · exact h1 x hx
      · exact h2 x hx
    · intro h
      exact ⟨fun x hx => h x (Or.inl hx), fun x hx => h x (Or.inr hx)⟩
end

/-- a tree that stems (with ancestry) from trees in which every role node lies below a FAM node
    has that property too -/
theorem rolesBelowFam_fromPaths {xs : List Node} {v : Node} (h : FromPaths xs v)
    (hx : ∀ x ∈ xs, rolesBelowFam false x = true) : rolesBelowFam false v = true := by
  rw [rolesBelowFam_paths v [] false (by simp)]
  intro x hxv hn
  obtain ⟨k, hk, hk'⟩ := mem_tagPathsL.mp (h [] x hxv)
  exact (rolesBelowFam_paths k [] false (by simp)).mp (hx k hk) x hk' hn

/-! ## bridge to the role-order condition of `C01.Legal` (Gedcom/Model/Decoder.lean) -/

theorem isRoleTag_eq (t : Str) : Dec.isRoleTag t = needsFamily t := by
  have h1 : lit "HUSB" = Dec.tHUSB := by decide
  have h2 : lit "WIFE" = Dec.tWIFE := by decide
  have h3 : lit "CHIL" = Dec.tCHIL := by decide
  simp only [Dec.isRoleTag, needsFamily, h1, h2, h3]

theorem tFAM_eq : Dec.tFAM = tagFAM := by decide

mutual
theorem famAfterT_of_seen : ∀ (n : Node), Dec.famAfterT true n = true
  | .mk t v p ks => by rw [Dec.famAfterT]; simpa using famAfterF_of_seen ks
theorem famAfterF_of_seen : ∀ (ks : List Node), Dec.famAfterF true ks = true
  | [] => by rw [Dec.famAfterF]
  | k :: ks => by rw [Dec.famAfterF, famAfterT_of_seen k]; exact famAfterF_of_seen ks
end

mutual
/-- a tree in which every role node lies below a FAM node satisfies the role-order condition
    whatever came before it -/
theorem rolesOKT_of_below : ∀ (n : Node) (above seen : Bool), rolesBelowFam above n = true →
    (above = true → seen = true) → Dec.rolesOKT seen n = true
  | .mk t v p ks, above, seen, h, hs => by
    simp only [rolesBelowFam, Bool.and_eq_true, Bool.or_eq_true, Bool.not_eq_true'] at h
    rw [Dec.rolesOKT]
    simp only [Bool.and_eq_true, Bool.or_eq_true, Bool.not_eq_true', isRoleTag_eq]
    refine ⟨?_, rolesOKF_of_below ks (above || t == tagFAM) (seen || t == Dec.tFAM) h.2 ?_⟩
    · rcases h.1 with h1 | h1
      · exact Or.inl h1
      · exact Or.inr (hs h1)
    · intro ha
      simp only [Bool.or_eq_true] at ha ⊢
      rcases ha with ha | ha
      · exact Or.inl (hs ha)
      · right; rw [tFAM_eq]; exact ha
theorem rolesOKF_of_below : ∀ (ks : List Node) (above seen : Bool), rolesBelowFamL above ks = true →
    (above = true → seen = true) → Dec.rolesOKF seen ks = true
  | [], _, _, _, _ => by rw [Dec.rolesOKF]
  | k :: ks, above, seen, h, hs => by
    simp only [rolesBelowFamL, Bool.and_eq_true] at h
    rw [Dec.rolesOKF]
    simp only [Bool.and_eq_true]
    refine ⟨rolesOKT_of_below k above seen h.1 hs, rolesOKF_of_below ks above _ h.2 ?_⟩
    intro ha
    have := hs ha
    subst this
    exact famAfterT_of_seen k
end

theorem rolesBelowFamL_iff (above : Bool) (ks : List Node) :
    rolesBelowFamL above ks = true ↔ ∀ k ∈ ks, rolesBelowFam above k = true := by
  induction ks with
  | nil => simp [rolesBelowFamL]
  | cons k ks ih => simp [rolesBelowFamL, ih]

/-- a forest of such trees satisfies `rolesOKF false` -/
theorem rolesOKF_of_records (f : List Node) (h : ∀ k ∈ f, rolesBelowFam false k = true) :
    Dec.rolesOKF false f = true :=
  rolesOKF_of_below f false false ((rolesBelowFamL_iff false f).mpr h) (fun h => by cases h)

end Gedcom
