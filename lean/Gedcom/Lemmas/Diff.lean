/-
  Lemmas about the node-diff model (`Gedcom/Model/Diff.lean`) used by `Props/C08.lean`.
  Core Lean only.
-/
import Gedcom.Model.Diff
namespace Gedcom
open Diff

/-! ### entries of a diff, nodes of a tree -/

/-- `P depth left right` holds for every entry, depths counted from `d` at the root -/
inductive Diff.All (P : Nat → Option INode → Option INode → Prop) : Nat → Diff → Prop
  | mk {d : Nat} {L R : Option INode} {cs : List Diff} :
      P d L R → (∀ c ∈ cs, Diff.All P (d + 1) c) → Diff.All P d (.mk L R cs)

/-- some entry at depth `d` (root = 0) satisfies `P left right` -/
inductive Diff.Ex (P : Option INode → Option INode → Prop) : Nat → Diff → Prop
  | here {L R : Option INode} {cs : List Diff} : P L R → Diff.Ex P 0 (.mk L R cs)
  | there {L R : Option INode} {cs : List Diff} {c : Diff} {d : Nat} :
      c ∈ cs → Diff.Ex P d c → Diff.Ex P (d + 1) (.mk L R cs)

theorem Diff.All.root {P d D} (h : Diff.All P d D) : P d D.left D.right := by
  cases h with | mk hp _ => exact hp

theorem Diff.All.kids {P d D} (h : Diff.All P d D) : ∀ c ∈ D.kids, Diff.All P (d + 1) c := by
  cases h with | mk _ hk => exact hk

theorem Diff.All.entry {P : Nat → Option INode → Option INode → Prop} {D : Diff} {k : Nat} {e : Diff}
    (he : EntryAt D k e) : ∀ {d : Nat}, Diff.All P d D → P (d + k) e.left e.right := by
  induction he with
  | root D => intro d h; simpa using h.root
  | kid hc _ ih =>
    intro d h
    have := ih (h.kids _ hc)
    simpa [Nat.add_assoc, Nat.add_comm 1] using this

theorem Diff.All.of_entries {P : Nat → Option INode → Option INode → Prop} :
    ∀ (D : Diff) (d : Nat), (∀ k e, EntryAt D k e → P (d + k) e.left e.right) → Diff.All P d D
  | .mk L R cs, d, h => by
    refine Diff.All.mk (by simpa [Diff.left, Diff.right] using h 0 _ (EntryAt.root _)) ?_
    intro c hc
    apply Diff.All.of_entries c (d + 1)
    intro k e he
    have := h (k + 1) e (EntryAt.kid hc he)
    simpa [Nat.add_assoc, Nat.add_comm 1] using this

theorem Diff.All.mono {P P' : Nat → Option INode → Option INode → Prop}
    (hpp : ∀ d L R, P d L R → P' d L R) {d : Nat} {D : Diff} (h : Diff.All P d D) : Diff.All P' d D := by
  apply Diff.All.of_entries
  intro k e he
  exact hpp _ _ _ (h.entry he)

theorem Diff.Ex.entry {P : Option INode → Option INode → Prop} {D : Diff} {d : Nat}
    (h : Diff.Ex P d D) : ∃ e, EntryAt D d e ∧ P e.left e.right := by
  induction h with
  | here hp => exact ⟨_, EntryAt.root _, hp⟩
  | there hc _ ih =>
    obtain ⟨e, he, hp⟩ := ih
    exact ⟨e, EntryAt.kid hc he, hp⟩

theorem Diff.Ex.of_entry {P : Option INode → Option INode → Prop} {D : Diff} {d : Nat} {e : Diff}
    (he : EntryAt D d e) (hp : P e.left e.right) : Diff.Ex P d D := by
  induction he with
  | root D => cases D with | mk L R cs => exact Diff.Ex.here hp
  | kid hc _ ih => exact Diff.Ex.there hc (ih hp)

theorem Diff.Ex.mono {P P' : Option INode → Option INode → Prop} (hpp : ∀ L R, P L R → P' L R)
    {d : Nat} {D : Diff} (h : Diff.Ex P d D) : Diff.Ex P' d D := by
  obtain ⟨e, he, hp⟩ := h.entry
  exact Diff.Ex.of_entry he (hpp _ _ hp)

/-- a child of a node at depth `d` is a node at depth `d + 1` -/
theorem INode.At.child {root n k : INode} {d : Nat} (h : INode.At root d n) (hk : k ∈ n.kids) :
    INode.At root (d + 1) k := by
  induction h with
  | root n => cases n with | mk i t v p ks => exact INode.At.kid hk (INode.At.root k)
  | kid hc _ ih => exact INode.At.kid hc (ih hk)

/-! ### placeWith -/

theorem placeWith_forall {P : Diff → Prop} {m : Diff → Bool} {f : Diff → Diff} :
    ∀ {cs : List Diff}, (∀ c ∈ cs, P c) → (∀ c ∈ cs, m c = true → P (f c)) → P (f Diff.empty) →
      ∀ c ∈ placeWith m f cs, P c
  | [], _, _, hnew => by
    intro c hc
    simp [placeWith] at hc
    subst hc; exact hnew
  | c0 :: cs, hcs, hf, hnew => by
    intro c hc
    simp only [placeWith] at hc
    by_cases hm : m c0 = true
    · rw [if_pos hm] at hc
      rcases List.mem_cons.mp hc with rfl | hc
      · exact hf c0 (List.mem_cons_self) hm
      · exact hcs c (List.mem_cons_of_mem _ hc)
    · rw [if_neg hm] at hc
      rcases List.mem_cons.mp hc with rfl | hc
      · exact hcs _ (List.mem_cons_self)
      · exact placeWith_forall (fun c h => hcs c (List.mem_cons_of_mem _ h))
          (fun c h => hf c (List.mem_cons_of_mem _ h)) hnew c hc

/-- an element of the list survives `placeWith`, possibly replaced by `f` of itself -/
theorem placeWith_exists {P : Diff → Prop} {m : Diff → Bool} {f : Diff → Diff}
    (hf : ∀ c, P c → P (f c)) :
    ∀ {cs : List Diff} {c : Diff}, c ∈ cs → P c → ∃ c' ∈ placeWith m f cs, P c'
  | c0 :: cs, c, hc, hp => by
    simp only [placeWith]
    by_cases hm : m c0 = true
    · rw [if_pos hm]
      rcases List.mem_cons.mp hc with rfl | hc
      · exact ⟨f c, List.mem_cons_self, hf _ hp⟩
      · exact ⟨c, List.mem_cons_of_mem _ hc, hp⟩
    · rw [if_neg hm]
      rcases List.mem_cons.mp hc with rfl | hc
      · exact ⟨c, List.mem_cons_self, hp⟩
      · obtain ⟨c', hc', hp'⟩ := placeWith_exists hf hc hp
        exact ⟨c', List.mem_cons_of_mem _ hc', hp'⟩

/-- where the routed node ends up: in a matching element or in a new one -/
theorem placeWith_routed {m : Diff → Bool} {f : Diff → Diff} :
    ∀ (cs : List Diff), (∃ c ∈ cs, m c = true ∧ f c ∈ placeWith m f cs) ∨ f Diff.empty ∈ placeWith m f cs
  | [] => by right; simp [placeWith]
  | c0 :: cs => by
    simp only [placeWith]
    by_cases hm : m c0 = true
    · left; exact ⟨c0, List.mem_cons_self, hm, by rw [if_pos hm]; exact List.mem_cons_self⟩
    · rw [if_neg hm]
      rcases placeWith_routed (m := m) (f := f) cs with ⟨c, hc, hmc, hfc⟩ | h
      · left; exact ⟨c, List.mem_cons_of_mem _ hc, hmc, List.mem_cons_of_mem _ hfc⟩
      · right; exact List.mem_cons_of_mem _ h

/-! ### an invariant of every entry is preserved by a traversal -/

/-- what `traverse` may assume about the diff it is applied to: it is new, or it is the root of the
    comparison, or one of its nodes `Equals` the traversed node -/
def Adm (eq : INode → INode → Bool) (d : Nat) (n : INode) (D : Diff) : Prop :=
  (D.left = none ∧ D.right = none) ∨ d = 0 ∨ Diff.matchesNode eq n D = true

section invariant
variable (eq : INode → INode → Bool) (b : Bool)
  (P : Nat → Option INode → Option INode → Prop) (Q : Nat → INode → Prop)

mutual
theorem traverse_all
    (hQ : ∀ d n k, Q d n → k ∈ n.kids → Q (d + 1) k)
    (hfill : ∀ d n D, Q d n → Adm eq d n D → (P d D.left D.right ∨ (D.left = none ∧ D.right = none)) →
      P d (fillL b n D.left) (fillR b n D.right)) :
    ∀ (n : INode) (d : Nat) (D : Diff), Q d n → Adm eq d n D →
      (P d D.left D.right ∨ (D.left = none ∧ D.right = none)) →
      (∀ c ∈ D.kids, Diff.All P (d + 1) c) → Diff.All P d (traverse eq b n D)
  | .mk i t v p ks, d, D, hq, hadm, hp, hk => by
    rw [traverse]
    refine Diff.All.mk (hfill d _ D hq hadm hp) ?_
    exact traverseKids_all hQ hfill ks (d + 1) D.kids
      (fun k hkm => hQ d _ k hq hkm) hk
theorem traverseKids_all
    (hQ : ∀ d n k, Q d n → k ∈ n.kids → Q (d + 1) k)
    (hfill : ∀ d n D, Q d n → Adm eq d n D → (P d D.left D.right ∨ (D.left = none ∧ D.right = none)) →
      P d (fillL b n D.left) (fillR b n D.right)) :
    ∀ (ks : List INode) (d : Nat) (cs : List Diff), (∀ k ∈ ks, Q d k) →
      (∀ c ∈ cs, Diff.All P d c) → ∀ c ∈ traverseKids eq b ks cs, Diff.All P d c
  | [], _, _, _, hcs => by rw [traverseKids]; exact hcs
  | k :: ks, d, cs, hq, hcs => by
    rw [traverseKids]
    apply traverseKids_all hQ hfill ks d _ (fun k' h => hq k' (List.mem_cons_of_mem _ h))
    apply placeWith_forall hcs
    · intro c hc hm
      exact traverse_all hQ hfill k d c (hq k List.mem_cons_self) (Or.inr (Or.inr hm))
        (Or.inl (hcs c hc).root) (hcs c hc).kids
    · exact traverse_all hQ hfill k d Diff.empty (hq k List.mem_cons_self) (Or.inl ⟨rfl, rfl⟩)
        (Or.inr ⟨rfl, rfl⟩) (by intro c hc; cases hc)
end
end invariant

/-! ### entries persist and only gain a side -/

section persist
variable (eq : INode → INode → Bool) (b : Bool) (P : Option INode → Option INode → Prop)

mutual
theorem traverse_ex (hfill : ∀ n L R, P L R → P (fillL b n L) (fillR b n R)) :
    ∀ (n : INode) (d : Nat) (D : Diff), Diff.Ex P d D → Diff.Ex P d (traverse eq b n D)
  | .mk i t v p ks, d, D, h => by
    rw [traverse]
    cases h with
    | here hp => exact Diff.Ex.here (hfill _ _ _ hp)
    | there hc hex =>
      obtain ⟨c', hc', hex'⟩ := traverseKids_ex hfill ks _ _ _ hc hex
      exact Diff.Ex.there hc' hex'
theorem traverseKids_ex (hfill : ∀ n L R, P L R → P (fillL b n L) (fillR b n R)) :
    ∀ (ks : List INode) (d : Nat) (cs : List Diff) (c : Diff), c ∈ cs → Diff.Ex P d c →
      ∃ c' ∈ traverseKids eq b ks cs, Diff.Ex P d c'
  | [], _, _, c, hc, hex => by rw [traverseKids]; exact ⟨c, hc, hex⟩
  | k :: ks, d, cs, c, hc, hex => by
    rw [traverseKids]
    obtain ⟨c1, hc1, hex1⟩ :=
      placeWith_exists (P := fun c => Diff.Ex P d c) (m := Diff.matchesNode eq k)
        (f := traverse eq b k) (fun c h => traverse_ex hfill k d c h) hc hex
    exact traverseKids_ex hfill ks d _ c1 hc1 hex1
end
end persist

/-! ### every traversed node is represented -/

/-- the entry holds (on either side) the node `x` itself or a node that `Equals` it -/
def HoldsEq (eq : INode → INode → Bool) (x : INode) (L R : Option INode) : Prop :=
  ∃ h, (L = some h ∨ R = some h) ∧ (h = x ∨ eq h x = true)

theorem fillL_some (b : Bool) (n h : INode) : fillL b n (some h) = some h := by
  unfold fillL; cases b <;> rfl
theorem fillR_some (b : Bool) (n h : INode) : fillR b n (some h) = some h := by
  unfold fillR; cases b <;> rfl

theorem HoldsEq.fill {eq : INode → INode → Bool} {x : INode} (b : Bool) (n : INode) {L R : Option INode}
    (h : HoldsEq eq x L R) : HoldsEq eq x (fillL b n L) (fillR b n R) := by
  obtain ⟨h0, hs, he⟩ := h
  refine ⟨h0, ?_, he⟩
  rcases hs with rfl | rfl
  · left; exact fillL_some b n h0
  · right; exact fillR_some b n h0

/-- what the coverage argument needs of the diff a node is traversed into: its own side is still
    free, or one of the held nodes `Equals` the node -/
def AdmC (eq : INode → INode → Bool) (b : Bool) (n : INode) (D : Diff) : Prop :=
  (if b then D.left = none else D.right = none) ∨ Diff.matchesNode eq n D = true

theorem matchesNode_holds {eq : INode → INode → Bool} {n : INode} {D : Diff}
    (h : Diff.matchesNode eq n D = true) : HoldsEq eq n D.left D.right := by
  unfold Diff.matchesNode at h
  cases hl : D.left with
  | some x =>
    cases hr : D.right with
    | some y =>
      simp only [hl, hr, Bool.or_eq_true] at h
      rcases h with h | h
      · exact ⟨x, Or.inl rfl, Or.inr h⟩
      · exact ⟨y, Or.inr rfl, Or.inr h⟩
    | none =>
      simp only [hl, hr, Bool.or_false] at h
      exact ⟨x, Or.inl rfl, Or.inr h⟩
  | none =>
    cases hr : D.right with
    | some y =>
      simp only [hl, hr, Bool.false_or] at h
      exact ⟨y, Or.inr rfl, Or.inr h⟩
    | none => simp [hl, hr] at h

theorem cover_root {eq : INode → INode → Bool} {b : Bool} {n : INode} {D : Diff} (h : AdmC eq b n D) :
    HoldsEq eq n (fillL b n D.left) (fillR b n D.right) := by
  rcases h with h | h
  · cases b with
    | true =>
      simp only [if_true] at h
      exact ⟨n, Or.inl (by simp [fillL, h]), Or.inl rfl⟩
    | false =>
      simp only [Bool.false_eq_true, if_false] at h
      exact ⟨n, Or.inr (by simp [fillR, h]), Or.inl rfl⟩
  · exact (matchesNode_holds h).fill b n

section cover
variable (eq : INode → INode → Bool) (b : Bool)

mutual
theorem traverse_cover :
    ∀ (n : INode) (k : Nat) (D : Diff) (x : INode), INode.At n k x → AdmC eq b n D →
      Diff.Ex (HoldsEq eq x) k (traverse eq b n D)
  | .mk i t v p ks, k, D, x, hat, hadm => by
    rw [traverse]
    cases hat with
    | root _ => exact Diff.Ex.here (cover_root hadm)
    | kid hc hat' =>
      obtain ⟨c', hc', hex⟩ := traverseKids_cover ks D.kids _ _ x hc hat'
      exact Diff.Ex.there hc' hex
theorem traverseKids_cover :
    ∀ (ks : List INode) (cs : List Diff) (kk : INode) (d : Nat) (x : INode), kk ∈ ks → INode.At kk d x →
      ∃ c' ∈ traverseKids eq b ks cs, Diff.Ex (HoldsEq eq x) d c'
  | [], _, _, _, _, hmem, _ => by cases hmem
  | k :: ks, cs, kk, d, x, hmem, hat => by
    rw [traverseKids]
    rcases List.mem_cons.mp hmem with heq | hmem'
    · -- the node is routed now; what it creates persists through the remaining children
      have hat' : INode.At k d x := heq ▸ hat
      have hplaced : ∃ c1 ∈ placeWith (Diff.matchesNode eq k) (traverse eq b k) cs,
          Diff.Ex (HoldsEq eq x) d c1 := by
        rcases placeWith_routed (m := Diff.matchesNode eq k) (f := traverse eq b k) cs with
          ⟨c, _, hm, hfc⟩ | hnew
        · exact ⟨_, hfc, traverse_cover k d c x hat' (Or.inr hm)⟩
        · refine ⟨_, hnew, traverse_cover k d Diff.empty x hat' (Or.inl ?_)⟩
          cases b <;> rfl
      obtain ⟨c1, hc1, hex1⟩ := hplaced
      exact traverseKids_ex eq b (HoldsEq eq x) (fun n L R h => h.fill b n) ks d _ c1 hc1 hex1
    · exact traverseKids_cover ks _ kk d x hmem' hat
end
end cover

end Gedcom
