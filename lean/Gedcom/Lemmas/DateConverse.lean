/-
  C04 helper lemmas, part 6: the converse direction.  Whatever the two patterns match has the
  documented shape (keyword? ␠? day? month-word? year), for every byte string.
-/
import Gedcom.Lemmas.DateReject
namespace Gedcom

/-! ## what `\w+` under `(?i)` can match -/

/-- ASCII word bytes and the two runes U+017F (C5 BF) and U+212A (E2 84 AA) -/
inductive WordRunes : Str → Prop
  | nil : WordRunes []
  | ascii {a : UInt8} {w : Str} : isWordB a = true → WordRunes w → WordRunes (a :: w)
  | longS {w : Str} : WordRunes w → WordRunes (0xC5 :: 0xBF :: w)
  | kelvin {w : Str} : WordRunes w → WordRunes (0xE2 :: 0x84 :: 0xAA :: w)

theorem spanWordAux_runes (n : Nat) : ∀ s : Str, s.length ≤ n → WordRunes (spanWordAux 0 s).1 := by
  induction n with
  | zero => intro s hs; cases s with
    | nil => simp [spanWordAux]; exact .nil
    | cons a r => simp at hs
  | succ n ih =>
    intro s hs
    cases s with
    | nil => simp [spanWordAux]; exact .nil
    | cons a r =>
      simp only [spanWordAux]
      split
      · next hw => exact .ascii hw (ih r (by simp at hs; omega))
      · split
        · next hc =>
          simp only [Bool.and_eq_true, beq_iff_eq] at hc
          obtain ⟨ha, hh⟩ := hc
          cases r with
          | nil => simp at hh
          | cons b r' =>
            simp at hh; subst hh; subst ha
            simp only [spanWordAux]
            exact .longS (ih r' (by simp at hs; omega))
        · split
          · next hc =>
            simp only [Bool.and_eq_true, beq_iff_eq] at hc
            obtain ⟨ha, hh⟩ := hc
            cases r with
            | nil => simp at hh
            | cons b r' =>
              cases r' with
              | nil => simp at hh
              | cons c r'' =>
                simp at hh; obtain ⟨hb, hc'⟩ := hh; subst hb; subst hc'; subst ha
                simp only [spanWordAux]
                exact .kelvin (ih r'' (by simp at hs; omega))
          · exact .nil

theorem spanWord_runes (s : Str) : WordRunes (spanWord s).1 := spanWordAux_runes s.length s (Nat.le_refl _)

theorem WordRunes.no32 {w : Str} (h : WordRunes w) : ∀ b ∈ w, b ≠ 32 := by
  induction h with
  | nil => intro b hb; simp at hb
  | ascii hw _ ih =>
    intro b hb
    rcases List.mem_cons.mp hb with rfl | hb
    · intro e; subst e; simp [isWordB, isDigitB, isUpperB, isLowerB] at hw
    · exact ih b hb
  | longS _ ih =>
    intro b hb
    simp only [List.mem_cons] at hb
    rcases hb with rfl | rfl | hb
    · decide
    · decide
    · exact ih b hb
  | kelvin _ ih =>
    intro b hb
    simp only [List.mem_cons] at hb
    rcases hb with rfl | rfl | rfl | hb
    · decide
    · decide
    · decide
    · exact ih b hb

theorem isWordB_toLowerB (a : UInt8) : isWordB (toLowerB a) = isWordB a :=
  (classes_of_lower_eq (toLowerB_idem a)).2.1

theorem WordRunes.lower {w : Str} (h : WordRunes w) : WordRunes (lowerStr w) := by
  induction h with
  | nil => exact .nil
  | ascii hw _ ih => rw [lowerStr_cons]; exact .ascii (by rw [isWordB_toLowerB]; exact hw) ih
  | longS _ ih =>
    have : ∀ w, lowerStr (0xC5 :: 0xBF :: w) = 0xC5 :: 0xBF :: lowerStr w := by
      intro w; simp only [lowerStr, List.map_cons]; congr 1
    rw [this]; exact .longS ih
  | kelvin _ ih =>
    have : ∀ w, lowerStr (0xE2 :: 0x84 :: 0xAA :: w) = 0xE2 :: 0x84 :: 0xAA :: lowerStr w := by
      intro w; simp only [lowerStr, List.map_cons]; congr 1
    rw [this]; exact .kelvin ih

theorem WordRunes.dropHead {w : Str} (h : WordRunes w) (hne : w ≠ []) (rest : Str) :
    dropSpaceRune (w ++ rest) = none := by
  cases h with
  | nil => exact absurd rfl hne
  | @ascii a w' hw _ =>
    have : solidB a = true := by
      simp [isWordB, isDigitB, isUpperB, isLowerB] at hw; simp [solidB]; omega
    exact dropSpaceRune_solid _ this
  | longS _ =>
    simp only [List.cons_append]
    generalize _ ++ rest = t
    cases t <;> simp [dropSpaceRune, isAsciiSpaceB, isSpace2, isSpace3]
  | kelvin _ =>
    simp only [List.cons_append]
    simp [dropSpaceRune, isAsciiSpaceB, isSpace2, isSpace3]

theorem WordRunes.last {w : Str} (h : WordRunes w) (hne : w ≠ []) :
    ∃ init c, w = init ++ [c] ∧ (isWordB c = true ∨ c = 0xBF ∨ c = 0xAA) := by
  induction h with
  | nil => exact absurd rfl hne
  | @ascii a w hw hr ih =>
    cases w with
    | nil => exact ⟨[], a, rfl, Or.inl hw⟩
    | cons b w' =>
      obtain ⟨init, c, e, hc⟩ := ih (by simp)
      exact ⟨a :: init, c, by rw [e]; rfl, hc⟩
  | @longS w hr ih =>
    cases w with
    | nil => exact ⟨[0xC5], 0xBF, rfl, Or.inr (Or.inl rfl)⟩
    | cons b w' =>
      obtain ⟨init, c, e, hc⟩ := ih (by simp)
      exact ⟨0xC5 :: 0xBF :: init, c, by rw [e]; rfl, hc⟩
  | @kelvin w hr ih =>
    cases w with
    | nil => exact ⟨[0xE2, 0x84], 0xAA, rfl, Or.inr (Or.inr rfl)⟩
    | cons b w' =>
      obtain ⟨init, c, e, hc⟩ := ih (by simp)
      exact ⟨0xE2 :: 0x84 :: 0xAA :: init, c, by rw [e]; rfl, hc⟩

theorem dropRev_last {c : UInt8} (hc : isWordB c = true ∨ c = 0xBF ∨ c = 0xAA) (rest : Str) :
    dropSpaceRuneRev (c :: rest) = none := by
  rcases hc with hw | rfl | rfl
  · have : solidB c = true := by
      simp [isWordB, isDigitB, isUpperB, isLowerB] at hw; simp [solidB]; omega
    exact dropSpaceRuneRev_solid _ this
  · cases rest with
    | nil => simp [dropSpaceRuneRev, isAsciiSpaceB]
    | cons b r => cases r <;> simp [dropSpaceRuneRev, isAsciiSpaceB, isSpace2, isSpace3]
  · cases rest with
    | nil => simp [dropSpaceRuneRev, isAsciiSpaceB]
    | cons b r => cases r <;> simp [dropSpaceRuneRev, isAsciiSpaceB, isSpace2, isSpace3]

theorem collapse_no32 {X : Str} (h : ∀ b ∈ X, b ≠ 32) : collapseSpaces (X ++ [32]) = X ++ [32] := by
  induction X with
  | nil => simp [collapseSpaces]
  | cons a X ih =>
    rw [List.cons_append, collapse_cons_ne _ (h a (by simp)), ih (fun b hb => h b (by simp [hb]))]

/-- `CleanSpace` of a matched month group gives back the word -/
theorem cleanSpace_runes {X : Str} (h : WordRunes X) (hne : X ≠ []) : cleanSpace (X ++ [32]) = X := by
  unfold cleanSpace trimSpace
  rw [collapse_no32 h.no32]
  have hl : trimLeft (X ++ [32]) = X ++ [32] := trimFuel_none (h.dropHead hne [32]) _
  rw [hl, trimRight_space]
  obtain ⟨init, c, e, hc⟩ := h.last hne
  unfold trimRight
  rw [e, List.reverse_append, List.reverse_singleton, List.singleton_append,
    trimFuel_none (dropRev_last hc _)]
  simp

/-! ## the shape of a match of the single-date pattern -/

/-- the three trailing groups: `digits␠` or nothing, `word␠` or nothing, digits -/
structure GroupsOK (day month year : Str) : Prop where
  day : day = [] ∨ ∃ d, isDigits d = true ∧ day = d ++ [32]
  month : month = [] ∨ ∃ w, w ≠ [] ∧ WordRunes w ∧ month = w ++ [32]
  year : isDigits year = true

theorem matchMonthYear_shape {day r : Str} {x : Str × Str × Str} (h : matchMonthYear day r = some x) :
    x.1 = day ∧ r = x.2.1 ++ x.2.2 ∧
    (x.2.1 = [] ∨ ∃ w, w ≠ [] ∧ WordRunes w ∧ x.2.1 = w ++ [32]) ∧ isDigits x.2.2 = true := by
  unfold matchMonthYear at h
  have he := spanWordAux_eq 0 r
  have hr := spanWord_runes r
  simp only at h
  split at h
  · next r4 hp =>
    split at h
    · next hc =>
      simp only [Bool.and_eq_true, Bool.not_eq_true'] at hc
      injection h with h; subst h
      have hne : (spanWord r).1 ≠ [] := by
        intro e; rw [e] at hc; simp at hc
      refine ⟨rfl, ?_, Or.inr ⟨_, hne, hr, rfl⟩, hc.2⟩
      unfold spanWord at hp ⊢
      simp only [List.append_assoc, List.singleton_append]
      rw [← hp]; exact he.symm
    · split at h
      · next hd => injection h with h; subst h; exact ⟨rfl, rfl, Or.inl rfl, hd⟩
      · simp at h
  · split at h
    · next hd => injection h with h; subst h; exact ⟨rfl, rfl, Or.inl rfl, hd⟩
    · simp at h

theorem isDigits_takeWhile {s : Str} (h : (s.takeWhile isDigitB).isEmpty = false) :
    isDigits (s.takeWhile isDigitB) = true := by
  rw [isDigits_iff]
  refine ⟨by intro e; rw [e] at h; simp at h, ?_⟩
  clear h
  induction s with
  | nil => intro b hb; simp at hb
  | cons a s ih =>
    intro b hb
    by_cases ha : isDigitB a = true
    · simp [List.takeWhile, ha] at hb
      rcases hb with rfl | hb
      · exact ha
      · exact ih b hb
    · simp [List.takeWhile, ha] at hb

theorem matchTail_shape {s : Str} {x : Str × Str × Str} (h : matchTail s = some x) :
    s = x.1 ++ x.2.1 ++ x.2.2 ∧ GroupsOK x.1 x.2.1 x.2.2 := by
  have nod : ∀ {y : Str × Str × Str}, matchMonthYear [] s = some y →
      s = y.1 ++ y.2.1 ++ y.2.2 ∧ GroupsOK y.1 y.2.1 y.2.2 := by
    intro y hy
    obtain ⟨h1, h2, h3, h4⟩ := matchMonthYear_shape hy
    exact ⟨by rw [h1]; simpa using h2, ⟨Or.inl h1, h3, h4⟩⟩
  unfold matchTail at h
  simp only at h
  split at h
  · next r2 hd =>
    have hs : s = s.takeWhile isDigitB ++ 32 :: r2 := by
      rw [← hd]; exact (List.takeWhile_append_dropWhile (p := isDigitB) (l := s)).symm
    split at h
    · next hne =>
      simp only [Bool.not_eq_true'] at hne
      split at h
      · next y hy =>
        injection h with h; subst h
        obtain ⟨h1, h2, h3, h4⟩ := matchMonthYear_shape hy
        refine ⟨?_, ⟨Or.inr ⟨_, isDigits_takeWhile hne, h1⟩, h3, h4⟩⟩
        rw [h1, List.append_assoc, ← h2, List.append_assoc, List.singleton_append]
        exact hs
      · exact nod h
    · exact nod h
  · exact nod h

theorem matchAfterKw_shape {kw r : Str} {p : DateParts} (h : matchAfterKw kw r = some p) :
    p.kw = kw ∧ GroupsOK p.day p.month p.year ∧
    ∃ sep, (sep = [] ∨ sep = [32]) ∧ r = sep ++ p.day ++ p.month ++ p.year := by
  have key : ∀ t, (Option.map (fun x : Str × Str × Str => (⟨kw, x.1, x.2.1, x.2.2⟩ : DateParts))
      (matchTail t)) = some p →
      p.kw = kw ∧ GroupsOK p.day p.month p.year ∧ t = p.day ++ p.month ++ p.year := by
    intro t ht
    cases hm : matchTail t with
    | none => rw [hm] at ht; simp at ht
    | some x =>
      rw [hm] at ht; simp at ht; subst ht
      obtain ⟨h1, h2⟩ := matchTail_shape hm
      exact ⟨rfl, h2, h1⟩
  unfold matchAfterKw at h
  simp only at h
  split at h
  · next t =>
    split at h
    · next y hy =>
      injection h with h; subst h
      obtain ⟨h1, h2, h3⟩ := key t hy
      exact ⟨h1, h2, [32], Or.inr rfl, by rw [h3]; simp⟩
    · obtain ⟨h1, h2, h3⟩ := key _ h
      exact ⟨h1, h2, [], Or.inl rfl, by simpa using h3⟩
  · obtain ⟨h1, h2, h3⟩ := key _ h
    exact ⟨h1, h2, [], Or.inl rfl, by simpa using h3⟩

theorem hasPrefixCI_take {k s : Str} (h : hasPrefixCI k s = true) :
    lowerStr (s.take k.length) = lowerStr k := by
  induction k generalizing s with
  | nil => simp [lowerStr]
  | cons k0 k ih =>
    cases s with
    | nil => simp [hasPrefixCI] at h
    | cons a s =>
      simp [hasPrefixCI] at h
      simp only [List.length_cons, List.take_succ_cons, lowerStr_cons]
      rw [h.1, ih h.2]

/-- what `dateRegexp` matches: `keyword? ␠? (digits␠)? (word␠)? digits`, the keyword being a listed
    keyword in some letter case -/
structure DateShape (s : Str) (p : DateParts) : Prop where
  kw : p.kw = [] ∨ ∃ k ∈ dateKeywords, lowerStr p.kw = lowerStr k
  groups : GroupsOK p.day p.month p.year
  split : ∃ sep, (sep = [] ∨ sep = [32]) ∧ s = p.kw ++ sep ++ p.day ++ p.month ++ p.year

theorem matchDateKw_shape {ks : List Str} {s : Str} {p : DateParts} (h : matchDateKw ks s = some p) :
    (p.kw = [] ∨ ∃ k ∈ ks, lowerStr p.kw = lowerStr k) ∧ GroupsOK p.day p.month p.year ∧
    ∃ sep, (sep = [] ∨ sep = [32]) ∧ s = p.kw ++ sep ++ p.day ++ p.month ++ p.year := by
  induction ks with
  | nil =>
    obtain ⟨h1, h2, sep, h3, h4⟩ := matchAfterKw_shape h
    exact ⟨Or.inl h1, h2, sep, h3, by rw [h1]; simpa using h4⟩
  | cons k ks ih =>
    rw [matchDateKw] at h
    have next : matchDateKw ks s = some p →
        (p.kw = [] ∨ ∃ k' ∈ k :: ks, lowerStr p.kw = lowerStr k') ∧ GroupsOK p.day p.month p.year ∧
        ∃ sep, (sep = [] ∨ sep = [32]) ∧ s = p.kw ++ sep ++ p.day ++ p.month ++ p.year := fun h' => by
      obtain ⟨h1, h2, h3⟩ := ih h'
      refine ⟨?_, h2, h3⟩
      rcases h1 with h1 | ⟨k', hk', e⟩
      · exact Or.inl h1
      · exact Or.inr ⟨k', by simp [hk'], e⟩
    split at h
    · next hp =>
      split at h
      · next q hq =>
        injection h with h; subst h
        obtain ⟨h1, h2, sep, h3, h4⟩ := matchAfterKw_shape hq
        refine ⟨Or.inr ⟨k, by simp, by rw [h1]; exact hasPrefixCI_take hp⟩, h2, sep, h3, ?_⟩
        rw [h1]
        have := List.take_append_drop k.length s
        rw [h4] at this
        simp only [List.append_assoc] at this ⊢
        exact this.symm
      · exact next h
    · exact next h

theorem matchDate_shape {s : Str} {p : DateParts} (h : matchDate s = some p) : DateShape s p := by
  obtain ⟨h1, h2, h3⟩ := matchDateKw_shape h
  exact ⟨h1, h2, h3⟩

/-! ## numerals as `Atoi` reads them -/

theorem dropZeros_append_sp (D : Str) :
    (D ++ [32]).dropWhile (· == 48) = D.dropWhile (· == 48) ++ [32] := by
  induction D with
  | nil => simp [List.dropWhile]
  | cons a D ih =>
    by_cases ha : (a == 48) = true
    · simp [List.dropWhile, ha, ih]
    · simp [List.dropWhile, ha]

theorem digits_dropWhile {D : Str} (h : ∀ b ∈ D, isDigitB b = true) :
    ∀ b ∈ D.dropWhile (· == 48), isDigitB b = true := by
  induction D with
  | nil => intro b hb; simp at hb
  | cons a D ih =>
    intro b hb
    by_cases ha : (a == 48) = true
    · simp only [List.dropWhile, ha] at hb
      exact ih (fun x hx => h x (by simp [hx])) b hb
    · simp only [List.dropWhile, ha] at hb
      exact h b hb

/-- the trailing space of the day group does not change what `Atoi` reads -/
theorem atoi_sp {D : Str} (h : isDigits D = true) : atoi (D ++ [32]) = atoi D := by
  unfold atoi
  rw [dropZeros_append_sp]
  have hd := digits_dropWhile (isDigits_all h)
  cases hD' : D.dropWhile (· == 48) with
  | nil => decide
  | cons a r =>
    have hs : Solid (a :: r) := ⟨by simp, fun b hb => solidB_of_digit (by rw [hD'] at hd; exact hd b hb)⟩
    rw [trimSpace_solid_sp hs, trimSpace_solid hs]

theorem decToNat_zero_cons (r : Str) : decToNat (48 :: r) = decToNat r := by
  simp [decToNat]

theorem decToNat_dropZeros (D : Str) : decToNat (D.dropWhile (· == 48)) = decToNat D := by
  induction D with
  | nil => rfl
  | cons a D ih =>
    by_cases ha : (a == 48) = true
    · have : a = 48 := by simpa using ha
      subst this
      simp only [List.dropWhile, beq_self_eq_true]
      rw [ih, decToNat_zero_cons]
    · simp [List.dropWhile, ha]

/-- `Atoi` on a digit string: its decimal value (leading zeros are immaterial), capped at the
    largest int -/
theorem atoi_digits {D : Str} (h : isDigits D = true) : atoi D = min (decToNat D) maxInt := by
  unfold atoi
  have hd := digits_dropWhile (isDigits_all h)
  cases hD' : D.dropWhile (· == 48) with
  | nil =>
    have : decToNat D = 0 := by rw [← decToNat_dropZeros, hD']; rfl
    rw [this]; decide
  | cons a r =>
    have hall : ∀ b ∈ a :: r, isDigitB b = true := by rw [hD'] at hd; exact hd
    have hs : Solid (a :: r) := ⟨by simp, fun b hb => solidB_of_digit (hall b hb)⟩
    have hdig : isDigits (a :: r) = true := (isDigits_iff _).mpr ⟨by simp, hall⟩
    simp only [trimSpace_solid hs, hdig, if_true]
    rw [← hD', decToNat_dropZeros]

/-! ## from a valid parse back to the spelling -/

theorem lookup_key {w : Str} {l : List (Str × Nat)} {m : Nat} (h : l.lookup w = some m) :
    ∃ wm ∈ l, wm.1 = w ∧ wm.2 = m := by
  induction l with
  | nil => simp at h
  | cons a l ih =>
    obtain ⟨k, v⟩ := a
    rw [List.lookup_cons] at h
    split at h
    · next hk =>
      have : w = k := by simpa using hk
      exact ⟨(k, v), by simp, this.symm, by simpa using h⟩
    · obtain ⟨wm, hwm, e⟩ := ih h
      exact ⟨wm, by simp [hwm], e⟩

/-- `t` is one date as the code reads it — `keyword? ␠? (digits␠)? (month-word␠)? digits`, the
    keyword a listed keyword and the month word a listed month word, each in some letter case — and
    `d` is the date it denotes: the constraint of the keyword, the numbers as `Atoi` reads them,
    the month of the word; a day only together with a month, valid in the calendar, year ≤ 9999 -/
structure Spells (t : Str) (d : PDate) : Prop where
  ex : ∃ kw sep day mon year : Str,
    t = kw ++ sep ++ day ++ mon ++ year ∧ (sep = [] ∨ sep = [32]) ∧
    (kw = [] ∨ ∃ k ∈ dateKeywords, lowerStr kw = lowerStr k) ∧
    d.constraint = constraintFromString kw ∧
    ((day = [] ∧ d.day = 0) ∨
      ∃ D, isDigits D = true ∧ day = D ++ [32] ∧ d.day = atoi D ∧
        calendarOK d.day d.month d.year = true) ∧
    ((mon = [] ∧ d.month = 0) ∨
      ∃ M, ∃ wm ∈ Generated.monthWords, lowerStr M = wm.1 ∧ mon = M ++ [32] ∧ d.month = wm.2) ∧
    isDigits year = true ∧ d.year = atoi year ∧ d.parseError = false

/-- **soundness of `parseDateParts`**: a non-zero result is spelled by its input -/
theorem parseDateParts_sound (s : Str) (h : (parseDateParts s).isZero = false) :
    Spells s (parseDateParts s) := by
  cases hm : matchDate s with
  | none => rw [parseDateParts_of_no_match hm] at h; simp [PDate.failed, PDate.isZero] at h
  | some p =>
    obtain ⟨hkw, ⟨hday, hmon, hyear⟩, sep, hsep, hsplit⟩ := matchDate_shape hm
    rw [parseDateParts_of_match hm] at h ⊢
    unfold partsResult at h ⊢
    simp only at h ⊢
    split
    · next hc => rw [if_pos hc] at h; simp [PDate.failed, PDate.isZero] at h
    · next hc1 =>
      rw [if_neg hc1] at h
      split
      · next hc => rw [if_pos hc] at h; simp [PDate.failed, PDate.isZero] at h
      · next hc2 =>
        refine ⟨p.kw, sep, p.day, p.month, p.year, hsplit, hsep, hkw, rfl, ?_, ?_, hyear, rfl, rfl⟩
        · rcases hday with hd | ⟨D, hD, hd⟩
          · left; exact ⟨hd, by simp [hd, atoi_nil]⟩
          · right
            refine ⟨D, hD, hd, by simp only [hd]; exact atoi_sp hD, ?_⟩
            have hne : p.day.isEmpty = false := by rw [hd]; exact isEmpty_append_sp D
            simp only [hne, Bool.not_false, Bool.true_and, Bool.not_eq_true', Bool.not_eq_false] at hc1
            exact hc1
        · rcases hmon with hmo | ⟨w, hwne, hw, hmo⟩
          · left; refine ⟨hmo, ?_⟩
            simp only [hmo]; rw [monthOf_nil]; rfl
          · right
            have hne : p.month.isEmpty = false := by rw [hmo]; exact isEmpty_append_sp w
            have hcs : cleanSpace (lowerStr p.month) = lowerStr w := by
              rw [hmo, lowerStr_append]
              have : lowerStr [32] = [32] := by decide
              rw [this]
              exact cleanSpace_runes hw.lower (by intro e; exact hwne (by simpa [lowerStr] using e))
            rw [hcs] at hc2 ⊢
            cases hlk : monthOf (lowerStr w) with
            | none => rw [hlk] at hc2; simp [hne] at hc2
            | some m =>
              obtain ⟨wm, hwm, e1, e2⟩ := lookup_key hlk
              exact ⟨w, wm, hwm, e1.symm, hmo, by simp [e2]⟩

/-! ## the shape of a match of the range pattern -/

theorem sepWordAt_shape {t w r : Str} (h : sepWordAt t = some (w, r)) :
    t = w ++ 32 :: r ∧ ∃ aw ∈ andKeywords, lowerStr w = lowerStr aw := by
  unfold sepWordAt at h
  obtain ⟨aw, hmem, haw⟩ := List.exists_of_findSome?_eq_some h
  split at haw
  · next hp =>
    split at haw
    · next r' hr =>
      simp at haw
      refine ⟨?_, aw, hmem, by rw [← haw.1]; exact hasPrefixCI_take hp⟩
      rw [← haw.1, ← haw.2, ← hr, List.take_append_drop]
    · simp at haw
  · simp at haw

theorem findSep_shape {acc s l w r : Str} (h : findSep acc s = some (l, w, r)) :
    acc.reverse ++ s = l ++ 32 :: (w ++ 32 :: r) ∧
    (∃ aw ∈ andKeywords, lowerStr w = lowerStr aw) ∧ l ≠ [] ∧ r ≠ [] := by
  induction s generalizing acc with
  | nil => simp [findSep] at h
  | cons c cs ih =>
    rw [findSep] at h
    split at h
    · next x hx =>
      simp at h; subst h
      obtain ⟨h1, h2⟩ := ih hx
      exact ⟨by simpa using h1, h2⟩
    · split at h
      · next hc =>
        simp only [Bool.and_eq_true, beq_iff_eq, Bool.not_eq_true'] at hc
        split at h
        · next w' r' hs =>
          split at h
          · next hr =>
            simp at h
            obtain ⟨e1, e2, e3⟩ := h
            subst e1; subst e2; subst e3
            obtain ⟨ht, haw⟩ := sepWordAt_shape hs
            refine ⟨by rw [hc.1, ht], haw, ?_, ?_⟩
            · intro e; have := hc.2; rw [List.reverse_eq_nil_iff.mp e] at this; simp at this
            · intro e; rw [e] at hr; simp at hr
          · simp at h
        · simp at h
      · simp at h

/-- what `dateRangeRegexp` matches: `between-word ␠ X ␠ and-word ␠ Y` with non-empty `X`, `Y` -/
theorem matchRange_shape {s : Str} {x : Str × Str × Str × Str} (h : matchRange s = some x) :
    s = x.1 ++ 32 :: (x.2.1 ++ 32 :: (x.2.2.1 ++ 32 :: x.2.2.2)) ∧
    (∃ bk ∈ betweenKeywords, lowerStr x.1 = lowerStr bk) ∧
    (∃ aw ∈ andKeywords, lowerStr x.2.2.1 = lowerStr aw) := by
  unfold matchRange at h
  split at h
  · simp at h
  · obtain ⟨kw, hmem, hkw⟩ := List.exists_of_findSome?_eq_some h
    split at hkw
    · next hp =>
      split at hkw
      · next rest hr =>
        cases hf : findSep [] rest with
        | none => rw [hf] at hkw; simp at hkw
        | some y =>
          rw [hf] at hkw
          simp at hkw
          obtain ⟨l, w, r⟩ := y
          obtain ⟨e, haw, _, _⟩ := findSep_shape hf
          subst hkw
          refine ⟨?_, ⟨kw, hmem, hasPrefixCI_take hp⟩, haw⟩
          simp only [List.reverse_nil, List.nil_append] at e
          rw [← e, ← hr, List.take_append_drop]
      · simp at hkw
    · simp at hkw

end Gedcom
