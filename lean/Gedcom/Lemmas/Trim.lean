/- Theory of `trimL` / `trimSpace`: suffix, fixed points, idempotence. -/
import Gedcom.Model.Decoder
namespace Gedcom.Dec
open Gedcom

theorem trimL_nil (tbl : List Str) : trimL tbl [] = [] := by rw [trimL]

theorem trimL_cons_zero (tbl : List Str) (b : UInt8) (rest : Str) (h : prefLen tbl (b :: rest) = 0) :
    trimL tbl (b :: rest) = b :: rest := by
  rw [trimL]; simp [h]

theorem trimL_cons_succ (tbl : List Str) (b : UInt8) (rest : Str) (k : Nat)
    (h : prefLen tbl (b :: rest) = k + 1) :
    trimL tbl (b :: rest) = trimL tbl (rest.drop k) := by
  rw [trimL]; simp [h]

/-- `trimL` returns a suffix of its argument -/
theorem trimL_suffix (tbl : List Str) (s : Str) : ∃ p, s = p ++ trimL tbl s := by
  induction s using trimL.induct tbl with
  | case1 => exact ⟨[], by simp [trimL_nil]⟩
  | case2 b rest h => exact ⟨[], by rw [trimL_cons_zero tbl b rest h]; simp⟩
  | case3 b rest k h ih =>
    obtain ⟨p, hp⟩ := ih
    refine ⟨b :: rest.take k ++ p, ?_⟩
    rw [trimL_cons_succ tbl b rest k h]
    have : rest = rest.take k ++ rest.drop k := (List.take_append_drop k rest).symm
    conv => lhs; rw [this, hp]
    simp [List.append_assoc]

theorem trimL_length_le (tbl : List Str) (s : Str) : (trimL tbl s).length ≤ s.length := by
  obtain ⟨p, hp⟩ := trimL_suffix tbl s
  have := congrArg List.length hp
  simp at this; omega

/-- the result has no table entry at its front -/
theorem trimL_stable (tbl : List Str) (s : Str) : trimL tbl s = [] ∨ prefLen tbl (trimL tbl s) = 0 := by
  induction s using trimL.induct tbl with
  | case1 => left; exact trimL_nil tbl
  | case2 b rest h => right; rw [trimL_cons_zero tbl b rest h]; exact h
  | case3 b rest k h ih => rw [trimL_cons_succ tbl b rest k h]; exact ih

theorem trimL_of_stable (tbl : List Str) (s : Str) (h : s = [] ∨ prefLen tbl s = 0) : trimL tbl s = s := by
  cases s with
  | nil => exact trimL_nil tbl
  | cons b rest =>
    rcases h with h | h
    · simp at h
    · exact trimL_cons_zero tbl b rest h

theorem trimL_idem (tbl : List Str) (s : Str) : trimL tbl (trimL tbl s) = trimL tbl s :=
  trimL_of_stable tbl _ (trimL_stable tbl s)

/-- a fixed point has nothing to strip -/
theorem stable_of_trimL_eq (tbl : List Str) (s : Str) (h : trimL tbl s = s) : s = [] ∨ prefLen tbl s = 0 := by
  have := trimL_stable tbl s
  rw [h] at this; exact this

theorem trimL_eq_of_length (tbl : List Str) (s : Str) (h : (trimL tbl s).length = s.length) :
    trimL tbl s = s := by
  obtain ⟨p, hp⟩ := trimL_suffix tbl s
  have hl := congrArg List.length hp
  simp at hl
  have : p = [] := List.eq_nil_of_length_eq_zero (by omega)
  rw [this] at hp; simpa using hp.symm

/-- `prefLen` only looks at a prefix: an entry at the front of a prefix is at the front of the whole -/
theorem prefLen_zero_of_prefix (tbl : List Str) (r a : Str) (hpre : r <+: a) (h : prefLen tbl a = 0)
    (hne : ∀ q ∈ tbl, q ≠ []) : prefLen tbl r = 0 := by
  unfold prefLen at h ⊢
  cases hf : tbl.find? (fun q => q.isPrefixOf r) with
  | none => rfl
  | some q =>
    exfalso
    have hq := List.find?_some hf
    have hmem := List.mem_of_find?_eq_some hf
    simp only [List.isPrefixOf_iff_prefix] at hq
    have hqa : q <+: a := hq.trans hpre
    cases hfa : tbl.find? (fun q => q.isPrefixOf a) with
    | none =>
      have := List.find?_eq_none.mp hfa q hmem
      simp [List.isPrefixOf_iff_prefix, hqa] at this
    | some q' =>
      rw [hfa] at h
      have := hne q' (List.mem_of_find?_eq_some hfa)
      simp only at h
      exact this (List.eq_nil_of_length_eq_zero h)

theorem spaceSeqs_ne : ∀ q ∈ spaceSeqs, q ≠ [] := by decide
theorem spaceSeqsRev_ne : ∀ q ∈ spaceSeqsRev, q ≠ [] := by decide

/-- characterisation of the fixed points of `trimSpace` -/
theorem trimSpace_fixed_iff (v : Str) :
    trimSpace v = v ↔ (trimLeft v = v ∧ trimLeftRev v.reverse = v.reverse) := by
  constructor
  · intro h
    have h1 : (trimLeftRev (trimLeft v).reverse).length ≤ (trimLeft v).length := by
      have := trimL_length_le spaceSeqsRev (trimLeft v).reverse; simpa [trimLeftRev] using this
    have h2 : (trimLeft v).length ≤ v.length := trimL_length_le spaceSeqs v
    have h3 : (trimSpace v).length = v.length := by rw [h]
    simp only [trimSpace, List.length_reverse] at h3
    have hl : trimLeft v = v := trimL_eq_of_length spaceSeqs v (by show (trimLeft v).length = v.length; omega)
    refine ⟨hl, ?_⟩
    have := trimL_eq_of_length spaceSeqsRev v.reverse (by
      rw [hl] at h3; simpa [trimLeftRev] using h3)
    exact this
  · rintro ⟨h1, h2⟩
    simp [trimSpace, h1, h2]

/-- `strings.TrimSpace` is idempotent -/
theorem trimSpace_idem (s : Str) : trimSpace (trimSpace s) = trimSpace s := by
  rw [trimSpace_fixed_iff]
  -- a := trimLeft s has no space at the front; r := trimSpace s is a prefix of a
  have hb : trimLeftRev (trimLeft s).reverse = (trimSpace s).reverse := by simp [trimSpace]
  constructor
  · -- left side: r is a prefix of a, so a space at the front of r would be one at the front of a
    obtain ⟨p, hp⟩ := trimL_suffix spaceSeqsRev (trimLeft s).reverse
    have hpre : trimSpace s <+: trimLeft s := by
      refine ⟨p.reverse, ?_⟩
      have := congrArg List.reverse hp
      simp only [List.reverse_reverse, List.reverse_append] at this
      rw [this]; simp [trimSpace, trimLeftRev]
    apply trimL_of_stable
    by_cases hnil : trimSpace s = []
    · left; exact hnil
    · right
      rcases trimL_stable spaceSeqs s with h | h
      · exfalso
        have : trimLeft s = [] := h
        rw [this] at hpre
        exact hnil (List.prefix_nil.mp hpre)
      · exact prefLen_zero_of_prefix spaceSeqs _ _ hpre h spaceSeqs_ne
  · rw [← hb]
    exact trimL_idem spaceSeqsRev _

end Gedcom.Dec

namespace Gedcom.Dec
open Gedcom

theorem prefLen_eq_zero_iff (tbl : List Str) (s : Str) (hne : ∀ q ∈ tbl, q ≠ []) :
    prefLen tbl s = 0 ↔ ∀ q ∈ tbl, ¬ q <+: s := by
  unfold prefLen
  constructor
  · intro h q hq hpre
    cases hf : tbl.find? (fun q => q.isPrefixOf s) with
    | none =>
      have := List.find?_eq_none.mp hf q hq
      simp [List.isPrefixOf_iff_prefix, hpre] at this
    | some q' =>
      rw [hf] at h
      exact hne q' (List.mem_of_find?_eq_some hf) (List.eq_nil_of_length_eq_zero h)
  · intro h
    cases hf : tbl.find? (fun q => q.isPrefixOf s) with
    | none => rfl
    | some q' =>
      exfalso
      have hq := List.find?_some hf
      simp only [List.isPrefixOf_iff_prefix] at hq
      exact h q' (List.mem_of_find?_eq_some hf) hq

/-- no multi-byte white-space encoding ends in a line feed -/
theorem spaceSeqs_no_LF_end : ∀ q ∈ spaceSeqs, 2 ≤ q.length → q.getLast? ≠ some LF := by decide

/-- appending a line feed to a trimmed value and trimming again gives the value back
    (what happens to the last node of a file when blank lines continue values) -/
theorem trimSpace_append_LF (v : Str) (h : trimSpace v = v) : trimSpace (v ++ [LF]) = v := by
  obtain ⟨h1, h2⟩ := (trimSpace_fixed_iff v).mp h
  by_cases hv : v = []
  · subst hv
    simp [trimSpace, trimLeft, trimLeftRev, trimL, prefLen, spaceSeqs, spaceSeqsRev, LF, List.isPrefixOf]
  · -- left: nothing to strip
    have hl0 : prefLen spaceSeqs v = 0 := by
      rcases stable_of_trimL_eq spaceSeqs v h1 with h | h
      · exact absurd h hv
      · exact h
    have hl : trimLeft (v ++ [LF]) = v ++ [LF] := by
      apply trimL_of_stable
      right
      rw [prefLen_eq_zero_iff _ _ spaceSeqs_ne] at hl0 ⊢
      intro q hq hpre
      rcases List.prefix_concat_iff.mp hpre with heq | hpre'
      · -- q = v ++ [LF] with v non-empty: impossible for a white-space encoding
        have hlen : 2 ≤ q.length := by
          rw [heq]; simp
          have : 0 < v.length := List.length_pos_iff.mpr hv
          omega
        have hlast : q.getLast? = some LF := by rw [heq]; simp
        exact spaceSeqs_no_LF_end q hq hlen hlast
      · exact hl0 q hq hpre'
    -- right: exactly the line feed goes
    have hr : trimLeftRev (LF :: v.reverse) = v.reverse := by
      have hp : prefLen spaceSeqsRev (LF :: v.reverse) = 0 + 1 := by
        simp [prefLen, spaceSeqsRev, spaceSeqs, LF, List.find?, List.isPrefixOf]
      unfold trimLeftRev
      rw [trimL_cons_succ spaceSeqsRev LF v.reverse 0 hp]
      simpa [trimLeftRev] using h2
    simp [trimSpace, hl, hr]

end Gedcom.Dec
