/-
  The nesting budget of the merge model is ample: MergeNodes inside EqualityMergeFunction inside
  MergeNodeSlices inside MergeNodes descends two levels of both trees per nesting, the merged
  tree is never taller than the taller input, so a budget of the height of the taller tree is
  never exhausted and the `outOfFuel` outcome / `oof` flag of the model are dead.
-/
import Gedcom.Lemmas.Merge
namespace Gedcom

theorem INode.height_eq (n : INode) : n.height = 1 + heightList n.kids := by
  obtain ⟨i, t, v, p, ks⟩ := n; simp [INode.height, INode.kids]

theorem INode.height_pos (n : INode) : 1 ≤ n.height := by rw [INode.height_eq]; omega

theorem heightList_le {ks : List INode} {K : Nat} :
    heightList ks ≤ K ↔ ∀ k ∈ ks, k.height ≤ K := by
  induction ks with
  | nil => simp [heightList]
  | cons k ks ih => simp [heightList, Nat.max_le, ih]

mutual
theorem copyTree_height (next : Nat) (t : INode) : (copyTree next t).1.height = t.height := by
  match t with
  | .mk i tg v p ks =>
    simp only [copyTree, INode.height]
    rw [copyKids_height]
theorem copyKids_height (next parent : Nat) (ks : List INode) :
    heightList (copyKids next parent ks).1 = heightList ks := by
  match ks with
  | [] => simp [copyKids, heightList]
  | k :: ks =>
    simp only [copyKids, heightList]
    rw [copyTree_height, copyKids_height]
end

theorem copyIf_height (b : Bool) (n : INode) (s : MSt) : (copyIf b n s).1.height = n.height := by
  unfold copyIf; split
  · simp [copyM, copyTree_height]
  · rfl

theorem copyIf_oof (b : Bool) (n : INode) (s : MSt) : (copyIf b n s).2.oof = s.oof := by
  unfold copyIf; split
  · rfl
  · rfl

/-- contract: on arguments of height ≤ K the merge function leaves the out-of-fuel flag alone and
    returns a node of height ≤ K -/
def HFn (K : Nat) (f : MergeFn) : Prop :=
  ∀ a b s, a.height ≤ K → b.height ≤ K →
    (f a b s).2.oof = s.oof ∧ ∀ m, (f a b s).1 = some m → m.height ≤ K

theorem copyLeft_height (fl : MergeFlags) (K : Nat) :
    ∀ (l : List (Nat × INode)) (st : MSt), (∀ x ∈ l, x.2.height ≤ K) →
      (copyLeft fl l st).2.oof = st.oof ∧ ∀ e ∈ (copyLeft fl l st).1, e.node.height ≤ K := by
  intro l
  induction l with
  | nil => intro st _; simp [copyLeft]
  | cons x xs ih =>
    intro st h
    obtain ⟨i, n⟩ := x
    have hr := ih (copyIf fl.sliceCopyLeft n st).2 (fun y hy => h y (by simp [hy]))
    simp only [copyLeft]
    refine ⟨by rw [hr.1, copyIf_oof], ?_⟩
    intro e he
    rcases List.mem_cons.mp he with rfl | he
    · simpa [copyIf_height] using h (i, n) (by simp)
    · exact hr.2 e he

theorem mergeNodeSlices_height (fl : MergeFlags) (K : Nat) (f : MergeFn) (hf : HFn K f)
    (l r : List INode) (st : MSt) (hl : ∀ x ∈ l, x.height ≤ K) (hr : ∀ x ∈ r, x.height ≤ K) :
    (mergeNodeSlices fl f l r st).2.oof = st.oof ∧
    ∀ n ∈ (mergeNodeSlices fl f l r st).1, n.height ≤ K := by
  have hc := copyLeft_height fl K (indexed l) st (fun x hx => hl _ (by
    have : x.2 ∈ (indexed l).map (·.2) := List.mem_map.mpr ⟨x, hx, rfl⟩
    rwa [indexed_map_snd] at this))
  let Inv : List Elem → List (Nat × INode) → List Nat → MSt → Prop := fun sl rt _ s =>
    s.oof = st.oof ∧ (∀ e ∈ sl, e.node.height ≤ K) ∧ (∀ y ∈ rt, y.2.height ≤ K)
  have h := mergeLoop_inv fl f Inv
    (by
      intro sl rt mg e j r' s s' he hr' hfe h
      have := (hf e.node r' s (h.2.1 e he) (h.2.2 (j, r') hr')).1
      rw [hfe] at this
      exact ⟨this.trans h.1, h.2⟩)
    (by
      intro pre e post rpre j r' rpost mg s m s' _ hfe h
      have hx := hf e.node r' s (h.2.1 e (by simp)) (h.2.2 (j, r') (by simp))
      rw [hfe] at hx
      refine ⟨hx.1.trans h.1, ?_, fun y hy => h.2.2 y (by
        simp only [List.mem_append, List.mem_cons] at hy ⊢
        rcases hy with hy | hy
        · exact Or.inl hy
        · exact Or.inr (Or.inr hy))⟩
      intro e' he'
      simp only [List.mem_append, List.mem_cons, List.not_mem_nil, or_false] at he'
      rcases he' with (he' | he') | rfl
      · exact h.2.1 e' (by simp [he'])
      · exact h.2.1 e' (by simp [he'])
      · exact hx.2 m rfl)
    (by
      intro sl j0 r0 rtail mg s h
      refine ⟨by rw [copyIf_oof]; exact h.1, ?_, fun y hy => h.2.2 y (by simp [hy])⟩
      intro e' he'
      simp only [List.mem_append, List.mem_cons, List.not_mem_nil, or_false] at he'
      rcases he' with he' | rfl
      · exact h.2.1 e' he'
      · simpa [copyIf_height] using h.2.2 (j0, r0) (by simp))
    (indexed r).length (copyLeft fl (indexed l) st).1 (indexed r) [] (copyLeft fl (indexed l) st).2
    (Nat.le_refl _)
    ⟨hc.1, hc.2, fun y hy => hr _ (by
      have : y.2 ∈ (indexed r).map (·.2) := List.mem_map.mpr ⟨y, hy, rfl⟩
      rwa [indexed_map_snd] at this)⟩
  obtain ⟨_, h1, h2, _⟩ := h
  refine ⟨h1, ?_⟩
  intro n hn
  obtain ⟨e, he, rfl⟩ := List.mem_map.mp hn
  exact h2 e he

theorem INode.setKids_height (n : INode) (ks : List INode) :
    (n.setKids ks).height = 1 + heightList ks := by
  simp [INode.setKids, INode.height]

theorem copyChildM_height (t : Str) (n : INode) (s : MSt) :
    (copyChildM t n s).1.height = n.height ∧ (copyChildM t n s).2.oof = s.oof :=
  ⟨copyTree_height _ _, rfl⟩

theorem foldRight_height (fl : MergeFlags) (eqf : MergeFn) (B : Nat) (hf : HFn (B - 1) eqf)
    (root : Nat) (rootTag : Str) (kids cur : List INode) (st : MSt)
    (hcur : ∀ n ∈ cur, n.height ≤ B) (hkids : ∀ c ∈ kids, c.height ≤ B) :
    (foldRight fl eqf root rootTag cur kids st).2.oof = st.oof ∧
    ∀ n ∈ (foldRight fl eqf root rootTag cur kids st).1, n.height ≤ B := by
  let Inv : List INode → List INode → MSt → Prop := fun c rest s =>
    s.oof = st.oof ∧ (∀ n ∈ c, n.height ≤ B) ∧ (∀ x ∈ rest, x.height ≤ B)
  have h := foldRight_inv fl eqf root rootTag Inv
    (by
      intro pre n post child rest s _ _ h
      obtain ⟨h0, h1, h2⟩ := h
      have hn := h1 n (by simp)
      have hc := h2 child (by simp)
      rw [INode.height_eq] at hn hc
      have hm := mergeNodeSlices_height fl (B - 1) eqf hf child.kids n.kids s
        (fun x hx => by have := heightList_le.mp (Nat.le_refl _) x hx; omega)
        (fun x hx => by have := heightList_le.mp (Nat.le_refl _) x hx; omega)
      refine ⟨hm.1.trans h0, ?_, fun x hx => h2 x (by simp [hx])⟩
      intro n' hn'
      simp only [List.mem_append, List.mem_cons] at hn'
      rcases hn' with hn' | rfl | hn'
      · exact h1 n' (by simp [hn'])
      · rw [INode.setKids_height]
        have : heightList (mergeNodeSlices fl eqf child.kids n.kids s).1 ≤ B - 1 :=
          heightList_le.mpr hm.2
        omega
      · exact h1 n' (by simp [hn']))
    (by
      intro c child rest s _ h
      obtain ⟨h0, h1, h2⟩ := h
      have he : (if fl.nodesCopyRight then copyChildM rootTag child s else (child, s)).1.height = child.height ∧
          (if fl.nodesCopyRight then copyChildM rootTag child s else (child, s)).2.oof = s.oof := by
        split
        · exact copyChildM_height _ _ _
        · exact ⟨rfl, rfl⟩
      refine ⟨he.2.trans h0, ?_, fun x hx => h2 x (by simp [hx])⟩
      intro n' hn'
      simp only [List.mem_append, List.mem_cons, List.not_mem_nil, or_false] at hn'
      rcases hn' with hn' | rfl
      · exact h1 n' hn'
      · rw [he.1]; exact h2 child (by simp))
    kids cur st ⟨rfl, hcur, hkids⟩
  exact ⟨h.1, h.2.1⟩

/-- what a MergeNodes with enough budget does -/
def FuelOK (mn : INode → INode → MSt → MergeOutcome) (l r : INode) (st : MSt) : Prop :=
  (∃ m st', mn l r st = .ok m st' ∧ st'.oof = st.oof ∧ m.height ≤ max l.height r.height) ∨
    mn l r st = .error

theorem eqMergeWith_height (mn : INode → INode → MSt → MergeOutcome) (K : Nat)
    (h : ∀ l r st, l.height ≤ K → r.height ≤ K → FuelOK mn l r st) : HFn K (eqMergeWith mn) := by
  intro a b s ha hb
  unfold eqMergeWith
  split
  · rcases h a b s ha hb with ⟨m, st', h1, h2, h3⟩ | h1
    · rw [h1]
      exact ⟨h2, fun m' hm' => by cases hm'; omega⟩
    · rw [h1]
      exact ⟨rfl, fun _ h => by cases h⟩
  · exact ⟨rfl, fun _ h => by cases h⟩

/-- FULL.  A budget of the height of the taller tree is never exhausted; the merged tree is not
    taller than the taller input. -/
theorem mergeNodesF_fuel (fl : MergeFlags) (fuel : Nat) :
    ∀ (l r : INode) (st : MSt), l.height ≤ fuel → r.height ≤ fuel →
      FuelOK (mergeNodesF fl fuel) l r st := by
  induction fuel with
  | zero => intro l r st hl; have := l.height_pos; omega
  | succ fuel ih =>
    intro l r st hl hr
    unfold FuelOK
    simp only [mergeNodesF]
    split
    · exact Or.inr rfl
    · left
      have hcl : heightList (copyM l st).1.kids = heightList l.kids := by
        have h1 := copyTree_height st.next l
        have h2 : (copyM l st).1.height = l.height := h1
        rw [INode.height_eq, INode.height_eq l] at h2
        omega
      rw [INode.height_eq] at hl hr
      have hB : max (heightList l.kids) (heightList r.kids) - 1 ≤ fuel := by omega
      have hf := foldRight_height fl _ (max (heightList l.kids) (heightList r.kids))
        (eqMergeWith_height _ _ (fun a b s ha hb => ih a b s (by omega) (by omega)))
        (copyM l st).1.id l.tag r.kids (copyM l st).1.kids (copyM l st).2
        (fun n hn => by
          have := heightList_le.mp (Nat.le_refl _) n hn; rw [hcl] at this; omega)
        (fun c hc => by have := heightList_le.mp (Nat.le_refl _) c hc; omega)
      refine ⟨_, _, rfl, ?_, ?_⟩
      · rw [hf.1]; rfl
      · simp only [INode.height]
        have := heightList_le.mpr hf.2
        rw [INode.height_eq l, INode.height_eq r]
        omega

/-- the budget the driver uses covers both trees -/
theorem mergeFuel_ge (l r : List INode) :
    (∀ x ∈ l, x.height ≤ mergeFuel l r) ∧ (∀ x ∈ r, x.height ≤ mergeFuel l r) := by
  unfold mergeFuel
  constructor
  · intro x hx; have := heightList_le.mp (Nat.le_refl _) x hx; omega
  · intro x hx; have := heightList_le.mp (Nat.le_refl _) x hx; omega

end Gedcom
