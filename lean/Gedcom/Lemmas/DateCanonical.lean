/-
  C04 helper lemmas, part 4: what `parseDateParts` can return, and the canonical spelling
  `Date.String` prints for it.
-/
import Gedcom.Lemmas.DateRangeGrammar
namespace Gedcom

/-! ## the image of `parseDateParts` -/

/-- a date as `parseDateParts` returns it when it reports no error -/
structure Parsed (d : PDate) : Prop where
  err : d.parseError = false
  month : d.month = 0 ∨ ∃ wm ∈ Generated.monthWords, wm.2 = d.month
  day : d.day = 0 ∨ calendarOK d.day d.month d.year = true
  dayLe : d.day ≤ maxInt
  yearLe : d.year ≤ maxInt

theorem atoi_le (s : Str) : atoi s ≤ maxInt := by
  unfold atoi
  simp only
  split
  · exact Nat.min_le_right _ _
  · exact Nat.zero_le _

theorem lookup_mem {w : Str} {l : List (Str × Nat)} {m : Nat} (h : l.lookup w = some m) :
    ∃ wm ∈ l, wm.2 = m := by
  induction l with
  | nil => simp at h
  | cons a l ih =>
    obtain ⟨k, v⟩ := a
    rw [List.lookup_cons] at h
    split at h
    · exact ⟨(k, v), by simp, by simpa using h⟩
    · obtain ⟨wm, hwm, e⟩ := ih h
      exact ⟨wm, by simp [hwm], e⟩

theorem failed_isZero (c : Constraint) : (PDate.failed c).isZero = true := rfl

/-- `parseDateParts` either fails (zero date with an error) or returns a `Parsed` date -/
theorem parseDateParts_image (s : Str) :
    ((parseDateParts s).isZero = true ∧ (parseDateParts s).parseError = true) ∨
    Parsed (parseDateParts s) := by
  unfold parseDateParts
  cases hm : matchDate s with
  | none => left; exact ⟨rfl, rfl⟩
  | some p =>
    simp only
    split
    · left; exact ⟨rfl, rfl⟩
    · next h1 =>
      split
      · left; exact ⟨rfl, rfl⟩
      · next h2 =>
        right
        refine ⟨rfl, ?_, ?_, atoi_le _, atoi_le _⟩
        · cases hmo : monthOf (cleanSpace (lowerStr p.month)) with
          | none => left; simp
          | some m => right; simpa using lookup_mem hmo
        · simp only [Bool.and_eq_true, Bool.not_eq_true', not_and, Bool.not_eq_false] at h1
          cases hd : p.day with
          | nil => left; simp [atoi_nil]
          | cons a r =>
            right
            have := h1 (by simp [hd])
            simpa [hd] using this

/-! ## the canonical sentence of a parsed date -/

def canonKw (c : Constraint) : Option Str :=
  if c = .exact then none else some (Generated.constraintSpelling c)

def canonMonth (m : Nat) : Str := (Generated.monthAbbrev[m - 1]?).getD []

def canonBody (d : PDate) : Body :=
  if d.month = 0 then .Y 0 d.year
  else if d.day = 0 then .MY (canonMonth d.month) 0 d.year
  else .DMY 0 d.day (canonMonth d.month) 0 d.year

/-- keyword as `DateConstraint.String` prints it, day and year without leading zeros, month as
    `Date.String` abbreviates it -/
def canon (d : PDate) : Sentence := ⟨canonKw d.constraint, canonBody d⟩

theorem spelling_facts (c : Constraint) (h : c ≠ .exact) :
    KwTok (Generated.constraintSpelling c) ∧
    constraintFromString (Generated.constraintSpelling c) = c := by
  cases c with
  | exact => exact absurd rfl h
  | about => exact ⟨by unfold KwTok; decide, by decide⟩
  | before => exact ⟨by unfold KwTok; decide, by decide⟩
  | after => exact ⟨by unfold KwTok; decide, by decide⟩

theorem spelling_exact : Generated.constraintSpelling .exact = [] := by decide

theorem abbrev_facts_b :
    ∀ wm ∈ Generated.monthWords,
      (match Generated.monthAbbrev[wm.2 - 1]? with
       | some ab => monthOf (lowerStr ab) == some wm.2 &&
                    Generated.monthWords.any (fun w => lowerStr w.1 == lowerStr ab)
       | none => false) = true := by decide

theorem abbrev_facts {m : Nat} (h : ∃ wm ∈ Generated.monthWords, wm.2 = m) :
    monthOfWord (canonMonth m) = some m ∧
    ∃ wm' ∈ Generated.monthWords, lowerStr (canonMonth m) = lowerStr wm'.1 := by
  obtain ⟨wm, hwm, rfl⟩ := h
  have := abbrev_facts_b wm hwm
  unfold canonMonth monthOfWord
  cases hab : Generated.monthAbbrev[wm.2 - 1]? with
  | none => rw [hab] at this; simp at this
  | some ab =>
    rw [hab] at this
    simp only [Bool.and_eq_true, beq_iff_eq, List.any_eq_true] at this
    obtain ⟨h1, w, hw, h2⟩ := this
    exact ⟨by simpa using h1, w, hw, by simpa using h2.symm⟩

theorem numeral_zero (n : Nat) : numeral 0 n = natToDec n := by simp [numeral]

@[simp] theorem spaces_zero : spaces 0 = [] := rfl
@[simp] theorem spaces_one : spaces 1 = [32] := rfl
@[simp] theorem spaces_two : spaces 2 = [32, 32] := rfl
@[simp] theorem spaces_three : spaces 3 = [32, 32, 32] := rfl

/-- `Date.String` pastes four possibly empty parts with single spaces and cleans up: the result
    is the non-empty parts separated by one space -/
theorem cleanSpace_parts {K D Mo Yr : Str} (hK : K = [] ∨ Solid K) (hD : D = [] ∨ Solid D)
    (hMo : Mo = [] ∨ Solid Mo) (hY : Solid Yr) :
    cleanSpace (K ++ [32] ++ D ++ [32] ++ Mo ++ [32] ++ Yr) =
      joinSp ((if K = [] then [] else [K]) ++ (if D = [] then [] else [D]) ++
              (if Mo = [] then [] else [Mo]) ++ [Yr]) := by
  rcases hK with rfl | hK <;> rcases hD with rfl | hD <;> rcases hMo with rfl | hMo
  · have := cleanSpace_render [(3, Yr)] 0 (by simp [GapsOK]) (by simp; exact hY)
    simpa [render] using this
  · have := cleanSpace_render [(2, Mo), (1, Yr)] 0 (by simp [GapsOK]) (by simp; exact ⟨hMo, hY⟩)
    simpa [render, hMo.1] using this
  · have := cleanSpace_render [(1, D), (2, Yr)] 0 (by simp [GapsOK]) (by simp; exact ⟨hD, hY⟩)
    simpa [render, hD.1] using this
  · have := cleanSpace_render [(1, D), (1, Mo), (1, Yr)] 0 (by simp [GapsOK])
      (by simp; exact ⟨hD, hMo, hY⟩)
    simpa [render, hD.1, hMo.1] using this
  · have := cleanSpace_render [(0, K), (3, Yr)] 0 (by simp [GapsOK]) (by simp; exact ⟨hK, hY⟩)
    simpa [render, hK.1] using this
  · have := cleanSpace_render [(0, K), (2, Mo), (1, Yr)] 0 (by simp [GapsOK])
      (by simp; exact ⟨hK, hMo, hY⟩)
    simpa [render, hK.1, hMo.1] using this
  · have := cleanSpace_render [(0, K), (1, D), (2, Yr)] 0 (by simp [GapsOK])
      (by simp; exact ⟨hK, hD, hY⟩)
    simpa [render, hK.1, hD.1] using this
  · have := cleanSpace_render [(0, K), (1, D), (1, Mo), (1, Yr)] 0 (by simp [GapsOK])
      (by simp; exact ⟨hK, hD, hMo, hY⟩)
    simpa [render, hK.1, hD.1, hMo.1] using this

theorem Parsed.day_zero_of_month_zero {d : PDate} (hp : Parsed d) (hm : d.month = 0) : d.day = 0 := by
  rcases hp.day with h | h
  · exact h
  · simp [calendarOK, hm] at h

theorem canonMonth_facts {m : Nat} (h : ∃ wm ∈ Generated.monthWords, wm.2 = m) :
    WordTok (canonMonth m) ∧ monthOfWord (canonMonth m) = some m ∧
    NoKwPrefix (canonMonth m) ∧ NotBetween (canonMonth m) ∧ NotAnd (canonMonth m) := by
  obtain ⟨h1, wm', hwm', hlow⟩ := abbrev_facts h
  obtain ⟨hl, _, _, _⟩ := monthWords_facts wm' hwm'
  refine ⟨(wordTok_of_variant hl hlow).1, h1, month_no_kw_prefix hwm' hlow,
    notBetween_of_month hwm' hlow, ?_⟩
  intro aw haw e
  have : ∀ aw ∈ andKeywords, ∀ wm ∈ Generated.monthWords, lowerStr aw ≠ lowerStr wm.1 := by decide
  exact this aw haw wm' hwm' (e.trans hlow)

theorem solid_natToDec (n : Nat) : Solid (natToDec n) := solid_of_isDigits (isDigits_natToDec n)

/-- `Date.String` of a parsed date with a year is the canonical sentence, single-spaced -/
theorem toString_eq {d : PDate} (hp : Parsed d) (hy : 1 ≤ d.year) : d.toString = (canon d).str := by
  have hK : Generated.constraintSpelling d.constraint = [] ∨ Solid (Generated.constraintSpelling d.constraint) := by
    by_cases hc : d.constraint = .exact
    · left; rw [hc]; exact spelling_exact
    · right; exact solid_of_kwTok (spelling_facts _ hc).1
  have hD : (if d.day != 0 then natToDec d.day else []) = [] ∨
      Solid (if d.day != 0 then natToDec d.day else []) := by
    by_cases h : d.day = 0
    · left; simp [h]
    · right; simp [h]; exact solid_natToDec _
  have hMo : (if d.month != 0 then canonMonth d.month else []) = [] ∨
      Solid (if d.month != 0 then canonMonth d.month else []) := by
    by_cases h : d.month = 0
    · left; simp [h]
    · right; simp [h]
      rcases hp.month with h0 | hw
      · exact absurd h0 h
      · exact (canonMonth_facts hw).1.solid
  have hY : (if d.year != 0 then natToDec d.year else []) = natToDec d.year := by
    have : d.year ≠ 0 := by omega
    simp [this]
  have hstr : d.toString = cleanSpace (Generated.constraintSpelling d.constraint ++ [32] ++
      (if d.day != 0 then natToDec d.day else []) ++ [32] ++
      (if d.month != 0 then canonMonth d.month else []) ++ [32] ++ natToDec d.year) := by
    unfold PDate.toString
    simp only [hY]
    rfl
  rw [hstr, cleanSpace_parts hK hD hMo (solid_natToDec _)]
  unfold canon Sentence.str Sentence.tokens canonKw canonBody
  congr 1
  by_cases hc : d.constraint = .exact
  · by_cases hm : d.month = 0
    · have hd := hp.day_zero_of_month_zero hm
      simp [hc, hm, hd, spelling_exact, Body.tokens, numeral_zero]
    · have hms : canonMonth d.month ≠ [] := by
        rcases hp.month with h0 | hw
        · exact absurd h0 hm
        · exact (canonMonth_facts hw).1.solid.1
      by_cases hd : d.day = 0
      · simp [hc, hm, hd, spelling_exact, Body.tokens, numeral_zero, hms]
      · simp [hc, hm, hd, spelling_exact, Body.tokens, numeral_zero, hms, natToDec_ne_nil]
  · have hks : Generated.constraintSpelling d.constraint ≠ [] := (solid_of_kwTok (spelling_facts _ hc).1).1
    by_cases hm : d.month = 0
    · have hd := hp.day_zero_of_month_zero hm
      simp [hc, hm, hd, hks, Body.tokens, numeral_zero]
    · have hms : canonMonth d.month ≠ [] := by
        rcases hp.month with h0 | hw
        · exact absurd h0 hm
        · exact (canonMonth_facts hw).1.solid.1
      by_cases hd : d.day = 0
      · simp [hc, hm, hd, hks, Body.tokens, numeral_zero, hms]
      · simp [hc, hm, hd, hks, Body.tokens, numeral_zero, hms, natToDec_ne_nil]

theorem canon_wf {d : PDate} (hp : Parsed d) : (canon d).WF := by
  have hmonth : d.month ≠ 0 → ∃ wm ∈ Generated.monthWords, wm.2 = d.month := by
    intro h; rcases hp.month with h0 | hw
    · exact absurd h0 h
    · exact hw
  refine ⟨?_, ?_, ?_⟩
  · intro T hT
    simp only [canon, canonKw] at hT
    split at hT
    · simp at hT
    · next hc => simp at hT; subst hT; exact (spelling_facts _ hc).1
  · intro M hM
    simp only [canon, canonBody] at hM
    by_cases hm : d.month = 0
    · simp [hm, Body.word] at hM
    · by_cases hd : d.day = 0
      · simp [hm, hd, Body.word] at hM; subst hM; exact (canonMonth_facts (hmonth hm)).1
      · simp [hm, hd, Body.word] at hM; subst hM; exact (canonMonth_facts (hmonth hm)).1
  · intro _ M yz y hb
    simp only [canon, canonBody] at hb
    by_cases hm : d.month = 0
    · simp [hm] at hb
    · by_cases hd : d.day = 0
      · simp [hm, hd] at hb
        obtain ⟨rfl, _, _⟩ := hb
        exact ⟨(canonMonth_facts (hmonth hm)).2.2.1, (canonMonth_facts (hmonth hm)).2.2.2.1⟩
      · simp [hm, hd] at hb

theorem canon_kwText {d : PDate} : constraintFromString (canon d).kwText = d.constraint := by
  simp only [canon, Sentence.kwText, canonKw]
  by_cases hc : d.constraint = .exact
  · simp only [hc, if_true, Option.getD_none]; decide
  · simp only [hc, if_false, Option.getD_some]; exact (spelling_facts _ hc).2

theorem min_eq_of_le_maxInt {n : Nat} (h : n ≤ maxInt) : min n maxInt = n := Nat.min_eq_left h

/-- the canonical sentence parses back to the date -/
theorem canon_result {d : PDate} (hp : Parsed d) (hy : 1 ≤ d.year) : (canon d).result = d := by
  have hmonth : d.month ≠ 0 → ∃ wm ∈ Generated.monthWords, wm.2 = d.month := by
    intro h; rcases hp.month with h0 | hw
    · exact absurd h0 h
    · exact hw
  have hk := canon_kwText (d := d)
  have herr := hp.err
  unfold Sentence.result
  by_cases hm : d.month = 0
  · have hd := hp.day_zero_of_month_zero hm
    have hb : (canon d).body = .Y 0 d.year := by simp [canon, canonBody, hm]
    rw [hb]
    simp only [Body.groups]
    rw [partsResult_Y _ 0 hy, hk, min_eq_of_le_maxInt hp.yearLe]
    cases d; simp_all
  · obtain ⟨hw, hmo, _⟩ := canonMonth_facts (hmonth hm)
    by_cases hd : d.day = 0
    · have hb : (canon d).body = .MY (canonMonth d.month) 0 d.year := by simp [canon, canonBody, hm, hd]
      rw [hb]
      simp only [Body.groups]
      rw [partsResult_MY _ hw.solid 0 hy, hk, hmo, min_eq_of_le_maxInt hp.yearLe]
      cases d; simp_all
    · have hb : (canon d).body = .DMY 0 d.day (canonMonth d.month) 0 d.year := by
        simp [canon, canonBody, hm, hd]
      have hcal : calendarOK d.day d.month d.year = true := by
        rcases hp.day with h | h
        · exact absurd h hd
        · exact h
      rw [hb]
      simp only [Body.groups]
      rw [partsResult_DMY _ 0 (by omega) hw.solid 0 hy, hk, hmo, min_eq_of_le_maxInt hp.yearLe,
        min_eq_of_le_maxInt hp.dayLe]
      simp only [hcal, if_true]
      cases d; simp_all

theorem canon_notAnd {d : PDate} (hp : Parsed d) : ∀ t ∈ (canon d).tokens, NotAnd t := by
  have hmonth : d.month ≠ 0 → ∃ wm ∈ Generated.monthWords, wm.2 = d.month := by
    intro h; rcases hp.month with h0 | hw
    · exact absurd h0 h
    · exact hw
  intro t ht
  simp only [Sentence.tokens, List.mem_append, Option.mem_toList] at ht
  rcases ht with ht | ht
  · have hk := (canon_wf hp).kw t ht
    obtain ⟨kw, hkw, hlow⟩ := hk
    intro aw haw e
    exact and_not_keyword aw haw kw hkw (e.trans hlow)
  · simp only [canon, canonBody] at ht
    by_cases hm : d.month = 0
    · simp [hm, Body.tokens] at ht; subst ht; exact notAnd_of_isDigits (isDigits_numeral _ _)
    · by_cases hd : d.day = 0
      · simp [hm, hd, Body.tokens] at ht
        rcases ht with rfl | rfl
        · exact (canonMonth_facts (hmonth hm)).2.2.2.2
        · exact notAnd_of_isDigits (isDigits_numeral _ _)
      · simp [hm, hd, Body.tokens] at ht
        rcases ht with rfl | rfl | rfl
        · exact notAnd_of_isDigits (isDigits_numeral _ _)
        · exact (canonMonth_facts (hmonth hm)).2.2.2.2
        · exact notAnd_of_isDigits (isDigits_numeral _ _)

/-! ## single-spaced sentences -/

theorem render_of_tokens (toks : List Str) (h : toks ≠ []) :
    ∃ gt : List (Nat × Str), gt.map (·.2) = toks ∧ GapsOK gt ∧ render gt 0 = joinSp toks := by
  cases toks with
  | nil => exact absurd rfl h
  | cons t ts =>
    refine ⟨(0, t) :: ts.map (fun x => (1, x)), by simp [Function.comp_def], ?_, ?_⟩
    · intro q hq
      simp only [List.mem_map] at hq
      obtain ⟨x, _, rfl⟩ := hq
      simp
    · rw [render_unit]
      · simp [Function.comp_def]
      · intro q hq
        simp only [List.mem_map] at hq
        obtain ⟨x, _, rfl⟩ := hq
        rfl

theorem Sentence.parse_str (x : Sentence) (h : x.WF) :
    parseDateRange x.str = ⟨x.result, x.result, x.str⟩ := by
  obtain ⟨gt, h1, h2, h3⟩ := render_of_tokens x.tokens x.tokens_ne_nil
  have := x.parse h gt 0 h1 h2
  rw [h3] at this
  exact this

theorem range_parse_str {BW AW : Str} (x1 x2 : Sentence) (h1 : x1.WF) (h2 : x2.WF)
    (hna : ∀ t ∈ x2.tokens, NotAnd t)
    (hbw : ∃ bk ∈ betweenKeywords, lowerStr BW = lowerStr bk)
    (haw : ∃ aw ∈ andKeywords, lowerStr AW = lowerStr aw) :
    parseDateRange (joinSp (BW :: x1.tokens ++ AW :: x2.tokens)) =
      ⟨x1.result, x2.result, joinSp (BW :: x1.tokens ++ AW :: x2.tokens)⟩ := by
  obtain ⟨gt, g1, g2, g3⟩ := render_of_tokens (BW :: x1.tokens ++ AW :: x2.tokens) (by simp)
  have := range_parse x1 x2 h1 h2 hna hbw haw gt 0 g1 g2
  rw [g3] at this
  exact this

/-! ## printing a range -/

theorem joinSp_range (BW AW : Str) {t1 t2 : List Str} (h1 : t1 ≠ []) (h2 : t2 ≠ []) :
    joinSp (BW :: t1 ++ AW :: t2) = BW ++ [32] ++ joinSp t1 ++ (32 :: (AW ++ [32])) ++ joinSp t2 := by
  have : BW :: t1 ++ AW :: t2 = (BW :: t1) ++ (AW :: t2) := rfl
  rw [this, joinSp_append (by simp) (by simp), joinSp_cons h1, joinSp_cons h2]
  simp

/-- the fixed words of `DateRange.String` / `DateNode.String` are a between-word followed by a
    space and an and-word between spaces -/
theorem range_words :
    ∃ BW AW, Generated.rangePrefix = BW ++ [32] ∧ Generated.rangeInfix = 32 :: (AW ++ [32]) ∧
      (∃ bk ∈ betweenKeywords, lowerStr BW = lowerStr bk) ∧
      (∃ aw ∈ andKeywords, lowerStr AW = lowerStr aw) :=
  ⟨Generated.rangePrefix.dropLast, (Generated.rangeInfix.drop 1).dropLast,
    by decide, by decide, by decide, by decide⟩

theorem parse_ends (s : Str) :
    ∃ a b, (parseDateRange s).start = parseDateParts a ∧ (parseDateRange s).end_ = parseDateParts b := by
  unfold parseDateRange
  simp only
  split
  · exact ⟨_, _, rfl, rfl⟩
  · exact ⟨_, _, rfl, rfl⟩

theorem parsed_of_nonzero {a : Str} (h : (parseDateParts a).isZero = false) : Parsed (parseDateParts a) := by
  rcases parseDateParts_image a with ⟨hz, _⟩ | hp
  · rw [hz] at h; simp at h
  · exact hp

/-- both ends of a valid parsed range are `Parsed` -/
theorem parsed_of_valid {s : Str} (h : (parseDateRange s).isValid = true) :
    Parsed (parseDateRange s).start ∧ Parsed (parseDateRange s).end_ := by
  obtain ⟨a, b, ha, hb⟩ := parse_ends s
  simp only [DateRange.isValid, Bool.and_eq_true, Bool.not_eq_true'] at h
  rw [ha, hb] at h ⊢
  exact ⟨parsed_of_nonzero h.1, parsed_of_nonzero h.2⟩

theorem eq_of_is {a b : PDate} (h : a.is b = true) (ha : a.parseError = false)
    (hb : b.parseError = false) : a = b := by
  cases a; cases b
  simp [PDate.is] at h
  simp_all

/-- the single printed date parses back to that date at both ends -/
theorem parse_toString {d : PDate} (hp : Parsed d) (hy : 1 ≤ d.year) :
    (parseDateRange d.toString).start = d ∧ (parseDateRange d.toString).end_ = d := by
  rw [toString_eq hp hy, (canon d).parse_str (canon_wf hp), canon_result hp hy]
  exact ⟨rfl, rfl⟩

/-- the printed range parses back to its two dates -/
theorem parse_rangeText {a b : PDate} (ha : Parsed a) (hb : Parsed b) (hya : 1 ≤ a.year)
    (hyb : 1 ≤ b.year) :
    (parseDateRange (rangeText a b)).start = a ∧ (parseDateRange (rangeText a b)).end_ = b := by
  obtain ⟨BW, AW, e1, e2, hbw, haw⟩ := range_words
  have : rangeText a b = joinSp (BW :: (canon a).tokens ++ AW :: (canon b).tokens) := by
    rw [joinSp_range BW AW (canon a).tokens_ne_nil (canon b).tokens_ne_nil]
    unfold rangeText
    rw [e1, e2, toString_eq ha hya, toString_eq hb hyb]
    rfl
  rw [this, range_parse_str (canon a) (canon b) (canon_wf ha) (canon_wf hb) (canon_notAnd hb) hbw haw,
    canon_result ha hya, canon_result hb hyb]
  exact ⟨rfl, rfl⟩

end Gedcom
