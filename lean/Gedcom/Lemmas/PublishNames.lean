/- Helper lemmas for C19 (i): decimal round trip, pigeonhole for getUniqueKey, prefix codes,
   order-independence of map look-ups.  Core Lean only. -/
import Gedcom.Model.PublishNames
namespace Gedcom.Publish
open Gedcom

/-! ### decimal digits -/

def decToNat (s : Str) : Nat := s.foldl (fun a b => a * 10 + (b.toNat - 48)) 0

theorem digit_val : ∀ d, d < 10 → (digitChar d).toNat - 48 = d := by decide

theorem decToNat_snoc (s : Str) (b : UInt8) : decToNat (s ++ [b]) = decToNat s * 10 + (b.toNat - 48) := by
  simp [decToNat, List.foldl_append]

theorem decToNat_natToDecF (f n : Nat) (h : n < f) : decToNat (natToDecF f n) = n := by
  induction f generalizing n with
  | zero => omega
  | succ f ih =>
    unfold natToDecF
    split
    · rename_i h10; simp [decToNat, digit_val n h10]
    · rename_i h10
      rw [decToNat_snoc, ih (n / 10) (by omega), digit_val _ (Nat.mod_lt _ (by omega))]
      omega

theorem natToDec_injective (i j : Nat) (h : natToDec i = natToDec j) : i = j := by
  have hi := decToNat_natToDecF (i + 1) i (by omega)
  have hj := decToNat_natToDecF (j + 1) j (by omega)
  unfold natToDec at h
  rw [h] at hi; omega

theorem natToDecF_digits (f n : Nat) : ∀ b ∈ natToDecF f n, 48 ≤ b.toNat ∧ b.toNat ≤ 57 := by
  have hd : ∀ d, d < 10 → 48 ≤ (digitChar d).toNat ∧ (digitChar d).toNat ≤ 57 := by decide
  induction f generalizing n with
  | zero => simp [natToDecF]
  | succ f ih =>
    unfold natToDecF
    split
    · rename_i h10; intro b hb; simp at hb; subst hb; exact hd n h10
    · intro b hb
      rcases List.mem_append.mp hb with hb | hb
      · exact ih _ b hb
      · simp at hb; subst hb; exact hd _ (Nat.mod_lt _ (by omega))

/-! ### pigeonhole -/

theorem length_le_of_nodup_subset (cs l : List Str) (hn : cs.Nodup) (hs : ∀ c ∈ cs, c ∈ l) :
    cs.length ≤ l.length := by
  induction cs generalizing l with
  | nil => simp
  | cons c cs ih =>
    have hc : c ∈ l := hs c (by simp)
    have hn' := List.nodup_cons.mp hn
    have hsub : ∀ x ∈ cs, x ∈ l.erase c := by
      intro x hx
      have hne : x ≠ c := fun e => hn'.1 (e ▸ hx)
      exact (List.mem_erase_of_ne hne).mpr (hs x (by simp [hx]))
    have := ih (l.erase c) hn'.2 hsub
    rw [List.length_erase_of_mem hc] at this
    have : 0 < l.length := List.length_pos_of_mem hc
    simp; omega

theorem candidate_injective (s : Str) (i j : Nat) (h : candidate s i = candidate s j) : i = j := by
  unfold candidate at h
  by_cases hi : i = 0 <;> by_cases hj : j = 0 <;> simp [hi, hj] at h ⊢
  · exact natToDec_injective i j h

theorem uniqueKey_isSome (taken places : List Str) (s : Str) : (uniqueKey taken places s).isSome := by
  unfold uniqueKey
  cases hf : List.find? _ _ with
  | some k => rfl
  | none =>
    exfalso
    rw [List.find?_eq_none] at hf
    let n := taken.length + places.length
    have hn : ((List.range (n + 1)).map (candidate s)).Nodup := by
      rw [List.Nodup, List.pairwise_map]
      exact List.Pairwise.imp (fun hne e => hne (candidate_injective s _ _ e)) List.nodup_range
    have hs : ∀ c ∈ (List.range (n + 1)).map (candidate s), c ∈ taken ++ places := by
      intro c hc
      have := hf c hc
      simp at this
      by_cases ht : c ∈ taken
      · simp [ht]
      · simp [this ht]
    have := length_le_of_nodup_subset _ _ hn hs
    simp at this
    omega

theorem uniqueKey_fresh {taken places : List Str} {s k : Str} (h : uniqueKey taken places s = some k) :
    k ∉ taken ∧ k ∉ places ∧ ∃ i, k = candidate s i := by
  unfold uniqueKey at h
  have hp := List.find?_some h
  have hm := List.mem_of_find?_eq_some h
  simp at hp
  obtain ⟨i, _, hi⟩ := List.mem_map.mp hm
  exact ⟨hp.1, hp.2, i, hi.symm⟩

/-! ### place entries -/

theorem placeEntriesR_keys_nodup (r ps : List Str) : ((placeEntriesR r ps).map (·.1)).Nodup := by
  induction ps with
  | nil => simp [placeEntriesR]
  | cons p ps ih =>
    simp only [placeEntriesR, List.map_cons, List.nodup_cons]
    constructor
    · intro hm
      obtain ⟨kv, hkv, hk⟩ := List.mem_map.mp hm
      have := (List.mem_filter.mp hkv).2
      simp [hk] at this
    · exact (ih.sublist ((List.filter_sublist).map _))

theorem placeEntriesR_key (r ps : List Str) : ∀ kv ∈ placeEntriesR r ps, kv.1 = placeKey r kv.2 := by
  induction ps with
  | nil => simp [placeEntriesR]
  | cons p ps ih =>
    intro kv hkv
    simp only [placeEntriesR, List.mem_cons] at hkv
    rcases hkv with rfl | hkv
    · rfl
    · exact ih kv (List.mem_filter.mp hkv).1

/-- the key of a place is a candidate of its sanitized name and no reserved key -/
theorem placeKey_spec (r : List Str) (p : Str) :
    placeKey r p ∉ r ∧ ∃ i, placeKey r p = candidate (sanitize p) i := by
  unfold placeKey
  have hs := uniqueKey_isSome [] r (sanitize p)
  cases hk : uniqueKey [] r (sanitize p) with
  | none => simp [hk] at hs
  | some k =>
    obtain ⟨_, h2, i, hi⟩ := uniqueKey_fresh hk
    exact ⟨by simpa using h2, i, by simpa using hi⟩

/-! ### look-ups in a Go map do not depend on the iteration order -/

theorem find_perm_unique {α : Type} (p : α → Bool) (l l' : List α) (hp : l.Perm l')
    (hu : ∀ a ∈ l, ∀ b ∈ l, p a = true → p b = true → a = b) : l.find? p = l'.find? p := by
  induction hp with
  | nil => rfl
  | cons x _ ih =>
    simp only [List.find?_cons]
    split
    · rfl
    · exact ih (fun a ha b hb => hu a (List.mem_cons_of_mem _ ha) b (List.mem_cons_of_mem _ hb))
  | swap x y l =>
    simp only [List.find?_cons]
    cases hx : p x <;> cases hy : p y <;> simp
    exact hu y (by simp) x (by simp) hy hx
  | trans h1 _ ih1 ih2 =>
    rw [ih1 hu]
    exact ih2 (fun a ha b hb => hu a (h1.mem_iff.mpr ha) b (h1.mem_iff.mpr hb))

theorem zipIdx_find (l : List Str) (k i : Nat) :
    (l.zipIdx k).find? (fun e => e.2 == i + k) = (l[i]?).map (fun x => (x, i + k)) := by
  induction l generalizing k i with
  | nil => simp
  | cons x xs ih =>
    simp only [List.zipIdx_cons, List.find?_cons]
    cases i with
    | zero => simp
    | succ i =>
      have hne : (k == i + 1 + k) = false := by simp
      simp only [hne]
      have := ih (k + 1) i
      have he : i + (k + 1) = i + 1 + k := by omega
      rw [he] at this
      simpa using this

theorem zipIdx_snd_unique (l : List Str) (k : Nat) :
    ∀ a ∈ l.zipIdx k, ∀ b ∈ l.zipIdx k, a.2 = b.2 → a = b := by
  intro a ha b hb h
  obtain ⟨a1, a2⟩ := a
  obtain ⟨b1, b2⟩ := b
  have ha' := List.mem_zipIdx ha
  have hb' := List.mem_zipIdx hb
  simp only at h ha' hb'
  subst h
  obtain ⟨_, _, e1⟩ := ha'
  obtain ⟨_, _, e2⟩ := hb'
  simp [e1, e2]

/-! ### the key of a source pointer can be decoded -/

def hexVal (b : UInt8) : Nat := if b.toNat ≤ 57 then b.toNat - 48 else b.toNat - 87

/-- reads a key back: `_xx` is the byte with that hexadecimal code, any other byte is itself
    (`skip`: bytes of an escape already read) -/
def decGo : Nat → Str → Str
  | _, [] => []
  | k+1, _ :: t => decGo k t
  | 0, b :: t =>
    if b == 95 then
      match t with
      | h :: l :: _ => UInt8.ofNat (hexVal h * 16 + hexVal l) :: decGo 2 t
      | _ => b :: decGo 0 t
    else b :: decGo 0 t

def decodeKey (s : Str) : Str := decGo 0 s

/-- an entry of the per-byte table is the byte itself (not `_`) or its `_xx` escape -/
def entryOk (e : Str × Nat) : Bool :=
  (e.1 == [UInt8.ofNat e.2] && e.2 != 95) || e.1 == [95, hexDigit (e.2 / 16), hexDigit (e.2 % 16)]

def tableOk (tbl : List Str) : Bool := tbl.length == 256 && tbl.zipIdx.all entryOk

theorem hexVal_hexDigit : ∀ d, d < 16 → hexVal (hexDigit d) = d := by decide

theorem decode_escape (c : Nat) (hc : c < 256) (rest : Str) :
    decodeKey (95 :: hexDigit (c / 16) :: hexDigit (c % 16) :: rest) = UInt8.ofNat c :: decodeKey rest := by
  unfold decodeKey
  simp only [decGo, beq_self_eq_true, if_true]
  rw [hexVal_hexDigit _ (by omega), hexVal_hexDigit _ (Nat.mod_lt _ (by omega))]
  congr 2
  omega

theorem decode_raw (b : UInt8) (hb : b ≠ 95) (rest : Str) : decodeKey (b :: rest) = b :: decodeKey rest := by
  unfold decodeKey
  have : (b == 95) = false := by simpa using hb
  simp [decGo, this]

theorem tableOk_get (tbl : List Str) (h : tableOk tbl = true) (c : UInt8) :
    entryOk (tbl.getD c.toNat [c], c.toNat) = true := by
  unfold tableOk at h
  simp only [Bool.and_eq_true, beq_iff_eq] at h
  have hlt : c.toNat < tbl.length := by rw [h.1]; exact UInt8.toNat_lt c
  have hall := List.all_eq_true.mp h.2
  apply hall
  rw [List.mem_iff_getElem?]
  refine ⟨c.toNat, ?_⟩
  simp [List.getElem?_zipIdx, List.getD, List.getElem?_eq_getElem hlt]

theorem decode_entry (tbl : List Str) (h : tableOk tbl = true) (c : UInt8) (rest : Str) :
    decodeKey (tbl.getD c.toNat [c] ++ rest) = c :: decodeKey rest := by
  have he := tableOk_get tbl h c
  unfold entryOk at he
  simp only [Bool.or_eq_true, Bool.and_eq_true, beq_iff_eq, bne_iff_ne, ne_eq] at he
  rcases he with ⟨he, hne⟩ | he
  · rw [he]
    have hc : UInt8.ofNat c.toNat = c := by simp
    rw [hc]
    have : c ≠ 95 := by
      intro e; apply hne; rw [e]; rfl
    simpa using decode_raw c this rest
  · rw [he]
    have := decode_escape c.toNat (UInt8.toNat_lt c) rest
    simpa using this

theorem decode_flatMap (tbl : List Str) (h : tableOk tbl = true) (p : Str) :
    decodeKey (p.flatMap (fun c => tbl.getD c.toNat [c])) = p := by
  induction p with
  | nil => simp [decodeKey, decGo]
  | cons c cs ih =>
    simp only [List.flatMap_cons]
    rw [decode_entry tbl h c, ih]

theorem decode_escapeFirst (k : Str) (hk : k.head? ≠ some 95) : decodeKey (escapeFirst k) = decodeKey k := by
  cases k with
  | nil => rfl
  | cons b t =>
    simp only [escapeFirst]
    rw [decode_escape b.toNat (UInt8.toNat_lt b) t]
    have hb : b ≠ 95 := by intro e; apply hk; simp [e]
    rw [decode_raw b hb t]
    simp

end Gedcom.Publish
