/- Helper lemmas for C19 (i): decimal round trip, pigeonhole for getUniqueKey, prefix codes,
   order-independence of map look-ups.  Core Lean only. -/
import Gedcom.Model.PublishNames
namespace Gedcom.Publish
open Gedcom

/-! ### decimal digits -/

def decToNat (s : Str) : Nat := s.foldl (fun a b => a * 10 + (b.toNat - 48)) 0

theorem digit_val : ∀ d, d < 10 → (digitChar d).toNat - 48 = d := by decide

theorem decToNat_snoc (s : Str) (b : UInt8) : decToNat (s ++ [b]) = decToNat s * 10 + (b.toNat - 48) := by
  simp [decToNat, List.foldl_append]

theorem decToNat_natToDecF (f n : Nat) (h : n < f) : decToNat (natToDecF f n) = n := by
  induction f generalizing n with
  | zero => omega
  | succ f ih =>
    unfold natToDecF
    split
    · rename_i h10; simp [decToNat, digit_val n h10]
    · rename_i h10
      rw [decToNat_snoc, ih (n / 10) (by omega), digit_val _ (Nat.mod_lt _ (by omega))]
      omega

theorem natToDec_injective (i j : Nat) (h : natToDec i = natToDec j) : i = j := by
  have hi := decToNat_natToDecF (i + 1) i (by omega)
  have hj := decToNat_natToDecF (j + 1) j (by omega)
  unfold natToDec at h
  rw [h] at hi; omega

theorem natToDecF_digits (f n : Nat) : ∀ b ∈ natToDecF f n, 48 ≤ b.toNat ∧ b.toNat ≤ 57 := by
  have hd : ∀ d, d < 10 → 48 ≤ (digitChar d).toNat ∧ (digitChar d).toNat ≤ 57 := by decide
  induction f generalizing n with
  | zero => simp [natToDecF]
  | succ f ih =>
    unfold natToDecF
    split
    · rename_i h10; intro b hb; simp at hb; subst hb; exact hd n h10
    · intro b hb
      rcases List.mem_append.mp hb with hb | hb
      · exact ih _ b hb
      · simp at hb; subst hb; exact hd _ (Nat.mod_lt _ (by omega))

/-! ### pigeonhole -/

theorem length_le_of_nodup_subset (cs l : List Str) (hn : cs.Nodup) (hs : ∀ c ∈ cs, c ∈ l) :
    cs.length ≤ l.length := by
  induction cs generalizing l with
  | nil => simp
  | cons c cs ih =>
    have hc : c ∈ l := hs c (by simp)
    have hn' := List.nodup_cons.mp hn
    have hsub : ∀ x ∈ cs, x ∈ l.erase c := by
      intro x hx
      have hne : x ≠ c := fun e => hn'.1 (e ▸ hx)
      exact (List.mem_erase_of_ne hne).mpr (hs x (by simp [hx]))
    have := ih (l.erase c) hn'.2 hsub
    rw [List.length_erase_of_mem hc] at this
    have : 0 < l.length := List.length_pos_of_mem hc
    simp; omega

theorem candidate_injective (s : Str) (i j : Nat) (h : candidate s i = candidate s j) : i = j := by
  unfold candidate at h
  by_cases hi : i = 0 <;> by_cases hj : j = 0 <;> simp [hi, hj] at h ⊢
  · exact natToDec_injective i j h

theorem uniqueKey_isSome (taken places : List Str) (s : Str) : (uniqueKey taken places s).isSome := by
  unfold uniqueKey
  cases hf : List.find? _ _ with
  | some k => rfl
  | none =>
    exfalso
    rw [List.find?_eq_none] at hf
    let n := taken.length + places.length
    have hn : ((List.range (n + 1)).map (candidate s)).Nodup := by
      rw [List.Nodup, List.pairwise_map]
      exact List.Pairwise.imp (fun hne e => hne (candidate_injective s _ _ e)) List.nodup_range
    have hs : ∀ c ∈ (List.range (n + 1)).map (candidate s), c ∈ taken ++ places := by
      intro c hc
      have := hf c hc
      simp at this
      by_cases ht : c ∈ taken
      · simp [ht]
      · simp [this ht]
    have := length_le_of_nodup_subset _ _ hn hs
    simp at this
    omega

theorem uniqueKey_fresh {taken places : List Str} {s k : Str} (h : uniqueKey taken places s = some k) :
    k ∉ taken ∧ k ∉ places ∧ ∃ i, k = candidate s i := by
  unfold uniqueKey at h
  have hp := List.find?_some h
  have hm := List.mem_of_find?_eq_some h
  simp at hp
  obtain ⟨i, _, hi⟩ := List.mem_map.mp hm
  exact ⟨hp.1, hp.2, i, hi.symm⟩

/-! ### place entries -/

theorem placeEntries_keys_nodup (ps : List Str) : ((placeEntries ps).map (·.1)).Nodup := by
  induction ps with
  | nil => simp [placeEntries]
  | cons p ps ih =>
    simp only [placeEntries, List.map_cons, List.nodup_cons]
    constructor
    · intro hm
      obtain ⟨kv, hkv, hk⟩ := List.mem_map.mp hm
      have := (List.mem_filter.mp hkv).2
      simp [hk] at this
    · exact (ih.sublist ((List.filter_sublist).map _))

theorem placeEntries_key (ps : List Str) : ∀ kv ∈ placeEntries ps, kv.1 = sanitize kv.2 := by
  induction ps with
  | nil => simp [placeEntries]
  | cons p ps ih =>
    intro kv hkv
    simp only [placeEntries, List.mem_cons] at hkv
    rcases hkv with rfl | hkv
    · rfl
    · exact ih kv (List.mem_filter.mp hkv).1

/-! ### look-ups in a Go map do not depend on the iteration order -/

theorem find_perm_unique {α : Type} (p : α → Bool) (l l' : List α) (hp : l.Perm l')
    (hu : ∀ a ∈ l, ∀ b ∈ l, p a = true → p b = true → a = b) : l.find? p = l'.find? p := by
  induction hp with
  | nil => rfl
  | cons x _ ih =>
    simp only [List.find?_cons]
    split
    · rfl
    · exact ih (fun a ha b hb => hu a (List.mem_cons_of_mem _ ha) b (List.mem_cons_of_mem _ hb))
  | swap x y l =>
    simp only [List.find?_cons]
    cases hx : p x <;> cases hy : p y <;> simp
    exact hu y (by simp) x (by simp) hy hx
  | trans h1 _ ih1 ih2 =>
    rw [ih1 hu]
    exact ih2 (fun a ha b hb => hu a (h1.mem_iff.mpr ha) b (h1.mem_iff.mpr hb))

theorem zipIdx_find (l : List Str) (k i : Nat) :
    (l.zipIdx k).find? (fun e => e.2 == i + k) = (l[i]?).map (fun x => (x, i + k)) := by
  induction l generalizing k i with
  | nil => simp
  | cons x xs ih =>
    simp only [List.zipIdx_cons, List.find?_cons]
    cases i with
    | zero => simp
    | succ i =>
      have hne : (k == i + 1 + k) = false := by simp
      simp only [hne]
      have := ih (k + 1) i
      have he : i + (k + 1) = i + 1 + k := by omega
      rw [he] at this
      simpa using this

theorem zipIdx_snd_unique (l : List Str) (k : Nat) :
    ∀ a ∈ l.zipIdx k, ∀ b ∈ l.zipIdx k, a.2 = b.2 → a = b := by
  intro a ha b hb h
  obtain ⟨a1, a2⟩ := a
  obtain ⟨b1, b2⟩ := b
  have ha' := List.mem_zipIdx ha
  have hb' := List.mem_zipIdx hb
  simp only at h ha' hb'
  subst h
  obtain ⟨_, _, e1⟩ := ha'
  obtain ⟨_, _, e2⟩ := hb'
  simp [e1, e2]

/-! ### prefix codes: a per-byte encoding whose code words are not prefixes of each other is
    injective on strings.  The check runs over `Nat` lists (fast in the kernel). -/

def isPrefixN : List Nat → List Nat → Bool
  | [], _ => true
  | _ :: _, [] => false
  | a :: as, b :: bs => a == b && isPrefixN as bs

/-- no element of `l` is a prefix of `x` or has `x` as a prefix -/
def apartFrom (x : List Nat) (l : List (List Nat)) : Bool :=
  l.all (fun y => !isPrefixN x y && !isPrefixN y x)

def prefixFreeN : List (List Nat) → Bool
  | [] => true
  | x :: xs => !x.isEmpty && apartFrom x xs && prefixFreeN xs

def toNats (s : Str) : List Nat := s.map UInt8.toNat

/-- the check stated on a byte table -/
def prefixFree (tbl : List Str) : Bool := prefixFreeN (tbl.map toNats)

theorem isPrefixN_iff (a b : List Nat) : isPrefixN a b = true ↔ ∃ t, b = a ++ t := by
  induction a generalizing b with
  | nil => simp [isPrefixN]
  | cons x xs ih =>
    cases b with
    | nil => simp [isPrefixN]
    | cons y ys =>
      simp only [isPrefixN, Bool.and_eq_true, beq_iff_eq, ih, List.cons_append, List.cons.injEq]
      constructor
      · rintro ⟨rfl, t, rfl⟩; exact ⟨t, rfl, rfl⟩
      · rintro ⟨t, rfl, rfl⟩; exact ⟨rfl, t, rfl⟩

theorem prefix_of_append_eq (a b x y : List Nat) (h : a ++ x = b ++ y) :
    isPrefixN a b = true ∨ isPrefixN b a = true := by
  rcases List.append_eq_append_iff.mp h with ⟨t, rfl, _⟩ | ⟨t, rfl, _⟩
  · exact Or.inl ((isPrefixN_iff _ _).mpr ⟨t, rfl⟩)
  · exact Or.inr ((isPrefixN_iff _ _).mpr ⟨t, rfl⟩)

theorem prefixFree_get (l : List (List Nat)) (h : prefixFreeN l = true) (i j : Nat) (a b : List Nat)
    (ha : l[i]? = some a) (hb : l[j]? = some b) (hp : isPrefixN a b = true) : i = j := by
  induction l generalizing i j with
  | nil => simp at ha
  | cons x xs ih =>
    simp only [prefixFreeN, Bool.and_eq_true] at h
    obtain ⟨⟨_, hx⟩, hxs⟩ := h
    unfold apartFrom at hx
    rw [List.all_eq_true] at hx
    cases i with
    | zero =>
      cases j with
      | zero => rfl
      | succ j =>
        simp at ha hb; subst ha
        have := hx b (List.mem_of_getElem? hb)
        simp [hp] at this
    | succ i =>
      cases j with
      | zero =>
        simp at ha hb; subst hb
        have := hx a (List.mem_of_getElem? ha)
        simp [hp] at this
      | succ j =>
        simp at ha hb
        exact congrArg (· + 1) (ih hxs i j ha hb)

theorem prefixFree_ne_nil (l : List (List Nat)) (h : prefixFreeN l = true) : ∀ x ∈ l, x ≠ [] := by
  induction l with
  | nil => simp
  | cons x xs ih =>
    simp only [prefixFreeN, Bool.and_eq_true] at h
    intro y hy
    rcases List.mem_cons.mp hy with rfl | hy
    · intro e; simp [e] at h
    · exact ih h.2 y hy

theorem toNats_injective (a b : Str) (h : toNats a = toNats b) : a = b := by
  induction a generalizing b with
  | nil => cases b <;> simp [toNats] at h ⊢
  | cons x xs ih =>
    cases b with
    | nil => simp [toNats] at h
    | cons y ys =>
      simp only [toNats, List.map_cons, List.cons.injEq] at h
      rw [UInt8.toNat_inj.mp h.1, ih ys h.2]

theorem toNats_append (a b : Str) : toNats (a ++ b) = toNats a ++ toNats b := by simp [toNats]

/-- a per-byte encoding through a complete prefix-free table is injective -/
theorem flatMap_table_injective (tbl : List Str) (hl : tbl.length = 256) (hf : prefixFree tbl = true)
    (a b : Str) (h : a.flatMap (fun c => tbl.getD c.toNat [c]) = b.flatMap (fun c => tbl.getD c.toNat [c])) :
    a = b := by
  have hget : ∀ c : UInt8, (tbl.map toNats)[c.toNat]? = some (toNats (tbl.getD c.toNat [c])) := by
    intro c
    have : c.toNat < tbl.length := by rw [hl]; exact UInt8.toNat_lt c
    simp [List.getD, List.getElem?_eq_getElem this]
  unfold prefixFree at hf
  induction a generalizing b with
  | nil =>
    cases b with
    | nil => rfl
    | cons y ys =>
      exfalso
      simp only [List.flatMap_nil, List.flatMap_cons] at h
      have hne := prefixFree_ne_nil _ hf _ (List.mem_of_getElem? (hget y))
      have := (List.append_eq_nil_iff.mp h.symm).1
      exact hne (by rw [this]; rfl)
  | cons x xs ih =>
    cases b with
    | nil =>
      exfalso
      simp only [List.flatMap_nil, List.flatMap_cons] at h
      have hne := prefixFree_ne_nil _ hf _ (List.mem_of_getElem? (hget x))
      exact hne (by rw [(List.append_eq_nil_iff.mp h).1]; rfl)
    | cons y ys =>
      simp only [List.flatMap_cons] at h
      have h' := congrArg toNats h
      rw [toNats_append, toNats_append] at h'
      have hxy : x.toNat = y.toNat := by
        rcases prefix_of_append_eq _ _ _ _ h' with hp | hp
        · exact prefixFree_get _ hf _ _ _ _ (hget x) (hget y) hp
        · exact (prefixFree_get _ hf _ _ _ _ (hget y) (hget x) hp).symm
      have hxy' : x = y := UInt8.toNat_inj.mp hxy
      subst hxy'
      rw [List.append_cancel_left_eq] at h
      rw [ih ys h]

end Gedcom.Publish
