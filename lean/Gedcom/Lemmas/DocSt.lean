/-
  Basic facts about document states (Gedcom/Model/CopyDoc.lean, round 4): `addFamilies`, cache
  coherence of `addFamily` / `ofRecords`.
-/
import Gedcom.Lemmas.CopyDoc
namespace Gedcom

theorem idsList_append (a b : List INode) : idsList (a ++ b) = idsList a ++ idsList b := by
  induction a with
  | nil => simp [idsList]
  | cons x xs ih => simp [idsList, ih]

theorem ids_of_leaf {x : INode} (h : x.kids = []) : x.ids = [x.id] := by
  cases x with
  | mk i t v p ks =>
    simp only [INode.kids] at h
    subst h
    simp [INode.ids, idsList, INode.id]

theorem addFamilies_spec (d : DocSt) (nx : Nat) (ps : List Str) :
    (d.addFamilies nx ps).1.nodes = d.nodes ++ (newFams nx ps).1 ∧
    (d.addFamilies nx ps).2 = (newFams nx ps).2 := by
  induction ps generalizing d nx with
  | nil => simp [DocSt.addFamilies, newFams]
  | cons p ps ih =>
    obtain ⟨h1, h2⟩ := ih (d.addFamily nx p) (nx + 1)
    simp only [DocSt.addFamilies, newFams]
    refine ⟨?_, h2⟩
    rw [h1]
    simp [DocSt.addFamily, DocSt.addNode]

theorem lookup_append_one (l : List INode) (i : Nat) (t v p : Str) (ks : List INode) (q : Str) :
    Doc.lookup (l ++ [.mk i t v p ks]) q = if p == q then some i else Doc.lookup l q := by
  unfold Doc.lookup
  simp only [List.reverse_append, List.reverse_cons, List.reverse_nil, List.nil_append,
    List.cons_append, List.find?_cons, INode.ptr]
  cases h : p == q <;> simp [INode.id]

theorem addFamily_index (d : DocSt) (id : Nat) (p : Str) :
    (d.addFamily id p).index = if p.isEmpty then d.index else (p, id) :: d.index := rfl

theorem addFamily_nodes (d : DocSt) (id : Nat) (p : Str) :
    (d.addFamily id p).nodes = d.nodes ++ [.mk id tagFAM [] p []] := rfl

theorem addFamily_coherent (d : DocSt) (id : Nat) (p : Str) (h : d.coherent) :
    (d.addFamily id p).coherent := by
  constructor
  · intro q hq
    unfold DocSt.nodeByPointer
    rw [addFamily_index, addFamily_nodes, lookup_append_one]
    have hc := h.1 q hq
    simp only [DocSt.nodeByPointer] at hc
    split
    · rename_i hp
      have : p = [] := List.isEmpty_iff.mp hp
      subst this
      have hq' : (([] : Str) == q) = false := by
        cases q with | nil => exact absurd rfl hq | cons _ _ => rfl
      simp only [hq', Bool.false_eq_true, if_false]
      exact hc
    · cases hpq : p == q
      · simpa [List.find?_cons, hpq] using hc
      · simp [List.find?_cons, hpq]
  · intro l hl
    simp only [DocSt.addFamily, DocSt.addNode, DocSt.families, INode.tag] at hl
    simp only [beq_self_eq_true, if_true] at hl
    injection hl with hl
    rw [← hl]
    rfl

theorem addFamilies_coherent (d : DocSt) (nx : Nat) (ps : List Str) (h : d.coherent) :
    (d.addFamilies nx ps).1.coherent := by
  induction ps generalizing d nx with
  | nil => exact h
  | cons p ps ih => exact ih _ _ (addFamily_coherent d nx p h)

theorem ofRecords_coherent (recs : List INode) : (DocSt.ofRecords recs).coherent := by
  constructor
  · intro q hq
    unfold DocSt.ofRecords DocSt.nodeByPointer Doc.lookup
    simp only
    rw [← List.map_reverse, ← List.filter_reverse]
    generalize recs.reverse = l
    induction l with
    | nil => rfl
    | cons x xs ih =>
      cases hx : x.ptr.isEmpty
      · simp only [List.filter_cons, hx, Bool.not_false, if_true, List.map_cons, List.find?_cons]
        cases hpq : x.ptr == q
        · exact ih
        · rfl
      · have hp : x.ptr = [] := List.isEmpty_iff.mp hx
        have : (x.ptr == q) = false := by
          rw [hp]; cases q with | nil => exact absurd rfl hq | cons _ _ => rfl
        simp only [List.filter_cons, hx, Bool.not_true, Bool.false_eq_true, if_false,
          List.find?_cons, this]
        exact ih
  · intro l hl
    simp [DocSt.ofRecords] at hl

end Gedcom
