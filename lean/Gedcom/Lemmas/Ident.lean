/-
  Facts about identity-carrying trees (Gedcom/Model/Ident.lean): the copy has the value of its
  source, its ids are exactly the newly allocated ones, writes go to new objects only, and a
  mutation of an object that does not occur in a tree leaves that tree alone.
-/
import Gedcom.Model.Ident
namespace Gedcom

theorem eraseList_eq_map (ks : List INode) : eraseList ks = ks.map INode.erase := by
  induction ks with
  | nil => rfl
  | cons k ks ih => simp [eraseList, ih]

theorem idsList_mem {ks : List INode} {i : Nat} :
    i ∈ idsList ks ↔ ∃ k ∈ ks, i ∈ k.ids := by
  induction ks with
  | nil => simp [idsList]
  | cons k ks ih => simp [idsList, ih]

mutual
theorem copyTree_erase (next : Nat) (t : INode) : (copyTree next t).1.erase = t.erase := by
  match t with
  | .mk i tg v p ks =>
    simp only [copyTree, INode.erase]
    rw [copyKids_erase]
theorem copyKids_erase (next parent : Nat) (ks : List INode) :
    eraseList (copyKids next parent ks).1 = eraseList ks := by
  match ks with
  | [] => simp [copyKids, eraseList]
  | k :: ks =>
    simp only [copyKids, eraseList]
    rw [copyTree_erase, copyKids_erase]
end

mutual
/-- the copy occupies exactly the ids handed out during the walk: `next ≤ id < next'` -/
theorem copyTree_ids (next : Nat) (t : INode) :
    next < (copyTree next t).2.1 ∧
    (∀ i ∈ (copyTree next t).1.ids, next ≤ i ∧ i < (copyTree next t).2.1) ∧
    (∀ w ∈ (copyTree next t).2.2, next ≤ w ∧ w < (copyTree next t).2.1) := by
  match t with
  | .mk i tg v p ks =>
    have h := copyKids_ids (next + 1) next ks
    simp only [copyTree, INode.ids]
    refine ⟨by omega, ?_, ?_⟩
    · intro j hj
      rcases List.mem_cons.mp hj with rfl | hj
      · omega
      · have := h.2.1 j hj; omega
    · intro w hw
      have := h.2.2 w hw
      omega
theorem copyKids_ids (next parent : Nat) (ks : List INode) :
    next ≤ (copyKids next parent ks).2.1 ∧
    (∀ i ∈ idsList (copyKids next parent ks).1, next ≤ i ∧ i < (copyKids next parent ks).2.1) ∧
    (∀ w ∈ (copyKids next parent ks).2.2,
      (next ≤ w ∧ w < (copyKids next parent ks).2.1) ∨ w = parent) := by
  match ks with
  | [] => simp [copyKids, idsList]
  | k :: ks =>
    have h1 := copyTree_ids next k
    have h2 := copyKids_ids (copyTree next k).2.1 parent ks
    simp only [copyKids, idsList]
    refine ⟨by omega, ?_, ?_⟩
    · intro j hj
      rcases List.mem_append.mp hj with hj | hj
      · have := h1.2.1 j hj; omega
      · have := h2.2.1 j hj; omega
    · intro w hw
      rcases List.mem_append.mp hw with hw | hw
      · have := h1.2.2 w hw; left; omega
      · rcases List.mem_cons.mp hw with rfl | hw
        · right; rfl
        · rcases h2.2.2 w hw with h | h
          · left; omega
          · right; exact h
end

mutual
theorem applyMut_of_not_mem (m : Mut) (t : INode) (h : m.target ∉ t.ids) : applyMut m t = t := by
  match t with
  | .mk i tg v p ks =>
    simp only [INode.ids, List.mem_cons, not_or] at h
    simp only [applyMut]
    rw [applyMutList_of_not_mem m ks h.2]
    have : (i == m.target) = false := by
      simp only [beq_eq_false_iff_ne, ne_eq]; exact fun e => h.1 e.symm
    simp [this]
theorem applyMutList_of_not_mem (m : Mut) (ks : List INode) (h : m.target ∉ idsList ks) :
    applyMutList m ks = ks := by
  match ks with
  | [] => rfl
  | k :: ks =>
    simp only [idsList, List.mem_append, not_or] at h
    simp only [applyMutList]
    rw [applyMut_of_not_mem m k h.1, applyMutList_of_not_mem m ks h.2]
end

end Gedcom
