/-
  Algebra of perfect matchings (`G.Matched`) on top of the spike of Lemmas/Greedy.lean:
  characterisation through `All2` up to a permutation, symmetry / transitivity /
  counting when the relation behaves on the elements involved, and `greedy_iff` relativised to a
  decidable subset `Q` (the relation only has to be symmetric and transitive on `Q`).
-/
import Gedcom.Lemmas.Greedy
namespace Gedcom.G
variable {α : Type}

theorem removeFirst_congr {p q : α → Bool} {r : List α} (h : ∀ y ∈ r, p y = q y) :
    removeFirst p r = removeFirst q r := by
  induction r with
  | nil => rfl
  | cons x xs ih =>
    simp only [removeFirst]
    rw [h x (by simp), ih (fun y hy => h y (by simp [hy]))]

theorem removeFirst_subset {p : α → Bool} {r r' : List α} (h : removeFirst p r = some r') :
    ∀ y ∈ r', y ∈ r := by
  obtain ⟨y, _, hp⟩ := removeFirst_some h
  intro z hz
  exact hp.symm.subset (by simp [hz])

theorem greedy_congr {R R' : α → α → Bool} {l r : List α}
    (h : ∀ x ∈ l, ∀ y ∈ r, R x y = R' x y) : greedy R l r = greedy R' l r := by
  induction l generalizing r with
  | nil => rfl
  | cons x xs ih =>
    simp only [greedy]
    rw [removeFirst_congr (p := R x) (q := R' x) (fun y hy => h x (by simp) y hy)]
    cases hrf : removeFirst (R' x) r with
    | none => rfl
    | some r' =>
      simp only
      exact ih (fun a ha b hb => h a (by simp [ha]) b (removeFirst_subset hrf b hb))

/-! ### `Matched` as `Forall₂` up to a permutation of the right list -/

/-- pointwise relation of two lists (core has no `Forall₂`) -/
inductive All2 {α : Type} (P : α → α → Prop) : List α → List α → Prop
  | nil : All2 P [] []
  | cons {a b : α} {l r : List α} : P a b → All2 P l r → All2 P (a :: l) (b :: r)

abbrev F2 (R : α → α → Bool) := All2 (fun a b => R a b = true)

theorem matched_iff {R : α → α → Bool} {l r : List α} :
    Matched R l r ↔ ∃ r', r.Perm r' ∧ F2 R l r' := by
  constructor
  · intro h
    induction h with
    | nil => exact ⟨[], List.Perm.refl _, All2.nil⟩
    | @cons x y xs s r hxy _ hr ih =>
      obtain ⟨s', hs', hf⟩ := ih
      exact ⟨y :: s', hr.trans (List.Perm.cons y hs'), All2.cons hxy hf⟩
  · rintro ⟨r', hp, hf⟩
    induction hf generalizing r with
    | nil => have := hp.eq_nil; subst this; exact .nil
    | @cons a b l' r'' hab _ ih => exact .cons hab (ih (List.Perm.refl _)) hp

theorem forall2_imp_on {P P' : α → α → Prop} {l r : List α}
    (h : ∀ a ∈ l, ∀ b ∈ r, P a b → P' a b) (hf : All2 P l r) : All2 P' l r := by
  induction hf with
  | nil => exact .nil
  | @cons a b l' r' hab _ ih =>
    exact .cons (h a (by simp) b (by simp) hab)
      (ih (fun x hx y hy => h x (by simp [hx]) y (by simp [hy])))

theorem forall2_flip_on {P : α → α → Prop} {l r : List α}
    (h : ∀ a ∈ l, ∀ b ∈ r, P a b → P b a) (hf : All2 P l r) : All2 P r l := by
  induction hf with
  | nil => exact .nil
  | @cons a b l' r' hab _ ih =>
    exact .cons (h a (by simp) b (by simp) hab)
      (ih (fun x hx y hy => h x (by simp [hx]) y (by simp [hy])))

theorem forall2_trans_on {P : α → α → Prop} {l m r : List α}
    (h : ∀ a ∈ l, ∀ b ∈ m, ∀ c ∈ r, P a b → P b c → P a c)
    (h1 : All2 P l m) (h2 : All2 P m r) : All2 P l r := by
  induction h1 generalizing r with
  | nil => cases h2; exact .nil
  | @cons a b l' m' hab _ ih =>
    cases h2 with
    | @cons _ c _ r' hbc h2' =>
      exact .cons (h a (by simp) b (by simp) c (by simp) hab hbc)
        (ih (fun x hx y hy z hz => h x (by simp [hx]) y (by simp [hy]) z (by simp [hz])) h2')

theorem forall2_perm_left {P : α → α → Prop} {l l' r : List α} (hp : l.Perm l')
    (hf : All2 P l r) : ∃ r', r.Perm r' ∧ All2 P l' r' := by
  induction hp generalizing r with
  | nil => cases hf; exact ⟨[], List.Perm.refl _, .nil⟩
  | @cons x l1 l2 _ ih =>
    cases hf with
    | @cons _ b _ r1 hxb hf' =>
      obtain ⟨r1', hr, hf''⟩ := ih hf'
      exact ⟨b :: r1', List.Perm.cons b hr, .cons hxb hf''⟩
  | swap x y l0 =>
    cases hf with
    | @cons _ b1 _ r1 h1 hf' =>
      cases hf' with
      | @cons _ b2 _ r0 h2 hf'' =>
        exact ⟨b2 :: b1 :: r0, List.Perm.swap b2 b1 r0, .cons h2 (.cons h1 hf'')⟩
  | trans _ _ ih1 ih2 =>
    obtain ⟨r1, hr1, hf1⟩ := ih1 hf
    obtain ⟨r2, hr2, hf2⟩ := ih2 hf1
    exact ⟨r2, hr1.trans hr2, hf2⟩

theorem All2.mem_left {P : α → α → Prop} {l r : List α} (hf : All2 P l r) {x : α} (hx : x ∈ l) :
    ∃ y ∈ r, P x y := by
  induction hf with
  | nil => cases hx
  | @cons a b l' r' hab _ ih =>
    rcases List.mem_cons.mp hx with rfl | hx
    · exact ⟨b, by simp, hab⟩
    · obtain ⟨y, hy, hxy⟩ := ih hx
      exact ⟨y, by simp [hy], hxy⟩

theorem forall2_length {P : α → α → Prop} {l r : List α} (hf : All2 P l r) :
    l.length = r.length := by
  induction hf with
  | nil => rfl
  | cons _ _ ih => simp [ih]

theorem Matched.length_eq {R : α → α → Bool} {l r : List α} (h : Matched R l r) :
    l.length = r.length := by
  obtain ⟨r', hp, hf⟩ := matched_iff.mp h
  rw [forall2_length hf, hp.length_eq]

/-- every left element has a partner on the right -/
theorem Matched.exists_right {R : α → α → Bool} {l r : List α} (h : Matched R l r) {x : α}
    (hx : x ∈ l) : ∃ z ∈ r, R x z = true := by
  obtain ⟨r', hp, hf⟩ := matched_iff.mp h
  obtain ⟨y, hy, hxy⟩ := hf.mem_left hx
  exact ⟨y, hp.symm.subset hy, hxy⟩

theorem Matched.of_forall2_perm {R : α → α → Bool} {l r r' : List α} (hf : F2 R l r')
    (hp : r'.Perm r) : Matched R l r :=
  matched_iff.mpr ⟨r', hp.symm, hf⟩

theorem Matched.perm_left {R : α → α → Bool} {l l' r : List α} (h : Matched R l r)
    (hp : l.Perm l') : Matched R l' r := by
  obtain ⟨r', hr, hf⟩ := matched_iff.mp h
  obtain ⟨r'', hr', hf'⟩ := forall2_perm_left hp hf
  exact matched_iff.mpr ⟨r'', hr.trans hr', hf'⟩

theorem Matched.mono_on {R R' : α → α → Bool} {l r : List α}
    (h : ∀ a ∈ l, ∀ b ∈ r, R a b = true → R' a b = true) (hm : Matched R l r) :
    Matched R' l r := by
  obtain ⟨r', hr, hf⟩ := matched_iff.mp hm
  exact matched_iff.mpr ⟨r', hr,
    forall2_imp_on (fun a ha b hb => h a ha b (hr.symm.subset hb)) hf⟩

theorem Matched.symm_on {R : α → α → Bool} {l r : List α}
    (h : ∀ a ∈ l, ∀ b ∈ r, R a b = true → R b a = true) (hm : Matched R l r) :
    Matched R r l := by
  obtain ⟨r', hr, hf⟩ := matched_iff.mp hm
  have hf' : F2 R r' l :=
    forall2_flip_on (fun a ha b hb => h a ha b (hr.symm.subset hb)) hf
  obtain ⟨l', hl, hf''⟩ := forall2_perm_left hr.symm hf'
  exact matched_iff.mpr ⟨l', hl, hf''⟩

theorem Matched.trans_on {R : α → α → Bool} {l m r : List α}
    (h : ∀ a ∈ l, ∀ b ∈ m, ∀ c ∈ r, R a b = true → R b c = true → R a c = true)
    (h1 : Matched R l m) (h2 : Matched R m r) : Matched R l r := by
  obtain ⟨m', hm, hf1⟩ := matched_iff.mp h1
  obtain ⟨r', hr, hf2⟩ := matched_iff.mp h2
  obtain ⟨r'', hr', hf2'⟩ := forall2_perm_left hm hf2
  refine matched_iff.mpr ⟨r'', hr.trans hr', ?_⟩
  exact forall2_trans_on
    (fun a ha b hb c hc => h a ha b (hm.symm.subset hb) c ((hr.trans hr').symm.subset hc)) hf1 hf2'

theorem Matched.refl_perm {R : α → α → Bool} {l r : List α} (h : ∀ x ∈ l, R x x = true)
    (hp : l.Perm r) : Matched R l r := by
  refine matched_iff.mpr ⟨l, hp.symm, ?_⟩
  induction l generalizing r with
  | nil => exact .nil
  | cons x xs ih =>
    exact .cons (h x (by simp)) (ih (fun y hy => h y (by simp [hy])) (List.Perm.refl _))

/-- elements matched with each other are related to `z` alike ⇒ `z` has the same number of
    partners on both sides -/
theorem Matched.countP_eq {R : α → α → Bool} {l r : List α} (z : α)
    (h : ∀ a ∈ l, ∀ b ∈ r, R a b = true → R z a = R z b) (hm : Matched R l r) :
    l.countP (R z) = r.countP (R z) := by
  obtain ⟨r', hr, hf⟩ := matched_iff.mp hm
  rw [hr.countP_eq]
  have h' : ∀ a ∈ l, ∀ b ∈ r', R a b = true → R z a = R z b :=
    fun a ha b hb => h a ha b (hr.symm.subset hb)
  clear hr hm h
  induction hf with
  | nil => rfl
  | @cons a b l' r'' hab _ ih =>
    have e := h' a (by simp) b (by simp) hab
    have ih' := ih (fun x hx y hy => h' x (by simp [hx]) y (by simp [hy]))
    simp only [List.countP_cons, e, ih']

/-! ### `greedy_iff` relativised to a subset -/

/-- `R` inside `Q`, everything outside `Q` lumped into one class: globally symmetric and
    transitive as soon as `R` is on `Q` -/
def relOn (Q : α → Bool) (R : α → α → Bool) (a b : α) : Bool :=
  if Q a && Q b then R a b else (!Q a && !Q b)

theorem greedy_complete_on (Q : α → Bool) (R : α → α → Bool)
    (symm : ∀ a b, Q a = true → Q b = true → R a b = true → R b a = true)
    (trans : ∀ a b c, Q a = true → Q b = true → Q c = true →
      R a b = true → R b c = true → R a c = true)
    (l r : List α) (hl : ∀ x ∈ l, Q x = true) (hr : ∀ x ∈ r, Q x = true)
    (h : Matched R l r) : greedy R l r = true := by
  have e : greedy R l r = greedy (relOn Q R) l r :=
    greedy_congr (fun x hx y hy => by simp [relOn, hl x hx, hr y hy])
  rw [e]
  apply greedy_complete (relOn Q R)
  · intro a b
    unfold relOn
    cases ha : Q a <;> cases hb : Q b <;> simp
    exact symm a b ha hb
  · intro a b c
    unfold relOn
    cases ha : Q a <;> cases hb : Q b <;> cases hc : Q c <;> simp
    exact trans a b c ha hb hc
  · exact h.mono_on (fun a ha b hb hab => by simp [relOn, hl a ha, hr b hb, hab])

theorem greedy_iff_on (Q : α → Bool) (R : α → α → Bool)
    (symm : ∀ a b, Q a = true → Q b = true → R a b = true → R b a = true)
    (trans : ∀ a b c, Q a = true → Q b = true → Q c = true →
      R a b = true → R b c = true → R a c = true)
    (l r : List α) (hl : ∀ x ∈ l, Q x = true) (hr : ∀ x ∈ r, Q x = true) :
    greedy R l r = true ↔ Matched R l r :=
  ⟨greedy_sound R l r, greedy_complete_on Q R symm trans l r hl hr⟩

end Gedcom.G
