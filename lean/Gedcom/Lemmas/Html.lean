/- Helper lemmas for C18: tokenizer composition, encoders, nesting check.  Core Lean only. -/
import Gedcom.Model.Html
namespace Gedcom.Html
open Gedcom

/-! ### tokenizer -/

theorem lexRun_append (st : LState) (a b : Str) :
    lexRun st (a ++ b) = ((lexRun (lexRun st a).1 b).1, (lexRun st a).2 ++ (lexRun (lexRun st a).1 b).2) := by
  induction a generalizing st with
  | nil => simp [lexRun]
  | cons x xs ih => simp [lexRun, ih, List.append_assoc]

theorem lexGo_eq (st : LState) (acc : List Tok) (s : Str) :
    lexGo st acc s = ((lexRun st s).1, acc.reverse ++ (lexRun st s).2) := by
  induction s generalizing st acc with
  | nil => simp [lexGo, lexRun]
  | cons x xs ih => simp [lexGo, lexRun, ih, List.append_assoc]

theorem lexHtml_eq (s : Str) : lexHtml s = lexRun .data s := by
  simp [lexHtml, lexGo_eq]

theorem lexRun_data_stay (s : Str) (h : ∀ b ∈ s, b ≠ 60) : lexRun .data s = (.data, []) := by
  induction s with
  | nil => rfl
  | cons x xs ih =>
    have hx : x ≠ 60 := h x (by simp)
    have hxs : ∀ b ∈ xs, b ≠ 60 := fun b hb => h b (by simp [hb])
    simp [lexRun, lexStep, hx, ih hxs]

theorem lexRun_quoted_stay (c : TagCtx) (q : UInt8) (s : Str) (h : ∀ b ∈ s, b ≠ q) :
    lexRun (.quoted c q) s = (.quoted c q, []) := by
  induction s with
  | nil => rfl
  | cons x xs ih =>
    have hx : x ≠ q := h x (by simp)
    have hxs : ∀ b ∈ xs, b ≠ q := fun b hb => h b (by simp [hb])
    simp [lexRun, lexStep, hx, ih hxs]

theorem lower_ne_lt : ∀ n, n < 256 → UInt8.ofNat n ≠ 60 → lower (UInt8.ofNat n) ≠ 60 := by
  decide +kernel

theorem lexRun_rawText_stay (e : Str) (s : Str) (he : e.head? = some 60) (h : ∀ b ∈ s, b ≠ 60) :
    lexRun (.rawText e 0) s = (.rawText e 0, []) := by
  obtain ⟨t, rfl⟩ : ∃ t, e = 60 :: t := by
    cases e with
    | nil => simp at he
    | cons x xs => simp at he; exact ⟨xs, by rw [he]⟩
  induction s with
  | nil => rfl
  | cons x xs ih =>
    have hx : x ≠ 60 := h x (by simp)
    have hxs : ∀ b ∈ xs, b ≠ 60 := fun b hb => h b (by simp [hb])
    have hl : lower x ≠ 60 := by
      have := lower_ne_lt x.toNat (UInt8.toNat_lt x) (by simpa using hx)
      simpa using this
    simp [lexRun, lexStep, hl, hx, ih hxs]

/-! ### nesting check -/

theorem chk_append (σ : List Str) (a b : List Tok) :
    chk σ (a ++ b) = (chk σ a).bind (fun σ' => chk σ' b) := by
  induction a generalizing σ with
  | nil => simp [chk]
  | cons t ts ih =>
    cases t with
    | «open» n at_ => simp only [List.cons_append, chk]; split <;> exact ih _
    | close n =>
      cases σ with
      | nil => simp [chk]
      | cons m σ => simp only [List.cons_append, chk]; split <;> simp [ih]
    | selfClose n at_ => simp only [List.cons_append, chk]; exact ih _
    | comment => simp only [List.cons_append, chk]; exact ih _
    | bad => simp [chk]

theorem chk_frame (σ σ' ρ : List Str) (ts : List Tok) (h : chk σ ts = some σ') :
    chk (σ ++ ρ) ts = some (σ' ++ ρ) := by
  induction ts generalizing σ with
  | nil => simp [chk] at h; simp [chk, h]
  | cons t ts ih =>
    cases t with
    | «open» n at_ =>
      simp only [chk] at h ⊢
      split at h
      · rename_i hv; rw [if_pos hv]; exact ih σ h
      · rename_i hv; rw [if_neg hv]; exact ih (n :: σ) h
    | close n =>
      cases σ with
      | nil => simp [chk] at h
      | cons m σ =>
        simp only [List.cons_append, chk] at h ⊢
        split at h
        · rename_i hv; rw [if_pos hv]; exact ih σ h
        · simp at h
    | selfClose n at_ => simp only [chk] at h ⊢; exact ih σ h
    | comment => simp only [chk] at h ⊢; exact ih σ h
    | bad => simp [chk] at h

/-- a token list that takes the empty stack to the empty stack leaves every stack as it was -/
theorem chk_balanced (ts : List Tok) (h : chk [] ts = some []) (σ : List Str) : chk σ ts = some σ := by
  have := chk_frame [] [] σ ts h
  simpa using this

/-! ### encoders -/

theorem mem_escWith {tbl : List (UInt8 × Str)} {s : Str} {b : UInt8} (h : b ∈ escWith tbl s) :
    ∃ x ∈ s, b ∈ escByte tbl x := by
  simpa [escWith, List.mem_flatMap] using h

theorem mem_replaceGo (old new : Str) (k : Nat) (s : Str) (b : UInt8)
    (h : b ∈ replaceGo old new k s) : b ∈ s ∨ b ∈ new := by
  induction s generalizing k with
  | nil => simp [replaceGo] at h
  | cons x xs ih =>
    cases k with
    | succ k => simp only [replaceGo] at h; rcases ih k h with h | h <;> simp [h]
    | zero =>
      simp only [replaceGo] at h
      split at h
      · rcases List.mem_append.mp h with h | h
        · exact Or.inr h
        · rcases ih _ h with h | h <;> simp [h]
      · rcases List.mem_cons.mp h with h | h
        · simp [h]
        · rcases ih _ h with h | h <;> simp [h]

theorem mem_replaceAll (old new s : Str) (b : UInt8) (h : b ∈ replaceAll old new s) :
    b ∈ s ∨ b ∈ new := by
  unfold replaceAll at h
  split at h
  · exact Or.inl h
  · exact mem_replaceGo old new 0 s b h

/-- the bytes no encoder may let through: `<`, `>` and `"` -/
def hot (b : UInt8) : Bool := b == 60 || b == 62 || b == 34

/-- the bytes that must not come out of an encoder for content and quoted attributes -/
def hot4 (b : UInt8) : Bool := hot b || b == 39

/-- decidable condition on an encoder table: no replacement text contains a byte of `bad`, and
    every byte of `bad` has a replacement -/
def tableSafe (bad : List UInt8) (tbl : List (UInt8 × Str)) : Bool :=
  tbl.all (fun e => e.2.all (fun b => !bad.contains b)) && bad.all (fun h => (tbl.lookup h).isSome)

theorem lookup_mem {tbl : List (UInt8 × Str)} {x : UInt8} {e : Str} (h : tbl.lookup x = some e) :
    (x, e) ∈ tbl := by
  induction tbl with
  | nil => simp [List.lookup] at h
  | cons kv rest ih =>
    obtain ⟨k, v⟩ := kv
    simp only [List.lookup] at h
    split at h
    · rename_i heq; simp at heq h; simp [heq, h]
    · exact List.mem_cons_of_mem _ (ih h)

theorem escByte_safe (bad : List UInt8) (tbl : List (UInt8 × Str)) (hs : tableSafe bad tbl = true)
    (x b : UInt8) (h : b ∈ escByte tbl x) : b ∉ bad := by
  unfold tableSafe at hs
  simp only [Bool.and_eq_true, List.all_eq_true] at hs
  obtain ⟨h1, h2⟩ := hs
  unfold escByte at h
  split at h
  · rename_i e he
    have := h1 _ (lookup_mem he) b h
    simpa using this
  · rename_i hn
    simp at h; subst h
    intro hb
    have := h2 b hb
    simp [hn] at this

theorem textTable_safe : tableSafe [60, 62, 34, 39] Generated.textEscTable = true := by decide
theorem headTable_safe : tableSafe [60, 62, 34, 39] Generated.headEscTable = true := by decide
theorem anchorTable_safe : tableSafe [60, 62, 34, 39] Generated.anchorEscTable = true := by decide
theorem attrTable_safe : tableSafe [60, 62, 34] Generated.attrEscTable = true := by decide

theorem not_mem4 {b : UInt8} (h : b ∉ ([60, 62, 34, 39] : List UInt8)) : hot b = false ∧ b ≠ 39 := by
  simp at h; simp [hot, h]

theorem not_mem3 {b : UInt8} (h : b ∉ ([60, 62, 34] : List UInt8)) : hot b = false := by
  simp at h; simp [hot, h]

theorem escByte_text_safe (x b : UInt8) (h : b ∈ escByte Generated.textEscTable x) :
    hot b = false ∧ b ≠ 39 := not_mem4 (escByte_safe _ _ textTable_safe x b h)
theorem escByte_head_safe (x b : UInt8) (h : b ∈ escByte Generated.headEscTable x) :
    hot b = false ∧ b ≠ 39 := not_mem4 (escByte_safe _ _ headTable_safe x b h)
theorem escByte_anchor_safe (x b : UInt8) (h : b ∈ escByte Generated.anchorEscTable x) :
    hot b = false ∧ b ≠ 39 := not_mem4 (escByte_safe _ _ anchorTable_safe x b h)
theorem escByte_attr_safe (x b : UInt8) (h : b ∈ escByte Generated.attrEscTable x) :
    hot b = false := not_mem3 (escByte_safe _ _ attrTable_safe x b h)

theorem renderText_safe (s : Str) (b : UInt8) (h : b ∈ renderText s) : hot b = false ∧ b ≠ 39 := by
  unfold renderText at h
  rcases mem_replaceAll _ _ _ _ h with h | h
  · obtain ⟨x, _, hx⟩ := mem_escWith h
    exact escByte_text_safe x b hx
  · revert h; unfold Generated.textReplaceAfter; simp
    intro h; rcases h with h | h | h | h | h | h <;> subst h <;> decide

/-- no encoder lets `<`, `>` or `"` through -/
theorem encode_safe (e : Enc) (v : Str) (b : UInt8) (h : b ∈ encode e v) : hot b = false := by
  cases e with
  | text => exact (renderText_safe v b h).1
  | head => obtain ⟨x, _, hx⟩ := mem_escWith h; exact (escByte_head_safe x b hx).1
  | anchor => obtain ⟨x, _, hx⟩ := mem_escWith h; exact (escByte_anchor_safe x b hx).1
  | attr => obtain ⟨x, _, hx⟩ := mem_escWith h; exact escByte_attr_safe x b hx

theorem hot_ne {b : UInt8} (h : hot b = false) : b ≠ 60 ∧ b ≠ 62 ∧ b ≠ 34 := by
  unfold hot at h
  simp at h
  exact ⟨h.1.1, h.1.2, h.2⟩

/-! ### abstract run over pieces -/

theorem runPieces_sound (st st' : LState) (ps : List Piece) (ts : List Tok)
    (h : runPieces st ps = some (st', ts)) : lexRun st (flat ps) = (st', ts) := by
  induction ps generalizing st ts with
  | nil => simp [runPieces] at h; simp [flat, lexRun, h]
  | cons p ps ih =>
    cases p with
    | lit s =>
      simp only [runPieces] at h
      split at h
      · rename_i st2 t2 h2
        simp at h
        obtain ⟨hst, hts⟩ := h
        subst hst hts
        have := ih _ _ h2
        simp only [flat, List.flatMap_cons, Piece.bytes] at this ⊢
        rw [lexRun_append, this]
      · simp at h
    | data e v =>
      simp only [runPieces] at h
      split at h
      · rename_i hok
        have ih' := ih _ _ h
        simp only [flat, List.flatMap_cons, Piece.bytes] at ih' ⊢
        rw [lexRun_append]
        cases st with
        | data =>
          rw [lexRun_data_stay _ (fun b hb => (hot_ne (encode_safe e v b hb)).1)]
          simp [ih']
        | quoted c q =>
          have hq : q = 34 := by simpa [dataOk] using hok
          subst hq
          rw [lexRun_quoted_stay _ _ _ (fun b hb => (hot_ne (encode_safe e v b hb)).2.2)]
          simp [ih']
        | rawText et m =>
          have hm : m = 0 ∧ et.head? = some 60 := by simpa [dataOk] using hok
          obtain ⟨hm0, hhead⟩ := hm
          subst hm0
          rw [lexRun_rawText_stay _ _ hhead (fun b hb => (hot_ne (encode_safe e v b hb)).1)]
          simp [ih']
        | _ => simp [dataOk] at hok
      · simp at h

theorem runPieces_append (st : LState) (p q : List Piece) :
    runPieces st (p ++ q) =
      match runPieces st p with
      | some (st1, t1) =>
        (match runPieces st1 q with
         | some (st2, t2) => some (st2, t1 ++ t2)
         | none => none)
      | none => none := by
  induction p generalizing st with
  | nil => simp [runPieces]; cases runPieces st q <;> simp
  | cons x xs ih =>
    cases x with
    | lit s =>
      simp only [List.cons_append, runPieces, ih]
      cases h1 : runPieces (lexRun st s).1 xs with
      | none => simp
      | some r =>
        obtain ⟨st1, t1⟩ := r
        simp only []
        cases h2 : runPieces st1 q with
        | none => simp
        | some r2 => obtain ⟨st2, t2⟩ := r2; simp [List.append_assoc]
    | data e v =>
      simp only [List.cons_append, runPieces]
      split
      · exact ih st
      · simp

/-- a fragment that starts and ends in element content and leaves every element stack as it was -/
def Balanced (ps : List Piece) : Prop :=
  ∃ ts, runPieces .data ps = some (.data, ts) ∧ ∀ σ, chk σ ts = some σ

theorem Balanced.nil : Balanced [] := ⟨[], by simp [runPieces], by simp [chk]⟩

theorem Balanced.append {p q : List Piece} (hp : Balanced p) (hq : Balanced q) : Balanced (p ++ q) := by
  obtain ⟨t1, h1, c1⟩ := hp
  obtain ⟨t2, h2, c2⟩ := hq
  refine ⟨t1 ++ t2, ?_, ?_⟩
  · rw [runPieces_append, h1]; simp [h2]
  · intro σ; rw [chk_append, c1 σ]; simp [c2 σ]

theorem Balanced.data (e : Enc) (v : Str) : Balanced [.data e v] :=
  ⟨[], by simp [runPieces, dataOk], by simp [chk]⟩

theorem Balanced.of_leafOk {ps : List Piece} (h : leafOk ps = true) : Balanced ps := by
  unfold leafOk at h
  split at h
  · rename_i ts hr
    refine ⟨ts, hr, ?_⟩
    have : chk [] ts = some [] := by simpa using h
    exact chk_balanced ts this
  · simp at h

theorem Balanced.wrap {pre post mid : List Piece} (h : wrapOk pre post = true) (hm : Balanced mid) :
    Balanced (pre ++ mid ++ post) := by
  unfold wrapOk at h
  split at h
  · rename_i t1 t2 h1 h2
    split at h
    · rename_i ρ hρ
      have h3 : chk ρ t2 = some [] := by simpa using h
      obtain ⟨tm, hm1, hm2⟩ := hm
      refine ⟨t1 ++ tm ++ t2, ?_, ?_⟩
      · rw [runPieces_append, runPieces_append, h1]; simp [hm1, h2]
      · intro σ
        have e1 := chk_frame [] ρ σ t1 hρ
        have e3 := chk_frame ρ [] σ t2 h3
        simp at e1 e3
        rw [chk_append, chk_append, e1]; simp [hm2, e3]
    · simp at h
  · simp at h

/-! ### data values are never looked at -/

def eraseP : Piece → Piece
  | .lit s => .lit s
  | .data e _ => .data e []

theorem runPieces_erase (st : LState) (ps : List Piece) :
    runPieces st (ps.map eraseP) = runPieces st ps := by
  induction ps generalizing st with
  | nil => rfl
  | cons p ps ih =>
    cases p with
    | lit s => simp only [List.map_cons, eraseP, runPieces, ih]
    | data e v => simp only [List.map_cons, eraseP, runPieces, ih]

theorem leafOk_erase (ps : List Piece) : leafOk (ps.map eraseP) = leafOk ps := by
  simp only [leafOk, runPieces_erase]

theorem wrapOk_erase (p q : List Piece) : wrapOk (p.map eraseP) (q.map eraseP) = wrapOk p q := by
  simp only [wrapOk, runPieces_erase]

theorem leafOk_congr {p q : List Piece} (h : p.map eraseP = q.map eraseP) : leafOk p = leafOk q := by
  rw [← leafOk_erase p, h, leafOk_erase]

theorem wrapOk_congr {p q p' q' : List Piece} (h : p.map eraseP = p'.map eraseP)
    (h' : q.map eraseP = q'.map eraseP) : wrapOk p q = wrapOk p' q' := by
  rw [← wrapOk_erase p q, h, h', wrapOk_erase]

theorem fmtPieces_erase (f : Str) (args : List Piece) :
    (fmtPieces f args).map eraseP = (fmtPieces f (args.map eraseP)).map eraseP := by
  induction f, args using fmtPieces.induct with
  | case1 args => simp [fmtPieces]
  | case2 b args => simp [fmtPieces]
  | case3 b c t args hb hc ih => simp [fmtPieces, hb, hc, ih]
  | case4 b c t hb hc a rest ih =>
    simp [fmtPieces, hb, hc]
    refine ⟨?_, ih⟩
    cases a <;> simp [eraseP]
  | case5 b c t hb hc ih => simp [fmtPieces, hb, hc]
  | case6 b c t args hb ih => simp [fmtPieces, hb, ih]

theorem attrs_erase (a : List (Str × Str)) :
    (a.flatMap attrPieces).map eraseP = ((a.map fun kv => (kv.1, ([] : Str))).flatMap attrPieces).map eraseP := by
  induction a with
  | nil => rfl
  | cons kv rest ih =>
    simp only [List.flatMap_cons, List.map_append, List.map_cons, ih]
    simp [attrPieces, eraseP, lit]

theorem tagOpen_erase (n : Str) (a : List (Str × Str)) :
    (tagOpen n a).map eraseP = (tagOpen n (a.map fun kv => (kv.1, ([] : Str)))).map eraseP := by
  simp only [tagOpen, List.map_append, attrs_erase a]

theorem head_erase (cols : List Str) :
    (headPieces cols).map eraseP = (headPieces (cols.map fun _ => ([] : Str))).map eraseP := by
  simp only [headPieces, List.map_append]
  congr 2
  induction cols with
  | nil => rfl
  | cons c cs ih =>
    simp only [List.flatMap_cons, List.map_cons, List.map_append, ih]
    rw [fmtPieces_erase]; conv => rhs; rw [fmtPieces_erase]
    simp [eraseP]

theorem pre_erase (c : Comp) : c.pre.map eraseP = (shape c).pre.map eraseP := by
  cases c <;> simp only [shape, Comp.pre]
  · exact tagOpen_erase _ _
  · simp [List.map_append, eraseP]

theorem post_erase (c : Comp) : c.post.map eraseP = (shape c).post.map eraseP := by
  cases c <;> rfl

theorem pieces_erase (c : Comp) : (pieces c).map eraseP = (pieces (shape c)).map eraseP := by
  induction c with
  | nil => rfl
  | seq a b iha ihb => simp only [pieces, shape, List.map_append, iha, ihb]
  | text s => rfl
  | raw s => rfl
  | anchor n =>
    simp only [pieces, shape]
    rw [fmtPieces_erase]; conv => rhs; rw [fmtPieces_erase]
    simp [eraseP]
  | tableHead cols => simp only [pieces, shape]; exact head_erase cols
  | number n => rfl
  | ga id => rfl
  | tag n a b ih =>
    simp only [pieces, shape, List.map_append, ih]
    rw [pre_erase (.tag n a b), post_erase (.tag n a b)]; rfl
  | tableCell h c w s b ih =>
    simp only [pieces, shape, List.map_append, ih]
    rw [pre_erase (.tableCell h c w s b), post_erase (.tableCell h c w s b)]; rfl
  | table c b ih =>
    simp only [pieces, shape, List.map_append, ih]
    rw [pre_erase (.table c b), post_erase (.table c b)]; rfl
  | tableRow b ih =>
    simp only [pieces, shape, List.map_append, ih]
    rw [pre_erase (.tableRow b), post_erase (.tableRow b)]; rfl
  | row b ih =>
    simp only [pieces, shape, List.map_append, ih]
    rw [pre_erase (.row b), post_erase (.row b)]; rfl
  | page t g b f ihb ihf =>
    simp only [pieces, shape, List.map_append, ihb, ihf]
    rw [pre_erase (.page t g b f), post_erase (.page t g b f)]; rfl

/-! ### the induction over the component algebra -/

theorem balanced_of_trusted (c : Comp) (h : trusted c = true) : Balanced (pieces c) := by
  induction c with
  | nil => exact Balanced.nil
  | seq a b iha ihb =>
    simp only [trusted, Bool.and_eq_true] at h
    exact Balanced.append (iha h.1) (ihb h.2)
  | text s => exact Balanced.data _ _
  | raw s => exact Balanced.of_leafOk h
  | anchor n => exact Balanced.of_leafOk h
  | tableHead cols => exact Balanced.of_leafOk h
  | number n => exact Balanced.of_leafOk h
  | ga id => exact Balanced.of_leafOk h
  | tag n a b ih =>
    simp only [trusted, Bool.and_eq_true] at h
    exact Balanced.wrap h.1 (ih h.2)
  | tableCell hd c w s b ih =>
    simp only [trusted, Bool.and_eq_true] at h
    exact Balanced.wrap h.1 (ih h.2)
  | table c b ih =>
    simp only [trusted, Bool.and_eq_true] at h
    exact Balanced.wrap h.1 (ih h.2)
  | tableRow b ih =>
    simp only [trusted, Bool.and_eq_true] at h
    exact Balanced.wrap h.1 (ih h.2)
  | row b ih =>
    simp only [trusted, Bool.and_eq_true] at h
    exact Balanced.wrap h.1 (ih h.2)
  | page t g b f ihb ihf =>
    simp only [trusted, Bool.and_eq_true] at h
    have := Balanced.wrap h.1.1 (Balanced.append (ihb h.1.2) (ihf h.2))
    simpa [pieces, List.append_assoc] using this

/-! ### escaping: explicit table, cancellation, the `&` language; numbers; fixed tags -/

/-- the five entities of `html.EscapeString` -/
def entities : List Str :=
  [[38, 35, 51, 52, 59], [38, 97, 109, 112, 59], [38, 35, 51, 57, 59], [38, 108, 116, 59], [38, 103, 116, 59]]

/-- strings made of plain bytes (none of `& < > " '`) and entities from `ents` -/
inductive EscapedWith (ents : List Str) : Str → Prop
  | nil : EscapedWith ents []
  | plain (b : UInt8) (rest : Str) : b ≠ 38 → b ≠ 60 → b ≠ 62 → b ≠ 34 → b ≠ 39 →
      EscapedWith ents rest → EscapedWith ents (b :: rest)
  | entity (e rest : Str) : e ∈ ents → EscapedWith ents rest → EscapedWith ents (e ++ rest)

/-- the output language of `html.EscapeString`: plain bytes and the five entities -/
abbrev Escaped : Str → Prop := EscapedWith entities

/-- the regenerated table of `html.EscapeString`, as a function -/
theorem escByte_head_eq (x : UInt8) : escByte Generated.headEscTable x =
    if x = 34 then [38, 35, 51, 52, 59] else if x = 38 then [38, 97, 109, 112, 59]
    else if x = 39 then [38, 35, 51, 57, 59] else if x = 60 then [38, 108, 116, 59]
    else if x = 62 then [38, 103, 116, 59] else [x] := by
  unfold escByte Generated.headEscTable
  simp only [List.lookup]
  by_cases h1 : x = 34
  · subst h1; rfl
  by_cases h2 : x = 38
  · subst h2; rfl
  by_cases h3 : x = 39
  · subst h3; rfl
  by_cases h4 : x = 60
  · subst h4; rfl
  by_cases h5 : x = 62
  · subst h5; rfl
  have e1 : (x == 34) = false := by simpa using h1
  have e2 : (x == 38) = false := by simpa using h2
  have e3 : (x == 39) = false := by simpa using h3
  have e4 : (x == 60) = false := by simpa using h4
  have e5 : (x == 62) = false := by simpa using h5
  simp only [e1, e2, e3, e4, e5, h1, h2, h3, h4, h5, if_false]

theorem escapeString_cons (x : UInt8) (xs : Str) :
    escapeString (x :: xs) = escByte Generated.headEscTable x ++ escapeString xs := by
  simp [escapeString, escWith]

theorem escByte_head_ne_nil (x : UInt8) : escByte Generated.headEscTable x ≠ [] := by
  rw [escByte_head_eq]; repeat' split
  all_goals simp

theorem special_cases (x : UInt8) :
    x = 34 ∨ x = 38 ∨ x = 39 ∨ x = 60 ∨ x = 62 ∨ (x ≠ 34 ∧ x ≠ 38 ∧ x ≠ 39 ∧ x ≠ 60 ∧ x ≠ 62) := by
  by_cases h1 : x = 34 <;> by_cases h2 : x = 38 <;> by_cases h3 : x = 39 <;> by_cases h4 : x = 60 <;>
    by_cases h5 : x = 62 <;> simp_all

/-- one escaped byte determines the byte and the rest -/
theorem escByte_cancel (x y : UInt8) (r1 r2 : Str)
    (h : escByte Generated.headEscTable x ++ r1 = escByte Generated.headEscTable y ++ r2) :
    x = y ∧ r1 = r2 := by
  rw [escByte_head_eq, escByte_head_eq] at h
  rcases special_cases x with hx | hx | hx | hx | hx | ⟨x1, x2, x3, x4, x5⟩ <;>
  rcases special_cases y with hy | hy | hy | hy | hy | ⟨y1, y2, y3, y4, y5⟩ <;>
  simp_all

theorem EscapedWith.mono {e1 e2 : List Str} (hs : ∀ e ∈ e1, e ∈ e2) {s : Str} (h : EscapedWith e1 s) :
    EscapedWith e2 s := by
  induction h with
  | nil => exact .nil
  | plain b rest h1 h2 h3 h4 h5 _ ih => exact .plain b rest h1 h2 h3 h4 h5 ih
  | entity e rest he _ ih => exact .entity e rest (hs e he) ih

/-- a leading byte other than `&` is a plain byte: the rest is again in the language -/
theorem EscapedWith.tail {ents : List Str} (hents : ∀ e ∈ ents, ∃ t, e = 38 :: t) {x : UInt8} {r : Str}
    (h : EscapedWith ents (x :: r)) (hx : x ≠ 38) : EscapedWith ents r := by
  generalize hs : x :: r = s at h
  cases h with
  | nil => simp at hs
  | plain b rest _ _ _ _ _ hr => simp at hs; rw [hs.2]; exact hr
  | entity e rest he hr =>
    obtain ⟨t, rfl⟩ := hents e he
    simp at hs; exact absurd hs.1 hx

theorem EscapedWith.drop {ents : List Str} (hents : ∀ e ∈ ents, ∃ t, e = 38 :: t) (d : Str) {r : Str}
    (hd : ∀ b ∈ d, b ≠ 38) (h : EscapedWith ents (d ++ r)) : EscapedWith ents r := by
  induction d with
  | nil => exact h
  | cons x xs ih =>
    exact ih (fun b hb => hd b (by simp [hb])) (EscapedWith.tail hents h (hd x (by simp)))

theorem isPrefix_split (o s : Str) (h : isPrefix o s = true) : ∃ r, s = o ++ r := by
  induction o generalizing s with
  | nil => exact ⟨s, rfl⟩
  | cons a as ih =>
    cases s with
    | nil => simp [isPrefix] at h
    | cons b bs =>
      simp [isPrefix] at h
      obtain ⟨r, hr⟩ := ih bs h.2
      exact ⟨r, by simp [h.1, hr]⟩

theorem replaceGo_skip (o n : Str) (d r : Str) : replaceGo o n d.length (d ++ r) = replaceGo o n 0 r := by
  induction d with
  | nil => rfl
  | cons x xs ih => simp [replaceGo, ih]

theorem replaceGo_copy (o n : Str) (a : UInt8) (as : Str) (p r : Str) (ho : o = a :: as)
    (hp : ∀ b ∈ p, b ≠ a) : replaceGo o n 0 (p ++ r) = p ++ replaceGo o n 0 r := by
  induction p with
  | nil => rfl
  | cons x xs ih =>
    have hx : x ≠ a := hp x (by simp)
    have : isPrefix o (x :: (xs ++ r)) = false := by
      subst ho; simp [isPrefix]; intro h; exact absurd h.symm hx
    simp only [List.cons_append, replaceGo, this]
    simp [ih (fun b hb => hp b (by simp [hb]))]

/-- the entities after `core.Text`: the five of `html.EscapeString` and `&nbsp;` -/
def textEntities : List Str := Generated.textReplaceAfter.2 :: entities

theorem marker_facts :
    Generated.textReplaceAfter.1 = 126 :: [126, 115, 112, 97, 99, 101, 126, 126]
    ∧ (∀ b ∈ Generated.textReplaceAfter.1, b ≠ 38)
    ∧ (∀ e ∈ entities, ∀ b ∈ e, b ≠ 126)
    ∧ (∀ e ∈ entities, ∃ t, e = 38 :: t)
    ∧ Generated.textEscTable = Generated.headEscTable := by
  refine ⟨rfl, by decide, by decide, ?_, by decide⟩
  intro e he
  simp [entities] at he
  rcases he with h | h | h | h | h <;> exact ⟨_, h⟩

theorem replace_marker_escaped (n : Nat) (e : Str) (hn : e.length ≤ n) (h : Escaped e) :
    EscapedWith textEntities
      (replaceGo Generated.textReplaceAfter.1 Generated.textReplaceAfter.2 0 e) := by
  obtain ⟨ho, hamp, htilde, hent, _⟩ := marker_facts
  induction n generalizing e with
  | zero =>
    have : e = [] := List.eq_nil_of_length_eq_zero (by omega)
    subst this; exact .nil
  | succ n ih =>
    cases h with
    | nil => exact .nil
    | plain b rest h1 h2 h3 h4 h5 hr =>
      simp only [replaceGo]
      split
      · rename_i hp
        obtain ⟨r, hr'⟩ := isPrefix_split _ _ hp
        have hE : Escaped r := by
          have : Escaped (Generated.textReplaceAfter.1 ++ r) := hr' ▸ (.plain b rest h1 h2 h3 h4 h5 hr)
          exact EscapedWith.drop hent _ hamp this
        have hrest : rest = [126, 115, 112, 97, 99, 101, 126, 126] ++ r := by
          rw [ho] at hr'; simp at hr'; exact hr'.2
        have hlen : Generated.textReplaceAfter.1.length - 1 = ([126, 115, 112, 97, 99, 101, 126, 126] : Str).length := by
          rw [ho]; rfl
        rw [hrest, hlen, replaceGo_skip]
        refine .entity _ _ (by simp [textEntities]) (ih r ?_ hE)
        rw [hrest] at hn; simp at hn ⊢; omega
      · exact .plain b _ h1 h2 h3 h4 h5 (ih rest (by simp at hn; omega) hr)
    | entity ent rest he hr =>
      rw [replaceGo_copy _ _ 126 _ ent rest ho (htilde ent he)]
      refine .entity ent _ (by simp [textEntities, he]) (ih rest ?_ hr)
      obtain ⟨t, rfl⟩ := hent ent he
      simp at hn ⊢; omega

theorem headCell_balanced (c : Str) : Balanced (fmtPieces Generated.headCellFmt [.data .head c]) := by
  apply Balanced.of_leafOk
  have : (fmtPieces Generated.headCellFmt [.data .head c]).map eraseP
       = (fmtPieces Generated.headCellFmt [.data .head []]).map eraseP := by
    rw [fmtPieces_erase]; conv => rhs; rw [fmtPieces_erase]
    simp [eraseP]
  rw [leafOk_congr this]
  decide +kernel

theorem natToDecF_digits (f n : Nat) : ∀ b ∈ natToDecF f n, b ≠ 60 := by
  have hd : ∀ d, d < 10 → digitChar d ≠ 60 := by decide
  induction f generalizing n with
  | zero => simp [natToDecF]
  | succ f ih =>
    unfold natToDecF
    split
    · rename_i h10; intro b hb; simp at hb; subst hb; exact hd n h10
    · intro b hb
      rcases List.mem_append.mp hb with hb | hb
      · exact ih _ b hb
      · simp at hb; subst hb; exact hd _ (Nat.mod_lt _ (by omega))

theorem groupRev_mem (l : Str) : ∀ b ∈ groupRev l, b ∈ l ∨ b = 44 := by
  induction l using groupRev.induct with
  | case1 a b c d t ih =>
    intro x hx
    simp only [groupRev, List.mem_cons] at hx
    rcases hx with hx | hx | hx | hx | hx
    · simp [hx]
    · simp [hx]
    · simp [hx]
    · exact Or.inr hx
    · rcases ih x hx with h | h
      · left; simp only [List.mem_cons] at h ⊢; rcases h with h | h <;> simp [h]
      · exact Or.inr h
  | case2 l h =>
    intro x hx
    rw [groupRev] at hx
    · exact Or.inl hx
    · intro a b c d t heq; exact h a b c d t heq

theorem tag0_ok (n : Str) (b : Comp) (h : wrapOk (tagOpen n []) (tagClose n) = true) :
    trusted (.tag n [] b) = trusted b := by
  have : wrapOk (Comp.pre (.tag n [] b)) (Comp.post (.tag n [] b)) = true := h
  simp [trusted, this]

theorem tag1_ok (n k v : Str) (b : Comp) (h : wrapOk (tagOpen n [(k, [])]) (tagClose n) = true) :
    trusted (.tag n [(k, v)] b) = trusted b := by
  have : wrapOk (Comp.pre (.tag n [(k, v)] b)) (Comp.post (.tag n [(k, v)] b)) = true := by
    rw [← h]
    apply wrapOk_congr
    · show (tagOpen n [(k, v)]).map eraseP = (tagOpen n [(k, [])]).map eraseP
      rw [tagOpen_erase]; rfl
    · rfl
  simp [trusted, this]

theorem tag2_ok (n k1 v1 k2 v2 : Str) (b : Comp)
    (h : wrapOk (tagOpen n [(k1, []), (k2, [])]) (tagClose n) = true) :
    trusted (.tag n [(k1, v1), (k2, v2)] b) = trusted b := by
  have : wrapOk (Comp.pre (.tag n [(k1, v1), (k2, v2)] b)) (Comp.post (.tag n [(k1, v1), (k2, v2)] b)) = true := by
    rw [← h]
    apply wrapOk_congr
    · show (tagOpen n [(k1, v1), (k2, v2)]).map eraseP = (tagOpen n [(k1, []), (k2, [])]).map eraseP
      rw [tagOpen_erase]; rfl
    · rfl
  simp [trusted, this]

end Gedcom.Html
