/-
  `Filter` with a tag filter into another document (Gedcom/Model/CopyDoc.lean, round 4): the
  result is the source without the subtrees of rejected tags, built from new objects only; the
  destination gains at most one empty FAM record; `DeepCopy`'s walk is the keep-everything case.
-/
import Gedcom.Lemmas.DocSt
namespace Gedcom

mutual
theorem filterTree_spec (keep : Str → Bool) (next : Nat) (t : INode) :
    match filterTree keep next t with
    | none => pruneNode keep t.erase = none
    | some r => pruneNode keep t.erase = some r.1.erase ∧ next < r.2.1 ∧
        (∀ i ∈ r.1.ids, next ≤ i ∧ i < r.2.1) ∧ (∀ w ∈ r.2.2, next ≤ w ∧ w < r.2.1) := by
  match t with
  | .mk i tg v p ks =>
    have h := filterKids_spec keep (next + 1) next ks
    simp only [filterTree, INode.erase, pruneNode]
    cases hk : keep tg
    · simp
    · simp only [if_true]
      refine ⟨by simp only [INode.erase]; rw [h.1], by omega, ?_, ?_⟩
      · intro j hj
        simp only [INode.ids] at hj
        rcases List.mem_cons.mp hj with rfl | hj
        · omega
        · have := h.2.2.1 j hj; omega
      · intro w hw
        rcases h.2.2.2 w hw with h' | h' <;> omega
theorem filterKids_spec (keep : Str → Bool) (next parent : Nat) (ks : List INode) :
    pruneList keep (eraseList ks) = eraseList (filterKids keep next parent ks).1 ∧
    next ≤ (filterKids keep next parent ks).2.1 ∧
    (∀ i ∈ idsList (filterKids keep next parent ks).1,
      next ≤ i ∧ i < (filterKids keep next parent ks).2.1) ∧
    (∀ w ∈ (filterKids keep next parent ks).2.2,
      (next ≤ w ∧ w < (filterKids keep next parent ks).2.1) ∨ w = parent) := by
  match ks with
  | [] => simp [filterKids, eraseList, pruneList, idsList]
  | k :: ks =>
    have h1 := filterTree_spec keep next k
    simp only [filterKids, eraseList, pruneList]
    cases hf : filterTree keep next k with
    | none =>
      rw [hf] at h1
      simp only at h1
      rw [h1]
      exact filterKids_spec keep next parent ks
    | some a =>
      rw [hf] at h1
      simp only at h1
      have h2 := filterKids_spec keep a.2.1 parent ks
      rw [h1.1]
      simp only [eraseList, idsList]
      refine ⟨by rw [h2.1], by omega, ?_, ?_⟩
      · intro j hj
        rcases List.mem_append.mp hj with hj | hj
        · have := h1.2.2.1 j hj; omega
        · have := h2.2.2.1 j hj; omega
      · intro w hw
        rcases List.mem_append.mp hw with hw | hw
        · have := h1.2.2.2 w hw; left; omega
        · rcases List.mem_cons.mp hw with rfl | hw
          · right; rfl
          · rcases h2.2.2.2 w hw with h | h
            · left; omega
            · right; exact h
end

mutual
/-- the walk of `DeepCopy` is the walk of `Filter` that keeps every tag -/
theorem filterTree_all (next : Nat) (t : INode) :
    filterTree (fun _ => true) next t = some (copyTree next t) := by
  match t with
  | .mk i tg v p ks => simp only [filterTree, copyTree, if_true, filterKids_all]
theorem filterKids_all (next parent : Nat) (ks : List INode) :
    filterKids (fun _ => true) next parent ks = copyKids next parent ks := by
  match ks with
  | [] => rfl
  | k :: ks => simp only [filterKids, copyKids, filterTree_all, filterKids_all]
end

/-- FULL.  `Filter(t, dst, Whitelist/BlacklistTagFilter)` that returns a node: the result has the
    value of the source without the subtrees of rejected tags, consists of new objects only, the
    walk writes only to them; the destination keeps its records (same objects, same order) and
    gains exactly one new empty FAM record when the result contains a role node, nothing otherwise;
    its pointer index and families cache stay coherent. -/
theorem filter_effect (ctx : Option (Nat × Str)) (dst d' : DocSt) (next : Nat)
    (keep : Str → Bool) (t : INode) (r : CopyDocResult)
    (h : filterIntoDoc ctx dst next keep t = (.ok r, d')) :
    pruneNode keep t.erase = some r.copy.erase ∧
    (∀ i ∈ r.copy.ids, next ≤ i ∧ i < r.next) ∧ (∀ i ∈ r.writes, next ≤ i ∧ i < r.next) ∧
    r.doc = d'.nodes ∧
    (∃ added, d'.nodes = dst.nodes ++ added ∧ added.length = r.famAdds.length ∧
      (added = [] ↔ roleIds r.copy = []) ∧ added.length ≤ 1 ∧
      ∀ x ∈ added, x.tag = tagFAM ∧ x.value = [] ∧ x.kids = [] ∧ next ≤ x.id ∧ x.id < r.next ∧
        x.id ∉ r.copy.ids) ∧
    (dst.coherent → d'.coherent) ∧ next < r.next := by
  unfold filterIntoDoc at h
  have sp := filterTree_spec keep next t
  split at h
  · cases h
  · rename_i c nx wr hf
    rw [hf] at sp
    simp only at sp
    obtain ⟨s1, s2, s3, s4⟩ := sp
    split at h
    · rename_i hr
      injection h with h1 h2
      injection h1 with h1
      subst h1 h2
      refine ⟨s1, s3, s4, rfl, ⟨[], by simp, rfl, ?_, by simp, by simp⟩, fun hc => hc, s2⟩
      simp only [true_iff]
      exact List.isEmpty_iff.mp hr
    · rename_i hr
      split at h
      · cases h
      · rename_i fi p
        injection h with h1 h2
        injection h1 with h1
        subst h1 h2
        obtain ⟨a1, a2⟩ := addFamilies_spec dst nx [p]
        have hn : (newFams nx [p]) = ([.mk nx tagFAM [] p []], nx + 1) := rfl
        rw [hn] at a1 a2
        simp only at a1 a2
        refine ⟨s1, ?_, ?_, rfl, ⟨[.mk nx tagFAM [] p []], a1, rfl, ?_, by simp, ?_⟩, ?_, by simp only [a2]; omega⟩
        · intro i hi; have := s3 i hi; simp only [a2]; omega
        · intro i hi; have := s4 i hi; simp only [a2]; omega
        · constructor
          · intro h'; cases h'
          · intro h'; simp only at h'; rw [h'] at hr; simp at hr
        · intro x hx
          simp only [List.mem_singleton] at hx
          subst hx
          simp only [a2]
          refine ⟨rfl, rfl, rfl, by simp only [INode.id]; omega, by simp [INode.id], ?_⟩
          intro hm
          have := s3 _ hm
          simp only [INode.id] at this
          omega
        · intro hc
          exact addFamilies_coherent dst nx [p] hc

/-- FULL.  `Filter` returns nil exactly when the root's tag is rejected, and then nothing changes. -/
theorem filter_nil (ctx : Option (Nat × Str)) (dst d' : DocSt) (next : Nat)
    (keep : Str → Bool) (t : INode) (h : filterIntoDoc ctx dst next keep t = (.nil, d')) :
    d' = dst ∧ pruneNode keep t.erase = none ∧ keep t.tag = false := by
  unfold filterIntoDoc at h
  have sp := filterTree_spec keep next t
  split at h
  · rename_i hf
    rw [hf] at sp
    injection h with _ h2
    refine ⟨h2.symm, sp, ?_⟩
    cases t with
    | mk i tg v p ks =>
      simp only [filterTree] at hf
      cases hk : keep tg
      · simpa [INode.tag] using hk
      · simp [hk] at hf
  · split at h
    · cases h
    · split at h <;> cases h

mutual
theorem pruneNode_all (t : Node) : pruneNode (fun _ => true) t = some t := by
  match t with
  | .mk tg v p ks => simp only [pruneNode, if_true, pruneList_all]
theorem pruneList_all (ks : List Node) : pruneList (fun _ => true) ks = ks := by
  match ks with
  | [] => rfl
  | k :: ks => simp only [pruneList, pruneNode_all, pruneList_all]
end

end Gedcom
