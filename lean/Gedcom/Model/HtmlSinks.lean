/-
  C18 — which sink every page component feeds (regenerated call list, `Generated.Sinks`) against
  the raw sinks of the model.  Names are 53-bit FNV-1a hashes of the texts given in the comments
  (the generated file carries the same hashes with the same texts).
-/
import Gedcom.Generated.Sinks
namespace Gedcom.Html

/-- the string parameters of html/core that are written raw, as probed from the code -/
def rawCoreParams : List Nat := (Generated.coreStringParams.filter (·.2)).map (·.1)

/-- the raw sinks of the model (`Comp.raw`, tag and attribute *names*, `rawCellClass`,
    `rawCellStyle`, `rawTableClass`, `rawGaId`): everything else is behind an encoder -/
def expectedRawCoreParams : List Nat :=
  [8313910684142197,   -- NewGoogleAnalytics.0
   5906967804360310,   -- NewHTML.0
   6334374929873440,   -- NewPage.2 (Google Analytics id)
   8524488770191520,   -- NewTable.0 (class)
   425934847281417,    -- TableCell.Class.0
   5991806169087194,   -- TableCell.Style.0
   6217943819796479,   -- NewTag.0 (tag name)
   57797701063015]     -- NewTag.key (attribute name)

def isRawSink (s : Nat) : Bool := rawCoreParams.contains s || Generated.htmlRawHelperSinks.contains s

def isKnownSink (s : Nat) : Bool :=
  (Generated.coreStringParams.map (·.1)).contains s || Generated.htmlRawHelperSinks.contains s
  || Generated.nonPageStringSinks.contains s

/-- raw sinks that are fed by something other than a literal, each with the reason why that
    expression cannot carry text of a GEDCOM file.  A new such call (or a changed expression)
    is not on the list and breaks `raw_sinks_fed_by_literals`. -/
def rawSinkAllowList : List (Nat × String) :=
  [ -- the Google Analytics id is a command line option (-google-analytics-id), not file content
    (1189688416984547, "statistics_page.go NewPage.2(c.googleAnalyticsID): CLI option"),
    (3675077955997114, "individual_page.go NewPage.2(c.googleAnalyticsID): CLI option"),
    (5379308292452879, "diff_page.go NewPage.2(c.googleAnalyticsID): CLI option"),
    (5572683035207491, "place_page.go NewPage.2(c.googleAnalyticsID): CLI option"),
    (6125400417533014, "place_list_page.go NewPage.2(c.googleAnalyticsID): CLI option"),
    (6275455158730828, "source_page.go NewPage.2(c.googleAnalyticsID): CLI option"),
    (6378731013389979, "family_list_page.go NewPage.2(c.googleAnalyticsID): CLI option"),
    (6767803645464764, "individual_list_page.go NewPage.2(c.googleAnalyticsID): CLI option"),
    (7225264413927936, "surname_list_page.go NewPage.2(c.googleAnalyticsID): CLI option"),
    (7606743006559618, "source_list_page.go NewPage.2(c.googleAnalyticsID): CLI option"),
    -- ages are printed by gedcom.Age.String: `unknown`, `~ `, digits, `y`, `m`
    (3329749520862893, "age.go writeString(start): Age.String is digits/y/m/~/unknown"),
    (3526809394980887, "age.go writeSprintf(end): Age.String is digits/y/m/~/unknown"),
    (4476142220287931, "age.go writeSprintf(start): Age.String is digits/y/m/~/unknown"),
    -- the `unknown` HTML of a name: a struct field that only ever receives what the callers of the
    -- three constructors pass, and those call sites are on the regenerated list themselves
    -- (sinks html.NewIndividualName*.unknown): the constant UnknownEmphasis, "" or this field
    (5426496183084915, "individual_name.go writeString(c.unknownHTML): forwarded constructor argument"),
    (4516424847813394, "individual_name_and_dates.go NewIndividualName(…, c.unknownText): forwarded constructor argument"),
    (2090294763509834, "individual_name_and_dates_link.go NewIndividualNameAndDates(…, c.unknownText): forwarded constructor argument"),
    -- JSON fallback of the query formatter: encoding/json writes < > & as \\u003c \\u003e \\u0026 and the
    -- text stands in element content of <pre> (checked on every run by the page oracle; the mutant
    -- SetEscapeHTML(false) is caught there)
    (8785837656732291, "html_formatter.go fallbackFormatter.Write(result): encoding/json escapes < > &") ]

/-- a call is fine if its sink is known and, when the sink is raw and the argument is an expression
    (class 1), the call is on the allow-list -/
def sinkCallOk (c : Nat × Nat × Nat) : Bool :=
  (c.2.2 ≥ 2 || isKnownSink c.2.1)
  && (!isRawSink c.2.1 || c.2.2 != 1 || (rawSinkAllowList.map (·.1)).contains c.1)

end Gedcom.Html
