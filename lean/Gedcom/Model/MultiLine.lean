/-
  Multi-line values.  With `AllowMultiLine` the decoder appends every blank or unparsable line
  (and every HUSB/WIFE/CHIL line that comes before any family) to the value of the previous node,
  after a line feed.  The documents it returns can therefore hold values with line feeds in them;
  `Document.String()` writes such a value as it is, i.e. over several physical lines.
  `legalMLDocB` is the executable description of the documents for which that text reads back
  under `AllowMultiLine` (Props/C01 `decode_encode_multiline`); the driver answers `legalml`
  requests with it so that the harness can check the hypothesis on every document the real
  decoder returns.
-/
import Gedcom.Model.Decoder
namespace Gedcom.Dec
open Gedcom

/-- split a value at its line feeds: the part before the first one, and the following parts -/
def splitLF : Str → Str × List Str
  | [] => ([], [])
  | b :: r =>
    if b == LF then ([], (splitLF r).1 :: (splitLF r).2)
    else (b :: (splitLF r).1, (splitLF r).2)

/-- the continuation parts as they appear in the text: each after a line feed -/
def contBytes : List Str → Str
  | [] => []
  | seg :: more => LF :: seg ++ contBytes more

/-- would the decoder loop, with `AllowMultiLine` and `family != nil` iff `sf`, treat this line as a
    continuation of the previous node?  (`step`: blank, unparsable, or a role line before any
    family) -/
def contOKB (sf : Bool) (seg : Str) : Bool :=
  seg.isEmpty ||
    (match parseLine seg with
     | none => true
     | some l => isRoleTag l.tag && !sf)

/-- one node's own fields; `sf` = a family has been seen once this node's line is read -/
def legalHdrMLB (sf : Bool) (t v p : Str) : Bool :=
  decide (t ≠ []) && t.all isWord && p.all (fun x => x != AT && x != LF && x != CR) &&
  v.all (fun x => x != CR) && trimSpace v == v && (!isRecordTag t || v == []) &&
  ((splitLF v).2.isEmpty || !(splitLF v).1.isEmpty) &&
  (splitLF v).2.all (contOKB sf)

mutual
def legalMLT (sf : Bool) : Node → Bool
  | .mk t v p ks =>
    legalHdrMLB (sf || t == tFAM) t v p && (!isRoleTag t || sf) && legalMLF (sf || t == tFAM) ks
def legalMLF (sf : Bool) : List Node → Bool
  | [] => true
  | n :: ns => legalMLT sf n && legalMLF (famAfterT sf n) ns
end

def legalMLDocB (d : Doc) : Bool := legalMLF false d.nodes

end Gedcom.Dec
