/-
  Target languages of the source translators for package q (harness/extract_querysrc.go):

  * the decision structure of q/binary_expr.go — the condition under which `binaryFloats` reports
    "both sides are numbers" (`NumCond` over the four facts the Go code looks at: ParseFloat
    succeeded left / right, the value is NaN left / right), the functions `compareStrings` applies
    to each side, and for every operator function whether it is "numeric relation, else text
    relation" (`FnBody.numericElseText`) or the negation of another function, plus the
    `Operators` table (name ↦ function) read from the composite literal;
  * the index arithmetic of First / Last (q/first_expr.go, q/last_expr.go) between the
    `strconv.Atoi` of the argument and the final `in.Slice(lo, hi)`: straight-line statements over
    integer expressions (`Stmt`, `IExp`, `BExp`).

  Anything the translator does not recognise becomes `.bad` and is rejected by an obligation in
  Props/C16.  `srcApply` / `run` interpret the translated pieces; Props/C16 proves them equal to
  the hand-written `applyOpStr` / `firstN` / `lastN` of Model/Query.lean for all inputs.
  Core Lean only.
-/
import Gedcom.Model.Query
namespace Gedcom.QuerySrc
open Gedcom.Q

/-! ### operators -/

inductive RelOp where
  | eq | ne | lt | le | gt | ge | bad
deriving Repr, DecidableEq, Inhabited

def RelOp.holds : RelOp → Ord3 → Option Bool
  | .eq, o => some (o == .eq)
  | .ne, o => some (o != .eq)
  | .lt, o => some (o == .lt)
  | .le, o => some (o != .gt)
  | .gt, o => some (o == .gt)
  | .ge, o => some (o != .lt)
  | .bad, _ => none

/-- the condition of `binaryFloats` over: `errLeft == nil`, `errRight == nil`,
    `math.IsNaN(floatLeft)`, `math.IsNaN(floatRight)` -/
inductive NumCond where
  | okL | okR | nanL | nanR
  | not (c : NumCond)
  | and (a b : NumCond)
  | bad
deriving Repr, DecidableEq, Inhabited

def NumCond.eval (okL okR nanL nanR : Bool) : NumCond → Bool
  | .okL => okL | .okR => okR | .nanL => nanL | .nanR => nanR
  | .not c => !(c.eval okL okR nanL nanR)
  | .and a b => a.eval okL okR nanL nanR && b.eval okL okR nanL nanR
  | .bad => false

def NumCond.ok : NumCond → Bool
  | .bad => false
  | .not c => c.ok
  | .and a b => a.ok && b.ok
  | _ => true

inductive FnBody where
  /-- `if l, r, ok := binaryFloats(sLeft, sRight); ok { return l <num> r }` then
      `return compareStrings(sLeft, sRight, func(s, t) { return s <text> t })` -/
  | numericElseText (num text : RelOp)
  /-- `result, err := f(left, right); … return !result` -/
  | negationOf (fn : String)
  | bad
deriving Repr, DecidableEq, Inhabited

def FnBody.ok : FnBody → Bool
  | .numericElseText n t => n != .bad && t != .bad
  | .negationOf _ => true
  | .bad => false

structure OpsSrc where
  numericCond : NumCond
  /-- bit size literal of the two `strconv.ParseFloat` calls (0 when they were not recognised) -/
  parseBits : Nat
  /-- functions `compareStrings` applies to its first / second argument, innermost first -/
  normLeft : List String
  normRight : List String
  fns : List (String × FnBody)
  /-- `Operators`: operator name ↦ function identifier, in source order -/
  table : List (String × String)
deriving Repr, Inhabited

def knownNorm (f : String) : Bool := f == "ToLower" || f == "TrimSpace"

def OpsSrc.ok (s : OpsSrc) : Bool :=
  s.numericCond.ok && s.parseBits == 64 && s.normLeft.all knownNorm && s.normRight.all knownNorm &&
  s.fns.all (fun f => f.2.ok) && !s.table.isEmpty &&
  s.table.all (fun e => (s.fns.lookup e.2).isSome) &&
  s.fns.all (fun f => match f.2 with | .negationOf g => (s.fns.lookup g).isSome | _ => true)

/-- `strings.ToLower` / `strings.TrimSpace` by name; beyond ASCII `ToLower` is not modelled -/
def applyNorm : List String → Str → Option Str
  | [], s => some s
  | f :: fs, s =>
    if f == "ToLower" then (if isAsciiStr s then applyNorm fs (toLowerAscii s) else none)
    else if f == "TrimSpace" then applyNorm fs (trimSpace s)
    else none

/-- float64 comparison of two parsed numbers (exact where the model is exact) -/
def numericCmp : Num → Num → Cmp
  | .nan, _ => .unordered
  | _, .nan => .unordered
  | .inexact, _ => .undetermined
  | _, .inexact => .undetermined
  | .inf a, .inf b => .numeric (if a == b then .eq else if a then .lt else .gt)
  | .inf a, _ => .numeric (if a then .lt else .gt)
  | _, .inf b => .numeric (if b then .gt else .lt)
  | .fin n1 m1 e1, .fin n2 m2 e2 => .numeric (cmpFin n1 m1 e1 n2 m2 e2)

/-- `compareStrings`: both sides normalised, then compared bytewise -/
def textCmp (normLeft normRight : List String) (l r : Str) : Cmp :=
  match applyNorm normLeft l, applyNorm normRight r with
  | some a, some b => .text (cmpStr a b)
  | _, _ => .undetermined

/-- both sides were accepted by ParseFloat: the float64 comparison -/
def bothNumeric (nl nr : Option Num) : Cmp :=
  match nl, nr with
  | some a, some b => numericCmp a b
  | _, _ => .undetermined

/-- the decision of the source: numeric when `binaryFloats`' condition holds, else text after
    the normalisation of `compareStrings` -/
def srcCmp (s : OpsSrc) (l r : Str) : Cmp :=
  let nl := parseNum l
  let nr := parseNum r
  if s.numericCond.eval nl.isSome nr.isSome (nl == some .nan) (nr == some .nan) then bothNumeric nl nr
  else textCmp s.normLeft s.normRight l r

def evalFn (s : OpsSrc) : Nat → String → Str → Str → Option Bool
  | 0, _, _, _ => none
  | fuel + 1, f, l, r =>
    match s.fns.lookup f with
    | some (.numericElseText num text) =>
      match srcCmp s l r with
      | .numeric o => num.holds o
      | .text o => text.holds o
      | _ => none
    | some (.negationOf g) => (evalFn s fuel g l r).map (!·)
    | _ => none

/-- the operator `op` of the `Operators` table applied to two rendered operands -/
def srcApply (s : OpsSrc) (op : String) (l r : Str) : Option Bool :=
  match s.table.lookup op with
  | some f => evalFn s 2 f l r
  | none => none

/-! ### First / Last -/

inductive IExp where
  | len                       -- in.Len()
  | var (name : String)
  | lit (i : Int)
  | add (a b : IExp)
  | sub (a b : IExp)
  | bad
deriving Repr, DecidableEq, Inhabited

inductive BExp where
  | eq (a b : IExp) | ge (a b : IExp) | gt (a b : IExp) | lt (a b : IExp) | le (a b : IExp)
  | bad
deriving Repr, DecidableEq, Inhabited

inductive Stmt where
  | assign (v : String) (e : IExp)                 -- v := e / v = e
  | ifAssign (c : BExp) (v : String) (e : IExp)    -- if c { v = e }
  | ifReturn (c : BExp) (lo hi : IExp)             -- if c { return in.Slice(lo, hi) }
  | ret (lo hi : IExp)                             -- return in.Slice(lo, hi)
  | bad
deriving Repr, DecidableEq, Inhabited

def IExp.ok : IExp → Bool
  | .bad => false
  | .add a b | .sub a b => a.ok && b.ok
  | _ => true
def BExp.ok : BExp → Bool
  | .bad => false
  | .eq a b | .ge a b | .gt a b | .lt a b | .le a b => a.ok && b.ok
def Stmt.ok : Stmt → Bool
  | .bad => false
  | .assign _ e => e.ok
  | .ifAssign c _ e => c.ok && e.ok
  | .ifReturn c lo hi => c.ok && lo.ok && hi.ok
  | .ret lo hi => lo.ok && hi.ok

abbrev Env := List (String × Int)

def IExp.eval (env : Env) (len : Int) : IExp → Option Int
  | .len => some len
  | .var v => env.lookup v
  | .lit i => some i
  | .add a b => do let x ← a.eval env len; let y ← b.eval env len; pure (x + y)
  | .sub a b => do let x ← a.eval env len; let y ← b.eval env len; pure (x - y)
  | .bad => none

def BExp.eval (env : Env) (len : Int) : BExp → Option Bool
  | .eq a b => do let x ← a.eval env len; let y ← b.eval env len; pure (x == y)
  | .ge a b => do let x ← a.eval env len; let y ← b.eval env len; pure (decide (x ≥ y))
  | .gt a b => do let x ← a.eval env len; let y ← b.eval env len; pure (decide (x > y))
  | .lt a b => do let x ← a.eval env len; let y ← b.eval env len; pure (decide (x < y))
  | .le a b => do let x ← a.eval env len; let y ← b.eval env len; pure (decide (x ≤ y))
  | .bad => none

/-- run the statements; the result is the pair of bounds handed to `in.Slice` -/
def run (len : Int) : List Stmt → Env → Option (Int × Int)
  | [], _ => none
  | .assign v e :: rest, env => do
    let x ← e.eval env len
    run len rest ((v, x) :: env)
  | .ifAssign c v e :: rest, env => do
    let b ← c.eval env len
    if b then do
      let x ← e.eval env len
      run len rest ((v, x) :: env)
    else run len rest env
  | .ifReturn c lo hi :: rest, env => do
    let b ← c.eval env len
    if b then do
      let x ← lo.eval env len
      let y ← hi.eval env len
      pure (x, y)
    else run len rest env
  | .ret lo hi :: _, env => do
    let x ← lo.eval env len
    let y ← hi.eval env len
    pure (x, y)
  | .bad :: _, _ => none

/-- `reflect.Value.Slice(lo, hi)` on a list whose capacity is its length: a panic outside
    `0 ≤ lo ≤ hi ≤ len` -/
def sliceResult (vs : List Val) : Option (Int × Int) → Outcome (List Val)
  | none => .unsupported "statements outside the translated fragment"
  | some (lo, hi) =>
    if lo < 0 ∨ hi < lo ∨ hi > (vs.length : Int) then .panic .sliceBounds
    else .ok ((vs.drop lo.toNat).take (hi - lo).toNat)

end Gedcom.QuerySrc
