/-
  `MergeDocumentsAndIndividuals` (merge.go:255) at the level the property's "links" clause talks
  about: records, their pointers and their reference lines.

  A document is its INDI records (pointer + FAMS/FAMC lines) and its FAM records (pointer +
  HUSB/WIFE/CHIL lines); pointers are numbers.  The matching of individuals (`IndividualNodes.
  Compare`, C11) is an *input*: a list of pairs / left-only / right-only entries in the order the
  comparisons arrive.  Modelled as coded:
  * `IndividualNodes.Merge`: a pair becomes `MergeNodes(left, right)` — a copy of the left record
    (so it keeps the **left pointer**) whose lines are the left lines followed by every right line
    that `Equals` (same tag and value) no line present so far; unmatched individuals pass through;
  * `MergeNodeSlices(leftOther, rightOther, EqualityMergeFunction)` on the FAM records: a family
    `Equals` another iff tag, value and pointer agree, so a right family is merged into the left
    family with its pointer (lines merged as above) and is appended otherwise.  The order of the
    output records is not modelled (the observation is sorted); pointers are unique inside each
    input document (generator invariant, stated in props/C10.json);
  * there is no pointer-rewriting step.
-/
namespace Gedcom.MergeG

/-- a reference line: role (0 HUSB, 1 WIFE, 2 CHIL, 3 FAMS, 4 FAMC) and target pointer -/
abbrev Ref := Nat × Nat

structure Rcd where
  ptr : Nat
  refs : List Ref
deriving DecidableEq, Repr, Inhabited

structure G where
  indis : List Rcd
  fams : List Rcd
deriving DecidableEq, Repr, Inhabited

/-- one `IndividualComparison`: indexes into the left / right individuals -/
inductive M
  | both (i j : Nat)
  | left (i : Nat)
  | right (j : Nat)
deriving DecidableEq, Repr, Inhabited

/-- the children loop of `MergeNodes` on childless lines -/
def mergeRefs (l r : List Ref) : List Ref :=
  r.foldl (fun acc x => if acc.contains x then acc else acc ++ [x]) l

/-- the output individual of one comparison, with the inputs it accounts for
    (`false` = left document, `true` = right document) -/
def mergeOne (l r : List Rcd) : M → Option (Rcd × List (Bool × Nat))
  | .both i j =>
    match l[i]?, r[j]? with
    | some a, some b => some (⟨a.ptr, mergeRefs a.refs b.refs⟩, [(false, i), (true, j)])
    | _, _ => none
  | .left i => (l[i]?).map fun a => (a, [(false, i)])
  | .right j => (r[j]?).map fun b => (b, [(true, j)])

def mergeIndisSrc (m : List M) (l r : List Rcd) : List (Rcd × List (Bool × Nat)) :=
  m.filterMap (mergeOne l r)

def mergeIndis (m : List M) (l r : List Rcd) : List Rcd := (mergeIndisSrc m l r).map (·.1)

/-- `MergeNodeSlices(leftOther, rightOther, …, EqualityMergeFunction)` on the families -/
def mergeFams (lf rf : List Rcd) : List Rcd :=
  lf.map (fun f =>
    match rf.find? (fun g => g.ptr == f.ptr) with
    | some g => ⟨f.ptr, mergeRefs f.refs g.refs⟩
    | none => f) ++
  rf.filter (fun g => !lf.any (fun f => f.ptr == g.ptr))

def mergeG (m : List M) (l r : G) : G := ⟨mergeIndis m l.indis r.indis, mergeFams l.fams r.fams⟩

def indiPtrs (g : G) : List Nat := g.indis.map (·.ptr)
def famPtrs (g : G) : List Nat := g.fams.map (·.ptr)

/-- every HUSB/WIFE/CHIL value names an INDI record and every FAMS/FAMC value a FAM record -/
def resolves (g : G) : Prop :=
  (∀ f ∈ g.fams, ∀ x ∈ f.refs, x.2 ∈ indiPtrs g) ∧ (∀ i ∈ g.indis, ∀ x ∈ i.refs, x.2 ∈ famPtrs g)

instance (g : G) : Decidable (resolves g) := by unfold resolves; exact inferInstance

/-- comparison `x` merges the right individual at index `j` into a left individual -/
def isPairR (j : Nat) : M → Bool
  | .both _ j' => j' == j
  | _ => false

/-- what the known finding `merge-does-not-rewrite-pointers` describes: pointer `p` is carried by
    no left individual, by some right individual, and every right individual that carries it is
    merged into a left individual (whose record keeps the left pointer) — after the merge no
    record is called `p` -/
def mergedAway (m : List M) (l r : List Rcd) (p : Nat) : Bool :=
  !(l.any fun a => a.ptr == p) && (r.any fun b => b.ptr == p) &&
  (List.range r.length).all fun j =>
    match r[j]? with
    | some b => b.ptr != p || m.any (isPairR j)
    | none => true

/-- the HUSB / WIFE / CHIL lines of the merged families whose target has been merged away -/
def danglingRefs (m : List M) (l r : G) : List (Nat × Ref) :=
  (mergeG m l r).fams.flatMap fun f =>
    (f.refs.filter fun x => mergedAway m l.indis r.indis x.2).map fun x => (f.ptr, x)

end Gedcom.MergeG
