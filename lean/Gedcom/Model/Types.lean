/-
  Shared plain types of the model.  Core Lean only (the driver links against this).
-/
namespace Gedcom

/-- Go strings are byte strings. -/
abbrev Str := List UInt8

/-- Position of one endpoint of the receiver relative to the argument range
    (`compareDatesForLetter` in date_range.go).  Go also names a letter `B`,
    which the function never returns ("a and B would be the same thing"). -/
inductive Letter | b | e | a | E | A
deriving DecidableEq, Repr, Inhabited

/-- `DateRangeComparison` constants, in the order of their `iota` values. -/
inductive Rel
  | invalid | equal | inside | insideStart | insideEnd
  | outside | outsideStart | outsideEnd
  | partiallyBefore | partiallyAfter | before | after
  | entirelyBefore | entirelyAfter
deriving DecidableEq, Repr, Inhabited

def Rel.name : Rel → String
  | .invalid => "Invalid" | .equal => "Equal" | .inside => "Inside"
  | .insideStart => "InsideStart" | .insideEnd => "InsideEnd"
  | .outside => "Outside" | .outsideStart => "OutsideStart" | .outsideEnd => "OutsideEnd"
  | .partiallyBefore => "PartiallyBefore" | .partiallyAfter => "PartiallyAfter"
  | .before => "Before" | .after => "After"
  | .entirelyBefore => "EntirelyBefore" | .entirelyAfter => "EntirelyAfter"

def Rel.all : List Rel :=
  [.invalid, .equal, .inside, .insideStart, .insideEnd, .outside, .outsideStart, .outsideEnd,
   .partiallyBefore, .partiallyAfter, .before, .after, .entirelyBefore, .entirelyAfter]

/-- `DateConstraint` constants in `iota` order. -/
inductive Constraint | exact | about | before | after
deriving DecidableEq, Repr, Inhabited

def Constraint.toNat : Constraint → Nat
  | .exact => 0 | .about => 1 | .before => 2 | .after => 3

end Gedcom
