/-
  C14: the checks on the regenerated table of partial operations (Generated/PartialOps.lean), as
  executable functions (the driver reports the same counts the Go sweep reports).
-/
import Gedcom.Generated.PartialOps
namespace Gedcom.PartialOpsTable
open Gedcom.Generated.PartialOps

/-- the totality theorems a site of class `invariant` may name (Props/C14.lean, Props/C14Ops.lean) -/
def provedTheorems : List String :=
  ["eventDate_total", "indexLetter_total", "surnameStartsWith_total", "progress_total",
   "multipleSexes_total", "nameParts_total", "surnameSlice_total", "jurisdictionalEntities_total", "monthAbbrev_total", "tag_asserts_sound"]

/-- a site is accounted for: it has a local guard, a named theorem, or a recorded reason -/
def siteClassified (s : Site) : Bool :=
  match s.cls with
  | .unclassified => false
  | _ => s.evidence != ""

def siteNamed (s : Site) : Bool :=
  match s.cls with
  | .invariant => provedTheorems.contains s.evidence
  | _ => true

def chunkClassified (c : List Site) : Bool := c.all siteClassified
def chunkNamed (c : List Site) : Bool := c.all siteNamed

def countCls (k : Cls) : Nat := (chunks.map fun c => (c.filter fun s => s.cls == k).length).foldl (· + ·) 0

/-- `local invariant exec unclassified ok` -/
def summary : String :=
  s!"local={countCls .localGuard} invariant={countCls .invariant} exec={countCls .execOnly} unclassified={countCls .unclassified} classified={chunks.all chunkClassified} named={chunks.all chunkNamed}"

end Gedcom.PartialOpsTable
